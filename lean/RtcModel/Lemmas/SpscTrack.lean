/-
C20 — invariants of the track-level interleaving model (`RtcModel.SpscTrack`) for the current code
(`Variant.cur`): lock discipline and handle accounting (`LInv`), the ring invariant seen through the
lock holders (`TInv`), the ghost-log relations, end-of-stream and wake-up facts.
Helper lemmas; the property theorems are in `Theorems/C20.lean`.
Proof recipe throughout: unfold one step for one program counter, split every branch, close the
leaves with `grind` given the small classification functions below.
-/
import RtcModel.Lemmas.Spsc
import RtcModel.SpscTrack
set_option linter.unusedSimpArgs false
set_option linter.unusedVariables false

namespace RtcModel.SpscTrack
open RtcModel.Spsc RtcModel.C20Word RtcModel.Generated

def pushView (i : Nat) : PPc → PuView
  | .push _ v _ p => some (p, (i, v))
  | _ => none
def popViewP : PPc → PoView
  | .pop _ _ p => some p
  | _ => none
def popViewC : CPc → PoView
  | .pop _ _ p => some p
  | _ => none

/-- the pusher role is played by the holder of `push_lock`, the popper role by the holder of `pop_lock` -/
def puViewOf (plock : Option Nat) (pp : Nat → PPc) : PuView :=
  match plock with
  | some i => pushView i (pp i)
  | none => none
def poViewOf (poplock : Option Tid) (pp : Nat → PPc) (cp : CPc) : PoView :=
  match poplock with
  | some (.prod i) => popViewP (pp i)
  | some .cons => popViewC cp
  | some .stop => none
  | none => none
def St.puView (s : St) : PuView :=
  match s.plock with
  | some i => pushView i (s.pp i)
  | none => none
def St.poView (s : St) : PoView :=
  match s.poplock with
  | some (.prod i) => popViewP (s.pp i)
  | some .cons => popViewC s.cp
  | _ => none
theorem St.puView_eq (s : St) : s.puView = puViewOf s.plock s.pp := by
  unfold St.puView puViewOf; rfl
theorem St.poView_eq (s : St) : s.poView = poViewOf s.poplock s.pp s.cp := by
  unfold St.poView poViewOf
  cases h : s.poplock with
  | none => rfl
  | some t => cases t <;> rfl

theorem puViewOf_upd_ne (pl : Option Nat) (pp : Nat → PPc) (i : Nat) (pc : PPc) (h : pl ≠ some i) :
    puViewOf pl (upd pp i pc) = puViewOf pl pp := by
  unfold puViewOf
  split
  · rename_i k; rw [upd_other]; intro e; exact h (by rw [e])
  · rfl
theorem poViewOf_upd_ne (pl : Option Tid) (pp : Nat → PPc) (cp : CPc) (i : Nat) (pc : PPc) (h : pl ≠ some (.prod i)) :
    poViewOf pl (upd pp i pc) cp = poViewOf pl pp cp := by
  unfold poViewOf
  split
  · rename_i k; rw [upd_other]; intro e; exact h (by rw [e])
  · rfl
  · rfl
  · rfl

def holdsPush : PPc → Bool
  | .chk .. | .push .. | .ntf .. | .tryLock .. | .pop .. => true
  | _ => false
def holdsPopP : PPc → Bool
  | .pop .. => true
  | .push c .. => c == Ctx.second
  | .ntf c _ => c == Ctx.second
  | _ => false


def holdsPopC : CPc → Bool
  | .ldClosed1 _ | .pop .. | .ldClosedOld | .stEnded => true
  | _ => false
def hasHandle : PPc → Bool
  | .none | .reserved | .gone | .stClosed | .ntfW => false
  | _ => true

structure LInv (s : St) : Prop where
  var : s.v = Variant.cur
  plockIff : ∀ i, holdsPush (s.pp i) = true ↔ s.plock = some i
  poplockP : ∀ i, holdsPopP (s.pp i) = true ↔ s.poplock = some (.prod i)
  poplockC : holdsPopC s.cp = true ↔ s.poplock = some .cons
  poplockStop : s.poplock ≠ some .stop
  cloneRes : ∀ i j, s.pp i = .clone j → s.pp j = .reserved
  cloneUniq : ∀ i i' j, s.pp i = .clone j → s.pp i' = .clone j → i = i'
  liveIff : ∀ i, i ∈ s.live ↔ hasHandle (s.pp i) = true
  liveNodup : s.live.Nodup
  sendersEq : s.senders = s.live.length
  closedNoLive : s.closed = true → s.live = []
  stClosedNoLive : ∀ i, s.pp i = .stClosed → s.live = []





theorem stepP_LInv_none (s : St) (i : Nat) (op : Option POp)  (hpc : s.pp i = .none ) (h : LInv s) : LInv (stepP s i op) := by
  obtain ⟨hv, h1, h2, h3, h4, h5, h6, h7, h8, h9, h10, h11⟩ := h
  have hp : s.v.plock = true := by rw [hv]; rfl
  have hq : s.v.pipe = false := by rw [hv]; rfl
  simp only [stepP, hpc, startP, St.endSample, St.beginSample, St.setP, hp, hq, Bool.false_eq_true, if_false, if_true, trackCloneInc_val, trackDropDec_val, trackCloseWhenPrev_val]
  repeat' split
  all_goals first
    | exact ⟨hv, h1, h2, h3, h4, h5, h6, h7, h8, h9, h10, h11⟩
    | (refine ⟨?_, ?_, ?_, ?_, ?_, ?_, ?_, ?_, ?_, ?_, ?_, ?_⟩
       all_goals (try intro j)
       all_goals grind [upd, holdsPush, holdsPopP, holdsPopC, hasHandle])

theorem stepP_LInv_reserved (s : St) (i : Nat) (op : Option POp)  (hpc : s.pp i = .reserved ) (h : LInv s) : LInv (stepP s i op) := by
  obtain ⟨hv, h1, h2, h3, h4, h5, h6, h7, h8, h9, h10, h11⟩ := h
  have hp : s.v.plock = true := by rw [hv]; rfl
  have hq : s.v.pipe = false := by rw [hv]; rfl
  simp only [stepP, hpc, startP, St.endSample, St.beginSample, St.setP, hp, hq, Bool.false_eq_true, if_false, if_true, trackCloneInc_val, trackDropDec_val, trackCloseWhenPrev_val]
  repeat' split
  all_goals first
    | exact ⟨hv, h1, h2, h3, h4, h5, h6, h7, h8, h9, h10, h11⟩
    | (refine ⟨?_, ?_, ?_, ?_, ?_, ?_, ?_, ?_, ?_, ?_, ?_, ?_⟩
       all_goals (try intro j)
       all_goals grind [upd, holdsPush, holdsPopP, holdsPopC, hasHandle])

theorem stepP_LInv_gone (s : St) (i : Nat) (op : Option POp)  (hpc : s.pp i = .gone ) (h : LInv s) : LInv (stepP s i op) := by
  obtain ⟨hv, h1, h2, h3, h4, h5, h6, h7, h8, h9, h10, h11⟩ := h
  have hp : s.v.plock = true := by rw [hv]; rfl
  have hq : s.v.pipe = false := by rw [hv]; rfl
  simp only [stepP, hpc, startP, St.endSample, St.beginSample, St.setP, hp, hq, Bool.false_eq_true, if_false, if_true, trackCloneInc_val, trackDropDec_val, trackCloseWhenPrev_val]
  repeat' split
  all_goals first
    | exact ⟨hv, h1, h2, h3, h4, h5, h6, h7, h8, h9, h10, h11⟩
    | (refine ⟨?_, ?_, ?_, ?_, ?_, ?_, ?_, ?_, ?_, ?_, ?_, ?_⟩
       all_goals (try intro j)
       all_goals grind [upd, holdsPush, holdsPopP, holdsPopC, hasHandle])

theorem stepP_LInv_idle (s : St) (i : Nat) (op : Option POp)  (hpc : s.pp i = .idle ) (h : LInv s) : LInv (stepP s i op) := by
  obtain ⟨hv, h1, h2, h3, h4, h5, h6, h7, h8, h9, h10, h11⟩ := h
  have hp : s.v.plock = true := by rw [hv]; rfl
  have hq : s.v.pipe = false := by rw [hv]; rfl
  simp only [stepP, hpc, startP, St.endSample, St.beginSample, St.setP, hp, hq, Bool.false_eq_true, if_false, if_true, trackCloneInc_val, trackDropDec_val, trackCloseWhenPrev_val]
  repeat' split
  all_goals first
    | exact ⟨hv, h1, h2, h3, h4, h5, h6, h7, h8, h9, h10, h11⟩
    | (refine ⟨?_, ?_, ?_, ?_, ?_, ?_, ?_, ?_, ?_, ?_, ?_, ?_⟩
       all_goals (try intro j)
       all_goals grind [upd, holdsPush, holdsPopP, holdsPopC, hasHandle])

theorem stepP_LInv_acq (s : St) (i : Nat) (op : Option POp) (k v rest) (hpc : s.pp i = .acq k v rest) (h : LInv s) : LInv (stepP s i op) := by
  obtain ⟨hv, h1, h2, h3, h4, h5, h6, h7, h8, h9, h10, h11⟩ := h
  have hp : s.v.plock = true := by rw [hv]; rfl
  have hq : s.v.pipe = false := by rw [hv]; rfl
  simp only [stepP, hpc, startP, St.endSample, St.beginSample, St.setP, hp, hq, Bool.false_eq_true, if_false, if_true, trackCloneInc_val, trackDropDec_val, trackCloseWhenPrev_val]
  repeat' split
  all_goals first
    | exact ⟨hv, h1, h2, h3, h4, h5, h6, h7, h8, h9, h10, h11⟩
    | (refine ⟨?_, ?_, ?_, ?_, ?_, ?_, ?_, ?_, ?_, ?_, ?_, ?_⟩
       all_goals (try intro j)
       all_goals grind [upd, holdsPush, holdsPopP, holdsPopC, hasHandle])

theorem stepP_LInv_chk (s : St) (i : Nat) (op : Option POp) (k v rest) (hpc : s.pp i = .chk k v rest) (h : LInv s) : LInv (stepP s i op) := by
  obtain ⟨hv, h1, h2, h3, h4, h5, h6, h7, h8, h9, h10, h11⟩ := h
  have hp : s.v.plock = true := by rw [hv]; rfl
  have hq : s.v.pipe = false := by rw [hv]; rfl
  simp only [stepP, hpc, startP, St.endSample, St.beginSample, St.setP, hp, hq, Bool.false_eq_true, if_false, if_true, trackCloneInc_val, trackDropDec_val, trackCloseWhenPrev_val]
  repeat' split
  all_goals first
    | exact ⟨hv, h1, h2, h3, h4, h5, h6, h7, h8, h9, h10, h11⟩
    | (refine ⟨?_, ?_, ?_, ?_, ?_, ?_, ?_, ?_, ?_, ?_, ?_, ?_⟩
       all_goals (try intro j)
       all_goals grind [upd, holdsPush, holdsPopP, holdsPopC, hasHandle])

theorem stepP_LInv_push (s : St) (i : Nat) (op : Option POp) (c v rest p) (hpc : s.pp i = .push c v rest p) (h : LInv s) : LInv (stepP s i op) := by
  obtain ⟨hv, h1, h2, h3, h4, h5, h6, h7, h8, h9, h10, h11⟩ := h
  have hp : s.v.plock = true := by rw [hv]; rfl
  have hq : s.v.pipe = false := by rw [hv]; rfl
  simp only [stepP, hpc, startP, St.endSample, St.beginSample, St.setP, hp, hq, Bool.false_eq_true, if_false, if_true, trackCloneInc_val, trackDropDec_val, trackCloseWhenPrev_val]
  repeat' split
  all_goals first
    | exact ⟨hv, h1, h2, h3, h4, h5, h6, h7, h8, h9, h10, h11⟩
    | (refine ⟨?_, ?_, ?_, ?_, ?_, ?_, ?_, ?_, ?_, ?_, ?_, ?_⟩
       all_goals (try intro j)
       all_goals grind [upd, holdsPush, holdsPopP, holdsPopC, hasHandle])

theorem stepP_LInv_ntf (s : St) (i : Nat) (op : Option POp) (c rest) (hpc : s.pp i = .ntf c rest) (h : LInv s) : LInv (stepP s i op) := by
  obtain ⟨hv, h1, h2, h3, h4, h5, h6, h7, h8, h9, h10, h11⟩ := h
  have hp : s.v.plock = true := by rw [hv]; rfl
  have hq : s.v.pipe = false := by rw [hv]; rfl
  simp only [stepP, hpc, startP, St.endSample, St.beginSample, St.setP, hp, hq, Bool.false_eq_true, if_false, if_true, trackCloneInc_val, trackDropDec_val, trackCloseWhenPrev_val]
  repeat' split
  all_goals first
    | exact ⟨hv, h1, h2, h3, h4, h5, h6, h7, h8, h9, h10, h11⟩
    | (refine ⟨?_, ?_, ?_, ?_, ?_, ?_, ?_, ?_, ?_, ?_, ?_, ?_⟩
       all_goals (try intro j)
       all_goals grind [upd, holdsPush, holdsPopP, holdsPopC, hasHandle])

theorem stepP_LInv_tryLock (s : St) (i : Nat) (op : Option POp) (v rest) (hpc : s.pp i = .tryLock v rest) (h : LInv s) : LInv (stepP s i op) := by
  obtain ⟨hv, h1, h2, h3, h4, h5, h6, h7, h8, h9, h10, h11⟩ := h
  have hp : s.v.plock = true := by rw [hv]; rfl
  have hq : s.v.pipe = false := by rw [hv]; rfl
  simp only [stepP, hpc, startP, St.endSample, St.beginSample, St.setP, hp, hq, Bool.false_eq_true, if_false, if_true, trackCloneInc_val, trackDropDec_val, trackCloseWhenPrev_val]
  repeat' split
  all_goals first
    | exact ⟨hv, h1, h2, h3, h4, h5, h6, h7, h8, h9, h10, h11⟩
    | (refine ⟨?_, ?_, ?_, ?_, ?_, ?_, ?_, ?_, ?_, ?_, ?_, ?_⟩
       all_goals (try intro j)
       all_goals grind [upd, holdsPush, holdsPopP, holdsPopC, hasHandle])

theorem stepP_LInv_pop (s : St) (i : Nat) (op : Option POp) (v rest p) (hpc : s.pp i = .pop v rest p) (h : LInv s) : LInv (stepP s i op) := by
  obtain ⟨hv, h1, h2, h3, h4, h5, h6, h7, h8, h9, h10, h11⟩ := h
  have hp : s.v.plock = true := by rw [hv]; rfl
  have hq : s.v.pipe = false := by rw [hv]; rfl
  simp only [stepP, hpc, startP, St.endSample, St.beginSample, St.setP, hp, hq, Bool.false_eq_true, if_false, if_true, trackCloneInc_val, trackDropDec_val, trackCloseWhenPrev_val]
  repeat' split
  all_goals first
    | exact ⟨hv, h1, h2, h3, h4, h5, h6, h7, h8, h9, h10, h11⟩
    | (refine ⟨?_, ?_, ?_, ?_, ?_, ?_, ?_, ?_, ?_, ?_, ?_, ?_⟩
       all_goals (try intro j)
       all_goals grind [upd, holdsPush, holdsPopP, holdsPopC, hasHandle])

theorem stepP_LInv_clone (s : St) (i : Nat) (op : Option POp) (j') (hpc : s.pp i = .clone j') (h : LInv s) : LInv (stepP s i op) := by
  obtain ⟨hv, h1, h2, h3, h4, h5, h6, h7, h8, h9, h10, h11⟩ := h
  have hp : s.v.plock = true := by rw [hv]; rfl
  have hq : s.v.pipe = false := by rw [hv]; rfl
  have hres := h5 i j' hpc
  have hnm : j' ∉ s.live := fun hm => by have := (h7 j').1 hm; simp [hres, hasHandle] at this
  have hnd : (s.live ++ [j']).Nodup := by
    rw [List.nodup_append]; exact ⟨h8, by simp, by intro a ha b hb; simp at hb; subst hb; exact fun e => hnm (e ▸ ha)⟩
  have hlen : (s.live ++ [j']).length = s.live.length + 1 := by simp
  simp only [stepP, hpc, startP, St.endSample, St.beginSample, St.setP, hp, hq, Bool.false_eq_true, if_false, if_true, trackCloneInc_val, trackDropDec_val, trackCloseWhenPrev_val]
  repeat' split
  all_goals first
    | exact ⟨hv, h1, h2, h3, h4, h5, h6, h7, h8, h9, h10, h11⟩
    | (refine ⟨?_, ?_, ?_, ?_, ?_, ?_, ?_, ?_, ?_, ?_, ?_, ?_⟩
       all_goals (try intro j)
       all_goals grind [upd, holdsPush, holdsPopP, holdsPopC, hasHandle])

theorem stepP_LInv_fetchSub (s : St) (i : Nat) (op : Option POp)  (hpc : s.pp i = .fetchSub ) (h : LInv s) : LInv (stepP s i op) := by
  obtain ⟨hv, h1, h2, h3, h4, h5, h6, h7, h8, h9, h10, h11⟩ := h
  have hp : s.v.plock = true := by rw [hv]; rfl
  have hq : s.v.pipe = false := by rw [hv]; rfl
  have hmem : i ∈ s.live := (h7 i).2 (by simp [hpc, hasHandle])
  have hlen := List.length_erase_of_mem hmem
  have hnd := h8.erase i
  have hpos : 0 < s.live.length := List.length_pos_of_mem hmem
  have hnil : s.live.length = 1 → s.live.erase i = [] := fun h => List.eq_nil_of_length_eq_zero (by omega)
  have hme : ∀ j, j ∈ s.live.erase i ↔ j ≠ i ∧ j ∈ s.live := fun j => h8.mem_erase_iff
  simp only [stepP, hpc, startP, St.endSample, St.beginSample, St.setP, hp, hq, Bool.false_eq_true, if_false, if_true, trackCloneInc_val, trackDropDec_val, trackCloseWhenPrev_val]
  by_cases hs : s.senders = 1 <;> simp only [hs, if_true, if_false]
  all_goals first
    | exact ⟨hv, h1, h2, h3, h4, h5, h6, h7, h8, h9, h10, h11⟩
    | (refine ⟨?_, ?_, ?_, ?_, ?_, ?_, ?_, ?_, ?_, ?_, ?_, ?_⟩
       all_goals (try intro j)
       all_goals grind [upd, holdsPush, holdsPopP, holdsPopC, hasHandle])

theorem stepP_LInv_stClosed (s : St) (i : Nat) (op : Option POp)  (hpc : s.pp i = .stClosed ) (h : LInv s) : LInv (stepP s i op) := by
  obtain ⟨hv, h1, h2, h3, h4, h5, h6, h7, h8, h9, h10, h11⟩ := h
  have hp : s.v.plock = true := by rw [hv]; rfl
  have hq : s.v.pipe = false := by rw [hv]; rfl
  simp only [stepP, hpc, startP, St.endSample, St.beginSample, St.setP, hp, hq, Bool.false_eq_true, if_false, if_true, trackCloneInc_val, trackDropDec_val, trackCloseWhenPrev_val]
  repeat' split
  all_goals first
    | exact ⟨hv, h1, h2, h3, h4, h5, h6, h7, h8, h9, h10, h11⟩
    | (refine ⟨?_, ?_, ?_, ?_, ?_, ?_, ?_, ?_, ?_, ?_, ?_, ?_⟩
       all_goals (try intro j)
       all_goals grind [upd, holdsPush, holdsPopP, holdsPopC, hasHandle])

theorem stepP_LInv_ntfW (s : St) (i : Nat) (op : Option POp)  (hpc : s.pp i = .ntfW ) (h : LInv s) : LInv (stepP s i op) := by
  obtain ⟨hv, h1, h2, h3, h4, h5, h6, h7, h8, h9, h10, h11⟩ := h
  have hp : s.v.plock = true := by rw [hv]; rfl
  have hq : s.v.pipe = false := by rw [hv]; rfl
  simp only [stepP, hpc, startP, St.endSample, St.beginSample, St.setP, hp, hq, Bool.false_eq_true, if_false, if_true, trackCloneInc_val, trackDropDec_val, trackCloseWhenPrev_val]
  repeat' split
  all_goals first
    | exact ⟨hv, h1, h2, h3, h4, h5, h6, h7, h8, h9, h10, h11⟩
    | (refine ⟨?_, ?_, ?_, ?_, ?_, ?_, ?_, ?_, ?_, ?_, ?_, ?_⟩
       all_goals (try intro j)
       all_goals grind [upd, holdsPush, holdsPopP, holdsPopC, hasHandle])

theorem stepC_LInv_idle (s : St) (start : Bool)  (hpc : s.cp = .idle ) (h : LInv s) : LInv (stepC s start) := by
  obtain ⟨hv, h1, h2, h3, h4, h5, h6, h7, h8, h9, h10, h11⟩ := h
  have hr : s.v.rfix = true := by rw [hv]; rfl
  simp only [stepC, hpc, St.loopTop, St.retC, hr, if_true]
  repeat' split
  all_goals first
    | exact ⟨hv, h1, h2, h3, h4, h5, h6, h7, h8, h9, h10, h11⟩
    | (refine ⟨?_, ?_, ?_, ?_, ?_, ?_, ?_, ?_, ?_, ?_, ?_, ?_⟩
       all_goals (try intro j)
       all_goals grind [upd, holdsPush, holdsPopP, holdsPopC, hasHandle])

theorem stepC_LInv_mkNtf (s : St) (start : Bool)  (hpc : s.cp = .mkNtf ) (h : LInv s) : LInv (stepC s start) := by
  obtain ⟨hv, h1, h2, h3, h4, h5, h6, h7, h8, h9, h10, h11⟩ := h
  have hr : s.v.rfix = true := by rw [hv]; rfl
  simp only [stepC, hpc, St.loopTop, St.retC, hr, if_true]
  repeat' split
  all_goals first
    | exact ⟨hv, h1, h2, h3, h4, h5, h6, h7, h8, h9, h10, h11⟩
    | (refine ⟨?_, ?_, ?_, ?_, ?_, ?_, ?_, ?_, ?_, ?_, ?_, ?_⟩
       all_goals (try intro j)
       all_goals grind [upd, holdsPush, holdsPopP, holdsPopC, hasHandle])

theorem stepC_LInv_ldEnded (s : St) (start : Bool) (g) (hpc : s.cp = .ldEnded g) (h : LInv s) : LInv (stepC s start) := by
  obtain ⟨hv, h1, h2, h3, h4, h5, h6, h7, h8, h9, h10, h11⟩ := h
  have hr : s.v.rfix = true := by rw [hv]; rfl
  simp only [stepC, hpc, St.loopTop, St.retC, hr, if_true]
  repeat' split
  all_goals first
    | exact ⟨hv, h1, h2, h3, h4, h5, h6, h7, h8, h9, h10, h11⟩
    | (refine ⟨?_, ?_, ?_, ?_, ?_, ?_, ?_, ?_, ?_, ?_, ?_, ?_⟩
       all_goals (try intro j)
       all_goals grind [upd, holdsPush, holdsPopP, holdsPopC, hasHandle])

theorem stepC_LInv_lock (s : St) (start : Bool) (g) (hpc : s.cp = .lock g) (h : LInv s) : LInv (stepC s start) := by
  obtain ⟨hv, h1, h2, h3, h4, h5, h6, h7, h8, h9, h10, h11⟩ := h
  have hr : s.v.rfix = true := by rw [hv]; rfl
  simp only [stepC, hpc, St.loopTop, St.retC, hr, if_true]
  repeat' split
  all_goals first
    | exact ⟨hv, h1, h2, h3, h4, h5, h6, h7, h8, h9, h10, h11⟩
    | (refine ⟨?_, ?_, ?_, ?_, ?_, ?_, ?_, ?_, ?_, ?_, ?_, ?_⟩
       all_goals (try intro j)
       all_goals grind [upd, holdsPush, holdsPopP, holdsPopC, hasHandle])

theorem stepC_LInv_ldClosed1 (s : St) (start : Bool) (g) (hpc : s.cp = .ldClosed1 g) (h : LInv s) : LInv (stepC s start) := by
  obtain ⟨hv, h1, h2, h3, h4, h5, h6, h7, h8, h9, h10, h11⟩ := h
  have hr : s.v.rfix = true := by rw [hv]; rfl
  simp only [stepC, hpc, St.loopTop, St.retC, hr, if_true]
  repeat' split
  all_goals first
    | exact ⟨hv, h1, h2, h3, h4, h5, h6, h7, h8, h9, h10, h11⟩
    | (refine ⟨?_, ?_, ?_, ?_, ?_, ?_, ?_, ?_, ?_, ?_, ?_, ?_⟩
       all_goals (try intro j)
       all_goals grind [upd, holdsPush, holdsPopP, holdsPopC, hasHandle])

theorem stepC_LInv_pop (s : St) (start : Bool) (g cl p) (hpc : s.cp = .pop g cl p) (h : LInv s) : LInv (stepC s start) := by
  obtain ⟨hv, h1, h2, h3, h4, h5, h6, h7, h8, h9, h10, h11⟩ := h
  have hr : s.v.rfix = true := by rw [hv]; rfl
  simp only [stepC, hpc, St.loopTop, St.retC, hr, if_true]
  repeat' split
  all_goals first
    | exact ⟨hv, h1, h2, h3, h4, h5, h6, h7, h8, h9, h10, h11⟩
    | (refine ⟨?_, ?_, ?_, ?_, ?_, ?_, ?_, ?_, ?_, ?_, ?_, ?_⟩
       all_goals (try intro j)
       all_goals grind [upd, holdsPush, holdsPopP, holdsPopC, hasHandle])

theorem stepC_LInv_ldClosedOld (s : St) (start : Bool)  (hpc : s.cp = .ldClosedOld ) (h : LInv s) : LInv (stepC s start) := by
  obtain ⟨hv, h1, h2, h3, h4, h5, h6, h7, h8, h9, h10, h11⟩ := h
  have hr : s.v.rfix = true := by rw [hv]; rfl
  simp only [stepC, hpc, St.loopTop, St.retC, hr, if_true]
  repeat' split
  all_goals first
    | exact ⟨hv, h1, h2, h3, h4, h5, h6, h7, h8, h9, h10, h11⟩
    | (refine ⟨?_, ?_, ?_, ?_, ?_, ?_, ?_, ?_, ?_, ?_, ?_, ?_⟩
       all_goals (try intro j)
       all_goals grind [upd, holdsPush, holdsPopP, holdsPopC, hasHandle])

theorem stepC_LInv_stEnded (s : St) (start : Bool)  (hpc : s.cp = .stEnded ) (h : LInv s) : LInv (stepC s start) := by
  obtain ⟨hv, h1, h2, h3, h4, h5, h6, h7, h8, h9, h10, h11⟩ := h
  have hr : s.v.rfix = true := by rw [hv]; rfl
  simp only [stepC, hpc, St.loopTop, St.retC, hr, if_true]
  repeat' split
  all_goals first
    | exact ⟨hv, h1, h2, h3, h4, h5, h6, h7, h8, h9, h10, h11⟩
    | (refine ⟨?_, ?_, ?_, ?_, ?_, ?_, ?_, ?_, ?_, ?_, ?_, ?_⟩
       all_goals (try intro j)
       all_goals grind [upd, holdsPush, holdsPopP, holdsPopC, hasHandle])

theorem stepC_LInv_await1 (s : St) (start : Bool) (g) (hpc : s.cp = .await1 g) (h : LInv s) : LInv (stepC s start) := by
  obtain ⟨hv, h1, h2, h3, h4, h5, h6, h7, h8, h9, h10, h11⟩ := h
  have hr : s.v.rfix = true := by rw [hv]; rfl
  simp only [stepC, hpc, St.loopTop, St.retC, hr, if_true]
  repeat' split
  all_goals first
    | exact ⟨hv, h1, h2, h3, h4, h5, h6, h7, h8, h9, h10, h11⟩
    | (refine ⟨?_, ?_, ?_, ?_, ?_, ?_, ?_, ?_, ?_, ?_, ?_, ?_⟩
       all_goals (try intro j)
       all_goals grind [upd, holdsPush, holdsPopP, holdsPopC, hasHandle])

theorem stepC_LInv_await2 (s : St) (start : Bool)  (hpc : s.cp = .await2 ) (h : LInv s) : LInv (stepC s start) := by
  obtain ⟨hv, h1, h2, h3, h4, h5, h6, h7, h8, h9, h10, h11⟩ := h
  have hr : s.v.rfix = true := by rw [hv]; rfl
  simp only [stepC, hpc, St.loopTop, St.retC, hr, if_true]
  repeat' split
  all_goals first
    | exact ⟨hv, h1, h2, h3, h4, h5, h6, h7, h8, h9, h10, h11⟩
    | (refine ⟨?_, ?_, ?_, ?_, ?_, ?_, ?_, ?_, ?_, ?_, ?_, ?_⟩
       all_goals (try intro j)
       all_goals grind [upd, holdsPush, holdsPopP, holdsPopC, hasHandle])

theorem stepC_LInv_ldClosed2 (s : St) (start : Bool)  (hpc : s.cp = .ldClosed2 ) (h : LInv s) : LInv (stepC s start) := by
  obtain ⟨hv, h1, h2, h3, h4, h5, h6, h7, h8, h9, h10, h11⟩ := h
  have hr : s.v.rfix = true := by rw [hv]; rfl
  simp only [stepC, hpc, St.loopTop, St.retC, hr, if_true]
  repeat' split
  all_goals first
    | exact ⟨hv, h1, h2, h3, h4, h5, h6, h7, h8, h9, h10, h11⟩
    | (refine ⟨?_, ?_, ?_, ?_, ?_, ?_, ?_, ?_, ?_, ?_, ?_, ?_⟩
       all_goals (try intro j)
       all_goals grind [upd, holdsPush, holdsPopP, holdsPopC, hasHandle])

theorem stepC_LInv_isEmpty (s : St) (start : Bool)  (hpc : s.cp = .isEmpty ) (h : LInv s) : LInv (stepC s start) := by
  obtain ⟨hv, h1, h2, h3, h4, h5, h6, h7, h8, h9, h10, h11⟩ := h
  have hr : s.v.rfix = true := by rw [hv]; rfl
  simp only [stepC, hpc, St.loopTop, St.retC, hr, if_true]
  repeat' split
  all_goals first
    | exact ⟨hv, h1, h2, h3, h4, h5, h6, h7, h8, h9, h10, h11⟩
    | (refine ⟨?_, ?_, ?_, ?_, ?_, ?_, ?_, ?_, ?_, ?_, ?_, ?_⟩
       all_goals (try intro j)
       all_goals grind [upd, holdsPush, holdsPopP, holdsPopC, hasHandle])

theorem stepC_LInv_stEnded2 (s : St) (start : Bool)  (hpc : s.cp = .stEnded2 ) (h : LInv s) : LInv (stepC s start) := by
  obtain ⟨hv, h1, h2, h3, h4, h5, h6, h7, h8, h9, h10, h11⟩ := h
  have hr : s.v.rfix = true := by rw [hv]; rfl
  simp only [stepC, hpc, St.loopTop, St.retC, hr, if_true]
  repeat' split
  all_goals first
    | exact ⟨hv, h1, h2, h3, h4, h5, h6, h7, h8, h9, h10, h11⟩
    | (refine ⟨?_, ?_, ?_, ?_, ?_, ?_, ?_, ?_, ?_, ?_, ?_, ?_⟩
       all_goals (try intro j)
       all_goals grind [upd, holdsPush, holdsPopP, holdsPopC, hasHandle])

theorem stepS_LInv (s : St) (start : Bool) (h : LInv s) : LInv (stepS s start) := by
  obtain ⟨hv, h1, h2, h3, h4, h5, h6, h7, h8, h9, h10, h11⟩ := h
  simp only [stepS]
  repeat' split
  all_goals exact ⟨hv, h1, h2, h3, h4, h5, h6, h7, h8, h9, h10, h11⟩

theorem stepP_LInv (s : St) (i : Nat) (op : Option POp) (h : LInv s) : LInv (stepP s i op) := by
  cases hpc : s.pp i with
  | none => exact stepP_LInv_none s i op hpc h
  | reserved => exact stepP_LInv_reserved s i op hpc h
  | gone => exact stepP_LInv_gone s i op hpc h
  | idle => exact stepP_LInv_idle s i op hpc h
  | acq k v rest => exact stepP_LInv_acq s i op k v rest hpc h
  | chk k v rest => exact stepP_LInv_chk s i op k v rest hpc h
  | push c v rest p => exact stepP_LInv_push s i op c v rest p hpc h
  | ntf c rest => exact stepP_LInv_ntf s i op c rest hpc h
  | tryLock v rest => exact stepP_LInv_tryLock s i op v rest hpc h
  | pop v rest p => exact stepP_LInv_pop s i op v rest p hpc h
  | clone j => exact stepP_LInv_clone s i op j hpc h
  | fetchSub => exact stepP_LInv_fetchSub s i op hpc h
  | stClosed => exact stepP_LInv_stClosed s i op hpc h
  | ntfW => exact stepP_LInv_ntfW s i op hpc h

theorem stepC_LInv (s : St) (start : Bool) (h : LInv s) : LInv (stepC s start) := by
  cases hpc : s.cp with
  | idle => exact stepC_LInv_idle s start hpc h
  | mkNtf => exact stepC_LInv_mkNtf s start hpc h
  | ldEnded g => exact stepC_LInv_ldEnded s start g hpc h
  | lock g => exact stepC_LInv_lock s start g hpc h
  | ldClosed1 g => exact stepC_LInv_ldClosed1 s start g hpc h
  | pop g cl p => exact stepC_LInv_pop s start g cl p hpc h
  | ldClosedOld => exact stepC_LInv_ldClosedOld s start hpc h
  | stEnded => exact stepC_LInv_stEnded s start hpc h
  | await1 g => exact stepC_LInv_await1 s start g hpc h
  | await2 => exact stepC_LInv_await2 s start hpc h
  | ldClosed2 => exact stepC_LInv_ldClosed2 s start hpc h
  | isEmpty => exact stepC_LInv_isEmpty s start hpc h
  | stEnded2 => exact stepC_LInv_stEnded2 s start hpc h

theorem step_LInv (s : St) (l : Label) (h : LInv s) : LInv (step s l) := by
  cases l with
  | prod i op => exact stepP_LInv s i op h
  | cons st => exact stepC_LInv s st h
  | stop st => exact stepS_LInv s st h
  | rcv op => have hq : s.v.pipe = false := by rw [h.var]; rfl
              simpa [step, stepR, hq] using h

theorem LInv.init (cap W : Nat) : LInv (St.init Variant.cur cap W 0) := by
  refine ⟨rfl, ?_, ?_, ?_, ?_, ?_, ?_, ?_, ?_, ?_, ?_, ?_⟩
  all_goals (try intro j)
  all_goals grind [St.init, holdsPush, holdsPopP, holdsPopC, hasHandle, trackInitSenders_val]

/-! ### the ring invariant through the lock holders -/

structure TInv (s : St) : Prop where
  l : LInv s
  ring : RingInv s.ring s.puView s.poView

theorem startPush' (r : Ring) (v : Val) (po : PoView) (h : RingInv r none po) : RingInv r (some (.ldTail, v)) po :=
  h.startPush v rfl
theorem startPop' (r : Ring) (pu : PuView) (h : RingInv r pu none) : RingInv r pu (some .ldHead) :=
  h.startPop rfl

/-- a thread that holds neither lock can change its program counter without changing the roles -/
theorem views_upd_nolock (s : St) (hL : LInv s) (i : Nat) (pc : PPc) (pp' : Nat → PPc)
    (hn1 : holdsPush (s.pp i) = false) (hn2 : holdsPopP (s.pp i) = false) :
    puViewOf s.plock (upd pp' i pc) = puViewOf s.plock pp' ∧
    poViewOf s.poplock (upd pp' i pc) s.cp = poViewOf s.poplock pp' s.cp := by
  refine ⟨puViewOf_upd_ne _ _ _ _ ?_, poViewOf_upd_ne _ _ _ _ _ ?_⟩
  · intro e; have := (hL.plockIff i).2 e; simp [hn1] at this
  · intro e; have := (hL.poplockP i).2 e; simp [hn2] at this

theorem stepP_ring_none (s : St) (i : Nat) (op : Option POp)  (hpc : s.pp i = .none )
    (h : TInv s) : RingInv (stepP s i op).ring (stepP s i op).puView (stepP s i op).poView := by
  obtain ⟨⟨hv, h1, h2, h3, h4, h5, h6, h7, h8, h9, h10, h11⟩, hring⟩ := h
  have hp : s.v.plock = true := by rw [hv]; rfl
  have hq : s.v.pipe = false := by rw [hv]; rfl
  simp only [stepP, hpc, startP, St.endSample, St.beginSample, St.setP, hp, hq, Bool.false_eq_true, if_false, if_true, trackCloneInc_val, trackDropDec_val, trackCloseWhenPrev_val]
  repeat' split
  all_goals grind [St.puView, St.poView, pushView, popViewP, popViewC, upd, holdsPush, holdsPopP, holdsPopC, startPush', startPop']

theorem stepP_ring_reserved (s : St) (i : Nat) (op : Option POp)  (hpc : s.pp i = .reserved )
    (h : TInv s) : RingInv (stepP s i op).ring (stepP s i op).puView (stepP s i op).poView := by
  obtain ⟨⟨hv, h1, h2, h3, h4, h5, h6, h7, h8, h9, h10, h11⟩, hring⟩ := h
  have hp : s.v.plock = true := by rw [hv]; rfl
  have hq : s.v.pipe = false := by rw [hv]; rfl
  simp only [stepP, hpc, startP, St.endSample, St.beginSample, St.setP, hp, hq, Bool.false_eq_true, if_false, if_true, trackCloneInc_val, trackDropDec_val, trackCloseWhenPrev_val]
  repeat' split
  all_goals grind [St.puView, St.poView, pushView, popViewP, popViewC, upd, holdsPush, holdsPopP, holdsPopC, startPush', startPop']

theorem stepP_ring_gone (s : St) (i : Nat) (op : Option POp)  (hpc : s.pp i = .gone )
    (h : TInv s) : RingInv (stepP s i op).ring (stepP s i op).puView (stepP s i op).poView := by
  obtain ⟨⟨hv, h1, h2, h3, h4, h5, h6, h7, h8, h9, h10, h11⟩, hring⟩ := h
  have hp : s.v.plock = true := by rw [hv]; rfl
  have hq : s.v.pipe = false := by rw [hv]; rfl
  simp only [stepP, hpc, startP, St.endSample, St.beginSample, St.setP, hp, hq, Bool.false_eq_true, if_false, if_true, trackCloneInc_val, trackDropDec_val, trackCloseWhenPrev_val]
  repeat' split
  all_goals grind [St.puView, St.poView, pushView, popViewP, popViewC, upd, holdsPush, holdsPopP, holdsPopC, startPush', startPop']

theorem stepP_ring_idle (s : St) (i : Nat) (op : Option POp)  (hpc : s.pp i = .idle )
    (h : TInv s) : RingInv (stepP s i op).ring (stepP s i op).puView (stepP s i op).poView := by
  have hL := h.l
  have hring := h.ring
  have hp : s.v.plock = true := by rw [hL.var]; rfl
  have hq : s.v.pipe = false := by rw [hL.var]; rfl
  have hn1 : holdsPush (s.pp i) = false := by simp [hpc, holdsPush]
  have hn2 : holdsPopP (s.pp i) = false := by simp [hpc, holdsPopP]
  simp only [stepP, hpc]
  cases op with
  | none => exact hring
  | some o =>
    cases o with
    | send vs =>
      cases vs with
      | nil => exact hring
      | cons v rest =>
        have := views_upd_nolock s hL i (.acq .send v rest) s.pp hn1 hn2
        simp only [startP, St.beginSample, hp, hq, Bool.false_eq_true, if_false, if_true, St.setP, St.puView_eq, St.poView_eq] at hring ⊢
        rw [this.1, this.2]; exact hring
    | trySend v =>
      have := views_upd_nolock s hL i (.acq .try_ v []) s.pp hn1 hn2
      simp only [startP, St.beginSample, hp, hq, Bool.false_eq_true, if_false, if_true, St.setP, St.puView_eq, St.poView_eq] at hring ⊢
      rw [this.1, this.2]; exact hring
    | cloneTo j =>
      simp only [startP]
      split
      · rename_i hj
        have a := views_upd_nolock s hL i (.clone j) (upd s.pp j .reserved) hn1 hn2
        have b := views_upd_nolock s hL j .reserved s.pp (by simp [hj.2, holdsPush]) (by simp [hj.2, holdsPopP])
        simp only [St.puView_eq, St.poView_eq] at hring ⊢
        rw [a.1, a.2, b.1, b.2]; exact hring
      · exact hring
    | dropSrc =>
      have := views_upd_nolock s hL i .fetchSub s.pp hn1 hn2
      simp only [startP, hq, Bool.false_eq_true, if_false, St.setP, St.puView_eq, St.poView_eq] at hring ⊢
      rw [this.1, this.2]; exact hring

theorem stepP_ring_acq (s : St) (i : Nat) (op : Option POp) (k v rest) (hpc : s.pp i = .acq k v rest)
    (h : TInv s) : RingInv (stepP s i op).ring (stepP s i op).puView (stepP s i op).poView := by
  obtain ⟨⟨hv, h1, h2, h3, h4, h5, h6, h7, h8, h9, h10, h11⟩, hring⟩ := h
  have hp : s.v.plock = true := by rw [hv]; rfl
  have hq : s.v.pipe = false := by rw [hv]; rfl
  simp only [stepP, hpc, startP, St.endSample, St.beginSample, St.setP, hp, hq, Bool.false_eq_true, if_false, if_true, trackCloneInc_val, trackDropDec_val, trackCloseWhenPrev_val]
  repeat' split
  all_goals grind [St.puView, St.poView, pushView, popViewP, popViewC, upd, holdsPush, holdsPopP, holdsPopC, startPush', startPop']

theorem stepP_ring_chk (s : St) (i : Nat) (op : Option POp) (k v rest) (hpc : s.pp i = .chk k v rest)
    (h : TInv s) : RingInv (stepP s i op).ring (stepP s i op).puView (stepP s i op).poView := by
  obtain ⟨⟨hv, h1, h2, h3, h4, h5, h6, h7, h8, h9, h10, h11⟩, hring⟩ := h
  have hp : s.v.plock = true := by rw [hv]; rfl
  have hq : s.v.pipe = false := by rw [hv]; rfl
  simp only [stepP, hpc, startP, St.endSample, St.beginSample, St.setP, hp, hq, Bool.false_eq_true, if_false, if_true, trackCloneInc_val, trackDropDec_val, trackCloseWhenPrev_val]
  repeat' split
  all_goals grind [St.puView, St.poView, pushView, popViewP, popViewC, upd, holdsPush, holdsPopP, holdsPopC, startPush', startPop']

theorem stepP_ring_push (s : St) (i : Nat) (op : Option POp) (c v rest p) (hpc : s.pp i = .push c v rest p)
    (h : TInv s) : RingInv (stepP s i op).ring (stepP s i op).puView (stepP s i op).poView := by
  obtain ⟨⟨hv, h1, h2, h3, h4, h5, h6, h7, h8, h9, h10, h11⟩, hring⟩ := h
  have hp : s.v.plock = true := by rw [hv]; rfl
  have hq : s.v.pipe = false := by rw [hv]; rfl
  have hpl : s.plock = some i := (h1 i).1 (by simp [hpc, holdsPush])
  have hview : s.puView = some (p, (i, v)) := by simp [St.puView, hpl, hpc, pushView]
  rw [hview] at hring
  obtain ⟨k1, k2, k3⟩ := pushStep_inv hring
  simp only [stepP, hpc, startP, St.endSample, St.beginSample, St.setP, hp, hq, Bool.false_eq_true, if_false, if_true, trackCloneInc_val, trackDropDec_val, trackCloseWhenPrev_val]
  repeat' split
  all_goals grind [St.puView, St.poView, pushView, popViewP, popViewC, upd, holdsPush, holdsPopP, holdsPopC, startPush', startPop']

theorem stepP_ring_ntf (s : St) (i : Nat) (op : Option POp) (c rest) (hpc : s.pp i = .ntf c rest)
    (h : TInv s) : RingInv (stepP s i op).ring (stepP s i op).puView (stepP s i op).poView := by
  obtain ⟨⟨hv, h1, h2, h3, h4, h5, h6, h7, h8, h9, h10, h11⟩, hring⟩ := h
  have hp : s.v.plock = true := by rw [hv]; rfl
  have hq : s.v.pipe = false := by rw [hv]; rfl
  simp only [stepP, hpc, startP, St.endSample, St.beginSample, St.setP, hp, hq, Bool.false_eq_true, if_false, if_true, trackCloneInc_val, trackDropDec_val, trackCloseWhenPrev_val]
  repeat' split
  all_goals grind [St.puView, St.poView, pushView, popViewP, popViewC, upd, holdsPush, holdsPopP, holdsPopC, startPush', startPop']

theorem stepP_ring_tryLock (s : St) (i : Nat) (op : Option POp) (v rest) (hpc : s.pp i = .tryLock v rest)
    (h : TInv s) : RingInv (stepP s i op).ring (stepP s i op).puView (stepP s i op).poView := by
  obtain ⟨⟨hv, h1, h2, h3, h4, h5, h6, h7, h8, h9, h10, h11⟩, hring⟩ := h
  have hp : s.v.plock = true := by rw [hv]; rfl
  have hq : s.v.pipe = false := by rw [hv]; rfl
  simp only [stepP, hpc, startP, St.endSample, St.beginSample, St.setP, hp, hq, Bool.false_eq_true, if_false, if_true, trackCloneInc_val, trackDropDec_val, trackCloseWhenPrev_val]
  repeat' split
  all_goals grind [St.puView, St.poView, pushView, popViewP, popViewC, upd, holdsPush, holdsPopP, holdsPopC, startPush', startPop']

theorem stepP_ring_pop (s : St) (i : Nat) (op : Option POp) (v rest p) (hpc : s.pp i = .pop v rest p)
    (h : TInv s) : RingInv (stepP s i op).ring (stepP s i op).puView (stepP s i op).poView := by
  obtain ⟨⟨hv, h1, h2, h3, h4, h5, h6, h7, h8, h9, h10, h11⟩, hring⟩ := h
  have hp : s.v.plock = true := by rw [hv]; rfl
  have hq : s.v.pipe = false := by rw [hv]; rfl
  have hpl : s.plock = some i := (h1 i).1 (by simp [hpc, holdsPush])
  have hpo : s.poplock = some (.prod i) := (h2 i).1 (by simp [hpc, holdsPopP])
  have hview : s.poView = some p := by simp [St.poView, hpo, hpc, popViewP]
  have hview2 : s.puView = none := by simp [St.puView, hpl, hpc, pushView]
  rw [hview, hview2] at hring
  obtain ⟨k1, k2, k3⟩ := popStep_inv hring
  simp only [stepP, hpc, startP, St.endSample, St.beginSample, St.setP, hp, hq, Bool.false_eq_true, if_false, if_true, trackCloneInc_val, trackDropDec_val, trackCloseWhenPrev_val]
  repeat' split
  all_goals grind [St.puView, St.poView, pushView, popViewP, popViewC, upd, holdsPush, holdsPopP, holdsPopC, startPush', startPop']

theorem stepP_ring_clone (s : St) (i : Nat) (op : Option POp) (j') (hpc : s.pp i = .clone j')
    (h : TInv s) : RingInv (stepP s i op).ring (stepP s i op).puView (stepP s i op).poView := by
  have hL := h.l
  have hring := h.ring
  have hn1 : holdsPush (s.pp i) = false := by simp [hpc, holdsPush]
  have hn2 : holdsPopP (s.pp i) = false := by simp [hpc, holdsPopP]
  have hres := hL.cloneRes i j' hpc
  have a := views_upd_nolock s hL i .idle (upd s.pp j' .idle) hn1 hn2
  have b := views_upd_nolock s hL j' .idle s.pp (by simp [hres, holdsPush]) (by simp [hres, holdsPopP])
  simp only [stepP, hpc, St.puView_eq, St.poView_eq] at hring ⊢
  rw [a.1, a.2, b.1, b.2]; exact hring

theorem stepP_ring_fetchSub (s : St) (i : Nat) (op : Option POp)  (hpc : s.pp i = .fetchSub )
    (h : TInv s) : RingInv (stepP s i op).ring (stepP s i op).puView (stepP s i op).poView := by
  have hL := h.l
  have hring := h.ring
  have hn1 : holdsPush (s.pp i) = false := by simp [hpc, holdsPush]
  have hn2 : holdsPopP (s.pp i) = false := by simp [hpc, holdsPopP]
  have a := views_upd_nolock s hL i .stClosed s.pp hn1 hn2
  have b := views_upd_nolock s hL i .gone s.pp hn1 hn2
  simp only [stepP, hpc, St.setP]
  split <;> (simp only [St.puView_eq, St.poView_eq] at hring ⊢)
  · rw [a.1, a.2]; exact hring
  · rw [b.1, b.2]; exact hring

theorem stepP_ring_stClosed (s : St) (i : Nat) (op : Option POp)  (hpc : s.pp i = .stClosed )
    (h : TInv s) : RingInv (stepP s i op).ring (stepP s i op).puView (stepP s i op).poView := by
  obtain ⟨⟨hv, h1, h2, h3, h4, h5, h6, h7, h8, h9, h10, h11⟩, hring⟩ := h
  have hp : s.v.plock = true := by rw [hv]; rfl
  have hq : s.v.pipe = false := by rw [hv]; rfl
  simp only [stepP, hpc, startP, St.endSample, St.beginSample, St.setP, hp, hq, Bool.false_eq_true, if_false, if_true, trackCloneInc_val, trackDropDec_val, trackCloseWhenPrev_val]
  repeat' split
  all_goals grind [St.puView, St.poView, pushView, popViewP, popViewC, upd, holdsPush, holdsPopP, holdsPopC, startPush', startPop']

theorem stepP_ring_ntfW (s : St) (i : Nat) (op : Option POp)  (hpc : s.pp i = .ntfW )
    (h : TInv s) : RingInv (stepP s i op).ring (stepP s i op).puView (stepP s i op).poView := by
  obtain ⟨⟨hv, h1, h2, h3, h4, h5, h6, h7, h8, h9, h10, h11⟩, hring⟩ := h
  have hp : s.v.plock = true := by rw [hv]; rfl
  have hq : s.v.pipe = false := by rw [hv]; rfl
  simp only [stepP, hpc, startP, St.endSample, St.beginSample, St.setP, hp, hq, Bool.false_eq_true, if_false, if_true, trackCloneInc_val, trackDropDec_val, trackCloseWhenPrev_val]
  repeat' split
  all_goals grind [St.puView, St.poView, pushView, popViewP, popViewC, upd, holdsPush, holdsPopP, holdsPopC, startPush', startPop']

theorem stepC_ring_idle (s : St) (start : Bool)  (hpc : s.cp = .idle )
    (h : TInv s) : RingInv (stepC s start).ring (stepC s start).puView (stepC s start).poView := by
  obtain ⟨⟨hv, h1, h2, h3, h4, h5, h6, h7, h8, h9, h10, h11⟩, hring⟩ := h
  have hr : s.v.rfix = true := by rw [hv]; rfl
  simp only [stepC, hpc, St.loopTop, St.retC, hr, if_true]
  repeat' split
  all_goals grind [St.puView, St.poView, pushView, popViewP, popViewC, upd, holdsPush, holdsPopP, holdsPopC, startPush', startPop']

theorem stepC_ring_mkNtf (s : St) (start : Bool)  (hpc : s.cp = .mkNtf )
    (h : TInv s) : RingInv (stepC s start).ring (stepC s start).puView (stepC s start).poView := by
  obtain ⟨⟨hv, h1, h2, h3, h4, h5, h6, h7, h8, h9, h10, h11⟩, hring⟩ := h
  have hr : s.v.rfix = true := by rw [hv]; rfl
  simp only [stepC, hpc, St.loopTop, St.retC, hr, if_true]
  repeat' split
  all_goals grind [St.puView, St.poView, pushView, popViewP, popViewC, upd, holdsPush, holdsPopP, holdsPopC, startPush', startPop']

theorem stepC_ring_ldEnded (s : St) (start : Bool) (g) (hpc : s.cp = .ldEnded g)
    (h : TInv s) : RingInv (stepC s start).ring (stepC s start).puView (stepC s start).poView := by
  obtain ⟨⟨hv, h1, h2, h3, h4, h5, h6, h7, h8, h9, h10, h11⟩, hring⟩ := h
  have hr : s.v.rfix = true := by rw [hv]; rfl
  simp only [stepC, hpc, St.loopTop, St.retC, hr, if_true]
  repeat' split
  all_goals grind [St.puView, St.poView, pushView, popViewP, popViewC, upd, holdsPush, holdsPopP, holdsPopC, startPush', startPop']

theorem stepC_ring_lock (s : St) (start : Bool) (g) (hpc : s.cp = .lock g)
    (h : TInv s) : RingInv (stepC s start).ring (stepC s start).puView (stepC s start).poView := by
  obtain ⟨⟨hv, h1, h2, h3, h4, h5, h6, h7, h8, h9, h10, h11⟩, hring⟩ := h
  have hr : s.v.rfix = true := by rw [hv]; rfl
  simp only [stepC, hpc, St.loopTop, St.retC, hr, if_true]
  repeat' split
  all_goals grind [St.puView, St.poView, pushView, popViewP, popViewC, upd, holdsPush, holdsPopP, holdsPopC, startPush', startPop']

theorem stepC_ring_ldClosed1 (s : St) (start : Bool) (g) (hpc : s.cp = .ldClosed1 g)
    (h : TInv s) : RingInv (stepC s start).ring (stepC s start).puView (stepC s start).poView := by
  obtain ⟨⟨hv, h1, h2, h3, h4, h5, h6, h7, h8, h9, h10, h11⟩, hring⟩ := h
  have hr : s.v.rfix = true := by rw [hv]; rfl
  simp only [stepC, hpc, St.loopTop, St.retC, hr, if_true]
  repeat' split
  all_goals grind [St.puView, St.poView, pushView, popViewP, popViewC, upd, holdsPush, holdsPopP, holdsPopC, startPush', startPop']

theorem stepC_ring_pop (s : St) (start : Bool) (g cl p) (hpc : s.cp = .pop g cl p)
    (h : TInv s) : RingInv (stepC s start).ring (stepC s start).puView (stepC s start).poView := by
  obtain ⟨⟨hv, h1, h2, h3, h4, h5, h6, h7, h8, h9, h10, h11⟩, hring⟩ := h
  have hr : s.v.rfix = true := by rw [hv]; rfl
  have hpo : s.poplock = some .cons := h3.1 (by simp [hpc, holdsPopC])
  have hview : s.poView = some p := by simp [St.poView, hpo, hpc, popViewC]
  rw [hview] at hring
  obtain ⟨k1, k2, k3⟩ := popStep_inv hring
  simp only [stepC, hpc, St.loopTop, St.retC, hr, if_true]
  repeat' split
  all_goals grind [St.puView, St.poView, pushView, popViewP, popViewC, upd, holdsPush, holdsPopP, holdsPopC, startPush', startPop']

theorem stepC_ring_ldClosedOld (s : St) (start : Bool)  (hpc : s.cp = .ldClosedOld )
    (h : TInv s) : RingInv (stepC s start).ring (stepC s start).puView (stepC s start).poView := by
  obtain ⟨⟨hv, h1, h2, h3, h4, h5, h6, h7, h8, h9, h10, h11⟩, hring⟩ := h
  have hr : s.v.rfix = true := by rw [hv]; rfl
  simp only [stepC, hpc, St.loopTop, St.retC, hr, if_true]
  repeat' split
  all_goals grind [St.puView, St.poView, pushView, popViewP, popViewC, upd, holdsPush, holdsPopP, holdsPopC, startPush', startPop']

theorem stepC_ring_stEnded (s : St) (start : Bool)  (hpc : s.cp = .stEnded )
    (h : TInv s) : RingInv (stepC s start).ring (stepC s start).puView (stepC s start).poView := by
  obtain ⟨⟨hv, h1, h2, h3, h4, h5, h6, h7, h8, h9, h10, h11⟩, hring⟩ := h
  have hr : s.v.rfix = true := by rw [hv]; rfl
  simp only [stepC, hpc, St.loopTop, St.retC, hr, if_true]
  repeat' split
  all_goals grind [St.puView, St.poView, pushView, popViewP, popViewC, upd, holdsPush, holdsPopP, holdsPopC, startPush', startPop']

theorem stepC_ring_await1 (s : St) (start : Bool) (g) (hpc : s.cp = .await1 g)
    (h : TInv s) : RingInv (stepC s start).ring (stepC s start).puView (stepC s start).poView := by
  obtain ⟨⟨hv, h1, h2, h3, h4, h5, h6, h7, h8, h9, h10, h11⟩, hring⟩ := h
  have hr : s.v.rfix = true := by rw [hv]; rfl
  simp only [stepC, hpc, St.loopTop, St.retC, hr, if_true]
  repeat' split
  all_goals grind [St.puView, St.poView, pushView, popViewP, popViewC, upd, holdsPush, holdsPopP, holdsPopC, startPush', startPop']

theorem stepC_ring_await2 (s : St) (start : Bool)  (hpc : s.cp = .await2 )
    (h : TInv s) : RingInv (stepC s start).ring (stepC s start).puView (stepC s start).poView := by
  obtain ⟨⟨hv, h1, h2, h3, h4, h5, h6, h7, h8, h9, h10, h11⟩, hring⟩ := h
  have hr : s.v.rfix = true := by rw [hv]; rfl
  simp only [stepC, hpc, St.loopTop, St.retC, hr, if_true]
  repeat' split
  all_goals grind [St.puView, St.poView, pushView, popViewP, popViewC, upd, holdsPush, holdsPopP, holdsPopC, startPush', startPop']

theorem stepC_ring_ldClosed2 (s : St) (start : Bool)  (hpc : s.cp = .ldClosed2 )
    (h : TInv s) : RingInv (stepC s start).ring (stepC s start).puView (stepC s start).poView := by
  obtain ⟨⟨hv, h1, h2, h3, h4, h5, h6, h7, h8, h9, h10, h11⟩, hring⟩ := h
  have hr : s.v.rfix = true := by rw [hv]; rfl
  simp only [stepC, hpc, St.loopTop, St.retC, hr, if_true]
  repeat' split
  all_goals grind [St.puView, St.poView, pushView, popViewP, popViewC, upd, holdsPush, holdsPopP, holdsPopC, startPush', startPop']

theorem stepC_ring_isEmpty (s : St) (start : Bool)  (hpc : s.cp = .isEmpty )
    (h : TInv s) : RingInv (stepC s start).ring (stepC s start).puView (stepC s start).poView := by
  obtain ⟨⟨hv, h1, h2, h3, h4, h5, h6, h7, h8, h9, h10, h11⟩, hring⟩ := h
  have hr : s.v.rfix = true := by rw [hv]; rfl
  simp only [stepC, hpc, St.loopTop, St.retC, hr, if_true]
  repeat' split
  all_goals grind [St.puView, St.poView, pushView, popViewP, popViewC, upd, holdsPush, holdsPopP, holdsPopC, startPush', startPop']

theorem stepC_ring_stEnded2 (s : St) (start : Bool)  (hpc : s.cp = .stEnded2 )
    (h : TInv s) : RingInv (stepC s start).ring (stepC s start).puView (stepC s start).poView := by
  obtain ⟨⟨hv, h1, h2, h3, h4, h5, h6, h7, h8, h9, h10, h11⟩, hring⟩ := h
  have hr : s.v.rfix = true := by rw [hv]; rfl
  simp only [stepC, hpc, St.loopTop, St.retC, hr, if_true]
  repeat' split
  all_goals grind [St.puView, St.poView, pushView, popViewP, popViewC, upd, holdsPush, holdsPopP, holdsPopC, startPush', startPop']

theorem stepS_ring (s : St) (start : Bool) (h : TInv s) :
    RingInv (stepS s start).ring (stepS s start).puView (stepS s start).poView := by
  have hring := h.ring
  simp only [stepS]
  repeat' split
  all_goals exact hring

theorem stepP_ring (s : St) (i : Nat) (op : Option POp) (h : TInv s) : RingInv (stepP s i op).ring (stepP s i op).puView (stepP s i op).poView := by
  cases hpc : s.pp i with
  | none  => exact stepP_ring_none s i op  hpc h
  | reserved  => exact stepP_ring_reserved s i op  hpc h
  | gone  => exact stepP_ring_gone s i op  hpc h
  | idle  => exact stepP_ring_idle s i op  hpc h
  | acq k v rest => exact stepP_ring_acq s i op k v rest hpc h
  | chk k v rest => exact stepP_ring_chk s i op k v rest hpc h
  | push c v rest p => exact stepP_ring_push s i op c v rest p hpc h
  | ntf c rest => exact stepP_ring_ntf s i op c rest hpc h
  | tryLock v rest => exact stepP_ring_tryLock s i op v rest hpc h
  | pop v rest p => exact stepP_ring_pop s i op v rest p hpc h
  | clone j' => exact stepP_ring_clone s i op j' hpc h
  | fetchSub  => exact stepP_ring_fetchSub s i op  hpc h
  | stClosed  => exact stepP_ring_stClosed s i op  hpc h
  | ntfW  => exact stepP_ring_ntfW s i op  hpc h

theorem stepC_ring (s : St) (start : Bool) (h : TInv s) : RingInv (stepC s start).ring (stepC s start).puView (stepC s start).poView := by
  cases hpc : s.cp with
  | idle  => exact stepC_ring_idle s start  hpc h
  | mkNtf  => exact stepC_ring_mkNtf s start  hpc h
  | ldEnded g => exact stepC_ring_ldEnded s start g hpc h
  | lock g => exact stepC_ring_lock s start g hpc h
  | ldClosed1 g => exact stepC_ring_ldClosed1 s start g hpc h
  | pop g cl p => exact stepC_ring_pop s start g cl p hpc h
  | ldClosedOld  => exact stepC_ring_ldClosedOld s start  hpc h
  | stEnded  => exact stepC_ring_stEnded s start  hpc h
  | await1 g => exact stepC_ring_await1 s start g hpc h
  | await2  => exact stepC_ring_await2 s start  hpc h
  | ldClosed2  => exact stepC_ring_ldClosed2 s start  hpc h
  | isEmpty  => exact stepC_ring_isEmpty s start  hpc h
  | stEnded2  => exact stepC_ring_stEnded2 s start  hpc h

theorem step_TInv (s : St) (l : Label) (h : TInv s) : TInv (step s l) := by
  refine ⟨step_LInv s l h.l, ?_⟩
  cases l with
  | prod i op => exact stepP_ring s i op h
  | cons st => exact stepC_ring s st h
  | stop st => exact stepS_ring s st h
  | rcv op => have hq : s.v.pipe = false := by rw [h.l.var]; rfl
              simpa [step, stepR, hq] using h.ring

theorem TInv.init (cap k : Nat) (h0 : 0 < cap) (h1 : cap < 2 ^ k) : TInv (St.init Variant.cur cap (2 ^ k) 0) :=
  ⟨LInv.init cap (2 ^ k), RingInv.init cap k h0 h1⟩

/-- a producer about to write a slot is the only writer, no producer is reading, and the consumer,
if it is about to read, addresses a different slot -/
theorem no_slot_race_of_inv (s : St) (hT : TInv s) (i tl v : Nat) (c : Ctx) (rest : List Nat)
    (hw : s.pp i = .push c v rest (.write tl)) :
    (∀ j c' v' rest' tl', s.pp j = .push c' v' rest' (.write tl') → j = i) ∧
    (∀ j v' rest' hl, s.pp j ≠ .pop v' rest' (.read hl)) ∧
    (∀ g cl hl, s.cp = .pop g cl (.read hl) → s.ring.idx tl ≠ s.ring.idx hl) := by
  have hpl : s.plock = some i := (hT.l.plockIff i).1 (by simp [hw, holdsPush])
  refine ⟨fun j c' v' rest' tl' hj => ?_, fun j v' rest' hl hj => ?_, fun g cl hl hc => ?_⟩
  · have hj' : s.plock = some j := (hT.l.plockIff j).1 (by simp [hj, holdsPush])
    rw [hpl] at hj'; exact (Option.some.inj hj').symm
  · have hj' : s.plock = some j := (hT.l.plockIff j).1 (by simp [hj, holdsPush])
    rw [hpl] at hj'
    have : i = j := Option.some.inj hj'
    subst this
    rw [hw] at hj; exact PPc.noConfusion hj
  · have hpo : s.poplock = some .cons := hT.l.poplockC.1 (by simp [hc, holdsPopC])
    have hr := hT.ring
    have e1 : s.puView = some (.write tl, (i, v)) := by simp [St.puView, hpl, hw, pushView]
    have e2 : s.poView = some (.read hl) := by simp [St.poView, hpo, hc, popViewC]
    rw [e1, e2] at hr
    exact write_read_disjoint hr

/-! ### frame: capacity / word never change, `tcount` never decreases; runs -/

theorem step_frame (s : St) (l : Label) :
    (step s l).ring.cap = s.ring.cap ∧ (step s l).ring.W = s.ring.W ∧ s.ring.tcount ≤ (step s l).ring.tcount ∧
    (step s l).v = s.v := by
  cases l with
  | prod i op =>
    cases hpc : s.pp i with
    | push c v rest p =>
      have := pushStep_frame s.ring (i, v) p
      simp only [step, stepP, hpc, St.endSample, St.beginSample, St.setP]
      repeat' split
      all_goals grind
    | pop v rest p =>
      have := popStep_frame s.ring p
      simp only [step, stepP, hpc, St.setP]
      repeat' split
      all_goals grind
    | _ =>
      simp only [step, stepP, hpc, startP, St.endSample, St.beginSample, St.setP]
      repeat' split
      all_goals simp
  | cons st =>
    cases hpc : s.cp with
    | pop g cl p =>
      have := popStep_frame s.ring p
      simp only [step, stepC, hpc, St.loopTop, St.retC]
      repeat' split
      all_goals grind
    | _ =>
      simp only [step, stepC, hpc, St.loopTop, St.retC]
      repeat' split
      all_goals simp
  | stop st =>
    simp only [step, stepS]
    repeat' split
    all_goals simp
  | rcv op =>
    cases hpc : s.rp with
    | pop cl p =>
      have := popStep_frame s.ring p
      simp only [step, stepR, hpc]
      repeat' split
      all_goals grind
    | _ =>
      simp only [step, stepR, hpc]
      repeat' split
      all_goals simp

theorem run_frame (s : St) (ls : List Label) :
    (run s ls).ring.cap = s.ring.cap ∧ (run s ls).ring.W = s.ring.W ∧ s.ring.tcount ≤ (run s ls).ring.tcount := by
  induction ls generalizing s with
  | nil => simp [run]
  | cons l ls ih =>
    have h1 := step_frame s l
    have h2 := ih (step s l)
    simp only [run, List.foldl_cons] at h2 ⊢
    exact ⟨h2.1.trans h1.1, h2.2.1.trans h1.2.1, Nat.le_trans h1.2.2.1 h2.2.2⟩

/-- generic induction principle: an invariant preserved by every step holds after every run -/
theorem run_induct (P : St → Prop) (hstep : ∀ s l, P s → P (step s l))
    (s : St) (ls : List Label) (h : P s) : P (run s ls) := by
  induction ls generalizing s with
  | nil => exact h
  | cons l ls ih => exact ih (step s l) (hstep s l h)

theorem run_TInv (s : St) (ls : List Label) (h : TInv s) : TInv (run s ls) :=
  run_induct TInv step_TInv s ls h

/-! ### ghost logs: what was received is a subsequence of what was popped, which is a prefix of what
was written, which is a subsequence of what the producers submitted (in lock-acquisition order) -/

theorem pushStep_log (r : Ring) (v : Val) (p : PushPc) :
    (pushStep r v p).1.outs = r.outs ∧
    (pushStep r v p).1.log = (match p with | .write _ => r.log ++ [v] | _ => r.log) ∧
    ((pushStep r v p).2 = .full → ∃ tl, p = .ldHead tl) ∧ ((pushStep r v p).2 = .done → ∃ tl, p = .stTail tl) ∧
    (∀ p', (pushStep r v p).2 = .cont p' → (∃ tl, p = .write tl ∧ p' = .stTail tl) ∨
       ((∀ tl, p ≠ .write tl) ∧ (∀ tl, p' ≠ .stTail tl))) := by
  cases p <;> simp [pushStep, Ring.writeSlot, Ring.storeTail]
  split <;> simp

theorem popStep_outs (r : Ring) (p : PopPc) :
    (popStep r p).1.log = r.log ∧
    (∀ x, (popStep r p).2 = .done x → (popStep r p).1.outs = r.outs ++ [x]) ∧
    ((∀ x, (popStep r p).2 ≠ .done x) → (popStep r p).1.outs = r.outs) := by
  cases p <;> simp [popStep, Ring.readSlot, Ring.storeHead]
  · split <;> simp
  · split <;> simp


theorem sub_snoc {α} {A B : List α} (x : α) (h : List.Sublist A B) : List.Sublist (A ++ [x]) (B ++ [x]) :=
  List.Sublist.append h (List.Sublist.refl _)
theorem sub_right {α} {A B : List α} (x : α) (h : List.Sublist A B) : List.Sublist A (B ++ [x]) :=
  h.trans (List.sublist_append_left B [x])

/-- `c` is an interleaving (shuffle) of `a` and `b`: every element of `c` goes to exactly one of
`a`, `b`, keeping the order (snoc form, matching how the logs grow) -/
inductive Interleave {α : Type} : List α → List α → List α → Prop
  | nil : Interleave [] [] []
  | left {a b c : List α} (x : α) : Interleave a b c → Interleave (a ++ [x]) b (c ++ [x])
  | right {a b c : List α} (x : α) : Interleave a b c → Interleave a (b ++ [x]) (c ++ [x])

theorem Interleave.sub_left {α} {a b c : List α} (h : Interleave a b c) : List.Sublist a c := by
  induction h with
  | nil => exact List.Sublist.refl _
  | left x _ ih => exact sub_snoc x ih
  | right x _ ih => exact sub_right x ih
theorem Interleave.sub_right' {α} {a b c : List α} (h : Interleave a b c) : List.Sublist b c := by
  induction h with
  | nil => exact List.Sublist.refl _
  | left x _ ih => exact sub_right x ih
  | right x _ ih => exact sub_snoc x ih
theorem Interleave.length {α} {a b c : List α} (h : Interleave a b c) : c.length = a.length + b.length := by
  induction h with
  | nil => rfl
  | left x _ ih => simp [ih]; omega
  | right x _ ih => simp [ih]; omega
theorem Interleave.mem {α} {a b c : List α} (h : Interleave a b c) (x : α) : x ∈ c ↔ x ∈ a ∨ x ∈ b := by
  induction h with
  | nil => simp
  | left y _ ih => simp [ih]; grind
  | right y _ ih => simp [ih]; grind

/-- every value handed out by `pop` went either to the consumer (`recvd`) or was discarded by a
drop-oldest producer (`droppedOld`) — exactly one of the two, order kept -/
def GInv (s : St) : Prop := Interleave s.recvd s.droppedOld s.ring.outs

theorem step_GInv (s : St) (l : Label) (h : GInv s) : GInv (step s l) := by
  unfold GInv at *
  cases l with
  | prod i op =>
    cases hpc : s.pp i with
    | push c v rest p =>
      have := (pushStep_log s.ring (i, v) p).1
      simp only [step, stepP, hpc, St.endSample, St.beginSample, St.setP]
      repeat' split
      all_goals grind
    | pop v rest p =>
      have := popStep_outs s.ring p
      simp only [step, stepP, hpc, St.setP]
      repeat' split
      all_goals grind [Interleave.right]
    | _ =>
      simp only [step, stepP, hpc, startP, St.endSample, St.beginSample, St.setP]
      repeat' split
      all_goals exact h
  | cons st =>
    cases hpc : s.cp with
    | pop g cl p =>
      have := popStep_outs s.ring p
      simp only [step, stepC, hpc, St.loopTop, St.retC]
      repeat' split
      all_goals grind [Interleave.left]
    | _ =>
      simp only [step, stepC, hpc, St.loopTop, St.retC]
      repeat' split
      all_goals exact h
  | stop st =>
    simp only [step, stepS]
    repeat' split
    all_goals exact h
  | rcv op =>
    cases hpc : s.rp with
    | pop cl p =>
      have := popStep_outs s.ring p
      simp only [step, stepR, hpc]
      repeat' split
      all_goals grind [Interleave.left]
    | _ =>
      simp only [step, stepR, hpc]
      repeat' split
      all_goals exact h

theorem GInv.init (v : Variant) (cap W : Nat) : GInv (St.init v cap W 0) := by
  simp only [GInv, St.init, Ring.init]; exact Interleave.nil

theorem run_GInv (s : St) (ls : List Label) (h : GInv s) : GInv (run s ls) := by
  induction ls generalizing s with
  | nil => exact h
  | cons l ls ih => exact ih (step s l) (step_GInv s l h)

/-! ### end of stream only after draining -/

def Drained (s : St) : Prop := s.closed = true ∧ s.ring.hcount = s.ring.tcount

structure EInv (s : St) : Prop where
  popCl : ∀ g p, s.cp = .pop g true p → s.closed = true
  stEnded : s.cp = .stEnded → Drained s
  isEmpty : s.cp = .isEmpty → s.closed = true
  stEnded2 : s.cp = .stEnded2 → Drained s
  ended : s.ended = true → s.stopCalled = true ∨ Drained s
  eos : CRes.eos ∈ s.cres → s.stopCalled = true ∨ Drained s
  noOld : s.cp ≠ .ldClosedOld
  retNoneCl : ∀ g, s.cp = .pop g true .retNone → Drained s

/-- once the source is closed nobody holds (or can take) the producer lock -/
theorem closed_no_holder (s : St) (hL : LInv s) (hc : s.closed = true) (i : Nat) : hasHandle (s.pp i) = false := by
  have := hL.closedNoLive hc
  cases h : hasHandle (s.pp i) with
  | false => rfl
  | true => have := (hL.liveIff i).2 h; simp_all

theorem popStep_le {r pu p} (h : RingInv r pu (some p)) :
    (popStep r p).1.hcount ≤ (popStep r p).1.tcount := by
  obtain ⟨k1, k2, k3⟩ := popStep_inv h
  cases hout : (popStep r p).2 with
  | cont p' => exact (k1 p' hout).1.le1
  | empty => exact (k2 hout).1.le1
  | done x => exact (k3 x hout).1.le1

theorem isEmpty_drained (s : St) (hT : TInv s) (he : s.ring.isEmpty = true) : s.ring.hcount = s.ring.tcount := by
  have h := hT.ring
  have : s.ring.head = s.ring.tail := by simpa [Ring.isEmpty] using he
  rw [h.headEq, h.tailEq] at this
  exact (wrapped_eq_iff h.le1 (by have := h.le2; have := h.capLt; omega)).1 this

theorem stepP_EInv_none (s : St) (i : Nat) (op : Option POp)  (hpc : s.pp i = .none )
    (hT : TInv s) (h : EInv s) : EInv (stepP s i op) := by
  obtain ⟨e1, e2, e3, e4, e5, e6, e7, e8⟩ := h
  have hp : s.v.plock = true := by rw [hT.l.var]; rfl
  have hq : s.v.pipe = false := by rw [hT.l.var]; rfl
  have hnh := closed_no_holder s hT.l
  simp only [stepP, hpc, startP, St.endSample, St.beginSample, St.setP, hp, hq, Bool.false_eq_true, if_false, if_true]
  repeat' split
  all_goals first
    | exact ⟨e1, e2, e3, e4, e5, e6, e7, e8⟩
    | (refine ⟨?_, ?_, ?_, ?_, ?_, ?_, ?_, ?_⟩ <;> grind [Drained, upd, holdsPush, holdsPopP, holdsPopC, hasHandle, PopperOk, PusherOk])

theorem stepP_EInv_reserved (s : St) (i : Nat) (op : Option POp)  (hpc : s.pp i = .reserved )
    (hT : TInv s) (h : EInv s) : EInv (stepP s i op) := by
  obtain ⟨e1, e2, e3, e4, e5, e6, e7, e8⟩ := h
  have hp : s.v.plock = true := by rw [hT.l.var]; rfl
  have hq : s.v.pipe = false := by rw [hT.l.var]; rfl
  have hnh := closed_no_holder s hT.l
  simp only [stepP, hpc, startP, St.endSample, St.beginSample, St.setP, hp, hq, Bool.false_eq_true, if_false, if_true]
  repeat' split
  all_goals first
    | exact ⟨e1, e2, e3, e4, e5, e6, e7, e8⟩
    | (refine ⟨?_, ?_, ?_, ?_, ?_, ?_, ?_, ?_⟩ <;> grind [Drained, upd, holdsPush, holdsPopP, holdsPopC, hasHandle, PopperOk, PusherOk])

theorem stepP_EInv_gone (s : St) (i : Nat) (op : Option POp)  (hpc : s.pp i = .gone )
    (hT : TInv s) (h : EInv s) : EInv (stepP s i op) := by
  obtain ⟨e1, e2, e3, e4, e5, e6, e7, e8⟩ := h
  have hp : s.v.plock = true := by rw [hT.l.var]; rfl
  have hq : s.v.pipe = false := by rw [hT.l.var]; rfl
  have hnh := closed_no_holder s hT.l
  simp only [stepP, hpc, startP, St.endSample, St.beginSample, St.setP, hp, hq, Bool.false_eq_true, if_false, if_true]
  repeat' split
  all_goals first
    | exact ⟨e1, e2, e3, e4, e5, e6, e7, e8⟩
    | (refine ⟨?_, ?_, ?_, ?_, ?_, ?_, ?_, ?_⟩ <;> grind [Drained, upd, holdsPush, holdsPopP, holdsPopC, hasHandle, PopperOk, PusherOk])

theorem stepP_EInv_idle (s : St) (i : Nat) (op : Option POp)  (hpc : s.pp i = .idle )
    (hT : TInv s) (h : EInv s) : EInv (stepP s i op) := by
  obtain ⟨e1, e2, e3, e4, e5, e6, e7, e8⟩ := h
  have hp : s.v.plock = true := by rw [hT.l.var]; rfl
  have hq : s.v.pipe = false := by rw [hT.l.var]; rfl
  have hnh := closed_no_holder s hT.l
  simp only [stepP, hpc, startP, St.endSample, St.beginSample, St.setP, hp, hq, Bool.false_eq_true, if_false, if_true]
  repeat' split
  all_goals first
    | exact ⟨e1, e2, e3, e4, e5, e6, e7, e8⟩
    | (refine ⟨?_, ?_, ?_, ?_, ?_, ?_, ?_, ?_⟩ <;> grind [Drained, upd, holdsPush, holdsPopP, holdsPopC, hasHandle, PopperOk, PusherOk])

theorem stepP_EInv_acq (s : St) (i : Nat) (op : Option POp) (k v rest) (hpc : s.pp i = .acq k v rest)
    (hT : TInv s) (h : EInv s) : EInv (stepP s i op) := by
  obtain ⟨e1, e2, e3, e4, e5, e6, e7, e8⟩ := h
  have hp : s.v.plock = true := by rw [hT.l.var]; rfl
  have hq : s.v.pipe = false := by rw [hT.l.var]; rfl
  have hnh := closed_no_holder s hT.l
  simp only [stepP, hpc, startP, St.endSample, St.beginSample, St.setP, hp, hq, Bool.false_eq_true, if_false, if_true]
  repeat' split
  all_goals first
    | exact ⟨e1, e2, e3, e4, e5, e6, e7, e8⟩
    | (refine ⟨?_, ?_, ?_, ?_, ?_, ?_, ?_, ?_⟩ <;> grind [Drained, upd, holdsPush, holdsPopP, holdsPopC, hasHandle, PopperOk, PusherOk])

theorem stepP_EInv_chk (s : St) (i : Nat) (op : Option POp) (k v rest) (hpc : s.pp i = .chk k v rest)
    (hT : TInv s) (h : EInv s) : EInv (stepP s i op) := by
  obtain ⟨e1, e2, e3, e4, e5, e6, e7, e8⟩ := h
  have hp : s.v.plock = true := by rw [hT.l.var]; rfl
  have hq : s.v.pipe = false := by rw [hT.l.var]; rfl
  have hnh := closed_no_holder s hT.l
  simp only [stepP, hpc, startP, St.endSample, St.beginSample, St.setP, hp, hq, Bool.false_eq_true, if_false, if_true]
  repeat' split
  all_goals first
    | exact ⟨e1, e2, e3, e4, e5, e6, e7, e8⟩
    | (refine ⟨?_, ?_, ?_, ?_, ?_, ?_, ?_, ?_⟩ <;> grind [Drained, upd, holdsPush, holdsPopP, holdsPopC, hasHandle, PopperOk, PusherOk])

theorem stepP_EInv_push (s : St) (i : Nat) (op : Option POp) (c v rest p) (hpc : s.pp i = .push c v rest p)
    (hT : TInv s) (h : EInv s) : EInv (stepP s i op) := by
  obtain ⟨e1, e2, e3, e4, e5, e6, e7, e8⟩ := h
  have hp : s.v.plock = true := by rw [hT.l.var]; rfl
  have hq : s.v.pipe = false := by rw [hT.l.var]; rfl
  have hnh := closed_no_holder s hT.l
  have hfr := pushStep_frame s.ring (i, v) p
  simp only [stepP, hpc, startP, St.endSample, St.beginSample, St.setP, hp, hq, Bool.false_eq_true, if_false, if_true]
  repeat' split
  all_goals first
    | exact ⟨e1, e2, e3, e4, e5, e6, e7, e8⟩
    | (refine ⟨?_, ?_, ?_, ?_, ?_, ?_, ?_, ?_⟩ <;> grind [Drained, upd, holdsPush, holdsPopP, holdsPopC, hasHandle, PopperOk, PusherOk])

theorem stepP_EInv_ntf (s : St) (i : Nat) (op : Option POp) (c rest) (hpc : s.pp i = .ntf c rest)
    (hT : TInv s) (h : EInv s) : EInv (stepP s i op) := by
  obtain ⟨e1, e2, e3, e4, e5, e6, e7, e8⟩ := h
  have hp : s.v.plock = true := by rw [hT.l.var]; rfl
  have hq : s.v.pipe = false := by rw [hT.l.var]; rfl
  have hnh := closed_no_holder s hT.l
  simp only [stepP, hpc, startP, St.endSample, St.beginSample, St.setP, hp, hq, Bool.false_eq_true, if_false, if_true]
  repeat' split
  all_goals first
    | exact ⟨e1, e2, e3, e4, e5, e6, e7, e8⟩
    | (refine ⟨?_, ?_, ?_, ?_, ?_, ?_, ?_, ?_⟩ <;> grind [Drained, upd, holdsPush, holdsPopP, holdsPopC, hasHandle, PopperOk, PusherOk])

theorem stepP_EInv_tryLock (s : St) (i : Nat) (op : Option POp) (v rest) (hpc : s.pp i = .tryLock v rest)
    (hT : TInv s) (h : EInv s) : EInv (stepP s i op) := by
  obtain ⟨e1, e2, e3, e4, e5, e6, e7, e8⟩ := h
  have hp : s.v.plock = true := by rw [hT.l.var]; rfl
  have hq : s.v.pipe = false := by rw [hT.l.var]; rfl
  have hnh := closed_no_holder s hT.l
  simp only [stepP, hpc, startP, St.endSample, St.beginSample, St.setP, hp, hq, Bool.false_eq_true, if_false, if_true]
  repeat' split
  all_goals first
    | exact ⟨e1, e2, e3, e4, e5, e6, e7, e8⟩
    | (refine ⟨?_, ?_, ?_, ?_, ?_, ?_, ?_, ?_⟩ <;> grind [Drained, upd, holdsPush, holdsPopP, holdsPopC, hasHandle, PopperOk, PusherOk])

theorem stepP_EInv_pop (s : St) (i : Nat) (op : Option POp) (v rest p) (hpc : s.pp i = .pop v rest p)
    (hT : TInv s) (h : EInv s) : EInv (stepP s i op) := by
  obtain ⟨e1, e2, e3, e4, e5, e6, e7, e8⟩ := h
  have hp : s.v.plock = true := by rw [hT.l.var]; rfl
  have hq : s.v.pipe = false := by rw [hT.l.var]; rfl
  have hnh := closed_no_holder s hT.l
  have hpl : s.plock = some i := (hT.l.plockIff i).1 (by simp [hpc, holdsPush])
  have hpo : s.poplock = some (.prod i) := (hT.l.poplockP i).1 (by simp [hpc, holdsPopP])
  have hview : s.poView = some p := by simp [St.poView, hpo, hpc, popViewP]
  have hring := hT.ring
  rw [hview] at hring
  have hfr := popStep_frame s.ring p
  simp only [stepP, hpc, startP, St.endSample, St.beginSample, St.setP, hp, hq, Bool.false_eq_true, if_false, if_true]
  repeat' split
  all_goals first
    | exact ⟨e1, e2, e3, e4, e5, e6, e7, e8⟩
    | (refine ⟨?_, ?_, ?_, ?_, ?_, ?_, ?_, ?_⟩ <;> grind [Drained, upd, holdsPush, holdsPopP, holdsPopC, hasHandle, PopperOk, PusherOk])

theorem stepP_EInv_clone (s : St) (i : Nat) (op : Option POp) (j') (hpc : s.pp i = .clone j')
    (hT : TInv s) (h : EInv s) : EInv (stepP s i op) := by
  obtain ⟨e1, e2, e3, e4, e5, e6, e7, e8⟩ := h
  have hp : s.v.plock = true := by rw [hT.l.var]; rfl
  have hq : s.v.pipe = false := by rw [hT.l.var]; rfl
  have hnh := closed_no_holder s hT.l
  simp only [stepP, hpc, startP, St.endSample, St.beginSample, St.setP, hp, hq, Bool.false_eq_true, if_false, if_true]
  repeat' split
  all_goals first
    | exact ⟨e1, e2, e3, e4, e5, e6, e7, e8⟩
    | (refine ⟨?_, ?_, ?_, ?_, ?_, ?_, ?_, ?_⟩ <;> grind [Drained, upd, holdsPush, holdsPopP, holdsPopC, hasHandle, PopperOk, PusherOk])

theorem stepP_EInv_fetchSub (s : St) (i : Nat) (op : Option POp)  (hpc : s.pp i = .fetchSub )
    (hT : TInv s) (h : EInv s) : EInv (stepP s i op) := by
  obtain ⟨e1, e2, e3, e4, e5, e6, e7, e8⟩ := h
  have hp : s.v.plock = true := by rw [hT.l.var]; rfl
  have hq : s.v.pipe = false := by rw [hT.l.var]; rfl
  have hnh := closed_no_holder s hT.l
  simp only [stepP, hpc, startP, St.endSample, St.beginSample, St.setP, hp, hq, Bool.false_eq_true, if_false, if_true]
  repeat' split
  all_goals first
    | exact ⟨e1, e2, e3, e4, e5, e6, e7, e8⟩
    | (refine ⟨?_, ?_, ?_, ?_, ?_, ?_, ?_, ?_⟩ <;> grind [Drained, upd, holdsPush, holdsPopP, holdsPopC, hasHandle, PopperOk, PusherOk])

theorem stepP_EInv_stClosed (s : St) (i : Nat) (op : Option POp)  (hpc : s.pp i = .stClosed )
    (hT : TInv s) (h : EInv s) : EInv (stepP s i op) := by
  obtain ⟨e1, e2, e3, e4, e5, e6, e7, e8⟩ := h
  have hp : s.v.plock = true := by rw [hT.l.var]; rfl
  have hq : s.v.pipe = false := by rw [hT.l.var]; rfl
  have hnh := closed_no_holder s hT.l
  simp only [stepP, hpc, startP, St.endSample, St.beginSample, St.setP, hp, hq, Bool.false_eq_true, if_false, if_true]
  repeat' split
  all_goals first
    | exact ⟨e1, e2, e3, e4, e5, e6, e7, e8⟩
    | (refine ⟨?_, ?_, ?_, ?_, ?_, ?_, ?_, ?_⟩ <;> grind [Drained, upd, holdsPush, holdsPopP, holdsPopC, hasHandle, PopperOk, PusherOk])

theorem stepP_EInv_ntfW (s : St) (i : Nat) (op : Option POp)  (hpc : s.pp i = .ntfW )
    (hT : TInv s) (h : EInv s) : EInv (stepP s i op) := by
  obtain ⟨e1, e2, e3, e4, e5, e6, e7, e8⟩ := h
  have hp : s.v.plock = true := by rw [hT.l.var]; rfl
  have hq : s.v.pipe = false := by rw [hT.l.var]; rfl
  have hnh := closed_no_holder s hT.l
  simp only [stepP, hpc, startP, St.endSample, St.beginSample, St.setP, hp, hq, Bool.false_eq_true, if_false, if_true]
  repeat' split
  all_goals first
    | exact ⟨e1, e2, e3, e4, e5, e6, e7, e8⟩
    | (refine ⟨?_, ?_, ?_, ?_, ?_, ?_, ?_, ?_⟩ <;> grind [Drained, upd, holdsPush, holdsPopP, holdsPopC, hasHandle, PopperOk, PusherOk])

theorem stepC_EInv_idle (s : St) (start : Bool)  (hpc : s.cp = .idle )
    (hT : TInv s) (h : EInv s) : EInv (stepC s start) := by
  obtain ⟨e1, e2, e3, e4, e5, e6, e7, e8⟩ := h
  have hr : s.v.rfix = true := by rw [hT.l.var]; rfl
  simp only [stepC, hpc, St.loopTop, St.retC, hr, if_true]
  repeat' split
  all_goals first
    | exact ⟨e1, e2, e3, e4, e5, e6, e7, e8⟩
    | (refine ⟨?_, ?_, ?_, ?_, ?_, ?_, ?_, ?_⟩ <;> grind [Drained, upd, holdsPush, holdsPopP, holdsPopC, hasHandle, PopperOk, PusherOk])

theorem stepC_EInv_mkNtf (s : St) (start : Bool)  (hpc : s.cp = .mkNtf )
    (hT : TInv s) (h : EInv s) : EInv (stepC s start) := by
  obtain ⟨e1, e2, e3, e4, e5, e6, e7, e8⟩ := h
  have hr : s.v.rfix = true := by rw [hT.l.var]; rfl
  simp only [stepC, hpc, St.loopTop, St.retC, hr, if_true]
  repeat' split
  all_goals first
    | exact ⟨e1, e2, e3, e4, e5, e6, e7, e8⟩
    | (refine ⟨?_, ?_, ?_, ?_, ?_, ?_, ?_, ?_⟩ <;> grind [Drained, upd, holdsPush, holdsPopP, holdsPopC, hasHandle, PopperOk, PusherOk])

theorem stepC_EInv_ldEnded (s : St) (start : Bool) (g) (hpc : s.cp = .ldEnded g)
    (hT : TInv s) (h : EInv s) : EInv (stepC s start) := by
  obtain ⟨e1, e2, e3, e4, e5, e6, e7, e8⟩ := h
  have hr : s.v.rfix = true := by rw [hT.l.var]; rfl
  simp only [stepC, hpc, St.loopTop, St.retC, hr, if_true]
  repeat' split
  all_goals first
    | exact ⟨e1, e2, e3, e4, e5, e6, e7, e8⟩
    | (refine ⟨?_, ?_, ?_, ?_, ?_, ?_, ?_, ?_⟩ <;> grind [Drained, upd, holdsPush, holdsPopP, holdsPopC, hasHandle, PopperOk, PusherOk])

theorem stepC_EInv_lock (s : St) (start : Bool) (g) (hpc : s.cp = .lock g)
    (hT : TInv s) (h : EInv s) : EInv (stepC s start) := by
  obtain ⟨e1, e2, e3, e4, e5, e6, e7, e8⟩ := h
  have hr : s.v.rfix = true := by rw [hT.l.var]; rfl
  simp only [stepC, hpc, St.loopTop, St.retC, hr, if_true]
  repeat' split
  all_goals first
    | exact ⟨e1, e2, e3, e4, e5, e6, e7, e8⟩
    | (refine ⟨?_, ?_, ?_, ?_, ?_, ?_, ?_, ?_⟩ <;> grind [Drained, upd, holdsPush, holdsPopP, holdsPopC, hasHandle, PopperOk, PusherOk])

theorem stepC_EInv_ldClosed1 (s : St) (start : Bool) (g) (hpc : s.cp = .ldClosed1 g)
    (hT : TInv s) (h : EInv s) : EInv (stepC s start) := by
  obtain ⟨e1, e2, e3, e4, e5, e6, e7, e8⟩ := h
  have hr : s.v.rfix = true := by rw [hT.l.var]; rfl
  simp only [stepC, hpc, St.loopTop, St.retC, hr, if_true]
  repeat' split
  all_goals first
    | exact ⟨e1, e2, e3, e4, e5, e6, e7, e8⟩
    | (refine ⟨?_, ?_, ?_, ?_, ?_, ?_, ?_, ?_⟩ <;> grind [Drained, upd, holdsPush, holdsPopP, holdsPopC, hasHandle, PopperOk, PusherOk])

theorem stepC_EInv_pop (s : St) (start : Bool) (g cl p) (hpc : s.cp = .pop g cl p)
    (hT : TInv s) (h : EInv s) : EInv (stepC s start) := by
  obtain ⟨e1, e2, e3, e4, e5, e6, e7, e8⟩ := h
  have hr : s.v.rfix = true := by rw [hT.l.var]; rfl
  have hpo : s.poplock = some .cons := hT.l.poplockC.1 (by simp [hpc, holdsPopC])
  have hview : s.poView = some p := by simp [St.poView, hpo, hpc, popViewC]
  have hring := hT.ring
  rw [hview] at hring
  obtain ⟨k1, k2, k3⟩ := popStep_inv hring
  have hfr := popStep_frame s.ring p
  have hle := popStep_le hring
  simp only [stepC, hpc, St.loopTop, St.retC, hr, if_true]
  repeat' split
  all_goals first
    | exact ⟨e1, e2, e3, e4, e5, e6, e7, e8⟩
    | (refine ⟨?_, ?_, ?_, ?_, ?_, ?_, ?_, ?_⟩ <;> grind [Drained, upd, holdsPush, holdsPopP, holdsPopC, hasHandle, PopperOk, PusherOk])

theorem stepC_EInv_ldClosedOld (s : St) (start : Bool)  (hpc : s.cp = .ldClosedOld )
    (hT : TInv s) (h : EInv s) : EInv (stepC s start) := by
  obtain ⟨e1, e2, e3, e4, e5, e6, e7, e8⟩ := h
  have hr : s.v.rfix = true := by rw [hT.l.var]; rfl
  simp only [stepC, hpc, St.loopTop, St.retC, hr, if_true]
  repeat' split
  all_goals first
    | exact ⟨e1, e2, e3, e4, e5, e6, e7, e8⟩
    | (refine ⟨?_, ?_, ?_, ?_, ?_, ?_, ?_, ?_⟩ <;> grind [Drained, upd, holdsPush, holdsPopP, holdsPopC, hasHandle, PopperOk, PusherOk])

theorem stepC_EInv_stEnded (s : St) (start : Bool)  (hpc : s.cp = .stEnded )
    (hT : TInv s) (h : EInv s) : EInv (stepC s start) := by
  obtain ⟨e1, e2, e3, e4, e5, e6, e7, e8⟩ := h
  have hr : s.v.rfix = true := by rw [hT.l.var]; rfl
  simp only [stepC, hpc, St.loopTop, St.retC, hr, if_true]
  repeat' split
  all_goals first
    | exact ⟨e1, e2, e3, e4, e5, e6, e7, e8⟩
    | (refine ⟨?_, ?_, ?_, ?_, ?_, ?_, ?_, ?_⟩ <;> grind [Drained, upd, holdsPush, holdsPopP, holdsPopC, hasHandle, PopperOk, PusherOk])

theorem stepC_EInv_await1 (s : St) (start : Bool) (g) (hpc : s.cp = .await1 g)
    (hT : TInv s) (h : EInv s) : EInv (stepC s start) := by
  obtain ⟨e1, e2, e3, e4, e5, e6, e7, e8⟩ := h
  have hr : s.v.rfix = true := by rw [hT.l.var]; rfl
  simp only [stepC, hpc, St.loopTop, St.retC, hr, if_true]
  repeat' split
  all_goals first
    | exact ⟨e1, e2, e3, e4, e5, e6, e7, e8⟩
    | (refine ⟨?_, ?_, ?_, ?_, ?_, ?_, ?_, ?_⟩ <;> grind [Drained, upd, holdsPush, holdsPopP, holdsPopC, hasHandle, PopperOk, PusherOk])

theorem stepC_EInv_await2 (s : St) (start : Bool)  (hpc : s.cp = .await2 )
    (hT : TInv s) (h : EInv s) : EInv (stepC s start) := by
  obtain ⟨e1, e2, e3, e4, e5, e6, e7, e8⟩ := h
  have hr : s.v.rfix = true := by rw [hT.l.var]; rfl
  simp only [stepC, hpc, St.loopTop, St.retC, hr, if_true]
  repeat' split
  all_goals first
    | exact ⟨e1, e2, e3, e4, e5, e6, e7, e8⟩
    | (refine ⟨?_, ?_, ?_, ?_, ?_, ?_, ?_, ?_⟩ <;> grind [Drained, upd, holdsPush, holdsPopP, holdsPopC, hasHandle, PopperOk, PusherOk])

theorem stepC_EInv_ldClosed2 (s : St) (start : Bool)  (hpc : s.cp = .ldClosed2 )
    (hT : TInv s) (h : EInv s) : EInv (stepC s start) := by
  obtain ⟨e1, e2, e3, e4, e5, e6, e7, e8⟩ := h
  have hr : s.v.rfix = true := by rw [hT.l.var]; rfl
  simp only [stepC, hpc, St.loopTop, St.retC, hr, if_true]
  repeat' split
  all_goals first
    | exact ⟨e1, e2, e3, e4, e5, e6, e7, e8⟩
    | (refine ⟨?_, ?_, ?_, ?_, ?_, ?_, ?_, ?_⟩ <;> grind [Drained, upd, holdsPush, holdsPopP, holdsPopC, hasHandle, PopperOk, PusherOk])

theorem stepC_EInv_isEmpty (s : St) (start : Bool)  (hpc : s.cp = .isEmpty )
    (hT : TInv s) (h : EInv s) : EInv (stepC s start) := by
  obtain ⟨e1, e2, e3, e4, e5, e6, e7, e8⟩ := h
  have hr : s.v.rfix = true := by rw [hT.l.var]; rfl
  have hie := isEmpty_drained s hT
  simp only [stepC, hpc, St.loopTop, St.retC, hr, if_true]
  repeat' split
  all_goals first
    | exact ⟨e1, e2, e3, e4, e5, e6, e7, e8⟩
    | (refine ⟨?_, ?_, ?_, ?_, ?_, ?_, ?_, ?_⟩ <;> grind [Drained, upd, holdsPush, holdsPopP, holdsPopC, hasHandle, PopperOk, PusherOk])

theorem stepC_EInv_stEnded2 (s : St) (start : Bool)  (hpc : s.cp = .stEnded2 )
    (hT : TInv s) (h : EInv s) : EInv (stepC s start) := by
  obtain ⟨e1, e2, e3, e4, e5, e6, e7, e8⟩ := h
  have hr : s.v.rfix = true := by rw [hT.l.var]; rfl
  simp only [stepC, hpc, St.loopTop, St.retC, hr, if_true]
  repeat' split
  all_goals first
    | exact ⟨e1, e2, e3, e4, e5, e6, e7, e8⟩
    | (refine ⟨?_, ?_, ?_, ?_, ?_, ?_, ?_, ?_⟩ <;> grind [Drained, upd, holdsPush, holdsPopP, holdsPopC, hasHandle, PopperOk, PusherOk])

theorem stepP_EInv (s : St) (i : Nat) (op : Option POp) (hT : TInv s) (h : EInv s) : EInv (stepP s i op) := by
  cases hpc : s.pp i with
  | none  => exact stepP_EInv_none s i op  hpc hT h
  | reserved  => exact stepP_EInv_reserved s i op  hpc hT h
  | gone  => exact stepP_EInv_gone s i op  hpc hT h
  | idle  => exact stepP_EInv_idle s i op  hpc hT h
  | acq k v rest => exact stepP_EInv_acq s i op k v rest hpc hT h
  | chk k v rest => exact stepP_EInv_chk s i op k v rest hpc hT h
  | push c v rest p => exact stepP_EInv_push s i op c v rest p hpc hT h
  | ntf c rest => exact stepP_EInv_ntf s i op c rest hpc hT h
  | tryLock v rest => exact stepP_EInv_tryLock s i op v rest hpc hT h
  | pop v rest p => exact stepP_EInv_pop s i op v rest p hpc hT h
  | clone j' => exact stepP_EInv_clone s i op j' hpc hT h
  | fetchSub  => exact stepP_EInv_fetchSub s i op  hpc hT h
  | stClosed  => exact stepP_EInv_stClosed s i op  hpc hT h
  | ntfW  => exact stepP_EInv_ntfW s i op  hpc hT h

theorem stepC_EInv (s : St) (start : Bool) (hT : TInv s) (h : EInv s) : EInv (stepC s start) := by
  cases hpc : s.cp with
  | idle  => exact stepC_EInv_idle s start  hpc hT h
  | mkNtf  => exact stepC_EInv_mkNtf s start  hpc hT h
  | ldEnded g => exact stepC_EInv_ldEnded s start g hpc hT h
  | lock g => exact stepC_EInv_lock s start g hpc hT h
  | ldClosed1 g => exact stepC_EInv_ldClosed1 s start g hpc hT h
  | pop g cl p => exact stepC_EInv_pop s start g cl p hpc hT h
  | ldClosedOld  => exact stepC_EInv_ldClosedOld s start  hpc hT h
  | stEnded  => exact stepC_EInv_stEnded s start  hpc hT h
  | await1 g => exact stepC_EInv_await1 s start g hpc hT h
  | await2  => exact stepC_EInv_await2 s start  hpc hT h
  | ldClosed2  => exact stepC_EInv_ldClosed2 s start  hpc hT h
  | isEmpty  => exact stepC_EInv_isEmpty s start  hpc hT h
  | stEnded2  => exact stepC_EInv_stEnded2 s start  hpc hT h

theorem stepS_EInv (s : St) (start : Bool) (h : EInv s) : EInv (stepS s start) := by
  obtain ⟨e1, e2, e3, e4, e5, e6, e7, e8⟩ := h
  simp only [stepS]
  repeat' split
  all_goals first
    | exact ⟨e1, e2, e3, e4, e5, e6, e7, e8⟩
    | (refine ⟨?_, ?_, ?_, ?_, ?_, ?_, ?_, ?_⟩ <;> grind [Drained])

theorem EInv.init (cap W : Nat) : EInv (St.init Variant.cur cap W 0) := by
  refine ⟨?_, ?_, ?_, ?_, ?_, ?_, ?_, ?_⟩ <;> simp [St.init]

/-- everything together -/
structure FInv (s : St) : Prop where
  t : TInv s
  e : EInv s

theorem step_FInv (s : St) (l : Label) (h : FInv s) : FInv (step s l) := by
  refine ⟨step_TInv s l h.t, ?_⟩
  cases l with
  | prod i op => exact stepP_EInv s i op h.t h.e
  | cons st => exact stepC_EInv s st h.t h.e
  | stop st => exact stepS_EInv s st h.e
  | rcv op => have hq : s.v.pipe = false := by rw [h.t.l.var]; rfl
              simpa [step, stepR, hq] using h.e

theorem FInv.init (cap k : Nat) (h0 : 0 < cap) (h1 : cap < 2 ^ k) : FInv (St.init Variant.cur cap (2 ^ k) 0) :=
  ⟨TInv.init cap k h0 h1, EInv.init cap (2 ^ k)⟩

theorem run_FInv (s : St) (ls : List Label) (h : FInv s) : FInv (run s ls) :=
  run_induct FInv step_FInv s ls h

/-! ### nothing is discarded after the close -/

/-- `droppedOld` grows only in a step of a producer that is inside its drop-oldest `pop` -/
theorem step_droppedOld (s : St) (l : Label) :
    (step s l).droppedOld = s.droppedOld ∨ ∃ i op v rest p, l = .prod i op ∧ s.pp i = .pop v rest p := by
  cases l with
  | prod i op =>
    cases hpc : s.pp i with
    | pop v rest p => exact Or.inr ⟨i, op, v, rest, p, rfl, hpc⟩
    | _ =>
      left
      simp only [step, stepP, hpc, startP, St.endSample, St.beginSample, St.setP]
      repeat' split
      all_goals rfl
  | cons st =>
    left
    simp only [step, stepC, St.loopTop, St.retC]
    repeat' split
    all_goals rfl
  | stop st =>
    left
    simp only [step, stepS]
    repeat' split
    all_goals rfl
  | rcv op =>
    left
    simp only [step, stepR]
    repeat' split
    all_goals rfl

/-- once every source is dropped no sample is discarded any more: whatever is still queued can only
leave the ring through `recv` -/
theorem no_discard_after_close_of_inv (s : St) (hL : LInv s) (hc : s.closed = true) (l : Label) :
    (step s l).droppedOld = s.droppedOld := by
  rcases step_droppedOld s l with h | ⟨i, op, v, rest, p, _, hpc⟩
  · exact h
  · have := closed_no_holder s hL hc i
    simp [hpc, hasHandle] at this

/-! ### the closing `notify_waiters` is never lost -/

/-- the source is closed and the closing thread has already executed its `notify_waiters()` -/
def CN (closed : Bool) (pp : Nat → PPc) : Prop := closed = true ∧ ∀ i, pp i ≠ .ntfW
abbrev CloseNotified (s : St) : Prop := CN s.closed s.pp

theorem CN_upd (c : Bool) (pp : Nat → PPc) (i : Nat) (pc : PPc) (h : CN c (upd pp i pc)) (hold : pp i ≠ .ntfW) :
    CN c pp := by
  refine ⟨h.1, fun j => ?_⟩
  by_cases hj : j = i
  · subst hj; exact hold
  · have := h.2 j; rwa [upd_other _ _ _ _ hj] at this
theorem CN_upd_ntfW (c : Bool) (pp : Nat → PPc) (i : Nat) : ¬ CN c (upd pp i .ntfW) := by
  intro h; have := h.2 i; simp at this
theorem CN_closed (c : Bool) (pp : Nat → PPc) (h : CN c pp) : c = true := h.1

/-- the generation captured by the consumer's `Notified`, if it holds one -/
def capturedGen : CPc → Option Nat
  | .ldEnded g => some g
  | .lock g => some g
  | .ldClosed1 g => some g
  | .pop g _ _ => some g
  | .await1 g => some g
  | _ => none

structure NInv (s : St) : Prop where
  genLe : ∀ g, capturedGen s.cp = some g → g ≤ s.ntf.gen
  popLt : ∀ g p, s.cp = .pop g false p → CN s.closed s.pp → g < s.ntf.gen
  awaitLt : ∀ g, s.cp = .await1 g → CN s.closed s.pp → g < s.ntf.gen
  regOrWoken : s.cp = .await2 → s.ntf.reg = true ∨ s.ntf.woken = true
  woken : s.cp = .await2 → CN s.closed s.pp → s.ntf.woken = true
  noOld : s.cp ≠ .ldClosedOld

theorem stepP_NInv_none (s : St) (i : Nat) (op : Option POp)  (hpc : s.pp i = .none )
    (hL : LInv s) (h : NInv s) : NInv (stepP s i op) := by
  obtain ⟨n1, n2, n3, n4, n5, n6⟩ := h
  have hp : s.v.plock = true := by rw [hL.var]; rfl
  have hq : s.v.pipe = false := by rw [hL.var]; rfl
  simp only [stepP, hpc, startP, St.endSample, St.beginSample, St.setP, hp, hq, Bool.false_eq_true, if_false, if_true]
  repeat' split
  all_goals first
    | exact ⟨n1, n2, n3, n4, n5, n6⟩
    | (refine ⟨?_, ?_, ?_, ?_, ?_, ?_⟩ <;> grind [capturedGen, upd, Notify.one, Notify.waiters, CN_upd, CN_upd_ntfW, CN_closed])

theorem stepP_NInv_reserved (s : St) (i : Nat) (op : Option POp)  (hpc : s.pp i = .reserved )
    (hL : LInv s) (h : NInv s) : NInv (stepP s i op) := by
  obtain ⟨n1, n2, n3, n4, n5, n6⟩ := h
  have hp : s.v.plock = true := by rw [hL.var]; rfl
  have hq : s.v.pipe = false := by rw [hL.var]; rfl
  simp only [stepP, hpc, startP, St.endSample, St.beginSample, St.setP, hp, hq, Bool.false_eq_true, if_false, if_true]
  repeat' split
  all_goals first
    | exact ⟨n1, n2, n3, n4, n5, n6⟩
    | (refine ⟨?_, ?_, ?_, ?_, ?_, ?_⟩ <;> grind [capturedGen, upd, Notify.one, Notify.waiters, CN_upd, CN_upd_ntfW, CN_closed])

theorem stepP_NInv_gone (s : St) (i : Nat) (op : Option POp)  (hpc : s.pp i = .gone )
    (hL : LInv s) (h : NInv s) : NInv (stepP s i op) := by
  obtain ⟨n1, n2, n3, n4, n5, n6⟩ := h
  have hp : s.v.plock = true := by rw [hL.var]; rfl
  have hq : s.v.pipe = false := by rw [hL.var]; rfl
  simp only [stepP, hpc, startP, St.endSample, St.beginSample, St.setP, hp, hq, Bool.false_eq_true, if_false, if_true]
  repeat' split
  all_goals first
    | exact ⟨n1, n2, n3, n4, n5, n6⟩
    | (refine ⟨?_, ?_, ?_, ?_, ?_, ?_⟩ <;> grind [capturedGen, upd, Notify.one, Notify.waiters, CN_upd, CN_upd_ntfW, CN_closed])

theorem stepP_NInv_idle (s : St) (i : Nat) (op : Option POp)  (hpc : s.pp i = .idle )
    (hL : LInv s) (h : NInv s) : NInv (stepP s i op) := by
  obtain ⟨n1, n2, n3, n4, n5, n6⟩ := h
  have hp : s.v.plock = true := by rw [hL.var]; rfl
  have hq : s.v.pipe = false := by rw [hL.var]; rfl
  simp only [stepP, hpc, startP, St.endSample, St.beginSample, St.setP, hp, hq, Bool.false_eq_true, if_false, if_true]
  repeat' split
  all_goals first
    | exact ⟨n1, n2, n3, n4, n5, n6⟩
    | (refine ⟨?_, ?_, ?_, ?_, ?_, ?_⟩ <;> grind [capturedGen, upd, Notify.one, Notify.waiters, CN_upd, CN_upd_ntfW, CN_closed])

theorem stepP_NInv_acq (s : St) (i : Nat) (op : Option POp) (k v rest) (hpc : s.pp i = .acq k v rest)
    (hL : LInv s) (h : NInv s) : NInv (stepP s i op) := by
  obtain ⟨n1, n2, n3, n4, n5, n6⟩ := h
  have hp : s.v.plock = true := by rw [hL.var]; rfl
  have hq : s.v.pipe = false := by rw [hL.var]; rfl
  simp only [stepP, hpc, startP, St.endSample, St.beginSample, St.setP, hp, hq, Bool.false_eq_true, if_false, if_true]
  repeat' split
  all_goals first
    | exact ⟨n1, n2, n3, n4, n5, n6⟩
    | (refine ⟨?_, ?_, ?_, ?_, ?_, ?_⟩ <;> grind [capturedGen, upd, Notify.one, Notify.waiters, CN_upd, CN_upd_ntfW, CN_closed])

theorem stepP_NInv_chk (s : St) (i : Nat) (op : Option POp) (k v rest) (hpc : s.pp i = .chk k v rest)
    (hL : LInv s) (h : NInv s) : NInv (stepP s i op) := by
  obtain ⟨n1, n2, n3, n4, n5, n6⟩ := h
  have hp : s.v.plock = true := by rw [hL.var]; rfl
  have hq : s.v.pipe = false := by rw [hL.var]; rfl
  simp only [stepP, hpc, startP, St.endSample, St.beginSample, St.setP, hp, hq, Bool.false_eq_true, if_false, if_true]
  repeat' split
  all_goals first
    | exact ⟨n1, n2, n3, n4, n5, n6⟩
    | (refine ⟨?_, ?_, ?_, ?_, ?_, ?_⟩ <;> grind [capturedGen, upd, Notify.one, Notify.waiters, CN_upd, CN_upd_ntfW, CN_closed])

theorem stepP_NInv_push (s : St) (i : Nat) (op : Option POp) (c v rest p) (hpc : s.pp i = .push c v rest p)
    (hL : LInv s) (h : NInv s) : NInv (stepP s i op) := by
  obtain ⟨n1, n2, n3, n4, n5, n6⟩ := h
  have hp : s.v.plock = true := by rw [hL.var]; rfl
  have hq : s.v.pipe = false := by rw [hL.var]; rfl
  simp only [stepP, hpc, startP, St.endSample, St.beginSample, St.setP, hp, hq, Bool.false_eq_true, if_false, if_true]
  repeat' split
  all_goals first
    | exact ⟨n1, n2, n3, n4, n5, n6⟩
    | (refine ⟨?_, ?_, ?_, ?_, ?_, ?_⟩ <;> grind [capturedGen, upd, Notify.one, Notify.waiters, CN_upd, CN_upd_ntfW, CN_closed])

theorem stepP_NInv_ntf (s : St) (i : Nat) (op : Option POp) (c rest) (hpc : s.pp i = .ntf c rest)
    (hL : LInv s) (h : NInv s) : NInv (stepP s i op) := by
  obtain ⟨n1, n2, n3, n4, n5, n6⟩ := h
  have hp : s.v.plock = true := by rw [hL.var]; rfl
  have hq : s.v.pipe = false := by rw [hL.var]; rfl
  simp only [stepP, hpc, startP, St.endSample, St.beginSample, St.setP, hp, hq, Bool.false_eq_true, if_false, if_true]
  repeat' split
  all_goals first
    | exact ⟨n1, n2, n3, n4, n5, n6⟩
    | (refine ⟨?_, ?_, ?_, ?_, ?_, ?_⟩ <;> grind [capturedGen, upd, Notify.one, Notify.waiters, CN_upd, CN_upd_ntfW, CN_closed])

theorem stepP_NInv_tryLock (s : St) (i : Nat) (op : Option POp) (v rest) (hpc : s.pp i = .tryLock v rest)
    (hL : LInv s) (h : NInv s) : NInv (stepP s i op) := by
  obtain ⟨n1, n2, n3, n4, n5, n6⟩ := h
  have hp : s.v.plock = true := by rw [hL.var]; rfl
  have hq : s.v.pipe = false := by rw [hL.var]; rfl
  simp only [stepP, hpc, startP, St.endSample, St.beginSample, St.setP, hp, hq, Bool.false_eq_true, if_false, if_true]
  repeat' split
  all_goals first
    | exact ⟨n1, n2, n3, n4, n5, n6⟩
    | (refine ⟨?_, ?_, ?_, ?_, ?_, ?_⟩ <;> grind [capturedGen, upd, Notify.one, Notify.waiters, CN_upd, CN_upd_ntfW, CN_closed])

theorem stepP_NInv_pop (s : St) (i : Nat) (op : Option POp) (v rest p) (hpc : s.pp i = .pop v rest p)
    (hL : LInv s) (h : NInv s) : NInv (stepP s i op) := by
  obtain ⟨n1, n2, n3, n4, n5, n6⟩ := h
  have hp : s.v.plock = true := by rw [hL.var]; rfl
  have hq : s.v.pipe = false := by rw [hL.var]; rfl
  simp only [stepP, hpc, startP, St.endSample, St.beginSample, St.setP, hp, hq, Bool.false_eq_true, if_false, if_true]
  repeat' split
  all_goals first
    | exact ⟨n1, n2, n3, n4, n5, n6⟩
    | (refine ⟨?_, ?_, ?_, ?_, ?_, ?_⟩ <;> grind [capturedGen, upd, Notify.one, Notify.waiters, CN_upd, CN_upd_ntfW, CN_closed])

theorem stepP_NInv_clone (s : St) (i : Nat) (op : Option POp) (j') (hpc : s.pp i = .clone j')
    (hL : LInv s) (h : NInv s) : NInv (stepP s i op) := by
  obtain ⟨n1, n2, n3, n4, n5, n6⟩ := h
  have hp : s.v.plock = true := by rw [hL.var]; rfl
  have hq : s.v.pipe = false := by rw [hL.var]; rfl
  have hres := hL.cloneRes i j' hpc
  simp only [stepP, hpc, startP, St.endSample, St.beginSample, St.setP, hp, hq, Bool.false_eq_true, if_false, if_true]
  repeat' split
  all_goals first
    | exact ⟨n1, n2, n3, n4, n5, n6⟩
    | (refine ⟨?_, ?_, ?_, ?_, ?_, ?_⟩ <;> grind [capturedGen, upd, Notify.one, Notify.waiters, CN_upd, CN_upd_ntfW, CN_closed])

theorem stepP_NInv_fetchSub (s : St) (i : Nat) (op : Option POp)  (hpc : s.pp i = .fetchSub )
    (hL : LInv s) (h : NInv s) : NInv (stepP s i op) := by
  obtain ⟨n1, n2, n3, n4, n5, n6⟩ := h
  have hp : s.v.plock = true := by rw [hL.var]; rfl
  have hq : s.v.pipe = false := by rw [hL.var]; rfl
  simp only [stepP, hpc, startP, St.endSample, St.beginSample, St.setP, hp, hq, Bool.false_eq_true, if_false, if_true]
  repeat' split
  all_goals first
    | exact ⟨n1, n2, n3, n4, n5, n6⟩
    | (refine ⟨?_, ?_, ?_, ?_, ?_, ?_⟩ <;> grind [capturedGen, upd, Notify.one, Notify.waiters, CN_upd, CN_upd_ntfW, CN_closed])

theorem stepP_NInv_stClosed (s : St) (i : Nat) (op : Option POp)  (hpc : s.pp i = .stClosed )
    (hL : LInv s) (h : NInv s) : NInv (stepP s i op) := by
  obtain ⟨n1, n2, n3, n4, n5, n6⟩ := h
  have hp : s.v.plock = true := by rw [hL.var]; rfl
  have hq : s.v.pipe = false := by rw [hL.var]; rfl
  simp only [stepP, hpc, startP, St.endSample, St.beginSample, St.setP, hp, hq, Bool.false_eq_true, if_false, if_true]
  repeat' split
  all_goals first
    | exact ⟨n1, n2, n3, n4, n5, n6⟩
    | (refine ⟨?_, ?_, ?_, ?_, ?_, ?_⟩ <;> grind [capturedGen, upd, Notify.one, Notify.waiters, CN_upd, CN_upd_ntfW, CN_closed])

theorem stepP_NInv_ntfW (s : St) (i : Nat) (op : Option POp)  (hpc : s.pp i = .ntfW )
    (hL : LInv s) (h : NInv s) : NInv (stepP s i op) := by
  obtain ⟨n1, n2, n3, n4, n5, n6⟩ := h
  have hp : s.v.plock = true := by rw [hL.var]; rfl
  have hq : s.v.pipe = false := by rw [hL.var]; rfl
  simp only [stepP, hpc, startP, St.endSample, St.beginSample, St.setP, hp, hq, Bool.false_eq_true, if_false, if_true]
  repeat' split
  all_goals first
    | exact ⟨n1, n2, n3, n4, n5, n6⟩
    | (refine ⟨?_, ?_, ?_, ?_, ?_, ?_⟩ <;> grind [capturedGen, upd, Notify.one, Notify.waiters, CN_upd, CN_upd_ntfW, CN_closed])

theorem stepC_NInv_idle (s : St) (start : Bool)  (hpc : s.cp = .idle )
    (hL : LInv s) (h : NInv s) : NInv (stepC s start) := by
  obtain ⟨n1, n2, n3, n4, n5, n6⟩ := h
  have hr : s.v.rfix = true := by rw [hL.var]; rfl
  simp only [stepC, hpc, St.loopTop, St.retC, hr, if_true]
  repeat' split
  all_goals first
    | exact ⟨n1, n2, n3, n4, n5, n6⟩
    | (refine ⟨?_, ?_, ?_, ?_, ?_, ?_⟩ <;> grind [capturedGen, upd, Notify.one, Notify.waiters, CN_upd, CN_upd_ntfW, CN_closed])

theorem stepC_NInv_mkNtf (s : St) (start : Bool)  (hpc : s.cp = .mkNtf )
    (hL : LInv s) (h : NInv s) : NInv (stepC s start) := by
  obtain ⟨n1, n2, n3, n4, n5, n6⟩ := h
  have hr : s.v.rfix = true := by rw [hL.var]; rfl
  simp only [stepC, hpc, St.loopTop, St.retC, hr, if_true]
  repeat' split
  all_goals first
    | exact ⟨n1, n2, n3, n4, n5, n6⟩
    | (refine ⟨?_, ?_, ?_, ?_, ?_, ?_⟩ <;> grind [capturedGen, upd, Notify.one, Notify.waiters, CN_upd, CN_upd_ntfW, CN_closed])

theorem stepC_NInv_ldEnded (s : St) (start : Bool) (g) (hpc : s.cp = .ldEnded g)
    (hL : LInv s) (h : NInv s) : NInv (stepC s start) := by
  obtain ⟨n1, n2, n3, n4, n5, n6⟩ := h
  have hr : s.v.rfix = true := by rw [hL.var]; rfl
  simp only [stepC, hpc, St.loopTop, St.retC, hr, if_true]
  repeat' split
  all_goals first
    | exact ⟨n1, n2, n3, n4, n5, n6⟩
    | (refine ⟨?_, ?_, ?_, ?_, ?_, ?_⟩ <;> grind [capturedGen, upd, Notify.one, Notify.waiters, CN_upd, CN_upd_ntfW, CN_closed])

theorem stepC_NInv_lock (s : St) (start : Bool) (g) (hpc : s.cp = .lock g)
    (hL : LInv s) (h : NInv s) : NInv (stepC s start) := by
  obtain ⟨n1, n2, n3, n4, n5, n6⟩ := h
  have hr : s.v.rfix = true := by rw [hL.var]; rfl
  simp only [stepC, hpc, St.loopTop, St.retC, hr, if_true]
  repeat' split
  all_goals first
    | exact ⟨n1, n2, n3, n4, n5, n6⟩
    | (refine ⟨?_, ?_, ?_, ?_, ?_, ?_⟩ <;> grind [capturedGen, upd, Notify.one, Notify.waiters, CN_upd, CN_upd_ntfW, CN_closed])

theorem stepC_NInv_ldClosed1 (s : St) (start : Bool) (g) (hpc : s.cp = .ldClosed1 g)
    (hL : LInv s) (h : NInv s) : NInv (stepC s start) := by
  obtain ⟨n1, n2, n3, n4, n5, n6⟩ := h
  have hr : s.v.rfix = true := by rw [hL.var]; rfl
  simp only [stepC, hpc, St.loopTop, St.retC, hr, if_true]
  repeat' split
  all_goals first
    | exact ⟨n1, n2, n3, n4, n5, n6⟩
    | (refine ⟨?_, ?_, ?_, ?_, ?_, ?_⟩ <;> grind [capturedGen, upd, Notify.one, Notify.waiters, CN_upd, CN_upd_ntfW, CN_closed])

theorem stepC_NInv_pop (s : St) (start : Bool) (g cl p) (hpc : s.cp = .pop g cl p)
    (hL : LInv s) (h : NInv s) : NInv (stepC s start) := by
  obtain ⟨n1, n2, n3, n4, n5, n6⟩ := h
  have hr : s.v.rfix = true := by rw [hL.var]; rfl
  simp only [stepC, hpc, St.loopTop, St.retC, hr, if_true]
  repeat' split
  all_goals first
    | exact ⟨n1, n2, n3, n4, n5, n6⟩
    | (refine ⟨?_, ?_, ?_, ?_, ?_, ?_⟩ <;> grind [capturedGen, upd, Notify.one, Notify.waiters, CN_upd, CN_upd_ntfW, CN_closed])

theorem stepC_NInv_ldClosedOld (s : St) (start : Bool)  (hpc : s.cp = .ldClosedOld )
    (hL : LInv s) (h : NInv s) : NInv (stepC s start) := by
  obtain ⟨n1, n2, n3, n4, n5, n6⟩ := h
  have hr : s.v.rfix = true := by rw [hL.var]; rfl
  simp only [stepC, hpc, St.loopTop, St.retC, hr, if_true]
  repeat' split
  all_goals first
    | exact ⟨n1, n2, n3, n4, n5, n6⟩
    | (refine ⟨?_, ?_, ?_, ?_, ?_, ?_⟩ <;> grind [capturedGen, upd, Notify.one, Notify.waiters, CN_upd, CN_upd_ntfW, CN_closed])

theorem stepC_NInv_stEnded (s : St) (start : Bool)  (hpc : s.cp = .stEnded )
    (hL : LInv s) (h : NInv s) : NInv (stepC s start) := by
  obtain ⟨n1, n2, n3, n4, n5, n6⟩ := h
  have hr : s.v.rfix = true := by rw [hL.var]; rfl
  simp only [stepC, hpc, St.loopTop, St.retC, hr, if_true]
  repeat' split
  all_goals first
    | exact ⟨n1, n2, n3, n4, n5, n6⟩
    | (refine ⟨?_, ?_, ?_, ?_, ?_, ?_⟩ <;> grind [capturedGen, upd, Notify.one, Notify.waiters, CN_upd, CN_upd_ntfW, CN_closed])

theorem stepC_NInv_await1 (s : St) (start : Bool) (g) (hpc : s.cp = .await1 g)
    (hL : LInv s) (h : NInv s) : NInv (stepC s start) := by
  obtain ⟨n1, n2, n3, n4, n5, n6⟩ := h
  have hr : s.v.rfix = true := by rw [hL.var]; rfl
  simp only [stepC, hpc, St.loopTop, St.retC, hr, if_true]
  repeat' split
  all_goals first
    | exact ⟨n1, n2, n3, n4, n5, n6⟩
    | (refine ⟨?_, ?_, ?_, ?_, ?_, ?_⟩ <;> grind [capturedGen, upd, Notify.one, Notify.waiters, CN_upd, CN_upd_ntfW, CN_closed])

theorem stepC_NInv_await2 (s : St) (start : Bool)  (hpc : s.cp = .await2 )
    (hL : LInv s) (h : NInv s) : NInv (stepC s start) := by
  obtain ⟨n1, n2, n3, n4, n5, n6⟩ := h
  have hr : s.v.rfix = true := by rw [hL.var]; rfl
  simp only [stepC, hpc, St.loopTop, St.retC, hr, if_true]
  repeat' split
  all_goals first
    | exact ⟨n1, n2, n3, n4, n5, n6⟩
    | (refine ⟨?_, ?_, ?_, ?_, ?_, ?_⟩ <;> grind [capturedGen, upd, Notify.one, Notify.waiters, CN_upd, CN_upd_ntfW, CN_closed])

theorem stepC_NInv_ldClosed2 (s : St) (start : Bool)  (hpc : s.cp = .ldClosed2 )
    (hL : LInv s) (h : NInv s) : NInv (stepC s start) := by
  obtain ⟨n1, n2, n3, n4, n5, n6⟩ := h
  have hr : s.v.rfix = true := by rw [hL.var]; rfl
  simp only [stepC, hpc, St.loopTop, St.retC, hr, if_true]
  repeat' split
  all_goals first
    | exact ⟨n1, n2, n3, n4, n5, n6⟩
    | (refine ⟨?_, ?_, ?_, ?_, ?_, ?_⟩ <;> grind [capturedGen, upd, Notify.one, Notify.waiters, CN_upd, CN_upd_ntfW, CN_closed])

theorem stepC_NInv_isEmpty (s : St) (start : Bool)  (hpc : s.cp = .isEmpty )
    (hL : LInv s) (h : NInv s) : NInv (stepC s start) := by
  obtain ⟨n1, n2, n3, n4, n5, n6⟩ := h
  have hr : s.v.rfix = true := by rw [hL.var]; rfl
  simp only [stepC, hpc, St.loopTop, St.retC, hr, if_true]
  repeat' split
  all_goals first
    | exact ⟨n1, n2, n3, n4, n5, n6⟩
    | (refine ⟨?_, ?_, ?_, ?_, ?_, ?_⟩ <;> grind [capturedGen, upd, Notify.one, Notify.waiters, CN_upd, CN_upd_ntfW, CN_closed])

theorem stepC_NInv_stEnded2 (s : St) (start : Bool)  (hpc : s.cp = .stEnded2 )
    (hL : LInv s) (h : NInv s) : NInv (stepC s start) := by
  obtain ⟨n1, n2, n3, n4, n5, n6⟩ := h
  have hr : s.v.rfix = true := by rw [hL.var]; rfl
  simp only [stepC, hpc, St.loopTop, St.retC, hr, if_true]
  repeat' split
  all_goals first
    | exact ⟨n1, n2, n3, n4, n5, n6⟩
    | (refine ⟨?_, ?_, ?_, ?_, ?_, ?_⟩ <;> grind [capturedGen, upd, Notify.one, Notify.waiters, CN_upd, CN_upd_ntfW, CN_closed])

theorem stepS_NInv (s : St) (start : Bool) (h : NInv s) : NInv (stepS s start) := by
  obtain ⟨n1, n2, n3, n4, n5, n6⟩ := h
  simp only [stepS]
  repeat' split
  all_goals first
    | exact ⟨n1, n2, n3, n4, n5, n6⟩
    | (refine ⟨?_, ?_, ?_, ?_, ?_, ?_⟩ <;> grind [capturedGen, Notify.waiters, CN_closed])

theorem stepP_NInv (s : St) (i : Nat) (op : Option POp) (hL : LInv s) (h : NInv s) : NInv (stepP s i op) := by
  cases hpc : s.pp i with
  | none  => exact stepP_NInv_none s i op  hpc hL h
  | reserved  => exact stepP_NInv_reserved s i op  hpc hL h
  | gone  => exact stepP_NInv_gone s i op  hpc hL h
  | idle  => exact stepP_NInv_idle s i op  hpc hL h
  | acq k v rest => exact stepP_NInv_acq s i op k v rest hpc hL h
  | chk k v rest => exact stepP_NInv_chk s i op k v rest hpc hL h
  | push c v rest p => exact stepP_NInv_push s i op c v rest p hpc hL h
  | ntf c rest => exact stepP_NInv_ntf s i op c rest hpc hL h
  | tryLock v rest => exact stepP_NInv_tryLock s i op v rest hpc hL h
  | pop v rest p => exact stepP_NInv_pop s i op v rest p hpc hL h
  | clone j' => exact stepP_NInv_clone s i op j' hpc hL h
  | fetchSub  => exact stepP_NInv_fetchSub s i op  hpc hL h
  | stClosed  => exact stepP_NInv_stClosed s i op  hpc hL h
  | ntfW  => exact stepP_NInv_ntfW s i op  hpc hL h

theorem stepC_NInv (s : St) (start : Bool) (hL : LInv s) (h : NInv s) : NInv (stepC s start) := by
  cases hpc : s.cp with
  | idle  => exact stepC_NInv_idle s start  hpc hL h
  | mkNtf  => exact stepC_NInv_mkNtf s start  hpc hL h
  | ldEnded g => exact stepC_NInv_ldEnded s start g hpc hL h
  | lock g => exact stepC_NInv_lock s start g hpc hL h
  | ldClosed1 g => exact stepC_NInv_ldClosed1 s start g hpc hL h
  | pop g cl p => exact stepC_NInv_pop s start g cl p hpc hL h
  | ldClosedOld  => exact stepC_NInv_ldClosedOld s start  hpc hL h
  | stEnded  => exact stepC_NInv_stEnded s start  hpc hL h
  | await1 g => exact stepC_NInv_await1 s start g hpc hL h
  | await2  => exact stepC_NInv_await2 s start  hpc hL h
  | ldClosed2  => exact stepC_NInv_ldClosed2 s start  hpc hL h
  | isEmpty  => exact stepC_NInv_isEmpty s start  hpc hL h
  | stEnded2  => exact stepC_NInv_stEnded2 s start  hpc hL h

theorem NInv.init (cap W : Nat) : NInv (St.init Variant.cur cap W 0) := by
  refine ⟨?_, ?_, ?_, ?_, ?_, ?_⟩ <;> simp [St.init, capturedGen]

/-- control invariant + wake-up invariant (independent of the ring) -/
structure WInv (s : St) : Prop where
  l : LInv s
  n : NInv s

theorem step_WInv (s : St) (l : Label) (h : WInv s) : WInv (step s l) := by
  refine ⟨step_LInv s l h.l, ?_⟩
  cases l with
  | prod i op => exact stepP_NInv s i op h.l h.n
  | cons st => exact stepC_NInv s st h.l h.n
  | stop st => exact stepS_NInv s st h.n
  | rcv op => have hq : s.v.pipe = false := by rw [h.l.var]; rfl
              simpa [step, stepR, hq] using h.n

theorem run_WInv (s : St) (ls : List Label) (h : WInv s) : WInv (run s ls) := by
  induction ls generalizing s with
  | nil => exact h
  | cons l ls ih => exact ih (step s l) (step_WInv s l h)

/-- once every source is dropped and the closing `notify_waiters` has run, the consumer is never
blocked: its waiter has been woken, and nobody holds the lock it may be waiting for -/
theorem not_blocked_after_close (s : St) (h : WInv s) (hc : s.closed = true)
    (hg : ∀ i, s.pp i = .none ∨ s.pp i = .reserved ∨ s.pp i = .gone) : blocked s (.cons false) = false := by
  have hcn : CN s.closed s.pp := ⟨hc, fun i => by rcases hg i with e | e | e <;> simp [e]⟩
  simp only [blocked]
  split
  · rename_i g hcp
    -- waiting for pop_lock: nobody holds it
    cases hpl : s.poplock with
    | none => rfl
    | some t =>
      cases t with
      | prod i =>
        have := (h.l.poplockP i).2 hpl
        rcases hg i with e | e | e <;> simp [e, holdsPopP] at this
      | cons => have := h.l.poplockC.2 hpl; simp [hcp, holdsPopC] at this
      | stop => exact absurd hpl h.l.poplockStop
  · rename_i hcp
    simp [h.n.woken hcp hcn]
  · rfl

end RtcModel.SpscTrack
