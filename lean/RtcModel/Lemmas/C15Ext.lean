/- C15 — helper lemmas for the RFC 8285 one-byte-header walks (`getOne`, `rebuild`). Core Lean only. -/
import RtcModel.C15Ext
import RtcModel.Lemmas.C15Bytes
import RtcModel.Lemmas.C15Consts

namespace RtcModel.C15
open RtcModel.Generated

/-- `oneByteElem` with the id as a natural number -/
def oneByteElem' (id : Nat) (data : Bytes) : Bytes := u8 (id * 16 + (data.length - 1)) :: data

theorem oneByteElem_eq (id : UInt8) (data : Bytes) : oneByteElem id data = oneByteElem' id.toNat data := rfl

/-- the element written by `set_extension` for a valid id / length -/
structure ElemOk (id : Nat) (data : Bytes) : Prop where
  idPos : 1 ≤ id
  idLt : id ≤ 14
  lenPos : 1 ≤ data.length
  lenLe : data.length ≤ 16

theorem elem_hdr {id : Nat} {data : Bytes} (w : ElemOk id data) :
    (u8 (id * 16 + (data.length - 1))).toNat = id * 16 + (data.length - 1) := by
  have := w.idLt; have := w.lenLe
  rw [u8_toNat]; omega

theorem elem_hdr_ne_zero {id : Nat} {data : Bytes} (w : ElemOk id data) :
    u8 (id * 16 + (data.length - 1)) ≠ 0 := by
  intro h
  have h2 := congrArg UInt8.toNat h
  rw [elem_hdr w] at h2
  have := w.idPos
  simp at h2; omega

/-- reading the target id directly at a freshly written element -/
theorem getOne_elem_self {id : Nat} {data : Bytes} (w : ElemOk id data) (tail : Bytes) :
    getOne id (u8 (id * 16 + (data.length - 1)) :: (data ++ tail)) = some data := by
  have := w.idPos; have := w.idLt; have := w.lenPos; have := w.lenLe
  have := c15StopIdGet_eq
  rw [getOne]
  simp only [elem_hdr_ne_zero w, if_false, elem_hdr w]
  have h1 : (id * 16 + (data.length - 1)) / 16 = id := by omega
  have h2 : (id * 16 + (data.length - 1)) % 16 + 1 = data.length := by omega
  rw [h1, h2, if_neg (by omega), if_pos rfl, if_pos (by simp)]
  simp

/-- any other id skips a freshly written element -/
theorem getOne_elem_other {id id' : Nat} {data : Bytes} (w : ElemOk id data) (hne : id' ≠ id) (tail : Bytes) :
    getOne id' (u8 (id * 16 + (data.length - 1)) :: (data ++ tail)) = getOne id' tail := by
  have := w.idPos; have := w.idLt; have := w.lenPos; have := w.lenLe
  have := c15StopIdGet_eq
  rw [getOne]
  simp only [elem_hdr_ne_zero w, if_false, elem_hdr w]
  have h1 : (id * 16 + (data.length - 1)) / 16 = id := by omega
  have h2 : (id * 16 + (data.length - 1)) % 16 + 1 = data.length := by omega
  rw [h1, h2, if_neg (by omega), if_neg (by omega)]
  simp

theorem getOne_zeros (id k : Nat) : getOne id (List.replicate k 0) = none := by
  induction k with
  | zero => simp [getOne]
  | succ k ih => rw [List.replicate_succ, getOne]; simp [ih]

theorem getOne_nil (id : Nat) : getOne id [] = none := by rw [getOne]

theorem getOne_cons_zero (id : Nat) (rest : Bytes) : getOne id (0 :: rest) = getOne id rest := by
  rw [getOne]; simp

theorem getOne_cons {b : UInt8} (hb : b ≠ 0) (id : Nat) (rest : Bytes) :
    getOne id (b :: rest) =
      if b.toNat / 16 = 15 then none
      else if b.toNat / 16 = id then
        (if b.toNat % 16 + 1 ≤ rest.length then some (rest.take (b.toNat % 16 + 1)) else none)
      else getOne id (rest.drop (b.toNat % 16 + 1)) := by
  rw [getOne]; simp only [hb, if_false, c15StopIdGet_eq]

theorem rebuild_nil (id : Nat) (e : Bytes) : rebuild id e [] = some ([], false) := by rw [rebuild]

theorem rebuild_cons_zero (id : Nat) (e rest : Bytes) : rebuild id e (0 :: rest) = rebuild id e rest := by
  rw [rebuild]; simp

theorem rebuild_cons {b : UInt8} (hb : b ≠ 0) (id : Nat) (e rest : Bytes) :
    rebuild id e (b :: rest) =
      if b.toNat / 16 = 15 then some ([], false)
      else if b.toNat / 16 = id then
        (rebuild id e (rest.drop (b.toNat % 16 + 1))).map fun r => (e ++ r.1, true)
      else if b.toNat % 16 + 1 ≤ rest.length then
        (rebuild id e (rest.drop (b.toNat % 16 + 1))).map fun r => (b :: (rest.take (b.toNat % 16 + 1) ++ r.1), r.2)
      else none := by
  rw [rebuild]; simp only [hb, if_false, c15StopIdSet_eq]

theorem take_drop_helper (k : Nat) (rest o : Bytes) (h : k ≤ rest.length) :
    (rest.take k ++ o).take k = rest.take k ∧ (rest.take k ++ o).drop k = o ∧ k ≤ (rest.take k ++ o).length := by
  have hl : (rest.take k).length = k := by simp [List.length_take]; omega
  refine ⟨?_, ?_, ?_⟩
  · rw [List.take_append_of_le_length (by omega)]; simp [List.take_take]
  · rw [List.drop_append_of_le_length (by omega)]
    have : List.drop k (List.take k rest) = [] := by simp [List.drop_take]
    rw [this]; simp [hl]
  · simp [hl]

/-- **frame**: what a non-target id reads from the rebuilt block followed by `tail` -/
theorem getOne_rebuild_other (id id' : Nat) (data : Bytes) (w : ElemOk id data) (hne : id' ≠ id) (tail : Bytes) :
    ∀ (n : Nat) (bs out : Bytes) (found : Bool), bs.length = n →
      rebuild id (oneByteElem' id data) bs = some (out, found) →
      getOne id' (out ++ tail) = (match getOne id' bs with | some v => some v | none => getOne id' tail) := by
  intro n
  induction n using Nat.strongRecOn with
  | ind n ih =>
    intro bs out found h hr
    match bs, h with
    | [], _ =>
      rw [rebuild_nil] at hr
      simp only [Option.some.injEq, Prod.mk.injEq] at hr
      obtain ⟨rfl, _⟩ := hr
      simp [getOne_nil]
    | b :: rest, hlen =>
      by_cases hb : b = 0
      · subst hb
        rw [rebuild_cons_zero] at hr
        rw [getOne_cons_zero]
        exact ih rest.length (by simp at hlen; omega) rest out found rfl hr
      · rw [rebuild_cons hb] at hr
        rw [getOne_cons hb]
        by_cases h15 : b.toNat / 16 = 15
        · rw [if_pos h15] at hr
          simp only [Option.some.injEq, Prod.mk.injEq] at hr
          obtain ⟨rfl, _⟩ := hr
          simp [h15]
        · rw [if_neg h15] at hr
          rw [if_neg h15]
          have hlt : (rest.drop (b.toNat % 16 + 1)).length < n := by
            simp at hlen ⊢; omega
          by_cases hid : b.toNat / 16 = id
          · rw [if_pos hid] at hr
            rw [if_neg (by omega)]
            cases hrec : rebuild id (oneByteElem' id data) (rest.drop (b.toNat % 16 + 1)) with
            | none => simp [hrec] at hr
            | some r =>
              obtain ⟨o, f⟩ := r
              simp only [hrec, Option.map_some, Option.some.injEq, Prod.mk.injEq] at hr
              obtain ⟨rfl, _⟩ := hr
              have := ih _ hlt _ o f rfl hrec
              simp only [oneByteElem', List.cons_append, List.append_assoc]
              rw [getOne_elem_other w hne, this]
          · rw [if_neg hid] at hr
            by_cases hfit : b.toNat % 16 + 1 ≤ rest.length
            · rw [if_pos hfit] at hr
              cases hrec : rebuild id (oneByteElem' id data) (rest.drop (b.toNat % 16 + 1)) with
              | none => simp [hrec] at hr
              | some r =>
                obtain ⟨o, f⟩ := r
                simp only [hrec, Option.map_some, Option.some.injEq, Prod.mk.injEq] at hr
                obtain ⟨rfl, rfl⟩ := hr
                have := ih _ hlt _ o f rfl hrec
                have td := take_drop_helper (b.toNat % 16 + 1) rest (o ++ tail) hfit
                simp only [List.cons_append, List.append_assoc]
                rw [getOne_cons hb, if_neg h15]
                by_cases hid' : b.toNat / 16 = id'
                · rw [if_pos hid', if_pos hid', if_pos td.2.2, if_pos hfit, td.1]
                · rw [if_neg hid', if_neg hid', td.2.1, this]
            · rw [if_neg hfit] at hr; cases hr

/-- **target**: what the target id reads from the rebuilt block followed by `tail` -/
theorem getOne_rebuild_self (id : Nat) (data : Bytes) (w : ElemOk id data) (tail : Bytes) :
    ∀ (n : Nat) (bs out : Bytes) (found : Bool), bs.length = n →
      rebuild id (oneByteElem' id data) bs = some (out, found) →
      getOne id (out ++ tail) = if found then some data else getOne id tail := by
  intro n
  induction n using Nat.strongRecOn with
  | ind n ih =>
    intro bs out found h hr
    match bs, h with
    | [], _ =>
      rw [rebuild_nil] at hr
      simp only [Option.some.injEq, Prod.mk.injEq] at hr
      obtain ⟨rfl, rfl⟩ := hr
      simp
    | b :: rest, hlen =>
      by_cases hb : b = 0
      · subst hb
        rw [rebuild_cons_zero] at hr
        exact ih rest.length (by simp at hlen; omega) rest out found rfl hr
      · rw [rebuild_cons hb] at hr
        by_cases h15 : b.toNat / 16 = 15
        · rw [if_pos h15] at hr
          simp only [Option.some.injEq, Prod.mk.injEq] at hr
          obtain ⟨rfl, rfl⟩ := hr
          simp
        · rw [if_neg h15] at hr
          have hlt : (rest.drop (b.toNat % 16 + 1)).length < n := by
            simp at hlen ⊢; omega
          by_cases hid : b.toNat / 16 = id
          · rw [if_pos hid] at hr
            cases hrec : rebuild id (oneByteElem' id data) (rest.drop (b.toNat % 16 + 1)) with
            | none => simp [hrec] at hr
            | some r =>
              obtain ⟨o, f⟩ := r
              simp only [hrec, Option.map_some, Option.some.injEq, Prod.mk.injEq] at hr
              obtain ⟨rfl, rfl⟩ := hr
              simp only [oneByteElem', List.cons_append, List.append_assoc]
              rw [getOne_elem_self w]; simp
          · rw [if_neg hid] at hr
            by_cases hfit : b.toNat % 16 + 1 ≤ rest.length
            · rw [if_pos hfit] at hr
              cases hrec : rebuild id (oneByteElem' id data) (rest.drop (b.toNat % 16 + 1)) with
              | none => simp [hrec] at hr
              | some r =>
                obtain ⟨o, f⟩ := r
                simp only [hrec, Option.map_some, Option.some.injEq, Prod.mk.injEq] at hr
                obtain ⟨rfl, rfl⟩ := hr
                have := ih _ hlt _ o f rfl hrec
                have td := take_drop_helper (b.toNat % 16 + 1) rest (o ++ tail) hfit
                simp only [List.cons_append, List.append_assoc]
                rw [getOne_cons hb, if_neg h15, if_neg hid, td.2.1, this]
            · rw [if_neg hfit] at hr; cases hr

end RtcModel.C15

namespace RtcModel.C15
open RtcModel.Generated

/-- everything `setExtension … = .ok h'` tells us -/
theorem setExtension_ok_inv {h h' : Header} {id : UInt8} {data : Bytes} (hs : setExtension h id data = .ok h') :
    ElemOk id.toNat data ∧
    (∀ e, h.ext = some e → e.profile.toNat = c15OneByteProfile) ∧
    ∃ out found,
      rebuild id.toNat (oneByteElem' id.toNat data) ((h.ext.getD ⟨UInt16.ofNat c15OneByteProfile, []⟩).data) = some (out, found) ∧
      h' = { h with ext := some ⟨(h.ext.getD ⟨UInt16.ofNat c15OneByteProfile, []⟩).profile,
        (if found then out else out ++ oneByteElem' id.toNat data) ++
          List.replicate (pad4 (if found then out else out ++ oneByteElem' id.toNat data).length) 0⟩ } := by
  unfold setExtension at hs
  by_cases h1 : id.toNat = 0 ∨ id.toNat ≥ c15ExtIdLimit
  · rw [if_pos h1] at hs; cases hs
  · rw [if_neg h1] at hs
    by_cases h2 : data.length > c15ExtMaxData ∨ data.isEmpty = true
    · rw [if_pos h2] at hs; cases hs
    · rw [if_neg h2] at hs
      simp only at hs
      by_cases h3 : (h.ext.getD ⟨UInt16.ofNat c15OneByteProfile, []⟩).profile.toNat ≠ c15OneByteProfile
      · rw [if_pos h3] at hs; cases hs
      · rw [if_neg h3] at hs
        rw [oneByteElem_eq] at hs
        cases hr : rebuild id.toNat (oneByteElem' id.toNat data) (h.ext.getD ⟨UInt16.ofNat c15OneByteProfile, []⟩).data with
        | none => rw [hr] at hs; cases hs
        | some r =>
          obtain ⟨out, found⟩ := r
          rw [hr] at hs
          simp only [SetRes.ok.injEq] at hs
          simp only [c15ExtIdLimit_val, c15ExtMaxData_val, List.isEmpty_iff] at h1 h2
          have hlen : data.length ≠ 0 := fun h0 => h2 (Or.inr (List.eq_nil_of_length_eq_zero h0))
          refine ⟨⟨by omega, by omega, by omega, by omega⟩, ?_, out, found, rfl, hs.symm⟩
          intro e he
          simp only [he, Option.getD_some] at h3
          exact Decidable.of_not_not h3

end RtcModel.C15

namespace RtcModel.C15
open RtcModel.Generated

/-! ### canonical RFC 8285 encodings of an element list -/

/-- one-byte-header form: `(id << 4 | len-1) data…` per element -/
def encodeOne (els : List (Nat × Bytes)) : Bytes := els.flatMap fun e => oneByteElem' e.1 e.2

/-- two-byte-header form: `id len data…` per element -/
def encodeTwo (els : List (Nat × Bytes)) : Bytes := els.flatMap fun e => u8 e.1 :: u8 e.2.length :: e.2

def lookup (id : Nat) : List (Nat × Bytes) → Option Bytes
  | [] => none
  | (k, d) :: rest => if k = id then some d else lookup id rest

theorem getOne_encodeOne (els : List (Nat × Bytes)) (hok : ∀ e ∈ els, ElemOk e.1 e.2) (id k : Nat) :
    getOne id (encodeOne els ++ List.replicate k 0) = lookup id els := by
  induction els with
  | nil => simp [encodeOne, lookup, getOne_zeros]
  | cons e els ih =>
    obtain ⟨eid, d⟩ := e
    have w : ElemOk eid d := hok (eid, d) (List.mem_cons_self ..)
    have ih' := ih (fun x hx => hok x (List.mem_cons_of_mem _ hx))
    simp only [encodeOne, List.flatMap_cons, oneByteElem', List.cons_append, List.append_assoc, lookup] at ih' ⊢
    by_cases h : eid = id
    · subst h; rw [if_pos rfl, getOne_elem_self w]
    · rw [if_neg h, getOne_elem_other w (Ne.symm h)]
      exact ih'

theorem getTwo_nil (id : Nat) : getTwo id [] = none := by rw [getTwo]

theorem getTwo_zeros (id k : Nat) : getTwo id (List.replicate k 0) = none := by
  induction k with
  | zero => simp [getTwo_nil]
  | succ k ih => rw [List.replicate_succ, getTwo.eq_def]; simp [ih]

/-- element ids 1..255, data up to 255 bytes -/
structure Elem2Ok (id : Nat) (data : Bytes) : Prop where
  idPos : 1 ≤ id
  idLt : id ≤ 255
  lenLe : data.length ≤ 255

theorem getTwo_elem {eid : Nat} {d : Bytes} (w : Elem2Ok eid d) (id : Nat) (tail : Bytes) :
    getTwo id (u8 eid :: u8 d.length :: (d ++ tail)) = if eid = id then some d else getTwo id tail := by
  have := w.idPos; have := w.idLt; have := w.lenLe
  have h1 : (u8 eid).toNat = eid := u8_toNat_lt (by omega)
  have h2 : (u8 d.length).toNat = d.length := u8_toNat_lt (by omega)
  have hne : u8 eid ≠ 0 := by
    intro h; have := congrArg UInt8.toNat h; rw [h1] at this; simp at this; omega
  rw [getTwo.eq_def]
  simp only [hne, if_false, h1, h2]
  by_cases h : eid = id
  · rw [if_pos h, if_pos h, if_pos (by simp)]; simp
  · rw [if_neg h, if_neg h]; simp

theorem getTwo_encodeTwo (els : List (Nat × Bytes)) (hok : ∀ e ∈ els, Elem2Ok e.1 e.2) (id k : Nat) :
    getTwo id (encodeTwo els ++ List.replicate k 0) = lookup id els := by
  induction els with
  | nil => simp [encodeTwo, lookup, getTwo_zeros]
  | cons e els ih =>
    obtain ⟨eid, d⟩ := e
    have w : Elem2Ok eid d := hok (eid, d) (List.mem_cons_self ..)
    have ih' := ih (fun x hx => hok x (List.mem_cons_of_mem _ hx))
    simp only [encodeTwo, List.flatMap_cons, List.cons_append, List.append_assoc, lookup] at ih' ⊢
    rw [getTwo_elem w, ih']

/-! ### interior padding and the stop marker -/

theorem getOne_pad (id k : Nat) (t : Bytes) : getOne id (List.replicate k 0 ++ t) = getOne id t := by
  induction k with
  | zero => simp
  | succ k ih => rw [List.replicate_succ, List.cons_append, getOne_cons_zero, ih]

/-- one-byte-header form with `pad` zero octets in front of each element -/
def encodeOnePadded (els : List (Nat × Nat × Bytes)) : Bytes :=
  els.flatMap fun e => List.replicate e.1 0 ++ oneByteElem' e.2.1 e.2.2

def lookupP (id : Nat) : List (Nat × Nat × Bytes) → Option Bytes
  | [] => none
  | (_, k, d) :: rest => if k = id then some d else lookupP id rest

/-- padding between elements is skipped; after the RFC 8285 stop element (id 15) nothing is read, whatever
octets follow -/
theorem getOne_encodeOnePadded (els : List (Nat × Nat × Bytes)) (hok : ∀ e ∈ els, ElemOk e.2.1 e.2.2) (id : Nat)
    (tail : Bytes) (htail : getOne id tail = none) :
    getOne id (encodeOnePadded els ++ tail) = lookupP id els := by
  induction els with
  | nil => simpa [encodeOnePadded, lookupP] using htail
  | cons e els ih =>
    obtain ⟨pad, eid, d⟩ := e
    have w : ElemOk eid d := hok (pad, eid, d) (List.mem_cons_self ..)
    have ih' := ih (fun x hx => hok x (List.mem_cons_of_mem _ hx))
    simp only [encodeOnePadded, List.flatMap_cons, List.append_assoc, lookupP] at ih' ⊢
    rw [getOne_pad]
    simp only [oneByteElem', List.cons_append, List.append_assoc]
    by_cases h : eid = id
    · subst h; rw [if_pos rfl, getOne_elem_self w]
    · rw [if_neg h, getOne_elem_other w (Ne.symm h)]
      exact ih'

theorem getOne_stop (id : Nat) (b : UInt8) (hb : b.toNat / 16 = 15) (junk : Bytes) : getOne id (b :: junk) = none := by
  have hne : b ≠ 0 := by intro h; rw [h] at hb; simp at hb
  rw [getOne_cons hne, if_pos hb]

end RtcModel.C15
