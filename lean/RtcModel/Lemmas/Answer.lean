/- Helper lemmas about `RtcModel.Answer` (attribute keys produced by the capability builders). -/
import RtcModel.Answer
import RtcModel.Lemmas.C08Text
namespace RtcModel.Answer
open RtcModel.Text RtcModel.SdpLines

/-- the attribute keys the codec part of `populate_media_capabilities` can produce -/
def CodecKey (a : Attr) : Prop :=
  a.key = "rtcp-mux".toList ∨ a.key = "rtpmap".toList ∨ a.key = "fmtp".toList ∨ a.key = "rtcp-fb".toList ∨
  a.key = "sctp-port".toList ∨ a.key = "T38FaxVersion".toList ∨ a.key = "T38MaxBitRate".toList ∨
  a.key = "T38FaxRateManagement".toList ∨ a.key = "T38FaxMaxBuffer".toList ∨ a.key = "T38FaxMaxDatagram".toList ∨
  a.key = "T38FaxUdpEC".toList

instance (a : Attr) : Decidable (CodecKey a) := by unfold CodecKey; infer_instance

theorem CodecKey.not_setup {a : Attr} (h : CodecKey a) : a.key ≠ "setup".toList := by
  intro hk; unfold CodecKey at h; rw [hk] at h; revert h; decide

theorem CodecKey.not_extmap {a : Attr} (h : CodecKey a) : a.key ≠ "extmap".toList := by
  intro hk; unfold CodecKey at h; rw [hk] at h; revert h; decide

def AllCodec (l : List Attr) : Prop := ∀ a ∈ l, CodecKey a

theorem AllCodec.append {l1 l2 : List Attr} (h1 : AllCodec l1) (h2 : AllCodec l2) : AllCodec (l1 ++ l2) := by
  intro a ha
  rcases List.mem_append.mp ha with h | h
  · exact h1 a h
  · exact h2 a h

theorem AllCodec.filter {l : List Attr} (p : Attr → Bool) (h : AllCodec l) : AllCodec (l.filter p) :=
  fun a ha => h a (List.mem_filter.mp ha).1

theorem allCodec_nil : AllCodec [] := fun _ h => by cases h

theorem muxAttr_codec (c : Cfg) : AllCodec (muxAttr c) := by
  unfold muxAttr; split
  · intro a ha; simp [flag] at ha; subst ha; left; rfl
  · exact allCodec_nil

theorem audioCapAttrs_codec (c : ACap) : AllCodec (audioCapAttrs c) := by
  intro a ha
  unfold audioCapAttrs at ha
  simp only [List.mem_append, List.mem_map, List.mem_singleton] at ha
  rcases ha with (h | h) | ⟨fb, _, h⟩
  · subst h; right; left; rfl
  · cases hf : c.fmtp <;> simp [hf, attr] at h
    subst h; right; right; left; rfl
  · subst h; right; right; right; left; rfl

theorem flatMap_codec {α : Type} (l : List α) (f : α → List Attr) (h : ∀ x, AllCodec (f x)) :
    AllCodec (l.flatMap f) := by
  intro a ha
  obtain ⟨x, _, hx⟩ := List.mem_flatMap.mp ha
  exact h x a hx

theorem applyAudioConfig_codec (c : Cfg) : AllCodec (applyAudioConfig c).2 :=
  (muxAttr_codec c).append (flatMap_codec _ _ audioCapAttrs_codec)

theorem applyAudioCaps_codec (fa : List Str × List Attr) (caps : List ACap) (h : AllCodec fa.2) :
    AllCodec (applyAudioCaps fa caps).2 :=
  (h.filter _).append (flatMap_codec _ _ audioCapAttrs_codec)

theorem appendRtx_codec (fa : List Str × List Attr) (p r cl : Nat) (h : AllCodec fa.2) :
    AllCodec (appendRtx fa p r cl).2 := by
  unfold appendRtx
  dsimp only
  split
  · exact h
  · refine h.append ?_
    intro a ha
    simp only [List.mem_cons, List.mem_nil_iff, or_false] at ha
    rcases ha with h | h
    · subst h; right; left; rfl
    · subst h; right; right; left; rfl

theorem videoCapStep_codec (fa : List Str × List Attr) (v : VCap) (h : AllCodec fa.2) :
    AllCodec (videoCapStep fa v).2 := by
  unfold videoCapStep
  have h1 : AllCodec (fa.2 ++ [attr "rtpmap" (natStr v.pt ++ sp ++ v.name ++ ['/'] ++ natStr v.clock)] ++
      (match v.fmtp with | some f => [attr "fmtp" (natStr v.pt ++ sp ++ f)] | none => []) ++
      v.fbs.map (fun fb => attr "rtcp-fb" (natStr v.pt ++ sp ++ fb))) := by
    refine ((h.append ?_).append ?_).append ?_
    · intro a ha; simp only [List.mem_singleton] at ha; subst ha; right; left; rfl
    · intro a ha
      cases hf : v.fmtp <;> simp [hf] at ha
      subst ha; right; right; left; rfl
    · intro a ha
      obtain ⟨fb, _, hfb⟩ := List.mem_map.mp ha
      subst hfb; right; right; right; left; rfl
  dsimp only
  split
  · exact appendRtx_codec _ _ _ _ h1
  · exact h1

theorem foldl_videoCapStep_codec (vs : List VCap) (fa : List Str × List Attr) (h : AllCodec fa.2) :
    AllCodec (vs.foldl videoCapStep fa).2 := by
  induction vs generalizing fa with
  | nil => exact h
  | cons v vs ih => exact ih _ (videoCapStep_codec fa v h)

theorem applyVideoConfig_codec (c : Cfg) : AllCodec (applyVideoConfig c).2 :=
  foldl_videoCapStep_codec _ _ (muxAttr_codec c)

theorem stripRtx_codec (fa : List Str × List Attr) (h : AllCodec fa.2) : AllCodec (stripRtx fa).2 := by
  unfold stripRtx
  dsimp only
  split
  · exact h
  · exact h.filter _

theorem foldl_appendRtx_codec (am : List (Nat × Nat)) (r : Media) (ps : List Nat) (fa : List Str × List Attr)
    (h : AllCodec fa.2) :
    AllCodec (ps.foldl (fun fa p => match rtxFor am p with
      | some rtx => appendRtx fa p rtx (remoteVideoClock r p)
      | none => fa) fa).2 := by
  induction ps generalizing fa with
  | nil => exact h
  | cons p ps ih =>
    simp only [List.foldl_cons]
    apply ih
    split
    · exact appendRtx_codec _ _ _ _ h
    · exact h

theorem mergeRemoteRtx_codec (r : Media) (fa : List Str × List Attr) (h : AllCodec fa.2) :
    AllCodec (mergeRemoteRtx r fa).2 := by
  unfold mergeRemoteRtx
  dsimp only
  split
  · exact h
  · exact foldl_appendRtx_codec _ _ _ _ h

theorem t38Attrs_codec (l : List T38Cap) : AllCodec (l.flatMap t38AttrsOf) := by
  intro a ha
  obtain ⟨t, _, ha⟩ := List.mem_flatMap.mp ha
  simp only [t38AttrsOf, List.mem_cons, List.mem_nil_iff, or_false] at ha
  have hk : a.key = "T38FaxVersion".toList ∨ a.key = "T38MaxBitRate".toList ∨ a.key = "T38FaxRateManagement".toList ∨
      a.key = "T38FaxMaxBuffer".toList ∨ a.key = "T38FaxMaxDatagram".toList ∨ a.key = "T38FaxUdpEC".toList := by
    rcases ha with h | h | h | h | h | h <;> subst h <;> simp [attr]
  unfold CodecKey
  rcases hk with h | h | h | h | h | h <;> rw [h] <;> decide

/-- the codec part (before the extmap / setup attributes are appended) only produces codec keys -/
theorem codecPart_codec (c : Cfg) (k : Kind) (o : Media) :
    AllCodec (codecPart c k o).2 := by
  unfold codecPart
  cases k with
  | audio =>
    dsimp only
    split
    · exact applyAudioCaps_codec _ _ (applyAudioConfig_codec c)
    · exact applyAudioConfig_codec c
  | video => exact mergeRemoteRtx_codec _ _ (stripRtx_codec _ (applyVideoConfig_codec c))
  | application =>
    intro a ha
    simp only [List.mem_singleton] at ha
    subst ha; right; right; right; right; left; rfl
  | image => exact t38Attrs_codec _

/-- two lists related position by position -/
inductive Aligned {α β : Type} (R : α → β → Prop) : List α → List β → Prop
  | nil : Aligned R [] []
  | cons {a : α} {b : β} {as : List α} {bs : List β} : R a b → Aligned R as bs → Aligned R (a :: as) (b :: bs)

/-- accumulator-free form of `buildSections` -/
def buildList (c : Cfg) (ts : List TrxView) (role : Option Bool) :
    List (Nat × Media) → Nat → List Media
  | [], _ => []
  | (i, o) :: rest, nextMid =>
    match ts[i]? with
    | none => buildList c ts role rest nextMid
    | some t =>
      match t.mid with
      | some m => answerSection c t o role m :: buildList c ts role rest nextMid
      | none => answerSection c t o role (natStr nextMid) ::
          buildList c ts role rest ((nextMid + 1) % 65536)

theorem buildSections_eq (c : Cfg) (ts : List TrxView) (role : Option Bool)
    (order : List (Nat × Media)) (nm : Nat) (acc : List Media) :
    buildSections c ts role order nm acc = acc.reverse ++ buildList c ts role order nm := by
  induction order generalizing nm acc with
  | nil => simp [buildSections, buildList]
  | cons p rest ih =>
    obtain ⟨i, o⟩ := p
    unfold buildSections buildList
    cases hget : ts[i]? with
    | none => simp only; exact ih nm acc
    | some t =>
      cases hm : t.mid with
      | some m => simp only [hm]; rw [ih]; simp
      | none => simp only [hm]; rw [ih]; simp

/-- pointwise property of the built sections along the offer's sections: the section built for the
order entry `p` is `answerSection … p.2 …`, i.e. built FROM the offered section the entry carries -/
theorem zipAll_buildList (c : Cfg) (ts : List TrxView) (role : Option Bool)
    (P : Media → Media → Bool) (secs : List Media) (order : List (Nat × Media)) (nm : Nat)
    (hv : ∀ p ∈ order, p.1 < ts.length)
    (h : Aligned (fun o p => ∀ t mid, ts[p.1]? = some t → (∀ m, t.mid = some m → mid = m) →
            P o (answerSection c t p.2 role mid) = true) secs order) :
    zipAll P secs (buildList c ts role order nm) = true := by
  induction h generalizing nm with
  | nil => simp [buildList, zipAll]
  | @cons o p secs' order' hop _ ih =>
    obtain ⟨i, o'⟩ := p
    have hi : i < ts.length := hv (i, o') (by simp)
    have hget : ts[i]? = some ts[i] := List.getElem?_eq_getElem hi
    have hv' : ∀ p ∈ order', p.1 < ts.length := fun p hp => hv p (by simp [hp])
    unfold buildList
    rw [hget]
    cases hm : (ts[i]).mid with
    | some m =>
      have := hop _ m hget (fun m' hm' => by rw [hm] at hm'; injection hm')
      simp only [hm, zipAll, this, ih _ hv', Bool.and_self]
    | none =>
      have := hop _ (natStr nm) hget (fun m' hm' => by rw [hm] at hm'; cases hm')
      simp only [hm, zipAll, this, ih _ hv', Bool.and_self]

theorem Aligned.imp {α β : Type} {R S : α → β → Prop} {as : List α} {bs : List β}
    (h : Aligned R as bs) (hrs : ∀ a b, a ∈ as → b ∈ bs → R a b → S a b) : Aligned S as bs := by
  induction h with
  | nil => exact .nil
  | cons hab _ ih =>
    exact .cons (hrs _ _ (by simp) (by simp) hab)
      (ih (fun a b ha hb => hrs a b (List.mem_cons_of_mem _ ha) (List.mem_cons_of_mem _ hb)))

theorem Aligned.and {α β : Type} {R S : α → β → Prop} {as : List α} {bs : List β}
    (h1 : Aligned R as bs) (h2 : Aligned S as bs) : Aligned (fun a b => R a b ∧ S a b) as bs := by
  induction h1 with
  | nil => exact .nil
  | cons hab _ ih => cases h2 with | cons hs ht => exact .cons ⟨hab, hs⟩ (ih ht)

theorem findIdxFrom_spec (p : Nat → TrxView → Bool) (ts : List TrxView) (i j : Nat)
    (h : findIdxFrom p ts i = some j) : ∃ t, ts[j - i]? = some t ∧ p j t = true ∧ i ≤ j := by
  induction ts generalizing i with
  | nil => simp [findIdxFrom] at h
  | cons t rest ih =>
    unfold findIdxFrom at h
    split at h
    · rename_i hp
      simp only [Option.some.injEq] at h; subst h
      exact ⟨t, by simp, hp, Nat.le_refl _⟩
    · obtain ⟨t', ht', hp', hle⟩ := ih _ h
      refine ⟨t', ?_, hp', by omega⟩
      have : j - i = (j - (i + 1)) + 1 := by omega
      rw [this]; simpa using ht'

/-- how an offered section and the transceiver chosen for it are related -/
def Matches (o : Media) (t : TrxView) : Prop :=
  (o.mid ≠ [] ∧ t.mid = some o.mid ∧ t.kind = o.kind) ∨ (o.mid = [] ∧ t.kind = o.kind)

/-- every entry of the matching carries the offered section at its position, and a transceiver that
`Matches` it -/
theorem answerOrder_matches (ts : List TrxView) (secs : List Media) (used : List Nat) (acc out : List (Nat × Media))
    (h : answerOrder ts secs used acc = some out) :
    ∃ tail, out = acc.reverse ++ tail ∧
      Aligned (fun o p => p.2 = o ∧ ∃ t, ts[p.1]? = some t ∧ Matches o t) secs tail := by
  induction secs generalizing used acc with
  | nil => simp [answerOrder] at h; subst h; exact ⟨[], by simp, .nil⟩
  | cons s rest ih =>
    unfold answerOrder at h
    dsimp only at h
    split at h
    · rename_i i hi
      obtain ⟨tail, ht, hf⟩ := ih _ _ h
      refine ⟨(i, s) :: tail, ?_, .cons ⟨rfl, ?_⟩ hf⟩
      · rw [ht]; simp
      · split at hi
        · rename_i hmid
          obtain ⟨t, hget, hp, _⟩ := findIdxFrom_spec _ _ _ _ hi
          refine ⟨t, by simpa using hget, Or.inl ⟨?_, ?_, ?_⟩⟩
          · intro e; simp [e] at hmid
          · simp only [Bool.and_eq_true, decide_eq_true_eq] at hp; exact hp.2
          · simp only [Bool.and_eq_true, decide_eq_true_eq] at hp; exact hp.1.2
        · rename_i hmid
          obtain ⟨t, hget, hp, _⟩ := findIdxFrom_spec _ _ _ _ hi
          refine ⟨t, by simpa using hget, Or.inr ⟨?_, ?_⟩⟩
          · simpa using hmid
          · simp only [Bool.and_eq_true, decide_eq_true_eq] at hp; exact hp.2
    · cases h

theorem zipAll_and_left (P Q : Media → Media → Bool) (os as : List Media)
    (h : zipAll (fun o s => P o s && Q o s) os as = true) : zipAll P os as = true := by
  induction os generalizing as with
  | nil => cases as <;> simp_all [zipAll]
  | cons o os ih =>
    cases as with
    | nil => simp [zipAll] at h
    | cons s ss =>
      simp only [zipAll, Bool.and_eq_true] at h ⊢
      exact ⟨h.1.1, ih ss h.2⟩

theorem zipAll_and_right (P Q : Media → Media → Bool) (os as : List Media)
    (h : zipAll (fun o s => P o s && Q o s) os as = true) : zipAll Q os as = true := by
  induction os generalizing as with
  | nil => cases as <;> simp_all [zipAll]
  | cons o os ih =>
    cases as with
    | nil => simp [zipAll] at h
    | cons s ss =>
      simp only [zipAll, Bool.and_eq_true] at h ⊢
      exact ⟨h.1.2, ih ss h.2⟩

theorem zipAll_map_right (P : Media → Media → Bool) (f : Media → Media) (hf : ∀ o s, P o (f s) = P o s)
    (secs l : List Media) : zipAll P secs (l.map f) = zipAll P secs l := by
  induction secs generalizing l with
  | nil => cases l <;> simp [zipAll]
  | cons o os ih => cases l with
    | nil => simp [zipAll]
    | cons s ss => simp [zipAll, hf, ih]

theorem buildList_mem (c : Cfg) (ts : List TrxView) (role : Option Bool)
    (order : List (Nat × Media)) (nm : Nat) :
    ∀ s ∈ buildList c ts role order nm, ∃ t o mid, s = answerSection c t o role mid := by
  induction order generalizing nm with
  | nil => intro s hs; simp [buildList] at hs
  | cons p rest ih =>
    obtain ⟨i, o⟩ := p
    intro s hs
    unfold buildList at hs
    cases hget : ts[i]? with
    | none => rw [hget] at hs; exact ih _ s hs
    | some t =>
      rw [hget] at hs
      cases hm : t.mid with
      | some m =>
        simp only [hm, List.mem_cons] at hs
        rcases hs with h | h
        · exact ⟨t, o, m, h⟩
        · exact ih _ s h
      | none =>
        simp only [hm, List.mem_cons] at hs
        rcases hs with h | h
        · exact ⟨t, o, _, h⟩
        · exact ih _ s h

theorem buildList_length_le (c : Cfg) (ts : List TrxView) (role : Option Bool)
    (order : List (Nat × Media)) (nm : Nat) :
    (buildList c ts role order nm).length ≤ order.length := by
  induction order generalizing nm with
  | nil => simp [buildList]
  | cons p rest ih =>
    obtain ⟨i, o⟩ := p
    unfold buildList
    cases hget : ts[i]? with
    | none => simp only; have := ih nm; simp; omega
    | some t =>
      cases hm : t.mid with
      | some m => simp only [hm, List.length_cons]; have := ih nm; omega
      | none => simp only [hm, List.length_cons]; have := ih ((nm + 1) % 65536); omega

theorem answerOrder_length (ts : List TrxView) (secs : List Media) (used : List Nat) (acc out : List (Nat × Media))
    (h : answerOrder ts secs used acc = some out) : out.length = acc.length + secs.length := by
  induction secs generalizing used acc with
  | nil => simp [answerOrder] at h; subst h; simp
  | cons s rest ih =>
    unfold answerOrder at h
    dsimp only at h
    split at h
    · have := ih _ _ h
      simp at this ⊢; omega
    · cases h

/-- the sections of an answer, before the mids are (possibly) cleared -/
theorem answer_sections (c : Cfg) (ts : List TrxView) (nextMid : Nat) (role : Option Bool)
    (offer : Desc) (a : Answer) (h : answer c ts nextMid role (some offer) = .ok a) :
    ∃ order, answerOrder ts offer.media [] [] = some order ∧
      (a.sections = buildList c ts role order nextMid ∨
       a.sections = (buildList c ts role order nextMid).map (fun s => { s with mid := [] })) ∧
      ((c.legacySip = false ∧ (offeredBundle offer.session.attrs = true ∨ offer.media.length ≤ 1)) →
        a.sections = buildList c ts role order nextMid) := by
  unfold answer at h
  by_cases hts : ts.isEmpty = true
  · simp [hts] at h
  · simp only [hts, Bool.false_eq_true, if_false] at h
    cases ho : answerOrder ts offer.media [] [] with
    | none => simp [ho] at h
    | some order =>
      simp only [ho] at h
      injection h with h
      subst h
      refine ⟨order, rfl, ?_, ?_⟩
      · dsimp only
        simp only [buildSections_eq, List.reverse_nil, List.nil_append]
        split
        · right; rfl
        · split
          · right; rfl
          · left; rfl
      · intro ⟨hl, hb⟩
        dsimp only
        simp only [buildSections_eq, List.reverse_nil, List.nil_append, hl, Bool.false_eq_true, if_false]
        split
        · rename_i hc
          simp only [Bool.not_false, Bool.true_and, Bool.and_eq_true, Bool.not_eq_true', decide_eq_true_eq] at hc
          rcases hb with hb | hb
          · rw [hb] at hc; exact absurd hc.1 (by simp)
          · exfalso
            have h1 := buildList_length_le c ts role order nextMid
            have h2 := answerOrder_length ts offer.media [] [] order ho
            simp only [List.length_nil, Nat.zero_add] at h2
            omega
        · rfl


theorem findIdxFrom_lt (p : Nat → TrxView → Bool) (ts : List TrxView) (i j : Nat)
    (h : findIdxFrom p ts i = some j) : i ≤ j ∧ j < i + ts.length := by
  induction ts generalizing i with
  | nil => simp [findIdxFrom] at h
  | cons t rest ih =>
    unfold findIdxFrom at h
    split at h
    · simp at h; subst h; simp
    · have := ih _ h
      simp; omega

theorem answerOrder_valid (ts : List TrxView) (secs : List Media) (used : List Nat) (acc out : List (Nat × Media))
    (hacc : ∀ p ∈ acc, p.1 < ts.length)
    (h : answerOrder ts secs used acc = some out) : ∀ p ∈ out, p.1 < ts.length := by
  induction secs generalizing used acc with
  | nil => simp [answerOrder] at h; subst h; intro p hp; exact hacc p (List.mem_reverse.mp hp)
  | cons s rest ih =>
    unfold answerOrder at h
    dsimp only at h
    split at h
    · rename_i i hi
      refine ih _ _ ?_ h
      intro p hp
      rcases List.mem_cons.mp hp with hp | hp
      · subst hp
        dsimp only
        split at hi
        · have := findIdxFrom_lt _ _ _ _ hi; omega
        · have := findIdxFrom_lt _ _ _ _ hi; omega
      · exact hacc p hp
    · cases h

theorem buildList_length (c : Cfg) (ts : List TrxView)
    (role : Option Bool) (order : List (Nat × Media)) (nm : Nat) (hv : ∀ p ∈ order, p.1 < ts.length) :
    (buildList c ts role order nm).length = order.length := by
  induction order generalizing nm with
  | nil => simp [buildList]
  | cons p rest ih =>
    obtain ⟨i, o⟩ := p
    have hi : i < ts.length := hv (i, o) (by simp)
    have hget : ts[i]? = some ts[i] := List.getElem?_eq_getElem hi
    have hv' : ∀ p ∈ rest, p.1 < ts.length := fun p hp => hv p (by simp [hp])
    unfold buildList
    rw [hget]
    cases hm : (ts[i]).mid with
    | some m => simp only [hm, List.length_cons, ih _ hv']
    | none => simp only [hm, List.length_cons, ih _ hv']

theorem mem_of_getElem_some {α : Type} {l : List α} {i : Nat} {x : α} (h : l[i]? = some x) : x ∈ l := by
  obtain ⟨hi, rfl⟩ := List.getElem?_eq_some_iff.mp h
  exact List.getElem_mem hi

theorem attrVals_append (l1 l2 : List Attr) (k : String) : attrVals (l1 ++ l2) k = attrVals l1 k ++ attrVals l2 k := by
  simp [attrVals, List.filterMap_append]

theorem attrVals_nil_of_keys (l : List Attr) (k : String) (h : ∀ a ∈ l, a.key ≠ k.toList) : attrVals l k = [] := by
  unfold attrVals
  rw [List.filterMap_eq_nil_iff]
  intro a ha
  simp [h a ha]

theorem attrVals_filter_other (l : List Attr) (k k' : String) (hne : k.toList ≠ k'.toList) :
    attrVals (l.filter (fun a => a.key != k'.toList)) k = attrVals l k := by
  induction l with
  | nil => rfl
  | cons a rest ih =>
    by_cases hk : a.key = k'.toList
    · have hk2 : a.key ≠ k.toList := fun e => hne (e.symm.trans hk)
      simp only [List.filter_cons, hk, bne_self_eq_false, Bool.false_eq_true, if_false]
      rw [ih]
      simp [attrVals, hk2]
    · have : (a.key != k'.toList) = true := bne_iff_ne.mpr hk
      simp only [List.filter_cons, this, if_true]
      simp only [attrVals, List.filterMap_cons] at ih ⊢
      rw [ih]

/-- the DTLS setup an answer section carries: the role's value in WebRTC mode, none otherwise -/
theorem setupOf_answerSection (c : Cfg) (t : TrxView) (o : Media) (role : Option Bool)
    (mid : Str) :
    setupOf (answerSection c t o role mid) =
      if c.mode = .webrtc then some (match role with | some true => "active".toList | some false => "passive".toList | none => "active".toList)
      else none := by
  have hne : "setup".toList ≠ "rtcp-mux".toList := by decide
  have hall : attrVals (setupAttrs c role ++ (codecPart c t.kind o).2 ++ extmapAttrs c t.kind o) "setup" =
      attrVals (setupAttrs c role) "setup" := by
    rw [attrVals_append, attrVals_append]
    rw [attrVals_nil_of_keys _ "setup" (fun a ha => (codecPart_codec c t.kind o a ha).not_setup)]
    have hext : ∀ a ∈ extmapAttrs c t.kind o, a.key ≠ "setup".toList := by
      intro a ha
      have hk : a.key = "extmap".toList := by
        unfold extmapAttrs at ha
        simp only [List.mem_append] at ha
        rcases ha with ((h | h) | h)
        · split at h
          · simp only [List.mem_append] at h
            rcases h with h | h <;> (split at h <;> simp [extAttr, attr] at h <;> (subst h; rfl))
          · cases h
        · split at h <;> simp [extAttr, attr] at h <;> (subst h; rfl)
        · split at h
          · cases h
          · split at h <;> simp [extAttr, attr] at h <;> (subst h; rfl)
      rw [hk]; decide
    rw [attrVals_nil_of_keys _ "setup" hext]
    simp
  unfold setupOf answerSection capabilities
  dsimp only
  have hvals : ∀ (b : Bool), attrVals (if b = true then setupAttrs c role ++ (codecPart c t.kind o).2 ++ extmapAttrs c t.kind o
      else (setupAttrs c role ++ (codecPart c t.kind o).2 ++ extmapAttrs c t.kind o).filter (fun a => a.key != "rtcp-mux".toList)) "setup"
      = attrVals (setupAttrs c role) "setup" := by
    intro b
    cases b
    · rw [if_neg (by decide), attrVals_filter_other _ "setup" "rtcp-mux" hne, hall]
    · rw [if_pos rfl, hall]
  rw [hvals]
  unfold setupAttrs
  split
  · cases role with
    | none => simp [attrVals, attr]
    | some b => cases b <;> simp [attrVals, attr]
  · rfl


theorem zipAll_and (P Q : Media → Media → Bool) (os as : List Media) :
    zipAll (fun o a => P o a && Q o a) os as = (zipAll P os as && zipAll Q os as) := by
  induction os generalizing as with
  | nil => cases as <;> simp [zipAll]
  | cons o os ih =>
    cases as with
    | nil => simp [zipAll]
    | cons a as =>
      simp only [zipAll, ih]
      cases P o a <;> cases Q o a <;> simp

theorem zipAll_aligned_mids (os as : List Media) (h : zipAll secAligned os as = true) :
    as.map (·.mid) = os.map (·.mid) := by
  induction os generalizing as with
  | nil => cases as <;> simp_all [zipAll]
  | cons o os ih =>
    cases as with
    | nil => simp [zipAll] at h
    | cons a as =>
      simp only [zipAll, Bool.and_eq_true, secAligned, decide_eq_true_eq] at h
      simp [h.1.2, ih as h.2]

theorem offerGroup_of_offered (attrs : List Attr) (h : offeredBundle attrs = true) : ∃ og, offerGroup attrs = some og := by
  unfold offeredBundle at h
  unfold offerGroup
  obtain ⟨a, ha, hp⟩ := List.any_eq_true.mp h
  cases hf : attrs.find? (fun a => a.key = "group".toList &&
      (match a.value with | some v => startsWith v "BUNDLE".toList | none => false)) with
  | none =>
    have := List.find?_eq_none.mp hf a ha
    exact absurd hp this
  | some b =>
    have hb := List.find?_some hf
    cases hv : b.value with
    | none => simp [hv] at hb
    | some v => exact ⟨v, by simp [hv]⟩

/-- the mids listed by the group attribute an answer emits are the mids of its sections -/
theorem groupMids_bundle (mids : List Str) (hne : mids ≠ []) (ht : ∀ m ∈ mids, IsTok m) :
    groupMids ("BUNDLE ".toList ++ join sp mids) = mids := by
  have e : "BUNDLE ".toList ++ join sp mids = join [' '] ("BUNDLE".toList :: mids) := by
    cases mids with
    | nil => exact absurd rfl hne
    | cons m ms => simp [join, sp]
  unfold groupMids
  rw [e, splitWs_join _ (by
    intro t htm
    rcases List.mem_cons.mp htm with h | h
    · subst h; decide
    · exact ht t h)]
  rfl

/-! ### the audio intersection of a re-negotiation -/

theorem remoteAudioCap_pt (m : Media) (pt : Nat) : (remoteAudioCap m pt).pt = pt := rfl

theorem toAudioCaps_pt (m : Media) (a : ACap) (h : a ∈ toAudioCaps m) :
    ∃ f ∈ m.formats, parseU8 f = some a.pt := by
  unfold toAudioCaps at h
  split at h
  · cases h
  · obtain ⟨n, hn, rfl⟩ := List.mem_map.mp h
    obtain ⟨f, hf, hfn⟩ := List.mem_filterMap.mp hn
    exact ⟨f, hf, by rw [remoteAudioCap_pt]; exact hfn⟩

theorem deriveAnswerAudio_pt (r : Media) (loc : List ACap) (a : ACap) (h : a ∈ deriveAnswerAudio r loc) :
    ∃ f ∈ r.formats, parseU8 f = some a.pt := by
  unfold deriveAnswerAudio at h
  obtain ⟨rc, hrc, hsome⟩ := List.mem_filterMap.mp h
  split at hsome
  · simp only [Option.some.injEq] at hsome
    subst hsome
    exact toAudioCaps_pt r rc hrc
  · cases hsome

/-- audio: when the offered section and the local configuration have a codec in common, every answered
format is a format of THE OFFERED SECTION (the one at the same index). -/
theorem audio_formats_offered (c : Cfg) (o : Media) (caps : List ACap)
    (h : reinviteAudioCaps c o = some caps)
    (hcanon : ∀ f ∈ o.formats, ∀ n, parseU8 f = some n → natStr n = f) :
    ∀ f ∈ (codecPart c .audio o).1, f ∈ o.formats := by
  have hcp : (codecPart c .audio o).1 = caps.map (fun a => natStr a.pt) := by
    simp [codecPart, h, applyAudioCaps]
  unfold reinviteAudioCaps at h
  split at h
  · dsimp only at h
    split at h
    · cases h
    · simp only [Option.some.injEq] at h
      subst h
      intro f hf
      rw [hcp] at hf
      obtain ⟨a, ha, rfl⟩ := List.mem_map.mp hf
      obtain ⟨f', hf', hp⟩ := deriveAnswerAudio_pt o c.audioCaps a ha
      rw [hcanon f' hf' a.pt hp]
      exact hf'
  · cases h


/-! ### RTX strip and echo -/

theorem ptRest_firstToken (v : Str) (pt : Nat) (rest : Str) (h : ptRest v = some (pt, rest)) :
    firstTokenU8 v = some pt := by
  unfold ptRest at h
  cases hs : splitOnce ' ' v with
  | none => simp [hs] at h
  | some pr =>
    obtain ⟨p, r⟩ := pr
    simp only [hs, Option.map_eq_some_iff, Prod.mk.injEq] at h
    obtain ⟨n, hn, rfl, rfl⟩ := h
    obtain ⟨hv, _⟩ := splitOnce_spec ' ' v p r hs
    have htok : IsTok p := parseUnsigned_tok 256 p n hn
    have hh := splitWs_head_tok p r htok
    rw [← hv] at hh
    unfold firstTokenU8
    cases hw : splitWs v with
    | nil => simp [hw] at hh
    | cons t ts =>
      simp only [hw, List.head?_cons, Option.some.injEq] at hh
      subst hh
      exact hn

/-- one step of the `extract_rtx_apt_map` fold -/
def aptStep (m : List (Nat × Nat)) (v : Str) : List (Nat × Nat) :=
  match ptRest v with
  | some (pt, fmtp) => match parseApt fmtp with | some primary => aptInsert (pt, primary) m | none => m
  | none => m

theorem aptMap_eq_foldl (attrs : List Attr) : aptMap attrs = (attrVals attrs "fmtp").foldl aptStep [] := rfl

theorem aptInsert_mem (e q : Nat × Nat) (m : List (Nat × Nat)) (h : q ∈ aptInsert e m) : q = e ∨ q ∈ m := by
  induction m with
  | nil => simp [aptInsert] at h; exact Or.inl h
  | cons d rest ih =>
    unfold aptInsert at h
    split at h
    · rcases List.mem_cons.mp h with h | h
      · exact Or.inl h
      · exact Or.inr h
    · split at h
      · rcases List.mem_cons.mp h with h | h
        · exact Or.inl h
        · exact Or.inr (List.mem_cons_of_mem _ h)
      · rcases List.mem_cons.mp h with h | h
        · exact Or.inr (by simp [h])
        · rcases ih h with h | h
          · exact Or.inl h
          · exact Or.inr (List.mem_cons_of_mem _ h)

theorem aptInsert_keys (e : Nat × Nat) (m : List (Nat × Nat)) :
    e.1 ∈ (aptInsert e m).map (·.1) ∧ ∀ k ∈ m.map (·.1), k ∈ (aptInsert e m).map (·.1) := by
  induction m with
  | nil => simp [aptInsert]
  | cons d rest ih =>
    unfold aptInsert
    split
    · refine ⟨by simp, fun k hk => ?_⟩
      simp only [List.map_cons, List.mem_cons] at hk ⊢
      exact Or.inr hk
    · split
      · rename_i heq
        refine ⟨by simp, ?_⟩
        intro k hk
        simp only [List.map_cons, List.mem_cons] at hk ⊢
        rcases hk with hk | hk
        · left; rw [hk, heq]
        · right; exact hk
      · refine ⟨by simp [ih.1], ?_⟩
        intro k hk
        simp only [List.map_cons, List.mem_cons] at hk ⊢
        rcases hk with hk | hk
        · left; exact hk
        · right; exact ih.2 k hk

theorem aptStep_mem (m : List (Nat × Nat)) (v : Str) (q : Nat × Nat) (h : q ∈ aptStep m v) :
    q ∈ m ∨ ∃ f, ptRest v = some (q.1, f) ∧ parseApt f = some q.2 := by
  unfold aptStep at h
  split at h
  · rename_i pt fmtp hp
    split at h
    · rename_i primary hpa
      rcases aptInsert_mem _ _ _ h with e | e
      · right; subst e; exact ⟨fmtp, hp, hpa⟩
      · exact Or.inl e
    · exact Or.inl h
  · exact Or.inl h

theorem aptStep_keys (m : List (Nat × Nat)) (v : Str) : ∀ k ∈ m.map (·.1), k ∈ (aptStep m v).map (·.1) := by
  intro k hk
  unfold aptStep
  split
  · split
    · exact (aptInsert_keys _ m).2 k hk
    · exact hk
  · exact hk

theorem foldl_aptStep_mem (vs : List Str) (m : List (Nat × Nat)) (q : Nat × Nat) (h : q ∈ vs.foldl aptStep m) :
    q ∈ m ∨ ∃ v ∈ vs, ∃ f, ptRest v = some (q.1, f) ∧ parseApt f = some q.2 := by
  induction vs generalizing m with
  | nil => exact Or.inl h
  | cons v rest ih =>
    rcases ih _ h with h' | ⟨v', hv', f, hf⟩
    · rcases aptStep_mem m v q h' with h'' | ⟨f, hf⟩
      · exact Or.inl h''
      · exact Or.inr ⟨v, by simp, f, hf⟩
    · exact Or.inr ⟨v', by simp [hv'], f, hf⟩

theorem foldl_aptStep_keys_mono (vs : List Str) (m : List (Nat × Nat)) :
    ∀ k ∈ m.map (·.1), k ∈ (vs.foldl aptStep m).map (·.1) := by
  induction vs generalizing m with
  | nil => intro k hk; exact hk
  | cons v rest ih => intro k hk; exact ih _ k (aptStep_keys m v k hk)

theorem foldl_aptStep_keys (vs : List Str) (m : List (Nat × Nat)) (v : Str) (hv : v ∈ vs) (pt primary : Nat) (f : Str)
    (hp : ptRest v = some (pt, f)) (ha : parseApt f = some primary) :
    pt ∈ (vs.foldl aptStep m).map (·.1) := by
  induction vs generalizing m with
  | nil => cases hv
  | cons w rest ih =>
    rcases List.mem_cons.mp hv with e | e
    · subst e
      simp only [List.foldl_cons]
      apply foldl_aptStep_keys_mono
      unfold aptStep
      simp only [hp, ha]
      exact (aptInsert_keys (pt, primary) m).1
    · exact ih _ e

theorem mem_attrVals (attrs : List Attr) (k : String) (v : Str) :
    v ∈ attrVals attrs k ↔ ∃ a ∈ attrs, a.key = k.toList ∧ a.value = some v := by
  unfold attrVals
  rw [List.mem_filterMap]
  constructor
  · rintro ⟨a, ha, h⟩
    split at h
    · exact ⟨a, ha, by assumption, h⟩
    · cases h
  · rintro ⟨a, ha, hk, hv⟩
    exact ⟨a, ha, by simp [hk, hv]⟩

/-- after `strip_rtx_from_section` no `apt=` association is left -/
theorem aptMap_stripRtx (fa : List Str × List Attr) : aptMap (stripRtx fa).2 = [] := by
  unfold stripRtx
  dsimp only
  split
  · rename_i hemp
    -- no RTX payload types at all: the apt map was empty
    have : (aptMap fa.2).map (·.1) = [] := by
      have := hemp
      simp only [List.isEmpty_iff, List.append_eq_nil_iff] at this
      exact this.1
    simpa using this
  · rename_i hne
    rw [List.eq_nil_iff_forall_not_mem]
    intro q hq
    rw [aptMap_eq_foldl] at hq
    rcases foldl_aptStep_mem _ [] q hq with h | ⟨v, hv, f, hp, ha⟩
    · cases h
    · obtain ⟨a, haf, hk, hval⟩ := (mem_attrVals _ "fmtp" v).mp hv
      obtain ⟨hmem, hkeep⟩ := List.mem_filter.mp haf
      have hkey : q.1 ∈ (aptMap fa.2).map (·.1) := by
        rw [aptMap_eq_foldl]
        exact foldl_aptStep_keys _ [] v ((mem_attrVals _ "fmtp" v).mpr ⟨a, hmem, hk, hval⟩) q.1 q.2 f hp ha
      have hft := ptRest_firstToken v q.1 f hp
      have hk2 : (a.key = "rtpmap".toList || a.key = "fmtp".toList || a.key = "rtcp-fb".toList) = true := by
        rw [hk]; decide
      rw [if_pos hk2, hval] at hkeep
      simp only [hft] at hkeep
      have hcont : ∀ R2 : List Nat, ((aptMap fa.2).map (·.1) ++ R2).contains q.1 = true := fun R2 => by
        rw [List.contains_iff_mem]; exact List.mem_append_left _ hkey
      rw [hcont] at hkeep
      cases hkeep


theorem natStr_noWs (n : Nat) : ∀ c ∈ natStr n, isWs c = false := (natStr_tok n).2

theorem natStr_no_char (n : Nat) (ch : Char) (h : isDigit ch = false) : ch ∉ natStr n := by
  intro hm
  have := natStr_digits n ch hm
  rw [h] at this; cases this

/-- `parse_apt("apt=<p>")` -/
theorem parseApt_apt (p : Nat) : parseApt ("apt=".toList ++ natStr p) = parseU8 (natStr p) := by
  have hno : ';' ∉ ("apt=".toList ++ natStr p) := by
    intro hm
    rcases List.mem_append.mp hm with h | h
    · revert h; decide
    · exact natStr_no_char p ';' (by decide) h
  have hws : ∀ c ∈ ("apt=".toList ++ natStr p), isWs c = false := by
    intro c hc
    rcases List.mem_append.mp hc with h | h
    · have : ∀ d ∈ "apt=".toList, isWs d = false := by decide
      exact this c h
    · exact natStr_noWs p c h
  unfold parseApt
  rw [splitOn_none ';' _ hno]
  simp only [List.findSome?_cons, List.findSome?_nil]
  rw [trim_noWs _ hws]
  have hsp : stripPrefix "apt=".toList ("apt=".toList ++ natStr p) = some (natStr p) := by
    simp [stripPrefix]
  rw [hsp]
  simp [trim_noWs _ (natStr_noWs p)]

/-- `ptRest("<r> apt=<p>")` -/
theorem ptRest_rtx_fmtp (r p : Nat) :
    ptRest (natStr r ++ " apt=".toList ++ natStr p) = (parseU8 (natStr r)).map (fun n => (n, "apt=".toList ++ natStr p)) := by
  unfold ptRest
  have e : natStr r ++ " apt=".toList ++ natStr p = natStr r ++ ' ' :: ("apt=".toList ++ natStr p) := by simp
  rw [e, splitOnce_append_of_not_mem ' ' _ _ (natStr_no_char r ' ' (by decide))]

theorem appendRtx_apt (fa : List Str × List Attr) (p r cl : Nat) (q : Nat × Nat)
    (h : q ∈ aptMap (appendRtx fa p r cl).2) : q ∈ aptMap fa.2 ∨ q = (r, p) := by
  unfold appendRtx at h
  dsimp only at h
  split at h
  · exact Or.inl h
  · have hv : attrVals (fa.2 ++ [attr "rtpmap" (natStr r ++ " rtx/".toList ++ natStr cl),
        attr "fmtp" (natStr r ++ " apt=".toList ++ natStr p)]) "fmtp" =
        attrVals fa.2 "fmtp" ++ [natStr r ++ " apt=".toList ++ natStr p] := by
      rw [attrVals_append]
      congr 1
    rw [aptMap_eq_foldl, hv, List.foldl_append] at h
    simp only [List.foldl_cons, List.foldl_nil] at h
    rcases aptStep_mem _ _ q h with h' | ⟨f, hp, ha⟩
    · exact Or.inl h'
    · right
      rw [ptRest_rtx_fmtp] at hp
      unfold parseU8 at hp
      rw [parseUnsigned_natStr_eq] at hp
      split at hp
      · simp only [Option.map_some, Option.some.injEq, Prod.mk.injEq] at hp
        obtain ⟨h1, h2⟩ := hp
        subst h2
        rw [parseApt_apt] at ha
        unfold parseU8 at ha
        rw [parseUnsigned_natStr_eq] at ha
        split at ha
        · simp only [Option.some.injEq] at ha
          exact Prod.ext h1.symm ha.symm
        · cases ha
      · cases hp

theorem rtxFor_mem (am : List (Nat × Nat)) (p rtx : Nat) (h : rtxFor am p = some rtx) : (rtx, p) ∈ am := by
  unfold rtxFor at h
  cases hf : am.find? (fun e => e.2 = p) with
  | none => simp [hf] at h
  | some e =>
    simp only [hf, Option.map_some, Option.some.injEq] at h
    have hm := List.mem_of_find?_eq_some hf
    have hp := List.find?_some hf
    simp only [decide_eq_true_eq] at hp
    have : e = (rtx, p) := Prod.ext h hp
    rw [← this]; exact hm

theorem foldl_appendRtx_apt (am : List (Nat × Nat)) (r : Media) (ps : List Nat) (fa : List Str × List Attr) (q : Nat × Nat)
    (h : q ∈ aptMap (ps.foldl (fun fa p => match rtxFor am p with
      | some rtx => appendRtx fa p rtx (remoteVideoClock r p)
      | none => fa) fa).2) : q ∈ aptMap fa.2 ∨ q ∈ am := by
  induction ps generalizing fa with
  | nil => exact Or.inl h
  | cons p ps ih =>
    simp only [List.foldl_cons] at h
    rcases ih _ h with h' | h'
    · split at h'
      · rename_i rtx hr
        rcases appendRtx_apt _ _ _ _ _ h' with h'' | h''
        · exact Or.inl h''
        · right; rw [h'']; exact rtxFor_mem am p rtx hr
      · exact Or.inl h'
    · exact Or.inr h'

theorem mergeRemoteRtx_apt (r : Media) (fa : List Str × List Attr) (q : Nat × Nat)
    (h : q ∈ aptMap (mergeRemoteRtx r fa).2) :
    q ∈ aptMap fa.2 ∨ q ∈ aptMap r.attrs := by
  unfold mergeRemoteRtx at h
  dsimp only at h
  split at h
  · exact Or.inl h
  · exact foldl_appendRtx_apt _ _ _ _ _ h

/-- **RTX strip and echo**: every `apt=` association of an answered video section is an association of
the OFFERED section it answers — whatever RTX the local configuration carries is stripped first. -/
theorem video_rtx_echo_offered (c : Cfg) (o : Media) (q : Nat × Nat)
    (h : q ∈ aptMap (codecPart c .video o).2) : q ∈ aptMap o.attrs := by
  unfold codecPart at h
  dsimp only at h
  rcases mergeRemoteRtx_apt _ _ _ h with h' | h'
  · rw [aptMap_stripRtx] at h'; cases h'
  · exact h'

/-- the id token of an echoed extension line -/
theorem extAttr_id (id uri : Str) (hid : IsTok id) : (splitWs (id ++ sp ++ uri)).head? = some id := by
  have : id ++ sp ++ uri = id ++ ' ' :: uri := by simp [sp]
  rw [this]
  exact splitWs_head_tok id uri hid


/-! ### echoed extension ids are pairwise distinct -/

theorem nodup_filterMap_inj {α β : Type} (f : α → Option β) (l : List α) (h : (l.filterMap f).Nodup) (a b : α) (x : β)
    (ha : a ∈ l) (hb : b ∈ l) (hfa : f a = some x) (hfb : f b = some x) : a = b := by
  induction l with
  | nil => cases ha
  | cons c rest ih =>
    have hmem : ∀ d ∈ rest, f d = some x → x ∈ rest.filterMap f := fun d hd hf => List.mem_filterMap.mpr ⟨d, hd, hf⟩
    cases hc : f c with
    | none =>
      rw [List.filterMap_cons_none hc] at h
      rcases List.mem_cons.mp ha with e1 | e1
      · subst e1; rw [hc] at hfa; cases hfa
      · rcases List.mem_cons.mp hb with e2 | e2
        · subst e2; rw [hc] at hfb; cases hfb
        · exact ih h e1 e2
    | some y =>
      rw [List.filterMap_cons_some hc, List.nodup_cons] at h
      rcases List.mem_cons.mp ha with e1 | e1 <;> rcases List.mem_cons.mp hb with e2 | e2
      · rw [e1, e2]
      · subst e1; rw [hc] at hfa; injection hfa with e; subst e
        exact absurd (hmem b e2 hfb) h.1
      · subst e2; rw [hc] at hfb; injection hfb with e; subst e
        exact absurd (hmem a e1 hfa) h.1
      · exact ih h.2 e1 e2

/-- what `get_remote_extmap_id` found: an `a=extmap` line whose first token is the id and whose second
token is the URI -/
theorem remoteExtId_go_spec (attrs : List Attr) (uri id : Str) (h : remoteExtId.go uri attrs = some id) :
    ∃ v rest, (⟨"extmap".toList, some v⟩ : Attr) ∈ attrs ∧ splitWs v = id :: uri :: rest := by
  induction attrs with
  | nil => simp [remoteExtId.go] at h
  | cons a tl ih =>
    unfold remoteExtId.go at h
    split at h
    · obtain ⟨v, r, hv, ht⟩ := ih h
      exact ⟨v, r, List.mem_cons_of_mem _ hv, ht⟩
    · rename_i hk
      split at h
      · cases h
      · rename_i v hav
        split at h
        · rename_i t u r hs
          split at h
          · rename_i hu
            simp only [Option.some.injEq] at h
            subst h
            refine ⟨v, r, ?_, by rw [hs, hu]⟩
            have hkey : a.key = "extmap".toList := by simpa using hk
            have : a = ⟨"extmap".toList, some v⟩ := by cases a; simp_all
            rw [this]; exact List.mem_cons_self
          · obtain ⟨v', r', hv, ht⟩ := ih h
            exact ⟨v', r', List.mem_cons_of_mem _ hv, ht⟩
        · obtain ⟨v', r', hv, ht⟩ := ih h
          exact ⟨v', r', List.mem_cons_of_mem _ hv, ht⟩

def knownUris : List Str := [RID_URI, RRID_URI, ABS_URI, MID_URI]

/-- an offered section whose extension lines are well-formed for the echo: its ids are pairwise distinct -/
def ExtWF (r : Media) : Prop := (extIds r).Nodup

instance (r : Media) : Decidable (ExtWF r) := by unfold ExtWF; infer_instance

/-- different URIs are echoed with different ids -/
theorem remoteExtId_inj (r : Media) (hwf : ExtWF r)
    (u1 u2 x : Str)
    (hx1 : remoteExtId r u1 = some x) (hx2 : remoteExtId r u2 = some x) : u1 = u2 := by
  unfold remoteExtId at hx1 hx2
  obtain ⟨v1, r1, hm1, hs1⟩ := remoteExtId_go_spec _ _ _ hx1
  obtain ⟨v2, r2, hm2, hs2⟩ := remoteExtId_go_spec _ _ _ hx2
  have hv1 : v1 ∈ attrVals r.attrs "extmap" := (mem_attrVals _ _ _).mpr ⟨_, hm1, rfl, rfl⟩
  have hv2 : v2 ∈ attrVals r.attrs "extmap" := (mem_attrVals _ _ _).mpr ⟨_, hm2, rfl, rfl⟩
  have hh1 : (splitWs v1).head? = some x := by rw [hs1]; rfl
  have hh2 : (splitWs v2).head? = some x := by rw [hs2]; rfl
  have : v1 = v2 := nodup_filterMap_inj _ _ hwf v1 v2 x hv1 hv2 hh1 hh2
  subst this
  rw [hs1] at hs2
  injection hs2 with _ h2
  injection h2 with h3 _

/-- the attribute(s) echoed for one URI, and the id list they contribute -/
def echo (r : Media) (uri : Str) : List Attr :=
  match remoteExtId r uri with | some id => [extAttr id uri] | none => []

def echoIds (r : Media) (uri : Str) : List Str :=
  match remoteExtId r uri with | some id => [id] | none => []

def echoUris (c : Cfg) (k : Kind) : List Str :=
  (if k = .video then [RID_URI, RRID_URI] else []) ++ [ABS_URI] ++ (if c.legacySip then [] else [MID_URI])

theorem extmapAttrs_eq (c : Cfg) (k : Kind) (r : Media) :
    extmapAttrs c k r = (echoUris c k).flatMap (echo r) := by
  have key : ∀ (us : List Str), us.flatMap (echo r) =
      us.flatMap (fun u => match remoteExtId r u with | some id => [extAttr id u] | none => []) := by
    intro us; rfl
  unfold extmapAttrs echoUris
  rw [key]
  by_cases hk : k = .video <;> by_cases hl : c.legacySip = true <;>
    simp only [hk, hl, if_true, if_false, List.flatMap_cons, List.flatMap_nil, List.append_nil, List.nil_append,
      List.cons_append, List.append_assoc, reduceCtorEq] <;>
    (cases remoteExtId r RID_URI <;> cases remoteExtId r RRID_URI <;>
      cases remoteExtId r ABS_URI <;> cases remoteExtId r MID_URI <;> rfl)

theorem remoteExtId_tok (r : Media) (uri id : Str) (h : remoteExtId r uri = some id) : IsTok id := by
  unfold remoteExtId at h
  obtain ⟨v, rest, _, hs⟩ := remoteExtId_go_spec _ _ _ h
  apply splitWs_tokens v
  rw [hs]; simp

def idsOfAttrs (l : List Attr) : List Str := (attrVals l "extmap").filterMap (fun v => (splitWs v).head?)

theorem idsOfAttrs_append (l1 l2 : List Attr) : idsOfAttrs (l1 ++ l2) = idsOfAttrs l1 ++ idsOfAttrs l2 := by
  simp [idsOfAttrs, attrVals_append, List.filterMap_append]

theorem idsOfAttrs_echo (r : Media) (uri : Str) :
    idsOfAttrs (echo r uri) = echoIds r uri := by
  unfold echo echoIds
  cases h : remoteExtId r uri with
  | none => rfl
  | some id =>
    have htok := remoteExtId_tok r uri id h
    have e := extAttr_id id uri htok
    simp only [idsOfAttrs, attrVals, extAttr, attr, List.filterMap_cons, List.filterMap_nil, if_true]
    rw [e]

theorem idsOfAttrs_flatMap_echo (r : Media) (us : List Str) :
    idsOfAttrs (us.flatMap (echo r)) = us.flatMap (echoIds r) := by
  induction us with
  | nil => rfl
  | cons u rest ih => simp only [List.flatMap_cons, idsOfAttrs_append, idsOfAttrs_echo, ih]

theorem nodup_flatMap_echoIds (r : Media) (hwf : ExtWF r)
    (us : List Str) (hsub : ∀ u ∈ us, u ∈ knownUris) (hnd : us.Nodup) :
    (us.flatMap (echoIds r)).Nodup := by
  induction us with
  | nil => simp
  | cons u rest ih =>
    rw [List.nodup_cons] at hnd
    simp only [List.flatMap_cons]
    rw [List.nodup_append]
    refine ⟨?_, ih (fun x hx => hsub x (by simp [hx])) hnd.2, ?_⟩
    · unfold echoIds; split <;> simp
    · intro a ha b hb hab
      subst hab
      unfold echoIds at ha
      split at ha
      · rename_i id hid
        simp only [List.mem_singleton] at ha
        subst ha
        obtain ⟨u', hu', hb'⟩ := List.mem_flatMap.mp hb
        unfold echoIds at hb'
        split at hb'
        · rename_i id' hid'
          simp only [List.mem_singleton] at hb'
          subst hb'
          have := remoteExtId_inj r hwf u u' a hid hid'
          subst this
          exact hnd.1 hu'
        · cases hb'
      · cases ha


theorem echoUris_known (c : Cfg) (k : Kind) : ∀ u ∈ echoUris c k, u ∈ knownUris := by
  intro u hu
  unfold echoUris at hu
  unfold knownUris
  simp only [List.mem_append, List.mem_cons, List.mem_nil_iff, or_false] at hu ⊢
  rcases hu with (hu | hu) | hu
  · split at hu
    · simp only [List.mem_cons, List.mem_nil_iff, or_false] at hu
      rcases hu with h | h
      · exact Or.inl h
      · exact Or.inr (Or.inl h)
    · cases hu
  · exact Or.inr (Or.inr (Or.inl hu))
  · split at hu
    · cases hu
    · simp only [List.mem_cons, List.mem_nil_iff, or_false] at hu
      exact Or.inr (Or.inr (Or.inr hu))

theorem echoUris_nodup (c : Cfg) (k : Kind) : (echoUris c k).Nodup := by
  unfold echoUris
  by_cases hk : k = .video <;> by_cases hl : c.legacySip = true <;>
    simp only [hk, hl, if_true, if_false, List.nil_append, List.append_nil, List.cons_append, reduceCtorEq] <;> decide

theorem setupAttrs_noext (c : Cfg) (role : Option Bool) : ∀ a ∈ setupAttrs c role, a.key ≠ "extmap".toList := by
  intro a ha
  unfold setupAttrs at ha
  split at ha
  · simp only [List.mem_singleton] at ha
    subst ha
    simp only [attr]
    decide
  · cases ha

/-- **no duplicate extension ids**: when the consulted remote section is well-formed for the echo
(`ExtWF`: its ids are pairwise distinct and no line mentions two of the looked-up URIs), the ids of the
answer section are pairwise distinct. -/
theorem extIds_answerSection_nodup (c : Cfg) (t : TrxView) (o : Media) (role : Option Bool)
    (mid : Str) (hwf : ExtWF o) :
    (extIds (answerSection c t o role mid)).Nodup := by
  have hne : "extmap".toList ≠ "rtcp-mux".toList := by decide
  have hA : idsOfAttrs (setupAttrs c role ++ (codecPart c t.kind o).2 ++ extmapAttrs c t.kind o) =
      (echoUris c t.kind).flatMap (echoIds o) := by
    rw [idsOfAttrs_append, idsOfAttrs_append]
    have h1 : idsOfAttrs (codecPart c t.kind o).2 = [] := by
      unfold idsOfAttrs
      rw [attrVals_nil_of_keys _ "extmap" (fun a ha => (codecPart_codec c t.kind o a ha).not_extmap)]
      rfl
    have h3 : idsOfAttrs (setupAttrs c role) = [] := by
      unfold idsOfAttrs
      rw [attrVals_nil_of_keys _ "extmap" (setupAttrs_noext c role)]
      rfl
    rw [h1, h3, extmapAttrs_eq, idsOfAttrs_flatMap_echo]
    simp
  have hids : extIds (answerSection c t o role mid) = (echoUris c t.kind).flatMap (echoIds o) := by
    show idsOfAttrs (answerSection c t o role mid).attrs = _
    unfold answerSection capabilities
    dsimp only
    cases secHasMux o
    · rw [if_neg (by decide)]
      unfold idsOfAttrs
      rw [attrVals_filter_other _ "extmap" "rtcp-mux" hne]
      exact hA
    · rw [if_pos rfl]; exact hA
  rw [hids]
  exact nodup_flatMap_echoIds o hwf _ (echoUris_known c t.kind) (echoUris_nodup c t.kind)


end RtcModel.Answer
