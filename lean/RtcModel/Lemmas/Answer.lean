/- Helper lemmas about `RtcModel.Answer` (attribute keys produced by the capability builders). -/
import RtcModel.Answer
namespace RtcModel.Answer
open RtcModel.Text RtcModel.SdpLines

/-- the attribute keys the codec part of `populate_media_capabilities` can produce -/
def CodecKey (a : Attr) : Prop :=
  a.key = "rtcp-mux".toList ∨ a.key = "rtpmap".toList ∨ a.key = "fmtp".toList ∨ a.key = "rtcp-fb".toList ∨
  a.key = "sctp-port".toList ∨ a.key = "T38FaxVersion".toList ∨ a.key = "T38MaxBitRate".toList ∨
  a.key = "T38FaxRateManagement".toList ∨ a.key = "T38FaxMaxBuffer".toList ∨ a.key = "T38FaxMaxDatagram".toList ∨
  a.key = "T38FaxUdpEC".toList

instance (a : Attr) : Decidable (CodecKey a) := by unfold CodecKey; infer_instance

theorem CodecKey.not_setup {a : Attr} (h : CodecKey a) : a.key ≠ "setup".toList := by
  intro hk; unfold CodecKey at h; rw [hk] at h; revert h; decide

theorem CodecKey.not_extmap {a : Attr} (h : CodecKey a) : a.key ≠ "extmap".toList := by
  intro hk; unfold CodecKey at h; rw [hk] at h; revert h; decide

def AllCodec (l : List Attr) : Prop := ∀ a ∈ l, CodecKey a

theorem AllCodec.append {l1 l2 : List Attr} (h1 : AllCodec l1) (h2 : AllCodec l2) : AllCodec (l1 ++ l2) := by
  intro a ha
  rcases List.mem_append.mp ha with h | h
  · exact h1 a h
  · exact h2 a h

theorem AllCodec.filter {l : List Attr} (p : Attr → Bool) (h : AllCodec l) : AllCodec (l.filter p) :=
  fun a ha => h a (List.mem_filter.mp ha).1

theorem allCodec_nil : AllCodec [] := fun _ h => by cases h

theorem muxAttr_codec (c : Cfg) : AllCodec (muxAttr c) := by
  unfold muxAttr; split
  · intro a ha; simp [flag] at ha; subst ha; left; rfl
  · exact allCodec_nil

theorem audioCapAttrs_codec (c : ACap) : AllCodec (audioCapAttrs c) := by
  intro a ha
  unfold audioCapAttrs at ha
  simp only [List.mem_append, List.mem_map, List.mem_singleton] at ha
  rcases ha with (h | h) | ⟨fb, _, h⟩
  · subst h; right; left; rfl
  · cases hf : c.fmtp <;> simp [hf, attr] at h
    subst h; right; right; left; rfl
  · subst h; right; right; right; left; rfl

theorem flatMap_codec {α : Type} (l : List α) (f : α → List Attr) (h : ∀ x, AllCodec (f x)) :
    AllCodec (l.flatMap f) := by
  intro a ha
  obtain ⟨x, _, hx⟩ := List.mem_flatMap.mp ha
  exact h x a hx

theorem applyAudioConfig_codec (c : Cfg) : AllCodec (applyAudioConfig c).2 :=
  (muxAttr_codec c).append (flatMap_codec _ _ audioCapAttrs_codec)

theorem applyAudioCaps_codec (fa : List Str × List Attr) (caps : List ACap) (h : AllCodec fa.2) :
    AllCodec (applyAudioCaps fa caps).2 :=
  (h.filter _).append (flatMap_codec _ _ audioCapAttrs_codec)

theorem appendRtx_codec (fa : List Str × List Attr) (p r cl : Nat) (h : AllCodec fa.2) :
    AllCodec (appendRtx fa p r cl).2 := by
  unfold appendRtx
  dsimp only
  split
  · exact h
  · refine h.append ?_
    intro a ha
    simp only [List.mem_cons, List.mem_nil_iff, or_false] at ha
    rcases ha with h | h
    · subst h; right; left; rfl
    · subst h; right; right; left; rfl

theorem videoCapStep_codec (fa : List Str × List Attr) (v : VCap) (h : AllCodec fa.2) :
    AllCodec (videoCapStep fa v).2 := by
  unfold videoCapStep
  have h1 : AllCodec (fa.2 ++ [attr "rtpmap" (natStr v.pt ++ sp ++ v.name ++ ['/'] ++ natStr v.clock)] ++
      (match v.fmtp with | some f => [attr "fmtp" (natStr v.pt ++ sp ++ f)] | none => []) ++
      v.fbs.map (fun fb => attr "rtcp-fb" (natStr v.pt ++ sp ++ fb))) := by
    refine ((h.append ?_).append ?_).append ?_
    · intro a ha; simp only [List.mem_singleton] at ha; subst ha; right; left; rfl
    · intro a ha
      cases hf : v.fmtp <;> simp [hf] at ha
      subst ha; right; right; left; rfl
    · intro a ha
      obtain ⟨fb, _, hfb⟩ := List.mem_map.mp ha
      subst hfb; right; right; right; left; rfl
  dsimp only
  split
  · exact appendRtx_codec _ _ _ _ h1
  · exact h1

theorem foldl_videoCapStep_codec (vs : List VCap) (fa : List Str × List Attr) (h : AllCodec fa.2) :
    AllCodec (vs.foldl videoCapStep fa).2 := by
  induction vs generalizing fa with
  | nil => exact h
  | cons v vs ih => exact ih _ (videoCapStep_codec fa v h)

theorem applyVideoConfig_codec (c : Cfg) : AllCodec (applyVideoConfig c).2 :=
  foldl_videoCapStep_codec _ _ (muxAttr_codec c)

theorem stripRtx_codec (fa : List Str × List Attr) (h : AllCodec fa.2) : AllCodec (stripRtx fa).2 := by
  unfold stripRtx
  dsimp only
  split
  · exact h
  · exact h.filter _

theorem foldl_appendRtx_codec (am : List (Nat × Nat)) (r : Media) (ps : List Nat) (fa : List Str × List Attr)
    (h : AllCodec fa.2) :
    AllCodec (ps.foldl (fun fa p => match rtxFor am p with
      | some rtx => appendRtx fa p rtx (remoteVideoClock r p)
      | none => fa) fa).2 := by
  induction ps generalizing fa with
  | nil => exact h
  | cons p ps ih =>
    simp only [List.foldl_cons]
    apply ih
    split
    · exact appendRtx_codec _ _ _ _ h
    · exact h

theorem mergeRemoteRtx_codec (remote : List Media) (mid : Str) (fa : List Str × List Attr) (h : AllCodec fa.2) :
    AllCodec (mergeRemoteRtx remote mid fa).2 := by
  unfold mergeRemoteRtx
  dsimp only
  split
  · exact h
  · split
    · exact h
    · exact foldl_appendRtx_codec _ _ _ _ h

theorem t38Attrs_codec : AllCodec t38Attrs := by
  intro a ha
  simp only [t38Attrs, List.mem_cons, List.mem_nil_iff, or_false] at ha
  rcases ha with h | h | h | h | h | h <;> subst h <;> unfold CodecKey <;> decide

/-- the codec part (before the extmap / setup attributes are appended) only produces codec keys -/
theorem codecPart_codec (c : Cfg) (k : Kind) (remote : List Media) (hasLocal : Bool) (mid : Str) :
    AllCodec (codecPart c k remote hasLocal mid).2 := by
  unfold codecPart
  cases k with
  | audio =>
    dsimp only
    split
    · exact applyAudioCaps_codec _ _ (applyAudioConfig_codec c)
    · exact applyAudioConfig_codec c
  | video => exact mergeRemoteRtx_codec _ _ _ (stripRtx_codec _ (applyVideoConfig_codec c))
  | application =>
    intro a ha
    simp only [List.mem_singleton] at ha
    subst ha; right; right; right; right; left; rfl
  | image => exact t38Attrs_codec

end RtcModel.Answer
