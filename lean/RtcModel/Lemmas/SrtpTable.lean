/- Helper lemmas: every context in a session table carries the session's derived keys (C04). -/
import RtcModel.Lemmas.SrtpSess
namespace RtcModel.Srtp
open RtcModel.C04 RtcModel.Generated

/-- the part of a context that never changes after creation -/
structure Ctx.KeyedBy (c : Ctx) (S : Suite) (p : Profile) (mk ms : Bytes) : Prop where
  profile : c.profile = p
  rtp : c.rtp = (deriveKeys S p mk ms).1
  rtcp : c.rtcp = (deriveKeys S p mk ms).2

def TableInv (S : Suite) (p : Profile) (mk ms : Bytes) (t : List Ctx) : Prop :=
  ∀ c ∈ t, c.KeyedBy S p mk ms

theorem Ctx.new_ok {S : Suite} {ssrc : Nat} {p : Profile} {mk ms : Bytes} {now : Nat} {c : Ctx}
    (h : Ctx.new S ssrc p mk ms now = .ok c) :
    c.ssrc = ssrc ∧ c.roc = 0 ∧ c.last = none ∧ c.rtcpIndex = 0 ∧ c.KeyedBy S p mk ms := by
  unfold Ctx.new at h
  split at h
  · simp at h
  · simp only [Except.ok.injEq] at h
    subst h
    exact ⟨rfl, rfl, rfl, rfl, ⟨rfl, rfl, rfl⟩⟩

theorem Ctx.new_usable (S : Suite) (ssrc : Nat) (p : Profile) (mk ms : Bytes) (now : Nat)
    (hk : srtpKeyLen ≤ mk.length) (hs : p.saltLen ≤ ms.length) : ∃ c, Ctx.new S ssrc p mk ms now = .ok c := by
  unfold Ctx.new
  rw [if_neg (by omega)]
  exact ⟨_, rfl⟩

theorem lookup_mem {t : List Ctx} {k : Nat} {c : Ctx} (h : lookup t k = some c) : c ∈ t :=
  List.mem_of_find?_eq_some h

theorem mem_replace : ∀ {t : List Ctx} {c x : Ctx}, x ∈ replace t c → x ∈ t ∨ x = c
  | [], _, _, h => by simp [replace] at h
  | y :: ys, c, x, h => by
    simp only [replace] at h
    split at h
    · simp only [List.mem_cons] at h
      rcases h with h | h
      · right; exact h
      · left; simp [h]
    · simp only [List.mem_cons] at h
      rcases h with h | h
      · left; simp [h]
      · rcases mem_replace h with h' | h'
        · left; simp [h']
        · right; exact h'

theorem mem_evict {t : List Ctx} {k now : Nat} {x : Ctx} (h : x ∈ evict t k now) : x ∈ t := by
  unfold evict at h
  split at h
  · exact h
  · exact (List.mem_filter.mp h).1

/-- the context a lookup finds after eviction is one the table held -/
theorem lookup_evict_mem {t : List Ctx} {k now : Nat} {c : Ctx} (h : lookup (evict t k now) k = some c) : c ∈ t :=
  mem_evict (lookup_mem h)

/-! ### `protect`/`unprotect` never touch SSRC, profile or keys -/

theorem updated_keyed {c : Ctx} {S : Suite} {p : Profile} {mk ms : Bytes} (h : c.KeyedBy S p mk ms) (seq r : Nat) :
    (c.updated seq r).KeyedBy S p mk ms := ⟨h.profile, h.rtp, h.rtcp⟩

theorem protectRtp_keyed {c : Ctx} {S : Suite} {p : Profile} {mk ms : Bytes} (h : c.KeyedBy S p mk ms) (pkt : Pkt) :
    (c.protectRtp S pkt).2.KeyedBy S p mk ms ∧ (c.protectRtp S pkt).2.ssrc = c.ssrc := by
  unfold Ctx.protectRtp
  split
  · exact ⟨h, rfl⟩
  · simp only; split <;> exact ⟨updated_keyed h _ _, rfl⟩

theorem protectRtcp_keyed {c : Ctx} {S : Suite} {p : Profile} {mk ms : Bytes} (h : c.KeyedBy S p mk ms) (pkt : Bytes) :
    (c.protectRtcp S pkt).2.KeyedBy S p mk ms ∧ (c.protectRtcp S pkt).2.ssrc = c.ssrc := by
  rw [protectRtcp_eq]; exact ⟨⟨h.profile, h.rtp, h.rtcp⟩, rfl⟩

theorem unprotectRtp_keyed {c : Ctx} {S : Suite} {p : Profile} {mk ms : Bytes} (h : c.KeyedBy S p mk ms)
    (hd : Hdr) (pad : Bool) (body : Bytes) :
    (c.unprotectRtp S hd pad body).2.KeyedBy S p mk ms ∧ (c.unprotectRtp S hd pad body).2.ssrc = c.ssrc := by
  rcases unprotectRtp_cases S c hd pad body with ⟨_, hr⟩ | ⟨_, _, _, hr⟩ | ⟨_, _, _, _, _, hr⟩ | ⟨_, _, _, _, _, _, hr⟩
  all_goals rw [hr]
  · exact ⟨h, rfl⟩
  · exact ⟨h, rfl⟩
  · exact ⟨h, rfl⟩
  · exact ⟨updated_keyed h _ _, rfl⟩

theorem forget_keyed {c d : Ctx} {S : Suite} {p : Profile} {mk ms : Bytes} (hf : c.forget = d.forget)
    (h : d.KeyedBy S p mk ms) : c.KeyedBy S p mk ms ∧ c.ssrc = d.ssrc := by
  have e := eq_setIdx_of_forget c d hf
  rw [e]; exact ⟨⟨h.profile, h.rtp, h.rtcp⟩, rfl⟩

theorem unprotectRtcp_keyed {c : Ctx} {S : Suite} {p : Profile} {mk ms : Bytes} (h : c.KeyedBy S p mk ms) (pkt : Bytes) :
    (c.unprotectRtcp S pkt).2.KeyedBy S p mk ms ∧ (c.unprotectRtcp S pkt).2.ssrc = c.ssrc :=
  forget_keyed (unprotectRtcp_state_forget S c pkt) h

theorem stamp_keyed {c : Ctx} {S : Suite} {p : Profile} {mk ms : Bytes} (h : c.KeyedBy S p mk ms) (now : Nat) :
    ({ c with lastUsed := now } : Ctx).KeyedBy S p mk ms := ⟨h.profile, h.rtp, h.rtcp⟩

/-! ### the tables keep the invariant -/

theorem withTx_some (S : Suite) (s : Sess) (now ssrc : Nat) (f : Ctx → Except Err Bytes × Ctx) {c : Ctx}
    (hl : lookup (evict s.tx ssrc now) ssrc = some c) :
    s.withTx S now ssrc f = ((f { c with lastUsed := now }).1,
      { s with tx := replace (evict s.tx ssrc now) (f { c with lastUsed := now }).2 }) := by
  unfold Sess.withTx; simp only [hl]

theorem withTx_none_full (S : Suite) (s : Sess) (now ssrc : Nat) (f : Ctx → Except Err Bytes × Ctx)
    (hl : lookup (evict s.tx ssrc now) ssrc = none) (hfull : maxTxContexts ≤ (evict s.tx ssrc now).length) :
    s.withTx S now ssrc f = (.error .internal, { s with tx := evict s.tx ssrc now }) := by
  unfold Sess.withTx; simp only [hl, hfull, if_true]

theorem withTx_none_err (S : Suite) (s : Sess) (now ssrc : Nat) (f : Ctx → Except Err Bytes × Ctx) {e : Err}
    (hl : lookup (evict s.tx ssrc now) ssrc = none) (hroom : ¬ maxTxContexts ≤ (evict s.tx ssrc now).length)
    (hn : Ctx.new S ssrc s.profile s.txMk s.txMs now = .error e) :
    s.withTx S now ssrc f = (.error e, { s with tx := evict s.tx ssrc now }) := by
  unfold Sess.withTx; simp only [hl, hroom, hn, if_false]

theorem withTx_none_ok (S : Suite) (s : Sess) (now ssrc : Nat) (f : Ctx → Except Err Bytes × Ctx) {c : Ctx}
    (hl : lookup (evict s.tx ssrc now) ssrc = none) (hroom : ¬ maxTxContexts ≤ (evict s.tx ssrc now).length)
    (hn : Ctx.new S ssrc s.profile s.txMk s.txMs now = .ok c) :
    s.withTx S now ssrc f = ((f c).1, { s with tx := evict s.tx ssrc now ++ [(f c).2] }) := by
  unfold Sess.withTx; simp only [hl, hroom, hn, if_false]

theorem withTx_inv (S : Suite) (s : Sess) (now ssrc : Nat) (f : Ctx → Except Err Bytes × Ctx)
    (hf : ∀ c, c.KeyedBy S s.profile s.txMk s.txMs → (f c).2.KeyedBy S s.profile s.txMk s.txMs)
    (hinv : TableInv S s.profile s.txMk s.txMs s.tx) :
    TableInv S s.profile s.txMk s.txMs (s.withTx S now ssrc f).2.tx ∧
    (s.withTx S now ssrc f).2.profile = s.profile ∧ (s.withTx S now ssrc f).2.txMk = s.txMk ∧
    (s.withTx S now ssrc f).2.txMs = s.txMs ∧ (s.withTx S now ssrc f).2.rxMk = s.rxMk ∧
    (s.withTx S now ssrc f).2.rxMs = s.rxMs ∧ (s.withTx S now ssrc f).2.rx = s.rx := by
  have hev : TableInv S s.profile s.txMk s.txMs (evict s.tx ssrc now) := fun c hc => hinv c (mem_evict hc)
  cases hl : lookup (evict s.tx ssrc now) ssrc with
  | some c =>
    rw [withTx_some S s now ssrc f hl]
    refine ⟨?_, rfl, rfl, rfl, rfl, rfl, rfl⟩
    intro x hx
    rcases mem_replace hx with h | h
    · exact hev x h
    · rw [h]; exact hf _ (stamp_keyed (hev c (lookup_mem hl)) now)
  | none =>
    by_cases hfull : maxTxContexts ≤ (evict s.tx ssrc now).length
    · rw [withTx_none_full S s now ssrc f hl hfull]; exact ⟨hev, rfl, rfl, rfl, rfl, rfl, rfl⟩
    cases hn : Ctx.new S ssrc s.profile s.txMk s.txMs now with
    | error e => rw [withTx_none_err S s now ssrc f hl hfull hn]; exact ⟨hev, rfl, rfl, rfl, rfl, rfl, rfl⟩
    | ok c =>
      rw [withTx_none_ok S s now ssrc f hl hfull hn]
      refine ⟨?_, rfl, rfl, rfl, rfl, rfl, rfl⟩
      intro x hx
      simp only [List.mem_append, List.mem_singleton] at hx
      rcases hx with h | h
      · exact hev x h
      · rw [h]; exact hf _ (Ctx.new_ok hn).2.2.2.2

theorem withRx_inv {α : Type} (S : Suite) (s : Sess) (now ssrc : Nat) (f : Ctx → Except Err α × Ctx)
    (hf : ∀ c, c.KeyedBy S s.profile s.rxMk s.rxMs → (f c).2.KeyedBy S s.profile s.rxMk s.rxMs)
    (hinv : TableInv S s.profile s.rxMk s.rxMs s.rx) :
    TableInv S s.profile s.rxMk s.rxMs (s.withRx S now ssrc f).2.rx ∧
    (s.withRx S now ssrc f).2.profile = s.profile ∧ (s.withRx S now ssrc f).2.txMk = s.txMk ∧
    (s.withRx S now ssrc f).2.txMs = s.txMs ∧ (s.withRx S now ssrc f).2.rxMk = s.rxMk ∧
    (s.withRx S now ssrc f).2.rxMs = s.rxMs ∧ (s.withRx S now ssrc f).2.tx = s.tx := by
  cases hl : lookup s.rx ssrc with
  | some c =>
    have hc := hinv c (lookup_mem hl)
    cases hr : (f c).1 with
    | error e =>
      rw [withRx_some_err S s now ssrc f hl hr]
      refine ⟨?_, rfl, rfl, rfl, rfl, rfl, rfl⟩
      intro x hx
      rcases mem_replace hx with h | h
      · exact hinv x h
      · rw [h]; exact hf c hc
    | ok a =>
      rw [withRx_some_ok S s now ssrc f hl hr]
      refine ⟨?_, rfl, rfl, rfl, rfl, rfl, rfl⟩
      intro x hx
      rcases mem_replace (mem_evict hx) with h | h
      · exact hinv x h
      · rw [h]; exact stamp_keyed (hf c hc) now
  | none =>
    cases hfull : rxFull s.rx now with
    | true => rw [withRx_none_full S s now ssrc f hl hfull]; exact ⟨hinv, rfl, rfl, rfl, rfl, rfl, rfl⟩
    | false =>
    cases hn : Ctx.new S ssrc s.profile s.rxMk s.rxMs now with
    | error e => rw [withRx_none_newerr S s now ssrc f hl hfull hn]; exact ⟨hinv, rfl, rfl, rfl, rfl, rfl, rfl⟩
    | ok c =>
      cases hr : (f c).1 with
      | error e => rw [withRx_none_err S s now ssrc f hl hfull hn hr]; exact ⟨hinv, rfl, rfl, rfl, rfl, rfl, rfl⟩
      | ok a =>
        rw [withRx_none_ok S s now ssrc f hl hfull hn hr]
        refine ⟨?_, rfl, rfl, rfl, rfl, rfl, rfl⟩
        intro x hx
        simp only [List.mem_append, List.mem_singleton] at hx
        rcases hx with h | h
        · exact hinv x (mem_evict h)
        · rw [h]; exact stamp_keyed (hf c (Ctx.new_ok hn).2.2.2.2) now

end RtcModel.Srtp

namespace RtcModel.Srtp
open RtcModel.C04 RtcModel.Generated

/-! ### looking a context up again after the table was updated -/

/-- rollover state a session holds for `ssrc` (a missing context counts as a fresh one) -/
def rocOf (t : List Ctx) (ssrc : Nat) : Nat × Option Nat :=
  match lookup t ssrc with
  | some c => (c.roc, c.last)
  | none => (0, none)

theorem lookup_replace_self : ∀ {t : List Ctx} {k : Nat} {c c' : Ctx}, lookup t k = some c → c'.ssrc = k →
    lookup (replace t c') k = some c'
  | [], _, _, _, h, _ => by simp [lookup] at h
  | x :: xs, k, c, c', h, hk => by
    simp only [lookup, List.find?_cons] at h
    by_cases hx : x.ssrc = k
    · have : x.ssrc = c'.ssrc := by rw [hk]; exact hx
      simp [replace, this, lookup, hk]
    · simp only [hx, decide_false] at h
      have hne : ¬ x.ssrc = c'.ssrc := by rw [hk]; exact hx
      simp only [replace, hne, if_false, lookup, List.find?_cons, hx, decide_false]
      exact lookup_replace_self (t := xs) h hk

theorem lookup_filter_keep (t : List Ctx) (k now : Nat) :
    lookup (t.filter (fun c => c.ssrc = k ∨ now - c.lastUsed < ssrcInactivityEvictSecs)) k = lookup t k := by
  induction t with
  | nil => rfl
  | cons x xs ih =>
    simp only [lookup] at ih ⊢
    by_cases hx : x.ssrc = k
    · simp [List.filter_cons, hx]
    · simp only [List.filter_cons, hx, false_or, List.find?_cons, decide_false]
      split
      · simp only [List.find?_cons, hx, decide_false]; exact ih
      · exact ih

theorem lookup_evict_keep (t : List Ctx) (k now : Nat) : lookup (evict t k now) k = lookup t k := by
  unfold evict; split
  · rfl
  · exact lookup_filter_keep t k now

theorem lookup_append_new {t : List Ctx} {k : Nat} {c : Ctx} (h : lookup t k = none) (hk : c.ssrc = k) :
    lookup (t ++ [c]) k = some c := by
  simp only [lookup] at h ⊢
  rw [List.find?_append, h]
  simp [hk]

/-- the context `withTx` works on, and where its result ends up -/
theorem withTx_result (S : Suite) (s : Sess) (now ssrc : Nat) (f : Ctx → Except Err Bytes × Ctx)
    (hinv : TableInv S s.profile s.txMk s.txMs s.tx)
    (hk : srtpKeyLen ≤ s.txMk.length) (hs : s.profile.saltLen ≤ s.txMs.length)
    (htxroom : (lookup s.tx ssrc).isSome = true ∨ s.tx.length < maxTxContexts)
    (hssrc : ∀ c, (f c).2.ssrc = c.ssrc) :
    ∃ cs, cs.KeyedBy S s.profile s.txMk s.txMs ∧ cs.ssrc = ssrc ∧
      (cs.roc, cs.last) = rocOf (evict s.tx ssrc now) ssrc ∧
      (s.withTx S now ssrc f).1 = (f cs).1 ∧
      rocOf (s.withTx S now ssrc f).2.tx ssrc = ((f cs).2.roc, (f cs).2.last) ∧
      (lookup (s.withTx S now ssrc f).2.tx ssrc).isSome = true := by
  cases hl : lookup (evict s.tx ssrc now) ssrc with
  | some c =>
    have hc := hinv c (lookup_evict_mem hl)
    have hcs : c.ssrc = ssrc := lookup_ssrc hl
    have hlk := lookup_replace_self (c' := (f { c with lastUsed := now }).2) hl (by rw [hssrc]; exact hcs)
    refine ⟨{ c with lastUsed := now }, stamp_keyed hc now, hcs, by simp [rocOf, hl], ?_, ?_, ?_⟩
    · rw [withTx_some S s now ssrc f hl]
    · rw [withTx_some S s now ssrc f hl]
      simp only [rocOf, hlk]
    · rw [withTx_some S s now ssrc f hl]
      simp only [hlk, Option.isSome_some]
  | none =>
    obtain ⟨c, hn⟩ := Ctx.new_usable S ssrc s.profile s.txMk s.txMs now hk hs
    obtain ⟨h1, h2, h3, _, h5⟩ := Ctx.new_ok hn
    have hroom : ¬ maxTxContexts ≤ (evict s.tx ssrc now).length := by
      have hle : (evict s.tx ssrc now).length ≤ s.tx.length := by
        unfold evict; split
        · exact Nat.le_refl _
        · exact List.length_filter_le _ _
      rcases htxroom with h | h
      · rw [← lookup_evict_keep s.tx ssrc now, hl] at h; simp at h
      · omega
    have hlk := lookup_append_new (c := (f c).2) hl (by rw [hssrc]; exact h1)
    refine ⟨c, h5, h1, by simp [rocOf, hl, h2, h3], ?_, ?_, ?_⟩
    · rw [withTx_none_ok S s now ssrc f hl hroom hn]
    · rw [withTx_none_ok S s now ssrc f hl hroom hn]
      simp only [rocOf, hlk]
    · rw [withTx_none_ok S s now ssrc f hl hroom hn]
      simp only [hlk, Option.isSome_some]

/-- the context `withRx` works on; if `f` accepts, where its result ends up -/
theorem withRx_result {α : Type} (S : Suite) (r : Sess) (now ssrc : Nat) (f : Ctx → Except Err α × Ctx)
    (hinv : TableInv S r.profile r.rxMk r.rxMs r.rx)
    (hk : srtpKeyLen ≤ r.rxMk.length) (hs : r.profile.saltLen ≤ r.rxMs.length)
    (hroom : (lookup r.rx ssrc).isSome = true ∨ r.rx.length < maxRxContexts)
    (hssrc : ∀ c, (f c).2.ssrc = c.ssrc) :
    ∃ cr, cr.KeyedBy S r.profile r.rxMk r.rxMs ∧ cr.ssrc = ssrc ∧ (cr.roc, cr.last) = rocOf r.rx ssrc ∧
      ∀ a, (f cr).1 = .ok a → (r.withRx S now ssrc f).1 = .ok a ∧
        rocOf (r.withRx S now ssrc f).2.rx ssrc = ((f cr).2.roc, (f cr).2.last) ∧
        (lookup (r.withRx S now ssrc f).2.rx ssrc).isSome = true := by
  cases hl : lookup r.rx ssrc with
  | some c =>
    refine ⟨c, hinv c (lookup_mem hl), lookup_ssrc hl, by simp [rocOf, hl], ?_⟩
    intro a ha
    rw [withRx_some_ok S r now ssrc f hl ha]
    have h1 := lookup_replace_self (c' := ({ (f c).2 with lastUsed := now } : Ctx)) hl
      (by show (f c).2.ssrc = ssrc; rw [hssrc]; exact lookup_ssrc hl)
    refine ⟨rfl, ?_, ?_⟩
    · simp only [rocOf, lookup_evict_keep, h1]
    · simp only [lookup_evict_keep, h1, Option.isSome_some]
  | none =>
    obtain ⟨c, hn⟩ := Ctx.new_usable S ssrc r.profile r.rxMk r.rxMs now hk hs
    obtain ⟨h1, h2, h3, _, h5⟩ := Ctx.new_ok hn
    refine ⟨c, h5, h1, by simp [rocOf, hl, h2, h3], ?_⟩
    intro a ha
    have hroom' : r.rx.length < maxRxContexts := by
      rcases hroom with h | h
      · rw [hl] at h; simp at h
      · exact h
    rw [withRx_none_ok S r now ssrc f hl (rxFull_of_lt hroom') hn ha]
    have hl' : lookup (evict r.rx ssrc now) ssrc = none := by rw [lookup_evict_keep]; exact hl
    have := lookup_append_new (c := ({ (f c).2 with lastUsed := now } : Ctx)) hl'
      (by show (f c).2.ssrc = ssrc; rw [hssrc]; exact h1)
    refine ⟨rfl, ?_, ?_⟩
    · simp only [rocOf, this]
    · simp only [this, Option.isSome_some]

end RtcModel.Srtp

namespace RtcModel.Srtp
open RtcModel.C04 RtcModel.Generated

theorem protectRtp_ssrc (S : Suite) (c : Ctx) (p : Pkt) : (c.protectRtp S p).2.ssrc = c.ssrc := by
  unfold Ctx.protectRtp
  split
  · rfl
  · simp only; split <;> rfl

theorem unprotectRtp_ssrc (S : Suite) (c : Ctx) (h : Hdr) (pad : Bool) (body : Bytes) :
    (c.unprotectRtp S h pad body).2.ssrc = c.ssrc := by
  rcases unprotectRtp_cases S c h pad body with ⟨_, hr⟩ | ⟨_, _, _, hr⟩ | ⟨_, _, _, _, _, hr⟩ | ⟨_, _, _, _, _, _, hr⟩
  all_goals rw [hr]
  all_goals rfl

theorem protectRtcp_ssrc (S : Suite) (c : Ctx) (pkt : Bytes) : (c.protectRtcp S pkt).2.ssrc = c.ssrc := by
  rw [protectRtcp_eq]

theorem unprotectRtcp_ssrc (S : Suite) (c : Ctx) (pkt : Bytes) : (c.unprotectRtcp S pkt).2.ssrc = c.ssrc :=
  forget_ssrc_eq (unprotectRtcp_state_forget S c pkt)

end RtcModel.Srtp

namespace RtcModel.Srtp
open RtcModel.C04 RtcModel.Generated

theorem receiveRtp_ok (S : Suite) (s : Sess) (now : Nat) (raw : Bytes) (h : Hdr) (pad : Bool) (body : Bytes)
    (pkt : Pkt) (hp : parseHdr raw = .ok (h, pad, body))
    (hu : (s.unprotectRtp S now h pad body).1 = .ok pkt) :
    (s.receiveRtp S now raw).1 = .ok pkt ∧ (s.receiveRtp S now raw).2 = (s.unprotectRtp S now h pad body).2 := by
  unfold Sess.receiveRtp
  rw [hp]
  simp only
  cases hr : s.unprotectRtp S now h pad body with
  | mk res s' =>
    rw [hr] at hu
    simp only at hu
    subst hu
    exact ⟨rfl, rfl⟩

end RtcModel.Srtp

namespace RtcModel.Srtp
open RtcModel.C04 RtcModel.Generated

/-- what a session operation leaves untouched on the transmit side -/
structure TxKept (S : Suite) (s s' : Sess) : Prop where
  inv : TableInv S s.profile s.txMk s.txMs s'.tx
  profile : s'.profile = s.profile
  txMk : s'.txMk = s.txMk
  txMs : s'.txMs = s.txMs
  rxMk : s'.rxMk = s.rxMk
  rxMs : s'.rxMs = s.rxMs
  rx : s'.rx = s.rx

/-- … and on the receive side -/
structure RxKept (S : Suite) (s s' : Sess) : Prop where
  inv : TableInv S s.profile s.rxMk s.rxMs s'.rx
  profile : s'.profile = s.profile
  txMk : s'.txMk = s.txMk
  txMs : s'.txMs = s.txMs
  rxMk : s'.rxMk = s.rxMk
  rxMs : s'.rxMs = s.rxMs
  tx : s'.tx = s.tx

theorem protectRtp_kept (S : Suite) (s : Sess) (now : Nat) (p : Pkt)
    (hinv : TableInv S s.profile s.txMk s.txMs s.tx) : TxKept S s (s.protectRtp S now p).2 := by
  obtain ⟨a, b, c, d, e, f, g⟩ := withTx_inv S s now p.hdr.ssrc (fun c => c.protectRtp S p)
    (fun c hc => (protectRtp_keyed hc p).1) hinv
  exact ⟨a, b, c, d, e, f, g⟩

theorem protectRtcp_kept (S : Suite) (s : Sess) (now : Nat) (pkt : Bytes)
    (hinv : TableInv S s.profile s.txMk s.txMs s.tx) : TxKept S s (s.protectRtcp S now pkt).2 := by
  unfold Sess.protectRtcp
  split
  · exact ⟨hinv, rfl, rfl, rfl, rfl, rfl, rfl⟩
  · obtain ⟨a, b, c, d, e, f, g⟩ := withTx_inv S s now (ssrcOfRtcp pkt) (fun c => c.protectRtcp S pkt)
      (fun c hc => (protectRtcp_keyed hc pkt).1) hinv
    exact ⟨a, b, c, d, e, f, g⟩

theorem unprotectRtp_kept (S : Suite) (s : Sess) (now : Nat) (h : Hdr) (pad : Bool) (body : Bytes)
    (hinv : TableInv S s.profile s.rxMk s.rxMs s.rx) : RxKept S s (s.unprotectRtp S now h pad body).2 := by
  obtain ⟨a, b, c, d, e, f, g⟩ := withRx_inv S s now h.ssrc (fun c => c.unprotectRtp S h pad body)
    (fun c hc => (unprotectRtp_keyed hc h pad body).1) hinv
  exact ⟨a, b, c, d, e, f, g⟩

theorem unprotectRtcp_kept (S : Suite) (s : Sess) (now : Nat) (pkt : Bytes)
    (hinv : TableInv S s.profile s.rxMk s.rxMs s.rx) : RxKept S s (s.unprotectRtcp S now pkt).2 := by
  unfold Sess.unprotectRtcp
  split
  · exact ⟨hinv, rfl, rfl, rfl, rfl, rfl, rfl⟩
  · obtain ⟨a, b, c, d, e, f, g⟩ := withRx_inv S s now (ssrcOfRtcp pkt) (fun c => c.unprotectRtcp S pkt)
      (fun c hc => (unprotectRtcp_keyed hc pkt).1) hinv
    exact ⟨a, b, c, d, e, f, g⟩

end RtcModel.Srtp

namespace RtcModel.Srtp
open RtcModel.C04 RtcModel.Generated

/-! ### frame: what an operation on one SSRC leaves alone when nothing is evicted -/

/-- every context of the table was used at or after `T` -/
def UsedSince (T : Nat) (t : List Ctx) : Prop := ∀ c ∈ t, T ≤ c.lastUsed

theorem evict_noop {t : List Ctx} {T now : Nat} (k : Nat) (h : UsedSince T t) (hn : now < T + ssrcInactivityEvictSecs) :
    evict t k now = t := by
  unfold evict
  split
  · rfl
  · apply List.filter_eq_self.mpr
    intro c hc
    have := h c hc
    simp only [ssrcInactivityEvictSecs_val] at hn ⊢
    exact decide_eq_true (Or.inr (by omega))

theorem lookup_replace_other : ∀ {t : List Ctx} {k : Nat} {c' : Ctx}, c'.ssrc ≠ k →
    lookup (replace t c') k = lookup t k
  | [], _, _, _ => rfl
  | x :: xs, k, c', h => by
    simp only [replace]
    split
    · rename_i hx
      have hxk : ¬ x.ssrc = k := by rw [hx]; exact h
      simp [lookup, List.find?_cons, h, hxk]
    · simp only [lookup, List.find?_cons]
      split
      · rfl
      · exact lookup_replace_other (t := xs) h

theorem lookup_append_other {t : List Ctx} {k : Nat} {c : Ctx} (h : c.ssrc ≠ k) :
    lookup (t ++ [c]) k = lookup t k := by
  simp only [lookup, List.find?_append, List.find?_cons, h, decide_false, List.find?_nil, Option.or_none]

theorem Ctx.new_lastUsed {S : Suite} {ssrc : Nat} {p : Profile} {mk ms : Bytes} {now : Nat} {c : Ctx}
    (h : Ctx.new S ssrc p mk ms now = .ok c) : c.lastUsed = now := by
  unfold Ctx.new at h
  split at h
  · simp at h
  · simp only [Except.ok.injEq] at h; subst h; rfl

theorem withTx_frame (S : Suite) (s : Sess) (T now ssrc : Nat) (f : Ctx → Except Err Bytes × Ctx)
    (hu : UsedSince T s.tx) (hT : T ≤ now) (hn : now < T + ssrcInactivityEvictSecs)
    (hssrc : ∀ c, (f c).2.ssrc = c.ssrc) (hlu : ∀ c, (f c).2.lastUsed = c.lastUsed) :
    UsedSince T (s.withTx S now ssrc f).2.tx ∧
    ∀ k, k ≠ ssrc → rocOf (s.withTx S now ssrc f).2.tx k = rocOf s.tx k := by
  have hev := evict_noop ssrc hu hn
  cases hl : lookup (evict s.tx ssrc now) ssrc with
  | some c =>
    rw [withTx_some S s now ssrc f hl, hev]
    have hcs : c.ssrc = ssrc := lookup_ssrc hl
    refine ⟨fun x hx => ?_, fun k hk => ?_⟩
    · rcases mem_replace hx with h | h
      · exact hu x h
      · rw [h, hlu]; exact hT
    · simp only [rocOf]
      rw [lookup_replace_other (by rw [hssrc]; show c.ssrc ≠ k; rw [hcs]; exact fun e => hk e.symm)]
  | none =>
    by_cases hfull : maxTxContexts ≤ (evict s.tx ssrc now).length
    · rw [withTx_none_full S s now ssrc f hl hfull, hev]; exact ⟨hu, fun _ _ => rfl⟩
    cases hn' : Ctx.new S ssrc s.profile s.txMk s.txMs now with
    | error e =>
      rw [withTx_none_err S s now ssrc f hl hfull hn', hev]
      exact ⟨hu, fun _ _ => rfl⟩
    | ok c =>
      rw [withTx_none_ok S s now ssrc f hl hfull hn', hev]
      have hcs : c.ssrc = ssrc := (Ctx.new_ok hn').1
      refine ⟨fun x hx => ?_, fun k hk => ?_⟩
      · simp only [List.mem_append, List.mem_singleton] at hx
        rcases hx with h | h
        · exact hu x h
        · rw [h, hlu, Ctx.new_lastUsed hn']; exact hT
      · simp only [rocOf]
        rw [lookup_append_other (by rw [hssrc, hcs]; exact fun e => hk e.symm)]

theorem withRx_frame {α : Type} (S : Suite) (r : Sess) (T now ssrc : Nat) (f : Ctx → Except Err α × Ctx)
    (hu : UsedSince T r.rx) (hT : T ≤ now) (hn : now < T + ssrcInactivityEvictSecs)
    (hssrc : ∀ c, (f c).2.ssrc = c.ssrc) (hlu : ∀ c, (f c).2.lastUsed = c.lastUsed) :
    UsedSince T (r.withRx S now ssrc f).2.rx ∧
    ∀ k, k ≠ ssrc → rocOf (r.withRx S now ssrc f).2.rx k = rocOf r.rx k := by
  cases hl : lookup r.rx ssrc with
  | some c =>
    have hcs : c.ssrc = ssrc := lookup_ssrc hl
    cases hr : (f c).1 with
    | error e =>
      rw [withRx_some_err S r now ssrc f hl hr]
      refine ⟨fun x hx => ?_, fun k hk => ?_⟩
      · rcases mem_replace hx with h | h
        · exact hu x h
        · rw [h, hlu]; exact hu c (lookup_mem hl)
      · simp only [rocOf]
        rw [lookup_replace_other (by rw [hssrc, hcs]; exact fun e => hk e.symm)]
    | ok a =>
      rw [withRx_some_ok S r now ssrc f hl hr]
      have hu' : UsedSince T (replace r.rx { (f c).2 with lastUsed := now }) := by
        intro x hx
        rcases mem_replace hx with h | h
        · exact hu x h
        · rw [h]; exact hT
      simp only [evict_noop ssrc hu' hn]
      refine ⟨hu', fun k hk => ?_⟩
      simp only [rocOf]
      rw [lookup_replace_other (by show (f c).2.ssrc ≠ k; rw [hssrc, hcs]; exact fun e => hk e.symm)]
  | none =>
    cases hfull : rxFull r.rx now with
    | true => rw [withRx_none_full S r now ssrc f hl hfull]; exact ⟨hu, fun _ _ => rfl⟩
    | false =>
    cases hn' : Ctx.new S ssrc r.profile r.rxMk r.rxMs now with
    | error e => rw [withRx_none_newerr S r now ssrc f hl hfull hn']; exact ⟨hu, fun _ _ => rfl⟩
    | ok c =>
      have hcs : c.ssrc = ssrc := (Ctx.new_ok hn').1
      cases hr : (f c).1 with
      | error e => rw [withRx_none_err S r now ssrc f hl hfull hn' hr]; exact ⟨hu, fun _ _ => rfl⟩
      | ok a =>
        rw [withRx_none_ok S r now ssrc f hl hfull hn' hr]
        simp only [evict_noop ssrc hu hn]
        refine ⟨fun x hx => ?_, fun k hk => ?_⟩
        · simp only [List.mem_append, List.mem_singleton] at hx
          rcases hx with h | h
          · exact hu x h
          · rw [h]; exact hT
        · simp only [rocOf]
          rw [lookup_append_other (by show (f c).2.ssrc ≠ k; rw [hssrc, hcs]; exact fun e => hk e.symm)]

theorem protectRtp_lastUsed (S : Suite) (c : Ctx) (p : Pkt) : (c.protectRtp S p).2.lastUsed = c.lastUsed := by
  unfold Ctx.protectRtp
  split
  · rfl
  · simp only; split <;> rfl

theorem unprotectRtp_lastUsed (S : Suite) (c : Ctx) (h : Hdr) (pad : Bool) (body : Bytes) :
    (c.unprotectRtp S h pad body).2.lastUsed = c.lastUsed := by
  rcases unprotectRtp_cases S c h pad body with ⟨_, hr⟩ | ⟨_, _, _, hr⟩ | ⟨_, _, _, _, _, hr⟩ | ⟨_, _, _, _, _, _, hr⟩
  all_goals rw [hr]
  all_goals rfl

end RtcModel.Srtp

namespace RtcModel.Srtp
open RtcModel.C04 RtcModel.Generated

theorem receiveRtp_snd (S : Suite) (s : Sess) (now : Nat) (raw : Bytes) (h : Hdr) (pad : Bool) (body : Bytes)
    (hp : parseHdr raw = .ok (h, pad, body)) :
    (s.receiveRtp S now raw).2 = (s.unprotectRtp S now h pad body).2 := by
  unfold Sess.receiveRtp
  rw [hp]
  simp only
  cases hr : s.unprotectRtp S now h pad body with
  | mk res s' => cases res <;> rfl

/-! ### table size -/

theorem replace_length : ∀ (t : List Ctx) (c : Ctx), (replace t c).length = t.length
  | [], _ => rfl
  | x :: xs, c => by
    simp only [replace]; split
    · rfl
    · simp [replace_length xs c]

theorem evict_length_le (t : List Ctx) (k now : Nat) : (evict t k now).length ≤ t.length := by
  unfold evict; split
  · exact Nat.le_refl _
  · exact List.length_filter_le _ _

/-- a receive operation adds at most one context -/
theorem withRx_length {α : Type} (S : Suite) (r : Sess) (now ssrc : Nat) (f : Ctx → Except Err α × Ctx) :
    (r.withRx S now ssrc f).2.rx.length ≤ r.rx.length + 1 := by
  cases hl : lookup r.rx ssrc with
  | some c =>
    cases hr : (f c).1 with
    | error e => rw [withRx_some_err S r now ssrc f hl hr]; simp [replace_length]
    | ok a =>
      rw [withRx_some_ok S r now ssrc f hl hr]
      have := evict_length_le (replace r.rx { (f c).2 with lastUsed := now }) ssrc now
      rw [replace_length] at this
      show (evict _ ssrc now).length ≤ _
      omega
  | none =>
    cases hfull : rxFull r.rx now with
    | true => rw [withRx_none_full S r now ssrc f hl hfull]; exact Nat.le_succ _
    | false =>
    cases hn : Ctx.new S ssrc r.profile r.rxMk r.rxMs now with
    | error e => rw [withRx_none_newerr S r now ssrc f hl hfull hn]; exact Nat.le_succ _
    | ok c =>
      cases hr : (f c).1 with
      | error e => rw [withRx_none_err S r now ssrc f hl hfull hn hr]; exact Nat.le_succ _
      | ok a =>
        rw [withRx_none_ok S r now ssrc f hl hfull hn hr]
        have := evict_length_le r.rx ssrc now
        show (evict r.rx ssrc now ++ [_]).length ≤ _
        simp only [List.length_append, List.length_singleton]; omega

theorem receiveRtp_length (S : Suite) (r : Sess) (now : Nat) (raw : Bytes) :
    (r.receiveRtp S now raw).2.rx.length ≤ r.rx.length + 1 := by
  cases hp : parseHdr raw with
  | error e => unfold Sess.receiveRtp; rw [hp]; exact Nat.le_succ _
  | ok v =>
    obtain ⟨h, pad, body⟩ := v
    rw [receiveRtp_snd S r now raw h pad body hp]
    exact withRx_length S r now h.ssrc _

theorem filter_keep_absent : ∀ (t : List Ctx) (k now : Nat), lookup t k = none →
    t.filter (fun c => c.ssrc = k ∨ now - c.lastUsed < ssrcInactivityEvictSecs) =
      t.filter (fun c => now - c.lastUsed < ssrcInactivityEvictSecs)
  | [], _, _, _ => rfl
  | x :: xs, k, now, h => by
    simp only [lookup, List.find?_cons] at h
    by_cases hx : x.ssrc = k
    · simp [hx] at h
    · simp only [hx, decide_false] at h
      have ih := filter_keep_absent xs k now h
      simp only [List.filter_cons, hx, false_or, ih]

/-- what the cap is for: a receive table within `MAX_RX_CONTEXTS` stays within it, whatever arrives -/
theorem withRx_bounded {α : Type} (S : Suite) (r : Sess) (now ssrc : Nat) (f : Ctx → Except Err α × Ctx)
    (hb : r.rx.length ≤ maxRxContexts) : (r.withRx S now ssrc f).2.rx.length ≤ maxRxContexts := by
  cases hl : lookup r.rx ssrc with
  | some c =>
    cases hr : (f c).1 with
    | error e => rw [withRx_some_err S r now ssrc f hl hr]; simpa [replace_length] using hb
    | ok a =>
      rw [withRx_some_ok S r now ssrc f hl hr]
      have := evict_length_le (replace r.rx { (f c).2 with lastUsed := now }) ssrc now
      rw [replace_length] at this
      show (evict _ ssrc now).length ≤ _
      omega
  | none =>
    cases hfull : rxFull r.rx now with
    | true => rw [withRx_none_full S r now ssrc f hl hfull]; exact hb
    | false =>
    cases hn : Ctx.new S ssrc r.profile r.rxMk r.rxMs now with
    | error e => rw [withRx_none_newerr S r now ssrc f hl hfull hn]; exact hb
    | ok c =>
      cases hr : (f c).1 with
      | error e => rw [withRx_none_err S r now ssrc f hl hfull hn hr]; exact hb
      | ok a =>
        rw [withRx_none_ok S r now ssrc f hl hfull hn hr]
        show (evict r.rx ssrc now ++ [_]).length ≤ _
        simp only [List.length_append, List.length_singleton]
        by_cases hlt : r.rx.length < maxRxContexts
        · have := evict_length_le r.rx ssrc now; omega
        · have heq : maxRxContexts ≤ r.rx.length := by omega
          -- full table: `rxFull = false` says fewer than the cap are live, and eviction keeps exactly those
          unfold rxFull at hfull
          rw [decide_eq_true heq, Bool.true_and] at hfull
          have hlive := of_decide_eq_false hfull
          have hev : evict r.rx ssrc now = r.rx.filter (fun c => now - c.lastUsed < ssrcInactivityEvictSecs) := by
            unfold evict
            rw [if_neg (by simp only [maxRxContexts_val, ssrcContextHighWatermark_val] at heq ⊢; omega)]
            exact filter_keep_absent r.rx ssrc now hl
          rw [hev]; omega

/-- a transmit operation adds at most one context -/
theorem withTx_length (S : Suite) (s : Sess) (now ssrc : Nat) (f : Ctx → Except Err Bytes × Ctx) :
    (s.withTx S now ssrc f).2.tx.length ≤ s.tx.length + 1 := by
  have hle := evict_length_le s.tx ssrc now
  cases hl : lookup (evict s.tx ssrc now) ssrc with
  | some c => rw [withTx_some S s now ssrc f hl]; simp only [replace_length]; omega
  | none =>
    by_cases hfull : maxTxContexts ≤ (evict s.tx ssrc now).length
    · rw [withTx_none_full S s now ssrc f hl hfull]; show (evict s.tx ssrc now).length ≤ _; omega
    cases hn : Ctx.new S ssrc s.profile s.txMk s.txMs now with
    | error e => rw [withTx_none_err S s now ssrc f hl hfull hn]; show (evict s.tx ssrc now).length ≤ _; omega
    | ok c =>
      rw [withTx_none_ok S s now ssrc f hl hfull hn]
      show (evict s.tx ssrc now ++ [_]).length ≤ _
      simp only [List.length_append, List.length_singleton]; omega

end RtcModel.Srtp
