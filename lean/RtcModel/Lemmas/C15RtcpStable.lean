/- C15 — what the RTCP parser returns is a value the Rust types can hold (`Dom`), so a parsed compound
packet that the marshaller accepts again comes back in canonical form. Core Lean only. -/
import RtcModel.Lemmas.C15Rtcp

namespace RtcModel.C15
open RtcModel.Generated

theorem map_some_inv {α : Type} {r : Except Err α} {q : α} (h : r.map some = .ok (some q)) : r = .ok q := by
  cases r with
  | error e => cases h
  | ok a => simp only [Except.map, Except.ok.injEq, Option.some.injEq] at h; rw [h]

theorem parseSr_shape {fmt : Nat} {b : Bytes} {q : Rtcp} (h : parseSr fmt b = .ok q) : ∃ s m l t p o bl, q = .sr s m l t p o bl := by
  unfold parseSr at h
  split at h
  · split at h
    · cases h
    · injection h with h; exact ⟨_, _, _, _, _, _, _, h.symm⟩
  · cases h

theorem parseRr_shape {fmt : Nat} {b : Bytes} {q : Rtcp} (h : parseRr fmt b = .ok q) : ∃ s bl, q = .rr s bl := by
  unfold parseRr at h
  split at h
  · split at h
    · cases h
    · injection h with h; exact ⟨_, _, h.symm⟩
  · cases h

theorem parseBye_shape {fmt : Nat} {b : Bytes} {q : Rtcp} (h : parseBye fmt b = .ok q) : ∃ ss r, q = .bye ss r := by
  unfold parseBye at h
  split at h
  · cases h
  · simp only at h
    split at h
    · injection h with h; exact ⟨_, _, h.symm⟩
    · split at h
      · cases h
      · injection h with h; exact ⟨_, _, h.symm⟩

theorem parseNack_shape {b : Bytes} {q : Rtcp} (h : parseNack b = .ok q) : ∃ s m l, q = .nack s m l := by
  unfold parseNack at h
  split at h
  · injection h with h; exact ⟨_, _, _, h.symm⟩
  · cases h

theorem parseTwcc_shape {b : Bytes} {q : Rtcp} (h : parseTwcc b = .ok q) : ∃ s m b c r f pl, q = .twcc s m b c r f pl := by
  unfold parseTwcc at h
  split at h
  · injection h with h; exact ⟨_, _, _, _, _, _, _, h.symm⟩
  · cases h

theorem parsePli_shape {b : Bytes} {q : Rtcp} (h : parsePli b = .ok q) : ∃ s m, q = .pli s m := by
  unfold parsePli at h
  split at h
  · injection h with h; exact ⟨_, _, h.symm⟩
  · cases h

theorem parseFir_shape {b : Bytes} {q : Rtcp} (h : parseFir b = .ok q) : ∃ s rq, q = .fir s rq := by
  unfold parseFir at h
  split at h
  · injection h with h; exact ⟨_, _, h.symm⟩
  · cases h

theorem parseRemb_dom {b : Bytes} {q : Rtcp} (h : parseRemb b = .ok q) : ∃ s br ss, q = .remb s br ss ∧ br < 2 ^ 64 := by
  unfold parseRemb at h
  split at h
  · split at h
    · cases h
    · split at h
      · cases h
      · injection h with h
        exact ⟨_, _, _, h.symm, Nat.mod_lt _ (by decide)⟩
  · cases h

theorem sdesItems_dom : ∀ (n : Nat) (off : Nat) (bs : Bytes) (its : List SdesItem) (o : Nat) (r : Bytes), bs.length = n →
    sdesItems off bs = .ok (its, o, r) → ∀ i ∈ its, utf8Valid i.text = true := by
  intro n
  induction n using Nat.strongRecOn with
  | ind n ih =>
    intro off bs its o r hn h
    rw [sdesItems.eq_def] at h
    match bs, hn, h with
    | [], _, h => simp only [Except.ok.injEq, Prod.mk.injEq] at h; obtain ⟨rfl, _⟩ := h; intro i hi; cases hi
    | ty :: rest, hn, h =>
      simp only at h
      by_cases h0 : ty = 0
      · rw [if_pos h0] at h
        simp only [Except.ok.injEq, Prod.mk.injEq] at h; obtain ⟨rfl, _⟩ := h; intro i hi; cases hi
      · rw [if_neg h0] at h
        match rest, hn, h with
        | [], _, h => cases h
        | l :: rest2, hn, h =>
          simp only at h
          by_cases hl : rest2.length < l.toNat
          · rw [if_pos hl] at h; cases h
          · rw [if_neg hl] at h
            cases hrec : sdesItems (off + 2 + l.toNat) (rest2.drop l.toNat) with
            | error e => rw [hrec] at h; cases h
            | ok v =>
              obtain ⟨its', o', r'⟩ := v
              rw [hrec] at h
              simp only [Except.ok.injEq, Prod.mk.injEq] at h
              obtain ⟨rfl, _, _⟩ := h
              intro i hi
              rcases List.mem_cons.mp hi with rfl | hi
              · exact utf8Valid_lossy _ _ rfl
              · exact ih (rest2.drop l.toNat).length (by simp at hn ⊢; omega) _ _ _ _ _ rfl hrec i hi

theorem sdesChunks_dom : ∀ (n off : Nat) (bs : Bytes) (cs : List SdesChunk), sdesChunks n off bs = .ok cs →
    ∀ c ∈ cs, ∀ i ∈ c.items, utf8Valid i.text = true := by
  intro n
  induction n with
  | zero => intro off bs cs h; simp only [sdesChunks, Except.ok.injEq] at h; subst h; intro c hc; cases hc
  | succ n ih =>
    intro off bs cs h
    unfold sdesChunks at h
    split at h
    · next s0 s1 s2 s3 rest =>
      cases hit : sdesItems (off + 4) rest with
      | error e => rw [hit] at h; cases h
      | ok v =>
        obtain ⟨its, o, r⟩ := v
        rw [hit] at h
        simp only at h
        cases hrec : sdesChunks n o r with
        | error e => rw [hrec] at h; cases h
        | ok cs' =>
          rw [hrec] at h
          simp only [Except.ok.injEq] at h
          subst h
          intro c hc
          rcases List.mem_cons.mp hc with rfl | hc
          · exact sdesItems_dom _ _ _ _ _ _ rfl hit
          · exact ih _ _ _ hrec c hc
    · cases h

theorem parseSdes_dom {fmt : Nat} {b : Bytes} {q : Rtcp} (h : parseSdes fmt b = .ok q) : Dom q := by
  unfold parseSdes at h
  cases hc : sdesChunks fmt 0 b with
  | error e => rw [hc] at h; cases h
  | ok cs =>
    rw [hc] at h
    injection h with h; subst h
    exact sdesChunks_dom _ _ _ _ hc

theorem parseOne_dom {pt fmt : Nat} {body : Bytes} {q : Rtcp} (h : parseOne pt fmt body = .ok (some q)) : Dom q := by
  unfold parseOne at h
  by_cases h1 : pt = c15RtcpSr
  · rw [if_pos h1] at h; obtain ⟨_, _, _, _, _, _, _, rfl⟩ := parseSr_shape (map_some_inv h); trivial
  · rw [if_neg h1] at h
    by_cases h2 : pt = c15RtcpRr
    · rw [if_pos h2] at h; obtain ⟨_, _, rfl⟩ := parseRr_shape (map_some_inv h); trivial
    · rw [if_neg h2] at h
      by_cases h3 : pt = c15RtcpSdes
      · rw [if_pos h3] at h; exact parseSdes_dom (map_some_inv h)
      · rw [if_neg h3] at h
        by_cases h4 : pt = c15RtcpBye
        · rw [if_pos h4] at h; obtain ⟨_, _, rfl⟩ := parseBye_shape (map_some_inv h); trivial
        · rw [if_neg h4] at h
          by_cases h5 : pt = c15RtcpRtpfb
          · rw [if_pos h5] at h
            by_cases f1 : fmt = c15FmtNack
            · rw [if_pos f1] at h; obtain ⟨_, _, _, rfl⟩ := parseNack_shape (map_some_inv h); trivial
            · rw [if_neg f1] at h
              by_cases f2 : fmt = c15FmtTwcc
              · rw [if_pos f2] at h; obtain ⟨_, _, _, _, _, _, _, rfl⟩ := parseTwcc_shape (map_some_inv h); trivial
              · rw [if_neg f2] at h; cases h
          · rw [if_neg h5] at h
            by_cases h6 : pt = c15RtcpPsfb
            · rw [if_pos h6] at h
              by_cases f1 : fmt = c15FmtPli
              · rw [if_pos f1] at h; obtain ⟨_, _, rfl⟩ := parsePli_shape (map_some_inv h); trivial
              · rw [if_neg f1] at h
                by_cases f2 : fmt = c15FmtFir
                · rw [if_pos f2] at h; obtain ⟨_, _, rfl⟩ := parseFir_shape (map_some_inv h); trivial
                · rw [if_neg f2] at h
                  by_cases f3 : fmt = c15FmtApp
                  · rw [if_pos f3] at h; obtain ⟨_, _, _, rfl, hb⟩ := parseRemb_dom (map_some_inv h); exact hb
                  · rw [if_neg f3] at h; cases h
            · rw [if_neg h6] at h; cases h

/-- every packet `parse_rtcp_packets` returns was produced by one call of the per-type parser -/
theorem parseCompound_forall (P : Rtcp → Prop)
    (hP : ∀ (pt fmt : Nat) (body : Bytes) (q : Rtcp), parseOne pt fmt body = .ok (some q) → P q) :
    ∀ (n : Nat) (bs : Bytes) (ps : List Rtcp), bs.length = n → parseCompound bs = .ok ps → ∀ p ∈ ps, P p := by
  intro n
  induction n using Nat.strongRecOn with
  | ind n ih =>
    intro bs ps hn h
    rw [parseCompound.eq_def] at h
    match bs, hn, h with
    | vrc :: pt :: l0 :: l1 :: rest, hn, h =>
      simp only at h
      by_cases hv : vrc.toNat / 64 ≠ c15RtpVersion
      · rw [if_pos hv] at h; cases h
      · rw [if_neg hv] at h
        by_cases hl : rest.length < (rd16 l0 l1).toNat * 4
        · rw [if_pos hl] at h; cases h
        · rw [if_neg hl] at h
          generalize hpad : (if (vrc.toNat / 32 % 2 == 1) = true then
            ((List.take ((rd16 l0 l1).toNat * 4) rest).getLast?.getD l1).toNat else 0) = pad at h
          generalize hbody : List.take ((rd16 l0 l1).toNat * 4 - pad) (List.take ((rd16 l0 l1).toNat * 4) rest) = body at h
          by_cases hc : (vrc.toNat / 32 % 2 == 1 && (decide (pad = 0) || decide (pad > (rd16 l0 l1).toNat * 4))) = true
          · rw [if_pos hc] at h; cases h
          · rw [if_neg hc] at h
            cases ho : parseOne pt.toNat (vrc.toNat % 32) body with
              | error e => rw [ho] at h; cases h
              | ok o =>
                rw [ho] at h
                simp only at h
                cases hrec : parseCompound (rest.drop ((rd16 l0 l1).toNat * 4)) with
                | error e => rw [hrec] at h; cases h
                | ok ps' =>
                  rw [hrec] at h
                  simp only [Except.ok.injEq] at h
                  have hlt : (rest.drop ((rd16 l0 l1).toNat * 4)).length < n := by simp at hn ⊢; omega
                  have hps' := ih _ hlt _ _ rfl hrec
                  cases o with
                  | none => subst h; exact hps'
                  | some q =>
                    subst h
                    intro p hp
                    rcases List.mem_cons.mp hp with rfl | hp
                    · exact hP _ _ _ _ ho
                    · exact hps' p hp
    | [], _, h => simp only [Except.ok.injEq] at h; subst h; intro p hp; cases hp
    | [_], _, h => simp only [Except.ok.injEq] at h; subst h; intro p hp; cases hp
    | [_, _], _, h => simp only [Except.ok.injEq] at h; subst h; intro p hp; cases hp
    | [_, _, _], _, h => simp only [Except.ok.injEq] at h; subst h; intro p hp; cases hp

/-- every packet `parse_rtcp_packets` returns is a value the Rust types can hold -/
theorem parseCompound_dom (bs : Bytes) (ps : List Rtcp) (h : parseCompound bs = .ok ps) : ∀ p ∈ ps, Dom p :=
  parseCompound_forall Dom (fun _ _ _ _ => parseOne_dom) _ bs ps rfl h

theorem rd24n_lt (a b c : UInt8) : rd24n a b c < 16777216 := by
  have := a.toNat_lt; have := b.toNat_lt; have := c.toNat_lt
  simp only [rd24n]; omega

theorem parseBlock_range {bs : Bytes} {b : ReportBlock} (h : parseBlock bs = some b) : canonBlock b = b := by
  unfold parseBlock at h
  split at h
  · next s0 s1 s2 s3 fl l0 l1 l2 _ _ _ _ _ _ _ _ _ _ _ _ _ _ _ _ _ =>
    injection h with h; subst h
    have hv := rd24n_lt l0 l1 l2
    generalize rd24n l0 l1 l2 = v at hv
    apply canonBlock_of_range <;> simp only <;> by_cases hge : v ≥ 8388608 <;> simp only [hge, if_true, if_false] <;> omega
  · cases h

theorem parseBlocks_range : ∀ (n : Nat) (bs : Bytes) (bl : List ReportBlock), parseBlocks n bs = .ok bl → bl.map canonBlock = bl := by
  intro n
  induction n with
  | zero => intro bs bl h; simp only [parseBlocks, Except.ok.injEq] at h; subst h; rfl
  | succ n ih =>
    intro bs bl h
    simp only [parseBlocks] at h
    split at h
    · cases h
    · cases hb : parseBlock bs with
      | none => rw [hb] at h; cases h
      | some b =>
        rw [hb] at h
        simp only at h
        cases hr : parseBlocks n (bs.drop 24) with
        | error e => rw [hr] at h; cases h
        | ok r =>
          rw [hr] at h
          simp only [Except.ok.injEq] at h; subst h
          simp only [List.map_cons, parseBlock_range hb, ih _ _ hr]

/-- the fields of a PARSED packet that the canonical form could change are already canonical for every
type except the three lossy ones (NACK order, BYE reason, REMB bitrate) -/
def CanonFixed (p : Rtcp) : Prop :=
  match p with
  | .nack .. => True
  | .bye .. => True
  | .remb .. => True
  | p => canon p = p

theorem parseOne_canonFixed {pt fmt : Nat} {body : Bytes} {q : Rtcp} (h : parseOne pt fmt body = .ok (some q)) : CanonFixed q := by
  unfold parseOne at h
  by_cases h1 : pt = c15RtcpSr
  · rw [if_pos h1] at h
    have h' := map_some_inv h
    unfold parseSr at h'
    split at h'
    · split at h'
      · cases h'
      · next bl hbl => injection h' with h'; subst h'; simp only [CanonFixed, canon, parseBlocks_range _ _ _ hbl]
    · cases h'
  · rw [if_neg h1] at h
    by_cases h2 : pt = c15RtcpRr
    · rw [if_pos h2] at h
      have h' := map_some_inv h
      unfold parseRr at h'
      split at h'
      · split at h'
        · cases h'
        · next bl hbl => injection h' with h'; subst h'; simp only [CanonFixed, canon, parseBlocks_range _ _ _ hbl]
      · cases h'
    · rw [if_neg h2] at h
      by_cases h3 : pt = c15RtcpSdes
      · rw [if_pos h3] at h
        have h' := map_some_inv h
        unfold parseSdes at h'
        split at h'
        · cases h'
        · injection h' with h'; subst h'; rfl
      · rw [if_neg h3] at h
        by_cases h4 : pt = c15RtcpBye
        · rw [if_pos h4] at h; obtain ⟨_, _, rfl⟩ := parseBye_shape (map_some_inv h); trivial
        · rw [if_neg h4] at h
          by_cases h5 : pt = c15RtcpRtpfb
          · rw [if_pos h5] at h
            by_cases f1 : fmt = c15FmtNack
            · rw [if_pos f1] at h; obtain ⟨_, _, _, rfl⟩ := parseNack_shape (map_some_inv h); trivial
            · rw [if_neg f1] at h
              by_cases f2 : fmt = c15FmtTwcc
              · rw [if_pos f2] at h; obtain ⟨_, _, _, _, _, _, _, rfl⟩ := parseTwcc_shape (map_some_inv h); rfl
              · rw [if_neg f2] at h; cases h
          · rw [if_neg h5] at h
            by_cases h6 : pt = c15RtcpPsfb
            · rw [if_pos h6] at h
              by_cases f1 : fmt = c15FmtPli
              · rw [if_pos f1] at h; obtain ⟨_, _, rfl⟩ := parsePli_shape (map_some_inv h); rfl
              · rw [if_neg f1] at h
                by_cases f2 : fmt = c15FmtFir
                · rw [if_pos f2] at h; obtain ⟨_, _, rfl⟩ := parseFir_shape (map_some_inv h); rfl
                · rw [if_neg f2] at h
                  by_cases f3 : fmt = c15FmtApp
                  · rw [if_pos f3] at h; obtain ⟨_, _, _, rfl, _⟩ := parseRemb_dom (map_some_inv h); trivial
                  · rw [if_neg f3] at h; cases h
            · rw [if_neg h6] at h; cases h

theorem parseCompound_canonFixed (bs : Bytes) (ps : List Rtcp) (h : parseCompound bs = .ok ps) : ∀ p ∈ ps, CanonFixed p :=
  parseCompound_forall CanonFixed (fun _ _ _ _ => parseOne_canonFixed) _ bs ps rfl h

end RtcModel.C15
