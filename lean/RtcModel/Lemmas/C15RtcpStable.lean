/- C15 — what the RTCP parser returns is a value the Rust types can hold (`Dom`), so a parsed compound
packet that the marshaller accepts again comes back in canonical form. Core Lean only. -/
import RtcModel.Lemmas.C15Rtcp

namespace RtcModel.C15
open RtcModel.Generated

theorem map_some_inv {α : Type} {r : Except Err α} {q : α} (h : r.map some = .ok (some q)) : r = .ok q := by
  cases r with
  | error e => cases h
  | ok a => simp only [Except.map, Except.ok.injEq, Option.some.injEq] at h; rw [h]

theorem parseSr_shape {fmt : Nat} {b : Bytes} {q : Rtcp} (h : parseSr fmt b = .ok q) : ∃ s m l t p o bl, q = .sr s m l t p o bl := by
  unfold parseSr at h
  split at h
  · split at h
    · cases h
    · injection h with h; exact ⟨_, _, _, _, _, _, _, h.symm⟩
  · cases h

theorem parseRr_shape {fmt : Nat} {b : Bytes} {q : Rtcp} (h : parseRr fmt b = .ok q) : ∃ s bl, q = .rr s bl := by
  unfold parseRr at h
  split at h
  · split at h
    · cases h
    · injection h with h; exact ⟨_, _, h.symm⟩
  · cases h

theorem parseBye_shape {fmt : Nat} {b : Bytes} {q : Rtcp} (h : parseBye fmt b = .ok q) : ∃ ss r, q = .bye ss r := by
  unfold parseBye at h
  split at h
  · cases h
  · simp only at h
    split at h
    · injection h with h; exact ⟨_, _, h.symm⟩
    · split at h
      · cases h
      · injection h with h; exact ⟨_, _, h.symm⟩

theorem parseBye_dom {fmt : Nat} {b : Bytes} {q : Rtcp} (h : parseBye fmt b = .ok q) :
    ∃ ss r, q = .bye ss r ∧ ∀ x, r = some x → utf8Valid x = true := by
  unfold parseBye at h
  split at h
  · cases h
  · simp only at h
    split at h
    · injection h with h; exact ⟨_, _, h.symm, fun x hx => by cases hx⟩
    · split at h
      · cases h
      · injection h with h
        exact ⟨_, _, h.symm, fun x hx => by injection hx with hx; subst hx; exact utf8Valid_lossy _ _ rfl⟩

theorem rd32_0_lt (a b c : UInt8) : (rd32 0 a b c).toNat < 16777216 := by
  have := a.toNat_lt; have := b.toNat_lt; have := c.toNat_lt
  simp only [rd32, UInt32.toNat_ofNat']
  have h0 : (0 : UInt8).toNat = 0 := rfl
  rw [h0]
  have : (0 * 16777216 + a.toNat * 65536 + b.toNat * 256 + c.toNat) % 2 ^ 32 = a.toNat * 65536 + b.toNat * 256 + c.toNat := by omega
  omega

theorem parseNack_shape {b : Bytes} {q : Rtcp} (h : parseNack b = .ok q) : ∃ s m l, q = .nack s m l := by
  unfold parseNack at h
  split at h
  · injection h with h; exact ⟨_, _, _, h.symm⟩
  · cases h

theorem parseTwcc_shape {b : Bytes} {q : Rtcp} (h : parseTwcc b = .ok q) :
    ∃ s m b c r f pl, q = .twcc s m b c r f pl ∧ r.toNat < 16777216 := by
  unfold parseTwcc at h
  split at h
  · injection h with h; exact ⟨_, _, _, _, _, _, _, h.symm, rd32_0_lt _ _ _⟩
  · cases h

theorem parsePli_shape {b : Bytes} {q : Rtcp} (h : parsePli b = .ok q) : ∃ s m, q = .pli s m := by
  unfold parsePli at h
  split at h
  · injection h with h; exact ⟨_, _, h.symm⟩
  · cases h

theorem parseFir_shape {b : Bytes} {q : Rtcp} (h : parseFir b = .ok q) : ∃ s rq, q = .fir s rq := by
  unfold parseFir at h
  split at h
  · injection h with h; exact ⟨_, _, h.symm⟩
  · cases h

theorem parseRemb_dom {b : Bytes} {q : Rtcp} (h : parseRemb b = .ok q) :
    ∃ s br ss, q = .remb s br ss ∧ br < 2 ^ 64 ∧ ∃ m e, m < 2 ^ 18 ∧ e < 64 ∧ br = m * 2 ^ e % 2 ^ 64 := by
  unfold parseRemb at h
  split at h
  · next s0 s1 s2 s3 _ _ _ _ r e m b n x y z rest =>
    split at h
    · cases h
    · split at h
      · cases h
      · injection h with h
        refine ⟨_, _, _, h.symm, Nat.mod_lt _ (by decide), (x.toNat % 4) * 65536 + y.toNat * 256 + z.toNat, x.toNat / 4, ?_, ?_, rfl⟩
        · have := y.toNat_lt; have := z.toNat_lt; omega
        · have := x.toNat_lt; omega
  · cases h

theorem sdesItems_dom : ∀ (n : Nat) (off : Nat) (bs : Bytes) (its : List SdesItem) (o : Nat) (r : Bytes), bs.length = n →
    sdesItems off bs = .ok (its, o, r) → ∀ i ∈ its, utf8Valid i.text = true := by
  intro n
  induction n using Nat.strongRecOn with
  | ind n ih =>
    intro off bs its o r hn h
    rw [sdesItems.eq_def] at h
    match bs, hn, h with
    | [], _, h => simp only [Except.ok.injEq, Prod.mk.injEq] at h; obtain ⟨rfl, _⟩ := h; intro i hi; cases hi
    | ty :: rest, hn, h =>
      simp only at h
      by_cases h0 : ty = 0
      · rw [if_pos h0] at h
        simp only [Except.ok.injEq, Prod.mk.injEq] at h; obtain ⟨rfl, _⟩ := h; intro i hi; cases hi
      · rw [if_neg h0] at h
        match rest, hn, h with
        | [], _, h => cases h
        | l :: rest2, hn, h =>
          simp only at h
          by_cases hl : rest2.length < l.toNat
          · rw [if_pos hl] at h; cases h
          · rw [if_neg hl] at h
            cases hrec : sdesItems (off + 2 + l.toNat) (rest2.drop l.toNat) with
            | error e => rw [hrec] at h; cases h
            | ok v =>
              obtain ⟨its', o', r'⟩ := v
              rw [hrec] at h
              simp only [Except.ok.injEq, Prod.mk.injEq] at h
              obtain ⟨rfl, _, _⟩ := h
              intro i hi
              rcases List.mem_cons.mp hi with rfl | hi
              · exact utf8Valid_lossy _ _ rfl
              · exact ih (rest2.drop l.toNat).length (by simp at hn ⊢; omega) _ _ _ _ _ rfl hrec i hi

theorem sdesChunks_dom : ∀ (n off : Nat) (bs : Bytes) (cs : List SdesChunk), sdesChunks n off bs = .ok cs →
    ∀ c ∈ cs, ∀ i ∈ c.items, utf8Valid i.text = true := by
  intro n
  induction n with
  | zero => intro off bs cs h; simp only [sdesChunks, Except.ok.injEq] at h; subst h; intro c hc; cases hc
  | succ n ih =>
    intro off bs cs h
    unfold sdesChunks at h
    split at h
    · next s0 s1 s2 s3 rest =>
      cases hit : sdesItems (off + 4) rest with
      | error e => rw [hit] at h; cases h
      | ok v =>
        obtain ⟨its, o, r⟩ := v
        rw [hit] at h
        simp only at h
        cases hrec : sdesChunks n o r with
        | error e => rw [hrec] at h; cases h
        | ok cs' =>
          rw [hrec] at h
          simp only [Except.ok.injEq] at h
          subst h
          intro c hc
          rcases List.mem_cons.mp hc with rfl | hc
          · exact sdesItems_dom _ _ _ _ _ _ rfl hit
          · exact ih _ _ _ hrec c hc
    · cases h

theorem parseSdes_dom {fmt : Nat} {b : Bytes} {q : Rtcp} (h : parseSdes fmt b = .ok q) : Dom q := by
  unfold parseSdes at h
  cases hc : sdesChunks fmt 0 b with
  | error e => rw [hc] at h; cases h
  | ok cs =>
    rw [hc] at h
    injection h with h; subst h
    exact sdesChunks_dom _ _ _ _ hc

theorem parseOne_dom {pt fmt : Nat} {body : Bytes} {q : Rtcp} (h : parseOne pt fmt body = .ok (some q)) : Dom q := by
  unfold parseOne at h
  by_cases h1 : pt = c15RtcpSr
  · rw [if_pos h1] at h; obtain ⟨_, _, _, _, _, _, _, rfl⟩ := parseSr_shape (map_some_inv h); trivial
  · rw [if_neg h1] at h
    by_cases h2 : pt = c15RtcpRr
    · rw [if_pos h2] at h; obtain ⟨_, _, rfl⟩ := parseRr_shape (map_some_inv h); trivial
    · rw [if_neg h2] at h
      by_cases h3 : pt = c15RtcpSdes
      · rw [if_pos h3] at h; exact parseSdes_dom (map_some_inv h)
      · rw [if_neg h3] at h
        by_cases h4 : pt = c15RtcpBye
        · rw [if_pos h4] at h; obtain ⟨_, _, rfl, hv⟩ := parseBye_dom (map_some_inv h); exact hv
        · rw [if_neg h4] at h
          by_cases h5 : pt = c15RtcpRtpfb
          · rw [if_pos h5] at h
            by_cases f1 : fmt = c15FmtNack
            · rw [if_pos f1] at h; obtain ⟨_, _, _, rfl⟩ := parseNack_shape (map_some_inv h); trivial
            · rw [if_neg f1] at h
              by_cases f2 : fmt = c15FmtTwcc
              · rw [if_pos f2] at h; obtain ⟨_, _, _, _, _, _, _, rfl, _⟩ := parseTwcc_shape (map_some_inv h); trivial
              · rw [if_neg f2] at h; cases h
          · rw [if_neg h5] at h
            by_cases h6 : pt = c15RtcpPsfb
            · rw [if_pos h6] at h
              by_cases f1 : fmt = c15FmtPli
              · rw [if_pos f1] at h; obtain ⟨_, _, rfl⟩ := parsePli_shape (map_some_inv h); trivial
              · rw [if_neg f1] at h
                by_cases f2 : fmt = c15FmtFir
                · rw [if_pos f2] at h; obtain ⟨_, _, rfl⟩ := parseFir_shape (map_some_inv h); trivial
                · rw [if_neg f2] at h
                  by_cases f3 : fmt = c15FmtApp
                  · rw [if_pos f3] at h; obtain ⟨_, _, _, rfl, hb, _⟩ := parseRemb_dom (map_some_inv h); exact hb
                  · rw [if_neg f3] at h; cases h
            · rw [if_neg h6] at h; cases h

/-- every packet `parse_rtcp_packets` returns was produced by one call of the per-type parser -/
theorem parseCompound_forall (P : Rtcp → Prop)
    (hP : ∀ (pt fmt : Nat) (body : Bytes) (q : Rtcp), parseOne pt fmt body = .ok (some q) → P q) :
    ∀ (n : Nat) (bs : Bytes) (ps : List Rtcp), bs.length = n → parseCompound bs = .ok ps → ∀ p ∈ ps, P p := by
  intro n
  induction n using Nat.strongRecOn with
  | ind n ih =>
    intro bs ps hn h
    rw [parseCompound.eq_def] at h
    match bs, hn, h with
    | vrc :: pt :: l0 :: l1 :: rest, hn, h =>
      simp only at h
      by_cases hv : vrc.toNat / 64 ≠ c15RtpVersion
      · rw [if_pos hv] at h; cases h
      · rw [if_neg hv] at h
        by_cases hl : rest.length < (rd16 l0 l1).toNat * 4
        · rw [if_pos hl] at h; cases h
        · rw [if_neg hl] at h
          generalize hpad : (if (vrc.toNat / 32 % 2 == 1) = true then
            ((List.take ((rd16 l0 l1).toNat * 4) rest).getLast?.getD l1).toNat else 0) = pad at h
          generalize hbody : List.take ((rd16 l0 l1).toNat * 4 - pad) (List.take ((rd16 l0 l1).toNat * 4) rest) = body at h
          by_cases hc : (vrc.toNat / 32 % 2 == 1 && (decide (pad = 0) || decide (pad > (rd16 l0 l1).toNat * 4))) = true
          · rw [if_pos hc] at h; cases h
          · rw [if_neg hc] at h
            cases ho : parseOne pt.toNat (vrc.toNat % 32) body with
              | error e => rw [ho] at h; cases h
              | ok o =>
                rw [ho] at h
                simp only at h
                cases hrec : parseCompound (rest.drop ((rd16 l0 l1).toNat * 4)) with
                | error e => rw [hrec] at h; cases h
                | ok ps' =>
                  rw [hrec] at h
                  simp only [Except.ok.injEq] at h
                  have hlt : (rest.drop ((rd16 l0 l1).toNat * 4)).length < n := by simp at hn ⊢; omega
                  have hps' := ih _ hlt _ _ rfl hrec
                  cases o with
                  | none => subst h; exact hps'
                  | some q =>
                    subst h
                    intro p hp
                    rcases List.mem_cons.mp hp with rfl | hp
                    · exact hP _ _ _ _ ho
                    · exact hps' p hp
    | [], _, h => simp only [Except.ok.injEq] at h; subst h; intro p hp; cases hp
    | [_], _, h => simp only [Except.ok.injEq] at h; subst h; intro p hp; cases hp
    | [_, _], _, h => simp only [Except.ok.injEq] at h; subst h; intro p hp; cases hp
    | [_, _, _], _, h => simp only [Except.ok.injEq] at h; subst h; intro p hp; cases hp

/-- every packet `parse_rtcp_packets` returns is a value the Rust types can hold -/
theorem parseCompound_dom (bs : Bytes) (ps : List Rtcp) (h : parseCompound bs = .ok ps) : ∀ p ∈ ps, Dom p :=
  parseCompound_forall Dom (fun _ _ _ _ => parseOne_dom) _ bs ps rfl h

theorem rd24n_lt (a b c : UInt8) : rd24n a b c < 16777216 := by
  have := a.toNat_lt; have := b.toNat_lt; have := c.toNat_lt
  simp only [rd24n]; omega

theorem parseBlock_range {bs : Bytes} {b : ReportBlock} (h : parseBlock bs = some b) : canonBlock b = b := by
  unfold parseBlock at h
  split at h
  · next s0 s1 s2 s3 fl l0 l1 l2 _ _ _ _ _ _ _ _ _ _ _ _ _ _ _ _ _ =>
    injection h with h; subst h
    have hv := rd24n_lt l0 l1 l2
    generalize rd24n l0 l1 l2 = v at hv
    apply canonBlock_of_range <;> simp only <;> by_cases hge : v ≥ 8388608 <;> simp only [hge, if_true, if_false] <;> omega
  · cases h

theorem parseBlocks_range : ∀ (n : Nat) (bs : Bytes) (bl : List ReportBlock), parseBlocks n bs = .ok bl → bl.map canonBlock = bl := by
  intro n
  induction n with
  | zero => intro bs bl h; simp only [parseBlocks, Except.ok.injEq] at h; subst h; rfl
  | succ n ih =>
    intro bs bl h
    simp only [parseBlocks] at h
    split at h
    · cases h
    · cases hb : parseBlock bs with
      | none => rw [hb] at h; cases h
      | some b =>
        rw [hb] at h
        simp only at h
        cases hr : parseBlocks n (bs.drop 24) with
        | error e => rw [hr] at h; cases h
        | ok r =>
          rw [hr] at h
          simp only [Except.ok.injEq] at h; subst h
          simp only [List.map_cons, parseBlock_range hb, ih _ _ hr]

/-- What holds of a PARSED packet with respect to the canonical form: it is a fixed point for SR, RR, SDES,
PLI, FIR, TWCC; a NACK list is a fixed point as a set (the wire enumerates it in packed order); a BYE is a
fixed point unless `from_utf8_lossy` expanded the reason beyond the 255 bytes the length octet can count;
a REMB bitrate is `mantissa · 2^exp mod 2^64` of an 18-bit mantissa and a 6-bit exponent and a fixed point
unless that product overflowed the `u64`. -/
def CanonFixed (p : Rtcp) : Prop :=
  match p with
  | .nack _ _ lost => ∀ x, x ∈ unpackNack (packNack lost) ↔ x ∈ lost
  | .bye _ r => (∀ x, r = some x → x.length ≤ 255) → canon p = p
  | .remb _ br _ => ∃ m e, m < 2 ^ 18 ∧ e < 64 ∧ br = m * 2 ^ e % 2 ^ 64 ∧ (m * 2 ^ e < 2 ^ 64 → canon p = p)
  | p => canon p = p

theorem parseOne_canonFixed {pt fmt : Nat} {body : Bytes} {q : Rtcp} (h : parseOne pt fmt body = .ok (some q)) : CanonFixed q := by
  unfold parseOne at h
  by_cases h1 : pt = c15RtcpSr
  · rw [if_pos h1] at h
    have h' := map_some_inv h
    unfold parseSr at h'
    split at h'
    · split at h'
      · cases h'
      · next bl hbl => injection h' with h'; subst h'; simp only [CanonFixed, canon, parseBlocks_range _ _ _ hbl]
    · cases h'
  · rw [if_neg h1] at h
    by_cases h2 : pt = c15RtcpRr
    · rw [if_pos h2] at h
      have h' := map_some_inv h
      unfold parseRr at h'
      split at h'
      · split at h'
        · cases h'
        · next bl hbl => injection h' with h'; subst h'; simp only [CanonFixed, canon, parseBlocks_range _ _ _ hbl]
      · cases h'
    · rw [if_neg h2] at h
      by_cases h3 : pt = c15RtcpSdes
      · rw [if_pos h3] at h
        have h' := map_some_inv h
        unfold parseSdes at h'
        split at h'
        · cases h'
        · injection h' with h'; subst h'; rfl
      · rw [if_neg h3] at h
        by_cases h4 : pt = c15RtcpBye
        · rw [if_pos h4] at h
          obtain ⟨ss, r, rfl⟩ := parseBye_shape (map_some_inv h)
          intro hlen
          cases r with
          | none => rfl
          | some x =>
            have := hlen x rfl
            simp only [canon, byeCanonReason, c15ByeMaxReason_eq]
            rw [Nat.min_eq_left this, byeCut_full, List.take_length]
        · rw [if_neg h4] at h
          by_cases h5 : pt = c15RtcpRtpfb
          · rw [if_pos h5] at h
            by_cases f1 : fmt = c15FmtNack
            · rw [if_pos f1] at h; obtain ⟨_, _, lost, rfl⟩ := parseNack_shape (map_some_inv h)
              intro x; unfold packNack; rw [mem_unpack_packSorted x _ _ rfl, mem_sortDedup]
            · rw [if_neg f1] at h
              by_cases f2 : fmt = c15FmtTwcc
              · rw [if_pos f2] at h; obtain ⟨_, _, _, _, r, _, _, rfl, hr⟩ := parseTwcc_shape (map_some_inv h)
                have : UInt32.ofNat (r.toNat % 16777216) = r := by rw [Nat.mod_eq_of_lt hr]; simp
                simp only [CanonFixed, canon, this]
              · rw [if_neg f2] at h; cases h
          · rw [if_neg h5] at h
            by_cases h6 : pt = c15RtcpPsfb
            · rw [if_pos h6] at h
              by_cases f1 : fmt = c15FmtPli
              · rw [if_pos f1] at h; obtain ⟨_, _, rfl⟩ := parsePli_shape (map_some_inv h); rfl
              · rw [if_neg f1] at h
                by_cases f2 : fmt = c15FmtFir
                · rw [if_pos f2] at h; obtain ⟨_, _, rfl⟩ := parseFir_shape (map_some_inv h); rfl
                · rw [if_neg f2] at h
                  by_cases f3 : fmt = c15FmtApp
                  · rw [if_pos f3] at h; obtain ⟨_, _, _, rfl, _, m, e, hm, he, rfl⟩ := parseRemb_dom (map_some_inv h)
                    refine ⟨m, e, hm, he, rfl, fun hv => ?_⟩
                    simp only [canon, Nat.mod_eq_of_lt hv, rembCanon_wire m e (by omega) hv]
                  · rw [if_neg f3] at h; cases h
            · rw [if_neg h6] at h; cases h

theorem parseCompound_canonFixed (bs : Bytes) (ps : List Rtcp) (h : parseCompound bs = .ok ps) : ∀ p ∈ ps, CanonFixed p :=
  parseCompound_forall CanonFixed (fun _ _ _ _ => parseOne_canonFixed) _ bs ps rfl h

end RtcModel.C15
