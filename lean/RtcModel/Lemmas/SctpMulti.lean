/-
Helper lemmas for C12: unordered channels, many channels (frame properties of
`process_data_payload`), whole workloads over several channels.
-/
import RtcModel.Lemmas.SctpFrag

namespace RtcModel.Sctp
open RtcModel.Generated

/-! ### flag bits of the fragments of an unordered message (`flags_base = 0x04`) -/

theorem bBit_frag4 (c : DChunk) (first last : Bool) (h : c.flags = fragFlags 4 first last) : c.bBit = first := by
  cases first <;> cases last <;> simp [DChunk.bBit, h, fragFlags] <;> decide
theorem eBit_frag4 (c : DChunk) (first last : Bool) (h : c.flags = fragFlags 4 first last) : c.eBit = last := by
  cases first <;> cases last <;> simp [DChunk.eBit, h, fragFlags] <;> decide
theorem uBit_frag4 (c : DChunk) (first last : Bool) (h : c.flags = fragFlags 4 first last) : c.uBit = true := by
  cases first <;> cases last <;> simp [DChunk.uBit, h, fragFlags] <;> decide

theorem flags7 (c : DChunk) (h : c.flags = (4 : UInt8) ||| 0x03) : c.bBit = true ∧ c.eBit = true ∧ c.uBit = true := by
  simp [DChunk.bBit, DChunk.eBit, DChunk.uBit, h]; decide

/-- fragments of one message on an unordered channel (any SSN value on the wire) -/
theorem fragRunU (mps : Nat) (hmps : 0 < mps) (sid : UInt16) (ppid : UInt32) (ssn : UInt16) :
    ∀ (fuel : Nat) (first : Bool) (rest : Bytes) (pl : Pl) (dc : Chan) (t : UInt32),
      rest ≠ [] → rest.length ≤ fuel →
      findChan pl.chans sid = some dc → dc.state = 1 → (first = false → dc.reasm ≠ []) →
      ∃ pl', pl' = plRun procDataP pl (assignTsn t ((fragGo mps 4 fuel first rest).map (fragChunk sid ppid ssn))) ∧
        findChan pl'.chans sid = some (dc.delivered ((if first then [] else dc.reasm) ++ rest)) ∧
        pl'.streams = pl.streams := by
  intro fuel
  induction fuel with
  | zero =>
    intro first rest pl dc t hne hl
    exact absurd (List.eq_nil_of_length_eq_zero (by omega)) hne
  | succ f ih =>
    intro first rest pl dc t hne hl hfind hst hre
    have hemp : rest.isEmpty = false := by
      cases rest with
      | nil => exact absurd rfl hne
      | cons _ _ => rfl
    have hid := findChan_id _ _ _ hfind
    have hdrop0 : ∀ b : Bool, b = first → (!b && dc.reasm.isEmpty) = false := by
      intro b hb
      cases first with
      | true => simp [hb]
      | false =>
        have := hre rfl
        cases hr : dc.reasm with
        | nil => exact absurd hr this
        | cons _ _ => simp [hb]
    by_cases hlast : min rest.length mps ≥ rest.length
    · have hn : min rest.length mps = rest.length := by omega
      simp only [fragGo, hemp, hn, List.take_length, List.drop_length, fragGo_nil, ge_iff_le, Nat.le_refl,
        decide_true, List.map_cons, List.map_nil, assignTsn, plRun_cons, plRun_nil, Bool.false_eq_true, if_false]
      refine ⟨_, rfl, ?_⟩
      have hb := bBit_frag4 { tsn := t, flags := fragFlags 4 first true, sid := sid, ssn := ssn, ppid := ppid, data := rest } first true rfl
      have he := eBit_frag4 { tsn := t, flags := fragFlags 4 first true, sid := sid, ssn := ssn, ppid := ppid, data := rest } first true rfl
      have hu := uBit_frag4 { tsn := t, flags := fragFlags 4 first true, sid := sid, ssn := ssn, ppid := ppid, data := rest } first true rfl
      simp only [procDataP, procData, fragChunk, hfind, deliverTo_open _ dc _ hst, deliverTo', hb, hdrop0 first rfl, he, hu,
        Bool.true_or, Bool.false_eq_true, if_false, if_true]
      constructor
      · rw [findChan_setChan_same _ _ _ _ hfind (by simp [Chan.emit, hid])]
        cases first <;> simp [Chan.emit, Chan.delivered]
      · trivial
    · have hn : min rest.length mps = mps := by omega
      have hlt : mps < rest.length := by omega
      have hdec : decide (rest.length ≤ mps) = false := by simp; omega
      simp only [fragGo, hemp, hn, ge_iff_le, hdec, List.map_cons, assignTsn, plRun_cons, Bool.false_eq_true, if_false]
      have hb := bBit_frag4 { tsn := t, flags := fragFlags 4 first false, sid := sid, ssn := ssn, ppid := ppid, data := rest.take mps } first false rfl
      have he := eBit_frag4 { tsn := t, flags := fragFlags 4 first false, sid := sid, ssn := ssn, ppid := ppid, data := rest.take mps } first false rfl
      let dc1 : Chan := { dc with reasm := (if first then [] else dc.reasm) ++ rest.take mps }
      have hstep : (procDataP pl { tsn := t, flags := fragFlags 4 first false, sid := sid, ssn := ssn, ppid := ppid, data := rest.take mps }).1 = { pl with chans := setChan pl.chans dc1 } := by
        simp only [procDataP, procData, hfind, deliverTo_open _ dc _ hst, deliverTo', hb, hdrop0 first rfl, he, Bool.false_eq_true, if_false, dc1]
      have hfind1 : findChan (setChan pl.chans dc1) sid = some dc1 :=
        findChan_setChan_same _ _ _ _ hfind (by simp [dc1, hid])
      have hdrop : rest.drop mps ≠ [] := by
        intro h
        have := congrArg List.length h
        simp at this; omega
      have htk : rest.take mps ≠ [] := by
        cases rest with
        | nil => exact absurd rfl hne
        | cons r rs => cases mps with
          | zero => omega
          | succ m => simp
      obtain ⟨pl', hpl', h1, h2⟩ := ih false (rest.drop mps) { pl with chans := setChan pl.chans dc1 } dc1 (t + 1)
        hdrop (by simp; omega) hfind1 hst (by intro _; simp only [dc1]; exact List.append_ne_nil_of_right_ne_nil _ htk)
      refine ⟨pl', ?_, ?_, h2⟩
      · rw [hpl']
        simp only [fragChunk] at hstep ⊢
        rw [hstep]
      · rw [h1]
        simp [dc1, Chan.delivered, List.append_assoc]

/-- one whole message on an unordered channel -/
theorem msgRunU (mps : Nat) (hmps : 0 < mps) (sid : UInt16) (ppid : UInt32) (ssn : UInt16) (m : Bytes)
    (pl : Pl) (dc : Chan) (t : UInt32)
    (hfind : findChan pl.chans sid = some dc) (hst : dc.state = 1) :
    ∃ pl', pl' = plRun procDataP pl (assignTsn t ((fragMsg mps 4 m).map (fragChunk sid ppid ssn))) ∧
      findChan pl'.chans sid = some (dc.delivered m) ∧ pl'.streams = pl.streams := by
  by_cases hm : m = []
  · subst hm
    have hid := findChan_id _ _ _ hfind
    obtain ⟨hb, he, hu⟩ := flags7 { tsn := t, flags := (4 : UInt8) ||| 0x03, sid := sid, ssn := ssn, ppid := ppid, data := [] } rfl
    refine ⟨_, rfl, ?_⟩
    simp only [fragMsg, List.isEmpty_nil, if_true, List.map_cons, List.map_nil, assignTsn, plRun_cons, plRun_nil,
      procDataP, procData, fragChunk, hfind, deliverTo_open _ dc _ hst, deliverTo', hb, he, hu, Bool.true_or,
      Bool.not_true, Bool.false_and, Bool.false_eq_true, if_false, if_true]
    constructor
    · rw [findChan_setChan_same _ _ _ _ hfind (by simp [Chan.emit, hid])]
      simp [Chan.emit, Chan.delivered]
    · trivial
  · have hemp : m.isEmpty = false := by
      cases m with
      | nil => exact absurd rfl hm
      | cons _ _ => rfl
    obtain ⟨pl', h1, h2, h3⟩ := fragRunU mps hmps sid ppid ssn m.length true m pl dc t hm (Nat.le_refl _) hfind hst (by simp)
    refine ⟨pl', ?_, ?_, h3⟩
    · simp only [fragMsg, hemp, Bool.false_eq_true, if_false]; exact h1
    · simpa using h2

/-! ### frame: a chunk only touches its own channel and stream -/

theorem getStream_setStream_other (ss : List (UInt16 × InStream)) (sid sid' : UInt16) (s : InStream) (h : sid' ≠ sid) :
    getStream (setStream ss sid s) sid' = getStream ss sid' := by
  have h1 : (sid == sid') = false := by simp [Ne.symm h]
  simp only [getStream, setStream, List.find?_cons, h1]
  congr 1
  induction ss with
  | nil => rfl
  | cons e rest ih =>
    by_cases he : (e.1 != sid) = true
    · simp only [List.filter_cons, he, if_true, List.find?_cons]
      by_cases h2 : (e.1 == sid') = true
      · simp [h2]
      · have h2' := Bool.eq_false_iff.mpr h2
        simp only [h2']; exact ih
    · have he' : (e.1 != sid) = false := Bool.eq_false_iff.mpr he
      have heq : e.1 = sid := by simpa using he'
      have h3 : (e.1 == sid') = false := by simp [heq, Ne.symm h]
      simp only [List.filter_cons, he', Bool.false_eq_true, if_false, List.find?_cons, h3]
      exact ih

theorem deliverTo'_streams (pl : Pl) (d : Chan) (c : DChunk) (sid' : UInt16) (h : sid' ≠ c.sid) :
    getStream (deliverTo' pl d c).streams sid' = getStream pl.streams sid' := by
  unfold deliverTo'
  simp only []
  split
  · rfl
  · split
    · split
      · rfl
      · exact getStream_setStream_other _ _ _ _ h
    · rfl

theorem procData_frame (pl : Pl) (c : DChunk) (sid' : UInt16) (h : sid' ≠ c.sid) :
    findChan (procData pl c).chans sid' = findChan pl.chans sid' ∧
    getStream (procData pl c).streams sid' = getStream pl.streams sid' := by
  unfold procData
  cases hf : findChan pl.chans c.sid with
  | none => exact ⟨rfl, rfl⟩
  | some d =>
    simp only []
    have hdid := findChan_id _ _ _ hf
    refine ⟨?_, ?_⟩
    · cases deliverTo_chans pl d c with
      | inl h0 => rw [h0]
      | inr h1' =>
        obtain ⟨d', h1, h2, _⟩ := h1'
        rw [h1]; exact findChan_setChan_other _ _ _ (by rw [h2, hdid]; exact Ne.symm h)
    · unfold deliverTo
      split <;> exact deliverTo'_streams _ _ _ _ h

theorem plRun_frame (cs : List DChunk) (sid sid' : UInt16) (hs : ∀ c ∈ cs, c.sid = sid) (h : sid' ≠ sid) :
    ∀ pl, findChan (plRun procDataP pl cs).chans sid' = findChan pl.chans sid' ∧
      getStream (plRun procDataP pl cs).streams sid' = getStream pl.streams sid' := by
  induction cs with
  | nil => intro pl; exact ⟨rfl, rfl⟩
  | cons c rest ih =>
    intro pl
    have hc : sid' ≠ c.sid := by rw [hs c (by simp)]; exact h
    obtain ⟨a, b⟩ := procData_frame pl c sid' hc
    obtain ⟨a', b'⟩ := ih (fun c' hc' => hs c' (by simp [hc'])) (procData pl c)
    exact ⟨a'.trans a, b'.trans b⟩


/-! ### workloads over several channels -/

/-- submissions `(channel, message)` in the order `send_data_raw` took the queue lock -/
def sendMany (cs : List TxChan) (ppid : UInt32) : List (UInt16 × Bytes) → List TxChan × List OChunk
  | [] => (cs, [])
  | s :: rest =>
    let r := sendDataRaw cs s.1 ppid s.2
    let r2 := sendMany r.1 ppid rest
    (r2.1, r.2 ++ r2.2)

theorem findTx_setTx_other (cs : List TxChan) (id : UInt16) (n : TxChan) (hn : n.id ≠ id) :
    findTx (setTx cs n) id = findTx cs id := by
  induction cs with
  | nil => rfl
  | cons c rest ih =>
    unfold findTx at ih ⊢
    unfold setTx
    by_cases h1 : (c.id == n.id) = true
    · have hcid : c.id = n.id := by simpa using h1
      have h2 : (c.id == id) = false := by simp [hcid, hn]
      have h3 : (n.id == id) = false := by simp [hn]
      rw [if_pos h1]
      simp only [List.find?_cons, h2, h3]
    · rw [if_neg h1]
      by_cases h2 : (c.id == id) = true
      · simp only [List.find?_cons, h2]
      · have h2' : (c.id == id) = false := Bool.eq_false_iff.mpr h2
        simp only [List.find?_cons, h2']
        exact ih

theorem assignTsn_sid (t : UInt32) (os : List OChunk) (sid : UInt16) (h : ∀ o ∈ os, o.sid = sid) :
    ∀ c ∈ assignTsn t os, c.sid = sid := by
  induction os generalizing t with
  | nil => intro c hc; simp [assignTsn] at hc
  | cons o rest ih =>
    intro c hc
    simp only [assignTsn, List.mem_cons] at hc
    cases hc with
    | inl h1 => subst h1; exact h o (by simp)
    | inr h1 => exact ih (t + 1) (fun o' ho' => h o' (by simp [ho'])) c h1

/-- `send_data_raw` on an unordered channel with a non-DCEP ppid: SSN 0, U flag, table unchanged -/
theorem sendDataRaw_unordered (cs : List TxChan) (sid : UInt16) (ppid : UInt32) (data : Bytes) (tc : TxChan)
    (hf : findTx cs sid = some tc) (ho : tc.ordered = false) (hp : ppid.toNat ≠ dcPpidDcep) :
    (sendDataRaw cs sid ppid data).1 = cs ∧
    ∀ t, assignTsn t (sendDataRaw cs sid ppid data).2 =
      assignTsn t ((fragMsg (min tc.maxPayload sctpMaxPayload) 4 data).map (fragChunk sid ppid 0)) := by
  have hb : (ppid.toNat == dcPpidDcep) = false := beq_eq_false_iff_ne.mpr hp
  simp only [sendDataRaw, hf, hb, ho, Bool.false_eq_true, if_false, if_true, Bool.not_false]
  refine ⟨trivial, ?_⟩
  intro t
  apply assignTsn_map_congr
  intro x
  simp [fragChunk]

/-- sender and receiver agree on every registered channel -/
def Sync (cs : List TxChan) (pl : Pl) : Prop :=
  ∀ sid tc, findTx cs sid = some tc → 0 < tc.maxPayload ∧
    ∃ dc, findChan pl.chans sid = some dc ∧ dc.ordered = tc.ordered ∧ dc.state = 1 ∧
      (tc.ordered = true → getStream pl.streams sid = ⟨tc.nextSsn, []⟩)

def msgsOn (subs : List (UInt16 × Bytes)) (sid : UInt16) : List ChanEv :=
  (subs.filter (fun s => s.1 == sid)).map (fun s => ChanEv.msg s.2)

/-- one submission: the target channel gets exactly that message, everything else is untouched,
and the two sides stay in sync -/
theorem submit_step (ppid : UInt32) (hp : ppid.toNat ≠ dcPpidDcep) (cs : List TxChan) (pl : Pl) (t : UInt32)
    (sid0 : UInt16) (m : Bytes) (hsync : Sync cs pl) (tc : TxChan) (hf : findTx cs sid0 = some tc) :
    Sync (sendDataRaw cs sid0 ppid m).1 (plRun procDataP pl (assignTsn t (sendDataRaw cs sid0 ppid m).2)) ∧
    ∀ sid dc0, findChan pl.chans sid = some dc0 →
      ∃ dc', findChan (plRun procDataP pl (assignTsn t (sendDataRaw cs sid0 ppid m).2)).chans sid = some dc' ∧
        dc'.events = dc0.events ++ (if sid0 == sid then [ChanEv.msg m] else []) := by
  obtain ⟨hmp, dc, hfind, hord, hst, hstr⟩ := hsync sid0 tc hf
  have hmps : 0 < min tc.maxPayload sctpMaxPayload := by simp; omega
  have htid := findTx_id _ _ _ hf
  have hcid := findChan_id _ _ _ hfind
  -- the chunks all carry sid0
  have hsids : ∀ base ssn, ∀ c ∈ assignTsn t ((fragMsg (min tc.maxPayload sctpMaxPayload) base m).map (fragChunk sid0 ppid ssn)), c.sid = sid0 := by
    intro base ssn
    apply assignTsn_sid
    intro o ho
    obtain ⟨f, _, rfl⟩ := List.mem_map.mp ho
    rfl
  by_cases ho : tc.ordered = true
  · obtain ⟨hs1, hs2⟩ := sendDataRaw_ordered cs sid0 ppid m tc hf ho hp
    obtain ⟨pl1, hpl1, hc1, hst1⟩ := msgRun _ hmps sid0 ppid tc.nextSsn m pl dc t hfind (by rw [hord]; exact ho) hst (hstr ho)
    rw [hs2 t, ← hpl1]
    have hfr := fun sid' (h : sid' ≠ sid0) => plRun_frame _ sid0 sid' (hsids 0 tc.nextSsn) h pl
    rw [← hpl1] at hfr
    constructor
    · intro sid tc' hf'
      by_cases hsid : sid = sid0
      · subst hsid
        rw [hs1, findTx_setTx_same _ _ _ _ hf (by simp [htid])] at hf'
        have := Option.some.inj hf'
        subst this
        exact ⟨hmp, dc.delivered m, hc1, by simpa [Chan.delivered] using hord, by simpa [Chan.delivered] using hst,
          fun _ => hst1⟩
      · rw [hs1, findTx_setTx_other _ _ _ (by simp [htid]; exact Ne.symm hsid)] at hf'
        obtain ⟨a, dc2, b1, b2, b3, b4⟩ := hsync sid tc' hf'
        exact ⟨a, dc2, by rw [(hfr sid hsid).1]; exact b1, b2, b3, fun h => by rw [(hfr sid hsid).2]; exact b4 h⟩
    · intro sid dc0 h0
      by_cases hsid : sid = sid0
      · subst hsid
        have : dc0 = dc := Option.some.inj (h0.symm.trans hfind)
        subst this
        exact ⟨dc0.delivered m, hc1, by simp [Chan.delivered]⟩
      · have : (sid0 == sid) = false := by simp [Ne.symm hsid]
        exact ⟨dc0, by rw [(hfr sid hsid).1]; exact h0, by simp [this]⟩
  · have ho' : tc.ordered = false := by simpa using ho
    obtain ⟨hs1, hs2⟩ := sendDataRaw_unordered cs sid0 ppid m tc hf ho' hp
    obtain ⟨pl1, hpl1, hc1, hst1⟩ := msgRunU _ hmps sid0 ppid 0 m pl dc t hfind hst
    rw [hs2 t, ← hpl1]
    have hfr := fun sid' (h : sid' ≠ sid0) => plRun_frame _ sid0 sid' (hsids 4 0) h pl
    rw [← hpl1] at hfr
    constructor
    · intro sid tc' hf'
      rw [hs1] at hf'
      by_cases hsid : sid = sid0
      · subst hsid
        have := Option.some.inj (hf'.symm.trans hf)
        subst this
        exact ⟨hmp, dc.delivered m, hc1, by simpa [Chan.delivered] using hord, by simpa [Chan.delivered] using hst,
          fun h => by rw [ho'] at h; exact absurd h (by simp)⟩
      · obtain ⟨a, dc2, b1, b2, b3, b4⟩ := hsync sid tc' hf'
        exact ⟨a, dc2, by rw [(hfr sid hsid).1]; exact b1, b2, b3, fun h => by rw [(hfr sid hsid).2]; exact b4 h⟩
    · intro sid dc0 h0
      by_cases hsid : sid = sid0
      · subst hsid
        have : dc0 = dc := Option.some.inj (h0.symm.trans hfind)
        subst this
        exact ⟨dc0.delivered m, hc1, by simp [Chan.delivered]⟩
      · have : (sid0 == sid) = false := by simp [Ne.symm hsid]
        exact ⟨dc0, by rw [(hfr sid hsid).1]; exact h0, by simp [this]⟩

/-- a whole multi-channel workload, processed in order: every channel gets exactly its own
messages, in submission order -/
theorem sendMany_run (ppid : UInt32) (hp : ppid.toNat ≠ dcPpidDcep) :
    ∀ (subs : List (UInt16 × Bytes)) (cs : List TxChan) (pl : Pl) (t : UInt32),
      Sync cs pl → (∀ s ∈ subs, ∃ tc, findTx cs s.1 = some tc) →
      ∀ sid dc0, findChan pl.chans sid = some dc0 →
        ∃ dc', findChan (plRun procDataP pl (assignTsn t (sendMany cs ppid subs).2)).chans sid = some dc' ∧
          dc'.events = dc0.events ++ msgsOn subs sid := by
  intro subs
  induction subs with
  | nil => intro cs pl t _ _ sid dc0 h; exact ⟨dc0, by simpa [sendMany, assignTsn] using h, by simp [msgsOn]⟩
  | cons s rest ih =>
    intro cs pl t hsync hreg sid dc0 h0
    obtain ⟨tc, hf⟩ := hreg s (by simp)
    obtain ⟨hsync1, hstep⟩ := submit_step ppid hp cs pl t s.1 s.2 hsync tc hf
    obtain ⟨dc1, h1, e1⟩ := hstep sid dc0 h0
    have hreg1 : ∀ s' ∈ rest, ∃ tc', findTx (sendDataRaw cs s.1 ppid s.2).1 s'.1 = some tc' := by
      intro s' hs'
      obtain ⟨tc', hf'⟩ := hreg s' (by simp [hs'])
      -- the table only ever changes `nextSsn` of an existing entry
      by_cases hto : tc.ordered = true
      · rw [(sendDataRaw_ordered cs s.1 ppid s.2 tc hf hto hp).1]
        by_cases he : s'.1 = s.1
        · rw [he]; exact ⟨_, findTx_setTx_same _ _ _ _ hf (by simp [findTx_id _ _ _ hf])⟩
        · rw [findTx_setTx_other _ _ _ (by simp [findTx_id _ _ _ hf]; exact Ne.symm he)]; exact ⟨tc', hf'⟩
      · rw [(sendDataRaw_unordered cs s.1 ppid s.2 tc hf (by simpa using hto) hp).1]; exact ⟨tc', hf'⟩
    obtain ⟨dc2, h2, e2⟩ := ih (sendDataRaw cs s.1 ppid s.2).1 _ (t + UInt32.ofNat (sendDataRaw cs s.1 ppid s.2).2.length)
      hsync1 hreg1 sid dc1 h1
    refine ⟨dc2, ?_, ?_⟩
    · simp only [sendMany]
      rw [assignTsn_append, plRun_append]
      exact h2
    · rw [e2, e1]
      simp only [msgsOn, List.filter_cons]
      by_cases hs : (s.1 == sid) = true
      · simp [hs]
      · have hs' : (s.1 == sid) = false := Bool.eq_false_iff.mpr hs
        simp [hs']

theorem sendMany_ppid (ppid : UInt32) (subs : List (UInt16 × Bytes)) :
    ∀ cs, ∀ o ∈ (sendMany cs ppid subs).2, o.ppid = ppid := by
  induction subs with
  | nil => intro cs o ho; simp [sendMany] at ho
  | cons s rest ih =>
    intro cs o ho
    simp only [sendMany, List.mem_append] at ho
    cases ho with
    | inl h => exact sendDataRaw_ppid cs s.1 ppid s.2 o h
    | inr h => exact ih _ o h


/-- TSN layer for any queued chunk list with a non-DCEP ppid: after any arrival history the payload
state is the one obtained by processing the first `k` chunks in order, once -/
theorem recv_any (os : List OChunk) (ppid : UInt32) (hp : ppid.toNat ≠ dcPpidDcep) (hpp : ∀ o ∈ os, o.ppid = ppid)
    (tsn0 : UInt32) (s0 : Rx) (hcum : s0.cum = tsn0 - 1) (hrq : s0.rq = [])
    (hlen : (assignTsn tsn0 os).length < 2147483648)
    (arr : List (Fin (assignTsn tsn0 os).length)) :
    ∃ k, k ≤ (assignTsn tsn0 os).length ∧
      (arr.foldl (fun s i => handleData s (assignTsn tsn0 os)[i]) s0).pl =
        plRun procDataP s0.pl ((assignTsn tsn0 os).take k) ∧
      ((∀ i : Fin (assignTsn tsn0 os).length, i ∈ arr) → k = (assignTsn tsn0 os).length) := by
  have hppid : ∀ c ∈ assignTsn tsn0 os, c.ppid.toNat ≠ dcPpidDcep := by
    intro c hc
    rw [assignTsn_ppid tsn0 _ ppid hpp c hc]; exact hp
  have hok : ∀ pl c, c ∈ assignTsn tsn0 os → (procPayload pl c).2 = true := by
    intro pl c hc; rw [procPayload_data pl c (hppid c hc)]; rfl
  have hts : ∀ i (h : i < (assignTsn tsn0 os).length), (assignTsn tsn0 os)[i].tsn = tsn0 + UInt32.ofNat i :=
    fun i h => assignTsn_tsn tsn0 _ i h
  have inv0 : Inv procPayload (assignTsn tsn0 os) tsn0 s0.pl 0 s0 :=
    ⟨Nat.zero_le _, by rw [hcum, u32_add_zero], by simp, by rw [hrq]; intro e he; simp at he⟩
  obtain ⟨k, _, inv, hseen⟩ := handleData_fold procPayload _ tsn0 s0.pl hts hlen hok arr 0 s0 [] inv0
    (by intro i hi; simp at hi)
  refine ⟨k, inv.hk, ?_, ?_⟩
  · show (List.foldl (fun s i => handleDataWith procPayload s (assignTsn tsn0 os)[i]) s0 arr).pl = _
    rw [inv.pl]
    exact plRun_data _ (fun c hc => hppid c (List.mem_of_mem_take hc)) _
  · intro hall
    have hk := inv.hk
    by_cases hlt : k < (assignTsn tsn0 os).length
    · exfalso
      have hmem : k ∈ [] ++ arr.map (·.val) := by
        simp only [List.nil_append, List.mem_map]
        exact ⟨⟨k, hlt⟩, hall ⟨k, hlt⟩, rfl⟩
      obtain ⟨_, hh⟩ := hseen k hmem
      cases hh with
      | inl h => omega
      | inr h =>
        obtain ⟨e, he, heq⟩ := h
        obtain ⟨j, hj, hjl, hje, _⟩ := inv.rq e he
        have : j = k := u32_off_inj tsn0 j k (by omega) (by omega) (hje.symm.trans heq)
        omega
    · omega

end RtcModel.Sctp
