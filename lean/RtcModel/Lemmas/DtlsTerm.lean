/-
Terminal behaviour of the endpoint model (C02 "ends in Failed", C03 "discarded"): a handler that moves
the connection state to Failed returns `Err` (so the run loop ends), `Connected` is reached only from a
state whose write side was never published, and only by a message that found keys.
-/
import RtcModel.Lemmas.DtlsHs

namespace RtcModel.DtlsHs
open RtcModel.Generated RtcModel.DtlsRecord

structure Term (e : Ep) (r : R) : Prop where
  alive : r.ep.alive = e.alive
  failing : e.conn ≠ .failed → r.ep.conn = .failed → r.err = true
  connecting : r.ep.conn = .connected → e.conn = .connected ∨ e.writeEpoch = 0
  published : e.writeEpoch ≠ 0 → r.ep.writeEpoch ≠ 0

/-- single message: becoming Connected needs keys that existed before the message -/
def NeedsKeys (e : Ep) (r : R) : Prop := r.ep.conn = .connected → e.conn = .connected ∨ e.ctx.keys.isSome = true

theorem Term.ok (e : Ep) (o : List Out) : Term e (ok e o) := ⟨rfl, fun h1 h2 => absurd h2 h1, fun h => Or.inl h, fun h => h⟩
theorem Term.failed (e : Ep) : Term e (failed e) := ⟨rfl, fun _ _ => rfl, fun h => by simp [RtcModel.DtlsHs.failed] at h, fun h => h⟩

theorem Term.of_pre {e e' : Ep} {r : R} (h1 : e'.alive = e.alive) (h2 : e'.conn = e.conn) (h3 : e'.writeEpoch = e.writeEpoch)
    (h : Term e' r) : Term e r :=
  ⟨h.alive.trans h1, fun a b => h.failing (h2 ▸ a) b, fun a => by have := h.connecting a; rwa [h2, h3] at this,
   fun a => h.published (h3 ▸ a)⟩

theorem Term.seq {e : Ep} {r1 r2 : R} (h1 : Term e r1) (h2 : Term r1.ep r2) (hne : r1.err = false) :
    Term e ⟨r2.ep, r1.out ++ r2.out, r2.err⟩ := by
  refine ⟨h2.alive.trans h1.alive, ?_, ?_, fun a => h2.published (h1.published a)⟩
  · intro a b
    by_cases hf : r1.ep.conn = .failed
    · have := h1.failing a hf; rw [hne] at this; cases this
    · exact h2.failing hf b
  · intro a
    rcases h2.connecting a with h | h
    · exact h1.connecting h
    · by_cases hw : e.writeEpoch = 0
      · exact Or.inr hw
      · exact absurd h (h1.published hw)

syntax "hs_term" : tactic
macro_rules
  | `(tactic| hs_term) => `(tactic|
    ((repeat' split) <;>
     (first
       | exact Term.ok _ _
       | exact Term.failed _
       | (constructor <;>
           (try simp_all [ok, failed, connect, withCtx, emitMsg, hsRecord, ccsRecord, serverFlight, clientFinalFlight, serverFinalFlight]) <;>
           (try ((repeat' split) <;>
             simp_all [ok, failed, connect, withCtx, emitMsg, hsRecord, ccsRecord, serverFlight, clientFinalFlight, serverFinalFlight]))))))

theorem handleCertificate_term (C : Crypto) (e : Ep) (b : Bytes) : Term e (handleCertificate C e b) := by
  unfold handleCertificate; hs_term
theorem handleClientHello_term (C : Crypto) (L : Loc) (e : Ep) (b : Bytes) : Term e (handleClientHello C L e b) := by
  unfold handleClientHello; hs_term
theorem handleClientKeyExchange_term (C : Crypto) (L : Loc) (e : Ep) (b : Bytes) : Term e (handleClientKeyExchange C L e b) := by
  unfold handleClientKeyExchange; hs_term
theorem handleHvr_term (C : Crypto) (L : Loc) (e : Ep) (b : Bytes) : Term e (handleHvr C L e b) := by
  unfold handleHvr; hs_term
theorem handleServerHello_term (C : Crypto) (e : Ep) (b : Bytes) : Term e (handleServerHello C e b) := by
  unfold handleServerHello; hs_term
theorem handleServerKeyExchange_term (C : Crypto) (e : Ep) (b : Bytes) : Term e (handleServerKeyExchange C e b) := by
  unfold handleServerKeyExchange; hs_term
theorem handleServerHelloDone_term (C : Crypto) (L : Loc) (e : Ep) : Term e (handleServerHelloDone C L e) := by
  unfold handleServerHelloDone; hs_term
theorem handleFinishedClient_term (C : Crypto) (e : Ep) (b : Bytes) (hw : e.writeEpoch = 0) : Term e (handleFinishedClient C e b) := by
  unfold handleFinishedClient; hs_term
theorem handleFinishedServer_term (C : Crypto) (e : Ep) (b raw : Bytes) (hw : e.writeEpoch = 0) : Term e (handleFinishedServer C e b raw) := by
  unfold handleFinishedServer; hs_term

theorem handleMsg_term (C : Crypto) (L : Loc) (e : Ep) (t : Nat) (b raw : Bytes) : Term e (handleMsg C L e t b raw) := by
  unfold handleMsg
  repeat' split
  all_goals first
    | exact handleClientHello_term C L e b
    | exact handleClientKeyExchange_term C L e b
    | exact Term.ok e _
    | exact handleHvr_term C L e b
    | exact handleServerHello_term C e b
    | exact handleCertificate_term C e b
    | exact handleServerKeyExchange_term C e b
    | exact handleServerHelloDone_term C L e
    | (apply handleFinishedClient_term C e b; simp_all)
    | (apply handleFinishedServer_term C e b raw; simp_all)

@[simp] theorem clearPostHvr_alive (e : Ep) : (clearPostHvr e).alive = e.alive := by unfold clearPostHvr; split <;> rfl
@[simp] theorem clearPostHvr_writeEpoch (e : Ep) : (clearPostHvr e).writeEpoch = e.writeEpoch := by unfold clearPostHvr; split <;> rfl

theorem acceptMsg_term (C : Crypto) (L : Loc) (e : Ep) (m : HsMsg) : Term e (acceptMsg C L e m) := by
  unfold acceptMsg
  dsimp only
  repeat' split
  all_goals first
    | exact Term.of_pre (by simp) (by simp) (by simp) (handleMsg_term ..)
    | (constructor <;> simp [ok, withCtx] <;> (try (intro h; exact Or.inl h)))

theorem gate_term (C : Crypto) (L : Loc) (e : Ep) (a : Bool) (m : HsMsg) : Term e (gate C L e a m) := by
  unfold gate; split
  · exact Term.ok e _
  · exact acceptMsg_term C L e m

theorem procMsg_term (C : Crypto) (L : Loc) (e : Ep) (a : Bool) (m : HsMsg) : Term e (procMsg C L e a m) := by
  have hg : Term e (gate C L (resync e m) a m) := Term.of_pre (e' := resync e m) rfl rfl rfl (gate_term C L (resync e m) a m)
  unfold procMsg
  repeat' split
  all_goals first
    | exact Term.ok e _
    | exact hg
    | exact handleMsg_term C L e _ _ _
    | exact gate_term C L e a m

theorem procPayload_term (C : Crypto) (L : Loc) (a : Bool) : ∀ (fuel : Nat) (e : Ep) (bs : Bytes), Term e (procPayload C L a fuel e bs) := by
  intro fuel
  induction fuel with
  | zero => intro e bs; exact Term.ok e _
  | succ f ih =>
    intro e bs
    unfold procPayload
    split
    · exact Term.ok e _
    · split
      · exact Term.ok e _
      · exact Term.ok e _
      · rename_i m rest _
        dsimp only
        split
        · exact procMsg_term C L e a m
        · rename_i hne
          exact (procMsg_term C L e a m).seq (ih _ rest) (by simpa using hne)

theorem onRecord_term (C : Crypto) (L : Loc) (e : Ep) (ct : Nat) (a : Bool) (pl : Bytes) : Term e (onRecord C L e ct a pl) := by
  unfold onRecord
  split
  · exact Term.ok e _
  · split
    · split <;> exact Term.ok e _
    · split
      · exact procPayload_term C L a _ e pl
      · split
        · split
          · split
            · constructor <;> simp [ok]
            · exact Term.ok e _
          · exact Term.ok e _
        · exact Term.ok e _

theorem onDatagram_term (A : DecFn) (C : Crypto) (L : Loc) : ∀ (fuel : Nat) (e : Ep) (bs : Bytes), Term e (onDatagram A C L fuel e bs) := by
  intro fuel
  induction fuel with
  | zero => intro e bs; exact Term.ok e _
  | succ f ih =>
    intro e bs
    unfold onDatagram
    split
    · exact Term.ok e _
    · split
      · exact Term.ok e _
      · exact Term.ok e _
      · rename_i r rest _
        split
        · exact ih e rest
        · split
          · exact Term.ok e _
          · rename_i payload _
            dsimp only
            split
            · exact onRecord_term C L e _ _ payload
            · rename_i hne
              exact (onRecord_term C L e _ _ payload).seq (ih _ rest) (by simpa using hne)

/-- once the handshake has completed (write side published) an endpoint that is not Connected — Closed
by close_notify, or Failed — never hands anything up again -/
theorem onDatagram_no_delivery_after_completion (A : DecFn) (C : Crypto) (L : Loc) : ∀ (fuel : Nat) (e : Ep) (bs : Bytes),
    e.writeEpoch ≠ 0 → e.conn ≠ .connected → ∀ p, Out.deliver p ∉ (onDatagram A C L fuel e bs).out := by
  intro fuel
  induction fuel with
  | zero => intro e bs _ _ p h; simp [onDatagram, ok] at h
  | succ f ih =>
    intro e bs hw hc p h
    unfold onDatagram at h
    split at h
    · simp [ok] at h
    · split at h
      · simp [ok] at h
      · simp [ok] at h
      · rename_i r rest _
        split at h
        · exact ih e rest hw hc p h
        · split at h
          · simp [ok] at h
          · rename_i payload _
            dsimp only at h
            have ht := onRecord_term C L e r.ctype (r.epoch != 0) payload
            have hnd : Out.deliver p ∉ (onRecord C L e r.ctype (r.epoch != 0) payload).out :=
              fun hd => hc (onRecord_deliver_connected C L e _ _ _ p hd)
            have hc' : (onRecord C L e r.ctype (r.epoch != 0) payload).ep.conn ≠ .connected := by
              intro hh
              rcases ht.connecting hh with h1 | h1
              · exact hc h1
              · exact hw h1
            split at h
            · exact hnd h
            · simp only [List.mem_append] at h
              rcases h with h | h
              · exact hnd h
              · exact ih _ rest (ht.published hw) hc' p h

/-! ### a single message makes an endpoint Connected only if keys existed before it -/

syntax "hs_nk" : tactic
macro_rules
  | `(tactic| hs_nk) => `(tactic|
    ((repeat' split) <;>
     (try simp_all [NeedsKeys, ok, failed, connect, withCtx, emitMsg, hsRecord, ccsRecord, serverFlight, clientFinalFlight, serverFinalFlight]) <;>
     (try ((repeat' split) <;>
        simp_all [NeedsKeys, ok, failed, connect, withCtx, emitMsg, hsRecord, ccsRecord, serverFlight, clientFinalFlight, serverFinalFlight]))))

theorem handleCertificate_nk (C : Crypto) (e : Ep) (b : Bytes) : NeedsKeys e (handleCertificate C e b) := by
  unfold handleCertificate NeedsKeys; hs_nk
theorem handleClientHello_nk (C : Crypto) (L : Loc) (e : Ep) (b : Bytes) : NeedsKeys e (handleClientHello C L e b) := by
  unfold handleClientHello NeedsKeys; hs_nk
theorem handleClientKeyExchange_nk (C : Crypto) (L : Loc) (e : Ep) (b : Bytes) : NeedsKeys e (handleClientKeyExchange C L e b) := by
  unfold handleClientKeyExchange NeedsKeys; hs_nk
theorem handleHvr_nk (C : Crypto) (L : Loc) (e : Ep) (b : Bytes) : NeedsKeys e (handleHvr C L e b) := by
  unfold handleHvr NeedsKeys; hs_nk
theorem handleServerHello_nk (C : Crypto) (e : Ep) (b : Bytes) : NeedsKeys e (handleServerHello C e b) := by
  unfold handleServerHello NeedsKeys; hs_nk
theorem handleServerKeyExchange_nk (C : Crypto) (e : Ep) (b : Bytes) : NeedsKeys e (handleServerKeyExchange C e b) := by
  unfold handleServerKeyExchange NeedsKeys; hs_nk
theorem handleServerHelloDone_nk (C : Crypto) (L : Loc) (e : Ep) : NeedsKeys e (handleServerHelloDone C L e) := by
  unfold handleServerHelloDone NeedsKeys; hs_nk
theorem handleFinishedClient_nk (C : Crypto) (e : Ep) (b : Bytes) : NeedsKeys e (handleFinishedClient C e b) := by
  unfold handleFinishedClient NeedsKeys; hs_nk
theorem handleFinishedServer_nk (C : Crypto) (e : Ep) (b raw : Bytes) : NeedsKeys e (handleFinishedServer C e b raw) := by
  unfold handleFinishedServer NeedsKeys; hs_nk

theorem handleMsg_needsKeys (C : Crypto) (L : Loc) (e : Ep) (t : Nat) (b raw : Bytes) : NeedsKeys e (handleMsg C L e t b raw) := by
  unfold handleMsg
  repeat' split
  all_goals first
    | exact handleClientHello_nk C L e b
    | exact handleClientKeyExchange_nk C L e b
    | exact handleFinishedClient_nk C e b
    | exact handleFinishedServer_nk C e b raw
    | exact handleHvr_nk C L e b
    | exact handleServerHello_nk C e b
    | exact handleCertificate_nk C e b
    | exact handleServerKeyExchange_nk C e b
    | exact handleServerHelloDone_nk C L e
    | (intro h; exact Or.inl (by simpa [ok] using h))

theorem NeedsKeys.of_pre {e e' : Ep} {r : R} (h2 : e'.conn = e.conn) (h3 : e'.ctx.keys = e.ctx.keys) (h : NeedsKeys e' r) : NeedsKeys e r := by
  intro hc; have := h hc; rwa [h2, h3] at this

theorem acceptMsg_needsKeys (C : Crypto) (L : Loc) (e : Ep) (m : HsMsg) : NeedsKeys e (acceptMsg C L e m) := by
  unfold acceptMsg
  dsimp only
  repeat' split
  all_goals first
    | exact NeedsKeys.of_pre (by simp) (by simp [noteMsg, takeBuffer, appendFrag]) (handleMsg_needsKeys C L _ _ _ _)
    | (intro h; simp [ok, withCtx] at h; exact Or.inl h)

theorem procMsg_needsKeys (C : Crypto) (L : Loc) (e : Ep) (a : Bool) (m : HsMsg) : NeedsKeys e (procMsg C L e a m) := by
  have hg : ∀ e', e'.conn = e.conn → e'.ctx.keys = e.ctx.keys → NeedsKeys e (gate C L e' a m) := by
    intro e' h1 h2
    unfold gate; split
    · intro h; exact Or.inl (by simpa [ok, h1] using h)
    · exact NeedsKeys.of_pre h1 h2 (acceptMsg_needsKeys C L e' m)
  unfold procMsg
  repeat' split
  all_goals first
    | exact hg _ rfl rfl
    | exact handleMsg_needsKeys C L e _ _ _
    | (intro h; exact Or.inl (by simpa [ok] using h))

/-- **an unprotected handshake message never makes an endpoint Connected** -/
theorem unauthenticated_message_never_connects (C : Crypto) (L : Loc) (e : Ep) (m : HsMsg)
    (h : (procMsg C L e false m).ep.conn = .connected) : e.conn = .connected := by
  rcases procMsg_needsKeys C L e false m h with h1 | h1
  · exact h1
  · have := (procMsg_quiet C L e m h1).1
    rw [this] at h; exact h

/-! ### clear-text handshake records once keys exist: the whole endpoint is untouched -/

theorem procMsg_unauth_whole (C : Crypto) (L : Loc) (e : Ep) (m : HsMsg) (hk : e.ctx.keys.isSome = true)
    (hp : e.ctx.postHvr = false) (hsr : e.ctx.serverRandom.isSome = true) :
    (procMsg C L e false m).ep = e ∧ (procMsg C L e false m).err = false := by
  unfold procMsg
  simp only [hp, Bool.false_and, Bool.false_eq_true, if_false, Bool.and_false]
  split
  · split
    · rename_i h
      simp only [Bool.and_eq_true, decide_eq_true_eq] at h
      have hs : e.isClient = false := by simpa using h.2
      unfold handleMsg handleClientHello
      simp only [h.1, if_true, hs, Bool.false_eq_true, if_false, hsr]
      split <;> simp [ok]
    · simp [ok]
  · split
    · simp [ok]
    · unfold gate; simp [hk, ok]

theorem procPayload_unauth_whole (C : Crypto) (L : Loc) : ∀ (fuel : Nat) (e : Ep) (bs : Bytes),
    e.ctx.keys.isSome = true → e.ctx.postHvr = false → e.ctx.serverRandom.isSome = true →
    (procPayload C L false fuel e bs).ep = e ∧ (procPayload C L false fuel e bs).err = false := by
  intro fuel
  induction fuel with
  | zero => intro e bs _ _ _; simp [procPayload, ok]
  | succ f ih =>
    intro e bs hk hp hsr
    unfold procPayload
    split
    · simp [ok]
    · split
      · simp [ok]
      · simp [ok]
      · rename_i m rest _
        have h1 := procMsg_unauth_whole C L e m hk hp hsr
        dsimp only
        rw [if_neg (by simp [h1.2])]
        rw [h1.1]
        exact ih e rest hk hp hsr

/-! ### per-handler lemmas behind "otherwise the transport ends in Failed" (unfoldings of one handler call each) -/

/-- A Certificate message whose leaf does not hash to the expected fingerprint fails the transport on
the spot (state Failed, the handler returns `Err`) … -/
theorem certificate_mismatch_fails (C : Crypto) (e : Ep) (body leaf f : Bytes) (rest : List Bytes)
    (hexp : e.ctx.expectedFp = some f) (hdec : C.certDecode body = some (leaf :: rest)) (hne : C.digest leaf ≠ f) :
    handleCertificate C e body = failed e := by
  unfold handleCertificate
  simp [hdec, hexp, fpMismatch, hne]

/-- … as do a ServerKeyExchange whose signature does not verify under the accepted leaf, a
ServerHelloDone without a verified key exchange, and a Finished whose verify_data differs. -/
theorem bad_signature_fails (C : Crypto) (e : Ep) (body share leaf cr sr : Bytes) (hc : e.isClient = true)
    (hdec : C.skeDecode body = some share) (hleaf : e.ctx.peerCert = some leaf) (hcr : e.ctx.clientRandom = some cr)
    (hsr : e.ctx.serverRandom = some sr) (hbad : C.sigOk leaf cr sr body = false) :
    handleServerKeyExchange C e body = failed e := by
  unfold handleServerKeyExchange
  simp [hc, hdec, hleaf, hcr, hsr, hbad]

theorem bad_finished_fails_client (C : Crypto) (e : Ep) (body : Bytes) (k : Keys) (hk : e.ctx.keys = some k)
    (hbad : body ≠ C.vd k.ms false e.ctx.transcript) : handleFinishedClient C e body = failed e := by
  unfold handleFinishedClient
  simp [hk, hbad]

/-- the handshake deadline ends a handshake that is still running: after it no live endpoint is
Handshaking (a stuck handshake — lost messages, ignored out-of-order ones, a peer that never answers —
ends in Failed, with the loop stopped) -/
theorem deadline_ends_handshake (C : Crypto) (L : Loc) (e : Ep) (h : e.alive = true) (hh : e.conn = .handshaking) :
    (stepOp C L e .deadline).1.conn = .failed ∧ (stepOp C L e .deadline).1.alive = false := by
  simp [stepOp, onDeadline, h, hh]


/-- an endpoint whose loop has ended and whose state is not Connected does nothing any more, whatever
happens to it: datagrams are not read, `send()` is refused, timers and a further `close()` find no task -/
theorem dead_and_not_connected_is_final (C : Crypto) (L : Loc) (e : Ep) (ha : e.alive = false) (hc : e.conn ≠ .connected) :
    ∀ ops : List Op, runOps C L e ops = (e, []) := by
  intro ops
  induction ops with
  | nil => rfl
  | cons o os ih =>
    have h1 : stepOp C L e o = (e, []) := by
      cases o with
      | packet dec bs => simp [stepOp, onPacket, ha]
      | send d => simp [stepOp, onSend, hc]
      | close => simp [stepOp, onClose, ha]
      | tick => simp [stepOp, onTick, ha]
      | deadline => simp [stepOp, onDeadline, ha]
    simp only [runOps, h1, ih, List.append_nil]

theorem runOps_append_fst (C : Crypto) (L : Loc) : ∀ (a b : List Op) (e : Ep),
    (runOps C L e (a ++ b)).1 = (runOps C L (runOps C L e a).1 b).1 := by
  intro a
  induction a with
  | nil => intro b e; rfl
  | cons o os ih => intro b e; simp only [List.cons_append, runOps]; exact ih b _

end RtcModel.DtlsHs
