/- Character-level lemmas for `RtcModel.Text`: decimal printing reads back (`parseUnsigned (natStr n)`),
`splitWs` inverts joining tokens with single spaces. -/
import RtcModel.Base.C08Text
namespace RtcModel.Text

/-! ### numbers -/

theorem isDigit_of_core {c : Char} (h : c.isDigit = true) : isDigit c = true := by
  simp only [Char.isDigit, Bool.and_eq_true, decide_eq_true_eq] at h
  simp only [isDigit, Bool.and_eq_true, decide_eq_true_eq, Char.le_def]
  exact ⟨by simpa using h.1, by simpa using h.2⟩

theorem digitsVal_eq (l : Str) (acc : Nat) (h : ∀ c ∈ l, isDigit c = true) :
    digitsVal l acc = some (Nat.ofDigitChars 10 l acc) := by
  induction l generalizing acc with
  | nil => simp [digitsVal]
  | cons c cs ih =>
    have hc := h c (by simp)
    simp only [digitsVal, hc, if_true, Nat.ofDigitChars_cons]
    rw [ih _ (fun d hd => h d (by simp [hd]))]
    have e : acc * 10 + (c.toNat - '0'.toNat) = 10 * acc + (c.toNat - '0'.toNat) := by omega
    rw [e]

theorem natStr_digits (n : Nat) : ∀ c ∈ natStr n, isDigit c = true := by
  intro c hc
  simp only [natStr, Nat.toString_eq_repr, Nat.toList_repr] at hc
  exact isDigit_of_core (Nat.isDigit_of_mem_toDigits (by decide) (by decide) hc)

theorem natStr_ne_nil (n : Nat) : natStr n ≠ [] := by
  simp only [natStr, Nat.toString_eq_repr, Nat.toList_repr]
  exact Nat.toDigits_ne_nil

/-- **decimal round trip**: `n.to_string().parse::<uN>() == Ok(n)` for `n < 2^N` -/
theorem parseUnsigned_natStr (bound n : Nat) (h : n < bound) : parseUnsigned bound (natStr n) = some n := by
  have hd := natStr_digits n
  have hne := natStr_ne_nil n
  have hval : digitsVal (natStr n) 0 = some n := by
    rw [digitsVal_eq _ 0 hd]
    simp only [natStr, Nat.toString_eq_repr, Nat.toList_repr, Nat.ofDigitChars_ten_toDigits]
  cases hs : natStr n with
  | nil => exact absurd hs hne
  | cons c cs =>
    have hcd : isDigit c = true := hd c (by simp [hs])
    have hplus : c ≠ '+' := by
      intro e; subst e; revert hcd; decide
    have hsp : stripPlus (c :: cs) = c :: cs := by
      unfold stripPlus
      split
      · rename_i r heq
        injection heq with h1 _
        exact absurd h1 hplus
      · rfl
    rw [hs] at hval
    unfold parseUnsigned
    rw [hsp]
    simp [hval, h]

/-! ### tokens and `split_whitespace` -/

/-- a non-empty string without white space -/
def IsTok (t : Str) : Prop := t ≠ [] ∧ ∀ c ∈ t, isWs c = false

instance (t : Str) : Decidable (IsTok t) := by unfold IsTok; infer_instance

theorem natStr_tok (n : Nat) : IsTok (natStr n) := by
  refine ⟨natStr_ne_nil n, ?_⟩
  intro c hc
  have := natStr_digits n c hc
  simp only [isDigit, Bool.and_eq_true, decide_eq_true_eq] at this
  simp only [isWs, Bool.or_eq_false_iff, decide_eq_false_iff_not]
  have h0 : '0' ≤ c := this.1
  rw [Char.le_def] at h0
  refine ⟨⟨⟨⟨⟨?_, ?_⟩, ?_⟩, ?_⟩, ?_⟩, ?_⟩ <;> (intro e; subst e; revert h0; decide)

theorem splitWsAux_tok (t rest cur : Str) (acc : List Str) (h : ∀ c ∈ t, isWs c = false) :
    splitWsAux (t ++ rest) cur acc = splitWsAux rest (t.reverse ++ cur) acc := by
  induction t generalizing cur with
  | nil => rfl
  | cons c cs ih =>
    have hc : isWs c = false := h c (by simp)
    simp only [List.cons_append, splitWsAux, hc, Bool.false_eq_true, if_false]
    rw [ih _ (fun d hd => h d (by simp [hd]))]
    simp

theorem splitWsAux_space (rest cur : Str) (acc : List Str) :
    splitWsAux (' ' :: rest) cur acc = splitWsAux rest [] (if cur.isEmpty then acc else cur.reverse :: acc) := by
  have : isWs ' ' = true := by decide
  simp [splitWsAux, this]

/-- `split_whitespace` inverts "join with single spaces" on tokens -/
theorem splitWsAux_join (ts : List Str) (acc : List Str) (h : ∀ t ∈ ts, IsTok t) :
    splitWsAux (join [' '] ts) [] acc = acc.reverse ++ ts := by
  induction ts generalizing acc with
  | nil => simp [join, splitWsAux]
  | cons t rest ih =>
    have ht := h t (by simp)
    cases rest with
    | nil =>
      simp only [join]
      have := splitWsAux_tok t [] [] acc ht.2
      simp only [List.append_nil] at this
      rw [this]
      simp [splitWsAux, ht.1]
    | cons u us =>
      simp only [join]
      rw [List.append_assoc, splitWsAux_tok t _ [] acc ht.2]
      simp only [List.append_nil, List.singleton_append, splitWsAux_space]
      have hne : t.reverse.isEmpty = false := by
        cases t with
        | nil => exact absurd rfl ht.1
        | cons a as => simp
      simp only [hne, Bool.false_eq_true, if_false, List.reverse_reverse]
      rw [ih _ (fun x hx => h x (by simp [hx]))]
      simp

theorem splitWs_join (ts : List Str) (h : ∀ t ∈ ts, IsTok t) : splitWs (join [' '] ts) = ts := by
  unfold splitWs
  rw [splitWsAux_join ts [] h]
  simp

end RtcModel.Text
