/- Character-level lemmas for `RtcModel.Text`: decimal printing reads back (`parseUnsigned (natStr n)`),
`splitWs` inverts joining tokens with single spaces. -/
import RtcModel.Base.C08Text
namespace RtcModel.Text

/-! ### numbers -/

theorem isDigit_of_core {c : Char} (h : c.isDigit = true) : isDigit c = true := by
  simp only [Char.isDigit, Bool.and_eq_true, decide_eq_true_eq] at h
  simp only [isDigit, Bool.and_eq_true, decide_eq_true_eq, Char.le_def]
  exact ⟨by simpa using h.1, by simpa using h.2⟩

theorem digitsVal_eq (l : Str) (acc : Nat) (h : ∀ c ∈ l, isDigit c = true) :
    digitsVal l acc = some (Nat.ofDigitChars 10 l acc) := by
  induction l generalizing acc with
  | nil => simp [digitsVal]
  | cons c cs ih =>
    have hc := h c (by simp)
    simp only [digitsVal, hc, if_true, Nat.ofDigitChars_cons]
    rw [ih _ (fun d hd => h d (by simp [hd]))]
    have e : acc * 10 + (c.toNat - '0'.toNat) = 10 * acc + (c.toNat - '0'.toNat) := by omega
    rw [e]

theorem natStr_digits (n : Nat) : ∀ c ∈ natStr n, isDigit c = true := by
  intro c hc
  simp only [natStr, Nat.toString_eq_repr, Nat.toList_repr] at hc
  exact isDigit_of_core (Nat.isDigit_of_mem_toDigits (by decide) (by decide) hc)

theorem natStr_ne_nil (n : Nat) : natStr n ≠ [] := by
  simp only [natStr, Nat.toString_eq_repr, Nat.toList_repr]
  exact Nat.toDigits_ne_nil

/-- **decimal round trip**: `n.to_string().parse::<uN>() == Ok(n)` for `n < 2^N` -/
theorem parseUnsigned_natStr (bound n : Nat) (h : n < bound) : parseUnsigned bound (natStr n) = some n := by
  have hd := natStr_digits n
  have hne := natStr_ne_nil n
  have hval : digitsVal (natStr n) 0 = some n := by
    rw [digitsVal_eq _ 0 hd]
    simp only [natStr, Nat.toString_eq_repr, Nat.toList_repr, Nat.ofDigitChars_ten_toDigits]
  cases hs : natStr n with
  | nil => exact absurd hs hne
  | cons c cs =>
    have hcd : isDigit c = true := hd c (by simp [hs])
    have hplus : c ≠ '+' := by
      intro e; subst e; revert hcd; decide
    have hsp : stripPlus (c :: cs) = c :: cs := by
      unfold stripPlus
      split
      · rename_i r heq
        injection heq with h1 _
        exact absurd h1 hplus
      · rfl
    rw [hs] at hval
    unfold parseUnsigned
    rw [hsp]
    simp [hval, h]

/-! ### tokens and `split_whitespace` -/

/-- a non-empty string without white space -/
def IsTok (t : Str) : Prop := t ≠ [] ∧ ∀ c ∈ t, isWs c = false

instance (t : Str) : Decidable (IsTok t) := by unfold IsTok; infer_instance

theorem natStr_tok (n : Nat) : IsTok (natStr n) := by
  refine ⟨natStr_ne_nil n, ?_⟩
  intro c hc
  have := natStr_digits n c hc
  simp only [isDigit, Bool.and_eq_true, decide_eq_true_eq] at this
  simp only [isWs, Bool.or_eq_false_iff, decide_eq_false_iff_not]
  have h0 : '0' ≤ c := this.1
  rw [Char.le_def] at h0
  refine ⟨⟨⟨⟨⟨?_, ?_⟩, ?_⟩, ?_⟩, ?_⟩, ?_⟩ <;> (intro e; subst e; revert h0; decide)

theorem splitWsAux_tok (t rest cur : Str) (acc : List Str) (h : ∀ c ∈ t, isWs c = false) :
    splitWsAux (t ++ rest) cur acc = splitWsAux rest (t.reverse ++ cur) acc := by
  induction t generalizing cur with
  | nil => rfl
  | cons c cs ih =>
    have hc : isWs c = false := h c (by simp)
    simp only [List.cons_append, splitWsAux, hc, Bool.false_eq_true, if_false]
    rw [ih _ (fun d hd => h d (by simp [hd]))]
    simp

theorem splitWsAux_space (rest cur : Str) (acc : List Str) :
    splitWsAux (' ' :: rest) cur acc = splitWsAux rest [] (if cur.isEmpty then acc else cur.reverse :: acc) := by
  have : isWs ' ' = true := by decide
  simp [splitWsAux, this]

/-- `split_whitespace` inverts "join with single spaces" on tokens -/
theorem splitWsAux_join (ts : List Str) (acc : List Str) (h : ∀ t ∈ ts, IsTok t) :
    splitWsAux (join [' '] ts) [] acc = acc.reverse ++ ts := by
  induction ts generalizing acc with
  | nil => simp [join, splitWsAux]
  | cons t rest ih =>
    have ht := h t (by simp)
    cases rest with
    | nil =>
      simp only [join]
      have := splitWsAux_tok t [] [] acc ht.2
      simp only [List.append_nil] at this
      rw [this]
      simp [splitWsAux, ht.1]
    | cons u us =>
      simp only [join]
      rw [List.append_assoc, splitWsAux_tok t _ [] acc ht.2]
      simp only [List.append_nil, List.singleton_append, splitWsAux_space]
      have hne : t.reverse.isEmpty = false := by
        cases t with
        | nil => exact absurd rfl ht.1
        | cons a as => simp
      simp only [hne, Bool.false_eq_true, if_false, List.reverse_reverse]
      rw [ih _ (fun x hx => h x (by simp [hx]))]
      simp

theorem splitWs_join (ts : List Str) (h : ∀ t ∈ ts, IsTok t) : splitWs (join [' '] ts) = ts := by
  unfold splitWs
  rw [splitWsAux_join ts [] h]
  simp

/-! ### `split_once`, more about tokens, `trim`, `split` -/

theorem splitOnce_none_of_not_mem (c : Char) (k : Str) (h : c ∉ k) : splitOnce c k = none := by
  induction k with
  | nil => rfl
  | cons x xs ih =>
    have hx : x ≠ c := fun e => h (by simp [e])
    have hxs : c ∉ xs := fun e => h (by simp [e])
    simp [splitOnce, hx, ih hxs]

theorem splitOnce_append_of_not_mem (c : Char) (k v : Str) (h : c ∉ k) :
    splitOnce c (k ++ c :: v) = some (k, v) := by
  induction k with
  | nil => simp [splitOnce]
  | cons x xs ih =>
    have hx : x ≠ c := fun e => h (by simp [e])
    have hxs : c ∉ xs := fun e => h (by simp [e])
    simp [splitOnce, hx, ih hxs]


theorem splitOnce_spec (c : Char) (s a b : Str) (h : splitOnce c s = some (a, b)) : s = a ++ c :: b ∧ c ∉ a := by
  induction s generalizing a with
  | nil => simp [splitOnce] at h
  | cons x xs ih =>
    unfold splitOnce at h
    split at h
    · rename_i hx
      simp only [Option.some.injEq, Prod.mk.injEq] at h
      obtain ⟨rfl, rfl⟩ := h
      subst hx
      simp
    · rename_i hx
      cases hr : splitOnce c xs with
      | none => simp [hr] at h
      | some p =>
        obtain ⟨a', b'⟩ := p
        simp only [hr, Option.some.injEq, Prod.mk.injEq] at h
        obtain ⟨rfl, rfl⟩ := h
        obtain ⟨h1, h2⟩ := ih a' hr
        refine ⟨by rw [h1]; simp, ?_⟩
        intro hm
        rcases List.mem_cons.mp hm with e | e
        · exact hx e.symm
        · exact h2 e

theorem digitsVal_digits (l : Str) (acc n : Nat) (h : digitsVal l acc = some n) : ∀ c ∈ l, isDigit c = true := by
  induction l generalizing acc with
  | nil => intro c hc; cases hc
  | cons x xs ih =>
    unfold digitsVal at h
    split at h
    · rename_i hx
      intro c hc
      rcases List.mem_cons.mp hc with e | e
      · subst e; exact hx
      · exact ih _ h c e
    · cases h

theorem isDigit_not_ws (c : Char) (h : isDigit c = true) : isWs c = false := by
  simp only [isDigit, Bool.and_eq_true, decide_eq_true_eq] at h
  have h0 : '0' ≤ c := h.1
  rw [Char.le_def] at h0
  simp only [isWs, Bool.or_eq_false_iff, decide_eq_false_iff_not]
  refine ⟨⟨⟨⟨⟨?_, ?_⟩, ?_⟩, ?_⟩, ?_⟩, ?_⟩ <;> (intro e; subst e; revert h0; decide)

/-- a string `parse::<uN>()` accepts is a non-empty string without white space -/
theorem stripPlus_cases (s : Str) : stripPlus s = s ∨ s = '+' :: stripPlus s := by
  unfold stripPlus
  split
  · right; rfl
  · left; rfl

theorem parseUnsigned_tok (bound : Nat) (s : Str) (n : Nat) (h : parseUnsigned bound s = some n) : IsTok s := by
  unfold parseUnsigned at h
  cases hs : stripPlus s with
  | nil => rw [hs] at h; simp at h
  | cons d ds =>
    rw [hs] at h
    dsimp only at h
    cases hd : digitsVal (d :: ds) 0 with
    | none => simp [hd] at h
    | some m =>
      have hdig := digitsVal_digits _ _ _ hd
      rcases stripPlus_cases s with e | e
      · rw [hs] at e
        subst e
        exact ⟨by simp, fun c hc => isDigit_not_ws c (hdig c hc)⟩
      · rw [hs] at e
        subst e
        refine ⟨by simp, ?_⟩
        intro c hc
        rcases List.mem_cons.mp hc with e | e
        · subst e; decide
        · exact isDigit_not_ws c (hdig c e)

theorem splitWs_head_tok (t rest : Str) (ht : IsTok t) : (splitWs (t ++ ' ' :: rest)).head? = some t := by
  unfold splitWs
  rw [splitWsAux_tok t _ [] [] ht.2, List.append_nil, splitWsAux_space]
  have hne : t.reverse.isEmpty = false := by
    cases t with
    | nil => exact absurd rfl ht.1
    | cons a as => simp
  simp only [hne, Bool.false_eq_true, if_false, List.reverse_reverse]
  -- whatever follows is appended behind `t`
  have key : ∀ (s cur : Str) (acc : List Str), (splitWsAux s cur (acc ++ [t])).head? = some t := by
    intro s
    induction s with
    | nil => intro cur acc; by_cases hc : cur.isEmpty = true <;> simp [splitWsAux, hc]
    | cons c cs ih =>
      intro cur acc
      unfold splitWsAux
      split
      · split
        · exact ih [] acc
        · have := ih [] (cur.reverse :: acc)
          simpa using this
      · exact ih _ acc
  exact key rest [] []



theorem parseUnsigned_natStr_eq (bound n : Nat) :
    parseUnsigned bound (natStr n) = if n < bound then some n else none := by
  by_cases h : n < bound
  · rw [if_pos h]; exact parseUnsigned_natStr bound n h
  · rw [if_neg h]
    have hd := natStr_digits n
    have hne := natStr_ne_nil n
    have hval : digitsVal (natStr n) 0 = some n := by
      rw [digitsVal_eq _ 0 hd]
      simp only [natStr, Nat.toString_eq_repr, Nat.toList_repr, Nat.ofDigitChars_ten_toDigits]
    rcases stripPlus_cases (natStr n) with e | e
    · unfold parseUnsigned
      rw [e]
      cases hs : natStr n with
      | nil => exact absurd hs hne
      | cons c cs => rw [hs] at hval; simp [hval, h]
    · exfalso
      have := hd '+' (by rw [e]; simp)
      revert this; decide

theorem dropWsLeft_noWs (s : Str) (h : ∀ c ∈ s, isWs c = false) : dropWsLeft s = s := by
  cases s with
  | nil => rfl
  | cons c cs => simp [dropWsLeft, h c (by simp)]

theorem trim_noWs (s : Str) (h : ∀ c ∈ s, isWs c = false) : trim s = s := by
  unfold trim
  rw [dropWsLeft_noWs s h, dropWsLeft_noWs s.reverse (fun c hc => h c (List.mem_reverse.mp hc))]
  simp

theorem splitOnAux_none (sep : Char) (t cur : Str) (acc : List Str) (h : sep ∉ t) :
    splitOnAux sep t cur acc = ((t.reverse ++ cur).reverse :: acc).reverse := by
  induction t generalizing cur with
  | nil => simp [splitOnAux]
  | cons c cs ih =>
    have hc : c ≠ sep := fun e => h (by simp [e])
    simp only [splitOnAux, hc, if_false]
    rw [ih _ (fun e => h (by simp [e]))]
    simp

theorem splitOn_none (sep : Char) (t : Str) (h : sep ∉ t) : splitOn sep t = [t] := by
  unfold splitOn
  rw [splitOnAux_none sep t [] [] h]
  simp



theorem splitWsAux_tokens (s cur : Str) (acc : List Str) (hcur : ∀ c ∈ cur, isWs c = false) :
    ∀ t ∈ splitWsAux s cur acc, t ∈ acc ∨ IsTok t := by
  induction s generalizing cur acc with
  | nil =>
    intro t ht
    unfold splitWsAux at ht
    split at ht
    · exact Or.inl (List.mem_reverse.mp ht)
    · rename_i hne
      rcases List.mem_cons.mp (List.mem_reverse.mp ht) with e | e
      · right; subst e
        refine ⟨by intro h; apply hne; simpa using h, fun c hc => hcur c (List.mem_reverse.mp hc)⟩
      · exact Or.inl e
  | cons c cs ih =>
    intro t ht
    unfold splitWsAux at ht
    split at ht
    · -- white space: close the current token
      have := ih [] _ (by intro d hd; cases hd) t ht
      rcases this with h | h
      · split at h
        · exact Or.inl h
        · rename_i hne
          rcases List.mem_cons.mp h with e | e
          · right; subst e
            refine ⟨by intro h'; apply hne; simpa using h', fun d hd => hcur d (List.mem_reverse.mp hd)⟩
          · exact Or.inl e
      · exact Or.inr h
    · rename_i hws
      exact ih (c :: cur) acc (by
        intro d hd
        rcases List.mem_cons.mp hd with e | e
        · subst e; simpa using hws
        · exact hcur d e) t ht

theorem splitWs_tokens (s : Str) : ∀ t ∈ splitWs s, IsTok t := by
  intro t ht
  rcases splitWsAux_tokens s [] [] (by intro c hc; cases hc) t ht with h | h
  · cases h
  · exact h


end RtcModel.Text
