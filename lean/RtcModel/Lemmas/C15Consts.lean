/- C15 — the values of the generated constants as ordinary (non-`rfl`) rewrite rules, so that `simp only`
rewrites them under `if … then … else` together with the `Decidable` instance.  If a constant in the
Rust source changes, the corresponding line stops proving and every theorem that uses it is re-examined. -/
import RtcModel.Generated.Consts

namespace RtcModel.C15
open RtcModel.Generated

theorem c15RtpVersion_eq : c15RtpVersion = 2 := by decide
theorem c15MaxCsrc_eq : c15MaxCsrc = 15 := by decide
theorem c15PtMax_eq : c15PtMax = 127 := by decide
theorem c15PtMask_eq : c15PtMask = 127 := by decide
theorem c15CsrcMask_eq : c15CsrcMask = 15 := by decide
theorem c15RtcpCountMask_eq : c15RtcpCountMask = 31 := by decide
theorem c15RtcpMaxCount_eq : c15RtcpMaxCount = 31 := by decide
theorem c15OneByteProfile_eq : c15OneByteProfile = 0xBEDE := by decide
theorem c15TwoByteProfile_eq : c15TwoByteProfile = 0x1000 := by decide
theorem c15TwoByteMask_eq : c15TwoByteMask = 0xFFF0 := by decide
theorem c15StopIdGet_eq : c15StopIdGet = 15 := by decide
theorem c15StopIdSet_eq : c15StopIdSet = 15 := by decide
theorem c15ExtIdLimit_eq : c15ExtIdLimit = 15 := by decide
theorem c15ExtMaxData_eq : c15ExtMaxData = 16 := by decide
theorem c15BlpBits_eq : c15BlpBits = 16 := by decide
theorem c15NackBlpSpan_eq : c15NackBlpSpan = 16 := by decide
theorem c15LossClampBits_eq : c15LossClampBits = 23 := by decide
theorem c15RembExpMask_eq : c15RembExpMask = 63 := by decide
theorem c15RembMantissaMax_eq : c15RembMantissaMax = 262143 := by decide
theorem c15RembMaxSsrcs_eq : c15RembMaxSsrcs = 255 := by decide
theorem c15ByeMaxReason_eq : c15ByeMaxReason = 255 := by decide
theorem c15CooldownMs_eq : c15CooldownMs = 25 := by decide
theorem c15MaxReceiverNackGap_eq : c15MaxReceiverNackGap = 128 := by decide
theorem c15GapHalf_eq : c15GapHalf = 32768 := by decide
theorem c15PendingFactor_eq : c15PendingFactor = 2 := by decide
theorem c15RecentFactor_eq : c15RecentFactor = 2 := by decide

end RtcModel.C15
