/- C15 — helper lemmas for the RTX plumbing (`C15RtxFlow.lean`). Core Lean only. -/
import RtcModel.C15RtxFlow
import RtcModel.Lemmas.C15Bytes

set_option maxRecDepth 100000
namespace RtcModel.C15

theorem parseU8_decNat : ∀ n : Fin 256, parseU8 (decNat n.val) = some (u8 n.val) := by decide

theorem parseApt_decNat : ∀ n : Fin 256, parseApt (aptLower ++ decNat n.val) = some (u8 n.val) := by decide

theorem decNat_no_space : ∀ n : Fin 256, ∀ b ∈ decNat n.val, b ≠ 0x20 := by decide

theorem splitFirstSpace_pre (d rest : Bytes) (hd : ∀ b ∈ d, b ≠ 0x20) : splitFirstSpace (d ++ 0x20 :: rest) = some (d, rest) := by
  induction d with
  | nil => simp [splitFirstSpace]
  | cons b bs ih =>
    have hne : b ≠ 0x20 := hd b (List.mem_cons_self ..)
    simp only [List.cons_append, splitFirstSpace, hne, if_false]
    rw [ih (fun x hx => hd x (List.mem_cons_of_mem _ hx))]; rfl

theorem extractApt_append (a b : List (Bytes × Option Bytes)) : ∀ m, extractApt (a ++ b) m = extractApt b (extractApt a m) := by
  induction a with
  | nil => intro m; rfl
  | cons x xs ih =>
    intro m
    obtain ⟨k, v⟩ := x
    simp only [List.cons_append, extractApt]
    split
    · exact ih m
    · cases v with
      | none => exact ih m
      | some val =>
        simp only
        cases splitFirstSpace val with
        | none => exact ih m
        | some pr =>
          obtain ⟨ptStr, fmtp⟩ := pr
          simp only
          cases parseU8 ptStr with
          | none => exact ih m
          | some pt =>
            simp only
            cases parseApt fmtp with
            | none => exact ih m
            | some primary => exact ih _

/-- the two lines `append_rtx_to_section` adds are read back as the association RTX PT ↦ primary PT,
whatever the section contained before -/
theorem extract_appended (attrs : List (Bytes × Option Bytes)) (p r : Fin 256) (clock : Nat) :
    aptLookup (extractApt (attrs ++ [(rtpmapKey, some (decNat r.val ++ rtxSlash ++ decNat clock)),
      (fmtpKey, some (decNat r.val ++ aptEq ++ decNat p.val))]) []) (u8 r.val) = some (u8 p.val) := by
  rw [extractApt_append]
  generalize extractApt attrs [] = m
  have hk : rtpmapKey ≠ fmtpKey := by decide
  have hsplit : splitFirstSpace (decNat r.val ++ aptEq ++ decNat p.val) = some (decNat r.val, aptLower ++ decNat p.val) := by
    have := splitFirstSpace_pre (decNat r.val) (aptLower ++ decNat p.val) (decNat_no_space r)
    simpa [aptEq, aptLower, List.append_assoc] using this
  simp only [extractApt, hk, if_true, ne_eq, not_true_eq_false, if_false, hsplit, parseU8_decNat r, parseApt_decNat p]
  simp [aptLookup]

/-- a primary media packet (payload type not an RTX type, not on the RTX SSRC) passes through unchanged, and
a packet on the RTX SSRC whose payload type is not an RTX type is dropped, never guessed -/
theorem rtx_rx_passthrough (apt : List (UInt8 × UInt8)) (negotiated : Option UInt32) (ssrc : UInt32) (p : Packet)
    (hpt : aptLookup apt p.hdr.pt = none) :
    maybeUnwrap apt negotiated ssrc p = if negotiated = some p.hdr.ssrc then none else some p := by
  simp only [maybeUnwrap, hpt, Option.isNone_none, Bool.true_and]
  by_cases h : negotiated = some p.hdr.ssrc <;> simp [h]

/-- `rtx_pt_for_primary` can only answer with a payload type that the map associates with the primary one
(which one, if several, is the `HashMap`'s choice): the candidates are exactly the associated ones -/
theorem rtx_candidates_spec (m : List (UInt8 × UInt8)) (primary r : UInt8) :
    r ∈ rtxCandidates m primary ↔ (r, primary) ∈ m := by
  simp only [rtxCandidates, List.mem_map, List.mem_filter, beq_iff_eq]
  constructor
  · rintro ⟨⟨a, b⟩, ⟨hm, hb⟩, ha⟩; simp only at hb ha; subst hb; subst ha; exact hm
  · intro h; exact ⟨(r, primary), ⟨h, rfl⟩, rfl⟩

end RtcModel.C15
