/- C07 — WP proofs for `RtcModel.C07Media`. -/
import RtcModel.C07Media
namespace RtcModel.C07.Media
open RtcModel.C07

set_option maxRecDepth 8192 in
/-- one `push`: no panic; allocation ≤ 256·|payload| + 2·|reassembly buffer| + 1024; the reassembly buffer grows by at
most the payload -/
theorem h264Push_safe {B : Nat} (st : H264St) (seq ts : Nat) (marker : Bool) (payload : Array UInt8) {Q b n}
    (hn : n + 256 * payload.size + 2 * st.fua.size + 1024 ≤ B)
    (h : ∀ r n', n' ≤ n + 256 * payload.size + 2 * st.fua.size + 1024 → r.2.fua.size ≤ st.fua.size + payload.size → Q r b n') :
    safe (· ≤ B) (h264Push st seq ts marker payload) Q b n := by
  unfold h264Push
  simp only [show szSample = 512 from rfl]
  cur_auto
  any_goals (apply h <;> (try dsimp only) <;> (try simp only [Array.size_append, List.size_toArray, List.length_cons, List.length_nil]) <;> omega)
  apply safe_loop (fun s b' n' => b' = b ∧ 1 ≤ s.1 ∧ s.1 ≤ payload.size ∧ n' ≤ n + 256 * s.1) (fun s _ => payload.size - s.1)
  · intro s b' n' hinv
    obtain ⟨hb, h1, h2, h3⟩ := hinv
    subst hb
    unfold stapBody
    simp only [show szSample = 512 from rfl]
    cur_auto
    all_goals (apply h <;> domega)
  · exact ⟨rfl, by domega, by domega, by domega⟩
  · domega

attribute [local irreducible] h264Push

/-- a whole packet history: allocation ≤ 258·(total payload bytes so far, including what is buffered) + 1024 per packet -/
theorem h264Run_safe (pkts : List (Nat × Nat × Bool × Array UInt8)) (st : H264St) (b : Buf) (n : Nat) :
    safe (fun _ => True) (h264Run st pkts) (fun _ _ _ => True) b n := by
  induction pkts generalizing st n with
  | nil => unfold h264Run; exact safe_pure trivial
  | cons p rest ih =>
    unfold h264Run
    apply safe_bind
    apply safe_weaken_err (E := (· ≤ n + 256 * p.2.2.2.size + 2 * st.fua.size + 1024))
    · apply h264Push_safe _ _ _ _ _ (by omega)
      intro r n' _ _
      apply safe_bind
      apply safe_mono (ih r.2 n')
      intro _ _ _ _
      exact safe_pure trivial
    · intro _ _; trivial

theorem udptlRecv_safe (buf : Array UInt8) (b : Buf) :
    safe (· ≤ 17 * buf.size + 1400) (udptlRecv buf) (fun _ _ n' => n' ≤ 17 * buf.size + 1400) b 0 := by
  unfold udptlRecv
  simp only [RtcModel.Generated.c07UdptlMaxDatagram_val]
  cur_auto
  rename_i pLen _ _ _ _ _
  apply safe_loop (fun s b' n' => b' = b ∧ 4 ≤ s.1 ∧ s.1 ≤ buf.size ∧ n' + 16 ≤ 17 * s.1 + 1400) (fun s _ => buf.size - s.1)
  · intro s b' n' hinv
    obtain ⟨hb, h1, h2, h3⟩ := hinv
    subst hb
    unfold udptlRedBody
    cur_auto
  · exact ⟨rfl, by domega, by domega, by domega⟩
  · domega

/-! ### UDPTL receive buffer -/

theorem filter_ne_lt (l : List (Nat × Nat)) (k : Nat) (h : l.any (fun e => decide (e.1 = k)) = true) :
    (l.filter (fun e => decide (e.1 ≠ k))).length < l.length := by
  induction l with
  | nil => simp at h
  | cons a t ih =>
    have hle := List.length_filter_le (fun e : Nat × Nat => decide (e.1 ≠ k)) t
    rw [List.filter_cons]
    split
    · rename_i hk
      have hk' : a.1 ≠ k := by simpa using hk
      rw [List.any_cons] at h
      have ht : t.any (fun e => decide (e.1 = k)) = true := by simpa [hk'] using h
      have := ih ht
      simp only [List.length_cons]; omega
    · simp only [List.length_cons]; omega

theorem remove_len_le (u : UBuf) (k : Nat) : (u.remove k).buffer.length ≤ u.buffer.length := by
  unfold UBuf.remove; exact List.length_filter_le _ _

theorem popExpected_spec (u : UBuf) (h : u.has u.expected = true) :
    u.popExpected.buffer.length < u.buffer.length ∧ u.popExpected.maxSize = u.maxSize := by
  unfold UBuf.popExpected UBuf.remove
  exact ⟨filter_ne_lt _ _ (by simpa [UBuf.has] using h), rfl⟩

theorem popExpected_le (u : UBuf) : u.popExpected.buffer.length ≤ u.buffer.length ∧ u.popExpected.maxSize = u.maxSize := by
  unfold UBuf.popExpected
  exact ⟨remove_len_le u _, rfl⟩

theorem bufferedInsert_spec (u : UBuf) (seq len : Nat) (hu : u.buffer.length ≤ u.maxSize) (hm : u.maxSize < 65536) :
    (u.bufferedInsert seq len).buffer.length ≤ u.maxSize ∧ (u.bufferedInsert seq len).maxSize = u.maxSize ∧
    (u.bufferedInsert seq len).expected = u.expected := by
  unfold UBuf.bufferedInsert
  have h3 : u.buffer.length % 65536 = u.buffer.length := Nat.mod_eq_of_lt (by omega)
  split
  · have := remove_len_le u seq
    refine ⟨?_, rfl, rfl⟩
    simp only [List.length_cons]; omega
  · exact ⟨hu, rfl, rfl⟩

/-- `flush_contiguous` terminates (each round removes an entry) and never grows the buffer -/
theorem flushContiguous_safe {E : Nat → Prop} (u : UBuf) {Q b n}
    (h : ∀ u', u'.buffer.length ≤ u.buffer.length → u'.maxSize = u.maxSize → Q u' b n) :
    safe E (flushContiguous u) Q b n := by
  unfold flushContiguous
  apply safe_loop (fun u' b' n' => b' = b ∧ n' = n ∧ u'.buffer.length ≤ u.buffer.length ∧ u'.maxSize = u.maxSize)
    (fun u' _ => u'.buffer.length)
  · intro u' b' n' hinv
    obtain ⟨hb, hn, hl, hm⟩ := hinv
    subst hb hn
    unfold flushContiguousBody
    apply safe_ite <;> intro hh
    · apply safe_pure
      have h1 := popExpected_spec u' hh
      dsimp only
      exact ⟨⟨rfl, rfl, by omega, by rw [h1.2]; exact hm⟩, h1.1⟩
    · apply safe_pure
      exact h _ hl hm
  · exact ⟨rfl, rfl, Nat.le_refl _, rfl⟩
  · omega

attribute [local irreducible] flushContiguous

theorem cleanupStale_len (u : UBuf) : (cleanupStale u).buffer.length ≤ u.buffer.length ∧ (cleanupStale u).maxSize = u.maxSize := by
  unfold cleanupStale; exact ⟨List.length_filter_le _ _, rfl⟩

/-- one delivery: total, and the out-of-order buffer never exceeds `max_size` entries -/
theorem tryDeliver_safe {E : Nat → Prop} (u : UBuf) (seq len : Nat) {Q b n} (hu : u.buffer.length ≤ u.maxSize) (hm : u.maxSize < 65536)
    (h : ∀ r, r.2.buffer.length ≤ r.2.maxSize → r.2.maxSize = u.maxSize → Q r b n) :
    safe E (tryDeliver u seq len) Q b n := by
  unfold tryDeliver
  dsimp only
  apply safe_ite <;> intro h1
  · apply safe_pure; apply h <;> simp only <;> omega
  apply safe_ite <;> intro h2
  · apply safe_bind
    apply flushContiguous_safe
    intro u' hl hm'
    apply safe_pure
    have := cleanupStale_len u'
    apply h <;> simp only at * <;> omega
  apply safe_ite <;> intro h3
  · have hb := bufferedInsert_spec { u with received := u.received + 1 } seq len hu hm
    generalize UBuf.bufferedInsert { u with received := u.received + 1 } seq len = u2 at *
    apply safe_ite <;> intro h4
    · have hp := popExpected_le u2
      apply safe_bind
      apply flushContiguous_safe
      intro u' hl hm'
      apply safe_pure
      apply h <;> simp only at * <;> omega
    · apply safe_pure; apply h <;> simp only at * <;> omega
  · apply safe_pure; apply h <;> simp only <;> omega

attribute [local irreducible] tryDeliver

theorem deliverRun_safe (ops : List (Nat × Nat)) (u : UBuf) (b : Buf) (n : Nat) (hu : u.buffer.length ≤ u.maxSize) (hm : u.maxSize < 65536) :
    safe (fun _ => True) (deliverRun u ops)
      (fun r _ _ => ∀ d ∈ r, ∀ cnt, d[2]? = some cnt → cnt ≤ u.maxSize) b n := by
  induction ops generalizing u n with
  | nil => unfold deliverRun; apply safe_pure; intro d hd; simp at hd
  | cons p rest ih =>
    unfold deliverRun
    apply safe_bind
    apply tryDeliver_safe _ _ _ hu hm
    intro r hr1 hr2
    apply safe_bind
    apply safe_mono (ih r.2 n hr1 (by omega))
    intro more _ _ hmore
    apply safe_pure
    intro d hd cnt hc
    simp only [List.mem_cons] at hd
    rcases hd with rfl | hd
    · simp at hc; omega
    · have := hmore d hd cnt hc; omega

end RtcModel.C07.Media
