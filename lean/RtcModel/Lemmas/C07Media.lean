/- C07 — WP proofs for `RtcModel.C07Media`. -/
import RtcModel.C07Media
namespace RtcModel.C07.Media
open RtcModel.C07

set_option maxRecDepth 8192 in
/-- one `push`: no panic; allocation ≤ 256·|payload| + 2·|reassembly buffer| + 1024; the reassembly buffer grows by at
most the payload -/
theorem h264Push_safe {B : Nat} (st : H264St) (seq ts : Nat) (marker : Bool) (payload : Array UInt8) {Q b n}
    (hn : n + 256 * payload.size + 2 * st.fua.size + 1024 ≤ B)
    (h : ∀ r n', n' ≤ n + 256 * payload.size + 2 * st.fua.size + 1024 → r.2.fua.size ≤ st.fua.size + payload.size → Q r b n') :
    safe (· ≤ B) (h264Push st seq ts marker payload) Q b n := by
  unfold h264Push
  simp only [show szSample = 512 from rfl]
  cur_auto
  any_goals (apply h <;> (try dsimp only) <;> (try simp only [Array.size_append, List.size_toArray, List.length_cons, List.length_nil]) <;> omega)
  apply safe_loop (fun s b' n' => b' = b ∧ 1 ≤ s.1 ∧ s.1 ≤ payload.size ∧ n' ≤ n + 256 * s.1) (fun s _ => payload.size - s.1)
  · intro s b' n' hinv
    obtain ⟨hb, h1, h2, h3⟩ := hinv
    subst hb
    unfold stapBody
    simp only [show szSample = 512 from rfl]
    cur_auto
    all_goals (apply h <;> domega)
  · exact ⟨rfl, by domega, by domega, by domega⟩
  · domega

attribute [local irreducible] h264Push

/-- a whole packet history: allocation ≤ 258·(total payload bytes so far, including what is buffered) + 1024 per packet -/
theorem h264Run_safe (pkts : List (Nat × Nat × Bool × Array UInt8)) (st : H264St) (b : Buf) (n : Nat) :
    safe (fun _ => True) (h264Run st pkts) (fun _ _ _ => True) b n := by
  induction pkts generalizing st n with
  | nil => unfold h264Run; exact safe_pure trivial
  | cons p rest ih =>
    unfold h264Run
    apply safe_bind
    apply safe_weaken_err (E := (· ≤ n + 256 * p.2.2.2.size + 2 * st.fua.size + 1024))
    · apply h264Push_safe _ _ _ _ _ (by omega)
      intro r n' _ _
      apply safe_bind
      apply safe_mono (ih r.2 n')
      intro _ _ _ _
      exact safe_pure trivial
    · intro _ _; trivial

theorem udptlRecv_safe (buf : Array UInt8) (b : Buf) :
    safe (· ≤ 17 * buf.size) (udptlRecv buf) (fun _ _ n' => n' ≤ 17 * buf.size) b 0 := by
  unfold udptlRecv
  cur_auto
  rename_i pLen _ _ _ _ _
  apply safe_loop (fun s b' n' => b' = b ∧ 4 ≤ s.1 ∧ s.1 ≤ buf.size ∧ n' + 16 ≤ 17 * s.1) (fun s _ => buf.size - s.1)
  · intro s b' n' hinv
    obtain ⟨hb, h1, h2, h3⟩ := hinv
    subst hb
    unfold udptlRedBody
    cur_auto
  · exact ⟨rfl, by domega, by domega, by domega⟩
  · domega

end RtcModel.C07.Media
