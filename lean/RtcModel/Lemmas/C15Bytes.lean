/- C15 — lemmas about the big-endian codecs of `Base/C15Bytes.lean` (core Lean only). -/
import RtcModel.Base.C15Bytes

namespace RtcModel.C15

@[simp] theorem u8_toNat (n : Nat) : (u8 n).toNat = n % 256 := by simp [u8]

theorem u8_toNat_lt {n : Nat} (h : n < 256) : (u8 n).toNat = n := by simp [u8]; omega

@[simp] theorem u8_of_toNat (b : UInt8) : u8 b.toNat = b := by simp [u8]

@[simp] theorem rd16_be16 (x : UInt16) : rd16 (u8 (x.toNat / 256)) (u8 (x.toNat % 256)) = x := by
  apply UInt16.toNat_inj.mp
  have := x.toNat_lt
  simp [rd16]
  omega

@[simp] theorem rd32_be32 (x : UInt32) :
    rd32 (u8 (x.toNat / 16777216)) (u8 (x.toNat / 65536 % 256)) (u8 (x.toNat / 256 % 256)) (u8 (x.toNat % 256)) = x := by
  apply UInt32.toNat_inj.mp
  have := x.toNat_lt
  simp [rd32]
  omega

theorem rd16_toNat (a b : UInt8) : (rd16 a b).toNat = a.toNat * 256 + b.toNat := by
  have := a.toNat_lt; have := b.toNat_lt
  simp [rd16]; omega

/-- reading back the low 16 bits written by `be16n` -/
theorem rd16_be16n (n : Nat) : (rd16 (u8 (n / 256 % 256)) (u8 (n % 256))).toNat = n % 65536 := by
  rw [rd16_toNat]; simp; omega

theorem rd24n_be24n (n : Nat) : rd24n (u8 (n / 65536 % 256)) (u8 (n / 256 % 256)) (u8 (n % 256)) = n % 16777216 := by
  simp [rd24n]; omega

@[simp] theorem be16_length (x : UInt16) : (be16 x).length = 2 := rfl
@[simp] theorem be32_length (x : UInt32) : (be32 x).length = 4 := rfl
@[simp] theorem be16n_length (n : Nat) : (be16n n).length = 2 := rfl
@[simp] theorem be24n_length (n : Nat) : (be24n n).length = 3 := rfl

@[simp] theorem be32s_nil : be32s [] = [] := rfl
@[simp] theorem be32s_cons (x : UInt32) (xs : List UInt32) : be32s (x :: xs) = be32 x ++ be32s xs := by
  simp [be32s]

@[simp] theorem be32s_length (xs : List UInt32) : (be32s xs).length = 4 * xs.length := by
  induction xs with
  | nil => rfl
  | cons x xs ih => simp [ih]; omega

@[simp] theorem readU32s_be32s (xs : List UInt32) (rest : Bytes) :
    readU32s xs.length (be32s xs ++ rest) = (xs, rest) := by
  induction xs with
  | nil => simp [readU32s]
  | cons x xs ih => simp [readU32s, be32, ih]

theorem pad4_lt (n : Nat) : pad4 n < 4 := by unfold pad4; omega
theorem pad4_aligned (n : Nat) : (n + pad4 n) % 4 = 0 := by unfold pad4; omega
theorem pad4_zero {n : Nat} (h : n % 4 = 0) : pad4 n = 0 := by unfold pad4; omega

end RtcModel.C15
