/-
Helper lemmas: on an unordered channel the TSN-layer run with skips (`procA`: FORWARD-TSNs with any
stream/SSN pairs) and the payload-layer run of `Lemmas/SctpPr.lean` (`procKeep`: plain reassembly
reset) show the same channel — the stream table, which the skips may touch, is never read by an
unordered channel.
-/
import RtcModel.Lemmas.SctpFwdLayer

namespace RtcModel.Sctp
open RtcModel.Generated

/-! ### the channel `sid` as seen through two payload states -/

/-- a skip step for a stream whose pending set is empty leaves channel `sid` alone -/
theorem fwdStream_view (x : Pl) (p : UInt16 × UInt16) (sid : UInt16)
    (hs : (getStream x.streams sid).pending = []) :
    findChan (fwdStream x p).chans sid = findChan x.chans sid ∧
    (getStream (fwdStream x p).streams sid).pending = [] := by
  by_cases hp : p.1 = sid
  · -- the channel's own stream: nothing is pending, nothing is delivered
    have hg : (getStream x.streams p.1).pending = [] := by rw [hp]; exact hs
    have ha : ((getStream x.streams p.1).advanceSsnTo p.2).pending = [] := by
      unfold InStream.advanceSsnTo; split <;> simp [hg]
    have hd : ((getStream x.streams p.1).advanceSsnTo p.2).drainReady = ((getStream x.streams p.1).advanceSsnTo p.2, []) := by
      simp [InStream.drainReady, ha, InStream.drainGo]
    simp only [fwdStream, hd, List.isEmpty_nil, if_true]
    refine ⟨trivial, ?_⟩
    rw [← hp, getStream_setStream]; exact ha
  · unfold fwdStream
    simp only []
    split
    · exact ⟨rfl, by simp only []; rw [getStream_setStream_other _ _ _ _ (Ne.symm hp)]; exact hs⟩
    · split
      · next dc hf =>
        refine ⟨?_, by simp only []; rw [getStream_setStream_other _ _ _ _ (Ne.symm hp)]; exact hs⟩
        simp only []
        apply findChan_setChan_other
        have := findChan_id _ _ _ hf
        simp only [Chan.emitAll]
        rw [this]; exact hp
      · exact ⟨rfl, by simp only []; rw [getStream_setStream_other _ _ _ _ (Ne.symm hp)]; exact hs⟩

theorem findChan_resetPl (pl : Pl) (sid : UInt16) :
    findChan (resetPl pl).chans sid = (findChan pl.chans sid).map (fun dc => { dc with reasm := [] }) := by
  simp only [resetPl, findChan, List.find?_map]
  have : ((fun c : Chan => c.id == sid) ∘ (fun c : Chan => { c with reasm := [] })) = (fun c : Chan => c.id == sid) := rfl
  rw [this]

theorem skipPl_view (a : Pl) (ps : List (UInt16 × UInt16)) (sid : UInt16)
    (hs : (getStream a.streams sid).pending = []) :
    findChan (skipPl a ps).chans sid = (findChan a.chans sid).map (fun dc => { dc with reasm := [] }) ∧
    (getStream (skipPl a ps).streams sid).pending = [] := by
  have key : ∀ (ps : List (UInt16 × UInt16)) (x : Pl), (getStream x.streams sid).pending = [] →
      findChan (ps.foldl fwdStream x).chans sid = findChan x.chans sid ∧
      (getStream (ps.foldl fwdStream x).streams sid).pending = [] := by
    intro ps
    induction ps with
    | nil => intro x h; exact ⟨rfl, h⟩
    | cons p rest ih =>
      intro x h
      obtain ⟨h1, h2⟩ := fwdStream_view x p sid h
      obtain ⟨h3, h4⟩ := ih (fwdStream x p) h2
      exact ⟨by simp only [List.foldl_cons]; rw [h3, h1], by simpa only [List.foldl_cons] using h4⟩
  obtain ⟨h1, h2⟩ := key ps (resetPl a) (by simpa [resetPl] using hs)
  exact ⟨by unfold skipPl; rw [h1, findChan_resetPl], by unfold skipPl; exact h2⟩

/-- a chunk for the unordered channel `sid` is processed from that channel's state alone, and
leaves the stream table alone -/
theorem procData_view (a b : Pl) (c : DChunk) (sid : UInt16) (hc : c.sid = sid)
    (h : findChan a.chans sid = findChan b.chans sid)
    (hu : ∀ dc, findChan a.chans sid = some dc → dc.ordered = false) :
    findChan (procData a c).chans sid = findChan (procData b c).chans sid ∧
    (procData a c).streams = a.streams ∧
    (∀ dc, findChan (procData a c).chans sid = some dc → dc.ordered = false) := by
  unfold procData
  rw [hc]
  cases hfa : findChan a.chans sid with
  | none =>
    rw [hfa] at h
    rw [← h]
    simp only []
    exact ⟨by rw [hfa, ← h], (by first | rfl | trivial), by intro dc hdc; rw [hfa] at hdc; cases hdc⟩
  | some dc =>
    rw [hfa] at h
    rw [← h]
    simp only []
    have hord := hu dc hfa
    have hid := findChan_id _ _ _ hfa
    -- the channel `deliverTo'` works on
    have hd2 : ∀ x : Pl, deliverTo x dc c = deliverTo' x (if dc.negotiated then openOnce dc else dc) c := fun _ => rfl
    have hord2 : (if dc.negotiated then openOnce dc else dc).ordered = false := by
      split
      · unfold openOnce; split <;> simpa [Chan.emit] using hord
      · exact hord
    have hid2 : (if dc.negotiated then openOnce dc else dc).id = sid := by
      split
      · rw [(openOnce_mono dc).1]; exact hid
      · exact hid
    generalize (if dc.negotiated then openOnce dc else dc) = d at hord2 hid2 hd2
    rw [hd2 a, hd2 b]
    have hcond : (c.uBit || !d.ordered) = true := by simp [hord2]
    unfold deliverTo'
    simp only [hcond, if_true]
    split
    · exact ⟨by rw [hfa, ← h], (by first | rfl | trivial), by intro dc' hdc'; rw [hfa] at hdc'; cases hdc'; exact hord⟩
    · split
      · have e1 := findChan_setChan_same a.chans sid dc (({ d with reasm := [] } : Chan).emit (.msg ((if c.bBit then [] else d.reasm) ++ c.data))) hfa (by simpa [Chan.emit] using hid2)
        have e2 := findChan_setChan_same b.chans sid dc (({ d with reasm := [] } : Chan).emit (.msg ((if c.bBit then [] else d.reasm) ++ c.data))) h.symm (by simpa [Chan.emit] using hid2)
        simp only [] at e1 e2 ⊢
        refine ⟨by rw [e1, e2], (by first | rfl | trivial), ?_⟩
        intro dc' hdc'
        rw [e1] at hdc'
        cases hdc'
        simpa [Chan.emit] using hord2
      · have e1 := findChan_setChan_same a.chans sid dc ({ d with reasm := (if c.bBit then [] else d.reasm) ++ c.data } : Chan) hfa hid2
        have e2 := findChan_setChan_same b.chans sid dc ({ d with reasm := (if c.bBit then [] else d.reasm) ++ c.data } : Chan) h.symm hid2
        simp only [] at e1 e2 ⊢
        refine ⟨by rw [e1, e2], (by first | rfl | trivial), ?_⟩
        intro dc' hdc'
        rw [e1] at hdc'
        cases hdc'
        exact hord2

/-! ### the two runs show the same channel -/

/-- the keep/skip view of an action table -/
def keepOf (act : SkipAct) : Nat → Bool := fun i => (act i).isNone

theorem bridge (act : SkipAct) (t0 : UInt32) (sid : UInt16) :
    ∀ (cs : List DChunk) (i : Nat) (a b : Pl),
      findChan a.chans sid = findChan b.chans sid →
      (∀ dc, findChan a.chans sid = some dc → dc.ordered = false) →
      (getStream a.streams sid).pending = [] →
      (∀ c ∈ cs, c.sid = sid) →
      (∀ x (h : x < cs.length), (cs[x].tsn - t0).toNat = i + x) →
      findChan (plRun (procA procDataP act t0) a cs).chans sid = findChan (procKeep (keepOf act) i b cs).chans sid := by
  intro cs
  induction cs with
  | nil => intro i a b h _ _ _ _; exact h
  | cons c rest ih =>
    intro i a b h hu hs hsid hidx
    have hi0 : (c.tsn - t0).toNat = i := by
      have := hidx 0 (by simp)
      simpa using this
    have hrest : ∀ x (hx : x < rest.length), (rest[x].tsn - t0).toNat = (i + 1) + x := by
      intro x hx
      have := hidx (x + 1) (by simp; omega)
      simp only [List.getElem_cons_succ] at this
      omega
    have hsid' : ∀ c' ∈ rest, c'.sid = sid := fun c' hc' => hsid c' (by simp [hc'])
    simp only [plRun_cons, procKeep]
    cases hact : act i with
    | none =>
      have e1 : (procA procDataP act t0 a c).1 = procData a c := by simp [procA, hi0, hact, procDataP]
      have e2 : keepOf act i = true := by simp [keepOf, hact]
      rw [e1, e2]
      simp only [if_true]
      obtain ⟨v1, v2, v3⟩ := procData_view a b c sid (hsid c (by simp)) h hu
      exact ih (i + 1) _ _ v1 v3 (by rw [v2]; exact hs) hsid' hrest
    | some ps =>
      have e1 : (procA procDataP act t0 a c).1 = skipPl a ps := by simp [procA, hi0, hact]
      have e2 : keepOf act i = false := by simp [keepOf, hact]
      rw [e1, e2]
      simp only [Bool.false_eq_true, if_false]
      obtain ⟨w1, w2⟩ := skipPl_view a ps sid hs
      refine ih (i + 1) _ _ (by rw [w1, findChan_resetPl, h]) ?_ w2 hsid' hrest
      intro dc hdc
      rw [w1] at hdc
      cases hfa : findChan a.chans sid with
      | none => rw [hfa] at hdc; cases hdc
      | some d0 =>
        rw [hfa] at hdc
        simp only [Option.map_some] at hdc
        cases hdc
        exact hu d0 hfa

theorem procKeep_congr (k1 k2 : Nat → Bool) : ∀ (cs : List DChunk) (i : Nat) (pl : Pl),
    (∀ x, x < cs.length → k1 (i + x) = k2 (i + x)) → procKeep k1 i pl cs = procKeep k2 i pl cs := by
  intro cs
  induction cs with
  | nil => intro i pl _; rfl
  | cons c rest ih =>
    intro i pl h
    have h0 : k1 i = k2 i := by simpa using h 0 (by simp)
    simp only [procKeep, h0]
    apply ih
    intro x hx
    have := h (x + 1) (by simp; omega)
    have e : i + (x + 1) = i + 1 + x := by omega
    rw [e] at this; exact this

/-- skipping every remaining chunk adds no event to the channel -/
theorem procKeep_allskip (keep : Nat → Bool) (sid : UInt16) : ∀ (cs : List DChunk) (i : Nat) (pl : Pl),
    (∀ x, keep (i + x) = false) →
    (findChan (procKeep keep i pl cs).chans sid).map (·.events) = (findChan pl.chans sid).map (·.events) := by
  intro cs
  induction cs with
  | nil => intro i pl _; rfl
  | cons c rest ih =>
    intro i pl h
    have h0 : keep i = false := by simpa using h 0
    simp only [procKeep, h0, Bool.false_eq_true, if_false]
    have hnext : ∀ x, keep (i + 1 + x) = false := by
      intro x
      have := h (x + 1)
      have e : i + (x + 1) = i + 1 + x := by omega
      rw [e] at this; exact this
    rw [ih (i + 1) (resetPl pl) hnext]
    rw [findChan_resetPl]
    cases findChan pl.chans sid <;> rfl

/-- every chunk `send_data_raw` produces for channel `sid` carries that stream id -/
theorem sendAll_sid (sid : UInt16) (ppid : UInt32) : ∀ (msgs : List Bytes) (cs : List TxChan),
    ∀ o ∈ (sendAll cs sid ppid msgs).2, o.sid = sid := by
  intro msgs
  induction msgs with
  | nil => intro cs o ho; simp [sendAll] at ho
  | cons m rest ih =>
    intro cs o ho
    simp only [sendAll, List.mem_append] at ho
    cases ho with
    | inl h =>
      unfold sendDataRaw at h
      split at h
      · simp only [List.mem_map] at h; obtain ⟨f, _, rfl⟩ := h; rfl
      · simp only [List.mem_map] at h; obtain ⟨f, _, rfl⟩ := h; rfl
    | inr h => exact ih _ o h

end RtcModel.Sctp
