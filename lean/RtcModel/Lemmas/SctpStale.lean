/-
Helper lemmas: a SACK — however old — only ever makes `apply_sack_to_sent_queue` mark records
(`acked`, payload freed) whose TSN one of its gap blocks names *relative to its own cumulative TSN*,
and the blocks `build_gap_ack_blocks_from_map` produces name only TSNs the receiver holds.
-/
import RtcModel.SctpSack
import RtcModel.Lemmas.SctpGap

namespace RtcModel.Sctp
open RtcModel.Generated

/-- the TSNs a gap block selects in `apply_sack_to_sent_queue`: `range(s..=e)` when `s ≤ e`
numerically, else the two wrapped ranges -/
def selects (cum : UInt32) (g : UInt16 × UInt16) (t : UInt32) : Prop :=
  if cum + g.1.toUInt32 ≤ cum + g.2.toUInt32 then cum + g.1.toUInt32 ≤ t ∧ t ≤ cum + g.2.toUInt32
  else cum + g.1.toUInt32 ≤ t ∨ t ≤ cum + g.2.toUInt32

theorem gapSelect_sel (q : List SRec) (s e t : UInt32) (h : t ∈ gapSelect q s e) :
    if s ≤ e then s ≤ t ∧ t ≤ e else s ≤ t ∨ t ≤ e := by
  unfold gapSelect at h
  split
  · next hse =>
    simp only [hse, if_true, List.mem_map, List.mem_filter, Bool.and_eq_true, decide_eq_true_eq] at h
    obtain ⟨r, ⟨_, h1, h2⟩, rfl⟩ := h
    exact ⟨h1, h2⟩
  · next hse =>
    simp only [hse, if_false, List.mem_append, List.mem_map, List.mem_filter, decide_eq_true_eq] at h
    cases h with
    | inl h => obtain ⟨r, ⟨_, h1⟩, rfl⟩ := h; exact Or.inl h1
    | inr h => obtain ⟨r, ⟨_, h1⟩, rfl⟩ := h; exact Or.inr h1

theorem gapAckRec_tsn (now : Nat) (o : SackOutcome) (r : SRec) : (gapAckRec now o r).2.tsn = r.tsn := by
  unfold gapAckRec; split <;> rfl

theorem gapAckAt_mem (now : Nat) (t : UInt32) : ∀ (l : List SRec) (o : SackOutcome),
    ∀ x ∈ (gapAckAt now t l o).1, x ∈ l ∨ x.tsn = t := by
  intro l
  induction l with
  | nil => intro o x hx; simp [gapAckAt] at hx
  | cons r rest ih =>
    intro o x hx
    unfold gapAckAt at hx
    split at hx
    · next heq =>
      simp only [List.mem_cons] at hx
      cases hx with
      | inl h => right; rw [h, gapAckRec_tsn]; simpa using heq
      | inr h => left; simp [h]
    · simp only [List.mem_cons] at hx
      cases hx with
      | inl h => left; simp [h]
      | inr h =>
        cases ih o x h with
        | inl h' => left; simp [h']
        | inr h' => right; exact h'

/-- after the gap-block step every record is either untouched or has a TSN some block selects -/
theorem gapFold_mem (now : Nat) (cum : UInt32) (q1 : List SRec) (all : List (UInt16 × UInt16)) :
    ∀ (gaps : List (UInt16 × UInt16)), (∀ g ∈ gaps, g ∈ all) →
    ∀ (st : List SRec × SackOutcome), (∀ x ∈ st.1, x ∈ q1 ∨ ∃ g ∈ all, selects cum g x.tsn) →
    ∀ x ∈ (gaps.foldl (gapBlockApply now cum) st).1, x ∈ q1 ∨ ∃ g ∈ all, selects cum g x.tsn := by
  intro gaps
  induction gaps with
  | nil => intro _ st h; exact h
  | cons g rest ih =>
    intro hall st h
    simp only [List.foldl_cons]
    apply ih (fun g' hg' => hall g' (by simp [hg']))
    -- one block: fold over the selected TSNs
    have inner : ∀ (ts : List UInt32), (∀ t ∈ ts, selects cum g t) →
        ∀ (st' : List SRec × SackOutcome), (∀ x ∈ st'.1, x ∈ q1 ∨ ∃ g ∈ all, selects cum g x.tsn) →
        ∀ x ∈ (ts.foldl (fun st t => gapAckAt now t st.1 st.2) st').1, x ∈ q1 ∨ ∃ g ∈ all, selects cum g x.tsn := by
      intro ts
      induction ts with
      | nil => intro _ st' h'; exact h'
      | cons t ts iht =>
        intro hts st' h'
        simp only [List.foldl_cons]
        apply iht (fun t' ht' => hts t' (by simp [ht']))
        intro x hx
        cases gapAckAt_mem now t st'.1 st'.2 x hx with
        | inl hm => exact h' x hm
        | inr ht => right; exact ⟨g, hall g (by simp), by rw [ht]; exact hts t (by simp)⟩
    unfold gapBlockApply
    exact inner _ (fun t ht => by unfold selects; exact gapSelect_sel _ _ _ t ht) st h

theorem ite_snd {α β : Type} (c : Prop) [Decidable c] (a b : α × β) (P : β → Prop) (h1 : P a.2) (h2 : P b.2) :
    P (if c then a else b).2 := by
  split <;> assumption

theorem missingRec_keeps (now : Nat) (cm : Bool) (mx : Nat) (maxRep : UInt32) (o : SackOutcome) (r : SRec) :
    (missingRec now cm mx maxRep o r).2.tsn = r.tsn ∧ (missingRec now cm mx maxRep o r).2.acked = r.acked := by
  unfold missingRec
  split
  · split
    · exact ⟨rfl, rfl⟩
    · exact ite_snd _ _ _ (fun x : SRec => x.tsn = r.tsn ∧ x.acked = r.acked) ⟨rfl, rfl⟩ ⟨rfl, rfl⟩
  · exact ⟨rfl, rfl⟩

theorem missingPass_keeps (now : Nat) (cm : Bool) (mx : Nat) (maxRep : UInt32) :
    ∀ (l : List SRec) (o : SackOutcome), ∀ x' ∈ (missingPass now cm mx maxRep l o).1,
      ∃ x ∈ l, x.tsn = x'.tsn ∧ x.acked = x'.acked := by
  intro l
  induction l with
  | nil => intro o x' h; simp [missingPass] at h
  | cons r rest ih =>
    intro o x' h
    simp only [missingPass, List.mem_cons] at h
    cases h with
    | inl h =>
      have := missingRec_keeps now cm mx maxRep o r
      exact ⟨r, by simp, by rw [h]; exact this.1.symm, by rw [h]; exact this.2.symm⟩
    | inr h =>
      obtain ⟨x, hx, h1, h2⟩ := ih _ x' h
      exact ⟨x, by simp [hx], h1, h2⟩

/-- **applySack_acked_named**: a record that is `acked` (payload freed, never retransmitted) after
`apply_sack_to_sent_queue` was already so before, or its TSN is selected by one of the SACK's gap
blocks relative to the SACK's own cumulative TSN -/
theorem applySack_acked_named (q : List SRec) (cum : UInt32) (gaps : List (UInt16 × UInt16)) (now : Nat)
    (cm : Bool) (mx : Nat) (x' : SRec) (hx : x' ∈ (applySack q cum gaps now cm mx).1) (ha : x'.acked = true) :
    (∃ x ∈ q, x.tsn = x'.tsn ∧ x.acked = true) ∨ ∃ g ∈ gaps, selects cum g x'.tsn := by
  unfold applySack at hx
  split at hx
  · exact Or.inl ⟨x', hx, rfl, ha⟩
  · simp only [] at hx
    obtain ⟨x2, hx2, ht, hac⟩ := missingPass_keeps _ _ _ _ _ _ x' hx
    have := gapFold_mem now cum (q.filter (fun r => !i32NonPos (r.tsn - cum))) gaps gaps (fun g h => h)
      (q.filter (fun r => !i32NonPos (r.tsn - cum)), _) (fun x h => Or.inl h) x2 hx2
    cases this with
    | inl h => exact Or.inl ⟨x2, (List.mem_filter.mp h).1, ht, by rw [hac]; exact ha⟩
    | inr h => right; rw [← ht]; exact h

/-! ### blocks built by the receiver select only held TSNs -/

def SelGood (keys : List UInt32) (cum : UInt32) (b : UInt16 × UInt16) : Prop :=
  ∀ t, selects cum b t → t ∈ keys

theorem pushBlock_sel (keys : List UInt32) (cum : UInt32) (blocks : List (UInt16 × UInt16)) (st en : UInt32)
    (hb : ∀ b ∈ blocks, SelGood keys cum b) (hr : RunIn keys st en) :
    ∀ b ∈ pushBlock cum blocks (st, en), SelGood keys cum b := by
  unfold pushBlock
  simp only []
  split
  · next hc =>
    intro b hbm
    simp only [List.mem_append, List.mem_singleton] at hbm
    cases hbm with
    | inl h => exact hb b h
    | inr h =>
      subst h
      intro t hsel
      rw [Bool.and_eq_true] at hc
      have hso := u32_le_ffff _ (of_decide_eq_true hc.1)
      have heo := u32_le_ffff _ (of_decide_eq_true hc.2)
      have e1 : cum + ((st - cum).toUInt16).toUInt32 = st := by
        apply UInt32.toNat_inj.mp
        have := u16_of_small _ hso
        simp only [UInt32.toNat_add, UInt16.toNat_toUInt32, this, UInt32.toNat_sub] at hso ⊢
        have := cum.toNat_lt; have := st.toNat_lt
        omega
      have e2 : cum + ((en - cum).toUInt16).toUInt32 = en := by
        apply UInt32.toNat_inj.mp
        have := u16_of_small _ heo
        simp only [UInt32.toNat_add, UInt16.toNat_toUInt32, this, UInt32.toNat_sub] at heo ⊢
        have := cum.toNat_lt; have := en.toNat_lt
        omega
      unfold selects at hsel
      simp only [e1, e2] at hsel
      have hss := st.toNat_lt
      have hes := en.toNat_lt
      have hts := t.toNat_lt
      have hd := hr (t - st).toNat (by
        split at hsel
        · next hle =>
          have a := UInt32.le_iff_toNat_le.mp hle
          have b := UInt32.le_iff_toNat_le.mp hsel.1
          have c := UInt32.le_iff_toNat_le.mp hsel.2
          simp only [UInt32.toNat_sub]; omega
        · next hle =>
          have a : ¬ st.toNat ≤ en.toNat := fun h => hle (UInt32.le_iff_toNat_le.mpr h)
          cases hsel with
          | inl h => have b := UInt32.le_iff_toNat_le.mp h; simp only [UInt32.toNat_sub]; omega
          | inr h => have b := UInt32.le_iff_toNat_le.mp h; simp only [UInt32.toNat_sub]; omega)
      have : st + UInt32.ofNat (t - st).toNat = t := by
        apply UInt32.toNat_inj.mp
        have e : (UInt32.ofNat (t - st).toNat).toNat = (t - st).toNat % 4294967296 := by simp
        have e' : (t - st).toNat = (4294967296 - st.toNat + t.toNat) % 4294967296 := UInt32.toNat_sub t st
        rw [UInt32.toNat_add, e, e']
        omega
      rw [← this]; exact hd
  · exact hb

theorem gapLoop_sel (keys : List UInt32) (cum : UInt32) :
    ∀ (rest : List UInt32) (cur : Option (UInt32 × UInt32)) (blocks : List (UInt16 × UInt16)),
      (∀ t ∈ rest, t ∈ keys) → (∀ b ∈ blocks, SelGood keys cum b) →
      (∀ st en, cur = some (st, en) → RunIn keys st en) →
      (∀ b ∈ (gapLoop cum rest cur blocks).1, SelGood keys cum b) ∧
      (∀ st en, (gapLoop cum rest cur blocks).2 = some (st, en) → RunIn keys st en) := by
  intro rest
  induction rest with
  | nil => intro cur blocks _ hb hc; exact ⟨hb, hc⟩
  | cons t rest ih =>
    intro cur blocks hk hb hc
    have hkr : ∀ t' ∈ rest, t' ∈ keys := fun t' h => hk t' (by simp [h])
    have ht : t ∈ keys := hk t (by simp)
    unfold gapLoop
    split
    · exact ih cur blocks hkr hb hc
    · have hself : RunIn keys t t := by
        intro d hd
        have : d = 0 := by simpa using hd
        subst this
        have : t + UInt32.ofNat 0 = t := by apply UInt32.toNat_inj.mp; simp
        rw [this]; exact ht
      have key : ∀ r : List (UInt16 × UInt16) × Option (UInt32 × UInt32),
          (∀ b ∈ r.1, SelGood keys cum b) → (∀ st en, r.2 = some (st, en) → RunIn keys st en) →
          (∀ b ∈ (if r.1.length ≥ sctpGapBlocksMax then r else gapLoop cum rest r.2 r.1).1, SelGood keys cum b) ∧
          (∀ st en, (if r.1.length ≥ sctpGapBlocksMax then r else gapLoop cum rest r.2 r.1).2 = some (st, en) → RunIn keys st en) := by
        intro r h1 h2
        split
        · exact ⟨h1, h2⟩
        · exact ih r.2 r.1 hkr h1 h2
      cases cur with
      | none =>
        exact key (blocks, some (t, t)) hb (by intro st en h; cases h; exact hself)
      | some se =>
        obtain ⟨st, en⟩ := se
        simp only []
        split
        · next heq =>
          refine key (blocks, some (st, t)) hb ?_
          intro st' en' h
          cases h
          have hrun := hc st en rfl
          have hte : t = en + 1 := by simpa using heq
          intro d hd
          by_cases hd' : d ≤ (en - st).toNat
          · exact hrun d hd'
          · have hss := st.toNat_lt
            have hes := en.toNat_lt
            have : st + UInt32.ofNat d = t := by
              rw [hte]
              apply UInt32.toNat_inj.mp
              rw [hte] at hd
              have e1 : (UInt32.ofNat d).toNat = d % 4294967296 := by simp
              simp only [UInt32.toNat_add, UInt32.toNat_sub, UInt32.toNat_one, e1] at hd hd' ⊢
              omega
            rw [this]; exact ht
        · refine key (pushBlock cum blocks (st, en), some (t, t)) (pushBlock_sel keys cum blocks st en hb (hc st en rfl)) ?_
          intro st' en' h; cases h; exact hself

/-- every TSN a block of `build_gap_ack_blocks_from_map(held, cum)` selects at the sender is held -/
theorem gapBlocks_sel (held : List UInt32) (cum : UInt32) :
    ∀ b ∈ gapBlocks held cum, ∀ t, selects cum b t → t ∈ held := by
  intro b hb t hs
  have key : ∀ b ∈ gapBlocksSorted (sortKeys held) cum, SelGood (sortKeys held) cum b := by
    obtain ⟨h1, h2⟩ := gapLoop_sel (sortKeys held) cum (sortKeys held) none [] (fun t h => h)
      (by intro b hb; simp at hb) (by intro st en h; cases h)
    unfold gapBlocksSorted
    simp only []
    split
    · split
      · next cur hcur =>
        obtain ⟨st, en⟩ := cur
        exact pushBlock_sel _ cum _ st en h1 (h2 st en hcur)
      · exact h1
    · exact h1
  exact (mem_sortKeys _ _).mp (key b hb t hs)

end RtcModel.Sctp
