/- C15 — RFC 3629 validity implies that `from_utf8_lossy` is the identity. Core Lean only. -/
import RtcModel.C15Utf8

namespace RtcModel.C15

/-- RFC 3629 §4 syntax of UTF-8 byte sequences (UTF8-1 / UTF8-2 / UTF8-3 / UTF8-4) -/
def utf8Valid : Bytes → Bool
  | [] => true
  | b :: rest =>
    if b.toNat < 128 then utf8Valid rest
    else if 0xC2 ≤ b.toNat ∧ b.toNat ≤ 0xDF then
      match rest with
      | c :: r => isCont c && utf8Valid r
      | [] => false
    else if 0xE0 ≤ b.toNat ∧ b.toNat ≤ 0xEF then
      match rest with
      | c :: d :: r => second3 b c && isCont d && utf8Valid r
      | _ => false
    else if 0xF0 ≤ b.toNat ∧ b.toNat ≤ 0xF4 then
      match rest with
      | c :: d :: e :: r => second4 b c && isCont d && isCont e && utf8Valid r
      | _ => false
    else false

theorem lossy_of_valid : ∀ (n : Nat) (bs : Bytes), bs.length = n → utf8Valid bs = true → lossy bs = bs := by
  intro n
  induction n using Nat.strongRecOn with
  | ind n ih =>
    intro bs hn hv
    match bs, hn with
    | [], _ => rw [lossy.eq_def]
    | b :: rest, hn =>
      simp only [List.length_cons] at hn
      unfold utf8Valid at hv
      rw [lossy.eq_def]
      simp only
      by_cases h1 : b.toNat < 128
      · rw [if_pos h1] at hv ⊢
        rw [ih rest.length (by omega) rest rfl hv]
      · rw [if_neg h1] at hv ⊢
        by_cases h2 : 0xC2 ≤ b.toNat ∧ b.toNat ≤ 0xDF
        · rw [if_pos h2] at hv ⊢
          match rest, hn, hv with
          | c :: r, hn, hv =>
            simp only [Bool.and_eq_true] at hv
            simp only [List.length_cons] at hn
            simp only [hv.1, if_true]
            rw [ih r.length (by omega) r rfl hv.2]
        · rw [if_neg h2] at hv ⊢
          by_cases h3 : 0xE0 ≤ b.toNat ∧ b.toNat ≤ 0xEF
          · rw [if_pos h3] at hv ⊢
            match rest, hn, hv with
            | c :: d :: r, hn, hv =>
              simp only [Bool.and_eq_true] at hv
              simp only [List.length_cons] at hn
              simp only [hv.1.1, hv.1.2, if_true]
              rw [ih r.length (by omega) r rfl hv.2]
          · rw [if_neg h3] at hv ⊢
            by_cases h4 : 0xF0 ≤ b.toNat ∧ b.toNat ≤ 0xF4
            · rw [if_pos h4] at hv ⊢
              match rest, hn, hv with
              | c :: d :: e :: r, hn, hv =>
                simp only [Bool.and_eq_true] at hv
                simp only [List.length_cons] at hn
                simp only [hv.1.1.1, hv.1.1.2, hv.1.2, if_true]
                rw [ih r.length (by omega) r rfl hv.2]
            · rw [if_neg h4] at hv; cases hv

end RtcModel.C15
