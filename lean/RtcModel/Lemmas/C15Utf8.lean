/- C15 — RFC 3629 validity implies that `from_utf8_lossy` is the identity. Core Lean only. -/
import RtcModel.C15Utf8

namespace RtcModel.C15

/-- RFC 3629 §4 syntax of UTF-8 byte sequences (UTF8-1 / UTF8-2 / UTF8-3 / UTF8-4) -/
def utf8Valid : Bytes → Bool
  | [] => true
  | b :: rest =>
    if b.toNat < 128 then utf8Valid rest
    else if 0xC2 ≤ b.toNat ∧ b.toNat ≤ 0xDF then
      match rest with
      | c :: r => isCont c && utf8Valid r
      | [] => false
    else if 0xE0 ≤ b.toNat ∧ b.toNat ≤ 0xEF then
      match rest with
      | c :: d :: r => second3 b c && isCont d && utf8Valid r
      | _ => false
    else if 0xF0 ≤ b.toNat ∧ b.toNat ≤ 0xF4 then
      match rest with
      | c :: d :: e :: r => second4 b c && isCont d && isCont e && utf8Valid r
      | _ => false
    else false

theorem lossy_of_valid : ∀ (n : Nat) (bs : Bytes), bs.length = n → utf8Valid bs = true → lossy bs = bs := by
  intro n
  induction n using Nat.strongRecOn with
  | ind n ih =>
    intro bs hn hv
    match bs, hn with
    | [], _ => rw [lossy.eq_def]
    | b :: rest, hn =>
      simp only [List.length_cons] at hn
      unfold utf8Valid at hv
      rw [lossy.eq_def]
      simp only
      by_cases h1 : b.toNat < 128
      · rw [if_pos h1] at hv ⊢
        rw [ih rest.length (by omega) rest rfl hv]
      · rw [if_neg h1] at hv ⊢
        by_cases h2 : 0xC2 ≤ b.toNat ∧ b.toNat ≤ 0xDF
        · rw [if_pos h2] at hv ⊢
          match rest, hn, hv with
          | c :: r, hn, hv =>
            simp only [Bool.and_eq_true] at hv
            simp only [List.length_cons] at hn
            simp only [hv.1, if_true]
            rw [ih r.length (by omega) r rfl hv.2]
        · rw [if_neg h2] at hv ⊢
          by_cases h3 : 0xE0 ≤ b.toNat ∧ b.toNat ≤ 0xEF
          · rw [if_pos h3] at hv ⊢
            match rest, hn, hv with
            | c :: d :: r, hn, hv =>
              simp only [Bool.and_eq_true] at hv
              simp only [List.length_cons] at hn
              simp only [hv.1.1, hv.1.2, if_true]
              rw [ih r.length (by omega) r rfl hv.2]
          · rw [if_neg h3] at hv ⊢
            by_cases h4 : 0xF0 ≤ b.toNat ∧ b.toNat ≤ 0xF4
            · rw [if_pos h4] at hv ⊢
              match rest, hn, hv with
              | c :: d :: e :: r, hn, hv =>
                simp only [Bool.and_eq_true] at hv
                simp only [List.length_cons] at hn
                simp only [hv.1.1.1, hv.1.1.2, hv.1.2, if_true]
                rw [ih r.length (by omega) r rfl hv.2]
            · rw [if_neg h4] at hv; cases hv

theorem utf8Valid_repl (r : Bytes) : utf8Valid (repl ++ r) = utf8Valid r := by
  simp [repl, utf8Valid, second3, isCont]

theorem utf8Valid_repl_nil : utf8Valid repl = true := by decide

/-- whatever `from_utf8_lossy` returns is well-formed UTF-8 (it is a Rust `String`) -/
theorem utf8Valid_lossy : ∀ (n : Nat) (bs : Bytes), bs.length = n → utf8Valid (lossy bs) = true := by
  intro n
  induction n using Nat.strongRecOn with
  | ind n ih =>
    intro bs hn
    match bs, hn with
    | [], _ => rw [lossy.eq_def]; rfl
    | b :: rest, hn =>
      simp only [List.length_cons] at hn
      have hrest := ih rest.length (by omega) rest rfl
      rw [lossy.eq_def]
      simp only
      by_cases h1 : b.toNat < 128
      · rw [if_pos h1]; unfold utf8Valid; rw [if_pos h1]; exact hrest
      · rw [if_neg h1]
        by_cases h2 : 0xC2 ≤ b.toNat ∧ b.toNat ≤ 0xDF
        · rw [if_pos h2]
          match rest, hn, hrest with
          | [], _, _ => exact utf8Valid_repl_nil
          | c :: r, hn, hrest =>
            simp only [List.length_cons] at hn
            simp only
            by_cases hc : isCont c = true
            · rw [if_pos hc]; unfold utf8Valid; rw [if_neg h1, if_pos h2]
              simp only [hc, Bool.true_and]; exact ih r.length (by omega) r rfl
            · rw [if_neg hc, utf8Valid_repl]; exact hrest
        · rw [if_neg h2]
          by_cases h3 : 0xE0 ≤ b.toNat ∧ b.toNat ≤ 0xEF
          · rw [if_pos h3]
            match rest, hn, hrest with
            | [], _, _ => exact utf8Valid_repl_nil
            | c :: r, hn, hrest =>
              simp only [List.length_cons] at hn
              simp only
              by_cases hs : second3 b c = true
              · rw [if_pos hs]
                match r, hn with
                | [], _ => exact utf8Valid_repl_nil
                | d :: r2, hn =>
                  simp only [List.length_cons] at hn
                  simp only
                  by_cases hd : isCont d = true
                  · rw [if_pos hd]; unfold utf8Valid; rw [if_neg h1, if_neg h2, if_pos h3]
                    simp only [hs, hd, Bool.true_and]; exact ih r2.length (by omega) r2 rfl
                  · rw [if_neg hd, utf8Valid_repl]; exact ih (d :: r2).length (by simp; omega) (d :: r2) rfl
              · rw [if_neg hs, utf8Valid_repl]; exact hrest
          · rw [if_neg h3]
            by_cases h4 : 0xF0 ≤ b.toNat ∧ b.toNat ≤ 0xF4
            · rw [if_pos h4]
              match rest, hn, hrest with
              | [], _, _ => exact utf8Valid_repl_nil
              | c :: r, hn, hrest =>
                simp only [List.length_cons] at hn
                simp only
                by_cases hs : second4 b c = true
                · rw [if_pos hs]
                  match r, hn with
                  | [], _ => exact utf8Valid_repl_nil
                  | d :: r2, hn =>
                    simp only [List.length_cons] at hn
                    simp only
                    by_cases hd : isCont d = true
                    · rw [if_pos hd]
                      match r2, hn with
                      | [], _ => exact utf8Valid_repl_nil
                      | e :: r3, hn =>
                        simp only [List.length_cons] at hn
                        simp only
                        by_cases he : isCont e = true
                        · rw [if_pos he]; unfold utf8Valid; rw [if_neg h1, if_neg h2, if_neg h3, if_pos h4]
                          simp only [hs, hd, he, Bool.true_and]; exact ih r3.length (by omega) r3 rfl
                        · rw [if_neg he, utf8Valid_repl]; exact ih (e :: r3).length (by simp; omega) (e :: r3) rfl
                    · rw [if_neg hd, utf8Valid_repl]; exact ih (d :: r2).length (by simp; omega) (d :: r2) rfl
                · rw [if_neg hs, utf8Valid_repl]; exact hrest
            · rw [if_neg h4, utf8Valid_repl]; exact hrest

end RtcModel.C15
