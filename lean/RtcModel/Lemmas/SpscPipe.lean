/-
C20 — invariants of the pipeline.rs variant of the interleaving model (`Variant.pipeCur`): lock
discipline and handle accounting (`PLInv`) and the ring invariant seen through the lock holders
(`PTInv`), for runs consisting of producer labels and receiver labels.
Same proof recipe as `Lemmas/SpscTrack.lean` (the producer paths are the same code in `stepP`).
-/
import RtcModel.Lemmas.SpscTrack

set_option linter.unusedSimpArgs false
set_option linter.unusedVariables false

namespace RtcModel.SpscTrack
open RtcModel.Spsc RtcModel.C20Word RtcModel.Generated

def holdsPopR : RPc → Bool
  | .ldClosed | .pop .. => true
  | _ => false
def popViewR : RPc → PoView
  | .pop _ p => some p
  | _ => none
/-- the popper role in the pipeline variant: a drop-oldest producer or the receiver -/
def St.poViewR (s : St) : PoView :=
  match s.poplock with
  | some (.prod i) => popViewP (s.pp i)
  | some .cons => popViewR s.rp
  | _ => none

structure PLInv (s : St) : Prop where
  var : s.v = Variant.pipeCur
  plockIff : ∀ i, holdsPush (s.pp i) = true ↔ s.plock = some i
  poplockP : ∀ i, holdsPopP (s.pp i) = true ↔ s.poplock = some (.prod i)
  poplockR : holdsPopR s.rp = true ↔ s.poplock = some .cons
  poplockStop : s.poplock ≠ some .stop
  cloneRes : ∀ i j, s.pp i = .clone j → s.pp j = .reserved
  cloneUniq : ∀ i i' j, s.pp i = .clone j → s.pp i' = .clone j → i = i'
  liveIff : ∀ i, i ∈ s.live ↔ hasHandle (s.pp i) = true
  liveNodup : s.live.Nodup
  sendersEq : s.senders = s.live.length
  closedNoLive : s.closed = true → s.live = [] ∨ s.rp = .ntfW ∨ s.rp = .dead
  stClosedNoLive : ∀ i, s.pp i = .stClosed → s.live = []

theorem stepP_PLInv_none (s : St) (i : Nat) (op : Option POp)  (hpc : s.pp i = .none ) (h : PLInv s) : PLInv (stepP s i op) := by
  obtain ⟨hv, h1, h2, h3, h4, h5, h6, h7, h8, h9, h10, h11⟩ := h
  have hp : s.v.plock = true := by rw [hv]; rfl
  have hq : s.v.pipe = true := by rw [hv]; rfl
  simp only [stepP, hpc, startP, St.endSample, St.beginSample, St.setP, hp, hq, if_true, ↓reduceIte, trackCloneInc_val, trackDropDec_val, trackCloseWhenPrev_val]
  repeat' split
  all_goals first
    | exact ⟨hv, h1, h2, h3, h4, h5, h6, h7, h8, h9, h10, h11⟩
    | (refine ⟨?_, ?_, ?_, ?_, ?_, ?_, ?_, ?_, ?_, ?_, ?_, ?_⟩
       all_goals (try intro j)
       all_goals grind [upd, holdsPush, holdsPopP, holdsPopR, hasHandle])

theorem stepP_PLInv_reserved (s : St) (i : Nat) (op : Option POp)  (hpc : s.pp i = .reserved ) (h : PLInv s) : PLInv (stepP s i op) := by
  obtain ⟨hv, h1, h2, h3, h4, h5, h6, h7, h8, h9, h10, h11⟩ := h
  have hp : s.v.plock = true := by rw [hv]; rfl
  have hq : s.v.pipe = true := by rw [hv]; rfl
  simp only [stepP, hpc, startP, St.endSample, St.beginSample, St.setP, hp, hq, if_true, ↓reduceIte, trackCloneInc_val, trackDropDec_val, trackCloseWhenPrev_val]
  repeat' split
  all_goals first
    | exact ⟨hv, h1, h2, h3, h4, h5, h6, h7, h8, h9, h10, h11⟩
    | (refine ⟨?_, ?_, ?_, ?_, ?_, ?_, ?_, ?_, ?_, ?_, ?_, ?_⟩
       all_goals (try intro j)
       all_goals grind [upd, holdsPush, holdsPopP, holdsPopR, hasHandle])

theorem stepP_PLInv_gone (s : St) (i : Nat) (op : Option POp)  (hpc : s.pp i = .gone ) (h : PLInv s) : PLInv (stepP s i op) := by
  obtain ⟨hv, h1, h2, h3, h4, h5, h6, h7, h8, h9, h10, h11⟩ := h
  have hp : s.v.plock = true := by rw [hv]; rfl
  have hq : s.v.pipe = true := by rw [hv]; rfl
  simp only [stepP, hpc, startP, St.endSample, St.beginSample, St.setP, hp, hq, if_true, ↓reduceIte, trackCloneInc_val, trackDropDec_val, trackCloseWhenPrev_val]
  repeat' split
  all_goals first
    | exact ⟨hv, h1, h2, h3, h4, h5, h6, h7, h8, h9, h10, h11⟩
    | (refine ⟨?_, ?_, ?_, ?_, ?_, ?_, ?_, ?_, ?_, ?_, ?_, ?_⟩
       all_goals (try intro j)
       all_goals grind [upd, holdsPush, holdsPopP, holdsPopR, hasHandle])

theorem stepP_PLInv_idle (s : St) (i : Nat) (op : Option POp)  (hpc : s.pp i = .idle ) (h : PLInv s) : PLInv (stepP s i op) := by
  obtain ⟨hv, h1, h2, h3, h4, h5, h6, h7, h8, h9, h10, h11⟩ := h
  have hp : s.v.plock = true := by rw [hv]; rfl
  have hq : s.v.pipe = true := by rw [hv]; rfl
  have hmem : i ∈ s.live := (h7 i).2 (by simp [hpc, hasHandle])
  have hlen := List.length_erase_of_mem hmem
  have hnd := h8.erase i
  have hpos : 0 < s.live.length := List.length_pos_of_mem hmem
  have hnil : s.live.length = 1 → s.live.erase i = [] := fun h => List.eq_nil_of_length_eq_zero (by omega)
  have hme : ∀ j, j ∈ s.live.erase i ↔ j ≠ i ∧ j ∈ s.live := fun j => h8.mem_erase_iff
  simp only [stepP, hpc, startP, St.endSample, St.beginSample, St.setP, hp, hq, if_true, ↓reduceIte, trackCloneInc_val, trackDropDec_val, trackCloseWhenPrev_val]
  by_cases hs : s.senders = 1 <;> simp only [hs, if_true, if_false, ↓reduceIte]
  all_goals (repeat' split)
  all_goals first
    | exact ⟨hv, h1, h2, h3, h4, h5, h6, h7, h8, h9, h10, h11⟩
    | (refine ⟨?_, ?_, ?_, ?_, ?_, ?_, ?_, ?_, ?_, ?_, ?_, ?_⟩
       all_goals (try intro j)
       all_goals grind [upd, holdsPush, holdsPopP, holdsPopR, hasHandle])

theorem stepP_PLInv_acq (s : St) (i : Nat) (op : Option POp) (k v rest) (hpc : s.pp i = .acq k v rest) (h : PLInv s) : PLInv (stepP s i op) := by
  obtain ⟨hv, h1, h2, h3, h4, h5, h6, h7, h8, h9, h10, h11⟩ := h
  have hp : s.v.plock = true := by rw [hv]; rfl
  have hq : s.v.pipe = true := by rw [hv]; rfl
  simp only [stepP, hpc, startP, St.endSample, St.beginSample, St.setP, hp, hq, if_true, ↓reduceIte, trackCloneInc_val, trackDropDec_val, trackCloseWhenPrev_val]
  repeat' split
  all_goals first
    | exact ⟨hv, h1, h2, h3, h4, h5, h6, h7, h8, h9, h10, h11⟩
    | (refine ⟨?_, ?_, ?_, ?_, ?_, ?_, ?_, ?_, ?_, ?_, ?_, ?_⟩
       all_goals (try intro j)
       all_goals grind [upd, holdsPush, holdsPopP, holdsPopR, hasHandle])

theorem stepP_PLInv_chk (s : St) (i : Nat) (op : Option POp) (k v rest) (hpc : s.pp i = .chk k v rest) (h : PLInv s) : PLInv (stepP s i op) := by
  obtain ⟨hv, h1, h2, h3, h4, h5, h6, h7, h8, h9, h10, h11⟩ := h
  have hp : s.v.plock = true := by rw [hv]; rfl
  have hq : s.v.pipe = true := by rw [hv]; rfl
  simp only [stepP, hpc, startP, St.endSample, St.beginSample, St.setP, hp, hq, if_true, ↓reduceIte, trackCloneInc_val, trackDropDec_val, trackCloseWhenPrev_val]
  repeat' split
  all_goals first
    | exact ⟨hv, h1, h2, h3, h4, h5, h6, h7, h8, h9, h10, h11⟩
    | (refine ⟨?_, ?_, ?_, ?_, ?_, ?_, ?_, ?_, ?_, ?_, ?_, ?_⟩
       all_goals (try intro j)
       all_goals grind [upd, holdsPush, holdsPopP, holdsPopR, hasHandle])

theorem stepP_PLInv_push (s : St) (i : Nat) (op : Option POp) (c v rest p) (hpc : s.pp i = .push c v rest p) (h : PLInv s) : PLInv (stepP s i op) := by
  obtain ⟨hv, h1, h2, h3, h4, h5, h6, h7, h8, h9, h10, h11⟩ := h
  have hp : s.v.plock = true := by rw [hv]; rfl
  have hq : s.v.pipe = true := by rw [hv]; rfl
  simp only [stepP, hpc, startP, St.endSample, St.beginSample, St.setP, hp, hq, if_true, ↓reduceIte, trackCloneInc_val, trackDropDec_val, trackCloseWhenPrev_val]
  repeat' split
  all_goals first
    | exact ⟨hv, h1, h2, h3, h4, h5, h6, h7, h8, h9, h10, h11⟩
    | (refine ⟨?_, ?_, ?_, ?_, ?_, ?_, ?_, ?_, ?_, ?_, ?_, ?_⟩
       all_goals (try intro j)
       all_goals grind [upd, holdsPush, holdsPopP, holdsPopR, hasHandle])

theorem stepP_PLInv_ntf (s : St) (i : Nat) (op : Option POp) (c rest) (hpc : s.pp i = .ntf c rest) (h : PLInv s) : PLInv (stepP s i op) := by
  obtain ⟨hv, h1, h2, h3, h4, h5, h6, h7, h8, h9, h10, h11⟩ := h
  have hp : s.v.plock = true := by rw [hv]; rfl
  have hq : s.v.pipe = true := by rw [hv]; rfl
  simp only [stepP, hpc, startP, St.endSample, St.beginSample, St.setP, hp, hq, if_true, ↓reduceIte, trackCloneInc_val, trackDropDec_val, trackCloseWhenPrev_val]
  repeat' split
  all_goals first
    | exact ⟨hv, h1, h2, h3, h4, h5, h6, h7, h8, h9, h10, h11⟩
    | (refine ⟨?_, ?_, ?_, ?_, ?_, ?_, ?_, ?_, ?_, ?_, ?_, ?_⟩
       all_goals (try intro j)
       all_goals grind [upd, holdsPush, holdsPopP, holdsPopR, hasHandle])

theorem stepP_PLInv_tryLock (s : St) (i : Nat) (op : Option POp) (v rest) (hpc : s.pp i = .tryLock v rest) (h : PLInv s) : PLInv (stepP s i op) := by
  obtain ⟨hv, h1, h2, h3, h4, h5, h6, h7, h8, h9, h10, h11⟩ := h
  have hp : s.v.plock = true := by rw [hv]; rfl
  have hq : s.v.pipe = true := by rw [hv]; rfl
  simp only [stepP, hpc, startP, St.endSample, St.beginSample, St.setP, hp, hq, if_true, ↓reduceIte, trackCloneInc_val, trackDropDec_val, trackCloseWhenPrev_val]
  repeat' split
  all_goals first
    | exact ⟨hv, h1, h2, h3, h4, h5, h6, h7, h8, h9, h10, h11⟩
    | (refine ⟨?_, ?_, ?_, ?_, ?_, ?_, ?_, ?_, ?_, ?_, ?_, ?_⟩
       all_goals (try intro j)
       all_goals grind [upd, holdsPush, holdsPopP, holdsPopR, hasHandle])

theorem stepP_PLInv_pop (s : St) (i : Nat) (op : Option POp) (v rest p) (hpc : s.pp i = .pop v rest p) (h : PLInv s) : PLInv (stepP s i op) := by
  obtain ⟨hv, h1, h2, h3, h4, h5, h6, h7, h8, h9, h10, h11⟩ := h
  have hp : s.v.plock = true := by rw [hv]; rfl
  have hq : s.v.pipe = true := by rw [hv]; rfl
  simp only [stepP, hpc, startP, St.endSample, St.beginSample, St.setP, hp, hq, if_true, ↓reduceIte, trackCloneInc_val, trackDropDec_val, trackCloseWhenPrev_val]
  repeat' split
  all_goals first
    | exact ⟨hv, h1, h2, h3, h4, h5, h6, h7, h8, h9, h10, h11⟩
    | (refine ⟨?_, ?_, ?_, ?_, ?_, ?_, ?_, ?_, ?_, ?_, ?_, ?_⟩
       all_goals (try intro j)
       all_goals grind [upd, holdsPush, holdsPopP, holdsPopR, hasHandle])

theorem stepP_PLInv_clone (s : St) (i : Nat) (op : Option POp) (j') (hpc : s.pp i = .clone j') (h : PLInv s) : PLInv (stepP s i op) := by
  obtain ⟨hv, h1, h2, h3, h4, h5, h6, h7, h8, h9, h10, h11⟩ := h
  have hp : s.v.plock = true := by rw [hv]; rfl
  have hq : s.v.pipe = true := by rw [hv]; rfl
  have hres := h5 i j' hpc
  have hnm : j' ∉ s.live := fun hm => by have := (h7 j').1 hm; simp [hres, hasHandle] at this
  have hnd : (s.live ++ [j']).Nodup := by
    rw [List.nodup_append]; exact ⟨h8, by simp, by intro a ha b hb; simp at hb; subst hb; exact fun e => hnm (e ▸ ha)⟩
  have hlen : (s.live ++ [j']).length = s.live.length + 1 := by simp
  simp only [stepP, hpc, startP, St.endSample, St.beginSample, St.setP, hp, hq, if_true, ↓reduceIte, trackCloneInc_val, trackDropDec_val, trackCloseWhenPrev_val]
  repeat' split
  all_goals first
    | exact ⟨hv, h1, h2, h3, h4, h5, h6, h7, h8, h9, h10, h11⟩
    | (refine ⟨?_, ?_, ?_, ?_, ?_, ?_, ?_, ?_, ?_, ?_, ?_, ?_⟩
       all_goals (try intro j)
       all_goals grind [upd, holdsPush, holdsPopP, holdsPopR, hasHandle])

theorem stepP_PLInv_fetchSub (s : St) (i : Nat) (op : Option POp)  (hpc : s.pp i = .fetchSub ) (h : PLInv s) : PLInv (stepP s i op) := by
  obtain ⟨hv, h1, h2, h3, h4, h5, h6, h7, h8, h9, h10, h11⟩ := h
  have hp : s.v.plock = true := by rw [hv]; rfl
  have hq : s.v.pipe = true := by rw [hv]; rfl
  have hmem : i ∈ s.live := (h7 i).2 (by simp [hpc, hasHandle])
  have hlen := List.length_erase_of_mem hmem
  have hnd := h8.erase i
  have hpos : 0 < s.live.length := List.length_pos_of_mem hmem
  have hnil : s.live.length = 1 → s.live.erase i = [] := fun h => List.eq_nil_of_length_eq_zero (by omega)
  have hme : ∀ j, j ∈ s.live.erase i ↔ j ≠ i ∧ j ∈ s.live := fun j => h8.mem_erase_iff
  simp only [stepP, hpc, startP, St.endSample, St.beginSample, St.setP, hp, hq, if_true, ↓reduceIte, trackCloneInc_val, trackDropDec_val, trackCloseWhenPrev_val]
  by_cases hs : s.senders = 1 <;> simp only [hs, if_true, if_false]
  all_goals first
    | exact ⟨hv, h1, h2, h3, h4, h5, h6, h7, h8, h9, h10, h11⟩
    | (refine ⟨?_, ?_, ?_, ?_, ?_, ?_, ?_, ?_, ?_, ?_, ?_, ?_⟩
       all_goals (try intro j)
       all_goals grind [upd, holdsPush, holdsPopP, holdsPopR, hasHandle])

theorem stepP_PLInv_stClosed (s : St) (i : Nat) (op : Option POp)  (hpc : s.pp i = .stClosed ) (h : PLInv s) : PLInv (stepP s i op) := by
  obtain ⟨hv, h1, h2, h3, h4, h5, h6, h7, h8, h9, h10, h11⟩ := h
  have hp : s.v.plock = true := by rw [hv]; rfl
  have hq : s.v.pipe = true := by rw [hv]; rfl
  simp only [stepP, hpc, startP, St.endSample, St.beginSample, St.setP, hp, hq, if_true, ↓reduceIte, trackCloneInc_val, trackDropDec_val, trackCloseWhenPrev_val]
  repeat' split
  all_goals first
    | exact ⟨hv, h1, h2, h3, h4, h5, h6, h7, h8, h9, h10, h11⟩
    | (refine ⟨?_, ?_, ?_, ?_, ?_, ?_, ?_, ?_, ?_, ?_, ?_, ?_⟩
       all_goals (try intro j)
       all_goals grind [upd, holdsPush, holdsPopP, holdsPopR, hasHandle])

theorem stepP_PLInv_ntfW (s : St) (i : Nat) (op : Option POp)  (hpc : s.pp i = .ntfW ) (h : PLInv s) : PLInv (stepP s i op) := by
  obtain ⟨hv, h1, h2, h3, h4, h5, h6, h7, h8, h9, h10, h11⟩ := h
  have hp : s.v.plock = true := by rw [hv]; rfl
  have hq : s.v.pipe = true := by rw [hv]; rfl
  simp only [stepP, hpc, startP, St.endSample, St.beginSample, St.setP, hp, hq, if_true, ↓reduceIte, trackCloneInc_val, trackDropDec_val, trackCloseWhenPrev_val]
  repeat' split
  all_goals first
    | exact ⟨hv, h1, h2, h3, h4, h5, h6, h7, h8, h9, h10, h11⟩
    | (refine ⟨?_, ?_, ?_, ?_, ?_, ?_, ?_, ?_, ?_, ?_, ?_, ?_⟩
       all_goals (try intro j)
       all_goals grind [upd, holdsPush, holdsPopP, holdsPopR, hasHandle])


theorem stepR_PLInv_idle (s : St) (op : Option ROp)  (hpc : s.rp = .idle ) (h : PLInv s) : PLInv (stepR s op) := by
  obtain ⟨hv, h1, h2, h3, h4, h5, h6, h7, h8, h9, h10, h11⟩ := h
  have hq : s.v.pipe = true := by rw [hv]; rfl
  simp only [stepR, hpc, hq, Bool.true_eq_false, if_false, ↓reduceIte]
  repeat' split
  all_goals first
    | exact ⟨hv, h1, h2, h3, h4, h5, h6, h7, h8, h9, h10, h11⟩
    | (refine ⟨?_, ?_, ?_, ?_, ?_, ?_, ?_, ?_, ?_, ?_, ?_, ?_⟩
       all_goals (try intro j)
       all_goals grind [upd, holdsPush, holdsPopP, holdsPopR, hasHandle])

theorem stepR_PLInv_dead (s : St) (op : Option ROp)  (hpc : s.rp = .dead ) (h : PLInv s) : PLInv (stepR s op) := by
  obtain ⟨hv, h1, h2, h3, h4, h5, h6, h7, h8, h9, h10, h11⟩ := h
  have hq : s.v.pipe = true := by rw [hv]; rfl
  simp only [stepR, hpc, hq, Bool.true_eq_false, if_false, ↓reduceIte]
  repeat' split
  all_goals first
    | exact ⟨hv, h1, h2, h3, h4, h5, h6, h7, h8, h9, h10, h11⟩
    | (refine ⟨?_, ?_, ?_, ?_, ?_, ?_, ?_, ?_, ?_, ?_, ?_, ?_⟩
       all_goals (try intro j)
       all_goals grind [upd, holdsPush, holdsPopP, holdsPopR, hasHandle])

theorem stepR_PLInv_lock (s : St) (op : Option ROp)  (hpc : s.rp = .lock ) (h : PLInv s) : PLInv (stepR s op) := by
  obtain ⟨hv, h1, h2, h3, h4, h5, h6, h7, h8, h9, h10, h11⟩ := h
  have hq : s.v.pipe = true := by rw [hv]; rfl
  simp only [stepR, hpc, hq, Bool.true_eq_false, if_false, ↓reduceIte]
  repeat' split
  all_goals first
    | exact ⟨hv, h1, h2, h3, h4, h5, h6, h7, h8, h9, h10, h11⟩
    | (refine ⟨?_, ?_, ?_, ?_, ?_, ?_, ?_, ?_, ?_, ?_, ?_, ?_⟩
       all_goals (try intro j)
       all_goals grind [upd, holdsPush, holdsPopP, holdsPopR, hasHandle])

theorem stepR_PLInv_ldClosed (s : St) (op : Option ROp)  (hpc : s.rp = .ldClosed ) (h : PLInv s) : PLInv (stepR s op) := by
  obtain ⟨hv, h1, h2, h3, h4, h5, h6, h7, h8, h9, h10, h11⟩ := h
  have hq : s.v.pipe = true := by rw [hv]; rfl
  simp only [stepR, hpc, hq, Bool.true_eq_false, if_false, ↓reduceIte]
  repeat' split
  all_goals first
    | exact ⟨hv, h1, h2, h3, h4, h5, h6, h7, h8, h9, h10, h11⟩
    | (refine ⟨?_, ?_, ?_, ?_, ?_, ?_, ?_, ?_, ?_, ?_, ?_, ?_⟩
       all_goals (try intro j)
       all_goals grind [upd, holdsPush, holdsPopP, holdsPopR, hasHandle])

theorem stepR_PLInv_pop (s : St) (op : Option ROp) (cl p) (hpc : s.rp = .pop cl p) (h : PLInv s) : PLInv (stepR s op) := by
  obtain ⟨hv, h1, h2, h3, h4, h5, h6, h7, h8, h9, h10, h11⟩ := h
  have hq : s.v.pipe = true := by rw [hv]; rfl
  simp only [stepR, hpc, hq, Bool.true_eq_false, if_false, ↓reduceIte]
  repeat' split
  all_goals first
    | exact ⟨hv, h1, h2, h3, h4, h5, h6, h7, h8, h9, h10, h11⟩
    | (refine ⟨?_, ?_, ?_, ?_, ?_, ?_, ?_, ?_, ?_, ?_, ?_, ?_⟩
       all_goals (try intro j)
       all_goals grind [upd, holdsPush, holdsPopP, holdsPopR, hasHandle])

theorem stepR_PLInv_mkNtf (s : St) (op : Option ROp)  (hpc : s.rp = .mkNtf ) (h : PLInv s) : PLInv (stepR s op) := by
  obtain ⟨hv, h1, h2, h3, h4, h5, h6, h7, h8, h9, h10, h11⟩ := h
  have hq : s.v.pipe = true := by rw [hv]; rfl
  simp only [stepR, hpc, hq, Bool.true_eq_false, if_false, ↓reduceIte]
  repeat' split
  all_goals first
    | exact ⟨hv, h1, h2, h3, h4, h5, h6, h7, h8, h9, h10, h11⟩
    | (refine ⟨?_, ?_, ?_, ?_, ?_, ?_, ?_, ?_, ?_, ?_, ?_, ?_⟩
       all_goals (try intro j)
       all_goals grind [upd, holdsPush, holdsPopP, holdsPopR, hasHandle])

theorem stepR_PLInv_emptyClosed (s : St) (op : Option ROp) (g) (hpc : s.rp = .emptyClosed g) (h : PLInv s) : PLInv (stepR s op) := by
  obtain ⟨hv, h1, h2, h3, h4, h5, h6, h7, h8, h9, h10, h11⟩ := h
  have hq : s.v.pipe = true := by rw [hv]; rfl
  simp only [stepR, hpc, hq, Bool.true_eq_false, if_false, ↓reduceIte]
  repeat' split
  all_goals first
    | exact ⟨hv, h1, h2, h3, h4, h5, h6, h7, h8, h9, h10, h11⟩
    | (refine ⟨?_, ?_, ?_, ?_, ?_, ?_, ?_, ?_, ?_, ?_, ?_, ?_⟩
       all_goals (try intro j)
       all_goals grind [upd, holdsPush, holdsPopP, holdsPopR, hasHandle])

theorem stepR_PLInv_await1 (s : St) (op : Option ROp) (g) (hpc : s.rp = .await1 g) (h : PLInv s) : PLInv (stepR s op) := by
  obtain ⟨hv, h1, h2, h3, h4, h5, h6, h7, h8, h9, h10, h11⟩ := h
  have hq : s.v.pipe = true := by rw [hv]; rfl
  simp only [stepR, hpc, hq, Bool.true_eq_false, if_false, ↓reduceIte]
  repeat' split
  all_goals first
    | exact ⟨hv, h1, h2, h3, h4, h5, h6, h7, h8, h9, h10, h11⟩
    | (refine ⟨?_, ?_, ?_, ?_, ?_, ?_, ?_, ?_, ?_, ?_, ?_, ?_⟩
       all_goals (try intro j)
       all_goals grind [upd, holdsPush, holdsPopP, holdsPopR, hasHandle])

theorem stepR_PLInv_await2 (s : St) (op : Option ROp)  (hpc : s.rp = .await2 ) (h : PLInv s) : PLInv (stepR s op) := by
  obtain ⟨hv, h1, h2, h3, h4, h5, h6, h7, h8, h9, h10, h11⟩ := h
  have hq : s.v.pipe = true := by rw [hv]; rfl
  simp only [stepR, hpc, hq, Bool.true_eq_false, if_false, ↓reduceIte]
  repeat' split
  all_goals first
    | exact ⟨hv, h1, h2, h3, h4, h5, h6, h7, h8, h9, h10, h11⟩
    | (refine ⟨?_, ?_, ?_, ?_, ?_, ?_, ?_, ?_, ?_, ?_, ?_, ?_⟩
       all_goals (try intro j)
       all_goals grind [upd, holdsPush, holdsPopP, holdsPopR, hasHandle])

theorem stepR_PLInv_stClosed (s : St) (op : Option ROp)  (hpc : s.rp = .stClosed ) (h : PLInv s) : PLInv (stepR s op) := by
  obtain ⟨hv, h1, h2, h3, h4, h5, h6, h7, h8, h9, h10, h11⟩ := h
  have hq : s.v.pipe = true := by rw [hv]; rfl
  simp only [stepR, hpc, hq, Bool.true_eq_false, if_false, ↓reduceIte]
  repeat' split
  all_goals first
    | exact ⟨hv, h1, h2, h3, h4, h5, h6, h7, h8, h9, h10, h11⟩
    | (refine ⟨?_, ?_, ?_, ?_, ?_, ?_, ?_, ?_, ?_, ?_, ?_, ?_⟩
       all_goals (try intro j)
       all_goals grind [upd, holdsPush, holdsPopP, holdsPopR, hasHandle])

theorem stepR_PLInv_ntfW (s : St) (op : Option ROp)  (hpc : s.rp = .ntfW ) (h : PLInv s) : PLInv (stepR s op) := by
  obtain ⟨hv, h1, h2, h3, h4, h5, h6, h7, h8, h9, h10, h11⟩ := h
  have hq : s.v.pipe = true := by rw [hv]; rfl
  simp only [stepR, hpc, hq, Bool.true_eq_false, if_false, ↓reduceIte]
  repeat' split
  all_goals first
    | exact ⟨hv, h1, h2, h3, h4, h5, h6, h7, h8, h9, h10, h11⟩
    | (refine ⟨?_, ?_, ?_, ?_, ?_, ?_, ?_, ?_, ?_, ?_, ?_, ?_⟩
       all_goals (try intro j)
       all_goals grind [upd, holdsPush, holdsPopP, holdsPopR, hasHandle])

theorem stepP_PLInv (s : St) (i : Nat) (op : Option POp) (h : PLInv s) : PLInv (stepP s i op) := by
  cases hpc : s.pp i with
  | none  => exact stepP_PLInv_none s i op  hpc h
  | reserved  => exact stepP_PLInv_reserved s i op  hpc h
  | gone  => exact stepP_PLInv_gone s i op  hpc h
  | idle  => exact stepP_PLInv_idle s i op  hpc h
  | acq k v rest => exact stepP_PLInv_acq s i op k v rest hpc h
  | chk k v rest => exact stepP_PLInv_chk s i op k v rest hpc h
  | push c v rest p => exact stepP_PLInv_push s i op c v rest p hpc h
  | ntf c rest => exact stepP_PLInv_ntf s i op c rest hpc h
  | tryLock v rest => exact stepP_PLInv_tryLock s i op v rest hpc h
  | pop v rest p => exact stepP_PLInv_pop s i op v rest p hpc h
  | clone j' => exact stepP_PLInv_clone s i op j' hpc h
  | fetchSub  => exact stepP_PLInv_fetchSub s i op  hpc h
  | stClosed  => exact stepP_PLInv_stClosed s i op  hpc h
  | ntfW  => exact stepP_PLInv_ntfW s i op  hpc h

theorem stepR_PLInv (s : St) (op : Option ROp) (h : PLInv s) : PLInv (stepR s op) := by
  cases hpc : s.rp with
  | idle  => exact stepR_PLInv_idle s op  hpc h
  | dead  => exact stepR_PLInv_dead s op  hpc h
  | lock  => exact stepR_PLInv_lock s op  hpc h
  | ldClosed  => exact stepR_PLInv_ldClosed s op  hpc h
  | pop cl p => exact stepR_PLInv_pop s op cl p hpc h
  | mkNtf  => exact stepR_PLInv_mkNtf s op  hpc h
  | emptyClosed g => exact stepR_PLInv_emptyClosed s op g hpc h
  | await1 g => exact stepR_PLInv_await1 s op g hpc h
  | await2  => exact stepR_PLInv_await2 s op  hpc h
  | stClosed  => exact stepR_PLInv_stClosed s op  hpc h
  | ntfW  => exact stepR_PLInv_ntfW s op  hpc h

/-- labels of the pipeline pair: producer threads and the receiver (the track consumer / `stop()`
machines of track.rs do not exist there) -/
def PipeLabel : Label → Prop
  | .prod _ _ => True
  | .rcv _ => True
  | _ => False

theorem step_PLInv (s : St) (l : Label) (hl : PipeLabel l) (h : PLInv s) : PLInv (step s l) := by
  cases l with
  | prod i op => exact stepP_PLInv s i op h
  | rcv op => exact stepR_PLInv s op h
  | cons st => exact absurd hl (by simp [PipeLabel])
  | stop st => exact absurd hl (by simp [PipeLabel])

theorem PLInv.init (cap W : Nat) : PLInv (St.init Variant.pipeCur cap W 0) := by
  refine ⟨rfl, ?_, ?_, ?_, ?_, ?_, ?_, ?_, ?_, ?_, ?_, ?_⟩
  all_goals (try intro j)
  all_goals grind [St.init, holdsPush, holdsPopP, holdsPopR, hasHandle, trackInitSenders_val]

/-! ### the ring invariant through the lock holders (pipeline variant) -/

def poViewOfR (poplock : Option Tid) (pp : Nat → PPc) (rp : RPc) : PoView :=
  match poplock with
  | some (.prod i) => popViewP (pp i)
  | some .cons => popViewR rp
  | some .stop => none
  | none => none
theorem St.poViewR_eq (s : St) : s.poViewR = poViewOfR s.poplock s.pp s.rp := by
  unfold St.poViewR poViewOfR
  cases h : s.poplock with
  | none => rfl
  | some t => cases t <;> rfl
theorem poViewOfR_upd_ne (pl : Option Tid) (pp : Nat → PPc) (rp : RPc) (i : Nat) (pc : PPc) (h : pl ≠ some (.prod i)) :
    poViewOfR pl (upd pp i pc) rp = poViewOfR pl pp rp := by
  unfold poViewOfR
  split
  · rename_i k; rw [upd_other]; intro e; exact h (by rw [e])
  · rfl
  · rfl
  · rfl

structure PTInv (s : St) : Prop where
  l : PLInv s
  ring : RingInv s.ring s.puView s.poViewR

theorem pviews_upd_nolock (s : St) (hL : PLInv s) (i : Nat) (pc : PPc) (pp' : Nat → PPc)
    (hn1 : holdsPush (s.pp i) = false) (hn2 : holdsPopP (s.pp i) = false) :
    puViewOf s.plock (upd pp' i pc) = puViewOf s.plock pp' ∧
    poViewOfR s.poplock (upd pp' i pc) s.rp = poViewOfR s.poplock pp' s.rp := by
  refine ⟨puViewOf_upd_ne _ _ _ _ ?_, poViewOfR_upd_ne _ _ _ _ _ ?_⟩
  · intro e; have := (hL.plockIff i).2 e; simp [hn1] at this
  · intro e; have := (hL.poplockP i).2 e; simp [hn2] at this

theorem stepP_pring_none (s : St) (i : Nat) (op : Option POp)  (hpc : s.pp i = .none )
    (h : PTInv s) : RingInv (stepP s i op).ring (stepP s i op).puView (stepP s i op).poViewR := by
  obtain ⟨⟨hv, h1, h2, h3, h4, h5, h6, h7, h8, h9, h10, h11⟩, hring⟩ := h
  have hp : s.v.plock = true := by rw [hv]; rfl
  have hq : s.v.pipe = true := by rw [hv]; rfl
  simp only [stepP, hpc, startP, St.endSample, St.beginSample, St.setP, hp, hq, if_true, ↓reduceIte, trackCloneInc_val, trackDropDec_val, trackCloseWhenPrev_val]
  repeat' split
  all_goals grind [St.puView, St.poViewR, pushView, popViewP, popViewR, upd, holdsPush, holdsPopP, holdsPopR, startPush', startPop']

theorem stepP_pring_reserved (s : St) (i : Nat) (op : Option POp)  (hpc : s.pp i = .reserved )
    (h : PTInv s) : RingInv (stepP s i op).ring (stepP s i op).puView (stepP s i op).poViewR := by
  obtain ⟨⟨hv, h1, h2, h3, h4, h5, h6, h7, h8, h9, h10, h11⟩, hring⟩ := h
  have hp : s.v.plock = true := by rw [hv]; rfl
  have hq : s.v.pipe = true := by rw [hv]; rfl
  simp only [stepP, hpc, startP, St.endSample, St.beginSample, St.setP, hp, hq, if_true, ↓reduceIte, trackCloneInc_val, trackDropDec_val, trackCloseWhenPrev_val]
  repeat' split
  all_goals grind [St.puView, St.poViewR, pushView, popViewP, popViewR, upd, holdsPush, holdsPopP, holdsPopR, startPush', startPop']

theorem stepP_pring_gone (s : St) (i : Nat) (op : Option POp)  (hpc : s.pp i = .gone )
    (h : PTInv s) : RingInv (stepP s i op).ring (stepP s i op).puView (stepP s i op).poViewR := by
  obtain ⟨⟨hv, h1, h2, h3, h4, h5, h6, h7, h8, h9, h10, h11⟩, hring⟩ := h
  have hp : s.v.plock = true := by rw [hv]; rfl
  have hq : s.v.pipe = true := by rw [hv]; rfl
  simp only [stepP, hpc, startP, St.endSample, St.beginSample, St.setP, hp, hq, if_true, ↓reduceIte, trackCloneInc_val, trackDropDec_val, trackCloseWhenPrev_val]
  repeat' split
  all_goals grind [St.puView, St.poViewR, pushView, popViewP, popViewR, upd, holdsPush, holdsPopP, holdsPopR, startPush', startPop']

theorem stepP_pring_idle (s : St) (i : Nat) (op : Option POp)  (hpc : s.pp i = .idle )
    (h : PTInv s) : RingInv (stepP s i op).ring (stepP s i op).puView (stepP s i op).poViewR := by
  have hL := h.l
  have hring := h.ring
  have hp : s.v.plock = true := by rw [hL.var]; rfl
  have hq : s.v.pipe = true := by rw [hL.var]; rfl
  have hn1 : holdsPush (s.pp i) = false := by simp [hpc, holdsPush]
  have hn2 : holdsPopP (s.pp i) = false := by simp [hpc, holdsPopP]
  simp only [stepP, hpc]
  cases op with
  | none => exact hring
  | some o =>
    cases o with
    | send vs =>
      cases vs with
      | nil => exact hring
      | cons v rest =>
        have := pviews_upd_nolock s hL i (.acq .send v rest) s.pp hn1 hn2
        simp only [startP, St.beginSample, hp, hq, if_true, ↓reduceIte, St.setP, St.puView_eq, St.poViewR_eq] at hring ⊢
        rw [this.1, this.2]; exact hring
    | trySend v =>
      have := pviews_upd_nolock s hL i (.acq .try_ v []) s.pp hn1 hn2
      simp only [startP, St.beginSample, hp, hq, if_true, ↓reduceIte, St.setP, St.puView_eq, St.poViewR_eq] at hring ⊢
      rw [this.1, this.2]; exact hring
    | cloneTo j =>
      simp only [startP]
      split
      · rename_i hj
        have a := pviews_upd_nolock s hL i (.clone j) (upd s.pp j .reserved) hn1 hn2
        have b := pviews_upd_nolock s hL j .reserved s.pp (by simp [hj.2, holdsPush]) (by simp [hj.2, holdsPopP])
        simp only [St.puView_eq, St.poViewR_eq] at hring ⊢
        rw [a.1, a.2, b.1, b.2]; exact hring
      · exact hring
    | dropSrc =>
      have a := pviews_upd_nolock s hL i .stClosed s.pp hn1 hn2
      have b := pviews_upd_nolock s hL i .gone s.pp hn1 hn2
      simp only [startP, hq, if_true, ↓reduceIte, St.setP]
      split <;> (simp only [St.puView_eq, St.poViewR_eq] at hring ⊢)
      · rw [a.1, a.2]; exact hring
      · rw [b.1, b.2]; exact hring

theorem stepP_pring_acq (s : St) (i : Nat) (op : Option POp) (k v rest) (hpc : s.pp i = .acq k v rest)
    (h : PTInv s) : RingInv (stepP s i op).ring (stepP s i op).puView (stepP s i op).poViewR := by
  obtain ⟨⟨hv, h1, h2, h3, h4, h5, h6, h7, h8, h9, h10, h11⟩, hring⟩ := h
  have hp : s.v.plock = true := by rw [hv]; rfl
  have hq : s.v.pipe = true := by rw [hv]; rfl
  simp only [stepP, hpc, startP, St.endSample, St.beginSample, St.setP, hp, hq, if_true, ↓reduceIte, trackCloneInc_val, trackDropDec_val, trackCloseWhenPrev_val]
  repeat' split
  all_goals grind [St.puView, St.poViewR, pushView, popViewP, popViewR, upd, holdsPush, holdsPopP, holdsPopR, startPush', startPop']

theorem stepP_pring_chk (s : St) (i : Nat) (op : Option POp) (k v rest) (hpc : s.pp i = .chk k v rest)
    (h : PTInv s) : RingInv (stepP s i op).ring (stepP s i op).puView (stepP s i op).poViewR := by
  obtain ⟨⟨hv, h1, h2, h3, h4, h5, h6, h7, h8, h9, h10, h11⟩, hring⟩ := h
  have hp : s.v.plock = true := by rw [hv]; rfl
  have hq : s.v.pipe = true := by rw [hv]; rfl
  simp only [stepP, hpc, startP, St.endSample, St.beginSample, St.setP, hp, hq, if_true, ↓reduceIte, trackCloneInc_val, trackDropDec_val, trackCloseWhenPrev_val]
  repeat' split
  all_goals grind [St.puView, St.poViewR, pushView, popViewP, popViewR, upd, holdsPush, holdsPopP, holdsPopR, startPush', startPop']

theorem stepP_pring_push (s : St) (i : Nat) (op : Option POp) (c v rest p) (hpc : s.pp i = .push c v rest p)
    (h : PTInv s) : RingInv (stepP s i op).ring (stepP s i op).puView (stepP s i op).poViewR := by
  obtain ⟨⟨hv, h1, h2, h3, h4, h5, h6, h7, h8, h9, h10, h11⟩, hring⟩ := h
  have hp : s.v.plock = true := by rw [hv]; rfl
  have hq : s.v.pipe = true := by rw [hv]; rfl
  have hpl : s.plock = some i := (h1 i).1 (by simp [hpc, holdsPush])
  have hview : s.puView = some (p, (i, v)) := by simp [St.puView, hpl, hpc, pushView]
  rw [hview] at hring
  obtain ⟨k1, k2, k3⟩ := pushStep_inv hring
  simp only [stepP, hpc, startP, St.endSample, St.beginSample, St.setP, hp, hq, if_true, ↓reduceIte, trackCloneInc_val, trackDropDec_val, trackCloseWhenPrev_val]
  repeat' split
  all_goals grind [St.puView, St.poViewR, pushView, popViewP, popViewR, upd, holdsPush, holdsPopP, holdsPopR, startPush', startPop']

theorem stepP_pring_ntf (s : St) (i : Nat) (op : Option POp) (c rest) (hpc : s.pp i = .ntf c rest)
    (h : PTInv s) : RingInv (stepP s i op).ring (stepP s i op).puView (stepP s i op).poViewR := by
  obtain ⟨⟨hv, h1, h2, h3, h4, h5, h6, h7, h8, h9, h10, h11⟩, hring⟩ := h
  have hp : s.v.plock = true := by rw [hv]; rfl
  have hq : s.v.pipe = true := by rw [hv]; rfl
  simp only [stepP, hpc, startP, St.endSample, St.beginSample, St.setP, hp, hq, if_true, ↓reduceIte, trackCloneInc_val, trackDropDec_val, trackCloseWhenPrev_val]
  repeat' split
  all_goals grind [St.puView, St.poViewR, pushView, popViewP, popViewR, upd, holdsPush, holdsPopP, holdsPopR, startPush', startPop']

theorem stepP_pring_tryLock (s : St) (i : Nat) (op : Option POp) (v rest) (hpc : s.pp i = .tryLock v rest)
    (h : PTInv s) : RingInv (stepP s i op).ring (stepP s i op).puView (stepP s i op).poViewR := by
  obtain ⟨⟨hv, h1, h2, h3, h4, h5, h6, h7, h8, h9, h10, h11⟩, hring⟩ := h
  have hp : s.v.plock = true := by rw [hv]; rfl
  have hq : s.v.pipe = true := by rw [hv]; rfl
  simp only [stepP, hpc, startP, St.endSample, St.beginSample, St.setP, hp, hq, if_true, ↓reduceIte, trackCloneInc_val, trackDropDec_val, trackCloseWhenPrev_val]
  repeat' split
  all_goals grind [St.puView, St.poViewR, pushView, popViewP, popViewR, upd, holdsPush, holdsPopP, holdsPopR, startPush', startPop']

theorem stepP_pring_pop (s : St) (i : Nat) (op : Option POp) (v rest p) (hpc : s.pp i = .pop v rest p)
    (h : PTInv s) : RingInv (stepP s i op).ring (stepP s i op).puView (stepP s i op).poViewR := by
  obtain ⟨⟨hv, h1, h2, h3, h4, h5, h6, h7, h8, h9, h10, h11⟩, hring⟩ := h
  have hp : s.v.plock = true := by rw [hv]; rfl
  have hq : s.v.pipe = true := by rw [hv]; rfl
  have hpl : s.plock = some i := (h1 i).1 (by simp [hpc, holdsPush])
  have hpo : s.poplock = some (.prod i) := (h2 i).1 (by simp [hpc, holdsPopP])
  have hview : s.poViewR = some p := by simp [St.poViewR, hpo, hpc, popViewP]
  have hview2 : s.puView = none := by simp [St.puView, hpl, hpc, pushView]
  rw [hview, hview2] at hring
  obtain ⟨k1, k2, k3⟩ := popStep_inv hring
  simp only [stepP, hpc, startP, St.endSample, St.beginSample, St.setP, hp, hq, if_true, ↓reduceIte, trackCloneInc_val, trackDropDec_val, trackCloseWhenPrev_val]
  repeat' split
  all_goals grind [St.puView, St.poViewR, pushView, popViewP, popViewR, upd, holdsPush, holdsPopP, holdsPopR, startPush', startPop']

theorem stepP_pring_clone (s : St) (i : Nat) (op : Option POp) (j') (hpc : s.pp i = .clone j')
    (h : PTInv s) : RingInv (stepP s i op).ring (stepP s i op).puView (stepP s i op).poViewR := by
  have hL := h.l
  have hring := h.ring
  have hn1 : holdsPush (s.pp i) = false := by simp [hpc, holdsPush]
  have hn2 : holdsPopP (s.pp i) = false := by simp [hpc, holdsPopP]
  have hres := hL.cloneRes i j' hpc
  have a := pviews_upd_nolock s hL i .idle (upd s.pp j' .idle) hn1 hn2
  have b := pviews_upd_nolock s hL j' .idle s.pp (by simp [hres, holdsPush]) (by simp [hres, holdsPopP])
  simp only [stepP, hpc, St.puView_eq, St.poViewR_eq] at hring ⊢
  rw [a.1, a.2, b.1, b.2]; exact hring

theorem stepP_pring_fetchSub (s : St) (i : Nat) (op : Option POp)  (hpc : s.pp i = .fetchSub )
    (h : PTInv s) : RingInv (stepP s i op).ring (stepP s i op).puView (stepP s i op).poViewR := by
  have hL := h.l
  have hring := h.ring
  have hn1 : holdsPush (s.pp i) = false := by simp [hpc, holdsPush]
  have hn2 : holdsPopP (s.pp i) = false := by simp [hpc, holdsPopP]
  have a := pviews_upd_nolock s hL i .stClosed s.pp hn1 hn2
  have b := pviews_upd_nolock s hL i .gone s.pp hn1 hn2
  simp only [stepP, hpc, St.setP]
  split <;> (simp only [St.puView_eq, St.poViewR_eq] at hring ⊢)
  · rw [a.1, a.2]; exact hring
  · rw [b.1, b.2]; exact hring

theorem stepP_pring_stClosed (s : St) (i : Nat) (op : Option POp)  (hpc : s.pp i = .stClosed )
    (h : PTInv s) : RingInv (stepP s i op).ring (stepP s i op).puView (stepP s i op).poViewR := by
  obtain ⟨⟨hv, h1, h2, h3, h4, h5, h6, h7, h8, h9, h10, h11⟩, hring⟩ := h
  have hp : s.v.plock = true := by rw [hv]; rfl
  have hq : s.v.pipe = true := by rw [hv]; rfl
  simp only [stepP, hpc, startP, St.endSample, St.beginSample, St.setP, hp, hq, if_true, ↓reduceIte, trackCloneInc_val, trackDropDec_val, trackCloseWhenPrev_val]
  repeat' split
  all_goals grind [St.puView, St.poViewR, pushView, popViewP, popViewR, upd, holdsPush, holdsPopP, holdsPopR, startPush', startPop']

theorem stepP_pring_ntfW (s : St) (i : Nat) (op : Option POp)  (hpc : s.pp i = .ntfW )
    (h : PTInv s) : RingInv (stepP s i op).ring (stepP s i op).puView (stepP s i op).poViewR := by
  obtain ⟨⟨hv, h1, h2, h3, h4, h5, h6, h7, h8, h9, h10, h11⟩, hring⟩ := h
  have hp : s.v.plock = true := by rw [hv]; rfl
  have hq : s.v.pipe = true := by rw [hv]; rfl
  simp only [stepP, hpc, startP, St.endSample, St.beginSample, St.setP, hp, hq, if_true, ↓reduceIte, trackCloneInc_val, trackDropDec_val, trackCloseWhenPrev_val]
  repeat' split
  all_goals grind [St.puView, St.poViewR, pushView, popViewP, popViewR, upd, holdsPush, holdsPopP, holdsPopR, startPush', startPop']


theorem stepR_pring_idle (s : St) (op : Option ROp)  (hpc : s.rp = .idle )
    (h : PTInv s) : RingInv (stepR s op).ring (stepR s op).puView (stepR s op).poViewR := by
  obtain ⟨⟨hv, h1, h2, h3, h4, h5, h6, h7, h8, h9, h10, h11⟩, hring⟩ := h
  have hq : s.v.pipe = true := by rw [hv]; rfl
  simp only [stepR, hpc, hq, Bool.true_eq_false, if_false, ↓reduceIte]
  repeat' split
  all_goals grind [St.puView, St.poViewR, pushView, popViewP, popViewR, upd, holdsPush, holdsPopP, holdsPopR, startPush', startPop']

theorem stepR_pring_dead (s : St) (op : Option ROp)  (hpc : s.rp = .dead )
    (h : PTInv s) : RingInv (stepR s op).ring (stepR s op).puView (stepR s op).poViewR := by
  obtain ⟨⟨hv, h1, h2, h3, h4, h5, h6, h7, h8, h9, h10, h11⟩, hring⟩ := h
  have hq : s.v.pipe = true := by rw [hv]; rfl
  simp only [stepR, hpc, hq, Bool.true_eq_false, if_false, ↓reduceIte]
  repeat' split
  all_goals grind [St.puView, St.poViewR, pushView, popViewP, popViewR, upd, holdsPush, holdsPopP, holdsPopR, startPush', startPop']

theorem stepR_pring_lock (s : St) (op : Option ROp)  (hpc : s.rp = .lock )
    (h : PTInv s) : RingInv (stepR s op).ring (stepR s op).puView (stepR s op).poViewR := by
  obtain ⟨⟨hv, h1, h2, h3, h4, h5, h6, h7, h8, h9, h10, h11⟩, hring⟩ := h
  have hq : s.v.pipe = true := by rw [hv]; rfl
  simp only [stepR, hpc, hq, Bool.true_eq_false, if_false, ↓reduceIte]
  repeat' split
  all_goals grind [St.puView, St.poViewR, pushView, popViewP, popViewR, upd, holdsPush, holdsPopP, holdsPopR, startPush', startPop']

theorem stepR_pring_ldClosed (s : St) (op : Option ROp)  (hpc : s.rp = .ldClosed )
    (h : PTInv s) : RingInv (stepR s op).ring (stepR s op).puView (stepR s op).poViewR := by
  obtain ⟨⟨hv, h1, h2, h3, h4, h5, h6, h7, h8, h9, h10, h11⟩, hring⟩ := h
  have hq : s.v.pipe = true := by rw [hv]; rfl
  simp only [stepR, hpc, hq, Bool.true_eq_false, if_false, ↓reduceIte]
  repeat' split
  all_goals grind [St.puView, St.poViewR, pushView, popViewP, popViewR, upd, holdsPush, holdsPopP, holdsPopR, startPush', startPop']

theorem stepR_pring_pop (s : St) (op : Option ROp) (cl p) (hpc : s.rp = .pop cl p)
    (h : PTInv s) : RingInv (stepR s op).ring (stepR s op).puView (stepR s op).poViewR := by
  obtain ⟨⟨hv, h1, h2, h3, h4, h5, h6, h7, h8, h9, h10, h11⟩, hring⟩ := h
  have hq : s.v.pipe = true := by rw [hv]; rfl
  have hpo : s.poplock = some .cons := h3.1 (by simp [hpc, holdsPopR])
  have hview : s.poViewR = some p := by simp [St.poViewR, hpo, hpc, popViewR]
  rw [hview] at hring
  obtain ⟨k1, k2, k3⟩ := popStep_inv hring
  simp only [stepR, hpc, hq, Bool.true_eq_false, if_false, ↓reduceIte]
  repeat' split
  all_goals grind [St.puView, St.poViewR, pushView, popViewP, popViewR, upd, holdsPush, holdsPopP, holdsPopR, startPush', startPop']

theorem stepR_pring_mkNtf (s : St) (op : Option ROp)  (hpc : s.rp = .mkNtf )
    (h : PTInv s) : RingInv (stepR s op).ring (stepR s op).puView (stepR s op).poViewR := by
  obtain ⟨⟨hv, h1, h2, h3, h4, h5, h6, h7, h8, h9, h10, h11⟩, hring⟩ := h
  have hq : s.v.pipe = true := by rw [hv]; rfl
  simp only [stepR, hpc, hq, Bool.true_eq_false, if_false, ↓reduceIte]
  repeat' split
  all_goals grind [St.puView, St.poViewR, pushView, popViewP, popViewR, upd, holdsPush, holdsPopP, holdsPopR, startPush', startPop']

theorem stepR_pring_emptyClosed (s : St) (op : Option ROp) (g) (hpc : s.rp = .emptyClosed g)
    (h : PTInv s) : RingInv (stepR s op).ring (stepR s op).puView (stepR s op).poViewR := by
  obtain ⟨⟨hv, h1, h2, h3, h4, h5, h6, h7, h8, h9, h10, h11⟩, hring⟩ := h
  have hq : s.v.pipe = true := by rw [hv]; rfl
  simp only [stepR, hpc, hq, Bool.true_eq_false, if_false, ↓reduceIte]
  repeat' split
  all_goals grind [St.puView, St.poViewR, pushView, popViewP, popViewR, upd, holdsPush, holdsPopP, holdsPopR, startPush', startPop']

theorem stepR_pring_await1 (s : St) (op : Option ROp) (g) (hpc : s.rp = .await1 g)
    (h : PTInv s) : RingInv (stepR s op).ring (stepR s op).puView (stepR s op).poViewR := by
  obtain ⟨⟨hv, h1, h2, h3, h4, h5, h6, h7, h8, h9, h10, h11⟩, hring⟩ := h
  have hq : s.v.pipe = true := by rw [hv]; rfl
  simp only [stepR, hpc, hq, Bool.true_eq_false, if_false, ↓reduceIte]
  repeat' split
  all_goals grind [St.puView, St.poViewR, pushView, popViewP, popViewR, upd, holdsPush, holdsPopP, holdsPopR, startPush', startPop']

theorem stepR_pring_await2 (s : St) (op : Option ROp)  (hpc : s.rp = .await2 )
    (h : PTInv s) : RingInv (stepR s op).ring (stepR s op).puView (stepR s op).poViewR := by
  obtain ⟨⟨hv, h1, h2, h3, h4, h5, h6, h7, h8, h9, h10, h11⟩, hring⟩ := h
  have hq : s.v.pipe = true := by rw [hv]; rfl
  simp only [stepR, hpc, hq, Bool.true_eq_false, if_false, ↓reduceIte]
  repeat' split
  all_goals grind [St.puView, St.poViewR, pushView, popViewP, popViewR, upd, holdsPush, holdsPopP, holdsPopR, startPush', startPop']

theorem stepR_pring_stClosed (s : St) (op : Option ROp)  (hpc : s.rp = .stClosed )
    (h : PTInv s) : RingInv (stepR s op).ring (stepR s op).puView (stepR s op).poViewR := by
  obtain ⟨⟨hv, h1, h2, h3, h4, h5, h6, h7, h8, h9, h10, h11⟩, hring⟩ := h
  have hq : s.v.pipe = true := by rw [hv]; rfl
  simp only [stepR, hpc, hq, Bool.true_eq_false, if_false, ↓reduceIte]
  repeat' split
  all_goals grind [St.puView, St.poViewR, pushView, popViewP, popViewR, upd, holdsPush, holdsPopP, holdsPopR, startPush', startPop']

theorem stepR_pring_ntfW (s : St) (op : Option ROp)  (hpc : s.rp = .ntfW )
    (h : PTInv s) : RingInv (stepR s op).ring (stepR s op).puView (stepR s op).poViewR := by
  obtain ⟨⟨hv, h1, h2, h3, h4, h5, h6, h7, h8, h9, h10, h11⟩, hring⟩ := h
  have hq : s.v.pipe = true := by rw [hv]; rfl
  simp only [stepR, hpc, hq, Bool.true_eq_false, if_false, ↓reduceIte]
  repeat' split
  all_goals grind [St.puView, St.poViewR, pushView, popViewP, popViewR, upd, holdsPush, holdsPopP, holdsPopR, startPush', startPop']

theorem stepP_pring (s : St) (i : Nat) (op : Option POp) (h : PTInv s) : RingInv (stepP s i op).ring (stepP s i op).puView (stepP s i op).poViewR := by
  cases hpc : s.pp i with
  | none  => exact stepP_pring_none s i op  hpc h
  | reserved  => exact stepP_pring_reserved s i op  hpc h
  | gone  => exact stepP_pring_gone s i op  hpc h
  | idle  => exact stepP_pring_idle s i op  hpc h
  | acq k v rest => exact stepP_pring_acq s i op k v rest hpc h
  | chk k v rest => exact stepP_pring_chk s i op k v rest hpc h
  | push c v rest p => exact stepP_pring_push s i op c v rest p hpc h
  | ntf c rest => exact stepP_pring_ntf s i op c rest hpc h
  | tryLock v rest => exact stepP_pring_tryLock s i op v rest hpc h
  | pop v rest p => exact stepP_pring_pop s i op v rest p hpc h
  | clone j' => exact stepP_pring_clone s i op j' hpc h
  | fetchSub  => exact stepP_pring_fetchSub s i op  hpc h
  | stClosed  => exact stepP_pring_stClosed s i op  hpc h
  | ntfW  => exact stepP_pring_ntfW s i op  hpc h

theorem stepR_pring (s : St) (op : Option ROp) (h : PTInv s) : RingInv (stepR s op).ring (stepR s op).puView (stepR s op).poViewR := by
  cases hpc : s.rp with
  | idle  => exact stepR_pring_idle s op  hpc h
  | dead  => exact stepR_pring_dead s op  hpc h
  | lock  => exact stepR_pring_lock s op  hpc h
  | ldClosed  => exact stepR_pring_ldClosed s op  hpc h
  | pop cl p => exact stepR_pring_pop s op cl p hpc h
  | mkNtf  => exact stepR_pring_mkNtf s op  hpc h
  | emptyClosed g => exact stepR_pring_emptyClosed s op g hpc h
  | await1 g => exact stepR_pring_await1 s op g hpc h
  | await2  => exact stepR_pring_await2 s op  hpc h
  | stClosed  => exact stepR_pring_stClosed s op  hpc h
  | ntfW  => exact stepR_pring_ntfW s op  hpc h

theorem step_PTInv (s : St) (l : Label) (hl : PipeLabel l) (h : PTInv s) : PTInv (step s l) := by
  refine ⟨step_PLInv s l hl h.l, ?_⟩
  cases l with
  | prod i op => exact stepP_pring s i op h
  | rcv op => exact stepR_pring s op h
  | cons st => exact absurd hl (by simp [PipeLabel])
  | stop st => exact absurd hl (by simp [PipeLabel])

theorem PTInv.init (cap k : Nat) (h0 : 0 < cap) (h1 : cap < 2 ^ k) : PTInv (St.init Variant.pipeCur cap (2 ^ k) 0) :=
  ⟨PLInv.init cap (2 ^ k), RingInv.init cap k h0 h1⟩

theorem run_PTInv (s : St) (ls : List Label) (hl : ∀ l ∈ ls, PipeLabel l) (h : PTInv s) : PTInv (run s ls) := by
  induction ls generalizing s with
  | nil => exact h
  | cons l ls ih =>
    exact ih (step s l) (fun l' hl' => hl l' (List.mem_cons_of_mem _ hl')) (step_PTInv s l (hl l (List.mem_cons_self)) h)

/-- pipeline variant: a producer about to write a slot is the only writer, no producer is reading,
and the receiver, if it is about to read, addresses a different slot -/
theorem pipe_no_slot_race_of_inv (s : St) (hT : PTInv s) (i tl v : Nat) (c : Ctx) (rest : List Nat)
    (hw : s.pp i = .push c v rest (.write tl)) :
    (∀ j c' v' rest' tl', s.pp j = .push c' v' rest' (.write tl') → j = i) ∧
    (∀ j v' rest' hl, s.pp j ≠ .pop v' rest' (.read hl)) ∧
    (∀ cl hl, s.rp = .pop cl (.read hl) → s.ring.idx tl ≠ s.ring.idx hl) := by
  have hpl : s.plock = some i := (hT.l.plockIff i).1 (by simp [hw, holdsPush])
  refine ⟨fun j c' v' rest' tl' hj => ?_, fun j v' rest' hl hj => ?_, fun cl hl hc => ?_⟩
  · have hj' : s.plock = some j := (hT.l.plockIff j).1 (by simp [hj, holdsPush])
    rw [hpl] at hj'; exact (Option.some.inj hj').symm
  · have hj' : s.plock = some j := (hT.l.plockIff j).1 (by simp [hj, holdsPush])
    rw [hpl] at hj'
    have : i = j := Option.some.inj hj'
    subst this
    rw [hw] at hj; exact PPc.noConfusion hj
  · have hpo : s.poplock = some .cons := hT.l.poplockR.1 (by simp [hc, holdsPopR])
    have hr := hT.ring
    have e1 : s.puView = some (.write tl, (i, v)) := by simp [St.puView, hpl, hw, pushView]
    have e2 : s.poViewR = some (.read hl) := by simp [St.poViewR, hpo, hc, popViewR]
    rw [e1, e2] at hr
    exact write_read_disjoint hr

end RtcModel.SpscTrack
