/- Frame / phase lemmas for `RtcModel.Jsep` (helpers for `Theorems/C09.lean`). -/
import RtcModel.Jsep
namespace RtcModel.Jsep

/-- the named environment hypothesis: UDP socket binds succeed — or the connection is in WebRTC mode, where
no socket is bound inside a signaling call (`bindFails` is never read) -/
def EnvOk (pc : Pc) : Prop := pc.bindFails = false ∨ pc.mode = .webrtc

instance (pc : Pc) : Decidable (EnvOk pc) := by unfold EnvOk; infer_instance

theorem EnvOk.srtp {pc : Pc} (h : EnvOk pc) : (pc.bindFails && decide (pc.mode = .srtp)) = false := by
  rcases h with h | h <;> simp [h]
theorem EnvOk.rtp {pc : Pc} (h : EnvOk pc) : (pc.bindFails && decide (pc.mode = .rtp)) = false := by
  rcases h with h | h <;> simp [h]
theorem EnvOk.inline {pc : Pc} (h : EnvOk pc) : (pc.bindFails && pc.bindsInline) = false := by
  rcases h with h | h <;> simp [h, Pc.bindsInline]

/-! ### set_local -/

section localExtract
variable (pc : Pc) (d : Desc)
@[simp] theorem localExtract_mode : (localExtract pc d).mode = pc.mode := by
  unfold localExtract; split <;> (try split) <;> rfl
@[simp] theorem localExtract_sig : (localExtract pc d).sig = pc.sig := by
  unfold localExtract; split <;> (try split) <;> rfl
@[simp] theorem localExtract_peerClosed : (localExtract pc d).peerClosed = pc.peerClosed := by
  unfold localExtract; split <;> (try split) <;> rfl
@[simp] theorem localExtract_loc : (localExtract pc d).loc = pc.loc := by
  unfold localExtract; split <;> (try split) <;> rfl
@[simp] theorem localExtract_rem : (localExtract pc d).rem = pc.rem := by
  unfold localExtract; split <;> (try split) <;> rfl
@[simp] theorem localExtract_nextMid : (localExtract pc d).nextMid = pc.nextMid := by
  unfold localExtract; split <;> (try split) <;> rfl
@[simp] theorem localExtract_dtlsStarted : (localExtract pc d).dtlsStarted = pc.dtlsStarted := by
  unfold localExtract; split <;> (try split) <;> rfl
@[simp] theorem localExtract_remoteFp : (localExtract pc d).remoteFp = pc.remoteFp := by
  unfold localExtract; split <;> (try split) <;> rfl
@[simp] theorem localExtract_bindFails : (localExtract pc d).bindFails = pc.bindFails := by
  unfold localExtract; split <;> (try split) <;> rfl
@[simp] theorem localExtract_dtlsRole : (localExtract pc d).dtlsRole = pc.dtlsRole := by
  unfold localExtract; split <;> (try split) <;> rfl
/-- the extraction block is the identity unless the call is an offer applied in `Stable` -/
theorem localExtract_id (h : ¬ (d.ty = .offer ∧ pc.sig = .stable)) : localExtract pc d = pc := by
  unfold localExtract; simp [h]
end localExtract

/-- in which states `set_local_description` passes its state check -/
theorem localTransition_ok_iff (s : SigState) (t : SdpType) (s' : SigState) :
    localTransition s t = .ok s' ↔
      (t = .offer ∧ s = .stable ∧ s' = .haveLocalOffer) ∨
      (t = .answer ∧ s = .haveRemoteOffer ∧ s' = .stable) ∨
      (t = .pranswer ∧ s = .haveRemoteOffer ∧ s' = .haveRemoteOffer) := by
  cases t <;> cases s <;> cases s' <;> simp [localTransition]

theorem remoteTransition_ok_iff (s : SigState) (t : SdpType) (s' : SigState) :
    remoteTransition s t = .ok s' ↔
      (t = .offer ∧ s = .stable ∧ s' = .haveRemoteOffer) ∨
      (t = .answer ∧ s = .haveLocalOffer ∧ s' = .stable) ∨
      (t = .pranswer ∧ s = .haveLocalOffer ∧ s' = .haveLocalOffer) := by
  cases t <;> cases s <;> cases s' <;> simp [remoteTransition]

/-- complete description of `setLocal`: either an error with the connection untouched, or success
with the transition of the table, the description stored, and only the transceivers touched besides. -/
theorem setLocal_cases (pc : Pc) (d : Desc) :
    (∃ e, setLocal pc d = (pc, .err e) ∧ ∀ s', localTransition pc.sig d.ty ≠ .ok s') ∨
    (∃ s', localTransition pc.sig d.ty = .ok s' ∧
      setLocal pc d = ({ localExtract pc d with sig := s', loc := some d }, .ok)) := by
  unfold setLocal
  cases hv : validateType d.ty with
  | some e =>
    left; refine ⟨e, rfl, ?_⟩
    intro s' h; cases hd : d.ty <;> simp_all [validateType, localTransition]
  | none =>
    simp only [localExtract_sig]
    cases ht : localTransition pc.sig d.ty with
    | error e =>
      left; refine ⟨e, ?_, by simp⟩
      have : ¬ (d.ty = .offer ∧ pc.sig = .stable) := by
        intro ⟨h1, h2⟩; simp [localTransition, h1, h2] at ht
      simp [localExtract_id pc d this]
    | ok s' => right; exact ⟨s', rfl, rfl⟩

/-! ### set_remote -/

section handleReinvite
variable (pc : Pc) (d : Desc)
@[simp] theorem handleReinvite_mode : (handleReinvite pc d).mode = pc.mode := rfl
@[simp] theorem handleReinvite_sig : (handleReinvite pc d).sig = pc.sig := rfl
@[simp] theorem handleReinvite_peerClosed : (handleReinvite pc d).peerClosed = pc.peerClosed := rfl
@[simp] theorem handleReinvite_loc : (handleReinvite pc d).loc = pc.loc := rfl
@[simp] theorem handleReinvite_nextMid : (handleReinvite pc d).nextMid = pc.nextMid := rfl
@[simp] theorem handleReinvite_dtlsStarted : (handleReinvite pc d).dtlsStarted = pc.dtlsStarted := rfl
@[simp] theorem handleReinvite_remoteFp : (handleReinvite pc d).remoteFp = pc.remoteFp := rfl
@[simp] theorem handleReinvite_bindFails : (handleReinvite pc d).bindFails = pc.bindFails := rfl
@[simp] theorem handleReinvite_dtlsRole : (handleReinvite pc d).dtlsRole = pc.dtlsRole := rfl
end handleReinvite

/-- The re-INVITE block either fails without touching anything, does nothing, or applies the
description in exactly the (type, state) pairs for which the later state check passes. -/
theorem reinvitePhase_cases (pc : Pc) (d : Desc) (ch : Bool) :
    (∃ e, reinvitePhase pc d ch = (pc, some e)) ∨
    reinvitePhase pc d ch = (pc, none) ∨
    (reinvitePhase pc d ch = (handleReinvite pc d, none) ∧
      ∃ s', remoteTransition pc.sig d.ty = .ok s') := by
  unfold reinvitePhase
  by_cases h : (pc.rem.isSome && ch) = true
  · simp only [h, if_true]
    cases hd : d.ty <;> cases hs : pc.sig <;> simp [remoteTransition]
  · simp [h]

section applyRemote
variable (pc : Pc) (d : Desc)
@[simp] theorem applyRemote_mode : (applyRemote pc d).mode = pc.mode := by unfold applyRemote; split <;> rfl
@[simp] theorem applyRemote_sig : (applyRemote pc d).sig = pc.sig := by unfold applyRemote; split <;> rfl
@[simp] theorem applyRemote_peerClosed : (applyRemote pc d).peerClosed = pc.peerClosed := by unfold applyRemote; split <;> rfl
@[simp] theorem applyRemote_loc : (applyRemote pc d).loc = pc.loc := by unfold applyRemote; split <;> rfl
@[simp] theorem applyRemote_rem : (applyRemote pc d).rem = pc.rem := by unfold applyRemote; split <;> rfl
@[simp] theorem applyRemote_nextMid : (applyRemote pc d).nextMid = pc.nextMid := by unfold applyRemote; split <;> rfl
@[simp] theorem applyRemote_dtlsStarted : (applyRemote pc d).dtlsStarted = pc.dtlsStarted := by unfold applyRemote; split <;> rfl
@[simp] theorem applyRemote_remoteFp : (applyRemote pc d).remoteFp = pc.remoteFp := by unfold applyRemote; split <;> rfl
@[simp] theorem applyRemote_bindFails : (applyRemote pc d).bindFails = pc.bindFails := by unfold applyRemote; split <;> rfl
@[simp] theorem applyRemote_dtlsRole : (applyRemote pc d).dtlsRole = pc.dtlsRole := by unfold applyRemote; split <;> rfl
end applyRemote

/-! the tail of `set_remote_description` -/

/-- with a working socket layer the tail always succeeds and only then moves the state -/
theorem remoteTail_envok (pc4 : Pc) (d : Desc) (s' : SigState) (hb : EnvOk pc4) :
    remoteTail pc4 d s' = ({ applyRemote pc4 d with rem := some d, sig := s' }, .ok) := by
  rcases hb with hb | hb <;> simp [remoteTail, hb]

theorem remoteTail_cases (pc4 : Pc) (d : Desc) (s' : SigState) :
    remoteTail pc4 d s' = ({ applyRemote pc4 d with rem := some d }, .err .internal) ∨
    remoteTail pc4 d s' = ({ applyRemote pc4 d with rem := some d, sig := s' }, .ok) := by
  unfold remoteTail
  dsimp only
  split
  · exact Or.inl rfl
  · exact Or.inr rfl

theorem fpChanged_congr (a b : Pc) (fp : Option Nat) (h1 : a.dtlsStarted = b.dtlsStarted)
    (h2 : a.remoteFp = b.remoteFp) : fpChanged a fp = fpChanged b fp := by
  simp [fpChanged, h1, h2]

/-- what a connection looks like from outside the transceiver / mid-counter / fingerprint / role part -/
def Pc.frame (r pc : Pc) : Prop :=
  r.loc = pc.loc ∧ r.peerClosed = pc.peerClosed ∧ r.mode = pc.mode ∧ r.dtlsStarted = pc.dtlsStarted ∧
  r.bindFails = pc.bindFails

/-- the three ways `set_remote_description` can end, relative to the connection `pc1` it started from -/
def Shape (pc1 : Pc) (d : Desc) (R : Pc × Res) : Prop :=
  (∃ e, R = (pc1, .err e) ∧ ∀ s', remoteTransition pc1.sig d.ty ≠ .ok s') ∨
  (∃ s' r, remoteTransition pc1.sig d.ty = .ok s' ∧ R = (r, .ok) ∧ r.sig = s' ∧ r.rem = some d ∧ r.frame pc1) ∨
  (∃ r, R = (r, .err .internal) ∧ ¬ EnvOk pc1 ∧ r.sig = pc1.sig ∧ r.frame pc1)

theorem tail_shape (pc1 X : Pc) (d : Desc) (s2 : SigState) (h1 : X.sig = pc1.sig) (h2 : X.frame pc1)
    (ht : remoteTransition pc1.sig d.ty = .ok s2) : Shape pc1 d (remoteTail X d s2) := by
  have henv : EnvOk pc1 → EnvOk X := by
    intro h; unfold EnvOk at h ⊢; rw [h2.2.2.2.2, h2.2.2.1]; exact h
  obtain ⟨f1, f2, f3, f4, f5⟩ := h2
  rcases remoteTail_cases X d s2 with hr | hr
  · right; right
    refine ⟨_, hr, ?_, by simpa using h1, by simpa [Pc.frame] using ⟨f1, f2, f3, f4, f5⟩⟩
    intro he; rw [remoteTail_envok _ _ _ (henv he)] at hr; simp at hr
  · right; left
    exact ⟨s2, _, ht, hr, rfl, rfl, by simpa [Pc.frame] using ⟨f1, f2, f3, f4, f5⟩⟩

/-- the shapes of `set_remote_description` from the state check on -/
theorem remoteAfterReinvite_shape (pc1 : Pc) (d : Desc) (fp : Option Nat) (u : Bool) (hfc : fpChanged pc1 fp = false) :
    Shape pc1 d (remoteAfterReinvite pc1 d fp u) := by
  unfold remoteAfterReinvite
  cases ht : remoteTransition pc1.sig d.ty with
  | error e' => left; exact ⟨e', rfl, fun s' h => by rw [ht] at h; cases h⟩
  | ok s2 =>
    dsimp only
    cases u with
    | true =>
      right; left
      exact ⟨s2, _, ht, rfl, rfl, rfl, rfl, rfl, rfl, rfl, rfl⟩
    | false =>
      have hc2 : (pc1.dtlsStarted && pc1.remoteFp != fp) = false := by simpa [fpChanged] using hfc
      simp only [Bool.not_false, Bool.true_and]
      split
      · rename_i hsr
        simp only [Bool.and_eq_true, decide_eq_true_eq] at hsr
        right; right
        refine ⟨pc1, rfl, ?_, rfl, rfl, rfl, rfl, rfl, rfl⟩
        intro he
        rcases he with he | he
        · rw [he] at hsr; exact absurd hsr.1.1 (by simp)
        · rw [he] at hsr; exact absurd hsr.1.2 (by decide)
      · simp only [Bool.false_eq_true, if_false, fpChanged, hc2]
        exact tail_shape pc1 _ d s2 rfl ⟨rfl, rfl, rfl, rfl, rfl⟩ ht

/-- the shapes `setRemote` can return (every environment): an early rejection with the connection
untouched; success with the table's transition; or the socket layer's error out of the tail, with the
signaling state untouched. -/
theorem setRemote_shape (pc : Pc) (d : Desc) :
    (∃ e, setRemote pc d = (pc, .err e)) ∨
    (∃ s' r, remoteTransition pc.sig d.ty = .ok s' ∧ setRemote pc d = (r, .ok) ∧ r.sig = s' ∧ r.rem = some d ∧
        r.frame pc) ∨
    (∃ r, setRemote pc d = (r, .err .internal) ∧ ¬ EnvOk pc ∧ r.sig = pc.sig ∧ r.frame pc) := by
  unfold setRemote
  cases hv : validateType d.ty with
  | some e' => exact Or.inl ⟨e', rfl⟩
  | none =>
    simp only
    cases hf : remoteFingerprint pc.mode d.fp with
    | error e' => exact Or.inl ⟨e', rfl⟩
    | ok fp =>
      simp only
      by_cases hc : fpChanged pc fp = true
      · simp only [hc, if_true]; exact Or.inl ⟨_, rfl⟩
      · simp only [hc]
        have hc' : fpChanged pc fp = false := by simpa using hc
        rcases reinvitePhase_cases pc d (mediaChanged pc d) with ⟨e', hr⟩ | hr | ⟨hr, s', hs'⟩
        · rw [hr]; exact Or.inl ⟨e', rfl⟩
        · rw [hr]
          dsimp only
          rcases remoteAfterReinvite_shape pc d fp (pc.rem.isSome && !mediaChanged pc d) hc'
            with ⟨e', h, _⟩ | ⟨s2, r, ht, h, h1, h2, h3⟩ | ⟨r, h, hn, h1, h3⟩
          · exact Or.inl ⟨e', h⟩
          · exact Or.inr (Or.inl ⟨s2, r, ht, h, h1, h2, h3⟩)
          · exact Or.inr (Or.inr ⟨r, h, hn, h1, h3⟩)
        · rw [hr]
          dsimp only
          have hc'' : fpChanged (handleReinvite pc d) fp = false := by
            rw [← hc']; exact fpChanged_congr _ _ fp rfl rfl
          rcases remoteAfterReinvite_shape (handleReinvite pc d) d fp (pc.rem.isSome && !mediaChanged pc d) hc''
            with ⟨e', _, hno⟩ | ⟨s2, r, ht, h, h1, h2, h3⟩ | ⟨r, h, hn, h1, h3⟩
          · exact absurd hs' (hno s')
          · exact Or.inr (Or.inl ⟨s2, r, ht, h, h1, h2, h3⟩)
          · exact Or.inr (Or.inr ⟨r, h, hn, h1, h3⟩)

/-- a rejected `set_remote_description` leaves the signaling state alone — in every environment -/
theorem setRemote_err_sig (pc : Pc) (d : Desc) (e : Err) (h : (setRemote pc d).2 = .err e) :
    (setRemote pc d).1.sig = pc.sig := by
  rcases setRemote_shape pc d with ⟨e', h'⟩ | ⟨s', r, _, h', _⟩ | ⟨r, h', _, hs, _⟩
  · rw [h']
  · rw [h'] at h; cases h
  · rw [h']; exact hs

/-- with a working socket layer a rejected `set_remote_description` returns the connection unchanged -/
theorem setRemote_err (pc : Pc) (d : Desc) (e : Err) (hb : EnvOk pc) (h : (setRemote pc d).2 = .err e) :
    (setRemote pc d).1 = pc := by
  rcases setRemote_shape pc d with ⟨e', h'⟩ | ⟨s', r, _, h', _⟩ | ⟨r, h', hn, _⟩
  · rw [h']
  · rw [h'] at h; cases h
  · exact absurd hb hn

/-- in every environment an error other than the socket layer's returns the connection unchanged -/
theorem setRemote_err_general (pc : Pc) (d : Desc) (e : Err) (h : (setRemote pc d).2 = .err e) :
    (setRemote pc d).1 = pc ∨ e = .internal := by
  rcases setRemote_shape pc d with ⟨e', h'⟩ | ⟨s', r, _, h', _⟩ | ⟨r, h', _⟩
  · left; rw [h']
  · rw [h'] at h; cases h
  · right; rw [h'] at h; injection h with h; exact h.symm

/-- a successful `set_remote_description`: the state check of the table passed, the description is
stored, and besides that only transceivers, mid counter, cached fingerprint and role may have changed -/
theorem setRemote_ok (pc : Pc) (d : Desc) (h : (setRemote pc d).2 = .ok) :
    ∃ s', remoteTransition pc.sig d.ty = .ok s' ∧ (setRemote pc d).1.sig = s' ∧
      (setRemote pc d).1.rem = some d ∧ (setRemote pc d).1.loc = pc.loc ∧
      (setRemote pc d).1.peerClosed = pc.peerClosed ∧ (setRemote pc d).1.mode = pc.mode ∧
      (setRemote pc d).1.dtlsStarted = pc.dtlsStarted ∧ (setRemote pc d).1.bindFails = pc.bindFails := by
  rcases setRemote_shape pc d with ⟨e', h'⟩ | ⟨s', r, ht, h', h1, h2, h3, h4, h5, h6, h7⟩ | ⟨r, h', _⟩
  · rw [h'] at h; cases h
  · rw [h']; exact ⟨s', ht, h1, h2, h3, h4, h5, h6, h7⟩
  · rw [h'] at h; cases h

/-- general frame of `set_remote_description` (any environment, any outcome) -/
theorem setRemote_frame (pc : Pc) (d : Desc) :
    (setRemote pc d).1.peerClosed = pc.peerClosed ∧ (setRemote pc d).1.mode = pc.mode ∧
    (setRemote pc d).1.loc = pc.loc ∧ (setRemote pc d).1.dtlsStarted = pc.dtlsStarted ∧
    (setRemote pc d).1.bindFails = pc.bindFails ∧
    ((setRemote pc d).1.sig = pc.sig ∨ remoteTransition pc.sig d.ty = .ok (setRemote pc d).1.sig) := by
  rcases setRemote_shape pc d with ⟨e', h'⟩ | ⟨s', r, ht, h', h1, _, h3, h4, h5, h6, h7⟩ | ⟨r, h', _, h1, h3, h4, h5, h6, h7⟩
  · rw [h']; exact ⟨rfl, rfl, rfl, rfl, rfl, Or.inl rfl⟩
  · rw [h']; exact ⟨h4, h5, h3, h6, h7, Or.inr (h1 ▸ ht)⟩
  · rw [h']; exact ⟨h4, h5, h3, h6, h7, Or.inl h1⟩

/-! ### create_offer / create_answer -/

/-- `createOffer` = `createOfferEnv false`, written out: the single (first) bind site -/
theorem createOffer_def (pc : Pc) : createOffer pc =
    (if pc.sig ≠ .stable then (pc, .err .invalidState)
     else if pc.trxs.isEmpty then (pc, .err .invalidState)
     else if pc.bindFails && (pc.mode = .rtp || pc.mode = .srtp) then (pc, .err .internal)
     else
       let r := (List.range pc.trxs.length).foldl ensureMid (pc.trxs, pc.nextMid)
       ({ pc with trxs := r.1, nextMid := r.2 }, .ok)) := by
  unfold createOffer createOfferEnv
  simp

theorem createOffer_cases (pc : Pc) (hb : EnvOk pc) :
    (∃ e, createOffer pc = (pc, .err e) ∧ (pc.sig ≠ .stable ∨ pc.trxs = [])) ∨
    (pc.sig = .stable ∧ (createOffer pc).2 = .ok ∧
      createOffer pc = ({ pc with trxs := (createOffer pc).1.trxs, nextMid := (createOffer pc).1.nextMid }, .ok)) := by
  rw [createOffer_def]
  by_cases h1 : pc.sig ≠ .stable
  · left; exact ⟨.invalidState, by simp [h1], Or.inl h1⟩
  · by_cases h2 : pc.trxs.isEmpty = true
    · left; refine ⟨.invalidState, by simp [h1, h2], Or.inr (by simpa using h2)⟩
    · right
      simp at h1
      have hbm : (pc.bindFails && (decide (pc.mode = .rtp) || decide (pc.mode = .srtp))) = false := by
        rcases hb with hb | hb <;> simp [hb]
      simp [h1, h2, hbm]

theorem createAnswer_cases (pc : Pc) (hb : EnvOk pc) :
    (∃ e, createAnswer pc = (pc, .err e)) ∨
    (pc.sig = .haveRemoteOffer ∧ (createAnswer pc).2 = .ok ∧
      createAnswer pc = ({ pc with trxs := (createAnswer pc).1.trxs, nextMid := (createAnswer pc).1.nextMid }, .ok)) := by
  unfold createAnswer
  by_cases h1 : pc.sig ≠ .haveRemoteOffer
  · left; exact ⟨.invalidState, by simp [h1]⟩
  · simp at h1
    by_cases h2 : pc.trxs.isEmpty = true
    · left; exact ⟨.invalidState, by simp [h1, h2]⟩
    · cases hr : pc.rem with
      | none => left; exact ⟨.invalidState, by simp [h1, h2]⟩
      | some r =>
        cases ho : answerOrder pc.trxs r.sections [] [] with
        | none => left; exact ⟨.internal, by simp [h1, h2, ho]⟩
        | some order => right; simp [h1, h2, ho, hb.inline]

/-- general frame of `create_offer` (any environment, any outcome) -/
theorem createOffer_frame (pc : Pc) :
    (createOffer pc).1.sig = pc.sig ∧ (createOffer pc).1.peerClosed = pc.peerClosed ∧
    (createOffer pc).1.loc = pc.loc ∧ (createOffer pc).1.rem = pc.rem ∧ (createOffer pc).1.mode = pc.mode ∧
    (createOffer pc).1.dtlsStarted = pc.dtlsStarted ∧ (createOffer pc).1.remoteFp = pc.remoteFp ∧
    (createOffer pc).1.bindFails = pc.bindFails := by
  rw [createOffer_def]
  split
  · simp
  · split
    · simp
    · split <;> simp

theorem createOffer_ok_stable (pc : Pc) (h : (createOffer pc).2 = .ok) : pc.sig = .stable := by
  rw [createOffer_def] at h
  by_cases h1 : pc.sig ≠ .stable
  · simp [h1] at h
  · simpa using h1

theorem createAnswer_frame (pc : Pc) :
    (createAnswer pc).1.sig = pc.sig ∧ (createAnswer pc).1.peerClosed = pc.peerClosed ∧
    (createAnswer pc).1.loc = pc.loc ∧ (createAnswer pc).1.rem = pc.rem ∧ (createAnswer pc).1.mode = pc.mode ∧
    (createAnswer pc).1.dtlsStarted = pc.dtlsStarted ∧ (createAnswer pc).1.remoteFp = pc.remoteFp ∧
    (createAnswer pc).1.bindFails = pc.bindFails := by
  unfold createAnswer
  split
  · simp
  · split
    · simp
    · split
      · simp
      · rename_i r hr
        split
        · simp
        · split
          · split <;> simp [hr]
          · simp [hr]

theorem createAnswer_ok_haveRemoteOffer (pc : Pc) (h : (createAnswer pc).2 = .ok) : pc.sig = .haveRemoteOffer := by
  unfold createAnswer at h
  by_cases h1 : pc.sig ≠ .haveRemoteOffer
  · simp [h1] at h
  · simpa using h1

/-- `create_offer` is atomic in EVERY environment and transport mode: a rejected call returns the
connection exactly as it was (since the round-2 / round-3 fixes the direct modes bind before any mid is
assigned) -/
theorem createOffer_err_atomic (pc : Pc) (e : Err) (h : (createOffer pc).2 = .err e) :
    createOffer pc = (pc, .err e) := by
  rw [createOffer_def] at h ⊢
  split at h
  · rename_i h1; simp at h; subst h; simp [h1]
  · split at h
    · simp at h; subst h; simp [*]
    · split at h
      · simp at h; subst h; simp [*]
      · simp at h

theorem createOffer_err_general (pc : Pc) (e : Err) (h : (createOffer pc).2 = .err e) :
    createOffer pc = (pc, .err e) ∨ e = .internal := Or.inl (createOffer_err_atomic pc e h)

theorem createAnswer_err_general (pc : Pc) (e : Err) (h : (createAnswer pc).2 = .err e) :
    createAnswer pc = (pc, .err e) ∨ e = .internal := by
  unfold createAnswer at h ⊢
  split at h
  · rename_i h1; simp at h; subst h; left; simp [h1]
  · split at h
    · simp at h; subst h; left; simp [*]
    · split at h
      · simp at h; subst h; left; simp [*]
      · split at h
        · simp at h; right; exact h.symm
        · split at h
          · split at h
            · simp at h
            · simp at h; right; exact h.symm
          · simp at h

/-! ### a first offer synchronises the transceivers with its sections -/

theorem mem_modifyAt (f : Trx → Trx) (ts : List Trx) (i : Nat) (x : Trx) (h : x ∈ modifyAt f ts i) :
    x ∈ ts ∨ ∃ t, ts[i]? = some t ∧ x = f t := by
  induction ts generalizing i with
  | nil => simp [modifyAt] at h
  | cons t rest ih =>
    cases i with
    | zero =>
      simp only [modifyAt, List.mem_cons] at h
      rcases h with h | h
      · right; exact ⟨t, by simp, h⟩
      · left; simp [h]
    | succ j =>
      simp only [modifyAt, List.mem_cons] at h
      rcases h with h | h
      · left; simp [h]
      · rcases ih j h with h' | ⟨t', ht', hx⟩
        · left; simp [h']
        · right; exact ⟨t', by simpa using ht', hx⟩

theorem findIdxFrom_spec (p : Nat → Trx → Bool) (ts : List Trx) (i j : Nat)
    (h : findIdxFrom p ts i = some j) : ∃ t, ts[j - i]? = some t ∧ p j t = true ∧ i ≤ j := by
  induction ts generalizing i with
  | nil => simp [findIdxFrom] at h
  | cons t rest ih =>
    unfold findIdxFrom at h
    split at h
    · rename_i hp
      simp only [Option.some.injEq] at h; subst h
      exact ⟨t, by simp, hp, Nat.le_refl _⟩
    · obtain ⟨t', ht', hp', hle⟩ := ih _ h
      refine ⟨t', ?_, hp', by omega⟩
      have : j - i = (j - (i + 1)) + 1 := by omega
      rw [this]; simpa using ht'

theorem findIdx_spec (p : Nat → Trx → Bool) (ts : List Trx) (j : Nat) (h : findIdx p ts = some j) :
    ∃ t, ts[j]? = some t ∧ p j t = true := by
  obtain ⟨t, ht, hp, _⟩ := findIdxFrom_spec p ts 0 j h
  exact ⟨t, by simpa using ht, hp⟩

/-- every transceiver that carries a mid got it from one of the sections `P`, together with that
section's kind and direction -/
def SyncInv (P : List Section) (ts : List Trx) : Prop :=
  ∀ t ∈ ts, ∀ m, t.mid = some m → ∃ s ∈ P, s.mid = m ∧ t.kind = s.kind ∧ t.dir = s.dir

theorem SyncInv.mono {P Q : List Section} {ts : List Trx} (h : SyncInv P ts) (hpq : ∀ s ∈ P, s ∈ Q) : SyncInv Q ts := by
  intro t ht m hm
  obtain ⟨s, hs, h1⟩ := h t ht m hm
  exact ⟨s, hpq s hs, h1⟩

@[simp] theorem applyParamsDir_mid (s : Section) (t : Trx) : (applyParamsDir s t).mid = t.mid := rfl
@[simp] theorem applyParamsDir_kind (s : Section) (t : Trx) : (applyParamsDir s t).kind = t.kind := rfl
@[simp] theorem applyParamsDir_dir (s : Section) (t : Trx) : (applyParamsDir s t).dir = s.dir := rfl

/-- one offered section with a non-empty mid keeps the invariant and adds itself -/
theorem remoteOfferSection_sync (P : List Section) (ts : List Trx) (used : List Nat) (s : Section)
    (hinv : SyncInv P ts) (hne : s.mid ≠ []) :
    SyncInv (P ++ [s]) (remoteOfferSection (ts, used) s).1 := by
  have hmono : SyncInv (P ++ [s]) ts := hinv.mono (fun x hx => by simp [hx])
  have hemp : s.mid.isEmpty = false := by cases h : s.mid <;> simp_all
  unfold remoteOfferSection
  simp only [hemp, Bool.false_eq_true, if_false]
  split
  · -- matched by kind + mid
    rename_i i hi
    obtain ⟨t0, hget, hp⟩ := findIdx_spec _ _ _ hi
    simp only [Bool.and_eq_true, decide_eq_true_eq] at hp
    intro x hx m hm
    rcases mem_modifyAt _ _ _ _ hx with h | ⟨t, ht, rfl⟩
    · exact hmono x h m hm
    · rw [hget] at ht; injection ht with e; subst e
      refine ⟨s, by simp, ?_, ?_, rfl⟩
      · simp only [applyParamsDir_mid] at hm; rw [hp.2] at hm; injection hm
      · simp only [applyParamsDir_kind]; exact hp.1.2
  · split
    · -- a mid-less transceiver of the kind takes the mid
      rename_i i hi
      obtain ⟨t0, hget, hp⟩ := findIdx_spec _ _ _ hi
      simp only [Bool.and_eq_true, decide_eq_true_eq] at hp
      intro x hx m hm
      rcases mem_modifyAt _ _ _ _ hx with h | ⟨t, ht, rfl⟩
      · exact hmono x h m hm
      · rw [hget] at ht; injection ht with e; subst e
        refine ⟨s, by simp, ?_, ?_, rfl⟩
        · simp only [applyParamsDir_mid] at hm; injection hm
        · simp only [applyParamsDir_kind]; exact hp.2
    · -- a new transceiver
      intro x hx m hm
      simp only [List.mem_append, List.mem_singleton] at hx
      rcases hx with h | h
      · exact hmono x h m hm
      · subst h
        simp only [Option.some.injEq] at hm
        exact ⟨s, by simp, hm, rfl, rfl⟩

theorem foldl_remoteOfferSection_sync (secs : List Section) (P : List Section) (ts : List Trx) (used : List Nat)
    (hinv : SyncInv P ts) (hne : ∀ s ∈ secs, s.mid ≠ []) :
    SyncInv (P ++ secs) (secs.foldl remoteOfferSection (ts, used)).1 := by
  induction secs generalizing P ts used with
  | nil => simpa using hinv
  | cons s rest ih =>
    simp only [List.foldl_cons]
    have h1 := remoteOfferSection_sync P ts used s hinv (hne s (by simp))
    have := ih (P ++ [s]) (remoteOfferSection (ts, used) s).1 (remoteOfferSection (ts, used) s).2 h1
      (fun x hx => hne x (by simp [hx]))
    simpa [List.append_assoc] using this

/-- pairwise distinct mids -/
def DistinctMids : List Section → Prop
  | [] => True
  | s :: rest => (∀ r ∈ rest, r.mid ≠ s.mid) ∧ DistinctMids rest

theorem distinct_inj (secs : List Section) (h : DistinctMids secs) (a b : Section) (ha : a ∈ secs) (hb : b ∈ secs)
    (hm : a.mid = b.mid) : a = b := by
  induction secs with
  | nil => cases ha
  | cons s rest ih =>
    obtain ⟨h1, h2⟩ := h
    rcases List.mem_cons.mp ha with ha1 | ha2 <;> rcases List.mem_cons.mp hb with hb1 | hb2
    · rw [ha1, hb1]
    · subst ha1; exact absurd hm.symm (h1 b hb2)
    · subst hb1; exact absurd hm (h1 a ha2)
    · exact ih h2 ha2 hb2


theorem applyRemote_trxs_congr (a b : Pc) (d : Desc) (h : a.trxs = b.trxs) :
    (applyRemote a d).trxs = (applyRemote b d).trxs := by
  unfold applyRemote
  cases d.ty <;> simp [h]

theorem remoteTail_ok_trxs (X : Pc) (d : Desc) (s2 : SigState) (h : (remoteTail X d s2).2 = .ok) :
    (remoteTail X d s2).1.trxs = (applyRemote X d).trxs := by
  rcases remoteTail_cases X d s2 with hr | hr
  · rw [hr] at h; cases h
  · rw [hr]

/-- the transceivers after a successful FIRST `set_remote_description` (no remote description yet) are
those `applyRemote` computes from the current transceivers -/
theorem setRemote_first_trxs (pc : Pc) (d : Desc) (hrem : pc.rem = none) (h : (setRemote pc d).2 = .ok) :
    (setRemote pc d).1.trxs = (applyRemote pc d).trxs := by
  unfold setRemote at h ⊢
  cases hv : validateType d.ty with
  | some e' => simp [hv] at h
  | none =>
    simp only [hv] at h ⊢
    cases hf : remoteFingerprint pc.mode d.fp with
    | error e' => simp [hf] at h
    | ok fp =>
      simp only [hf] at h ⊢
      by_cases hc : fpChanged pc fp = true
      · simp [hc] at h
      · have hr : reinvitePhase pc d (mediaChanged pc d) = (pc, none) := by simp [reinvitePhase, hrem]
        simp only [hc, hr] at h ⊢
        unfold remoteAfterReinvite at h ⊢
        cases ht : remoteTransition pc.sig d.ty with
        | error e' => simp [ht] at h
        | ok s2 =>
          simp only [ht, hrem, Option.isSome_none, Bool.false_and, Bool.false_eq_true, if_false] at h ⊢
          have hc2 : (pc.dtlsStarted && pc.remoteFp != fp) = false := by simpa [fpChanged] using hc
          split at h
          · cases h
          · rename_i hs
            rw [if_neg hs]
            simp only [fpChanged, hc2, Bool.false_eq_true, if_false] at h ⊢
            rw [remoteTail_ok_trxs _ _ _ h]
            exact applyRemote_trxs_congr _ _ _ rfl

end RtcModel.Jsep
