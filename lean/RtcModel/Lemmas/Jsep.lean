/- Frame / phase lemmas for `RtcModel.Jsep` (helpers for `Theorems/C09.lean`). -/
import RtcModel.Jsep
namespace RtcModel.Jsep

/-- everything of a connection except the mid counter -/
def Pc.sameButMid (a b : Pc) : Prop :=
  a.mode = b.mode ∧ a.sig = b.sig ∧ a.peerClosed = b.peerClosed ∧ a.loc = b.loc ∧ a.rem = b.rem ∧
  a.trxs = b.trxs ∧ a.dtlsStarted = b.dtlsStarted ∧ a.remoteFp = b.remoteFp

theorem Pc.sameButMid_refl (a : Pc) : a.sameButMid a := ⟨rfl, rfl, rfl, rfl, rfl, rfl, rfl, rfl⟩

/-! ### set_local -/

section localExtract
variable (pc : Pc) (d : Desc)
@[simp] theorem localExtract_mode : (localExtract pc d).mode = pc.mode := by
  unfold localExtract; split <;> (try split) <;> rfl
@[simp] theorem localExtract_sig : (localExtract pc d).sig = pc.sig := by
  unfold localExtract; split <;> (try split) <;> rfl
@[simp] theorem localExtract_peerClosed : (localExtract pc d).peerClosed = pc.peerClosed := by
  unfold localExtract; split <;> (try split) <;> rfl
@[simp] theorem localExtract_loc : (localExtract pc d).loc = pc.loc := by
  unfold localExtract; split <;> (try split) <;> rfl
@[simp] theorem localExtract_rem : (localExtract pc d).rem = pc.rem := by
  unfold localExtract; split <;> (try split) <;> rfl
@[simp] theorem localExtract_nextMid : (localExtract pc d).nextMid = pc.nextMid := by
  unfold localExtract; split <;> (try split) <;> rfl
@[simp] theorem localExtract_dtlsStarted : (localExtract pc d).dtlsStarted = pc.dtlsStarted := by
  unfold localExtract; split <;> (try split) <;> rfl
@[simp] theorem localExtract_remoteFp : (localExtract pc d).remoteFp = pc.remoteFp := by
  unfold localExtract; split <;> (try split) <;> rfl
/-- the extraction block is the identity unless the call is an offer applied in `Stable` -/
theorem localExtract_id (h : ¬ (d.ty = .offer ∧ pc.sig = .stable)) : localExtract pc d = pc := by
  unfold localExtract; simp [h]
end localExtract

/-- in which states `set_local_description` passes its state check -/
theorem localTransition_ok_iff (s : SigState) (t : SdpType) (s' : SigState) :
    localTransition s t = .ok s' ↔
      (t = .offer ∧ s = .stable ∧ s' = .haveLocalOffer) ∨
      (t = .answer ∧ s = .haveRemoteOffer ∧ s' = .stable) ∨
      (t = .pranswer ∧ s = .haveRemoteOffer ∧ s' = .haveRemoteOffer) := by
  cases t <;> cases s <;> cases s' <;> simp [localTransition]

theorem remoteTransition_ok_iff (s : SigState) (t : SdpType) (s' : SigState) :
    remoteTransition s t = .ok s' ↔
      (t = .offer ∧ s = .stable ∧ s' = .haveRemoteOffer) ∨
      (t = .answer ∧ s = .haveLocalOffer ∧ s' = .stable) ∨
      (t = .pranswer ∧ s = .haveLocalOffer ∧ s' = .haveLocalOffer) := by
  cases t <;> cases s <;> cases s' <;> simp [remoteTransition]

/-- complete description of `setLocal`: either an error with the connection untouched, or success
with the transition of the table, the description stored, and only the transceivers touched besides. -/
theorem setLocal_cases (pc : Pc) (d : Desc) :
    (∃ e, setLocal pc d = (pc, .err e) ∧ ∀ s', localTransition pc.sig d.ty ≠ .ok s') ∨
    (∃ s', localTransition pc.sig d.ty = .ok s' ∧
      setLocal pc d = ({ localExtract pc d with sig := s', loc := some d }, .ok)) := by
  unfold setLocal
  cases hv : validateType d.ty with
  | some e =>
    left; refine ⟨e, rfl, ?_⟩
    intro s' h; cases hd : d.ty <;> simp_all [validateType, localTransition]
  | none =>
    simp only [localExtract_sig]
    cases ht : localTransition pc.sig d.ty with
    | error e =>
      left; refine ⟨e, ?_, by simp⟩
      have : ¬ (d.ty = .offer ∧ pc.sig = .stable) := by
        intro ⟨h1, h2⟩; simp [localTransition, h1, h2] at ht
      simp [localExtract_id pc d this]
    | ok s' => right; exact ⟨s', rfl, rfl⟩

/-! ### set_remote -/

section handleReinvite
variable (pc : Pc) (d : Desc)
@[simp] theorem handleReinvite_mode : (handleReinvite pc d).mode = pc.mode := rfl
@[simp] theorem handleReinvite_sig : (handleReinvite pc d).sig = pc.sig := rfl
@[simp] theorem handleReinvite_peerClosed : (handleReinvite pc d).peerClosed = pc.peerClosed := rfl
@[simp] theorem handleReinvite_loc : (handleReinvite pc d).loc = pc.loc := rfl
@[simp] theorem handleReinvite_nextMid : (handleReinvite pc d).nextMid = pc.nextMid := rfl
@[simp] theorem handleReinvite_dtlsStarted : (handleReinvite pc d).dtlsStarted = pc.dtlsStarted := rfl
@[simp] theorem handleReinvite_remoteFp : (handleReinvite pc d).remoteFp = pc.remoteFp := rfl
end handleReinvite

/-- The re-INVITE block either fails without touching anything, does nothing, or applies the
description in exactly the (type, state) pairs for which the later state check passes. -/
theorem reinvitePhase_cases (pc : Pc) (d : Desc) (ch : Bool) :
    (∃ e, reinvitePhase pc d ch = (pc, some e)) ∨
    reinvitePhase pc d ch = (pc, none) ∨
    (reinvitePhase pc d ch = (handleReinvite pc d, none) ∧
      ∃ s', remoteTransition pc.sig d.ty = .ok s') := by
  unfold reinvitePhase
  by_cases h : (pc.rem.isSome && ch) = true
  · simp only [h, if_true]
    cases hd : d.ty <;> cases hs : pc.sig <;> simp [remoteTransition]
  · simp [h]

section applyRemote
variable (pc : Pc) (d : Desc)
@[simp] theorem applyRemote_mode : (applyRemote pc d).mode = pc.mode := by unfold applyRemote; split <;> rfl
@[simp] theorem applyRemote_sig : (applyRemote pc d).sig = pc.sig := by unfold applyRemote; split <;> rfl
@[simp] theorem applyRemote_peerClosed : (applyRemote pc d).peerClosed = pc.peerClosed := by unfold applyRemote; split <;> rfl
@[simp] theorem applyRemote_loc : (applyRemote pc d).loc = pc.loc := by unfold applyRemote; split <;> rfl
@[simp] theorem applyRemote_rem : (applyRemote pc d).rem = pc.rem := by unfold applyRemote; split <;> rfl
@[simp] theorem applyRemote_nextMid : (applyRemote pc d).nextMid = pc.nextMid := by unfold applyRemote; split <;> rfl
@[simp] theorem applyRemote_dtlsStarted : (applyRemote pc d).dtlsStarted = pc.dtlsStarted := by unfold applyRemote; split <;> rfl
@[simp] theorem applyRemote_remoteFp : (applyRemote pc d).remoteFp = pc.remoteFp := by unfold applyRemote; split <;> rfl
end applyRemote

theorem fpChanged_congr (a b : Pc) (fp : Option Nat) (h1 : a.dtlsStarted = b.dtlsStarted)
    (h2 : a.remoteFp = b.remoteFp) : fpChanged a fp = fpChanged b fp := by
  simp [fpChanged, h1, h2]

theorem setRemote_err (pc : Pc) (d : Desc) (e : Err) (h : (setRemote pc d).2 = .err e) :
    ((setRemote pc d).1).sameButMid pc := by
  unfold setRemote at h ⊢
  cases hv : validateType d.ty with
  | some e' => simp only [hv] at h ⊢; exact Pc.sameButMid_refl pc
  | none =>
    simp only [hv] at h ⊢
    cases hf : remoteFingerprint pc.mode d.fp with
    | error e' => simp only [hf] at h ⊢; exact Pc.sameButMid_refl pc
    | ok fp =>
      simp only [hf] at h ⊢
      by_cases hc : fpChanged pc fp = true
      · simp only [hc, if_true] at h ⊢; exact Pc.sameButMid_refl pc
      · simp only [hc] at h ⊢
        rcases reinvitePhase_cases pc d (mediaChanged pc d) with ⟨e', hr⟩ | hr | ⟨hr, s', hs'⟩
        · simp only [hr] at h ⊢; exact Pc.sameButMid_refl pc
        · simp only [hr] at h ⊢
          cases ht : remoteTransition pc.sig d.ty with
          | error e' => simp only [ht] at h ⊢; exact ⟨rfl, rfl, rfl, rfl, rfl, rfl, rfl, rfl⟩
          | ok s2 =>
            simp only [ht] at h ⊢
            by_cases hu : (pc.rem.isSome && !mediaChanged pc d) = true
            · simp [hu] at h
            · simp [hu, fpChanged] at h hc
              split at h
              · rename_i hx; exact absurd (hc hx.1) hx.2
              · simp at h
        · simp only [hr, handleReinvite_sig, hs'] at h ⊢
          by_cases hu : (pc.rem.isSome && !mediaChanged pc d) = true
          · simp [hu] at h
          · simp [hu, fpChanged] at h hc
            split at h
            · rename_i hx; exact absurd (hc hx.1) hx.2
            · simp at h


/-- a successful `set_remote_description`: the state check of the table passed, the description is
stored, and besides that only transceivers, mid counter and cached fingerprint may have changed -/
theorem setRemote_ok (pc : Pc) (d : Desc) (h : (setRemote pc d).2 = .ok) :
    ∃ s', remoteTransition pc.sig d.ty = .ok s' ∧ (setRemote pc d).1.sig = s' ∧
      (setRemote pc d).1.rem = some d ∧ (setRemote pc d).1.loc = pc.loc ∧
      (setRemote pc d).1.peerClosed = pc.peerClosed ∧ (setRemote pc d).1.mode = pc.mode ∧
      (setRemote pc d).1.dtlsStarted = pc.dtlsStarted := by
  unfold setRemote at h ⊢
  cases hv : validateType d.ty with
  | some e' => simp [hv] at h
  | none =>
    simp only [hv] at h ⊢
    cases hf : remoteFingerprint pc.mode d.fp with
    | error e' => simp [hf] at h
    | ok fp =>
      simp only [hf] at h ⊢
      by_cases hc : fpChanged pc fp = true
      · simp [hc] at h
      · simp only [hc] at h ⊢
        rcases reinvitePhase_cases pc d (mediaChanged pc d) with ⟨e', hr⟩ | hr | ⟨hr, s', hs'⟩
        · simp [hr] at h
        · simp only [hr] at h ⊢
          cases ht : remoteTransition pc.sig d.ty with
          | error e' => simp [ht] at h
          | ok s2 =>
            refine ⟨s2, rfl, ?_⟩
            simp only [ht] at h ⊢
            by_cases hu : (pc.rem.isSome && !mediaChanged pc d) = true
            · simp [hu]
            · have hc2 : (pc.dtlsStarted && pc.remoteFp != fp) = false := by simpa [fpChanged] using hc
              simp [hu, fpChanged, hc2]
        · refine ⟨s', hs', ?_⟩
          simp only [hr, handleReinvite_sig, hs'] at h ⊢
          by_cases hu : (pc.rem.isSome && !mediaChanged pc d) = true
          · simp [hu]
          · have hc2 : (pc.dtlsStarted && pc.remoteFp != fp) = false := by simpa [fpChanged] using hc
            simp [hu, fpChanged, hc2]

/-! ### create_offer / create_answer -/

theorem createOffer_cases (pc : Pc) :
    (∃ e, createOffer pc = (pc, .err e) ∧ (pc.sig ≠ .stable ∨ pc.trxs = [])) ∨
    (pc.sig = .stable ∧ (createOffer pc).2 = .ok ∧
      createOffer pc = ({ pc with trxs := (createOffer pc).1.trxs, nextMid := (createOffer pc).1.nextMid }, .ok)) := by
  unfold createOffer
  by_cases h1 : pc.sig ≠ .stable
  · left; exact ⟨.invalidState, by simp [h1], Or.inl h1⟩
  · by_cases h2 : pc.trxs.isEmpty = true
    · left; refine ⟨.invalidState, by simp [h1, h2], Or.inr (by simpa using h2)⟩
    · right; simp at h1; simp [h1, h2]

theorem createAnswer_cases (pc : Pc) :
    (∃ e, createAnswer pc = (pc, .err e)) ∨
    (pc.sig = .haveRemoteOffer ∧ (createAnswer pc).2 = .ok ∧
      createAnswer pc = ({ pc with trxs := (createAnswer pc).1.trxs, nextMid := (createAnswer pc).1.nextMid }, .ok)) := by
  unfold createAnswer
  by_cases h1 : pc.sig ≠ .haveRemoteOffer
  · left; exact ⟨.invalidState, by simp [h1]⟩
  · simp at h1
    by_cases h2 : pc.trxs.isEmpty = true
    · left; exact ⟨.invalidState, by simp [h1, h2]⟩
    · cases hr : pc.rem with
      | none => left; exact ⟨.invalidState, by simp [h1, h2]⟩
      | some r =>
        cases ho : answerOrder pc.trxs r.sections [] [] with
        | none => left; exact ⟨.internal, by simp [h1, h2, ho]⟩
        | some order => right; simp [h1, h2, ho]

end RtcModel.Jsep
