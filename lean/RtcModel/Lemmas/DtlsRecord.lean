/- Helper lemmas for the DTLS record layer model (C03). -/
import RtcModel.DtlsRecord

namespace RtcModel.DtlsRecord
open RtcModel.Generated

/-! ### big-endian encodings are injective on their range -/

theorem u8_ofNat_inj {a b : Nat} (ha : a < 256) (hb : b < 256) (h : UInt8.ofNat a = UInt8.ofNat b) : a = b := by
  have := congrArg UInt8.toNat h
  simp [UInt8.toNat_ofNat'] at this
  omega

theorem byteAt_eq {n m k : Nat} (h : byteAt n k = byteAt m k) : n / 256 ^ k % 256 = m / 256 ^ k % 256 :=
  u8_ofNat_inj (Nat.mod_lt _ (by decide)) (Nat.mod_lt _ (by decide)) h

theorem be16_inj {n m : Nat} (hn : n < 65536) (hm : m < 65536) (h : be16 n = be16 m) : n = m := by
  simp only [be16, List.cons.injEq, and_true] at h
  have h1 := byteAt_eq h.1
  have h0 := byteAt_eq h.2
  simp at h1 h0
  omega

theorem be64_inj {n m : Nat} (hn : n < 2 ^ 64) (hm : m < 2 ^ 64) (h : be64 n = be64 m) : n = m := by
  simp only [be64, List.cons.injEq, and_true] at h
  obtain ⟨h7, h6, h5, h4, h3, h2, h1, h0⟩ := h
  have h7 := byteAt_eq h7; have h6 := byteAt_eq h6; have h5 := byteAt_eq h5; have h4 := byteAt_eq h4
  have h3 := byteAt_eq h3; have h2 := byteAt_eq h2; have h1 := byteAt_eq h1; have h0 := byteAt_eq h0
  simp at h7 h6 h5 h4 h3 h2 h1 h0
  omega

@[simp] theorem be64_length (n : Nat) : (be64 n).length = 8 := rfl
@[simp] theorem be16_length (n : Nat) : (be16 n).length = 2 := rfl
@[simp] theorem be48_length (n : Nat) : (be48 n).length = 6 := rfl

/-! ### the 64-bit epoch‖sequence value -/

theorem fullSeq_eq {e s : Nat} (hs : s < 2 ^ 48) : fullSeq e s = e * 2 ^ 48 + s := by
  unfold fullSeq
  simp only [dtlsSeqShift_val]
  rw [← Nat.shiftLeft_add_eq_or_of_lt hs, Nat.shiftLeft_eq]

theorem fullSeq_lt {e s : Nat} (he : e < 2 ^ 16) (hs : s < 2 ^ 48) : fullSeq e s < 2 ^ 64 := by
  rw [fullSeq_eq hs]; omega

theorem fullSeq_inj {e s e' s' : Nat} (hs : s < 2 ^ 48) (hs' : s' < 2 ^ 48)
    (h : fullSeq e s = fullSeq e' s') : e = e' ∧ s = s' := by
  rw [fullSeq_eq hs, fullSeq_eq hs'] at h
  omega

/-! ### chunking -/

theorem chunks_flatten (n : Nat) (hn : 0 < n) : ∀ (fuel : Nat) (d : Bytes), d.length < fuel →
    (chunks n fuel d).flatten = d := by
  intro fuel
  induction fuel with
  | zero => intro d h; omega
  | succ f ih =>
    intro d h
    unfold chunks
    cases d with
    | nil => simp
    | cons x xs =>
      simp only [List.isEmpty_cons, Bool.false_eq_true, ↓reduceIte, List.flatten_cons]
      rw [ih _ (by simp [List.length_drop]; simp at h; omega)]
      exact List.take_append_drop n (x :: xs)

theorem chunks_bound (n : Nat) (hn : 0 < n) : ∀ (fuel : Nat) (d : Bytes),
    ∀ c ∈ chunks n fuel d, c.length ≤ n ∧ 0 < c.length := by
  intro fuel
  induction fuel with
  | zero => intro d c h; simp [chunks] at h
  | succ f ih =>
    intro d c h
    unfold chunks at h
    cases d with
    | nil => simp at h
    | cons x xs =>
      simp only [List.isEmpty_cons, Bool.false_eq_true, ↓reduceIte, List.mem_cons] at h
      rcases h with h | h
      · subst h
        simp [List.length_take]
        omega
      · exact ih _ c h

/-! ### what the receiver computes for a record the sender sealed -/

theorem sealed_body_length (A : Aead) (k : DirKeys) (ct full : Nat) (p : Bytes) :
    (sealPayload A k ct full p).length = 8 + p.length + 16 := by
  simp [sealPayload, A.enc_length, tagLen]
  omega

theorem open_sealed (A : Aead) (k : DirKeys) (ct e s : Nat) (p : Bytes) :
    openRec A.dec k (sealedRec A k ct e s p) = some p := by
  have hl := sealed_body_length A k ct (fullSeq e s) p
  have hb : (sealedRec A k ct e s p).body = sealPayload A k ct (fullSeq e s) p := rfl
  have hlt : ¬ ((sealedRec A k ct e s p).body.length < dtlsOpenMinExplicit + dtlsOpenMinTag) := by
    rw [hb, hl]; simp
  have hn : rxNonce k (sealedRec A k ct e s p) = mkNonce k.iv (be64 (fullSeq e s)) := by
    simp [rxNonce, hb, sealPayload, explicitLen, be64]
  have ha : rxAad (sealedRec A k ct e s p)
      = mkAad (fullSeq e s) ct dtls12Major.toUInt8 dtls12Minor.toUInt8 p.length := by
    simp only [rxAad, hb, hl]
    simp [sealedRec]
  have hd : (sealedRec A k ct e s p).body.drop explicitLen
      = A.enc k.key (mkNonce k.iv (be64 (fullSeq e s))) (mkAad (fullSeq e s) ct dtls12Major.toUInt8 dtls12Minor.toUInt8 p.length) p := by
    simp [hb, sealPayload, explicitLen, be64]
  unfold openRec
  rw [if_neg hlt, hn, ha, hd]
  exact A.dec_enc _ _ _ _

/-! ### sequence allocation invariant -/

/-- every logged allocation of the current epoch is below the counter, older epochs are below the
current one, and no `(epoch, seq)` pair occurs twice -/
structure Tx.Inv (t : Tx) : Prop where
  below : ∀ a ∈ t.log, a.epoch < t.epoch ∨ (a.epoch = t.epoch ∧ a.seq < t.next)
  nodup : t.log.Pairwise (fun a b => ¬ (a.epoch = b.epoch ∧ a.seq = b.seq))

theorem Tx.Inv.alloc {t : Tx} (h : t.Inv) (w : Who) : (t.alloc w).Inv := by
  constructor
  · intro a ha
    simp only [Tx.alloc, List.mem_cons] at ha
    rcases ha with ha | ha
    · subst ha; right; simp [Tx.alloc]
    · rcases h.below a ha with hb | hb
      · left; simpa [Tx.alloc] using hb
      · right; simp only [Tx.alloc]; omega
  · simp only [Tx.alloc, List.pairwise_cons]
    refine ⟨?_, h.nodup⟩
    intro a ha hc
    rcases h.below a ha with hb | hb <;> (obtain ⟨h1, h2⟩ := hc; omega)

theorem Tx.Inv.newEpoch {t : Tx} (h : t.Inv) : t.newEpoch.Inv := by
  constructor
  · intro a ha
    simp only [Tx.newEpoch] at ha ⊢
    rcases h.below a ha with hb | hb <;> left <;> omega
  · exact h.nodup

theorem Tx.Inv.run {t : Tx} (h : t.Inv) (sched : List Who) : (t.run sched).Inv := by
  induction sched generalizing t with
  | nil => exact h
  | cons w ws ih => exact ih (h.alloc w)

theorem Tx.afterCcs_inv (e0 : Nat) : (Tx.afterCcs e0).Inv :=
  ⟨by intro a ha; simp [Tx.afterCcs] at ha, by simp [Tx.afterCcs]⟩

theorem Tx.run_next (t : Tx) (sched : List Who) : (t.run sched).next = t.next + sched.length := by
  induction sched generalizing t with
  | nil => rfl
  | cons w ws ih => simp [Tx.run, List.foldl_cons] at ih ⊢; rw [ih]; simp [Tx.alloc]; omega

theorem Tx.run_epoch (t : Tx) (sched : List Who) : (t.run sched).epoch = t.epoch := by
  induction sched generalizing t with
  | nil => rfl
  | cons w ws ih => simp [Tx.run, List.foldl_cons] at ih ⊢; rw [ih]; simp [Tx.alloc]

theorem Tx.run_log_epoch (t : Tx) (sched : List Who) (h : ∀ a ∈ t.log, a.epoch = t.epoch) :
    ∀ a ∈ (t.run sched).log, a.epoch = t.epoch := by
  induction sched generalizing t with
  | nil => exact h
  | cons w ws ih =>
    have := ih (t.alloc w) (by
      intro a ha
      simp only [Tx.alloc, List.mem_cons] at ha ⊢
      rcases ha with ha | ha
      · subst ha; rfl
      · exact h a ha)
    simpa [Tx.run, Tx.alloc] using this

/-! ### publication invariant (counters first, state last) -/

structure PInv (E S : Nat) (s : PSys) : Prop where
  stage : (s.rest = pubOrder ∧ s.sh.connected = false) ∨
          (s.rest = [.storeSeq, .setState] ∧ s.sh.connected = false ∧ s.sh.wEpoch = E) ∨
          (s.rest = [.setState] ∧ s.sh.connected = false ∧ s.sh.wEpoch = E ∧ s.sh.wSeq = S) ∨
          (s.rest = [] ∧ s.sh.connected = true ∧ s.sh.wEpoch = E ∧ S ≤ s.sh.wSeq)
  idle : s.sh.connected = false → (∀ t, (s.thr t).pc = 0) ∧ s.log = []
  loaded : ∀ t, 2 ≤ (s.thr t).pc → (s.thr t).epoch = E
  range : ∀ p ∈ s.log, p.1 = E ∧ S ≤ p.2 ∧ p.2 < s.sh.wSeq
  nodup : s.log.Pairwise (· ≠ ·)

theorem PInv.init (E S : Nat) : PInv E S { rest := pubOrder } :=
  ⟨Or.inl ⟨rfl, rfl⟩, fun _ => ⟨fun _ => rfl, rfl⟩, by intro t h; simp at h, by simp, by simp⟩

theorem PInv.step {E S : Nat} {s : PSys} (h : PInv E S s) (a : PAct) : PInv E S (s.step E S a) := by
  obtain ⟨h1, h2, h3, h4, h5⟩ := h
  cases a with
  | pub =>
    rcases h1 with ⟨hr, hc⟩ | ⟨hr, hc, he⟩ | ⟨hr, hc, he, hs⟩ | ⟨hr, hc, he, hs⟩
    · simp only [PSys.step, hr, pubOrder, applyPub]
      exact ⟨Or.inr (Or.inl ⟨rfl, hc, rfl⟩), (fun _ => h2 hc), h3, (by rw [(h2 hc).2]; simp), h5⟩
    · simp only [PSys.step, hr, applyPub]
      exact ⟨Or.inr (Or.inr (Or.inl ⟨rfl, hc, he, rfl⟩)), (fun _ => h2 hc), h3, (by rw [(h2 hc).2]; simp), h5⟩
    · simp only [PSys.step, hr, applyPub]
      exact ⟨Or.inr (Or.inr (Or.inr ⟨rfl, rfl, he, (by show S ≤ s.sh.wSeq; omega)⟩)), (fun hh => by simp at hh), h3,
        (by rw [(h2 hc).2]; simp), h5⟩
    · simp only [PSys.step, hr]
      exact ⟨Or.inr (Or.inr (Or.inr ⟨hr, hc, he, hs⟩)), h2, h3, h4, h5⟩
  | snd t =>
    have hconn_of : (s.thr t).pc ≠ 0 → s.sh.connected = true := by
      intro hne
      cases hcc : s.sh.connected with
      | true => rfl
      | false => exact absurd ((h2 hcc).1 t) hne
    have hstage_of : s.sh.connected = true → s.rest = [] ∧ s.sh.wEpoch = E ∧ S ≤ s.sh.wSeq := by
      intro hconn
      rcases h1 with ⟨_, hc⟩ | ⟨_, hc, _⟩ | ⟨_, hc, _⟩ | ⟨hr, _, he, hs⟩
      · rw [hconn] at hc; cases hc
      · rw [hconn] at hc; cases hc
      · rw [hconn] at hc; cases hc
      · exact ⟨hr, he, hs⟩
    simp only [PSys.step]
    split
    · -- idle sender looks at the state
      split
      · rename_i hc
        refine ⟨h1, (fun hh => by rw [hc] at hh; cases hh), ?_, h4, h5⟩
        intro x hx
        simp only [setThr] at hx ⊢
        split at hx
        · simp at hx
        · rename_i hne; simp only [hne, if_false]; exact h3 x hx
      · exact ⟨h1, h2, h3, h4, h5⟩
    · rename_i hp0
      have hconn := hconn_of hp0
      have hst := hstage_of hconn
      split
      · -- loads the epoch: it saw Connected, so both stores have happened
        refine ⟨h1, (fun hh => by rw [hconn] at hh; cases hh), ?_, h4, h5⟩
        intro x hx
        simp only [setThr] at hx ⊢
        split
        · exact hst.2.1
        · rename_i hne; simp only [hne, if_false] at hx; exact h3 x hx
      · -- fetch_add
        rename_i hp1
        have hpc : 2 ≤ (s.thr t).pc := by omega
        refine ⟨Or.inr (Or.inr (Or.inr ⟨hst.1, hconn, hst.2.1, (by show S ≤ s.sh.wSeq + 1; omega)⟩)),
          (fun hh => by rw [show ({ s.sh with wSeq := s.sh.wSeq + 1 } : Shared).connected = s.sh.connected from rfl, hconn] at hh; cases hh),
          ?_, ?_, ?_⟩
        · intro x hx
          simp only [setThr] at hx ⊢
          split at hx
          · simp at hx
          · rename_i hne; simp only [hne, if_false]; exact h3 x hx
        · intro p hp
          simp only [List.mem_cons] at hp
          rcases hp with rfl | hp
          · exact ⟨h3 t hpc, hst.2.2, (by show s.sh.wSeq < s.sh.wSeq + 1; omega)⟩
          · have := h4 p hp
            exact ⟨this.1, this.2.1, (by show p.2 < s.sh.wSeq + 1; omega)⟩
        · simp only [List.pairwise_cons]
          refine ⟨?_, h5⟩
          intro p hp heq
          have := (h4 p hp).2.2
          rw [← heq] at this
          simp at this

  | alert =>
    simp only [PSys.step]
    split
    · rename_i hr
      rcases h1 with ⟨hr', _⟩ | ⟨hr', _⟩ | ⟨hr', _⟩ | ⟨_, hc, he, hs⟩
      · rw [hr] at hr'; simp [pubOrder] at hr'
      · rw [hr] at hr'; simp at hr'
      · rw [hr] at hr'; simp at hr'
      · refine ⟨Or.inr (Or.inr (Or.inr ⟨hr, hc, he, (by show S ≤ s.sh.wSeq + 1; omega)⟩)),
          (fun hh => by rw [show ({ s.sh with wSeq := s.sh.wSeq + 1 } : Shared).connected = s.sh.connected from rfl, hc] at hh; cases hh),
          h3, ?_, ?_⟩
        · intro p hp
          simp only [List.mem_cons] at hp
          rcases hp with rfl | hp
          · exact ⟨rfl, hs, (by show s.sh.wSeq < s.sh.wSeq + 1; omega)⟩
          · have := h4 p hp
            exact ⟨this.1, this.2.1, (by show p.2 < s.sh.wSeq + 1; omega)⟩
        · simp only [List.pairwise_cons]
          refine ⟨?_, h5⟩
          intro p hp heq
          have := (h4 p hp).2.2
          rw [← heq] at this
          simp at this
    · exact ⟨h1, h2, h3, h4, h5⟩

theorem PInv.run {E S : Nat} {s : PSys} (h : PInv E S s) (acts : List PAct) : PInv E S (s.run E S acts) := by
  induction acts generalizing s with
  | nil => exact h
  | cons a as ih => exact ih (h.step a)

end RtcModel.DtlsRecord
