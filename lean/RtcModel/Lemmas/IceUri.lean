/-
Helper lemmas about the ICE server URI model (`RtcModel/IceUri.lean`): `split_once` / `rsplit_once` /
`split` over constructed strings, canonical printing, parse∘print. Core Lean only.
-/
import RtcModel.IceUri
import RtcModel.Lemmas.IceCand
namespace RtcModel.IceUri
open RtcModel.IceCand

theorem splitOnce_none (c : Char) (a : Str) (h : c ∉ a) : splitOnce c a = none := by
  induction a with
  | nil => rfl
  | cons x xs ih =>
    have hx : x ≠ c := fun e => h (by simp [e])
    simp [splitOnce, hx, ih (fun hm => h (by simp [hm]))]

theorem splitOnce_append (c : Char) (a b : Str) (h : c ∉ a) : splitOnce c (a ++ c :: b) = some (a, b) := by
  induction a with
  | nil => simp [splitOnce]
  | cons x xs ih =>
    have hx : x ≠ c := fun e => h (by simp [e])
    simp [splitOnce, hx, ih (fun hm => h (by simp [hm]))]

theorem rsplitOnce_none (c : Char) (a : Str) (h : c ∉ a) : rsplitOnce c a = none := by
  simp [rsplitOnce, splitOnce_none c a.reverse (by simpa using h)]

theorem rsplitOnce_append (c : Char) (a b : Str) (h : c ∉ b) : rsplitOnce c (a ++ c :: b) = some (a, b) := by
  have : (a ++ c :: b).reverse = b.reverse ++ c :: a.reverse := by simp
  simp [rsplitOnce, this, splitOnce_append c b.reverse a.reverse (by simpa using h)]

theorem splitAll_none (c : Char) (a : Str) (h : c ∉ a) : splitAll c a = [a] := by
  induction a with
  | nil => rfl
  | cons x xs ih =>
    have hx : x ≠ c := fun e => h (by simp [e])
    simp [splitAll, hx, ih (fun hm => h (by simp [hm]))]

theorem showDec_no (c : Char) (n : Nat) (hc : ∀ d, d < 10 → digitChar d ≠ c) : c ∉ showDec n := by
  intro hm
  obtain ⟨d, hd, rfl⟩ := showDec_head_digit n c hm
  exact hc d hd rfl

inductive Scheme where | stun | stuns | turn | turns
deriving DecidableEq, Repr

def Scheme.str : Scheme → Str
  | .stun => ['s', 't', 'u', 'n'] | .stuns => ['s', 't', 'u', 'n', 's'] | .turn => ['t', 'u', 'r', 'n'] | .turns => ['t', 'u', 'r', 'n', 's']
def Scheme.kind : Scheme → Kind
  | .stun | .stuns => .stun | .turn | .turns => .turn
def Scheme.port : Scheme → Nat
  | .stun | .turn => 3478 | .stuns | .turns => 5349
def Scheme.tr : Scheme → Tr
  | .stun | .turn => .udp | .stuns | .turns => .tcp
def Tr.str : Tr → Str
  | .udp => ['u', 'd', 'p'] | .tcp => ['t', 'c', 'p']

def portPart (port : Option Nat) : Str := match port with | some p => ':' :: showDec p | none => []
def queryPart (tr : Option Tr) : Str := match tr with | some t => ['t', 'r', 'a', 'n', 's', 'p', 'o', 'r', 't', '='] ++ t.str | none => []

theorem portPart_noq (port : Option Nat) : '?' ∉ portPart port := by
  cases port with
  | none => simp [portPart]
  | some p =>
    simp only [portPart, List.mem_cons]; intro h; rcases h with h | h
    · exact absurd h (by decide)
    · exact showDec_no '?' p (by decide) h

theorem splitQuery_print (host : Str) (port : Option Nat) (tr : Option Tr) (hh2 : '?' ∉ host) :
    splitQuery (host ++ portPart port ++ (match tr with | some t => '?' :: queryPart (some t) | none => [])) =
      (host ++ portPart port, queryPart tr) := by
  have hnoq : '?' ∉ host ++ portPart port := by
    simp only [List.mem_append]; intro h; rcases h with h | h
    · exact hh2 h
    · exact portPart_noq port h
  cases tr with
  | none => simp only [List.append_nil, splitQuery, splitOnce_none '?' _ hnoq, queryPart]
  | some t => simp only [splitQuery, splitOnce_append '?' _ _ hnoq]

theorem hostPort_print (sc : Scheme) (host : Str) (port : Option Nat) (hh1 : ':' ∉ host)
    (hp : ∀ p, port = some p → p ≤ 65535) :
    hostPort sc.str (host ++ portPart port) = .ok (host, port.getD sc.port) := by
  cases port with
  | none =>
    have hd : defaultPort sc.str = some sc.port := by cases sc <;> decide
    simp only [portPart, List.append_nil, hostPort, rsplitOnce_none ':' host hh1, hd, Option.getD_none]
  | some p =>
    simp only [portPart, hostPort, rsplitOnce_append ':' host (showDec p) (showDec_no ':' p (by decide)),
      parseUInt_showDec 65535 p (hp p rfl)]
    rfl

theorem queryTransport_print (tr : Option Tr) (tr0 : Tr) : queryTransport (queryPart tr) tr0 = .ok (tr.getD tr0) := by
  cases tr with
  | none => rfl
  | some t => cases t <;> cases tr0 <;> rfl

theorem defaultTransport_scheme (sc : Scheme) : defaultTransport sc.str = some sc.tr := by cases sc <;> decide

theorem finish_print (sc : Scheme) (host : Str) (port : Nat) (t : Tr) (tr : Option Tr) (hstun : sc.kind = .stun → tr = none) :
    finish sc.str host port t (queryPart tr) = .ok ⟨sc.kind, host, port, t⟩ := by
  have h1 : (['s', 't', 'u', 'n'].isPrefixOf sc.str = true) = (sc.kind = .stun) := by cases sc <;> decide
  have h2 : (if sc.str = ['s', 't', 'u', 'n'] ∨ sc.str = ['s', 't', 'u', 'n', 's'] then Kind.stun else Kind.turn) = sc.kind := by
    cases sc <;> decide
  have h3 : containsSub ['t', 'r', 'a', 'n', 's', 'p', 'o', 'r', 't'] [] = false := by decide
  unfold finish
  rw [h2]
  by_cases hk : sc.kind = .stun
  · rw [hstun hk]; simp only [queryPart, h3, Bool.false_eq_true, and_false, ↓reduceIte]
  · have : ¬ (['s', 't', 'u', 'n'].isPrefixOf sc.str = true) := by rw [h1]; exact hk
    simp [this]

/-- RFC 7064 / 7065: `scheme ":" host [ ":" port ] [ "?transport=" transport ]` -/
def printUri (sc : Scheme) (host : Str) (port : Option Nat) (tr : Option Tr) : Str :=
  sc.str ++ ':' :: (host ++ portPart port ++ (match tr with | some t => '?' :: queryPart (some t) | none => []))

theorem parse_printUri (sc : Scheme) (host : Str) (port : Option Nat) (tr : Option Tr)
    (hh1 : ':' ∉ host) (hh2 : '?' ∉ host) (hp : ∀ p, port = some p → p ≤ 65535)
    (hstun : sc.kind = .stun → tr = none) :
    parse (printUri sc host port tr) = .ok ⟨sc.kind, host, port.getD sc.port, tr.getD sc.tr⟩ := by
  unfold parse printUri
  rw [splitOnce_append ':' _ _ (by cases sc <;> decide)]
  simp only [splitQuery_print host port tr hh2, hostPort_print sc host port hh1 hp, defaultTransport_scheme,
    queryTransport_print, finish_print sc host _ _ tr hstun]

end RtcModel.IceUri
