/- A toy cipher suite satisfying the `Suite` laws, for concrete witnesses / non-vacuity examples. -/
import RtcModel.Srtp
namespace RtcModel.Srtp
open RtcModel.C04

/-- keystream of zeros; the "MAC" is the reversed tail of the message (so it depends on the ROC that is
appended last); the "AEAD" appends 16 zero bytes -/
def toySuite : Suite where
  ks := fun _ _ n => List.replicate n 0
  ks_len := by intro _ _ n; simp
  mac := fun _ d => (d.reverse ++ List.replicate 20 0).take 20
  mac_len := by intro _ d; simp [List.length_take]
  aeadSeal := fun _ _ _ p => p ++ List.replicate 16 0
  aeadOpen := fun _ _ _ c => if c.length < 16 then none else some (c.take (c.length - 16))
  seal_len := by intro _ _ _ p; simp
  open_seal := by intro _ _ _ p; simp
  open_len := by
    intro _ _ _ c p h
    split at h
    · simp at h
    · simp only [Option.some.injEq] at h; subst h; simp [List.length_take]; omega

end RtcModel.Srtp
