/-
Endpoint-level sequence-number discipline (C03): every record an endpoint seals — its Finished, the
application records of `send`, the close alert — gets an `(epoch, seq)` no earlier sealed record of
that endpoint has, except byte-identical retransmissions of a flight.  `NInv` is the invariant,
`NPres` its preservation by a handler; the plumbing lemmas lift it through the packet path.
-/
import RtcModel.Lemmas.DtlsHs

namespace RtcModel.DtlsHs
open RtcModel.Generated RtcModel.DtlsRecord

/-- the fields the discipline is about -/
structure NView where
  isClient   : Bool
  conn       : Conn
  alive      : Bool
  writeEpoch : Nat
  writeSeq   : Nat
  epoch      : Nat
  seqNum     : Nat
  hasKeys    : Bool
  lastFlight : Option (List WRec)

def nview (e : Ep) : NView :=
  ⟨e.isClient, e.conn, e.alive, e.writeEpoch, e.writeSeq, e.ctx.epoch, e.ctx.seqNum, e.ctx.keys.isSome, e.ctx.lastFlight⟩

/-- sealed records among some outputs -/
def sealedOf : List Out → List WRec
  | [] => []
  | .send w :: rest => if w.sealed then w :: sealedOf rest else sealedOf rest
  | .deliver _ :: rest => sealedOf rest

@[simp] theorem sealedOf_nil : sealedOf [] = [] := rfl
theorem sealedOf_append (a b : List Out) : sealedOf (a ++ b) = sealedOf a ++ sealedOf b := by
  induction a with
  | nil => rfl
  | cons x xs ih =>
    cases x with
    | send w => simp only [List.cons_append, sealedOf]; split <;> simp [ih]
    | deliver p => simp only [List.cons_append, sealedOf, ih]

theorem mem_sealedOf_sends {fl : List WRec} {w : WRec} (h : w ∈ sealedOf (sends fl)) : w ∈ fl ∧ w.sealed = true := by
  induction fl with
  | nil => simp [sends, sealedOf] at h
  | cons x xs ih =>
    simp only [sends, List.map_cons, sealedOf] at h
    split at h
    · rename_i hx
      simp only [List.mem_cons] at h
      rcases h with h | h
      · subst h; exact ⟨by simp, hx⟩
      · have := ih h; exact ⟨by simp [this.1], this.2⟩
    · have := ih h; exact ⟨by simp [this.1], this.2⟩

/-- the next sequence number a sealed record of the current epoch would get -/
def hwm (v : NView) : Nat := if v.writeEpoch ≠ 0 then v.writeSeq else v.seqNum

/-- same `(epoch, seq)` ⇒ the same record -/
def SameOrDistinct (a b : WRec) : Prop := a.epoch = b.epoch → a.seq = b.seq → a = b

structure NInv (v : NView) (log : List WRec) : Prop where
  pub : v.writeEpoch ≠ 0 → v.writeEpoch = v.epoch ∧ v.hasKeys = true
  connPub : v.conn = .connected → v.writeEpoch ≠ 0
  cliEpoch : v.isClient = true → v.hasKeys = true → 0 < v.epoch
  below : ∀ w ∈ log, w.epoch < v.epoch ∨ (w.epoch = v.epoch ∧
            (w.seq < hwm v ∨ (v.alive = false ∧ v.writeEpoch = 0 ∧ w.seq = hwm v)))
  uniq : ∀ a ∈ log, ∀ b ∈ log, SameOrDistinct a b
  flight : ∀ fl, v.lastFlight = some fl → ∀ w ∈ fl, w.sealed = true → w ∈ log

/-- preservation by a handler (handlers run only while the loop is alive and keep it so) -/
def NPres (e : Ep) (r : R) : Prop :=
  ∀ log, e.alive = true → NInv (nview e) log → NInv (nview r.ep) (log ++ sealedOf r.out) ∧ r.ep.alive = true

theorem NPres.ok (e : Ep) : NPres e (ok e) := by
  intro log ha h; simpa [RtcModel.DtlsHs.ok] using ⟨h, ha⟩

theorem NPres.of_nview {e e' : Ep} {r : R} (hv : nview e' = nview e) (h : NPres e' r) : NPres e r := by
  intro log ha hi
  have ha' : e'.alive = true := by have := congrArg NView.alive hv; simpa [nview] using this.trans ha
  exact h log ha' (hv ▸ hi)

theorem NPres.seq {e : Ep} {r1 r2 : R} {b : Bool} (h1 : NPres e r1) (h2 : NPres r1.ep r2) :
    NPres e ⟨r2.ep, r1.out ++ r2.out, b⟩ := by
  intro log ha hi
  obtain ⟨i1, a1⟩ := h1 log ha hi
  obtain ⟨i2, a2⟩ := h2 _ a1 i1
  exact ⟨by simpa [sealedOf_append, List.append_assoc] using i2, a2⟩

/-- nothing sealed is emitted and the view does not change -/
theorem NPres.silent {e : Ep} {r : R} (hv : nview r.ep = nview e) (ho : sealedOf r.out = []) : NPres e r := by
  intro log ha hi
  refine ⟨by rw [hv, ho, List.append_nil]; exact hi, ?_⟩
  have := congrArg NView.alive hv
  simpa [nview] using this.trans ha

/-- only the connection state changes, to something other than Connected -/
theorem NInv.set_conn {v : NView} {log : List WRec} (h : NInv v log) (c : Conn) (hc : c ≠ .connected) :
    NInv { v with conn := c } log :=
  ⟨h.pub, fun hh => absurd hh hc, h.cliEpoch, h.below, h.uniq, h.flight⟩

/-- re-sending the last flight -/
theorem NInv.resend {v : NView} {log : List WRec} (h : NInv v log) (fl : List WRec) (hf : v.lastFlight = some fl) :
    NInv v (log ++ sealedOf (sends fl)) := by
  have hsub : ∀ w ∈ sealedOf (sends fl), w ∈ log := by
    intro w hw
    obtain ⟨h1, h2⟩ := mem_sealedOf_sends hw
    exact h.flight fl hf w h1 h2
  refine ⟨h.pub, h.connPub, h.cliEpoch, ?_, ?_, ?_⟩
  · intro w hw
    simp only [List.mem_append] at hw
    rcases hw with hw | hw
    · exact h.below w hw
    · exact h.below w (hsub w hw)
  · intro a ha b hb
    simp only [List.mem_append] at ha hb
    exact h.uniq a (ha.elim id (hsub a)) b (hb.elim id (hsub b))
  · intro fl' hf' w hw hs
    simp only [List.mem_append]
    exact Or.inl (h.flight fl' hf' w hw hs)

theorem NPres.failed (e : Ep) : NPres e (failed e) := by
  intro log ha hi
  refine ⟨?_, ha⟩
  have := hi.set_conn .failed (by decide)
  simpa [RtcModel.DtlsHs.failed, nview] using this

theorem handleCertificate_npres (C : Crypto) (e : Ep) (b : Bytes) : NPres e (handleCertificate C e b) := by
  unfold handleCertificate
  repeat' split
  all_goals first
    | exact NPres.failed e
    | exact NPres.silent rfl rfl

theorem handleServerHello_npres (C : Crypto) (e : Ep) (b : Bytes) : NPres e (handleServerHello C e b) := by
  unfold handleServerHello
  repeat' split
  all_goals first
    | exact NPres.ok e
    | exact NPres.silent rfl rfl

theorem handleServerKeyExchange_npres (C : Crypto) (e : Ep) (b : Bytes) : NPres e (handleServerKeyExchange C e b) := by
  unfold handleServerKeyExchange
  repeat' split
  all_goals first
    | exact NPres.failed e
    | exact NPres.ok e
    | exact NPres.silent rfl rfl

/-- the sequence counter of the context moves forward, nothing sealed is emitted, and the flight kept
for retransmission (if replaced) is clear text -/
theorem NInv.advance {v : NView} {log : List WRec} (h : NInv v log) (ha : v.alive = true) (k : Nat)
    (lf : Option (List WRec)) (hlf : lf = v.lastFlight ∨ ∀ fl, lf = some fl → ∀ w ∈ fl, w.sealed = false) :
    NInv { v with seqNum := v.seqNum + k, lastFlight := lf } log := by
  refine ⟨h.pub, h.connPub, h.cliEpoch, ?_, h.uniq, ?_⟩
  · intro w hw
    rcases h.below w hw with h1 | ⟨h1, h2⟩
    · exact Or.inl h1
    · refine Or.inr ⟨h1, Or.inl ?_⟩
      rcases h2 with h2 | ⟨h2, _⟩
      · simp only [hwm] at h2 ⊢
        split <;> simp_all <;> omega
      · rw [ha] at h2; cases h2
  · intro fl hfl w hw hs
    rcases hlf with hlf | hlf
    · exact h.flight fl (hlf ▸ hfl) w hw hs
    · have := hlf fl hfl w hw
      rw [this] at hs; cases hs

theorem handleHvr_npres (C : Crypto) (L : Loc) (e : Ep) (b : Bytes) : NPres e (handleHvr C L e b) := by
  unfold handleHvr
  split
  · exact NPres.ok e
  · split
    · intro log ha hi
      have := hi.advance (by simpa [nview] using ha) 1
        (some [(hsRecord { e.ctx with transcript := rawMsg dtlsHtClientHello e.ctx.msgSeq L.ch2Body } (rawMsg dtlsHtClientHello e.ctx.msgSeq L.ch2Body) false).1])
        (Or.inr (by intro fl hfl w hw; cases hfl; simp [hsRecord] at hw; subst hw; simp))
      dsimp only
      split
      · exact ⟨by simpa [nview, hsRecord, sends, sealedOf] using this, ha⟩
      · exact ⟨by simpa [nview, RtcModel.DtlsHs.ok, hsRecord, sends, sealedOf] using this, ha⟩
    · exact NPres.ok e


theorem serverFlight_unsealed (L : Loc) (c : Ctx) : ∀ w ∈ (serverFlight L c).1, w.sealed = false := by
  intro w hw
  simp [serverFlight, emitMsg, hsRecord] at hw
  rcases hw with h | h | h | h <;> subst h <;> simp

theorem serverFlight_seqNum (L : Loc) (c : Ctx) : (serverFlight L c).2.seqNum = c.seqNum + 4 := by
  simp [serverFlight, emitMsg, hsRecord]
theorem serverFlight_epoch (L : Loc) (c : Ctx) : (serverFlight L c).2.epoch = c.epoch := by
  simp [serverFlight, emitMsg, hsRecord]

theorem sealedOf_sends_unsealed (fl : List WRec) (h : ∀ w ∈ fl, w.sealed = false) : sealedOf (sends fl) = [] := by
  induction fl with
  | nil => rfl
  | cons x xs ih =>
    simp only [sends, List.map_cons, sealedOf, h x (by simp), Bool.false_eq_true, if_false]
    exact ih (fun w hw => h w (by simp [hw]))

theorem handleClientHello_npres (C : Crypto) (L : Loc) (e : Ep) (b : Bytes) : NPres e (handleClientHello C L e b) := by
  unfold handleClientHello
  split
  · exact NPres.ok e
  · split
    · split
      · rename_i fl hfl
        intro log ha hi
        exact ⟨by simpa [RtcModel.DtlsHs.ok] using hi.resend fl (by simpa [nview] using hfl), ha⟩
      · exact NPres.ok e
    · split
      · exact NPres.ok e
      · rename_i random ems profiles _
        intro log ha hi
        refine ⟨?_, ha⟩
        dsimp only
        generalize hc0 : helloCtx L e.ctx random ems profiles = c0
        have hs0 : c0.seqNum = e.ctx.seqNum := by rw [← hc0]; rfl
        have he0 : c0.epoch = e.ctx.epoch := by rw [← hc0]; rfl
        have hk0 : c0.keys = e.ctx.keys := by rw [← hc0]; rfl
        have hun := serverFlight_unsealed L c0
        have := hi.advance (by simpa [nview] using ha) 4 (some (serverFlight L c0).1)
          (Or.inr (by intro fl hfl w hw; cases hfl; exact hun w hw))
        simp only [RtcModel.DtlsHs.ok, sealedOf_sends_unsealed _ hun, List.append_nil]
        simpa [nview, withCtx, serverFlight_seqNum, serverFlight_epoch, hs0, he0, hk0] using this

theorem handleClientKeyExchange_npres (C : Crypto) (L : Loc) (e : Ep) (b : Bytes) : NPres e (handleClientKeyExchange C L e b) := by
  unfold handleClientKeyExchange
  split
  · exact NPres.ok e
  · rename_i hs
    split
    · exact NPres.ok e
    · split
      · exact NPres.ok e
      · dsimp only
        split
        · exact NPres.silent rfl rfl
        · intro log ha hi
          refine ⟨?_, ha⟩
          simp only [RtcModel.DtlsHs.ok, sealedOf_nil, List.append_nil]
          refine ⟨?_, hi.connPub, ?_, hi.below, hi.uniq, hi.flight⟩
          · intro hw
            have := hi.pub hw
            exact ⟨this.1, by simp [nview]⟩
          · intro hc
            simp [nview] at hc
            exact absurd hc hs


/-- the epoch switch with the own Finished: old records stay below the new epoch, a sealed Finished
takes `(epoch + 1, 0)`, the counter stands at 1.  Only before the write side is published. -/
theorem NInv.new_epoch {v : NView} {log : List WRec} (h : NInv v log) (hw0 : v.writeEpoch = 0) (hk : Bool)
    (fin : WRec) (he : fin.epoch = v.epoch + 1) (hs : fin.seq = 0)
    (lf : List WRec) (hlf : ∀ w ∈ lf, w.sealed = true → w = fin) :
    NInv { v with epoch := v.epoch + 1, seqNum := 1, hasKeys := hk, lastFlight := some lf }
      (log ++ (if fin.sealed then [fin] else [])) := by
  have hold : ∀ w ∈ log, w.epoch < v.epoch + 1 := by
    intro w hw
    rcases h.below w hw with h1 | ⟨h1, _⟩ <;> omega
  have hmem : ∀ w, w ∈ log ++ (if fin.sealed then [fin] else []) → w ∈ log ∨ (w = fin ∧ fin.sealed = true) := by
    intro w hw
    simp only [List.mem_append] at hw
    rcases hw with hw | hw
    · exact Or.inl hw
    · split at hw
      · rename_i hfs; simp at hw; exact Or.inr ⟨hw, hfs⟩
      · simp at hw
  refine ⟨?_, h.connPub, ?_, ?_, ?_, ?_⟩
  · intro hw; exact absurd hw0 hw
  · intro _ _; show 0 < v.epoch + 1; omega
  · intro w hw
    rcases hmem w hw with hw | ⟨hw, _⟩
    · exact Or.inl (hold w hw)
    · subst hw
      refine Or.inr ⟨he, Or.inl ?_⟩
      simp [hwm, hw0, hs]
  · intro a ha b hb
    rcases hmem a ha with ha' | ⟨ha', _⟩ <;> rcases hmem b hb with hb' | ⟨hb', _⟩
    · exact h.uniq a ha' b hb'
    · intro h1; have := hold a ha'; rw [hb'] at h1; omega
    · intro h1; have := hold b hb'; rw [ha'] at h1; omega
    · intro _ _; rw [ha', hb']
  · intro fl hfl w hw hsl
    cases hfl
    have := hlf w hw hsl
    subst this
    simp [hsl]

/-- publishing the write side at `Connected`: `write_epoch := epoch`, `write_seq := sequence_number` -/
theorem NInv.publish {v : NView} {log : List WRec} (h : NInv v log) (hal : v.alive = true) (hw0 : v.writeEpoch = 0)
    (hk : v.hasKeys = true) (he : 0 < v.epoch) : NInv { v with conn := .connected, writeEpoch := v.epoch, writeSeq := v.seqNum } log := by
  refine ⟨fun _ => ⟨rfl, hk⟩, fun _ => by show v.epoch ≠ 0; omega, h.cliEpoch, ?_, h.uniq, h.flight⟩
  intro w hw
  rcases h.below w hw with h1 | ⟨h1, h2⟩
  · exact Or.inl h1
  · refine Or.inr ⟨h1, ?_⟩
    have e1 : hwm v = v.seqNum := by simp [hwm, hw0]
    have e2 : hwm { v with conn := Conn.connected, writeEpoch := v.epoch, writeSeq := v.seqNum } = v.seqNum := by
      simp [hwm]
    rw [e2]
    rw [e1] at h2
    rcases h2 with h2 | ⟨a, _, c⟩
    · exact Or.inl h2
    · rw [hal] at a; cases a


theorem handleFinishedClient_npres (C : Crypto) (e : Ep) (b : Bytes) (hc : e.isClient = true) (hw : e.writeEpoch = 0) :
    NPres e (handleFinishedClient C e b) := by
  unfold handleFinishedClient
  split
  · exact NPres.ok e
  · rename_i k hk
    split
    · exact NPres.failed e
    · intro log ha hi
      refine ⟨?_, ha⟩
      have := hi.publish (by simpa [nview] using ha) (by simpa [nview] using hw) (by simp [nview, hk])
        (hi.cliEpoch (by simpa [nview] using hc) (by simp [nview, hk]))
      simpa [RtcModel.DtlsHs.ok, connect, nview, hk] using this

theorem serverFinalFlight_spec (C : Crypto) (c : Ctx) (raw : Bytes) :
    ∃ rc rf, (serverFinalFlight C c raw).1 = [rc, rf] ∧ rc.sealed = false ∧ rf.epoch = c.epoch + 1 ∧ rf.seq = 0 ∧
      rf.sealed = c.keys.isSome ∧
      (serverFinalFlight C c raw).2.epoch = c.epoch + 1 ∧ (serverFinalFlight C c raw).2.seqNum = 1 ∧
      (serverFinalFlight C c raw).2.lastFlight = some [rc, rf] ∧ (serverFinalFlight C c raw).2.keys = c.keys := by
  refine ⟨_, _, rfl, rfl, rfl, rfl, ?_, rfl, rfl, rfl, rfl⟩
  simp [serverFinalFlight, ccsRecord, hsRecord]

theorem handleFinishedServer_npres (C : Crypto) (e : Ep) (b raw : Bytes) (hw : e.writeEpoch = 0) :
    NPres e (handleFinishedServer C e b raw) := by
  unfold handleFinishedServer
  split
  · exact NPres.failed e
  · obtain ⟨rc, rf, h1, h2, h3, h4, h5, h6, h7, h8, h9⟩ := serverFinalFlight_spec C e.ctx raw
    have hso : sealedOf (sends (serverFinalFlight C e.ctx raw).1) = if rf.sealed then [rf] else [] := by
      rw [h1]; simp [sends, sealedOf, h2]
    intro log ha hi
    refine ⟨?_, by dsimp only; split <;> exact ha⟩
    have hlf : ∀ w ∈ [rc, rf], w.sealed = true → w = rf := by
      intro w hw hs
      simp at hw
      rcases hw with rfl | rfl
      · rw [h2] at hs; cases hs
      · rfl
    have s1 := hi.new_epoch (by simpa [nview] using hw) e.ctx.keys.isSome rf (by simpa [nview] using h3) h4 [rc, rf] hlf
    dsimp only
    split
    · rename_i k hk
      have s2 := s1.publish (by simpa [nview] using ha) (by simpa [nview] using hw) (by simp [hk]) (by simp)
      simp only [RtcModel.DtlsHs.ok, hso]
      simpa [nview, connect, withCtx, h6, h7, h8, h9, hk] using s2
    · rename_i hk
      have s2 := s1.set_conn .failed (by decide)
      simp only [hso]
      simpa [nview, withCtx, h6, h7, h8, h9, hk] using s2


theorem clientFinalFlight_spec (C : Crypto) (c : Ctx) (k : Keys) :
    ∃ rc rf, (clientFinalFlight C c k).1 = [rc, rf] ∧ rc.sealed = false ∧ rf.epoch = c.epoch + 1 ∧ rf.seq = 0 ∧
      rf.sealed = true ∧
      (clientFinalFlight C c k).2.epoch = c.epoch + 1 ∧ (clientFinalFlight C c k).2.seqNum = 1 := by
  refine ⟨_, _, rfl, rfl, rfl, rfl, ?_, rfl, rfl⟩
  simp [clientFinalFlight, ccsRecord, emitMsg, hsRecord]

theorem handleServerHelloDone_npres (C : Crypto) (L : Loc) (e : Ep) : NPres e (handleServerHelloDone C L e) := by
  unfold handleServerHelloDone
  split
  · exact NPres.ok e
  · split
    · exact NPres.ok e
    · rename_i hk
      split
      · exact NPres.failed e
      · dsimp only
        have f1 : (emitMsg e.ctx dtlsHtClientKeyExchange L.ckeBody false).1.sealed = false := by simp [emitMsg, hsRecord]
        have f2 : (emitMsg e.ctx dtlsHtClientKeyExchange L.ckeBody false).2.seqNum = e.ctx.seqNum + 1 := rfl
        have f3 : (emitMsg e.ctx dtlsHtClientKeyExchange L.ckeBody false).2.epoch = e.ctx.epoch := rfl
        have f4 : (emitMsg e.ctx dtlsHtClientKeyExchange L.ckeBody false).2.lastFlight = e.ctx.lastFlight := rfl
        have f5 : (emitMsg e.ctx dtlsHtClientKeyExchange L.ckeBody false).2.keys = e.ctx.keys := rfl
        generalize emitMsg e.ctx dtlsHtClientKeyExchange L.ckeBody false = kc at f1 f2 f3 f4 f5 ⊢
        split
        · -- no keys: only the ClientKeyExchange went out
          intro log ha hi
          refine ⟨?_, ha⟩
          have := hi.advance (by simpa [nview] using ha) 1 e.ctx.lastFlight (Or.inl rfl)
          have hso : sealedOf (sends [kc.1]) = [] := by simp [sends, sealedOf, f1]
          simp only [RtcModel.DtlsHs.ok, hso, List.append_nil]
          simpa [nview, withCtx, f2, f3, f4, f5] using this
        · rename_i k _
          obtain ⟨rc, rf, h1, h2, h3, h4, h5, h6, h7⟩ := clientFinalFlight_spec C kc.2 k
          intro log ha hi
          refine ⟨?_, ha⟩
          have hw : (nview e).writeEpoch = 0 := by
            by_cases h0 : (nview e).writeEpoch = 0
            · exact h0
            · have := (hi.pub h0).2
              simp [nview] at this
              simp [this] at hk
          have hlf : ∀ w ∈ [kc.1, rc, rf], w.sealed = true → w = rf := by
            intro w hw hs
            simp at hw
            rcases hw with rfl | rfl | rfl
            · rw [f1] at hs; cases hs
            · rw [h2] at hs; cases hs
            · rfl
          have s0 := hi.advance (by simpa [nview] using ha) 1 e.ctx.lastFlight (Or.inl rfl)
          have s1 := s0.new_epoch hw true rf (by simpa [nview, f3] using h3) h4 _ hlf
          have hso : sealedOf (sends (kc.1 :: (clientFinalFlight C kc.2 k).1)) = if rf.sealed then [rf] else [] := by
            rw [h1]; simp [sends, sealedOf, f1, h2]
          simp only [RtcModel.DtlsHs.ok, hso]
          simpa [nview, withCtx, h1, h6, h7, f3] using s1

theorem handleMsg_npres (C : Crypto) (L : Loc) (e : Ep) (t : Nat) (b raw : Bytes) : NPres e (handleMsg C L e t b raw) := by
  unfold handleMsg
  repeat' split
  all_goals first
    | exact handleClientHello_npres C L e b
    | exact handleClientKeyExchange_npres C L e b
    | exact NPres.ok e
    | exact handleHvr_npres C L e b
    | exact handleServerHello_npres C e b
    | exact handleCertificate_npres C e b
    | exact handleServerKeyExchange_npres C e b
    | exact handleServerHelloDone_npres C L e
    | (apply handleFinishedClient_npres C e b <;> simp_all)
    | (apply handleFinishedServer_npres C e b raw; simp_all)

/-! ### plumbing -/

@[simp] theorem nview_clearPostHvr (e : Ep) : nview (clearPostHvr e) = nview e := by
  unfold clearPostHvr; split <;> rfl
@[simp] theorem nview_resync (e : Ep) (m : HsMsg) : nview (resync e m) = nview e := rfl

theorem nview_withCtx (e : Ep) (c : Ctx) (h1 : c.epoch = e.ctx.epoch) (h2 : c.seqNum = e.ctx.seqNum)
    (h3 : c.keys = e.ctx.keys) (h4 : c.lastFlight = e.ctx.lastFlight) : nview (withCtx e c) = nview e := by
  simp [nview, withCtx, h1, h2, h3, h4]

theorem resetFrag_nfields (c : Ctx) (m : HsMsg) :
    (resetFrag c m).epoch = c.epoch ∧ (resetFrag c m).seqNum = c.seqNum ∧ (resetFrag c m).keys = c.keys ∧
    (resetFrag c m).lastFlight = c.lastFlight := by
  unfold resetFrag; split <;> simp

theorem acceptMsg_npres (C : Crypto) (L : Loc) (e : Ep) (m : HsMsg) : NPres e (acceptMsg C L e m) := by
  unfold acceptMsg
  dsimp only
  have hb := resetFrag_nfields (clearPostHvr e).ctx m
  have hv0 : nview (clearPostHvr e) = nview e := nview_clearPostHvr e
  split
  · split
    · exact NPres.silent (by rw [RtcModel.DtlsHs.ok]; dsimp only; rw [nview_withCtx _ _ hb.1 hb.2.1 hb.2.2.1 hb.2.2.2, hv0]) rfl
    · split
      · exact NPres.silent (by
          rw [RtcModel.DtlsHs.ok]; dsimp only
          rw [nview_withCtx _ _ (by simpa [appendFrag] using hb.1) (by simpa [appendFrag] using hb.2.1)
            (by simpa [appendFrag] using hb.2.2.1) (by simpa [appendFrag] using hb.2.2.2), hv0]) rfl
      · split
        · exact NPres.silent (by
            dsimp only
            rw [nview_withCtx _ _ (by simpa [takeBuffer, appendFrag] using hb.1) (by simpa [takeBuffer, appendFrag] using hb.2.1)
              (by simpa [takeBuffer, appendFrag] using hb.2.2.1) (by simpa [takeBuffer, appendFrag] using hb.2.2.2), hv0]) rfl
        · refine NPres.of_nview ?_ (handleMsg_npres C L _ _ _ _)
          rw [nview_withCtx _ _ (by simpa [noteMsg, takeBuffer, appendFrag] using hb.1) (by simpa [noteMsg, takeBuffer, appendFrag] using hb.2.1)
            (by simpa [noteMsg, takeBuffer, appendFrag] using hb.2.2.1) (by simpa [noteMsg, takeBuffer, appendFrag] using hb.2.2.2), hv0]
  · split
    · exact NPres.silent hv0 rfl
    · refine NPres.of_nview ?_ (handleMsg_npres C L _ _ _ _)
      rw [nview_withCtx _ _ (by simp [noteMsg]) (by simp [noteMsg]) (by simp [noteMsg]) (by simp [noteMsg]), hv0]

theorem gate_npres (C : Crypto) (L : Loc) (e : Ep) (a : Bool) (m : HsMsg) : NPres e (gate C L e a m) := by
  unfold gate
  split
  · exact NPres.ok e
  · exact acceptMsg_npres C L e m

theorem procMsg_npres (C : Crypto) (L : Loc) (e : Ep) (a : Bool) (m : HsMsg) : NPres e (procMsg C L e a m) := by
  have hg : NPres e (gate C L (resync e m) a m) := NPres.of_nview (nview_resync e m) (gate_npres C L _ a m)
  unfold procMsg
  repeat' split
  all_goals first
    | exact NPres.ok e
    | exact hg
    | exact handleMsg_npres C L e _ _ _
    | exact gate_npres C L e a m
    | (rename_i fl hfl
       intro log ha hi
       exact ⟨by simpa [RtcModel.DtlsHs.ok] using hi.resend fl (by simpa [nview] using hfl), ha⟩)

theorem procPayload_npres (C : Crypto) (L : Loc) (a : Bool) : ∀ (fuel : Nat) (e : Ep) (bs : Bytes),
    NPres e (procPayload C L a fuel e bs) := by
  intro fuel
  induction fuel with
  | zero => intro e bs; exact NPres.ok e
  | succ f ih =>
    intro e bs
    unfold procPayload
    split
    · exact NPres.ok e
    · split
      · exact NPres.ok e
      · exact NPres.ok e
      · rename_i m rest _
        dsimp only
        split
        · exact procMsg_npres C L e a m
        · exact (procMsg_npres C L e a m).seq (ih _ rest)

theorem onRecord_npres (C : Crypto) (L : Loc) (e : Ep) (ct : Nat) (a : Bool) (pl : Bytes) : NPres e (onRecord C L e ct a pl) := by
  unfold onRecord
  split
  · exact NPres.silent rfl rfl
  · split
    · split
      · exact NPres.silent rfl rfl
      · exact NPres.ok e
    · split
      · exact procPayload_npres C L a _ e pl
      · split
        · split
          · split
            · intro log ha hi
              exact ⟨by simpa [RtcModel.DtlsHs.ok, nview] using hi.set_conn .closed (by decide), ha⟩
            · exact NPres.ok e
          · exact NPres.ok e
        · exact NPres.ok e

theorem onDatagram_npres (A : DecFn) (C : Crypto) (L : Loc) : ∀ (fuel : Nat) (e : Ep) (bs : Bytes),
    NPres e (onDatagram A C L fuel e bs) := by
  intro fuel
  induction fuel with
  | zero => intro e bs; exact NPres.ok e
  | succ f ih =>
    intro e bs
    unfold onDatagram
    split
    · exact NPres.ok e
    · split
      · exact NPres.ok e
      · exact NPres.ok e
      · rename_i r rest _
        split
        · exact ih e rest
        · split
          · exact NPres.ok e
          · rename_i payload _
            dsimp only
            split
            · exact onRecord_npres C L e _ _ payload
            · exact (onRecord_npres C L e _ _ payload).seq (ih _ rest)


/-! ### whole histories -/

theorem hwm_pub {v : NView} (h : v.writeEpoch ≠ 0) : hwm v = v.writeSeq := by simp [hwm, h]
theorem hwm_unpub {v : NView} (h : v.writeEpoch = 0) : hwm v = v.seqNum := by simp [hwm, h]

theorem NInv.kill {v : NView} {log : List WRec} (h : NInv v log) : NInv { v with alive := false } log := by
  refine ⟨h.pub, h.connPub, h.cliEpoch, ?_, h.uniq, h.flight⟩
  intro w hw
  rcases h.below w hw with h1 | ⟨h1, h2 | ⟨_, h3, h4⟩⟩
  · exact Or.inl h1
  · exact Or.inr ⟨h1, Or.inl h2⟩
  · exact Or.inr ⟨h1, Or.inr ⟨rfl, h3, h4⟩⟩

/-- the close branch also publishes `Closed` -/
theorem NInv.close {v : NView} {log : List WRec} (h : NInv v log) : NInv { v with alive := false, conn := .closed } log := by
  refine ⟨h.pub, (fun hh => by cases hh), h.cliEpoch, ?_, h.uniq, h.flight⟩
  intro w hw
  rcases h.below w hw with h1 | ⟨h1, h2 | ⟨_, h3, h4⟩⟩
  · exact Or.inl h1
  · exact Or.inr ⟨h1, Or.inl h2⟩
  · exact Or.inr ⟨h1, Or.inr ⟨rfl, h3, h4⟩⟩

theorem onPacket_ninv (A : DecFn) (C : Crypto) (L : Loc) (e : Ep) (bs : Bytes) (log : List WRec)
    (h : NInv (nview e) log) : NInv (nview (onPacket A C L e bs).1) (log ++ sealedOf (onPacket A C L e bs).2) := by
  unfold onPacket
  split
  · simpa using h
  · rename_i ha
    obtain ⟨hi, _⟩ := onDatagram_npres A C L (bs.length + 1) e bs log (by simpa using ha) h
    dsimp only
    split
    · exact hi.kill
    · exact hi

/-- application records of one `send`: consecutive sequence numbers from the counter -/
theorem mem_sealedOf_zip (ep ws : Nat) (cs : List Bytes) (w : WRec)
    (h : w ∈ sealedOf ((List.range cs.length).zipWith (fun i c => Out.send ⟨dtlsCtApplicationData, ep, ws + i, true, c⟩) cs)) :
    ∃ i c, i < cs.length ∧ cs[i]? = some c ∧ w = ⟨dtlsCtApplicationData, ep, ws + i, true, c⟩ := by
  have key : ∀ (outs : List Out), (∀ o ∈ outs, ∃ i c, i < cs.length ∧ cs[i]? = some c ∧ o = Out.send ⟨dtlsCtApplicationData, ep, ws + i, true, c⟩) →
      ∀ w ∈ sealedOf outs, ∃ i c, i < cs.length ∧ cs[i]? = some c ∧ w = ⟨dtlsCtApplicationData, ep, ws + i, true, c⟩ := by
    intro outs
    induction outs with
    | nil => intro _ w hw; simp at hw
    | cons o os ih =>
      intro ho w hw
      obtain ⟨i, c, hi, hc, rfl⟩ := ho o (by simp)
      simp only [sealedOf, if_true, List.mem_cons] at hw
      rcases hw with rfl | hw
      · exact ⟨i, c, hi, hc, rfl⟩
      · exact ih (fun o' ho' => ho o' (by simp [ho'])) w hw
  refine key _ ?_ w h
  intro o ho
  rw [List.mem_iff_getElem] at ho
  obtain ⟨n, hn, rfl⟩ := ho
  simp only [List.length_zipWith, List.length_range, Nat.min_self] at hn
  refine ⟨n, cs[n], hn, by simp [hn], ?_⟩
  simp

theorem onSend_ninv (e : Ep) (d : Bytes) (log : List WRec) (h : NInv (nview e) log) :
    NInv (nview (onSend e d).1) (log ++ sealedOf (onSend e d).2) := by
  unfold onSend
  split
  · rename_i hc
    dsimp only
    have hpub := h.connPub (by simpa [nview] using hc)
    obtain ⟨hwe, hk⟩ := h.pub hpub
    simp only [nview] at hpub hwe
    have hold : ∀ w ∈ log, w.epoch < e.ctx.epoch ∨ (w.epoch = e.ctx.epoch ∧ w.seq < e.writeSeq) := by
      intro w hw
      rcases h.below w hw with h1 | ⟨h1, h2 | ⟨_, h3, _⟩⟩
      · exact Or.inl h1
      · exact Or.inr ⟨h1, by rw [hwm_pub (by simpa [nview] using hpub)] at h2; simpa [nview] using h2⟩
      · exact absurd h3 (by simpa [nview] using hpub)
    have hnew : ∀ w ∈ sealedOf ((List.range (appChunks d).length).zipWith
        (fun i c => Out.send ⟨dtlsCtApplicationData, e.writeEpoch, e.writeSeq + i, true, c⟩) (appChunks d)),
        ∃ i c, i < (appChunks d).length ∧ (appChunks d)[i]? = some c ∧ w = ⟨dtlsCtApplicationData, e.writeEpoch, e.writeSeq + i, true, c⟩ :=
      fun w hw => mem_sealedOf_zip _ _ _ w hw
    refine ⟨?_, ?_, h.cliEpoch, ?_, ?_, ?_⟩
    · intro _; exact ⟨hwe, hk⟩
    · intro _; exact hpub
    · intro w hw
      simp only [List.mem_append] at hw
      rcases hw with hw | hw
      · rcases hold w hw with h1 | ⟨h1, h2⟩
        · exact Or.inl h1
        · refine Or.inr ⟨h1, Or.inl ?_⟩
          rw [hwm_pub (by simpa [nview] using hpub)]; simp only [nview]; omega
      · obtain ⟨i, c, hi, _, rfl⟩ := hnew w hw
        refine Or.inr ⟨hwe, Or.inl ?_⟩
        rw [hwm_pub (by simpa [nview] using hpub)]; simp only [nview]; omega
    · intro a ha b hb
      simp only [List.mem_append] at ha hb
      rcases ha with ha | ha <;> rcases hb with hb | hb
      · exact h.uniq a ha b hb
      · obtain ⟨i, c, hi, _, rfl⟩ := hnew b hb
        intro h1 h2
        rcases hold a ha with h3 | ⟨_, h4⟩
        · simp only at h1; omega
        · simp only at h2; omega
      · obtain ⟨i, c, hi, _, rfl⟩ := hnew a ha
        intro h1 h2
        rcases hold b hb with h3 | ⟨_, h4⟩
        · simp only at h1; omega
        · simp only at h2; omega
      · obtain ⟨i, c, hi, hci, rfl⟩ := hnew a ha
        obtain ⟨j, c', hj, hcj, rfl⟩ := hnew b hb
        intro _ h2
        simp only at h2
        have hij : i = j := by omega
        subst hij
        rw [hci] at hcj
        cases hcj
        rfl
    · intro fl hfl w hw hs
      simp only [List.mem_append]
      exact Or.inl (h.flight fl hfl w hw hs)
  · simpa using h

theorem onClose_ninv (e : Ep) (log : List WRec) (h : NInv (nview e) log) :
    NInv (nview (onClose e).1) (log ++ sealedOf (onClose e).2) := by
  unfold onClose
  split
  · simpa using h
  · rename_i ha
    have hal : (nview e).alive = true := by simpa [nview] using ha
    have hold : ∀ w ∈ log, w.epoch < (nview e).epoch ∨ (w.epoch = (nview e).epoch ∧ w.seq < hwm (nview e)) := by
      intro w hw
      rcases h.below w hw with h1 | ⟨h1, h2 | ⟨h3, _, _⟩⟩
      · exact Or.inl h1
      · exact Or.inr ⟨h1, h2⟩
      · rw [hal] at h3; cases h3
    split
    · have := h.close
      simpa [sealedOf, nview] using this
    · split
      · rename_i hb
        -- published: the alert takes the shared counter's value
        have hpub : (nview e).writeEpoch ≠ 0 := by simp only [nview]; omega
        refine ⟨fun _ => h.pub hpub, fun _ => hpub, h.cliEpoch, ?_, ?_, ?_⟩
        · intro w hw
          simp only [sealedOf, if_true, List.mem_append, List.mem_singleton] at hw
          rcases hw with hw | rfl
          · rcases hold w hw with h1 | ⟨h1, h2⟩
            · exact Or.inl h1
            · refine Or.inr ⟨h1, Or.inl ?_⟩
              rw [hwm_pub hpub] at h2
              rw [hwm_pub (by simpa [nview] using hpub)]
              simp only [nview] at h2 ⊢
              omega
          · refine Or.inr ⟨rfl, Or.inl ?_⟩
            rw [hwm_pub (by simpa [nview] using hpub)]
            simp only [nview]
            omega
        · intro a ha' b hb'
          simp only [sealedOf, if_true, List.mem_append, List.mem_singleton] at ha' hb'
          have hlt : ∀ w ∈ log, w.epoch = e.ctx.epoch → w.seq < e.writeSeq := by
            intro w hw he
            rcases hold w hw with h1 | ⟨_, h2⟩
            · simp only [nview] at h1; omega
            · rw [hwm_pub hpub] at h2; simpa [nview] using h2
          rcases ha' with ha' | rfl <;> rcases hb' with hb' | rfl
          · exact h.uniq a ha' b hb'
          · intro h1 h2; have := hlt a ha' h1; simp only at h2; omega
          · intro h1 h2; have := hlt b hb' h1.symm; simp only at h2; omega
          · intro _ _; rfl
        · intro fl hfl w hw hs
          simp only [List.mem_append]
          exact Or.inl (h.flight fl hfl w hw hs)
      · rename_i hb
        -- not published: the context's own counter; nothing can follow
        have hw0 : (nview e).writeEpoch = 0 := by
          by_cases h0 : (nview e).writeEpoch = 0
          · exact h0
          · have := (h.pub h0).1
            simp only [nview] at this h0 hb
            omega
        refine ⟨h.pub, (fun hh => by simp [nview] at hh), h.cliEpoch, ?_, ?_, ?_⟩
        · intro w hw
          simp only [sealedOf, if_true, List.mem_append, List.mem_singleton] at hw
          rcases hw with hw | rfl
          · rcases hold w hw with h1 | ⟨h1, h2⟩
            · exact Or.inl h1
            · exact Or.inr ⟨h1, Or.inl h2⟩
          · exact Or.inr ⟨rfl, Or.inr ⟨rfl, hw0, by rw [hwm_unpub (by simpa [nview] using hw0)]; rfl⟩⟩
        · intro a ha' b hb'
          simp only [sealedOf, if_true, List.mem_append, List.mem_singleton] at ha' hb'
          have hlt : ∀ w ∈ log, w.epoch = e.ctx.epoch → w.seq < e.ctx.seqNum := by
            intro w hw he
            rcases hold w hw with h1 | ⟨_, h2⟩
            · simp only [nview] at h1; omega
            · rw [hwm_unpub hw0] at h2; simpa [nview] using h2
          rcases ha' with ha' | rfl <;> rcases hb' with hb' | rfl
          · exact h.uniq a ha' b hb'
          · intro h1 h2; have := hlt a ha' h1; simp only at h2; omega
          · intro h1 h2; have := hlt b hb' h1.symm; simp only at h2; omega
          · intro _ _; rfl
        · intro fl hfl w hw hs
          simp only [List.mem_append]
          exact Or.inl (h.flight fl hfl w hw hs)

theorem stepOp_ninv (C : Crypto) (L : Loc) (e : Ep) (o : Op) (log : List WRec) (h : NInv (nview e) log) :
    NInv (nview (stepOp C L e o).1) (log ++ sealedOf (stepOp C L e o).2) := by
  cases o with
  | packet dec bs => exact onPacket_ninv dec C L e bs log h
  | send d => exact onSend_ninv e d log h
  | close => exact onClose_ninv e log h
  | tick =>
    simp only [stepOp, onTick]
    split
    · split
      · rename_i fl hfl; exact h.resend fl (by simpa [nview] using hfl)
      · simpa using h
    · simpa using h
  | deadline =>
    simp only [stepOp, onDeadline]
    split
    · simpa [nview] using (h.set_conn .failed (by decide)).kill
    · simpa using h

theorem runOps_ninv (C : Crypto) (L : Loc) : ∀ (ops : List Op) (e : Ep) (log : List WRec), NInv (nview e) log →
    NInv (nview (runOps C L e ops).1) (log ++ sealedOf (runOps C L e ops).2) := by
  intro ops
  induction ops with
  | nil => intro e log h; simpa [runOps] using h
  | cons o os ih =>
    intro e log h
    simp only [runOps]
    have := ih _ _ (stepOp_ninv C L e o log h)
    simpa [sealedOf_append, List.append_assoc] using this

theorem start_ninv (L : Loc) (isClient : Bool) (fp : Option Bytes) :
    NInv (nview (start L isClient fp).1) (sealedOf (start L isClient fp).2) := by
  unfold start
  split
  · refine ⟨by simp [nview, emitMsg, hsRecord], by simp [nview], by simp [nview, emitMsg, hsRecord], by simp [sends, sealedOf, emitMsg, hsRecord],
      by simp [sends, sealedOf, emitMsg, hsRecord], ?_⟩
    intro fl hfl w hw hs
    simp [nview, emitMsg, hsRecord] at hfl
    subst hfl
    simp at hw
    subst hw
    simp at hs
  · exact ⟨by simp [nview], by simp [nview], by simp [nview], by simp, by simp, by simp [nview]⟩

end RtcModel.DtlsHs
