/-
Helper lemmas (round 2): a DCEP message of any size, fragmented by `send_data_raw` and processed in
order by `process_data_payload`, reaches `handle_dcep` whole.
-/
import RtcModel.Lemmas.SctpMulti
import RtcModel.Lemmas.SctpOpen

namespace RtcModel.Sctp
open RtcModel.Generated

@[simp] theorem getDcepBuf_set (bs : List (UInt16 × Bytes)) (sid : UInt16) (b : Bytes) :
    getDcepBuf (setDcepBuf bs sid b) sid = b := by
  simp [getDcepBuf, setDcepBuf]

/-- `handle_dcep` neither reads nor writes the DCEP reassembly map or the streams -/
theorem handleDcep_frame (pl : Pl) (sid : UInt16) (d : Bytes) (x : List (UInt16 × Bytes)) :
    (handleDcep { pl with dcepBuf := x } sid d).1 = { (handleDcep pl sid d).1 with dcepBuf := x } := rfl

theorem handleDcep_keeps (pl : Pl) (sid : UInt16) (d : Bytes) :
    (handleDcep pl sid d).1.dcepBuf = pl.dcepBuf ∧ (handleDcep pl sid d).1.streams = pl.streams := ⟨rfl, rfl⟩

/-- the chunk a DCEP fragment becomes (always unordered, SSN 0, PPID 50) -/
def dcepChunk (sid : UInt16) (f : UInt8 × Bytes) : OChunk :=
  { sid, ppid := UInt32.ofNat dcPpidDcep, payload := f.2, flags := f.1, ssn := 0 }

theorem dcepChunk_ppid (sid : UInt16) (f : UInt8 × Bytes) : ((dcepChunk sid f).ppid.toNat == dcPpidDcep) = true := by
  simp [dcepChunk]

/-- fragments of one DCEP message, processed in order: equal (up to the emptied reassembly entry)
to `handle_dcep` on the whole message -/
theorem dcepRun (mps : Nat) (hmps : 0 < mps) (sid : UInt16) :
    ∀ (fuel : Nat) (first : Bool) (rest : Bytes) (pl : Pl) (t : UInt32),
      rest ≠ [] → rest.length ≤ fuel → (first = false → getDcepBuf pl.dcepBuf sid ≠ []) →
      ∃ x, plRun procPayload pl (assignTsn t ((fragGo mps 4 fuel first rest).map (dcepChunk sid))) =
        { (handleDcep pl sid ((if first then [] else getDcepBuf pl.dcepBuf sid) ++ rest)).1 with dcepBuf := x } := by
  intro fuel
  induction fuel with
  | zero =>
    intro first rest pl t hne hl
    exact absurd (List.eq_nil_of_length_eq_zero (by omega)) hne
  | succ f ih =>
    intro first rest pl t hne hl hre
    have hemp : rest.isEmpty = false := by
      cases rest with
      | nil => exact absurd rfl hne
      | cons _ _ => rfl
    by_cases hlast : min rest.length mps ≥ rest.length
    · have hn : min rest.length mps = rest.length := by omega
      simp only [fragGo, hemp, hn, List.take_length, List.drop_length, fragGo_nil, ge_iff_le, Nat.le_refl,
        decide_true, List.map_cons, List.map_nil, assignTsn, plRun_cons, plRun_nil, Bool.false_eq_true, if_false]
      have hb := bBit_frag4 { tsn := t, flags := fragFlags 4 first true, sid := sid, ssn := 0, ppid := UInt32.ofNat dcPpidDcep, data := rest } first true rfl
      have he := eBit_frag4 { tsn := t, flags := fragFlags 4 first true, sid := sid, ssn := 0, ppid := UInt32.ofNat dcPpidDcep, data := rest } first true rfl
      have hu := uBit_frag4 { tsn := t, flags := fragFlags 4 first true, sid := sid, ssn := 0, ppid := UInt32.ofNat dcPpidDcep, data := rest } first true rfl
      have hp : ((UInt32.ofNat dcPpidDcep).toNat == dcPpidDcep) = true := by simp
      cases first with
      | true =>
        refine ⟨pl.dcepBuf, ?_⟩
        simp only [procPayload, dcepChunk, hp, if_true, hu, Bool.not_true, Bool.false_eq_true, if_false, procDcep, hb, he,
          Bool.and_self, List.nil_append]
        rfl
      | false =>
        have hre' := hre rfl
        have hne' : (getDcepBuf pl.dcepBuf sid).isEmpty = false := by
          cases hg : getDcepBuf pl.dcepBuf sid with
          | nil => exact absurd hg hre'
          | cons _ _ => rfl
        refine ⟨setDcepBuf pl.dcepBuf sid [], ?_⟩
        simp only [procPayload, dcepChunk, hp, if_true, hu, Bool.not_true, Bool.false_eq_true, if_false, procDcep, hb, he,
          Bool.false_and, Bool.not_false, Bool.true_and, hne']
        exact handleDcep_frame pl sid _ _
    · have hn : min rest.length mps = mps := by omega
      have hlt : mps < rest.length := by omega
      have hdec : decide (rest.length ≤ mps) = false := by simp; omega
      have hdropne : rest.drop mps ≠ [] := by
        intro h
        have := congrArg List.length h
        simp at this; omega
      have htk : rest.take mps ≠ [] := by
        cases rest with
        | nil => exact absurd rfl hne
        | cons r rs => cases mps with
          | zero => omega
          | succ m => simp
      simp only [fragGo, hemp, hn, ge_iff_le, hdec, List.map_cons, assignTsn, plRun_cons, Bool.false_eq_true, if_false]
      have hb := bBit_frag4 { tsn := t, flags := fragFlags 4 first false, sid := sid, ssn := 0, ppid := UInt32.ofNat dcPpidDcep, data := rest.take mps } first false rfl
      have he := eBit_frag4 { tsn := t, flags := fragFlags 4 first false, sid := sid, ssn := 0, ppid := UInt32.ofNat dcPpidDcep, data := rest.take mps } first false rfl
      have hu := uBit_frag4 { tsn := t, flags := fragFlags 4 first false, sid := sid, ssn := 0, ppid := UInt32.ofNat dcPpidDcep, data := rest.take mps } first false rfl
      have hp : ((UInt32.ofNat dcPpidDcep).toNat == dcPpidDcep) = true := by simp
      have hcond : (!first && (getDcepBuf pl.dcepBuf sid).isEmpty) = false := by
        cases first with
        | true => rfl
        | false =>
          have hre' := hre rfl
          cases hg : getDcepBuf pl.dcepBuf sid with
          | nil => exact absurd hg hre'
          | cons _ _ => rfl
      let buf1 := (if first then [] else getDcepBuf pl.dcepBuf sid) ++ rest.take mps
      have hstep : (procPayload pl { tsn := t, flags := fragFlags 4 first false, sid := sid, ssn := 0, ppid := UInt32.ofNat dcPpidDcep, data := rest.take mps }).1
          = { pl with dcepBuf := setDcepBuf pl.dcepBuf sid buf1 } := by
        simp only [procPayload, hp, if_true, hu, Bool.not_true, Bool.false_eq_true, if_false, procDcep, hb, he,
          Bool.and_false, hcond, buf1]
        cases first <;> simp
      simp only [dcepChunk] at hstep ⊢
      rw [hstep]
      have hb1 : getDcepBuf (setDcepBuf pl.dcepBuf sid buf1) sid ≠ [] := by
        rw [getDcepBuf_set]; exact List.append_ne_nil_of_right_ne_nil _ htk
      obtain ⟨x, hx⟩ := ih false (rest.drop mps) { pl with dcepBuf := setDcepBuf pl.dcepBuf sid buf1 } (t + 1)
        hdropne (by simp; omega) (fun _ => hb1)
      simp only [dcepChunk] at hx
      refine ⟨x, ?_⟩
      rw [hx]
      simp only [Bool.false_eq_true, if_false, getDcepBuf_set, buf1, List.append_assoc, List.take_append_drop]
      rw [handleDcep_frame]

/-- `send_data_raw` with the DCEP PPID on a registered channel: unordered, SSN 0, never partially
reliable, channel table unchanged -/
theorem sendDataRaw_dcep (cs : List TxChan) (sid : UInt16) (data : Bytes) (tc : TxChan) (hf : findTx cs sid = some tc) :
    (sendDataRaw cs sid (UInt32.ofNat dcPpidDcep) data).1 = cs ∧
    ∀ t, assignTsn t (sendDataRaw cs sid (UInt32.ofNat dcPpidDcep) data).2 =
      assignTsn t ((fragMsg (min tc.maxPayload sctpMaxPayload) 4 data).map (dcepChunk sid)) := by
  have hb : ((UInt32.ofNat dcPpidDcep).toNat == dcPpidDcep) = true := by simp
  simp only [sendDataRaw, hf, hb, if_true, Bool.false_eq_true, if_false, Bool.not_false]
  refine ⟨trivial, ?_⟩
  intro t
  apply assignTsn_map_congr
  intro x
  simp [dcepChunk]

/-- a whole DCEP message of any size sent with `send_data_raw` and processed in order is handed to
`handle_dcep` in one piece -/
theorem dcepMsgRun (cs : List TxChan) (sid : UInt16) (tc : TxChan) (hf : findTx cs sid = some tc) (hmp : 0 < tc.maxPayload)
    (m : Bytes) (hm : m ≠ []) (pl : Pl) (t : UInt32) :
    ∃ x, plRun procPayload pl (assignTsn t (sendDataRaw cs sid (UInt32.ofNat dcPpidDcep) m).2) =
      { (handleDcep pl sid m).1 with dcepBuf := x } := by
  have hmps : 0 < min tc.maxPayload sctpMaxPayload := by simp; omega
  have hemp : m.isEmpty = false := by
    cases m with
    | nil => exact absurd rfl hm
    | cons _ _ => rfl
  obtain ⟨x, hx⟩ := dcepRun _ hmps sid m.length true m pl t hm (Nat.le_refl _) (by simp)
  refine ⟨x, ?_⟩
  rw [(sendDataRaw_dcep cs sid m tc hf).2 t]
  simp only [fragMsg, hemp, Bool.false_eq_true, if_false]
  simpa using hx

end RtcModel.Sctp
