/-
Helper lemmas: the TSN layer of the receiver under arbitrary arrival histories that mix DATA chunks
(lost, duplicated, reordered, delayed) with FORWARD-TSN chunks. After any such history the payload
layer has seen the first `k` chunks of the stream in order, each exactly once — either processed,
or skipped (`skipPl`: every reassembly buffer forgotten, the listed streams advanced).
-/
import RtcModel.Lemmas.SctpRecv
import RtcModel.Lemmas.SctpPr
import RtcModel.Lemmas.SctpOpen

namespace RtcModel.Sctp
open RtcModel.Generated

/-- what happened to chunk `i` of the stream: processed (`none`) or skipped by a FORWARD-TSN whose
stream/SSN pairs are charged to the first chunk it skipped -/
abbrev SkipAct := Nat → Option (List (UInt16 × UInt16))

/-- the payload-layer effect of an effective FORWARD-TSN -/
def skipPl (pl : Pl) (ps : List (UInt16 × UInt16)) : Pl := ps.foldl fwdStream (resetPl pl)

/-- process, or skip, according to `act` (the chunk's index is its TSN offset from `t0`) -/
def procA (proc : Proc) (act : SkipAct) (t0 : UInt32) : Proc := fun pl c =>
  match act (c.tsn - t0).toNat with
  | none => proc pl c
  | some ps => (skipPl pl ps, true)

theorem idx_of_tsn (t0 : UInt32) (i : Nat) (hi : i < 4294967296) : ((t0 + UInt32.ofNat i) - t0).toNat = i := by
  have e : (UInt32.ofNat i).toNat = i % 4294967296 := by simp
  have := t0.toNat_lt
  simp only [UInt32.toNat_sub, UInt32.toNat_add, e]
  omega

theorem procA_none (proc : Proc) (act : SkipAct) (t0 : UInt32) (pl : Pl) (c : DChunk)
    (h : act (c.tsn - t0).toNat = none) : procA proc act t0 pl c = proc pl c := by
  simp [procA, h]

theorem procA_ok (proc : Proc) (act : SkipAct) (t0 : UInt32) (pl : Pl) (c : DChunk) (h : (proc pl c).2 = true) :
    (procA proc act t0 pl c).2 = true := by
  unfold procA; split
  · exact h
  · rfl

/-! ### `handle_data` only consults the processor on the chunks it processes -/

theorem plRun_congr (p1 p2 : Proc) : ∀ (l : List DChunk) (pl : Pl), (∀ c ∈ l, ∀ pl, p1 pl c = p2 pl c) →
    plRun p1 pl l = plRun p2 pl l := by
  intro l
  induction l with
  | nil => intro pl _; rfl
  | cons c rest ih =>
    intro pl h
    simp only [plRun_cons, h c (by simp)]
    exact ih _ (fun c' hc' => h c' (by simp [hc']))

theorem procList_congr (p1 p2 : Proc) : ∀ (l : List DChunk) (s : Rx), (∀ c ∈ l, ∀ pl, p1 pl c = p2 pl c) →
    procList p1 s l = procList p2 s l := by
  intro l
  induction l with
  | nil => intro s _; rfl
  | cons c rest ih =>
    intro s h
    simp only [procList, h c (by simp)]
    split
    · exact ih _ (fun c' hc' => h c' (by simp [hc']))
    · rfl

theorem drainRq_mem : ∀ (fuel : Nat) (next : UInt32) (rq : List (UInt32 × DChunk)) (acc : List DChunk),
    ∀ x ∈ (drainRq fuel next rq acc).2, x ∈ acc ∨ ∃ e ∈ rq, e.2 = x := by
  intro fuel
  induction fuel with
  | zero => intro next rq acc x hx; left; simpa [drainRq] using hx
  | succ f ih =>
    intro next rq acc x hx
    unfold drainRq at hx
    cases hg : rqGet? rq next with
    | none => simp only [hg] at hx; left; exact hx
    | some c =>
      simp only [hg] at hx
      cases ih _ _ _ x hx with
      | inl h =>
        simp only [List.mem_append, List.mem_singleton] at h
        cases h with
        | inl h1 => left; exact h1
        | inr h1 =>
          obtain ⟨e, he, _, h2⟩ := rqGet?_some rq next c hg
          right; exact ⟨e, he, by rw [h1]; exact h2⟩
      | inr h =>
        obtain ⟨e, he, h2⟩ := h
        right; exact ⟨e, (List.mem_filter.mp he).1, h2⟩

theorem handleDataWith_congr (p1 p2 : Proc) (s : Rx) (c : DChunk)
    (hc : (c.tsn - s.cum == 0 || c.tsn - s.cum > 0x80000000) = false → ∀ pl, p1 pl c = p2 pl c)
    (hrq : ∀ e ∈ s.rq, ∀ pl, p1 pl e.2 = p2 pl e.2) :
    handleDataWith p1 s c = handleDataWith p2 s c := by
  unfold handleDataWith
  simp only []
  split
  · rfl
  · next hd =>
    have hd' : (c.tsn - s.cum == 0 || c.tsn - s.cum > 0x80000000) = false := by simpa using hd
    have hcc := hc hd'
    split
    · rw [hcc]
    · have key : ∀ (rq1 : List (UInt32 × DChunk)) (s' : Rx), (∀ e ∈ rq1, e ∈ s.rq ∨ e.2 = c) →
          procList p1 s' (drainRq rq1.length (s.cum + 1) rq1 []).2 = procList p2 s' (drainRq rq1.length (s.cum + 1) rq1 []).2 := by
        intro rq1 s' hsub
        apply procList_congr
        intro x hx pl
        cases drainRq_mem _ _ _ _ x hx with
        | inl h => simp at h
        | inr h =>
          obtain ⟨e, he, h2⟩ := h
          cases hsub e he with
          | inl h3 => rw [← h2]; exact hrq e h3 pl
          | inr h3 => rw [← h2, h3]; exact hcc pl
      split
      · rw [key s.rq _ (fun e he => Or.inl he)]
      · rw [key (s.rq ++ [(c.tsn, c)]) _ (fun e he => by
          simp only [List.mem_append, List.mem_singleton] at he
          cases he with
          | inl h => exact Or.inl h
          | inr h => right; rw [h])]

/-! ### the payload effect of a skip -/

theorem fwdStream_reasm (pl : Pl) (p : UInt16 × UInt16) (h : ∀ c ∈ pl.chans, c.reasm = []) :
    ∀ c ∈ (fwdStream pl p).chans, c.reasm = [] := by
  unfold fwdStream
  simp only []
  split
  · exact h
  · split
    · next dc hf =>
      intro c hc
      cases mem_setChan _ _ _ hc with
      | inl h1 => exact h c h1
      | inr h1 => rw [h1]; simp [Chan.emitAll]; exact h dc (findChan_mem _ _ _ hf)
    · exact h

theorem skipPl_reasm (pl : Pl) (ps : List (UInt16 × UInt16)) : ∀ c ∈ (skipPl pl ps).chans, c.reasm = [] := by
  have key : ∀ (ps : List (UInt16 × UInt16)) (x : Pl), (∀ c ∈ x.chans, c.reasm = []) →
      ∀ c ∈ (ps.foldl fwdStream x).chans, c.reasm = [] := by
    intro ps
    induction ps with
    | nil => intro x h; exact h
    | cons p rest ih => intro x h; exact ih _ (fwdStream_reasm x p h)
  apply key
  intro c hc
  simp only [resetPl, List.mem_map] at hc
  obtain ⟨c0, _, rfl⟩ := hc
  rfl

theorem resetPl_id (x : Pl) (h : ∀ c ∈ x.chans, c.reasm = []) : resetPl x = x := by
  have : x.chans.map (fun c => { c with reasm := [] }) = x.chans := by
    have hm : ∀ (l : List Chan), (∀ c ∈ l, c.reasm = []) → l.map (fun c => { c with reasm := [] }) = l := by
      intro l
      induction l with
      | nil => intro _; rfl
      | cons c rest ih =>
        intro hl
        simp only [List.map_cons]
        rw [chan_reasm_nil c (hl c (by simp)), ih (fun c' hc' => hl c' (by simp [hc']))]
    exact hm _ h
  cases x
  simp only [resetPl] at *
  simp_all

theorem skipPl_nil_id (x : Pl) (h : ∀ c ∈ x.chans, c.reasm = []) : skipPl x [] = x := by
  simp [skipPl, resetPl_id x h]

/-! ### the drain at the end of `handle_forward_tsn` -/

theorem fwdDrain_spec (proc : Proc) (chunks : List DChunk) (t0 : UInt32)
    (hlen : chunks.length < 2147483648) (hok : ∀ pl c, c ∈ chunks → (proc pl c).2 = true) :
    ∀ (fuel j : Nat) (s : Rx), s.rq.length ≤ fuel → j ≤ chunks.length → s.cum = t0 + UInt32.ofNat j - 1 →
      RqFrom chunks t0 j s.rq →
      ∃ m, j + m ≤ chunks.length ∧ (fwdDrain proc fuel s).2 = true ∧
        (fwdDrain proc fuel s).1.cum = t0 + UInt32.ofNat (j + m) - 1 ∧
        (fwdDrain proc fuel s).1.pl = plRun proc s.pl ((chunks.drop j).take m) ∧
        RqFrom chunks t0 (j + m + 1) (fwdDrain proc fuel s).1.rq := by
  intro fuel
  induction fuel with
  | zero =>
    intro j s hl hj hc _
    have : s.rq = [] := List.eq_nil_of_length_eq_zero (by omega)
    refine ⟨0, by omega, rfl, by simpa [fwdDrain] using hc, by simp [fwdDrain], ?_⟩
    intro e he; simp [fwdDrain, this] at he
  | succ f ih =>
    intro j s hl hj hc hrq
    have hnext : s.cum + 1 = t0 + UInt32.ofNat j := by rw [hc]; exact u32_cum_succ t0 j
    unfold fwdDrain
    cases hg : rqGet? s.rq (s.cum + 1) with
    | none =>
      refine ⟨0, by omega, rfl, by simpa using hc, by simp, ?_⟩
      intro e he
      obtain ⟨i, hi, hil, h1, h2⟩ := hrq e he
      have hne := rqGet?_none s.rq _ hg e he
      refine ⟨i, ?_, hil, h1, h2⟩
      have : i ≠ j := by intro h; subst h; exact hne (h1.trans hnext.symm)
      omega
    | some c =>
      obtain ⟨e0, he0, h01, h02⟩ := rqGet?_some s.rq _ c hg
      obtain ⟨j0, hj0, hj0l, h1, h2⟩ := hrq e0 he0
      have hjk : j0 = j := u32_off_inj t0 j0 j (by omega) (by omega) (h1.symm.trans (h01.trans hnext))
      subst hjk
      have hcc : c = chunks[j0] := h02.symm.trans h2
      have hpok : (proc s.pl c).2 = true := hok s.pl c (by rw [hcc]; exact List.getElem_mem hj0l)
      simp only [hpok, if_true]
      have hrq' : RqFrom chunks t0 (j0 + 1) (rqRemove s.rq (s.cum + 1)) := by
        intro e he
        have hmem := List.mem_filter.mp he
        obtain ⟨i, hi, hil, h1', h2'⟩ := hrq e hmem.1
        refine ⟨i, ?_, hil, h1', h2'⟩
        have : i ≠ j0 := by
          intro h; subst h
          have := hmem.2
          simp [h1', hnext] at this
        omega
      have hlt := rqRemove_length_lt s.rq _ c hg
      obtain ⟨m, hm1, hm2, hm3, hm4, hm5⟩ := ih (j0 + 1)
        { s with rq := rqRemove s.rq (s.cum + 1), pl := (proc s.pl c).1, cum := s.cum + 1, usedRwnd := s.usedRwnd - c.valueLen }
        (by simp only []; omega) (by omega) (by simp only []; rw [hnext]; exact u32_cum_next t0 j0) hrq'
      refine ⟨m + 1, by omega, hm2, ?_, ?_, ?_⟩
      · have : j0 + (m + 1) = j0 + 1 + m := by omega
        rw [this]; exact hm3
      · rw [hm4]
        have : chunks.drop j0 = chunks[j0] :: chunks.drop (j0 + 1) := List.drop_eq_getElem_cons hj0l
        rw [this, List.take_succ_cons, plRun_cons, hcc]
      · have : j0 + (m + 1) + 1 = j0 + 1 + m + 1 := by omega
        rw [this]; exact hm5

/-! ### serial comparison of stream offsets -/

theorem tsnGt_off (t0 : UInt32) (i j : Nat) (hi : i + 1 < 2147483648) (hj : j ≤ 2147483648) :
    tsnGt (t0 + UInt32.ofNat i) (t0 + UInt32.ofNat j - 1) = decide (j ≤ i) := by
  have hd := diff_toNat t0 i j (by omega) hj
  unfold tsnGt i32Pos
  by_cases h : j ≤ i
  · have hn : (t0 + UInt32.ofNat i - (t0 + UInt32.ofNat j - 1)).toNat = i + 1 - j := by rw [hd]; omega
    simp only [h, decide_true, Bool.and_eq_true, bne_iff_ne, ne_eq, decide_eq_true_eq]
    refine ⟨fun h0 => ?_, UInt32.lt_iff_toNat_lt.mpr ?_⟩
    · have := (u32_eq_zero _).mp h0; omega
    · rw [hn]; show _ < 2147483648; omega
  · simp only [h, decide_false, Bool.and_eq_false_iff, bne_eq_false_iff_eq, decide_eq_false_iff_not]
    by_cases h1 : i + 1 = j
    · left; apply (u32_eq_zero _).mpr; rw [hd]; omega
    · right
      intro hlt
      have := UInt32.lt_iff_toNat_lt.mp hlt
      rw [hd] at this
      have e : (0x80000000 : UInt32).toNat = 2147483648 := rfl
      rw [e] at this
      omega

/-! ### one arrival: a DATA chunk or a FORWARD-TSN -/

theorem act_agrees (proc : Proc) (act : SkipAct) (chunks : List DChunk) (t0 : UInt32)
    (hts : ∀ i (h : i < chunks.length), chunks[i].tsn = t0 + UInt32.ofNat i) (hlen : chunks.length < 2147483648)
    (j : Nat) (hj : j < chunks.length) (hn : act j = none) (pl : Pl) :
    procA proc act t0 pl chunks[j] = proc pl chunks[j] := by
  apply procA_none
  rw [hts j hj, idx_of_tsn t0 j (by omega)]
  exact hn

theorem data_step (proc : Proc) (chunks : List DChunk) (t0 : UInt32) (pl0 : Pl)
    (hts : ∀ i (h : i < chunks.length), chunks[i].tsn = t0 + UInt32.ofNat i)
    (hlen : chunks.length < 2147483648) (hok : ∀ pl c, c ∈ chunks → (proc pl c).2 = true)
    (act : SkipAct) (k : Nat) (s : Rx) (hact : ∀ i, k ≤ i → act i = none)
    (inv : Inv (procA proc act t0) chunks t0 pl0 k s) (i : Nat) (hi : i < chunks.length) :
    ∃ k', k ≤ k' ∧ Inv (procA proc act t0) chunks t0 pl0 k' (handleDataWith proc s chunks[i]) := by
  have hk := inv.hk
  have heq : handleDataWith proc s chunks[i] = handleDataWith (procA proc act t0) s chunks[i] := by
    apply handleDataWith_congr
    · intro hnd pl
      have hd : (chunks[i].tsn - s.cum).toNat = (i + 1 + 4294967296 - k) % 4294967296 := by
        rw [hts i hi, inv.cum]; exact diff_toNat t0 i k (by omega) (by omega)
      have hik : k ≤ i := by
        apply Classical.byContradiction
        intro hlt
        have hlt : i < k := by omega
        have : (chunks[i].tsn - s.cum == 0 || chunks[i].tsn - s.cum > 0x80000000) = true := by
          by_cases h2 : i + 1 = k
          · have : (chunks[i].tsn - s.cum).toNat = 0 := by rw [hd]; omega
            simp [(u32_eq_zero _).mpr this]
          · have : (chunks[i].tsn - s.cum).toNat > 2147483648 := by rw [hd]; omega
            simp [(u32_gt_half _).mpr this]
        rw [this] at hnd; cases hnd
      exact (act_agrees proc act chunks t0 hts hlen i hi (hact i hik) pl).symm
    · intro e he pl
      obtain ⟨j, hj, hjl, _, h2⟩ := inv.rq e he
      rw [h2]
      exact (act_agrees proc act chunks t0 hts hlen j hjl (hact j (by omega)) pl).symm
  obtain ⟨k', hk', inv', _, _⟩ := handleData_step (procA proc act t0) chunks t0 pl0 hts hlen
    (fun pl c hc => procA_ok proc act t0 pl c (hok pl c hc)) k s inv i hi
  exact ⟨k', hk', by rw [heq]; exact inv'⟩

/-- the processors `procA act` and `procA act'` run alike over a stretch of the stream on which
`act` and `act'` agree -/
theorem plRun_act_congr (proc : Proc) (act act' : SkipAct) (chunks : List DChunk) (t0 : UInt32)
    (hts : ∀ i (h : i < chunks.length), chunks[i].tsn = t0 + UInt32.ofNat i) (hlen : chunks.length < 2147483648)
    (lo m : Nat) (h : ∀ i, lo ≤ i → i < lo + m → act' i = act i) (pl : Pl) :
    plRun (procA proc act' t0) pl ((chunks.drop lo).take m) = plRun (procA proc act t0) pl ((chunks.drop lo).take m) := by
  apply plRun_congr
  intro c hc pl'
  obtain ⟨x, hx, hcx⟩ := List.mem_iff_getElem.mp hc
  simp only [List.length_take, List.length_drop] at hx
  have hidx : lo + x < chunks.length := by omega
  have hc' : c = chunks[lo + x] := by
    rw [← hcx]; simp [List.getElem_take, List.getElem_drop]
  have e : (c.tsn - t0).toNat = lo + x := by rw [hc', hts _ hidx, idx_of_tsn t0 _ (by omega)]
  simp only [procA, e, h (lo + x) (by omega) (by omega)]

theorem tsnGt_cum (t0 : UInt32) (j k : Nat) (hj : j < 2147483648) (hk : k < 2147483648) :
    tsnGt (t0 + UInt32.ofNat j - 1) (t0 + UInt32.ofNat k - 1) = decide (k < j) := by
  have hd : (t0 + UInt32.ofNat j - 1 - (t0 + UInt32.ofNat k - 1)).toNat = (j + 4294967296 - k) % 4294967296 := by
    have e1 : (UInt32.ofNat j).toNat = j % 4294967296 := by simp
    have e2 : (UInt32.ofNat k).toNat = k % 4294967296 := by simp
    have := t0.toNat_lt
    simp only [UInt32.toNat_sub, UInt32.toNat_add, UInt32.toNat_one, e1, e2]
    omega
  unfold tsnGt i32Pos
  by_cases h : k < j
  · simp only [h, decide_true, Bool.and_eq_true, bne_iff_ne, ne_eq, decide_eq_true_eq]
    refine ⟨fun h0 => ?_, UInt32.lt_iff_toNat_lt.mpr ?_⟩
    · have := (u32_eq_zero _).mp h0; omega
    · rw [hd]; show _ < 2147483648; omega
  · simp only [h, decide_false, Bool.and_eq_false_iff, bne_eq_false_iff_eq, decide_eq_false_iff_not]
    by_cases h1 : j = k
    · left; apply (u32_eq_zero _).mpr; rw [hd]; omega
    · right
      intro hlt
      have := UInt32.lt_iff_toNat_lt.mp hlt
      rw [hd] at this
      have e : (0x80000000 : UInt32).toNat = 2147483648 := rfl
      rw [e] at this
      omega

/-- chunks `k ≤ i < j` are marked skipped; the FORWARD-TSN's pairs are charged to the first of them -/
def actSkip (act : SkipAct) (k j : Nat) (ps : List (UInt16 × UInt16)) : SkipAct :=
  fun i => if k ≤ i ∧ i < j then some (if i = k then ps else []) else act i

theorem plRun_fix (P : Proc) : ∀ (l : List DChunk) (x : Pl), (∀ c ∈ l, (P x c).1 = x) → plRun P x l = x := by
  intro l
  induction l with
  | nil => intro x _; rfl
  | cons c rest ih =>
    intro x h
    rw [plRun_cons, h c (by simp)]
    exact ih x (fun c' hc' => h c' (by simp [hc']))

theorem forward_step (proc : Proc) (chunks : List DChunk) (t0 : UInt32) (pl0 : Pl)
    (hts : ∀ i (h : i < chunks.length), chunks[i].tsn = t0 + UInt32.ofNat i)
    (hlen : chunks.length < 2147483648) (hok : ∀ pl c, c ∈ chunks → (proc pl c).2 = true)
    (act : SkipAct) (k : Nat) (s : Rx) (hact : ∀ i, k ≤ i → act i = none)
    (inv : Inv (procA proc act t0) chunks t0 pl0 k s) (j : Nat) (hj : j ≤ chunks.length) (ps : List (UInt16 × UInt16)) :
    ∃ act' k', k ≤ k' ∧ (∀ i, k' ≤ i → act' i = none) ∧ (∀ i, i < k → act' i = act i) ∧
      Inv (procA proc act' t0) chunks t0 pl0 k' (handleForwardTsnWith proc s (t0 + UInt32.ofNat j - 1) ps).1 := by
  have hk := inv.hk
  have hgt : tsnGt (t0 + UInt32.ofNat j - 1) s.cum = decide (k < j) := by
    rw [inv.cum]; exact tsnGt_cum t0 j k (by omega) (by omega)
  by_cases hjk : k < j
  · -- the FORWARD-TSN takes effect
    have hgt' : tsnGt (t0 + UInt32.ofNat j - 1) s.cum = true := by rw [hgt]; simpa using hjk
    -- the state after `forwardTo`
    have hrq1 : RqFrom chunks t0 j (forwardTo s (t0 + UInt32.ofNat j - 1) ps).rq := by
      intro e he
      simp only [forwardTo, List.mem_filter] at he
      obtain ⟨idx, hidx, hil, h1, h2⟩ := inv.rq e he.1
      have := he.2
      rw [h1, tsnGt_off t0 idx j (by omega) (by omega)] at this
      exact ⟨idx, by simpa using this, hil, h1, h2⟩
    have hcum1 : (forwardTo s (t0 + UInt32.ofNat j - 1) ps).cum = t0 + UInt32.ofNat j - 1 := rfl
    have hpl1 : (forwardTo s (t0 + UInt32.ofNat j - 1) ps).pl = skipPl s.pl ps := rfl
    obtain ⟨m, hm1, hm2, hm3, hm4, hm5⟩ := fwdDrain_spec proc chunks t0 hlen hok
      (forwardTo s (t0 + UInt32.ofNat j - 1) ps).rq.length j (forwardTo s (t0 + UInt32.ofNat j - 1) ps)
      (Nat.le_refl _) hj hcum1 hrq1
    refine ⟨actSkip act k j ps, j + m, by omega, ?_, ?_, ?_⟩
    · intro i hi
      have : ¬ (k ≤ i ∧ i < j) := by omega
      simp only [actSkip, this, if_false]
      exact hact i (by omega)
    · intro i hi
      have : ¬ (k ≤ i ∧ i < j) := by omega
      simp only [actSkip, this, if_false]
    · -- the invariant
      have hres : (handleForwardTsnWith proc s (t0 + UInt32.ofNat j - 1) ps).1 =
          scheduleSackImmediate (fwdDrain proc (forwardTo s (t0 + UInt32.ofNat j - 1) ps).rq.length
            (forwardTo s (t0 + UInt32.ofNat j - 1) ps)).1 := by
        simp only [handleForwardTsnWith, hgt', if_true, hm2]
      rw [hres]
      refine ⟨hm1, by simpa using hm3, ?_, by simpa using hm5⟩
      simp only [scheduleSackImmediate_pl, hm4, hpl1]
      -- split the processed prefix: [0,k) as before, [k,j) skipped, [j,j+m) drained
      have hsplit : chunks.take (j + m) = chunks.take k ++ ((chunks.drop k).take (j - k) ++ (chunks.drop j).take m) := by
        have e1 : chunks.take (j + m) = chunks.take j ++ (chunks.drop j).take m := List.take_add
        have e2 : chunks.take j = chunks.take k ++ (chunks.drop k).take (j - k) := by
          have : j = k + (j - k) := by omega
          conv => lhs; rw [this]
          exact List.take_add
        rw [e1, e2, List.append_assoc]
      rw [hsplit, plRun_append, plRun_append]
      -- [0,k): act' = act
      have hA : plRun (procA proc (actSkip act k j ps) t0) pl0 (chunks.take k) = s.pl := by
        have := plRun_act_congr proc act (actSkip act k j ps) chunks t0 hts hlen 0 k (by
          intro i _ hi
          have : ¬ (k ≤ i ∧ i < j) := by omega
          simp only [actSkip, this, if_false]) pl0
        simp only [List.drop_zero] at this
        rw [this]; exact inv.pl.symm
      rw [hA]
      -- [k,j): the first skipped chunk carries the pairs, the others change nothing
      have hB : plRun (procA proc (actSkip act k j ps) t0) s.pl ((chunks.drop k).take (j - k)) = skipPl s.pl ps := by
        have hkl : k < chunks.length := by omega
        have e : (chunks.drop k).take (j - k) = chunks[k] :: (chunks.drop (k + 1)).take (j - k - 1) := by
          have : chunks.drop k = chunks[k] :: chunks.drop (k + 1) := List.drop_eq_getElem_cons hkl
          have h2 : j - k = (j - k - 1) + 1 := by omega
          rw [this, h2, List.take_succ_cons]
          simp
        rw [e, plRun_cons]
        have hfirst : (procA proc (actSkip act k j ps) t0 s.pl chunks[k]).1 = skipPl s.pl ps := by
          have ei : (chunks[k].tsn - t0).toNat = k := by rw [hts k hkl, idx_of_tsn t0 k (by omega)]
          have : (k ≤ k ∧ k < j) := ⟨Nat.le_refl k, hjk⟩
          simp only [procA, ei, actSkip, this, if_true]
          simp
        rw [hfirst]
        apply plRun_fix
        intro c hc
        obtain ⟨x, hx, hcx⟩ := List.mem_iff_getElem.mp hc
        simp only [List.length_take, List.length_drop] at hx
        have hidx : k + 1 + x < chunks.length := by omega
        have hc' : c = chunks[k + 1 + x] := by
          rw [← hcx]; simp [List.getElem_take, List.getElem_drop]
        have ei : (c.tsn - t0).toNat = k + 1 + x := by rw [hc', hts _ hidx, idx_of_tsn t0 _ (by omega)]
        have hin : (k ≤ k + 1 + x ∧ k + 1 + x < j) := ⟨by omega, by omega⟩
        have hne : ¬ (k + 1 + x = k) := by omega
        simp only [procA, ei, actSkip, hin, hne, if_false]
        exact skipPl_nil_id _ (skipPl_reasm s.pl ps)
      rw [hB]
      -- [j,j+m): act' = none, the plain processor
      apply plRun_congr
      intro c hc pl'
      obtain ⟨x, hx, hcx⟩ := List.mem_iff_getElem.mp hc
      simp only [List.length_take, List.length_drop] at hx
      have hidx : j + x < chunks.length := by omega
      have hc' : c = chunks[j + x] := by
        rw [← hcx]; simp [List.getElem_take, List.getElem_drop]
      have ei : (c.tsn - t0).toNat = j + x := by rw [hc', hts _ hidx, idx_of_tsn t0 _ (by omega)]
      have hnot : ¬ (k ≤ j + x ∧ j + x < j) := by omega
      simp only [procA, ei, actSkip, hnot, if_false, hact (j + x) (by omega)]
  · -- not serially ahead: ignored
    have hgt' : tsnGt (t0 + UInt32.ofNat j - 1) s.cum = false := by rw [hgt]; simpa using hjk
    refine ⟨act, k, Nat.le_refl k, hact, fun _ _ => rfl, ?_⟩
    simp only [handleForwardTsnWith, hgt', Bool.false_eq_true, if_false]
    exact inv

/-! ### arrival histories -/

/-- one arrival at the receiver: chunk `i` of the stream (any number of times, in any order), or a
FORWARD-TSN announcing that everything before stream offset `j` is to be skipped (new cumulative
TSN `t0 + j − 1`), with any stream/SSN pairs -/
inductive Arrv (n : Nat) where
  | data (i : Fin n)
  | fwd (j : Nat) (hj : j ≤ n) (ps : List (UInt16 × UInt16))

def arrvStep (proc : Proc) (chunks : List DChunk) (t0 : UInt32) (s : Rx) : Arrv chunks.length → Rx
  | .data i => handleDataWith proc s chunks[i]
  | .fwd j _ ps => (handleForwardTsnWith proc s (t0 + UInt32.ofNat j - 1) ps).1

theorem arrv_fold (proc : Proc) (chunks : List DChunk) (t0 : UInt32) (pl0 : Pl)
    (hts : ∀ i (h : i < chunks.length), chunks[i].tsn = t0 + UInt32.ofNat i)
    (hlen : chunks.length < 2147483648) (hok : ∀ pl c, c ∈ chunks → (proc pl c).2 = true)
    (h : List (Arrv chunks.length)) :
    ∀ (act : SkipAct) (k : Nat) (s : Rx), (∀ i, k ≤ i → act i = none) → Inv (procA proc act t0) chunks t0 pl0 k s →
    ∃ act' k', k ≤ k' ∧ (∀ i, k' ≤ i → act' i = none) ∧
      Inv (procA proc act' t0) chunks t0 pl0 k' (h.foldl (arrvStep proc chunks t0) s) := by
  induction h with
  | nil => intro act k s hact inv; exact ⟨act, k, Nat.le_refl k, hact, inv⟩
  | cons a rest ih =>
    intro act k s hact inv
    cases a with
    | data i =>
      obtain ⟨k1, hk1, inv1⟩ := data_step proc chunks t0 pl0 hts hlen hok act k s hact inv i.val i.isLt
      obtain ⟨act2, k2, hk2, hact2, inv2⟩ := ih act k1 _ (fun i hi => hact i (by omega)) inv1
      exact ⟨act2, k2, by omega, hact2, inv2⟩
    | fwd j hj ps =>
      obtain ⟨act1, k1, hk1, hact1, _, inv1⟩ := forward_step proc chunks t0 pl0 hts hlen hok act k s hact inv j hj ps
      obtain ⟨act2, k2, hk2, hact2, inv2⟩ := ih act1 k1 _ hact1 inv1
      exact ⟨act2, k2, by omega, hact2, inv2⟩

end RtcModel.Sctp
