/- C15 — helper lemmas for the `apt=` association. Core Lean only. -/
import RtcModel.C15Apt
import RtcModel.Lemmas.C15Bytes

set_option maxRecDepth 100000
namespace RtcModel.C15

/-- decimal rendering of a number below 1000 (`format!("{n}")`) -/
def dec3 (n : Nat) : Bytes :=
  if n < 10 then [u8 (48 + n)]
  else if n < 100 then [u8 (48 + n / 10), u8 (48 + n % 10)]
  else [u8 (48 + n / 100), u8 (48 + n / 10 % 10), u8 (48 + n % 10)]

theorem parseU8_dec3 : ∀ n : Fin 256, parseU8 (dec3 n.val) = some (u8 n.val) := by decide

theorem parseApt_dec3 : ∀ n : Fin 256, parseApt (aptLower ++ dec3 n.val) = some (u8 n.val) := by decide

theorem splitFirstSpace_dec3 : ∀ n : Fin 256, ∀ (rest : Bytes),
    splitFirstSpace (dec3 n.val ++ 0x20 :: rest) = some (dec3 n.val, rest) := by
  intro n rest
  have h : ∀ (d : Bytes), (∀ b ∈ d, b ≠ 0x20) → splitFirstSpace (d ++ 0x20 :: rest) = some (d, rest) := by
    intro d
    induction d with
    | nil => intro _; simp [splitFirstSpace]
    | cons b bs ih =>
      intro hb
      have hne : b ≠ 0x20 := hb b (List.mem_cons_self ..)
      simp only [List.cons_append, splitFirstSpace, hne, if_false]
      rw [ih (fun x hx => hb x (List.mem_cons_of_mem _ hx))]; rfl
  apply h
  revert n
  decide

end RtcModel.C15
