/-
Helper lemmas for the endpoint level of C01: once the association is established, duplicated or
late setup chunks, SACKs and heartbeats do not touch the receive state.
-/
import RtcModel.SctpAssoc
import RtcModel.Lemmas.SctpFrag

namespace RtcModel.Sctp
open RtcModel.Generated

/-- the association is up: Connected, T1 not armed, own tag chosen -/
def Established (e : Ep) : Prop := e.state = .connected ∧ e.t1 = none ∧ e.localTag ≠ 0

/-- control chunks that may be duplicated, delayed or reordered by the network: the INIT the
association was set up with (same initiate tag), any INIT-ACK, COOKIE-ECHO, COOKIE-ACK, SACK,
HEARTBEAT, HEARTBEAT-ACK -/
def benign (tag : UInt32) (c : RawChunk) : Bool :=
  let ty := c.ty.toNat
  (ty == ctInit && (match parseInit c.value with | some (t, _, _, _) => t == tag | none => true))
  || ty == ctInitAck || ty == ctCookieEcho || ty == ctCookieAck || ty == ctSack
  || ty == ctHeartbeat || ty == ctHeartbeatAck

@[simp] theorem epTransmit_cum (e : Ep) : (epTransmit e).rx.cum = e.rx.cum := by
  simp only [epTransmit, transmitSack]; split <;> rfl
@[simp] theorem epTransmit_rq (e : Ep) : (epTransmit e).rx.rq = e.rx.rq := by
  simp only [epTransmit, transmitSack]; split <;> rfl
@[simp] theorem epTransmit_pl (e : Ep) : (epTransmit e).rx.pl = e.rx.pl := by
  simp only [epTransmit, transmitSack]; split <;> rfl
@[simp] theorem epTransmit_state (e : Ep) : (epTransmit e).state = e.state := rfl
@[simp] theorem epTransmit_t1 (e : Ep) : (epTransmit e).t1 = e.t1 := rfl
@[simp] theorem epTransmit_localTag (e : Ep) : (epTransmit e).localTag = e.localTag := rfl
@[simp] theorem epTransmit_remoteTag (e : Ep) : (epTransmit e).remoteTag = e.remoteTag := rfl

theorem dup_init_ignored (e : Ep) (c : RawChunk) (he : Established e) (hty : c.ty.toNat = ctInit)
    (htag : ∀ t a i p, parseInit c.value = some (t, a, i, p) → t = e.remoteTag) : handleChunk e c = (e, true) := by
  obtain ⟨hs, _, hl⟩ := he
  have hl' : (e.localTag != 0) = true := by simpa using hl
  simp only [handleChunk, hty, beq_self_eq_true, if_true, handleInit]
  cases hp : parseInit c.value with
  | none => rfl
  | some v =>
    obtain ⟨tag, a, i, p⟩ := v
    have := htag tag a i p hp
    subst this
    simp [hl', hs]

theorem init_ack_ignored (e : Ep) (c : RawChunk) (he : Established e) (hty : c.ty.toNat = ctInitAck) :
    handleChunk e c = (e, true) := by
  obtain ⟨_, ht, _⟩ := he
  simp [handleChunk, hty, handleInitAck, ht]

theorem cookie_echo_ignored (e : Ep) (c : RawChunk) (he : Established e) (hty : c.ty.toNat = ctCookieEcho) :
    handleChunk e c = (e, true) := by
  obtain ⟨hs, _, _⟩ := he
  simp [handleChunk, hty, handleCookieEcho, hs]

theorem cookie_ack_ignored (e : Ep) (c : RawChunk) (he : Established e) (hty : c.ty.toNat = ctCookieAck) :
    handleChunk e c = (e, true) := by
  obtain ⟨_, ht, _⟩ := he
  simp [handleChunk, hty, handleCookieAck, ht]

theorem heartbeat_ignored (e : Ep) (c : RawChunk) (hty : c.ty.toNat = ctHeartbeat ∨ c.ty.toNat = ctHeartbeatAck) :
    handleChunk e c = (e, true) := by
  cases hty with
  | inl h => simp [handleChunk, h]
  | inr h => simp [handleChunk, h]

theorem sack_chunk_frame (e : Ep) (c : RawChunk) (hty : c.ty.toNat = ctSack) :
    (handleChunk e c).2 = true ∧ (handleChunk e c).1.rx.cum = e.rx.cum ∧ (handleChunk e c).1.rx.rq = e.rx.rq ∧
    (handleChunk e c).1.rx.pl = e.rx.pl ∧ (handleChunk e c).1.state = e.state ∧ (handleChunk e c).1.t1 = e.t1 ∧
    (handleChunk e c).1.localTag = e.localTag ∧ (handleChunk e c).1.remoteTag = e.remoteTag := by
  simp only [handleChunk, hty]
  simp only [ctSack_val, ctInit_val, ctInitAck_val, ctCookieEcho_val, ctCookieAck_val, ctData_val]
  simp only [show ((3:Nat) == 1) = false by decide, show ((3:Nat) == 2) = false by decide,
    show ((3:Nat) == 10) = false by decide, show ((3:Nat) == 11) = false by decide,
    show ((3:Nat) == 0) = false by decide, beq_self_eq_true, Bool.false_eq_true, if_false, if_true]
  split <;> simp

theorem benign_chunk_frame (e : Ep) (c : RawChunk) (he : Established e) (hb : benign e.remoteTag c = true) :
    (handleChunk e c).2 = true ∧
    (handleChunk e c).1.rx.cum = e.rx.cum ∧ (handleChunk e c).1.rx.rq = e.rx.rq ∧
    (handleChunk e c).1.rx.pl = e.rx.pl ∧ Established (handleChunk e c).1 ∧
    (handleChunk e c).1.remoteTag = e.remoteTag := by
  have same : handleChunk e c = (e, true) → ((handleChunk e c).2 = true ∧
      (handleChunk e c).1.rx.cum = e.rx.cum ∧ (handleChunk e c).1.rx.rq = e.rx.rq ∧
      (handleChunk e c).1.rx.pl = e.rx.pl ∧ Established (handleChunk e c).1 ∧
      (handleChunk e c).1.remoteTag = e.remoteTag) := fun h => by
    rw [h]; exact ⟨rfl, rfl, rfl, rfl, he, rfl⟩
  simp only [benign, Bool.or_eq_true, Bool.and_eq_true, beq_iff_eq] at hb
  rcases hb with ((((((h | h) | h) | h) | h) | h) | h)
  · apply same
    apply dup_init_ignored e c he h.1
    intro t a i p hp
    have := h.2
    simp only [hp] at this
    exact beq_iff_eq.mp this
  · exact same (init_ack_ignored e c he h)
  · exact same (cookie_echo_ignored e c he h)
  · exact same (cookie_ack_ignored e c he h)
  · obtain ⟨a, b, c', d, s1, s2, s3, s4⟩ := sack_chunk_frame e c h
    exact ⟨a, b, c', d, ⟨s1.trans he.1, s2.trans he.2.1, by rw [s3]; exact he.2.2⟩, s4⟩
  · exact same (heartbeat_ignored e c (Or.inl h))
  · exact same (heartbeat_ignored e c (Or.inr h))

/-- what reaches an established endpoint: a DATA chunk of the stream, or a benign control chunk -/
inductive Arrival (n : Nat) where
  | data (i : Fin n)
  | ctl (c : RawChunk)

def epArrive (chunks : List DChunk) (e : Ep) : Arrival chunks.length → Ep
  | .data i => { e with rx := handleData e.rx chunks[i] }
  | .ctl c => (handleChunk e c).1

theorem endpoint_fold (chunks : List DChunk) (t0 : UInt32) (pl0 : Pl) (tag : UInt32)
    (hts : ∀ i (h : i < chunks.length), chunks[i].tsn = t0 + UInt32.ofNat i)
    (hlen : chunks.length < 2147483648)
    (hok : ∀ pl c, c ∈ chunks → (procPayload pl c).2 = true)
    (arr : List (Arrival chunks.length))
    (hben : ∀ a ∈ arr, ∀ c, a = Arrival.ctl c → benign tag c = true) :
    ∀ (k : Nat) (e : Ep), Established e → e.remoteTag = tag → Inv procPayload chunks t0 pl0 k e.rx →
      ∃ k', k ≤ k' ∧ Inv procPayload chunks t0 pl0 k' (arr.foldl (epArrive chunks) e).rx ∧
        Established (arr.foldl (epArrive chunks) e) := by
  induction arr with
  | nil => intro k e he _ inv; exact ⟨k, Nat.le_refl k, inv, he⟩
  | cons a rest ih =>
    intro k e he htag inv
    have hrest : ∀ a' ∈ rest, ∀ c, a' = Arrival.ctl c → benign tag c = true :=
      fun a' h c hc => hben a' (by simp [h]) c hc
    cases a with
    | data i =>
      obtain ⟨k1, hk1, inv1, _, _⟩ := handleData_step procPayload chunks t0 pl0 hts hlen hok k e.rx inv i.val i.isLt
      obtain ⟨k2, hk2, inv2, he2⟩ := ih hrest k1 { e with rx := handleData e.rx chunks[i] } he htag inv1
      exact ⟨k2, by omega, inv2, he2⟩
    | ctl c =>
      have hb := hben (Arrival.ctl c) (by simp) c rfl
      rw [← htag] at hb
      obtain ⟨_, h1, h2, h3, he1, htag1⟩ := benign_chunk_frame e c he hb
      have inv1 : Inv procPayload chunks t0 pl0 k (handleChunk e c).1.rx :=
        ⟨inv.hk, by rw [h1]; exact inv.cum, by rw [h3]; exact inv.pl, by rw [h2]; exact inv.rq⟩
      obtain ⟨k2, hk2, inv2, he2⟩ := ih hrest k (handleChunk e c).1 he1 (htag1.trans htag) inv1
      exact ⟨k2, hk2, inv2, he2⟩

end RtcModel.Sctp
