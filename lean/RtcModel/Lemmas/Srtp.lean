/- Helper lemmas about SRTP packet processing and the session tables (C04, C05). -/
import RtcModel.Srtp
import RtcModel.Lemmas.SrtpRoc
import RtcModel.Lemmas.SrtpHeader
namespace RtcModel.Srtp
open RtcModel.C04 RtcModel.Generated

/-! ### small facts -/

theorem tagLen_le_sha1 (p : Profile) (h : p ≠ .gcm) : p.tagLen ≤ srtpSha1Len := by
  cases p <;> simp_all [Profile.tagLen]

theorem rtcpTagLen_le_sha1 (p : Profile) (h : p ≠ .gcm) : p.rtcpTagLen ≤ srtpSha1Len := by
  cases p <;> simp_all [Profile.rtcpTagLen, Profile.tagLen]

theorem tagLen_gcm : Profile.gcm.tagLen = srtpTagLenGcm := rfl
theorem rtcpTagLen_gcm : Profile.gcm.rtcpTagLen = srtpTagLenGcm := rfl

theorem rtpTag_length (S : Suite) (c : Ctx) (hb ct : Bytes) (roc : Nat) (h : c.profile ≠ .gcm) :
    (rtpTag S c hb ct roc).length = c.profile.tagLen := by
  have := tagLen_le_sha1 c.profile h
  simp only [rtpTag, List.length_take, S.mac_len]; omega

theorem rtcpTag_length (S : Suite) (c : Ctx) (m : Bytes) (h : c.profile ≠ .gcm) :
    (rtcpTag S c m).length = c.profile.rtcpTagLen := by
  have := rtcpTagLen_le_sha1 c.profile h
  simp only [rtcpTag, List.length_take, S.mac_len]; omega

theorem cmBody_length (S : Suite) (c : Ctx) (seq roc : Nat) (body : Bytes) :
    (cmBody S c seq roc body).length = body.length := by
  unfold cmBody; split <;> simp [S.ks_len]

/-- the AES-CM transform is an involution (keystream XOR; identity for NULL / empty) -/
theorem cmBody_cmBody (S : Suite) (c : Ctx) (seq roc : Nat) (body : Bytes) :
    cmBody S c seq roc (cmBody S c seq roc body) = body := by
  have hl := cmBody_length S c seq roc body
  unfold cmBody at hl ⊢
  split
  · rename_i h
    rw [if_pos h] at hl
    rw [hl, if_pos h]
    exact xorBytes_involutive _ _ (S.ks_len _ _ _)
  · rfl

theorem be32_inj (a b : Nat) (ha : a < 4294967296) (hb : b < 4294967296) (h : be32 a = be32 b) : a = b := by
  have h1 := dec32_be32 a ha
  have h2 := dec32_be32 b hb
  simp only [be32, List.cons.injEq, and_true] at h
  obtain ⟨e1, e2, e3, e4⟩ := h
  rw [← h1, ← h2, e1, e2, e3, e4]

theorem decBE_be32 (n : Nat) (h : n < 4294967296) : decBE (be32 n) 0 = n := by
  simp [be32, decBE]; omega

theorem last4_append_be32 (m : Bytes) (n : Nat) (h : n < 4294967296) : last4 (m ++ be32 n) = n := by
  simp only [last4, List.length_append, be32_length, Nat.add_sub_cancel]
  rw [List.drop_left' rfl]
  exact decBE_be32 n h

/-! ### padding -/

theorem stripPadding_body (p : Pkt) (hpad : p.padLen < 256) :
    stripPadding (p.padLen ≠ 0) p.body = .ok (p.payload, p.padLen) := by
  unfold stripPadding Pkt.body
  by_cases h0 : p.padLen = 0
  · simp [h0]
  · simp only [ne_eq, h0, not_false_eq_true, decide_true, if_true]
    have hb : (byteOf p.padLen).toNat = p.padLen := by simp; omega
    have hz : byteOf p.padLen ≠ 0 := by
      intro hz; rw [hz] at hb; simp at hb; omega
    have hl : (p.payload ++ List.replicate p.padLen (byteOf p.padLen)).getLast? = some (byteOf p.padLen) := by
      simp [List.getLast?_append, List.getLast?_replicate, h0]
    rw [hl]
    simp only [hb, List.length_append, List.length_replicate]
    rw [if_neg (by simp [hz])]
    simp

/-! ### RTP round trip at context level -/

structure Pkt.WF (p : Pkt) : Prop where
  hdr : p.hdr.WF
  pad : p.padLen < 256

theorem validHdr_of_WF (h : Hdr) (wf : h.WF) : validHdr h = true := by
  have hpt : h.pt.toNat ≤ 0x7F := by
    have := wf.pt
    have h2 : h.pt.toNat < 128 := by simpa [UInt8.lt_iff_toNat_lt] using this
    omega
  simp only [validHdr, rtpMaxCsrc_val, Bool.and_eq_true]
  refine ⟨⟨⟨decide_eq_true hpt, decide_eq_true wf.ncsrc⟩, ?_⟩, ?_⟩
  · cases he : h.ext with
    | none => rfl
    | some e => simp [wf.extAligned e he]
  · cases he : h.ext with
    | none => rfl
    | some e => have := wf.extLen e he; simp; omega

/-- what `protect` puts after the header when it uses rollover count `roc` -/
def rtpWireBody (S : Suite) (c : Ctx) (p : Pkt) (roc : Nat) : Bytes :=
  let hb := writeHdr p.hdr (p.padLen ≠ 0)
  if c.profile = .gcm then S.aeadSeal c.rtp.ck (gcmNonce c.rtp.salt c.ssrc p.hdr.seq roc) hb p.body
  else cmBody S c p.hdr.seq roc p.body ++ rtpTag S c hb (cmBody S c p.hdr.seq roc p.body) roc

theorem protectRtp_eq (S : Suite) (c : Ctx) (p : Pkt) (hv : validHdr p.hdr = true) :
    c.protectRtp S p =
      (.ok (writeHdr p.hdr (p.padLen ≠ 0) ++ rtpWireBody S c p (c.estimate p.hdr.seq)),
       c.updated p.hdr.seq (c.estimate p.hdr.seq)) := by
  unfold Ctx.protectRtp rtpWireBody
  simp only [hv, not_true_eq_false, if_false]
  split <;> simp

theorem protectRtp_invalid (S : Suite) (c : Ctx) (p : Pkt) (hv : validHdr p.hdr = false) :
    c.protectRtp S p = (.error .internal, c) := by
  unfold Ctx.protectRtp; simp [hv]

theorem rtpWireBody_length (S : Suite) (c : Ctx) (p : Pkt) (roc : Nat) :
    (rtpWireBody S c p roc).length = p.payload.length + p.padLen + c.profile.tagLen := by
  unfold rtpWireBody
  split
  · rename_i h; simp [S.seal_len, Pkt.body, h, tagLen_gcm]
  · rename_i h; simp [cmBody_length, rtpTag_length S c _ _ _ h, Pkt.body]

/-- a receiver context with the sender's SSRC, profile and RTP session keys that uses the same
rollover count recovers exactly the packet (and then updates its rollover state) -/
theorem unprotect_wireBody (S : Suite) (cs cr : Ctx) (p : Pkt) (wf : p.WF)
    (hs : cr.ssrc = cs.ssrc) (hp : cr.profile = cs.profile) (hk : cr.rtp = cs.rtp) :
    cr.unprotectRtp S p.hdr (p.padLen ≠ 0) (rtpWireBody S cs p (cr.estimate p.hdr.seq)) =
      (.ok p, cr.updated p.hdr.seq (cr.estimate p.hdr.seq)) := by
  have hlen := rtpWireBody_length S cs p (cr.estimate p.hdr.seq)
  unfold Ctx.unprotectRtp
  rw [if_neg (by rw [hlen, hp]; omega)]
  have hopen : cr.openRtp S (writeHdr p.hdr (p.padLen ≠ 0)) (rtpWireBody S cs p (cr.estimate p.hdr.seq))
      p.hdr.seq (cr.estimate p.hdr.seq) = .ok p.body := by
    unfold Ctx.openRtp rtpWireBody
    by_cases hg : cs.profile = .gcm
    · simp only [hp, hg, if_true, hk, hs, S.open_seal]
    · have hg' : cr.profile ≠ .gcm := by rw [hp]; exact hg
      simp only [hp, hg, if_false]
      have hct : (cmBody S cs p.hdr.seq (cr.estimate p.hdr.seq) p.body).length = p.body.length :=
        cmBody_length _ _ _ _ _
      have htl := rtpTag_length S cs (writeHdr p.hdr (p.padLen ≠ 0))
        (cmBody S cs p.hdr.seq (cr.estimate p.hdr.seq) p.body) (cr.estimate p.hdr.seq) hg
      simp only [List.length_append, htl, Nat.add_sub_cancel]
      rw [List.take_left' rfl, List.drop_left' rfl]
      have htag : ∀ hb ct roc, rtpTag S cr hb ct roc = rtpTag S cs hb ct roc := by
        intro hb ct roc; simp [rtpTag, hk, hp]
      have hcm : ∀ seq roc b, cmBody S cr seq roc b = cmBody S cs seq roc b := by
        intro seq roc b; simp [cmBody, Ctx.encrypts, hk, hp, hs]
      rw [htag, hcm, if_neg (by simp), cmBody_cmBody]
  simp only [hopen, stripPadding_body p wf.pad]

/-! ### RTCP round trip at context level -/

/-- what `protect_rtcp` produces when it uses SRTCP index `index` -/
def rtcpWire (S : Suite) (c : Ctx) (pkt : Bytes) (index : Nat) : Bytes :=
  if c.profile = .gcm then
    pkt.take 8 ++ S.aeadSeal c.rtcp.ck (gcmRtcpNonce c.rtcp.salt c.ssrc index)
      (pkt.take 8 ++ be32 (c.eWord index)) (pkt.drop 8) ++ be32 (c.eWord index)
  else
    (if pkt.length > 8 ∧ c.encrypts then rtcpCipher S c index pkt else pkt) ++ be32 (c.eWord index) ++
      rtcpTag S c ((if pkt.length > 8 ∧ c.encrypts then rtcpCipher S c index pkt else pkt) ++ be32 (c.eWord index))

theorem protectRtcp_eq (S : Suite) (c : Ctx) (pkt : Bytes) :
    c.protectRtcp S pkt =
      (.ok (rtcpWire S c pkt ((c.rtcpIndex + 1) % 4294967296)),
       { c with rtcpIndex := (c.rtcpIndex + 1) % 4294967296 }) := by
  unfold Ctx.protectRtcp rtcpWire
  split <;> simp

theorem rtcpCipher_length (S : Suite) (c : Ctx) (index : Nat) (pkt : Bytes) (h : 8 ≤ pkt.length) :
    (rtcpCipher S c index pkt).length = pkt.length := by
  simp [rtcpCipher, S.ks_len, List.length_take]; omega

theorem rtcpCipher_involutive (S : Suite) (c : Ctx) (index : Nat) (pkt : Bytes) (h : 8 ≤ pkt.length) :
    rtcpCipher S c index (rtcpCipher S c index pkt) = pkt := by
  have hl := rtcpCipher_length S c index pkt h
  have ht : (pkt.take 8).length = 8 := by simp [List.length_take]; omega
  unfold rtcpCipher at hl ⊢
  rw [hl, List.take_left' ht, List.drop_left' ht]
  rw [xorBytes_involutive _ _ (by simp [S.ks_len])]
  exact List.take_append_drop 8 pkt

theorem withEBit_props (index : Nat) (h : index < 2147483648) :
    withEBit index < 4294967296 ∧ withEBit index ≥ srtcpEBit ∧
    withEBit index % (srtcpIndexMask + 1) = index ∧ withEBit index % (srtcpIndexMaskCm + 1) = index := by
  have hw : withEBit index = index + 2147483648 := by simp [withEBit, h]
  rw [hw]
  simp only [srtcpEBit_val, srtcpIndexMask_val, srtcpIndexMaskCm_val]
  omega

/-- the `E ‖ index` word: below 2^32, carries the index, and `E` is set exactly when the profile encrypts -/
theorem eWord_props (c : Ctx) (index : Nat) (h : index < 2147483648) :
    c.eWord index < 4294967296 ∧ (c.eWord index ≥ srtcpEBit ↔ c.encrypts = true) ∧
    c.eWord index % (srtcpIndexMask + 1) = index ∧ c.eWord index % (srtcpIndexMaskCm + 1) = index := by
  obtain ⟨h1, h2, h3, h4⟩ := withEBit_props index h
  unfold Ctx.eWord
  cases he : c.encrypts with
  | true => simp only [if_true]; exact ⟨h1, ⟨fun _ => trivial, fun _ => h2⟩, h3, h4⟩
  | false =>
    simp only [Bool.false_eq_true, if_false, srtcpEBit_val, srtcpIndexMask_val, srtcpIndexMaskCm_val]
    refine ⟨by omega, ⟨fun hh => by omega, fun hh => by simp at hh⟩, by omega, by omega⟩

theorem encrypts_gcm {c : Ctx} (h : c.profile = .gcm) : c.encrypts = true := by simp [Ctx.encrypts, h]

/-- a receiver context with the sender's SSRC, profile and RTCP session keys recovers exactly the
RTCP packet from what `protect_rtcp` produced with index `index < 2^31` -/
theorem unprotect_rtcpWire (S : Suite) (cs cr : Ctx) (pkt : Bytes) (index : Nat)
    (hlen : 8 ≤ pkt.length) (hidx : index < 2147483648)
    (hs : cr.ssrc = cs.ssrc) (hp : cr.profile = cs.profile) (hk : cr.rtcp = cs.rtcp) :
    cr.unprotectRtcp S (rtcpWire S cs pkt index) = (.ok pkt, cr.bumpRtcp index) := by
  obtain ⟨he1, he2, he3, he4⟩ := eWord_props cs index hidx
  have henc : cr.encrypts = cs.encrypts := by simp [Ctx.encrypts, hp]
  have ht : (pkt.take 8).length = 8 := by simp [List.length_take]; omega
  by_cases hg : cs.profile = .gcm
  · -- AEAD
    have hw : rtcpWire S cs pkt index = pkt.take 8 ++ S.aeadSeal cs.rtcp.ck (gcmRtcpNonce cs.rtcp.salt cs.ssrc index)
        (pkt.take 8 ++ be32 (cs.eWord index)) (pkt.drop 8) ++ be32 (cs.eWord index) := by
      simp [rtcpWire, hg]
    have hwl : (rtcpWire S cs pkt index).length = pkt.length + 20 := by
      rw [hw]; simp [S.seal_len, ht]; omega
    unfold Ctx.unprotectRtcp
    simp only [hp, hg, rtcpTagLen_gcm, srtpTagLenGcm_val, if_true]
    rw [if_neg (by omega)]
    have hl4 : last4 (rtcpWire S cs pkt index) = cs.eWord index := by
      rw [hw]; exact last4_append_be32 _ _ he1
    have htk : (rtcpWire S cs pkt index).take 8 = pkt.take 8 := by
      rw [hw, List.append_assoc]; exact List.take_left' ht
    have hmid : ((rtcpWire S cs pkt index).take ((rtcpWire S cs pkt index).length - 4)).drop 8 =
        S.aeadSeal cs.rtcp.ck (gcmRtcpNonce cs.rtcp.salt cs.ssrc index)
          (pkt.take 8 ++ be32 (cs.eWord index)) (pkt.drop 8) := by
      have : (rtcpWire S cs pkt index).length - 4 =
          (pkt.take 8 ++ S.aeadSeal cs.rtcp.ck (gcmRtcpNonce cs.rtcp.salt cs.ssrc index)
            (pkt.take 8 ++ be32 (cs.eWord index)) (pkt.drop 8)).length := by
        rw [hwl]; simp [S.seal_len, ht]; omega
      rw [this, hw, List.take_left' rfl, List.drop_left' ht]
    simp only [hl4, he3, htk, hmid, hk, hs, S.open_seal, List.take_append_drop]
  · -- AES-CM / NULL with HMAC
    have hg' : cr.profile ≠ .gcm := by rw [hp]; exact hg
    let enc := if pkt.length > 8 ∧ cs.encrypts then rtcpCipher S cs index pkt else pkt
    have henc' : enc.length = pkt.length := by
      simp only [enc]; split
      · exact rtcpCipher_length S cs index pkt hlen
      · rfl
    have hw : rtcpWire S cs pkt index = (enc ++ be32 (cs.eWord index)) ++ rtcpTag S cs (enc ++ be32 (cs.eWord index)) := by
      simp [rtcpWire, hg, enc]
    have htl := rtcpTag_length S cs (enc ++ be32 (cs.eWord index)) hg
    have htag : ∀ m, rtcpTag S cr m = rtcpTag S cs m := by intro m; simp [rtcpTag, hk, hp]
    have hciph : ∀ b, rtcpCipher S cr index b = rtcpCipher S cs index b := by
      intro b; simp [rtcpCipher, hk, hs]
    unfold Ctx.unprotectRtcp
    simp only [hp, hg, if_false]
    have hwl : (rtcpWire S cs pkt index).length = pkt.length + 4 + cs.profile.rtcpTagLen := by
      rw [hw]; simp [htl, henc']; omega
    rw [if_neg (by omega)]
    have hsplit : (rtcpWire S cs pkt index).length - cs.profile.rtcpTagLen = (enc ++ be32 (cs.eWord index)).length := by
      rw [hwl]; simp [henc']
    rw [hsplit, hw, List.take_left' rfl, List.drop_left' rfl, htag]
    rw [if_neg (by simp)]
    rw [last4_append_be32 _ _ he1]
    have hbody : (enc ++ be32 (cs.eWord index)).take ((enc ++ be32 (cs.eWord index)).length - 4) = enc := by
      simp only [List.length_append, be32_length, Nat.add_sub_cancel]
      exact List.take_left' rfl
    simp only [hbody, he4, henc', henc]
    by_cases h8 : pkt.length > 8 ∧ cs.encrypts = true
    · rw [if_pos ⟨he2.mpr h8.2, h8.2, h8.1⟩]
      simp only [enc, if_pos h8, hciph, rtcpCipher_involutive S cs index pkt hlen]
    · rw [if_neg (by intro hh; exact h8 ⟨hh.2.2, hh.2.1⟩)]
      simp only [enc, if_neg h8]

end RtcModel.Srtp
