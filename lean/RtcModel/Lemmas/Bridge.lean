/- Helper lemmas for the rewrite-bridge model (`RtcModel/Bridge.lean`). -/
import RtcModel.Bridge
namespace RtcModel.Bridge

/-! ### the stream table -/

@[simp] theorem sget_sset_same (k : UInt32) (v : Stream) (ss : Streams) : sget k (sset k v ss) = some v := by
  induction ss with
  | nil => simp [sset, sget]
  | cons e r ih =>
    obtain ⟨k', v'⟩ := e
    by_cases h : k' = k <;> simp [sset, sget, h, ih]

theorem sget_sset_other (k k' : UInt32) (v : Stream) (ss : Streams) (h : k' ≠ k) :
    sget k' (sset k v ss) = sget k' ss := by
  induction ss with
  | nil => simp [sset, sget, Ne.symm h]
  | cons e r ih =>
    obtain ⟨k2, v2⟩ := e
    by_cases h2 : k2 = k
    · subst h2; simp [sset, sget, Ne.symm h]
    · by_cases h3 : k2 = k'
      · subst h3; simp [sset, sget, h2]
      · simp [sset, sget, h2, h3, ih]

/-! ### the timestamp block -/

@[simp] theorem rebase_nextSeq (st : Stream) (l t : UInt32) : (rebase st l t).nextSeq = st.nextSeq := by
  unfold rebase; split <;> rfl
@[simp] theorem rebase_outSsrc (st : Stream) (l t : UInt32) : (rebase st l t).outSsrc = st.outSsrc := by
  unfold rebase; split <;> rfl
@[simp] theorem rebase_lastSrcTs (st : Stream) (l t : UInt32) : (rebase st l t).lastSrcTs = st.lastSrcTs := by
  unfold rebase; split <;> rfl

@[simp] theorem tsUpdate_nextSeq (o : Opts) (st : Stream) (t : UInt32) : (tsUpdate o st t).1.nextSeq = st.nextSeq := by
  unfold tsUpdate; split <;> (try split) <;> simp

@[simp] theorem tsUpdate_outSsrc (o : Opts) (st : Stream) (t : UInt32) : (tsUpdate o st t).1.outSsrc = st.outSsrc := by
  unfold tsUpdate; split <;> (try split) <;> simp

/-- after an in-order packet the stream remembers that packet's timestamp -/
theorem tsUpdate_inorder_last (o : Opts) (st : Stream) (p : Pkt) (h : InOrder st p) :
    (tsUpdate o st p.ts).1.lastSrcTs = some p.ts := by
  unfold tsUpdate
  unfold InOrder at h
  split
  · rename_i last hl
    rw [hl] at h
    simp at h
    simp [h]
  · split <;> rfl

theorem cur_of_some (c : Cfg) (ss : Streams) (p : Pkt) (a : UInt16) (b : UInt32) (st : Stream)
    (h : sget p.ssrc ss = some st) : cur c ss p a b = st := by simp [cur, h]

/-- the state after one packet: only the packet's own source changes -/
theorem forward_state (c : Cfg) (ss : Streams) (p : Pkt) (a : UInt16) (b : UInt32) :
    (forward c ss p a b).1 =
      sset p.ssrc { (tsUpdate c.opts (cur c ss p a b) p.ts).1 with
                    nextSeq := (cur c ss p a b).nextSeq + 1 } ss := by
  simp [forward, rewrite]

theorem forward_get_same (c : Cfg) (ss : Streams) (p : Pkt) (a : UInt16) (b : UInt32) :
    sget p.ssrc (forward c ss p a b).1 =
      some { (tsUpdate c.opts (cur c ss p a b) p.ts).1 with nextSeq := (cur c ss p a b).nextSeq + 1 } := by
  rw [forward_state]; simp

/-- frame lemma: a packet of another source leaves the state of source `s` alone -/
theorem forward_get_other (c : Cfg) (ss : Streams) (p : Pkt) (a : UInt16) (b : UInt32) (s : UInt32)
    (h : p.ssrc ≠ s) : sget s (forward c ss p a b).1 = sget s ss := by
  rw [forward_state]; exact sget_sset_other _ _ _ _ (Ne.symm h)

theorem forward_out_seq (c : Cfg) (ss : Streams) (p : Pkt) (a : UInt16) (b : UInt32) :
    (forward c ss p a b).2.pkt.seq = (cur c ss p a b).nextSeq := by
  simp [forward, rewrite]

theorem forward_out_ssrc (c : Cfg) (ss : Streams) (p : Pkt) (a : UInt16) (b : UInt32) :
    (forward c ss p a b).2.pkt.ssrc = (cur c ss p a b).outSsrc := by
  simp [forward, rewrite]

theorem forward_out_ts (c : Cfg) (ss : Streams) (p : Pkt) (a : UInt16) (b : UInt32) :
    (forward c ss p a b).2.pkt.ts = p.ts + (tsUpdate c.opts (cur c ss p a b) p.ts).1.tsOff := by
  simp [forward, rewrite]

theorem forward_out_pt (c : Cfg) (ss : Streams) (p : Pkt) (a : UInt16) (b : UInt32) :
    (forward c ss p a b).2.pkt.pt = outPt c p := by
  simp [forward, rewrite]

theorem forward_out_video (c : Cfg) (ss : Streams) (p : Pkt) (a : UInt16) (b : UInt32) :
    (forward c ss p a b).2.video = targetFor c p.pt := by
  simp [forward]

/-- packets of other sources, in any number, leave source `s` alone -/
theorem runAll_get_other (c : Cfg) (s : UInt32) (qs : List (Pkt × UInt16 × UInt32))
    (h : ∀ q ∈ qs, q.1.ssrc ≠ s) (ss : Streams) : sget s (runAll c ss qs) = sget s ss := by
  induction qs generalizing ss with
  | nil => rfl
  | cons q rest ih =>
    obtain ⟨p, a, b⟩ := q
    simp only [runAll]
    rw [ih (fun q hq => h q (by simp [hq]))]
    exact forward_get_other c ss p a b s (h (p, a, b) (by simp))

/-- the output and the next state of source `p.ssrc` depend on the table only through that source's entry -/
theorem forward_congr (c : Cfg) (ss ss' : Streams) (p : Pkt) (a : UInt16) (b : UInt32)
    (h : sget p.ssrc ss = sget p.ssrc ss') :
    (forward c ss p a b).2 = (forward c ss' p a b).2 ∧
    sget p.ssrc (forward c ss p a b).1 = sget p.ssrc (forward c ss' p a b).1 := by
  have hc : cur c ss p a b = cur c ss' p a b := by simp [cur, h]
  constructor
  · simp [forward, rewrite, hc]
  · rw [forward_get_same, forward_get_same, hc]

/-! ### MID stamping -/
section stamp
open RtcModel.Demux (Bytes Ext getExtension getExt1)

/-- the one-byte-header element header `id << 4 | (len - 1)` -/
def midHdr (id : UInt8) (mid : Bytes) : UInt8 := UInt8.ofNat (id.toNat * 16 + (mid.length - 1))
/-- the extension block `set_extension(id, mid)` builds on a header without extension -/
def stamped (id : UInt8) (mid : Bytes) : Ext := { profile := 0xBEDE, data := padTo4 (midHdr id mid :: mid) }

theorem setExtension_none (id : UInt8) (mid : Bytes) (h1 : 1 ≤ id.toNat) (h2 : id.toNat ≤ 14)
    (h3 : 1 ≤ mid.length) (h4 : mid.length ≤ 16) :
    setExtension none id mid = some (stamped id mid) := by
  have hid0 : id ≠ 0 := by intro h; simp [h] at h1
  have hne : mid ≠ [] := by intro h; simp [h] at h3
  have hlen : ¬ (mid.length > 16 ∨ mid.isEmpty = true) := by
    simp [List.isEmpty_iff, hne]; omega
  have hidr : ¬ (id = 0 ∨ id.toNat ≥ 15) := by simp [hid0]; omega
  simp only [setExtension, hidr, hlen, if_false, Option.getD_none]
  simp [setExtLoop, stamped, midHdr]

theorem get_stamped (id : UInt8) (mid : Bytes) (h1 : 1 ≤ id.toNat) (h2 : id.toNat ≤ 14)
    (h3 : 1 ≤ mid.length) (h4 : mid.length ≤ 16) (ssrc pt : Nat) :
    getExtension { ssrc, pt, ext := some (stamped id mid) } id.toNat = some mid := by
  have hh : (midHdr id mid).toNat = id.toNat * 16 + (mid.length - 1) := by
    simp [midHdr, UInt8.toNat_ofNat']; omega
  have hnz : midHdr id mid ≠ 0 := by
    intro h; rw [h] at hh; simp at hh; omega
  have e1 : (midHdr id mid).toNat / 16 = id.toNat := by rw [hh]; omega
  have e2 : (midHdr id mid).toNat % 16 + 1 = mid.length := by rw [hh]; omega
  simp only [getExtension, stamped, if_true, padTo4]
  simp only [List.cons_append, List.length_cons, getExt1, hnz, if_false, e1, e2]
  have : id.toNat ≠ 15 := by omega
  simp [this]

end stamp

theorem consecFrom_append (x : UInt16) (xs ys : List UInt16) :
    consecFrom x (xs ++ ys) ↔ consecFrom x xs ∧ consecFrom (xs.foldl (fun acc _ => acc + 1) x) ys := by
  induction xs generalizing x with
  | nil => simp [consecFrom]
  | cons y r ih => simp [consecFrom, ih, and_assoc]


/-- (definitional: `wireOf` filters `outsOf` by the `sent` flags) the bridge
consumes a sequence number for every packet it rewrites, also for one whose push it then refuses
(mandatory target without keys, protect error, socket full).  What reaches the socket is therefore a
SUBSEQUENCE of the consecutive run of `bridge_seq_consecutive` — gaps appear exactly at refused
packets and nowhere else; with nothing refused the two coincide. -/
theorem wire_seq_subsequence (c : Cfg) (s : UInt32) (xs : List (In × Bool)) (ss : Streams) :
    List.Sublist (wireOf c s ss xs) (outsOf c s ss (xs.map (·.1))) ∧
    ((∀ x ∈ xs, x.2 = true) → wireOf c s ss xs = outsOf c s ss (xs.map (·.1))) := by
  induction xs generalizing ss with
  | nil => simp [wireOf, outsOf]
  | cons x rest ih =>
    obtain ⟨⟨p, a, b⟩, sent⟩ := x
    obtain ⟨ih1, ih2⟩ := ih (forward c ss p a b).1
    constructor
    · simp only [wireOf, outsOf, List.map_cons]
      by_cases hp : p.ssrc = s
      · cases sent
        · simp only [hp, if_true, Bool.false_eq_true, and_false, if_false, List.nil_append, List.singleton_append]
          exact List.Sublist.cons _ ih1
        · simp only [hp, and_self, if_true, List.singleton_append]
          exact List.Sublist.cons_cons _ ih1
      · simp only [hp, false_and, if_false, List.nil_append]; exact ih1
    · intro hall
      have hs : sent = true := hall ((p, a, b), sent) (by simp)
      subst hs
      simp only [wireOf, outsOf, List.map_cons]
      rw [ih2 (fun x hx => hall x (by simp [hx]))]
      by_cases hp : p.ssrc = s <;> simp [hp]


end RtcModel.Bridge
