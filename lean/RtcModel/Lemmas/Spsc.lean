/-
C20 — the ring invariant and its preservation by every single access of `push` and `pop`,
for ONE pusher role and ONE popper role running concurrently (any interleaving).
Helper lemmas; the property theorems are in `Theorems/C20.lean`.
-/
import RtcModel.Spsc

namespace RtcModel.Spsc
open RtcModel.C20Word RtcModel.Generated

/-- the (unique) thread currently inside `push`, with the value it pushes -/
abbrev PuView := Option (PushPc × Val)
/-- the (unique) thread currently inside `pop` -/
abbrev PoView := Option PopPc

/-- slot written, `tail` not yet stored -/
def pendW : PuView → Nat
  | some (.stTail _, _) => 1
  | _ => 0
/-- slot read (moved out), `head` not yet stored -/
def pendR : PoView → Nat
  | some (.stHead _ _) => 1
  | _ => 0

def PusherOk (r : Ring) : PuView → Prop
  | none => True
  | some (.ldTail, _) => True
  | some (.ldHead tl, _) => tl = r.tail
  | some (.write tl, _) => tl = r.tail ∧ r.tcount < r.hcount + r.cap
  | some (.stTail tl, _) => tl = r.tail ∧ r.tcount < r.hcount + r.cap

def PopperOk (r : Ring) : PoView → Prop
  | none => True
  | some .ldHead => True
  | some (.ldTail hl) => hl = r.head
  | some .retNone => True
  | some (.read hl) => hl = r.head ∧ r.hcount < r.tcount
  | some (.stHead hl v) => hl = r.head ∧ r.hcount < r.tcount ∧ r.log[r.hcount]? = some v

/-- The ring invariant. `hcount`/`tcount` are the unbounded numbers of completed pops/pushes;
the slots holding an initialised value are exactly those of the positions
`hcount + pendR ≤ k < log.length` and slot `k % cap` holds the `k`-th written value. -/
structure RingInv (r : Ring) (pu : PuView) (po : PoView) : Prop where
  capPos : 0 < r.cap
  capLt : r.cap < r.W
  pow : ∃ j, r.mask + 1 = 2 ^ j
  capLe : r.cap ≤ (r.mask + 1)
  dvd : (r.mask + 1) ∣ r.W
  headEq : r.head = r.hcount % r.W
  tailEq : r.tail = r.tcount % r.W
  le1 : r.hcount ≤ r.tcount
  le2 : r.tcount ≤ r.hcount + r.cap
  logLen : r.log.length = r.tcount + pendW pu
  outsEq : r.outs = r.log.take r.hcount
  slotsInit : ∀ k, r.hcount + pendR po ≤ k → k < r.log.length → r.slots (k % (r.mask + 1)) = r.log[k]?
  slotsFree : ∀ k, r.log.length ≤ k → k < r.hcount + pendR po + (r.mask + 1) → r.slots (k % (r.mask + 1)) = none
  noBad : r.bad = []
  pusher : PusherOk r pu
  popper : PopperOk r po

/-- the slot index `x & mask` of a wrapped counter is the residue of the true counter modulo the slot count -/
theorem RingInv.idx_eq {r pu po} (h : RingInv r pu po) (x : Nat) : r.idx (x % r.W) = x % (r.mask + 1) := by
  obtain ⟨j, hj⟩ := h.pow
  unfold Ring.idx; rw [and_mask_eq_mod hj]; exact idx_count' h.dvd

theorem RingInv.init (cap k : Nat) (h0 : 0 < cap) (h1 : cap < 2 ^ k) :
    RingInv (Ring.init cap (2 ^ k) 0) none none := by
  have hp := nextPow2_isPow cap
  have hle := le_nextPow2 cap
  have hd := nextPow2_dvd (Nat.le_of_lt h1)
  have hpos : 0 < nextPow2 cap := by omega
  have hn : nextPow2 cap - 1 + 1 = nextPow2 cap := by omega
  refine ⟨h0, h1, ?_, ?_, ?_, ?_, ?_, ?_, ?_, ?_, ?_, ?_, ?_, ?_, ?_, ?_⟩ <;>
    simp [Ring.init, pendW, pendR, PusherOk, PopperOk, spscInitHead_val, spscInitTail_val, spscMaskDec_val, hn]
  · exact hp
  · exact hle
  · exact hd

/-! ### push -/

theorem RingInv.startPush {r pu po} (v : Val) (h : RingInv r pu po) (hpu : pu = none) :
    RingInv r (some (.ldTail, v)) po := by
  subst hpu
  exact { h with logLen := by simpa [pendW] using h.logLen, pusher := trivial }

/-- leaving `push` before the slot write (queue full) -/
theorem RingInv.abandonPush {r p v po} (h : RingInv r (some (p, v)) po) (hp : ∀ tl, p ≠ .stTail tl) :
    RingInv r none po := by
  have : pendW (some (p, v)) = 0 := by
    cases p <;> simp [pendW] ; exact absurd rfl (hp _)
  have hl := h.logLen
  rw [this] at hl
  exact { h with logLen := by simpa [pendW] using hl, pusher := trivial }

theorem RingInv.push_ldTail {r v po} (h : RingInv r (some (.ldTail, v)) po) :
    RingInv r (some (.ldHead r.tail, v)) po :=
  { h with logLen := by simpa [pendW] using h.logLen, pusher := rfl }

theorem push_full_iff {r tl v po} (h : RingInv r (some (.ldHead tl, v)) po) :
    wsub r.W tl r.head ≥ r.cap ↔ r.tcount = r.hcount + r.cap := by
  have ht : tl = r.tail := h.pusher
  have hd : wsub r.W tl r.head = r.tcount - r.hcount := by
    rw [ht, h.tailEq, h.headEq]
    exact wsub_count h.le1 (by have := h.le2; have := h.capLt; omega)
  rw [hd]; have := h.le1; have := h.le2; omega

theorem RingInv.push_ldHead_cont {r tl v po} (h : RingInv r (some (.ldHead tl, v)) po)
    (hf : ¬ wsub r.W tl r.head ≥ r.cap) : RingInv r (some (.write tl, v)) po := by
  have hne := mt (push_full_iff h).2 hf
  exact { h with logLen := by simpa [pendW] using h.logLen,
                 pusher := ⟨h.pusher, by have := h.le2; omega⟩ }

theorem getElem?_concat_lt {α} (l : List α) (x : α) (k : Nat) (hk : k < l.length) :
    (l ++ [x])[k]? = l[k]? := by
  rw [List.getElem?_append_left hk]

theorem RingInv.push_write {r tl v po} (h : RingInv r (some (.write tl, v)) po) :
    RingInv (r.writeSlot (r.idx tl) v) (some (.stTail tl, v)) po := by
  obtain ⟨htl, hroom⟩ := h.pusher
  have hlen : r.log.length = r.tcount := by simpa [pendW] using h.logLen
  have hidx : r.idx tl = r.tcount % (r.mask + 1) := by rw [htl, h.tailEq]; exact h.idx_eq _
  have hcl := h.capLe
  have hpr : pendR po ≤ 1 := by unfold pendR; split <;> omega
  have hprle : r.hcount + pendR po ≤ r.tcount := by
    have := h.popper
    unfold pendR; split
    · rename_i hl v'; simp [PopperOk] at this; omega
    · have := h.le1; omega
  have hfree : r.slots (r.tcount % (r.mask + 1)) = none :=
    h.slotsFree r.tcount (by omega) (by omega)
  refine
    { capPos := h.capPos, capLt := h.capLt, pow := h.pow, capLe := h.capLe, dvd := h.dvd, headEq := h.headEq, tailEq := h.tailEq,
      le1 := h.le1, le2 := h.le2, logLen := ?_, outsEq := ?_, slotsInit := ?_, slotsFree := ?_,
      noBad := ?_, pusher := ⟨htl, hroom⟩, popper := ?_ }
  · simp [Ring.writeSlot, pendW, hlen]
  · simp only [Ring.writeSlot]
    rw [List.take_append_of_le_length (by have := h.le1; omega)]
    exact h.outsEq
  · intro k hk1 hk2
    simp only [Ring.writeSlot, List.length_append, List.length_singleton] at hk1 hk2 ⊢
    by_cases hk : k = r.tcount
    · subst hk
      rw [hidx, upd_same, ← hlen, List.getElem?_concat_length]
    · have hklt : k < r.tcount := by omega
      rw [hidx, upd_other _ _ _ _ (mod_ne_window hklt (by omega)),
          getElem?_concat_lt _ _ _ (by omega)]
      exact h.slotsInit k hk1 (by omega)
  · intro k hk1 hk2
    simp only [Ring.writeSlot, List.length_append, List.length_singleton] at hk1 hk2 ⊢
    have hklt : r.tcount < k := by omega
    rw [hidx, upd_other _ _ _ _ (mod_ne_window' hklt (by omega))]
    exact h.slotsFree k (by omega) hk2
  · simp [Ring.writeSlot, hidx, hfree, h.noBad]
  · have hp := h.popper
    revert hp
    cases po with
    | none => exact id
    | some p =>
      cases p with
      | ldHead => exact id
      | ldTail hl => exact id
      | retNone => exact id
      | read hl => exact id
      | stHead hl v' =>
        simp only [PopperOk, Ring.writeSlot]
        rintro ⟨a, b, c⟩
        exact ⟨a, b, by rw [getElem?_concat_lt _ _ _ (by omega)]; exact c⟩

theorem RingInv.push_stTail {r tl v po} (h : RingInv r (some (.stTail tl, v)) po) :
    RingInv (r.storeTail tl) none po := by
  obtain ⟨htl, hroom⟩ := h.pusher
  refine
    { capPos := h.capPos, capLt := h.capLt, pow := h.pow, capLe := h.capLe, dvd := h.dvd, headEq := h.headEq, tailEq := ?_,
      le1 := ?_, le2 := ?_, logLen := ?_, outsEq := h.outsEq, slotsInit := h.slotsInit,
      slotsFree := h.slotsFree, noBad := h.noBad, pusher := trivial, popper := ?_ }
  · simp only [Ring.storeTail, spscPushInc_val, wadd_one]; rw [htl, h.tailEq]; exact winc_count _ _
  · simp only [Ring.storeTail, spscPushInc_val, wadd_one]; have := h.le1; omega
  · simp only [Ring.storeTail, spscPushInc_val, wadd_one]; omega
  · have := h.logLen; simp only [Ring.storeTail, pendW] at this ⊢; omega
  · have hp := h.popper
    revert hp
    cases po with
    | none => exact id
    | some p =>
      cases p with
      | ldHead => exact id
      | ldTail hl => exact id
      | retNone => exact id
      | read hl => simp only [PopperOk, Ring.storeTail, spscPushInc_val, wadd_one]; rintro ⟨a, b⟩; exact ⟨a, by omega⟩
      | stHead hl v' => simp only [PopperOk, Ring.storeTail, spscPushInc_val, wadd_one]; rintro ⟨a, b, c⟩; exact ⟨a, by omega, c⟩

/-! ### pop -/

theorem RingInv.startPop {r pu po} (h : RingInv r pu po) (hpo : po = none) :
    RingInv r pu (some .ldHead) := by
  subst hpo
  exact { h with slotsInit := by simpa [pendR] using h.slotsInit,
                 slotsFree := by simpa [pendR] using h.slotsFree, popper := trivial }

theorem RingInv.abandonPop {r pu p} (h : RingInv r pu (some p)) (hp : ∀ hl v, p ≠ .stHead hl v) :
    RingInv r pu none := by
  have : pendR (some p) = 0 := by
    cases p <;> simp [pendR] ; exact absurd rfl (hp _ _)
  have h1 := h.slotsInit
  have h2 := h.slotsFree
  rw [this] at h1 h2
  exact { h with slotsInit := by simpa [pendR] using h1,
                 slotsFree := by simpa [pendR] using h2, popper := trivial }

theorem RingInv.pop_ldHead {r pu} (h : RingInv r pu (some .ldHead)) :
    RingInv r pu (some (.ldTail r.head)) :=
  { h with slotsInit := by simpa [pendR] using h.slotsInit,
           slotsFree := by simpa [pendR] using h.slotsFree, popper := rfl }

theorem pop_empty_iff {r pu hl} (h : RingInv r pu (some (.ldTail hl))) :
    hl = r.tail ↔ r.hcount = r.tcount := by
  have hh : hl = r.head := h.popper
  rw [hh, h.headEq, h.tailEq]
  exact wrapped_eq_iff h.le1 (by have := h.le2; have := h.capLt; omega)

theorem RingInv.pop_ldTail_none {r pu hl} (h : RingInv r pu (some (.ldTail hl))) :
    RingInv r pu (some .retNone) :=
  { h with slotsInit := by simpa [pendR] using h.slotsInit,
           slotsFree := by simpa [pendR] using h.slotsFree, popper := trivial }

theorem RingInv.pop_ldTail_cont {r pu hl} (h : RingInv r pu (some (.ldTail hl)))
    (hne : ¬ hl = r.tail) : RingInv r pu (some (.read hl)) := by
  have := mt (pop_empty_iff h).2 hne
  exact { h with slotsInit := by simpa [pendR] using h.slotsInit,
                 slotsFree := by simpa [pendR] using h.slotsFree,
                 popper := ⟨h.popper, by have := h.le1; omega⟩ }

/-- what `read` finds: the slot is initialised and holds the oldest queued value -/
theorem read_value {r pu hl} (h : RingInv r pu (some (.read hl))) :
    ∃ v, r.log[r.hcount]? = some v ∧ r.slots (r.idx hl) = some v ∧ r.idx hl = r.hcount % (r.mask + 1) := by
  obtain ⟨hh, hlt⟩ := h.popper
  have hidx : r.idx hl = r.hcount % (r.mask + 1) := by
    rw [hh, h.headEq]; exact h.idx_eq _
  have hlen : r.hcount < r.log.length := by have := h.logLen; omega
  refine ⟨r.log[r.hcount], List.getElem?_eq_getElem hlen, ?_, hidx⟩
  rw [hidx, h.slotsInit r.hcount (by simp [pendR]) hlen, List.getElem?_eq_getElem hlen]

theorem RingInv.pop_read {r pu hl} (h : RingInv r pu (some (.read hl))) :
    RingInv (r.readSlot (r.idx hl)).1 pu (some (.stHead hl (r.readSlot (r.idx hl)).2)) := by
  obtain ⟨v, hv, hs, hidx⟩ := read_value h
  have hcl := h.capLe
  obtain ⟨hh, hlt⟩ := h.popper
  have hrs : r.readSlot (r.idx hl) = ({ r with slots := upd r.slots (r.idx hl) none }, v) := by
    simp [Ring.readSlot, hs]
  rw [hrs]
  have hpw : r.log.length ≤ r.hcount + r.cap := by
    have hl := h.logLen
    have hp := h.pusher
    revert hl hp
    cases pu with
    | none => simp [pendW]; have := h.le2; omega
    | some q =>
      obtain ⟨p, v'⟩ := q
      cases p <;> simp [pendW, PusherOk] <;> have := h.le2 <;> omega
  refine
    { capPos := h.capPos, capLt := h.capLt, pow := h.pow, capLe := h.capLe, dvd := h.dvd, headEq := h.headEq, tailEq := h.tailEq,
      le1 := h.le1, le2 := h.le2, logLen := h.logLen, outsEq := h.outsEq, slotsInit := ?_,
      slotsFree := ?_, noBad := h.noBad, pusher := h.pusher, popper := ⟨hh, hlt, hv⟩ }
  · intro k hk1 hk2
    dsimp only [pendR] at hk1 hk2 ⊢
    rw [hidx, upd_other _ _ _ _ (mod_ne_window' (by omega : r.hcount < k) (by omega))]
    exact h.slotsInit k (by simp [pendR]; omega) hk2
  · intro k hk1 hk2
    dsimp only [pendR] at hk1 hk2 ⊢
    by_cases hk : k = r.hcount + (r.mask + 1)
    · subst hk
      rw [hidx, Nat.add_mod_right, upd_same]
    · have hlen : r.hcount < r.log.length := by have := h.logLen; omega
      rw [hidx, upd_other _ _ _ _ (mod_ne_window' (by omega : r.hcount < k) (by omega))]
      exact h.slotsFree k hk1 (by simp [pendR]; omega)

theorem RingInv.pop_stHead {r pu hl v} (h : RingInv r pu (some (.stHead hl v))) :
    RingInv (r.storeHead hl v) pu none := by
  obtain ⟨hh, hlt, hv⟩ := h.popper
  have hlen : r.hcount < r.log.length := by have := h.logLen; omega
  refine
    { capPos := h.capPos, capLt := h.capLt, pow := h.pow, capLe := h.capLe, dvd := h.dvd, headEq := ?_, tailEq := h.tailEq,
      le1 := ?_, le2 := ?_, logLen := h.logLen, outsEq := ?_, slotsInit := ?_,
      slotsFree := ?_, noBad := h.noBad, pusher := ?_, popper := trivial }
  · simp only [Ring.storeHead, spscPopInc_val, wadd_one]; rw [hh, h.headEq]; exact winc_count _ _
  · simp only [Ring.storeHead, spscPopInc_val, wadd_one]; omega
  · simp only [Ring.storeHead, spscPopInc_val, wadd_one]; have := h.le2; omega
  · simp only [Ring.storeHead, spscPopInc_val, wadd_one]
    rw [h.outsEq, List.take_add_one, hv]; rfl
  · intro k hk1 hk2
    simp only [Ring.storeHead, pendR, spscPopInc_val, wadd_one] at hk1 hk2 ⊢
    exact h.slotsInit k (by simp [pendR]; omega) hk2
  · intro k hk1 hk2
    simp only [Ring.storeHead, pendR, spscPopInc_val, wadd_one] at hk1 hk2 ⊢
    exact h.slotsFree k hk1 (by simp [pendR]; omega)
  · have hp := h.pusher
    revert hp
    cases pu with
    | none => exact id
    | some q =>
      obtain ⟨p, v'⟩ := q
      cases p with
      | ldTail => exact id
      | ldHead tl => exact id
      | write tl => simp only [PusherOk, Ring.storeHead, spscPopInc_val, wadd_one]; rintro ⟨a, b⟩; exact ⟨a, by omega⟩
      | stTail tl => simp only [PusherOk, Ring.storeHead, spscPopInc_val, wadd_one]; rintro ⟨a, b⟩; exact ⟨a, by omega⟩

/-! ### one access of push / pop, packaged -/

theorem pushStep_inv {r v p po} (h : RingInv r (some (p, v)) po) :
    (∀ p', (pushStep r v p).2 = .cont p' → RingInv (pushStep r v p).1 (some (p', v)) po) ∧
    ((pushStep r v p).2 = .full → RingInv (pushStep r v p).1 none po ∧ (pushStep r v p).1 = r) ∧
    ((pushStep r v p).2 = .done → RingInv (pushStep r v p).1 none po) := by
  cases p with
  | ldTail =>
    refine ⟨fun p' hp => ?_, fun hp => ?_, fun hp => ?_⟩
    · simp only [pushStep, PushOut.cont.injEq] at hp ⊢; subst hp; exact h.push_ldTail
    · simp [pushStep] at hp
    · simp [pushStep] at hp
  | ldHead tl =>
    by_cases hf : wsub r.W tl r.head ≥ r.cap
    · refine ⟨fun p' hp => ?_, fun _ => ?_, fun hp => ?_⟩
      · simp [pushStep, hf] at hp
      · simp only [pushStep, hf, if_true]
        exact ⟨h.abandonPush (by intro tl'; simp), trivial⟩
      · simp [pushStep, hf] at hp
    · refine ⟨fun p' hp => ?_, fun hp => ?_, fun hp => ?_⟩
      · simp only [pushStep, hf, if_false, PushOut.cont.injEq] at hp ⊢; subst hp
        exact h.push_ldHead_cont hf
      · simp [pushStep, hf] at hp
      · simp [pushStep, hf] at hp
  | write tl =>
    refine ⟨fun p' hp => ?_, fun hp => ?_, fun hp => ?_⟩
    · simp only [pushStep, PushOut.cont.injEq] at hp ⊢; subst hp; exact h.push_write
    · simp [pushStep] at hp
    · simp [pushStep] at hp
  | stTail tl =>
    refine ⟨fun p' hp => ?_, fun hp => ?_, fun _ => ?_⟩
    · simp [pushStep] at hp
    · simp [pushStep] at hp
    · simp only [pushStep]; exact h.push_stTail

theorem popStep_inv {r pu p} (h : RingInv r pu (some p)) :
    (∀ p', (popStep r p).2 = .cont p' → RingInv (popStep r p).1 pu (some p') ∧
        (p' = .retNone → (popStep r p).1 = r ∧ r.hcount = r.tcount)) ∧
    ((popStep r p).2 = .empty → RingInv (popStep r p).1 pu none ∧ (popStep r p).1 = r ∧ p = .retNone) ∧
    (∀ x, (popStep r p).2 = .done x → RingInv (popStep r p).1 pu none ∧ r.log[r.hcount]? = some x) := by
  cases p with
  | ldHead =>
    refine ⟨fun p' hp => ?_, fun hp => ?_, fun x hp => ?_⟩
    · simp only [popStep, PopOut.cont.injEq] at hp ⊢; subst hp; exact ⟨h.pop_ldHead, by simp⟩
    · simp [popStep] at hp
    · simp [popStep] at hp
  | ldTail hl =>
    by_cases he : hl = r.tail
    · refine ⟨fun p' hp => ?_, fun hp => ?_, fun x hp => ?_⟩
      · simp only [popStep, he, if_true, PopOut.cont.injEq] at hp ⊢; subst hp
        exact ⟨h.pop_ldTail_none, fun _ => ⟨trivial, (pop_empty_iff h).1 he⟩⟩
      · simp [popStep, he] at hp
      · simp [popStep, he] at hp
    · refine ⟨fun p' hp => ?_, fun hp => ?_, fun x hp => ?_⟩
      · simp only [popStep, he, if_false, PopOut.cont.injEq] at hp ⊢; subst hp
        exact ⟨h.pop_ldTail_cont he, by simp⟩
      · simp [popStep, he] at hp
      · simp [popStep, he] at hp
  | retNone =>
    refine ⟨fun p' hp => ?_, fun _ => ?_, fun x hp => ?_⟩
    · simp [popStep] at hp
    · simp only [popStep]; exact ⟨h.abandonPop (by intro a b; simp), trivial, trivial⟩
    · simp [popStep] at hp
  | read hl =>
    refine ⟨fun p' hp => ?_, fun hp => ?_, fun x hp => ?_⟩
    · simp only [popStep, PopOut.cont.injEq] at hp ⊢; subst hp; exact ⟨h.pop_read, by simp⟩
    · simp [popStep] at hp
    · simp [popStep] at hp
  | stHead hl v =>
    refine ⟨fun p' hp => ?_, fun hp => ?_, fun x hp => ?_⟩
    · simp [popStep] at hp
    · simp [popStep] at hp
    · simp only [popStep, PopOut.done.injEq] at hp ⊢; subst hp
      exact ⟨h.pop_stHead, h.popper.2.2⟩

/-! ### frame facts: capacity / word never change, `tcount` never decreases -/

theorem pushStep_frame (r : Ring) (v : Val) (p : PushPc) :
    (pushStep r v p).1.cap = r.cap ∧ (pushStep r v p).1.W = r.W ∧ r.tcount ≤ (pushStep r v p).1.tcount ∧
    (pushStep r v p).1.hcount = r.hcount := by
  cases p <;> simp [pushStep, Ring.writeSlot, Ring.storeTail]
  split <;> simp

theorem popStep_frame (r : Ring) (p : PopPc) :
    (popStep r p).1.cap = r.cap ∧ (popStep r p).1.W = r.W ∧ (popStep r p).1.tcount = r.tcount ∧
    r.hcount ≤ (popStep r p).1.hcount := by
  cases p <;> simp [popStep, Ring.readSlot, Ring.storeHead]
  · split <;> simp
  · split <;> simp

/-! ### the ring-only system -/

theorem rstep_frame (s : RSys) (l : RLabel) :
    (rstep s l).ring.cap = s.ring.cap ∧ (rstep s l).ring.W = s.ring.W ∧
    s.ring.tcount ≤ (rstep s l).ring.tcount := by
  cases l with
  | push v =>
    simp only [rstep]
    split
    · simp
    · rename_i p v' _
      have := pushStep_frame s.ring v' p
      split <;> simp_all
  | pop =>
    simp only [rstep]
    split
    · simp
    · rename_i p _
      have := popStep_frame s.ring p
      split <;> simp_all

theorem rstep_inv (s : RSys) (l : RLabel) (h : RingInv s.ring s.pu s.po) :
    RingInv (rstep s l).ring (rstep s l).pu (rstep s l).po := by
  cases l with
  | push v =>
    simp only [rstep]
    split
    · rename_i hpu; exact h.startPush v hpu
    · rename_i p v' hpu
      rw [hpu] at h
      obtain ⟨h1, h2, h3⟩ := pushStep_inv h
      split
      · rename_i r p' heq; have := h1 p' (by rw [heq]); rw [heq] at this; exact this
      · rename_i r o hne heq
        cases o with
        | cont p' => exact absurd rfl (hne p')
        | full => have := (h2 (by rw [heq])).1; rw [heq] at this; exact this
        | done => have := h3 (by rw [heq]); rw [heq] at this; exact this
  | pop =>
    simp only [rstep]
    split
    · rename_i hpo; exact h.startPop hpo
    · rename_i p hpo
      rw [hpo] at h
      obtain ⟨h1, h2, h3⟩ := popStep_inv h
      split
      · rename_i r p' heq; have := (h1 p' (by rw [heq])).1; rw [heq] at this; exact this
      · rename_i r o hne heq
        cases o with
        | cont p' => exact absurd rfl (hne p')
        | empty => have := (h2 (by rw [heq])).1; rw [heq] at this; exact this
        | done x => have := (h3 x (by rw [heq])).1; rw [heq] at this; exact this

theorem rrun_frame (s : RSys) (ls : List RLabel) :
    (rrun s ls).ring.cap = s.ring.cap ∧ (rrun s ls).ring.W = s.ring.W ∧
    s.ring.tcount ≤ (rrun s ls).ring.tcount := by
  induction ls generalizing s with
  | nil => simp [rrun]
  | cons l ls ih =>
    have h1 := rstep_frame s l
    have h2 := ih (rstep s l)
    simp only [rrun, List.foldl_cons] at h2 ⊢
    exact ⟨h2.1.trans h1.1, h2.2.1.trans h1.2.1, Nat.le_trans h1.2.2 h2.2.2⟩

theorem rrun_inv (s : RSys) (ls : List RLabel) (h : RingInv s.ring s.pu s.po) :
    RingInv (rrun s ls).ring (rrun s ls).pu (rrun s ls).po := by
  induction ls generalizing s with
  | nil => exact h
  | cons l ls ih => exact ih (rstep s l) (rstep_inv s l h)

/-! ### `Drop for SpscRing` -/

/-- every residue has a representative in every window of length `cap` -/
theorem exists_in_window {cap : Nat} (a i : Nat) (hi : i < cap) :
    ∃ k, a ≤ k ∧ k < a + cap ∧ k % cap = i := by
  have hd := Nat.div_add_mod a cap
  have hm : a % cap < cap := Nat.mod_lt _ (by omega)
  by_cases h : a % cap ≤ i
  · refine ⟨cap * (a / cap) + i, by omega, by omega, ?_⟩
    rw [Nat.mul_add_mod, Nat.mod_eq_of_lt hi]
  · refine ⟨cap * (a / cap + 1) + i, ?_, ?_, ?_⟩
    · rw [Nat.mul_add, Nat.mul_one]; omega
    · rw [Nat.mul_add, Nat.mul_one]; omega
    · rw [Nat.mul_add_mod, Nat.mod_eq_of_lt hi]

/-- loop invariant of the drain loop at position `k` (`head` local = `k % W`) -/
structure DropInv (r : Ring) (k : Nat) : Prop where
  capPos : 0 < r.cap
  capLt : r.cap < r.W
  pow : ∃ j, r.mask + 1 = 2 ^ j
  capLe : r.cap ≤ r.mask + 1
  dvd : (r.mask + 1) ∣ r.W
  tailEq : r.tail = r.tcount % r.W
  le1 : k ≤ r.tcount
  le2 : r.tcount ≤ k + r.cap
  logLen : r.log.length = r.tcount
  slotsInit : ∀ j, k ≤ j → j < r.tcount → r.slots (j % (r.mask + 1)) = r.log[j]?
  slotsFree : ∀ j, r.tcount ≤ j → j < k + (r.mask + 1) → r.slots (j % (r.mask + 1)) = none
  noBad : r.bad = []

theorem DropInv.of_inv {r} (h : RingInv r none none) : DropInv r r.hcount :=
  { capPos := h.capPos, capLt := h.capLt, pow := h.pow, capLe := h.capLe, dvd := h.dvd,
    tailEq := h.tailEq, le1 := h.le1, le2 := h.le2,
    logLen := by simpa [pendW] using h.logLen,
    slotsInit := by
      have hl : r.log.length = r.tcount := by simpa [pendW] using h.logLen
      intro j a b; exact h.slotsInit j (by simpa [pendR] using a) (by omega),
    slotsFree := by
      have hl : r.log.length = r.tcount := by simpa [pendW] using h.logLen
      intro j a b; exact h.slotsFree j (by omega) (by simpa [pendR] using b),
    noBad := h.noBad }

theorem DropInv.idx_eq {r k} (h : DropInv r k) (x : Nat) : r.idx (x % r.W) = x % (r.mask + 1) := by
  obtain ⟨j, hj⟩ := h.pow
  unfold Ring.idx; rw [and_mask_eq_mod hj]; exact idx_count' h.dvd

theorem dropLoop_spec (n : Nat) : ∀ (r : Ring) (acc : List Val) (fuel k : Nat),
    DropInv r k → r.tcount - k = n → n ≤ fuel →
    (dropLoop r acc fuel (k % r.W)).2 = acc ++ (r.log.drop k) ∧
    (dropLoop r acc fuel (k % r.W)).1.bad = [] ∧
    (∀ i, i < r.mask + 1 → (dropLoop r acc fuel (k % r.W)).1.slots i = none) := by
  induction n with
  | zero =>
    intro r acc fuel k h hn _
    have hk : k = r.tcount := by have := h.le1; omega
    have hdrop : r.log.drop k = [] := by rw [List.drop_eq_nil_iff]; have := h.logLen; omega
    have hres : dropLoop r acc fuel (k % r.W) = (r, acc) := by
      cases fuel with
      | zero => rfl
      | succ f => simp [dropLoop, hk, h.tailEq]
    rw [hres, hdrop]
    refine ⟨by simp, h.noBad, fun i hi => ?_⟩
    obtain ⟨j, hj1, hj2, hj3⟩ := exists_in_window r.tcount i hi
    rw [← hj3]; exact h.slotsFree j hj1 (by omega)
  | succ n ih =>
    intro r acc fuel k h hn hfuel
    have hklt : k < r.tcount := by omega
    have hcl := h.capLe
    obtain ⟨f, rfl⟩ : ∃ f, fuel = f + 1 := ⟨fuel - 1, by omega⟩
    have hne : ¬ k % r.W = r.tail := by
      rw [h.tailEq]
      exact mod_ne_window hklt (by have := h.le2; have := h.capLt; omega)
    have hidx : r.idx (k % r.W) = k % (r.mask + 1) := h.idx_eq k
    have hlen : k < r.log.length := by have := h.logLen; omega
    have hslot : r.slots (k % (r.mask + 1)) = some r.log[k] := by
      rw [h.slotsInit k (Nat.le_refl _) hklt, List.getElem?_eq_getElem hlen]
    have hrs : r.readSlot (r.idx (k % r.W)) = ({ r with slots := upd r.slots (k % (r.mask + 1)) none }, r.log[k]) := by
      simp [Ring.readSlot, hidx, hslot]
    have hstep : dropLoop r acc (f + 1) (k % r.W) =
        dropLoop { r with slots := upd r.slots (k % (r.mask + 1)) none } (acc ++ [r.log[k]]) f ((k + 1) % r.W) := by
      rw [dropLoop, if_neg hne, hrs]
      simp only [spscDropInc_val, wadd_one, winc_count]
    have hinv : DropInv { r with slots := upd r.slots (k % (r.mask + 1)) none } (k + 1) :=
      { capPos := h.capPos, capLt := h.capLt, pow := h.pow, capLe := h.capLe, dvd := h.dvd,
        tailEq := h.tailEq, le1 := hklt,
        le2 := by have := h.le2; show r.tcount ≤ k + 1 + r.cap; omega,
        logLen := h.logLen,
        slotsInit := by
          intro j a b
          have a' : k + 1 ≤ j := a
          have b' : j < r.tcount := b
          show upd r.slots (k % (r.mask + 1)) none (j % (r.mask + 1)) = r.log[j]?
          rw [upd_other _ _ _ _ (mod_ne_window' (by omega : k < j) (by have := h.le2; show j - k < r.mask + 1; omega))]
          exact h.slotsInit j (by omega) b',
        slotsFree := by
          intro j a b
          have a : r.tcount ≤ j := a
          have b : j < k + 1 + (r.mask + 1) := b
          show upd r.slots (k % (r.mask + 1)) none (j % (r.mask + 1)) = none
          by_cases hj : j = k + (r.mask + 1)
          · subst hj; rw [Nat.add_mod_right, upd_same]
          · rw [upd_other _ _ _ _ (mod_ne_window' (by show k < j; omega) (by show j - k < r.mask + 1; omega))]
            exact h.slotsFree j a (by show j < k + (r.mask + 1); omega),
        noBad := h.noBad }
    have := ih { r with slots := upd r.slots (k % (r.mask + 1)) none } (acc ++ [r.log[k]]) f (k + 1) hinv
      (by show r.tcount - (k + 1) = n; omega) (by omega)
    rw [hstep]
    refine ⟨?_, this.2.1, this.2.2⟩
    rw [this.1]
    show acc ++ [r.log[k]] ++ List.drop (k + 1) r.log = acc ++ List.drop k r.log
    rw [List.append_assoc, List.singleton_append, ← List.drop_eq_getElem_cons hlen]

/-- `Drop for SpscRing` on a quiescent ring: drops exactly the queued values (each once, oldest
first), never touches an uninitialised slot, leaves every slot of the buffer uninitialised. -/
theorem ring_drop_spec {r : Ring} (h : RingInv r none none) :
    r.drop.2 = r.log.drop r.hcount ∧ r.drop.1.bad = [] ∧ ∀ i, i < r.mask + 1 → r.drop.1.slots i = none := by
  have hd := DropInv.of_inv h
  have := dropLoop_spec (r.tcount - r.hcount) r [] r.W r.hcount hd rfl
    (by have := h.le2; have := h.capLt; omega)
  simp only [Ring.drop, h.headEq]
  simpa using this

/-! ### the two non-atomic accesses never touch the same slot -/

/-- **write/read disjointness**: whenever the pusher is about to write its slot and the popper is
about to read (move out of) its slot, the two slots are different. -/
theorem write_read_disjoint {r tl v hl} (h : RingInv r (some (.write tl, v)) (some (.read hl))) :
    r.idx tl ≠ r.idx hl := by
  obtain ⟨htl, hroom⟩ := h.pusher
  obtain ⟨hhl, hlt⟩ := h.popper
  have hcl := h.capLe
  rw [htl, hhl, h.tailEq, h.headEq, h.idx_eq, h.idx_eq]
  exact mod_ne_window' hlt (by omega)

end RtcModel.Spsc
