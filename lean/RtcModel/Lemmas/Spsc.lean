/-
C20 — the ring invariant and its preservation by every single access of `push` and `pop`,
for ONE pusher role and ONE popper role running concurrently (any interleaving).
Helper lemmas; the property theorems are in `Theorems/C20.lean`.
-/
import RtcModel.Spsc

namespace RtcModel.Spsc
open RtcModel.C20Word

/-- the (unique) thread currently inside `push`, with the value it pushes -/
abbrev PuView := Option (PushPc × Val)
/-- the (unique) thread currently inside `pop` -/
abbrev PoView := Option PopPc

/-- slot written, `tail` not yet stored -/
def pendW : PuView → Nat
  | some (.stTail _, _) => 1
  | _ => 0
/-- slot read (moved out), `head` not yet stored -/
def pendR : PoView → Nat
  | some (.stHead _ _) => 1
  | _ => 0

def PusherOk (r : Ring) : PuView → Prop
  | none => True
  | some (.ldTail, _) => True
  | some (.ldHead tl, _) => tl = r.tail
  | some (.write tl, _) => tl = r.tail ∧ r.tcount < r.hcount + r.cap
  | some (.stTail tl, _) => tl = r.tail ∧ r.tcount < r.hcount + r.cap

def PopperOk (r : Ring) : PoView → Prop
  | none => True
  | some .ldHead => True
  | some (.ldTail hl) => hl = r.head
  | some (.read hl) => hl = r.head ∧ r.hcount < r.tcount
  | some (.stHead hl v) => hl = r.head ∧ r.hcount < r.tcount ∧ r.log[r.hcount]? = some v

/-- The ring invariant. `hcount`/`tcount` are the unbounded numbers of completed pops/pushes;
the slots holding an initialised value are exactly those of the positions
`hcount + pendR ≤ k < log.length` and slot `k % cap` holds the `k`-th written value. -/
structure RingInv (r : Ring) (pu : PuView) (po : PoView) : Prop where
  capPos : 0 < r.cap
  capLt : r.cap < r.W
  headEq : r.head = r.hcount % r.W
  tailEq : r.tail = r.tcount % r.W
  le1 : r.hcount ≤ r.tcount
  le2 : r.tcount ≤ r.hcount + r.cap
  logLen : r.log.length = r.tcount + pendW pu
  outsEq : r.outs = r.log.take r.hcount
  slotsInit : ∀ k, r.hcount + pendR po ≤ k → k < r.log.length → r.slots (k % r.cap) = r.log[k]?
  slotsFree : ∀ k, r.log.length ≤ k → k < r.hcount + pendR po + r.cap → r.slots (k % r.cap) = none
  noBad : r.bad = []
  pusher : PusherOk r pu
  popper : PopperOk r po

/-- The index `x % cap` computed from the *wrapped* counter is the right one: always when the
capacity divides the word modulus (power-of-two capacities), otherwise as long as fewer than `W`
pushes have completed. (With `W = 2^64` the second disjunct fails after 584 years at 1 push/ns;
see `wrap_breaks_slot_safety_witness` for what happens then.) -/
def NoWrap (r : Ring) : Prop := r.cap ∣ r.W ∨ r.tcount < r.W

theorem RingInv.init (cap W : Nat) (h0 : 0 < cap) (h1 : cap < W) :
    RingInv (Ring.init cap W 0) none none := by
  refine ⟨h0, h1, ?_, ?_, ?_, ?_, ?_, ?_, ?_, ?_, ?_, ?_, ?_⟩ <;> simp [Ring.init, pendW, pendR, PusherOk, PopperOk]

/-! ### push -/

theorem RingInv.startPush {r pu po} (v : Val) (h : RingInv r pu po) (hpu : pu = none) :
    RingInv r (some (.ldTail, v)) po := by
  subst hpu
  exact { h with logLen := by simpa [pendW] using h.logLen, pusher := trivial }

/-- leaving `push` before the slot write (queue full) -/
theorem RingInv.abandonPush {r p v po} (h : RingInv r (some (p, v)) po) (hp : ∀ tl, p ≠ .stTail tl) :
    RingInv r none po := by
  have : pendW (some (p, v)) = 0 := by
    cases p <;> simp [pendW] ; exact absurd rfl (hp _)
  have hl := h.logLen
  rw [this] at hl
  exact { h with logLen := by simpa [pendW] using hl, pusher := trivial }

theorem RingInv.push_ldTail {r v po} (h : RingInv r (some (.ldTail, v)) po) :
    RingInv r (some (.ldHead r.tail, v)) po :=
  { h with logLen := by simpa [pendW] using h.logLen, pusher := rfl }

theorem push_full_iff {r tl v po} (h : RingInv r (some (.ldHead tl, v)) po) :
    wsub r.W tl r.head ≥ r.cap ↔ r.tcount = r.hcount + r.cap := by
  have ht : tl = r.tail := h.pusher
  have hd : wsub r.W tl r.head = r.tcount - r.hcount := by
    rw [ht, h.tailEq, h.headEq]
    exact wsub_count h.le1 (by have := h.le2; have := h.capLt; omega)
  rw [hd]; have := h.le1; have := h.le2; omega

theorem RingInv.push_ldHead_cont {r tl v po} (h : RingInv r (some (.ldHead tl, v)) po)
    (hf : ¬ wsub r.W tl r.head ≥ r.cap) : RingInv r (some (.write tl, v)) po := by
  have hne := mt (push_full_iff h).2 hf
  exact { h with logLen := by simpa [pendW] using h.logLen,
                 pusher := ⟨h.pusher, by have := h.le2; omega⟩ }

theorem getElem?_concat_lt {α} (l : List α) (x : α) (k : Nat) (hk : k < l.length) :
    (l ++ [x])[k]? = l[k]? := by
  rw [List.getElem?_append_left hk]

theorem RingInv.push_write {r tl v po} (h : RingInv r (some (.write tl, v)) po) (hw : NoWrap r) :
    RingInv (r.writeSlot (tl % r.cap) v) (some (.stTail tl, v)) po := by
  obtain ⟨htl, hroom⟩ := h.pusher
  have hlen : r.log.length = r.tcount := by simpa [pendW] using h.logLen
  have hidx : tl % r.cap = r.tcount % r.cap := by rw [htl, h.tailEq]; exact idx_count hw
  have hpr : pendR po ≤ 1 := by unfold pendR; split <;> omega
  have hprle : r.hcount + pendR po ≤ r.tcount := by
    have := h.popper
    unfold pendR; split
    · rename_i hl v'; simp [PopperOk] at this; omega
    · have := h.le1; omega
  have hfree : r.slots (r.tcount % r.cap) = none :=
    h.slotsFree r.tcount (by omega) (by omega)
  refine
    { capPos := h.capPos, capLt := h.capLt, headEq := h.headEq, tailEq := h.tailEq,
      le1 := h.le1, le2 := h.le2, logLen := ?_, outsEq := ?_, slotsInit := ?_, slotsFree := ?_,
      noBad := ?_, pusher := ⟨htl, hroom⟩, popper := ?_ }
  · simp [Ring.writeSlot, pendW, hlen]
  · simp only [Ring.writeSlot]
    rw [List.take_append_of_le_length (by have := h.le1; omega)]
    exact h.outsEq
  · intro k hk1 hk2
    simp only [Ring.writeSlot, List.length_append, List.length_singleton] at hk1 hk2 ⊢
    by_cases hk : k = r.tcount
    · subst hk
      rw [hidx, upd_same, ← hlen, List.getElem?_concat_length]
    · have hklt : k < r.tcount := by omega
      rw [hidx, upd_other _ _ _ _ (mod_ne_window hklt (by omega)),
          getElem?_concat_lt _ _ _ (by omega)]
      exact h.slotsInit k hk1 (by omega)
  · intro k hk1 hk2
    simp only [Ring.writeSlot, List.length_append, List.length_singleton] at hk1 hk2 ⊢
    have hklt : r.tcount < k := by omega
    rw [hidx, upd_other _ _ _ _ (mod_ne_window' hklt (by omega))]
    exact h.slotsFree k (by omega) hk2
  · simp [Ring.writeSlot, hidx, hfree, h.noBad]
  · have hp := h.popper
    revert hp
    cases po with
    | none => exact id
    | some p =>
      cases p with
      | ldHead => exact id
      | ldTail hl => exact id
      | read hl => exact id
      | stHead hl v' =>
        simp only [PopperOk, Ring.writeSlot]
        rintro ⟨a, b, c⟩
        exact ⟨a, b, by rw [getElem?_concat_lt _ _ _ (by omega)]; exact c⟩

theorem RingInv.push_stTail {r tl v po} (h : RingInv r (some (.stTail tl, v)) po) :
    RingInv (r.storeTail tl) none po := by
  obtain ⟨htl, hroom⟩ := h.pusher
  refine
    { capPos := h.capPos, capLt := h.capLt, headEq := h.headEq, tailEq := ?_,
      le1 := ?_, le2 := ?_, logLen := ?_, outsEq := h.outsEq, slotsInit := h.slotsInit,
      slotsFree := h.slotsFree, noBad := h.noBad, pusher := trivial, popper := ?_ }
  · simp only [Ring.storeTail]; rw [htl, h.tailEq]; exact winc_count _ _
  · simp only [Ring.storeTail]; have := h.le1; omega
  · simp only [Ring.storeTail]; omega
  · have := h.logLen; simp only [Ring.storeTail, pendW] at this ⊢; omega
  · have hp := h.popper
    revert hp
    cases po with
    | none => exact id
    | some p =>
      cases p with
      | ldHead => exact id
      | ldTail hl => exact id
      | read hl => simp only [PopperOk, Ring.storeTail]; rintro ⟨a, b⟩; exact ⟨a, by omega⟩
      | stHead hl v' => simp only [PopperOk, Ring.storeTail]; rintro ⟨a, b, c⟩; exact ⟨a, by omega, c⟩

/-! ### pop -/

theorem RingInv.startPop {r pu po} (h : RingInv r pu po) (hpo : po = none) :
    RingInv r pu (some .ldHead) := by
  subst hpo
  exact { h with slotsInit := by simpa [pendR] using h.slotsInit,
                 slotsFree := by simpa [pendR] using h.slotsFree, popper := trivial }

theorem RingInv.abandonPop {r pu p} (h : RingInv r pu (some p)) (hp : ∀ hl v, p ≠ .stHead hl v) :
    RingInv r pu none := by
  have : pendR (some p) = 0 := by
    cases p <;> simp [pendR] ; exact absurd rfl (hp _ _)
  have h1 := h.slotsInit
  have h2 := h.slotsFree
  rw [this] at h1 h2
  exact { h with slotsInit := by simpa [pendR] using h1,
                 slotsFree := by simpa [pendR] using h2, popper := trivial }

theorem RingInv.pop_ldHead {r pu} (h : RingInv r pu (some .ldHead)) :
    RingInv r pu (some (.ldTail r.head)) :=
  { h with slotsInit := by simpa [pendR] using h.slotsInit,
           slotsFree := by simpa [pendR] using h.slotsFree, popper := rfl }

theorem pop_empty_iff {r pu hl} (h : RingInv r pu (some (.ldTail hl))) :
    hl = r.tail ↔ r.hcount = r.tcount := by
  have hh : hl = r.head := h.popper
  rw [hh, h.headEq, h.tailEq]
  exact wrapped_eq_iff h.le1 (by have := h.le2; have := h.capLt; omega)

theorem RingInv.pop_ldTail_cont {r pu hl} (h : RingInv r pu (some (.ldTail hl)))
    (hne : ¬ hl = r.tail) : RingInv r pu (some (.read hl)) := by
  have := mt (pop_empty_iff h).2 hne
  exact { h with slotsInit := by simpa [pendR] using h.slotsInit,
                 slotsFree := by simpa [pendR] using h.slotsFree,
                 popper := ⟨h.popper, by have := h.le1; omega⟩ }

/-- what `read` finds: the slot is initialised and holds the oldest queued value -/
theorem read_value {r pu hl} (h : RingInv r pu (some (.read hl))) (hw : NoWrap r) :
    ∃ v, r.log[r.hcount]? = some v ∧ r.slots (hl % r.cap) = some v ∧ hl % r.cap = r.hcount % r.cap := by
  obtain ⟨hh, hlt⟩ := h.popper
  have hidx : hl % r.cap = r.hcount % r.cap := by
    rw [hh, h.headEq]
    exact idx_count (hw.elim Or.inl (fun x => Or.inr (by omega)))
  have hlen : r.hcount < r.log.length := by have := h.logLen; omega
  refine ⟨r.log[r.hcount], List.getElem?_eq_getElem hlen, ?_, hidx⟩
  rw [hidx, h.slotsInit r.hcount (by simp [pendR]) hlen, List.getElem?_eq_getElem hlen]

theorem RingInv.pop_read {r pu hl} (h : RingInv r pu (some (.read hl))) (hw : NoWrap r) :
    RingInv (r.readSlot (hl % r.cap)).1 pu (some (.stHead hl (r.readSlot (hl % r.cap)).2)) := by
  obtain ⟨v, hv, hs, hidx⟩ := read_value h hw
  obtain ⟨hh, hlt⟩ := h.popper
  have hrs : r.readSlot (hl % r.cap) = ({ r with slots := upd r.slots (hl % r.cap) none }, v) := by
    simp [Ring.readSlot, hs]
  rw [hrs]
  have hpw : r.log.length ≤ r.hcount + r.cap := by
    have hl := h.logLen
    have hp := h.pusher
    revert hl hp
    cases pu with
    | none => simp [pendW]; have := h.le2; omega
    | some q =>
      obtain ⟨p, v'⟩ := q
      cases p <;> simp [pendW, PusherOk] <;> have := h.le2 <;> omega
  refine
    { capPos := h.capPos, capLt := h.capLt, headEq := h.headEq, tailEq := h.tailEq,
      le1 := h.le1, le2 := h.le2, logLen := h.logLen, outsEq := h.outsEq, slotsInit := ?_,
      slotsFree := ?_, noBad := h.noBad, pusher := h.pusher, popper := ⟨hh, hlt, hv⟩ }
  · intro k hk1 hk2
    dsimp only [pendR] at hk1 hk2 ⊢
    rw [hidx, upd_other _ _ _ _ (mod_ne_window' (by omega : r.hcount < k) (by omega))]
    exact h.slotsInit k (by simp [pendR]; omega) hk2
  · intro k hk1 hk2
    dsimp only [pendR] at hk1 hk2 ⊢
    by_cases hk : k = r.hcount + r.cap
    · subst hk
      rw [hidx, Nat.add_mod_right, upd_same]
    · have hlen : r.hcount < r.log.length := by have := h.logLen; omega
      rw [hidx, upd_other _ _ _ _ (mod_ne_window' (by omega : r.hcount < k) (by omega))]
      exact h.slotsFree k hk1 (by simp [pendR]; omega)

theorem RingInv.pop_stHead {r pu hl v} (h : RingInv r pu (some (.stHead hl v))) :
    RingInv (r.storeHead hl v) pu none := by
  obtain ⟨hh, hlt, hv⟩ := h.popper
  have hlen : r.hcount < r.log.length := by have := h.logLen; omega
  refine
    { capPos := h.capPos, capLt := h.capLt, headEq := ?_, tailEq := h.tailEq,
      le1 := ?_, le2 := ?_, logLen := h.logLen, outsEq := ?_, slotsInit := ?_,
      slotsFree := ?_, noBad := h.noBad, pusher := ?_, popper := trivial }
  · simp only [Ring.storeHead]; rw [hh, h.headEq]; exact winc_count _ _
  · simp only [Ring.storeHead]; omega
  · simp only [Ring.storeHead]; have := h.le2; omega
  · simp only [Ring.storeHead]
    rw [h.outsEq, List.take_add_one, hv]; rfl
  · intro k hk1 hk2
    simp only [Ring.storeHead, pendR] at hk1 hk2 ⊢
    exact h.slotsInit k (by simp [pendR]; omega) hk2
  · intro k hk1 hk2
    simp only [Ring.storeHead, pendR] at hk1 hk2 ⊢
    exact h.slotsFree k hk1 (by simp [pendR]; omega)
  · have hp := h.pusher
    revert hp
    cases pu with
    | none => exact id
    | some q =>
      obtain ⟨p, v'⟩ := q
      cases p with
      | ldTail => exact id
      | ldHead tl => exact id
      | write tl => simp only [PusherOk, Ring.storeHead]; rintro ⟨a, b⟩; exact ⟨a, by omega⟩
      | stTail tl => simp only [PusherOk, Ring.storeHead]; rintro ⟨a, b⟩; exact ⟨a, by omega⟩

end RtcModel.Spsc
