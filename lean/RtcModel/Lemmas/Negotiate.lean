/- Helper lemmas for `RtcModel.Negotiate` (C10). -/
import RtcModel.Negotiate
namespace RtcModel.Negotiate
open RtcModel.Generated

theorem firstSetupInSection_local (t : SdpType) (r : Option Bool) :
    firstSetupInSection (localSectionAttrs .webrtc t r) = some (localSetup t r) := by
  simp [localSectionAttrs, firstSetupInSection]

theorem firstSetup_localDesc (t : SdpType) (r : Option Bool) (n : Nat) (hn : 0 < n) :
    firstSetup (localDesc .webrtc t r n) = some (localSetup t r) := by
  cases n with
  | zero => omega
  | succ k => simp [localDesc, List.replicate_succ, firstSetup, firstSetupInSection_local]

theorem firstSetup_localDesc_direct (m : Mode) (hm : m ≠ .webrtc) (t : SdpType) (r : Option Bool) (n : Nat) :
    firstSetup (localDesc m t r n) = none := by
  induction n with
  | zero => simp [localDesc, firstSetup]
  | succ k ih =>
    have hs : localSectionAttrs m t r = [] := by simp [localSectionAttrs, hm]
    simp only [localDesc, List.replicate_succ, firstSetup, hs, firstSetupInSection] at *
    exact ih

/-- the answer's setup value, read back through the remote-side table, is the opposite role -/
theorem isClient_of_answer_setup (b : Bool) :
    isClientOfRemoteSetup (localSetup .answer (some b)) = !b := by
  cases b <;> simp [localSetup, isClientOfRemoteSetup]

theorem isClient_of_offer_setup (r : Option Bool) :
    isClientOfRemoteSetup (localSetup .offer r) = false := by
  simp [localSetup, isClientOfRemoteSetup]

/-- one exchange between WebRTC endpoints that have no DTLS transport yet, whatever roles earlier
descriptions left them with: the offerer ends up the DTLS client, the answerer the server (the role follows
the latest description until the transport exists) -/
theorem exchange_any (ro ra : Option Bool) (n : Nat) (hn : 0 < n) :
    exchange ⟨.webrtc, ro⟩ ⟨.webrtc, ra⟩ n = (⟨.webrtc, some true⟩, ⟨.webrtc, some false⟩) := by
  simp [exchange, Ep.setRemote, roleAfterRemote, roleAfterRemoteFull, firstSetup_localDesc _ _ n hn,
    isClient_of_offer_setup, isClient_of_answer_setup]

theorem exchange_fresh (n : Nat) (hn : 0 < n) :
    exchange ⟨.webrtc, none⟩ ⟨.webrtc, none⟩ n = (⟨.webrtc, some true⟩, ⟨.webrtc, some false⟩) :=
  exchange_any none none n hn

/-! data-channel ids -/

theorem dcAllocFrom_parity (used : List Nat) (id fuel : Nat) :
    dcAllocFrom used id fuel % 2 = id % 2 := by
  induction fuel generalizing id with
  | zero => simp [dcAllocFrom]
  | succ f ih =>
    simp only [dcAllocFrom]
    split
    · rw [ih]; simp [dcIdStep_val]
    · rfl

/-! slices -/

theorem slice_length (m : List UInt8) (a b : Nat) (h : b ≤ m.length) (hab : a ≤ b) :
    (slice m a b).length = b - a := by
  simp [slice]; omega

/-! use_srtp -/

theorem be16_flatMap_parse (l : List Nat) (hl : ∀ x ∈ l, x < 65536) (tail : List UInt8) (extra : Nat) :
    parseProfilesAux (2 * l.length + extra) (l.flatMap be16 ++ tail) =
      l ++ parseProfilesAux extra tail := by
  induction l with
  | nil => simp
  | cons x xs ih =>
    have hx : x < 65536 := hl x (by simp)
    have hxs : ∀ y ∈ xs, y < 65536 := fun y hy => hl y (by simp [hy])
    have e : 2 * (x :: xs).length + extra = (2 * xs.length + extra + 1) + 1 := by simp; omega
    rw [e]
    simp only [List.flatMap_cons, be16, List.cons_append, List.nil_append, parseProfilesAux]
    have h1 : (UInt8.ofNat (x / 256)).toNat * 256 + (UInt8.ofNat (x % 256)).toNat = x := by
      simp [UInt8.toNat_ofNat']; omega
    rw [h1]
    have e2 : 2 * xs.length + extra + 1 - 1 = 2 * xs.length + extra := by omega
    rw [e2, ih hxs]

end RtcModel.Negotiate

namespace RtcModel.Negotiate
open RtcModel.Generated

/-- number of used ids at or above `id` -/
def usedFrom (used : List Nat) (id : Nat) : Nat := (used.filter (fun x => decide (id ≤ x))).length

theorem usedFrom_le (used : List Nat) (id : Nat) : usedFrom used (id + 2) ≤ usedFrom used id := by
  induction used with
  | nil => simp [usedFrom]
  | cons x xs ih =>
    simp only [usedFrom, List.filter_cons] at *
    by_cases h1 : id + 2 ≤ x
    · have h2 : id ≤ x := by omega
      simp [h1, h2]; exact ih
    · by_cases h2 : id ≤ x
      · simp [h1, h2]; omega
      · simp [h1, h2]; exact ih

theorem usedFrom_lt (used : List Nat) (id : Nat) (h : id ∈ used) : usedFrom used (id + 2) < usedFrom used id := by
  induction used with
  | nil => simp at h
  | cons x xs ih =>
    have hle := usedFrom_le xs id
    simp only [usedFrom, List.filter_cons] at *
    rcases List.mem_cons.mp h with h | h
    · subst h
      have : ¬ (id + 2 ≤ id) := by omega
      simp [this]; omega
    · have := ih h
      by_cases h1 : id + 2 ≤ x
      · have h2 : id ≤ x := by omega
        simp [h1, h2]; exact this
      · by_cases h2 : id ≤ x
        · simp [h1, h2]; omega
        · simp [h1, h2]; exact this

/-- with enough fuel for the used ids at or above the start, the loop returns an id that is not in use -/
theorem dcAllocFrom_free (used : List Nat) (fuel id : Nat) (h : usedFrom used id < fuel) :
    dcAllocFrom used id fuel ∉ used := by
  induction fuel generalizing id with
  | zero => omega
  | succ f ih =>
    simp only [dcAllocFrom]
    split
    · rename_i hc
      have hm : id ∈ used := by simpa using hc
      have := usedFrom_lt used id hm
      rw [dcIdStep_val]
      exact ih (id + 2) (by omega)
    · rename_i hc
      simpa using hc

theorem usedFrom_le_length (used : List Nat) (id : Nat) : usedFrom used id ≤ used.length := by
  simp [usedFrom]; exact List.length_filter_le _ _

end RtcModel.Negotiate
