/- Lemmas for the SDP printer / parser model: character-level attribute round trip, `norm`, and the
line-level `parse (print d) = norm d`. -/
import RtcModel.SdpLines
import RtcModel.Lemmas.C08Text
namespace RtcModel.SdpLines
open RtcModel.Text

/-! ### attributes, character level -/

theorem Attr.fromLine_text (a : Attr) (hk : ':' ∉ a.key) : Attr.fromLine a.text = a := by
  obtain ⟨k, v⟩ := a
  cases v with
  | none => simp [Attr.text, Attr.fromLine, splitOnce_none_of_not_mem ':' k hk]
  | some v => simp [Attr.text, Attr.fromLine, splitOnce_append_of_not_mem ':' k v hk]

/-! ### norm -/

theorem filter_partition_pos (p : Attr → Bool) (l : List Attr) :
    (l.filter p ++ l.filter (fun a => !p a)).filter p = l.filter p := by
  rw [List.filter_append, List.filter_filter, List.filter_filter]
  have h1 : l.filter (fun a => p a && p a) = l.filter p := by congr 1; funext a; simp
  have h2 : l.filter (fun a => p a && !p a) = [] := by
    rw [List.filter_eq_nil_iff]; intro a _; simp
  rw [h1, h2, List.append_nil]

theorem filter_partition_neg (p : Attr → Bool) (l : List Attr) :
    (l.filter p ++ l.filter (fun a => !p a)).filter (fun a => !p a) = l.filter (fun a => !p a) := by
  rw [List.filter_append, List.filter_filter, List.filter_filter]
  have h1 : l.filter (fun a => !p a && p a) = [] := by
    rw [List.filter_eq_nil_iff]; intro a _; simp
  have h2 : l.filter (fun a => !p a && !p a) = l.filter (fun a => !p a) := by congr 1; funext a; simp
  rw [h1, h2, List.nil_append]

theorem normMedia_normMedia (m : Media) : normMedia (normMedia m) = normMedia m := by
  simp only [normMedia]
  rw [filter_partition_pos (fun a => isTransportKey a.key), filter_partition_neg (fun a => isTransportKey a.key)]

theorem norm_norm (d : Desc) : norm (norm d) = norm d := by
  simp only [norm, List.map_map]
  congr 1
  apply List.map_congr_left
  intro m _
  exact normMedia_normMedia m

/-! ### well-formedness (decidable) -/

/-- a key `apply_attribute` stores as an ordinary attribute and `from_line` splits back -/
def plainKey (k : Str) : Bool :=
  !k.contains ':' && (Dir.parse k).isNone && k != "mid".toList && k != "connection".toList

def WFMedia (m : Media) : Prop :=
  parseMLine (mLineText m) = some { m with mid := [], dir := .sendrecv, attrs := [], connection := none } ∧
  (∀ a ∈ m.attrs, plainKey a.key = true)

def WFSession (s : Session) : Prop :=
  parseU8 (natStr s.version) = some s.version ∧ Origin.parse s.origin.text = some s.origin ∧
  parseTiming (timingText s.start s.stop) = some (s.start, s.stop) ∧ (∀ a ∈ s.attrs, (a.key.contains ':') = false)

/-- Well-formed description: the `v=`/`o=`/`t=`/`m=` texts read back as written (decidable
character-level facts about this description), attribute keys contain no `:` and — inside media
sections — are not `mid`, `connection` or a direction name (which the parser folds into fields). -/
def WF (d : Desc) : Prop := WFSession d.session ∧ ∀ m ∈ d.media, WFMedia m

instance (m : Media) : Decidable (WFMedia m) := by unfold WFMedia; infer_instance
instance (s : Session) : Decidable (WFSession s) := by unfold WFSession; infer_instance
instance (d : Desc) : Decidable (WF d) := by unfold WF; infer_instance

theorem plainKey_colon {k : Str} (h : plainKey k = true) : ':' ∉ k := by
  simp only [plainKey, Bool.and_eq_true, Bool.not_eq_true'] at h
  intro hm
  have : k.contains ':' = true := by simpa using hm
  rw [this] at h; simp at h

theorem wf_normMedia (m : Media) (h : WFMedia m) : WFMedia (normMedia m) := by
  refine ⟨h.1, ?_⟩
  intro a ha
  simp only [normMedia, List.mem_append, List.mem_filter] at ha
  rcases ha with ha | ha <;> exact h.2 a ha.1

theorem wf_norm (d : Desc) (h : WF d) : WF (norm d) := by
  refine ⟨h.1, ?_⟩
  intro m hm
  simp only [norm, List.mem_map] at hm
  obtain ⟨m', hm', rfl⟩ := hm
  exact wf_normMedia m' (h.2 m' hm')

/-! ### parsing what the printer wrote -/

theorem parseLines_append (st : PState) (a b : List Line) :
    parseLines st (a ++ b) = (match parseLines st a with
      | .ok st' => parseLines st' b
      | .error e => .error e) := by
  induction a generalizing st with
  | nil => simp [parseLines]
  | cons l ls ih =>
    simp only [List.cons_append, parseLines]
    cases parseLine st l with
    | ok st' => exact ih st'
    | error e => rfl

/-! single lines -/

theorem parseLine_a_session (sess : Session) (done : List Media) (v o n t : Bool) (a : Attr) (hk : ':' ∉ a.key) :
    parseLine ⟨sess, none, done, v, o, n, t⟩ (aLine a) =
      .ok ⟨{ sess with attrs := sess.attrs ++ [a] }, none, done, v, o, n, t⟩ := by
  simp [parseLine, aLine, Attr.fromLine_text a hk]

theorem parseLine_a_media (sess : Session) (m : Media) (done : List Media) (v o n t : Bool) (a : Attr) (hk : ':' ∉ a.key) :
    parseLine ⟨sess, some m, done, v, o, n, t⟩ (aLine a) = .ok ⟨sess, some (applyAttr m a), done, v, o, n, t⟩ := by
  simp [parseLine, aLine, Attr.fromLine_text a hk]

theorem parseLine_c_media (sess : Session) (m : Media) (done : List Media) (v o n t : Bool) (c : Str) :
    parseLine ⟨sess, some m, done, v, o, n, t⟩ ⟨['c'], c⟩ =
      .ok ⟨sess, some { m with connection := some c }, done, v, o, n, t⟩ := by
  simp [parseLine]

theorem parseLine_m (sess : Session) (cur : Option Media) (done : List Media) (v o n t : Bool) (txt : Str) (m : Media)
    (h : parseMLine txt = some m) :
    parseLine ⟨sess, cur, done, v, o, n, t⟩ ⟨['m'], txt⟩ =
      .ok ⟨sess, some m, (match cur with | some c => done ++ [c] | none => done), v, o, n, t⟩ := by
  cases cur <;> simp [parseLine, h]

theorem applyAttr_plain (m : Media) (a : Attr) (h : plainKey a.key = true) :
    applyAttr m a = { m with attrs := m.attrs ++ [a] } := by
  unfold plainKey at h
  rw [Bool.and_eq_true, Bool.and_eq_true, Bool.and_eq_true] at h
  obtain ⟨⟨⟨_, h2⟩, h3⟩, h4⟩ := h
  have h2' : Dir.parse a.key = none := Option.isNone_iff_eq_none.mp h2
  have h3' : ¬ a.key = "mid".toList := bne_iff_ne.mp h3
  have h4' : ¬ a.key = "connection".toList := bne_iff_ne.mp h4
  unfold applyAttr
  rw [h2']
  dsimp only
  rw [if_neg h3', if_neg h4']

/-- session-level attribute lines are appended to the session attributes -/
theorem parse_session_attrs (sess : Session) (done : List Media) (v o n t : Bool) (as : List Attr)
    (hk : ∀ a ∈ as, (a.key.contains ':') = false) :
    parseLines ⟨sess, none, done, v, o, n, t⟩ (as.map aLine) =
      .ok ⟨{ sess with attrs := sess.attrs ++ as }, none, done, v, o, n, t⟩ := by
  induction as generalizing sess with
  | nil => simp [parseLines]
  | cons a rest ih =>
    have hka : ':' ∉ a.key := by
      have := hk a (by simp); intro hm; simp [hm] at this
    simp only [List.map_cons, parseLines, parseLine_a_session _ _ _ _ _ _ a hka]
    rw [ih _ (fun b hb => hk b (by simp [hb]))]
    simp [List.append_assoc]

/-- plain attribute lines inside a media section are appended to its attributes -/
theorem parse_media_attrs (sess : Session) (m : Media) (done : List Media) (v o n t : Bool) (as : List Attr)
    (hk : ∀ a ∈ as, plainKey a.key = true) :
    parseLines ⟨sess, some m, done, v, o, n, t⟩ (as.map aLine) =
      .ok ⟨sess, some { m with attrs := m.attrs ++ as }, done, v, o, n, t⟩ := by
  induction as generalizing m with
  | nil => simp [parseLines]
  | cons a rest ih =>
    have hp := hk a (by simp)
    simp only [List.map_cons, parseLines, parseLine_a_media _ _ _ _ _ _ _ a (plainKey_colon hp), applyAttr_plain m a hp]
    rw [ih _ (fun b hb => hk b (by simp [hb]))]
    simp [List.append_assoc]

theorem filter_plain (l : List Attr) (h : ∀ a ∈ l, plainKey a.key = true) (p : Attr → Bool) :
    ∀ a ∈ l.filter p, plainKey a.key = true := fun a ha => h a (List.mem_filter.mp ha).1

theorem applyAttr_dir (m1 : Media) (d : Dir) : applyAttr m1 ⟨d.str, none⟩ = { m1 with dir := d } := by
  have hdp : Dir.parse d.str = some d := by cases d <;> decide
  unfold applyAttr
  rw [hdp]

theorem dir_line (sess : Session) (m1 : Media) (done : List Media) (v o n t : Bool) (d : Dir) :
    parseLine ⟨sess, some m1, done, v, o, n, t⟩ ⟨['a'], d.str⟩ = .ok ⟨sess, some { m1 with dir := d }, done, v, o, n, t⟩ := by
  have hfl : Attr.fromLine d.str = ⟨d.str, none⟩ := by cases d <;> decide
  have := parseLine_a_media sess m1 done v o n t ⟨d.str, none⟩ (by cases d <;> decide)
  simp only [aLine, Attr.text] at this
  rw [this, applyAttr_dir]

theorem applyAttr_mid (m1 : Media) (mid : Str) : applyAttr m1 ⟨"mid".toList, some mid⟩ = { m1 with mid := mid } := by
  have hd : Dir.parse "mid".toList = none := by decide
  unfold applyAttr
  rw [hd]
  dsimp only
  rw [if_pos rfl]

theorem mid_line (sess : Session) (m1 : Media) (done : List Media) (v o n t : Bool) (mid : Str) :
    parseLine ⟨sess, some m1, done, v, o, n, t⟩ ⟨['a'], "mid:".toList ++ mid⟩ =
      .ok ⟨sess, some { m1 with mid := mid }, done, v, o, n, t⟩ := by
  have hk : ':' ∉ "mid".toList := by decide
  have := parseLine_a_media sess m1 done v o n t ⟨"mid".toList, some mid⟩ hk
  have e : (aLine ⟨"mid".toList, some mid⟩) = ⟨['a'], "mid:".toList ++ mid⟩ := by
    simp only [aLine, Attr.text]; rfl
  rw [e] at this
  rw [this, applyAttr_mid]

/-- one printed media section: the previous section is closed, the new one is read back normalised -/
theorem parse_printMedia (sess : Session) (cur : Option Media) (done : List Media) (v o n t : Bool) (m : Media)
    (h : WFMedia m) :
    parseLines ⟨sess, cur, done, v, o, n, t⟩ (printMedia m) =
      .ok ⟨sess, some (normMedia m), (match cur with | some c => done ++ [c] | none => done), v, o, n, t⟩ := by
  obtain ⟨hm, hattrs⟩ := h
  obtain ⟨kind, mid, port, proto, formats, dir, attrs, connection⟩ := m
  simp only at hm hattrs
  unfold printMedia
  simp only [List.append_assoc, List.cons_append, List.nil_append, parseLines,
    parseLine_m _ _ _ _ _ _ _ _ _ hm]
  generalize (match cur with | some c => done ++ [c] | none => done) = done'
  cases connection with
  | none =>
    simp only [List.nil_append]
    rw [parseLines_append, parse_media_attrs _ _ _ _ _ _ _ _ (filter_plain attrs hattrs _)]
    by_cases hmid : mid.isEmpty = true
    · have hme : mid = [] := by simpa using hmid
      subst hme
      simp only [List.isEmpty_nil, if_true, List.nil_append, parseLines, dir_line]
      rw [parse_media_attrs _ _ _ _ _ _ _ _ (filter_plain attrs hattrs _)]
      simp [normMedia]
    · simp only [hmid, Bool.false_eq_true, if_false, List.cons_append, List.nil_append,
        parseLines, mid_line, dir_line]
      rw [parse_media_attrs _ _ _ _ _ _ _ _ (filter_plain attrs hattrs _)]
      simp [normMedia]
  | some c =>
    simp only [List.singleton_append, List.cons_append, List.nil_append, parseLines, parseLine_c_media]
    rw [parseLines_append, parse_media_attrs _ _ _ _ _ _ _ _ (filter_plain attrs hattrs _)]
    by_cases hmid : mid.isEmpty = true
    · have hme : mid = [] := by simpa using hmid
      subst hme
      simp only [List.isEmpty_nil, if_true, List.nil_append, parseLines, dir_line]
      rw [parse_media_attrs _ _ _ _ _ _ _ _ (filter_plain attrs hattrs _)]
      simp [normMedia]
    · simp only [hmid, Bool.false_eq_true, if_false, List.cons_append, List.nil_append,
        parseLines, mid_line, dir_line]
      rw [parse_media_attrs _ _ _ _ _ _ _ _ (filter_plain attrs hattrs _)]
      simp [normMedia]

/-- the session block -/
theorem parse_printSession (s : Session) (h : WFSession s) :
    parseLines PState.init (printSession s) = .ok ⟨s, none, [], true, true, true, true⟩ := by
  obtain ⟨hv, ho, ht, ha⟩ := h
  obtain ⟨version, origin, name, start, stop, connection, attrs⟩ := s
  simp only at hv ho ht ha
  unfold printSession PState.init Session.default
  simp only [List.append_assoc, List.cons_append, List.nil_append, parseLines]
  have l1 : ∀ (sess : Session) (c : Option Media) (d : List Media) (a b e f : Bool),
      parseLine ⟨sess, c, d, a, b, e, f⟩ ⟨['v'], natStr version⟩ = .ok ⟨{ sess with version := version }, c, d, true, b, e, f⟩ := by
    intro sess c d a b e f; simp [parseLine, hv]
  have l2 : ∀ (sess : Session) (c : Option Media) (d : List Media) (a b e f : Bool),
      parseLine ⟨sess, c, d, a, b, e, f⟩ ⟨['o'], origin.text⟩ = .ok ⟨{ sess with origin := origin }, c, d, a, true, e, f⟩ := by
    intro sess c d a b e f; simp [parseLine, ho]
  have l3 : ∀ (sess : Session) (c : Option Media) (d : List Media) (a b e f : Bool),
      parseLine ⟨sess, c, d, a, b, e, f⟩ ⟨['s'], name⟩ = .ok ⟨{ sess with name := name }, c, d, a, b, true, f⟩ := by
    intro sess c d a b e f; simp [parseLine]
  have l4 : ∀ (sess : Session) (c : Option Media) (d : List Media) (a b e f : Bool),
      parseLine ⟨sess, c, d, a, b, e, f⟩ ⟨['t'], timingText start stop⟩ =
        .ok ⟨{ sess with start := start, stop := stop }, c, d, a, b, e, true⟩ := by
    intro sess c d a b e f; simp [parseLine, ht]
  have l5 : ∀ (sess : Session) (d : List Media) (a b e f : Bool) (cv : Str),
      parseLine ⟨sess, none, d, a, b, e, f⟩ ⟨['c'], cv⟩ = .ok ⟨{ sess with connection := some cv }, none, d, a, b, e, f⟩ := by
    intro sess d a b e f cv; simp [parseLine]
  simp only [l1, l2, l3]
  cases connection with
  | none =>
    simp only [List.nil_append, parseLines, l4]
    rw [parse_session_attrs _ _ _ _ _ _ _ ha]
    simp
  | some cv =>
    simp only [List.cons_append, List.nil_append, parseLines, l5, l4]
    rw [parse_session_attrs _ _ _ _ _ _ _ ha]
    simp

def optList (c : Option Media) : List Media := match c with | some m => [m] | none => []

/-- all media blocks -/
theorem parse_media_list (sess : Session) (v o n t : Bool) (ms : List Media) (h : ∀ m ∈ ms, WFMedia m)
    (cur : Option Media) (done : List Media) :
    ∃ cur' done', parseLines ⟨sess, cur, done, v, o, n, t⟩ (ms.flatMap printMedia) = .ok ⟨sess, cur', done', v, o, n, t⟩ ∧
      done' ++ optList cur' = done ++ optList cur ++ ms.map normMedia := by
  induction ms generalizing cur done with
  | nil => exact ⟨cur, done, by simp [parseLines], by simp⟩
  | cons m rest ih =>
    simp only [List.flatMap_cons, parseLines_append, parse_printMedia _ _ _ _ _ _ _ m (h m (by simp))]
    obtain ⟨cur', done', hp, he⟩ := ih (fun x hx => h x (by simp [hx])) (some (normMedia m))
      (match cur with | some c => done ++ [c] | none => done)
    refine ⟨cur', done', hp, ?_⟩
    rw [he]
    cases cur <;> simp [optList]

theorem finish_ok (sess : Session) (cur' : Option Media) (done' : List Media) :
    finish ⟨sess, cur', done', true, true, true, true⟩ = .ok ⟨sess, done' ++ optList cur'⟩ := by
  cases cur' <;> simp [finish, optList]

theorem parse_print (d : Desc) (h : WF d) : parse (print d) = .ok (norm d) := by
  unfold parse print
  rw [parseLines_append, parse_printSession d.session h.1]
  obtain ⟨cur', done', hp, he⟩ := parse_media_list d.session true true true true d.media h.2 none []
  simp only [hp]
  rw [finish_ok, he]
  simp [optList, norm]

/-! ### character level: `o=`, `t=`, `m=` read back as written -/

theorem parseU64_natStr (n : Nat) (h : n < 18446744073709551616) : parseU64 (natStr n) = some n :=
  parseUnsigned_natStr _ n h

theorem kind_tok (k : Kind) : IsTok k.str := by cases k <;> decide
theorem kind_parse_str (k : Kind) : Kind.parse k.str = some k := by cases k <;> decide

/-- **origin_roundtrip** (character level) — `Origin::parse` reads back what the printer writes for every
origin whose user name and address are non-empty and free of white space and whose ids fit `u64`. -/
theorem origin_roundtrip (o : Origin) (hu : IsTok o.username) (ha : IsTok o.address)
    (h1 : o.sessionId < 18446744073709551616) (h2 : o.sessionVersion < 18446744073709551616) :
    Origin.parse o.text = some o := by
  obtain ⟨u, sid, sv, v6, addr⟩ := o
  simp only at hu ha h1 h2
  have htext : Origin.text ⟨u, sid, sv, v6, addr⟩ =
      join [' '] [u, natStr sid, natStr sv, "IN".toList, (if v6 then "IP6".toList else "IP4".toList), addr] := by
    simp [Origin.text, join, sp, List.append_assoc]
  have htok : ∀ t ∈ [u, natStr sid, natStr sv, "IN".toList, (if v6 then "IP6".toList else "IP4".toList), addr], IsTok t := by
    intro t ht
    simp only [List.mem_cons, List.mem_nil_iff, or_false] at ht
    rcases ht with h | h | h | h | h | h <;> subst h
    · exact hu
    · exact natStr_tok _
    · exact natStr_tok _
    · decide
    · cases v6 <;> decide
    · exact ha
  unfold Origin.parse
  rw [htext, splitWs_join _ htok]
  simp only [parseU64_natStr sid h1, parseU64_natStr sv h2]
  have e1 : upperAscii 'I' = 'I' := by decide
  have e2 : upperAscii 'P' = 'P' := by decide
  have e3 : upperAscii '4' = '4' := by decide
  have e4 : upperAscii '6' = '6' := by decide
  cases v6 <;> simp [e1, e2, e3, e4]

/-- **timing_roundtrip** (character level) -/
theorem timing_roundtrip (a b : Nat) (ha : a < 18446744073709551616) (hb : b < 18446744073709551616) :
    parseTiming (timingText a b) = some (a, b) := by
  have htext : timingText a b = join [' '] [natStr a, natStr b] := by simp [timingText, join, sp]
  unfold parseTiming
  rw [htext, splitWs_join _ (by intro t ht; simp at ht; rcases ht with h | h <;> subst h <;> exact natStr_tok _)]
  simp [parseU64_natStr a ha, parseU64_natStr b hb]

/-- **mline_roundtrip** (character level) — `MediaSection::from_m_line` reads back the printed m-line of
every section with a `u16` port, a token protocol and a non-empty list of token formats. -/
theorem mline_roundtrip (m : Media) (hp : m.port < 65536) (hproto : IsTok m.proto) (hne : m.formats ≠ [])
    (hf : ∀ f ∈ m.formats, IsTok f) :
    parseMLine (mLineText m) = some { m with mid := [], dir := .sendrecv, attrs := [], connection := none } := by
  obtain ⟨kind, mid, port, proto, formats, dir, attrs, connection⟩ := m
  simp only at hp hproto hne hf
  cases formats with
  | nil => exact absurd rfl hne
  | cons f fs =>
    have htext : mLineText ⟨kind, mid, port, proto, f :: fs, dir, attrs, connection⟩ =
        join [' '] (kind.str :: natStr port :: proto :: f :: fs) := by
      simp [mLineText, join, sp, List.append_assoc]
    have htok : ∀ t ∈ kind.str :: natStr port :: proto :: f :: fs, IsTok t := by
      intro t ht
      simp only [List.mem_cons] at ht
      rcases ht with h | h | h | h | h
      · subst h; exact kind_tok _
      · subst h; exact natStr_tok _
      · subst h; exact hproto
      · subst h; exact hf _ (by simp)
      · exact hf _ (by simp [h])
    unfold parseMLine
    rw [htext, splitWs_join _ htok]
    simp [kind_parse_str, parseU16, parseUnsigned_natStr 65536 port hp]

/-! ### structural well-formedness ⇒ `WF` -/

def WFMedia' (m : Media) : Prop :=
  m.port < 65536 ∧ IsTok m.proto ∧ m.formats ≠ [] ∧ (∀ f ∈ m.formats, IsTok f) ∧
  (∀ a ∈ m.attrs, plainKey a.key = true)

def WFSession' (s : Session) : Prop :=
  s.version < 256 ∧ IsTok s.origin.username ∧ IsTok s.origin.address ∧
  s.origin.sessionId < 18446744073709551616 ∧ s.origin.sessionVersion < 18446744073709551616 ∧
  s.start < 18446744073709551616 ∧ s.stop < 18446744073709551616 ∧
  (∀ a ∈ s.attrs, (a.key.contains ':') = false)

/-- Structural well-formedness: numeric fields in range (`u8` version, `u16` ports, `u64` ids and
times), user name / address / protocol / formats are non-empty and free of white space, at least one
format per section, attribute keys as in `WF`. -/
def WF' (d : Desc) : Prop := WFSession' d.session ∧ ∀ m ∈ d.media, WFMedia' m

instance (d : Desc) : Decidable (WF' d) := by unfold WF' WFSession' WFMedia'; infer_instance

theorem wf_of_structural (d : Desc) (h : WF' d) : WF d := by
  obtain ⟨⟨hv, hu, ha, h1, h2, h3, h4, hk⟩, hm⟩ := h
  refine ⟨⟨?_, origin_roundtrip _ hu ha h1 h2, timing_roundtrip _ _ h3 h4, hk⟩, ?_⟩
  · exact parseUnsigned_natStr 256 _ hv
  · intro m hmm
    obtain ⟨hp, hproto, hne, hf, hattrs⟩ := hm m hmm
    exact ⟨mline_roundtrip m hp hproto hne hf, hattrs⟩

/-! ### text framing (`\r\n`, `lines()`, `trim()`, `split_once('=')`) -/

theorem splitOnAux_piece (sep : Char) (t rest cur : Str) (acc : List Str) (h : sep ∉ t) :
    splitOnAux sep (t ++ rest) cur acc = splitOnAux sep rest (t.reverse ++ cur) acc := by
  induction t generalizing cur with
  | nil => rfl
  | cons c cs ih =>
    have hc : c ≠ sep := fun e => h (by simp [e])
    have hcs : sep ∉ cs := fun e => h (by simp [e])
    simp only [List.cons_append, splitOnAux, hc, if_false]
    rw [ih _ hcs]
    simp

def lineBody (l : Line) : Str := l.pre ++ '=' :: l.value

/-- a printed line survives the text framing: no line break inside, no `=` in the prefix, no white
space at either end -/
def LineOK (l : Line) : Prop :=
  '\n' ∉ l.pre ∧ '\n' ∉ l.value ∧ '=' ∉ l.pre ∧ trim (lineBody l) = lineBody l

instance (l : Line) : Decidable (LineOK l) := by unfold LineOK; infer_instance

theorem splitOnAux_printText (ls : List Line) (acc : List Str) (h : ∀ l ∈ ls, LineOK l) :
    splitOnAux '\n' (printText ls) [] acc = acc.reverse ++ ls.map (fun l => lineBody l ++ ['\r']) ++ [[]] := by
  induction ls generalizing acc with
  | nil => simp [printText, splitOnAux]
  | cons l rest ih =>
    obtain ⟨h1, h2, _, _⟩ := h l (by simp)
    have hnl : '\n' ∉ (lineBody l ++ ['\r']) := by
      simp only [lineBody, List.mem_append, List.mem_cons, not_or, List.mem_nil_iff, or_false]
      refine ⟨⟨h1, by decide, h2⟩, by decide⟩
    have e : printText (l :: rest) = (lineBody l ++ ['\r']) ++ ('\n' :: printText rest) := by
      simp [printText, lineBody, List.append_assoc]
    rw [e, splitOnAux_piece '\n' _ _ [] acc hnl]
    simp only [List.append_nil, splitOnAux, if_true, List.reverse_reverse]
    rw [ih _ (fun x hx => h x (by simp [hx]))]
    simp

theorem textLines_printText (ls : List Line) (h : ∀ l ∈ ls, LineOK l) :
    textLines (printText ls) = ls.map lineBody := by
  unfold textLines splitOn
  rw [splitOnAux_printText ls [] h]
  simp only [List.reverse_nil, List.nil_append, List.reverse_append, List.reverse_cons]
  simp only [List.singleton_append, List.reverse_reverse, List.map_map]
  apply List.map_congr_left
  intro l _
  simp [Function.comp]

theorem linesOfText_printText (ls : List Line) (h : ∀ l ∈ ls, LineOK l) :
    linesOfText (printText ls) = some ls := by
  unfold linesOfText
  rw [textLines_printText ls h]
  induction ls with
  | nil => rfl
  | cons l rest ih =>
    obtain ⟨_, _, h3, h4⟩ := h l (by simp)
    have hne : (lineBody l).isEmpty = false := by simp [lineBody]
    simp only [List.map_cons, h4, List.filter_cons, hne, Bool.not_false, if_true, List.mapM_cons]
    have hs : splitOnce '=' (lineBody l) = some (l.pre, l.value) := splitOnce_append_of_not_mem '=' _ _ h3
    rw [hs]
    have ih' := ih (fun x hx => h x (by simp [hx]))
    simp only [List.map_map] at ih' ⊢
    simp [ih']

theorem parseText_printText (ls : List Line) (h : ∀ l ∈ ls, LineOK l) :
    parseText (printText ls) = parse ls := by
  unfold parseText
  rw [linesOfText_printText ls h]


end RtcModel.SdpLines
