/-
The credential check of the fixed code (`stun_request_authenticated`) against the specification
`Credentials`: soundness for all byte strings, completeness for all conforming requests. Core Lean only.
-/
import RtcModel.Lemmas.IceAuth
import RtcModel.Lemmas.StunRfc
namespace RtcModel.IceAuth
open RtcModel.Stun RtcModel.StunRfc RtcModel.IcePrio RtcModel.C16Bytes RtcModel.Generated

/-- `off` is an attribute boundary of `pkt`: reached from offset 20 by stepping over complete attributes
(4-byte header, value, padding to a multiple of 4) -/
inductive Boundary (pkt : Bytes) : Nat → List Nat → Prop
  | start : Boundary pkt 20 []
  | next {off : Nat} {sk : List Nat} {t0 t1 l0 l1 : UInt8} {body : Bytes} :
      Boundary pkt off sk → pkt.drop off = t0 :: t1 :: l0 :: l1 :: body → rd16 l0 l1 ≤ body.length →
      Boundary pkt (off + 4 + rd16 l0 l1 + pad4 (rd16 l0 l1)) (sk ++ [rd16 t0 t1])

/-- the FIRST attribute of type `t` in the message is at boundary `off` and has value `v` (the boundary is
reached from the header over attributes none of which has type `t`) -/
def AttrAt (pkt : Bytes) (off t : Nat) (v : Bytes) : Prop :=
  (∃ sk, Boundary pkt off sk ∧ t ∉ sk) ∧ ∃ t0 t1 l0 l1 body, pkt.drop off = t0 :: t1 :: l0 :: l1 :: body ∧ rd16 t0 t1 = t ∧
    rd16 l0 l1 = v.length ∧ v.length ≤ body.length ∧ body.take v.length = v

/-- **the credentials of RFC 8445 §7.3**: the FIRST USERNAME attribute is `<ufrag>:…` and the FIRST
MESSAGE-INTEGRITY attribute has as its 20-byte value HMAC(pwd, message up to the attribute with the length
field pointing to its end). Weaker than the RFC in one respect, because the code is: USERNAME is not required
to precede MESSAGE-INTEGRITY (i.e. to be covered by the HMAC) — layout `mi-before-username` of the harness is
accepted; this needs a valid HMAC under the local password and is therefore no forgery. The peer half of the
USERNAME is unconstrained (the agent does not know it before the answer arrives). -/
def Credentials (P : Prims) (ufrag pwd pkt : Bytes) : Prop :=
  (∃ off u tail, AttrAt pkt off 6 u ∧ u = ufrag ++ 58 :: tail) ∧
  (∃ off mac, AttrAt pkt off 8 mac ∧ mac.length = 20 ∧ mac = P.hmac pwd (withLength (pkt.take off) (off - 20 + 24)))

theorem Boundary.ge20 {pkt : Bytes} {off : Nat} {sk : List Nat} (hb : Boundary pkt off sk) : 20 ≤ off := by
  induction hb with
  | start => exact Nat.le_refl _
  | next _ _ _ ih => omega

theorem drop_step {pkt : Bytes} {off : Nat} {a b c d : UInt8} {body : Bytes} (h : pkt.drop off = a :: b :: c :: d :: body)
    (n : Nat) : pkt.drop (off + 4 + n) = body.drop n := by
  have : pkt.drop (off + 4) = body := by
    rw [← List.drop_drop, h]; rfl
  rw [show off + 4 + n = (off + 4) + n by rfl, ← List.drop_drop, this]

theorem writeLen_eq_withLength (b : Bytes) (n : Nat) (h : 4 ≤ b.length) : writeLen b n = withLength b n := by
  match b, h with
  | a :: b' :: c :: d :: rest, _ => simp [writeLen, withLength, be16]

theorem verifyLoop_sound (P : Prims) (key pkt : Bytes) (off : Nat) (rest : Bytes) :
    pkt.drop off = rest → (∃ sk, Boundary pkt off sk ∧ 8 ∉ sk) → verifyLoop P key pkt off rest = true →
      ∃ off' mac, AttrAt pkt off' 8 mac ∧ mac.length = 20 ∧ mac = P.hmac key (writeLen (pkt.take off') (off' - 20 + 24)) := by
  fun_induction verifyLoop P key pkt off rest with
  | case1 off t0 t1 l0 l1 body hlen => intro _ _ hv; simp at hv
  | case2 off t0 t1 l0 l1 body hlen ht =>
    intro hd hb hv
    simp only [Bool.and_eq_true, decide_eq_true_eq] at hv
    refine ⟨off, body.take 20, ⟨hb, t0, t1, l0, l1, body, hd, ht, ?_, ?_, ?_⟩, ?_, hv.2⟩
    · simp [hv.1]; omega
    · simp; omega
    · simp
    · simp; omega
  | case3 off t0 t1 l0 l1 body hlen ht ih =>
    intro hd hb hv
    have hd' := drop_step hd (rd16 l0 l1 + pad4 (rd16 l0 l1))
    obtain ⟨sk, hsk, hn8⟩ := hb
    exact ih (by rw [← hd']; congr 1; omega) ⟨_, Boundary.next hsk hd (by omega), by simp [hn8, Ne.symm ht]⟩ hv
  | case4 off rest hne => intro _ _ hv; simp at hv


theorem usernameLoop_sound (pkt : Bytes) (off : Nat) (rest : Bytes) (o : Nat) (u : Bytes) :
    pkt.drop off = rest → (∃ sk, Boundary pkt off sk ∧ 6 ∉ sk) → usernameLoop off rest = some (o, u) → AttrAt pkt o 6 u := by
  fun_induction usernameLoop off rest with
  | case1 off t0 t1 l0 l1 body hlen => intro _ _ hv; simp at hv
  | case2 off t0 t1 l0 l1 body hlen ht hu =>
    intro hd hb hv
    simp only [Option.some.injEq, Prod.mk.injEq] at hv
    obtain ⟨rfl, rfl⟩ := hv
    refine ⟨hb, t0, t1, l0, l1, body, hd, ht, ?_, ?_, ?_⟩
    · simp; omega
    · simp; omega
    · simp
  | case3 off t0 t1 l0 l1 body hlen ht hu => intro _ _ hv; simp at hv
  | case4 off t0 t1 l0 l1 body hlen ht ih =>
    intro hd hb hv
    have hd' := drop_step hd (rd16 l0 l1 + pad4 (rd16 l0 l1))
    obtain ⟨sk, hsk, hn6⟩ := hb
    exact ih (by rw [← hd']; congr 1; omega) ⟨_, Boundary.next hsk hd (by omega), by simp [hn6, Ne.symm ht]⟩ hv
  | case5 off rest hne => intro _ _ hv; simp at hv

theorem takeWhile_split (l : Bytes) (h : (58 : UInt8) ∈ l) :
    ∃ tail, l = l.takeWhile (fun x => decide (x ≠ 58)) ++ 58 :: tail := by
  induction l with
  | nil => simp at h
  | cons x xs ih =>
    by_cases hx : x = 58
    · subst hx; exact ⟨xs, by simp⟩
    · have hm : (58 : UInt8) ∈ xs := by
        simp only [List.mem_cons] at h
        rcases h with h | h
        · exact absurd h.symm hx
        · exact h
      obtain ⟨tail, ht⟩ := ih hm
      refine ⟨tail, ?_⟩
      simp only [List.takeWhile_cons, ne_eq, hx, not_false_eq_true, decide_true, ↓reduceIte, List.cons_append]
      rw [← ht]

theorem oursIs_split (u ufrag : Bytes) (h : oursIs u ufrag = true) : ∃ tail, u = ufrag ++ 58 :: tail := by
  simp only [oursIs, Bool.and_eq_true, List.contains_iff_mem, decide_eq_true_eq] at h
  obtain ⟨hm, ht⟩ := h
  obtain ⟨tail, hs⟩ := takeWhile_split u hm
  exact ⟨tail, by rw [← ht]; exact hs⟩

/-- **soundness of the code's check**: whenever `stun_request_authenticated` says yes, the datagram
really carries the session's credentials. -/
theorem codeAuth_sound (P : Prims) (ufrag pwd pkt : Bytes) (h : codeAuth P ufrag pwd pkt = true) :
    Credentials P ufrag pwd pkt := by
  unfold codeAuth at h
  split at h
  · rename_i o u hu
    simp only [Bool.and_eq_true] at h
    obtain ⟨ho, hv⟩ := h
    obtain ⟨tail, ht⟩ := oursIs_split u ufrag ho
    constructor
    · -- USERNAME
      unfold usernameOf at hu
      split at hu
      · split at hu
        · simp at hu
        · split at hu
          · simp at hu
          · exact ⟨o, u, tail, usernameLoop_sound _ 20 _ o u rfl ⟨[], Boundary.start, by simp⟩ hu, ht⟩
      · simp at hu
    · -- MESSAGE-INTEGRITY
      obtain ⟨off', mac, hat, hl, hm⟩ := verifyLoop_sound P pwd pkt 20 _ rfl ⟨[], Boundary.start, by simp⟩ hv
      refine ⟨off', mac, hat, hl, ?_⟩
      obtain ⟨sk0, hb0, _⟩ := hat.1
      have h20 : 20 ≤ off' := hb0.ge20
      have hlen : off' + 4 ≤ pkt.length := by
        obtain ⟨_, t0, t1, l0, l1, body, hd, _⟩ := hat
        have := congrArg List.length hd
        simp only [List.length_drop, List.length_cons] at this
        omega
      rw [hm, writeLen_eq_withLength _ _ (by simp; omega)]
  · simp at h


/-! ### completeness: genuine checks are accepted -/

theorem usernameLoop_skip (off t : Nat) (v rest : Bytes) (ht : t < 65536) (hv : v.length < 65536) (h6 : t ≠ 6) :
    usernameLoop off (tlv t v ++ rest) = usernameLoop (off + 4 + v.length + pad4 v.length) rest := by
  simp only [tlv, be16, List.cons_append, List.nil_append, List.append_assoc]
  rw [usernameLoop]
  simp only [rd16_be16 ht, rd16_be16 hv]
  have h1 : ¬ v.length > (v ++ (zeros (pad4 v.length) ++ rest)).length := by simp
  have h3 : (v ++ (zeros (pad4 v.length) ++ rest)).drop (v.length + pad4 v.length) = rest := by
    rw [← List.append_assoc]
    exact drop_append_len (by simp : (v ++ zeros (pad4 v.length)).length = v.length + pad4 v.length)
  simp only [h1, ↓reduceIte, h6, h3]

theorem usernameLoop_hit (off : Nat) (u rest : Bytes) (hv : u.length < 65536) (hu : validUtf8 u = true) :
    usernameLoop off (tlv 6 u ++ rest) = some (off, u) := by
  simp only [tlv, be16, List.cons_append, List.nil_append, List.append_assoc]
  rw [usernameLoop]
  have h6 : rd16 (UInt8.ofNat (6 / 256)) (UInt8.ofNat 6) = 6 := by decide
  simp only [h6, rd16_be16 hv]
  have h1 : ¬ u.length > (u ++ (zeros (pad4 u.length) ++ rest)).length := by simp
  have h2 : (u ++ (zeros (pad4 u.length) ++ rest)).take u.length = u := take_append_len rfl
  simp [h1, h2, hu]

theorem usernameLoop_flat (off : Nat) (pre : List (Nat × Bytes)) (u rest : Bytes)
    (hb : ∀ p ∈ pre, p.1 < 65536 ∧ p.2.length < 65536 ∧ p.1 ≠ 6) (hv : u.length < 65536) (hu : validUtf8 u = true) :
    usernameLoop off (flat pre ++ (tlv 6 u ++ rest)) = some (off + (flat pre).length, u) := by
  induction pre generalizing off with
  | nil => simp [flat, usernameLoop_hit off u rest hv hu]
  | cons p ps ih =>
    obtain ⟨t, v⟩ := p
    have hp := hb (t, v) (by simp)
    simp only [flat, List.map_cons, List.flatten_cons, List.append_assoc] at *
    rw [usernameLoop_skip off t v _ hp.1 hp.2.1 hp.2.2, ih _ (fun q hq => hb q (by simp [hq]))]
    simp only [List.length_append, tlv_length]
    congr 2; omega

theorem verifyLoop_skip (P : Prims) (key pkt : Bytes) (off t : Nat) (v rest : Bytes) (ht : t < 65536)
    (hv : v.length < 65536) (h8 : t ≠ 8) :
    verifyLoop P key pkt off (tlv t v ++ rest) = verifyLoop P key pkt (off + 4 + v.length + pad4 v.length) rest := by
  simp only [tlv, be16, List.cons_append, List.nil_append, List.append_assoc]
  rw [verifyLoop]
  simp only [rd16_be16 ht, rd16_be16 hv]
  have h1 : ¬ v.length > (v ++ (zeros (pad4 v.length) ++ rest)).length := by simp
  have h3 : (v ++ (zeros (pad4 v.length) ++ rest)).drop (v.length + pad4 v.length) = rest := by
    rw [← List.append_assoc]
    exact drop_append_len (by simp : (v ++ zeros (pad4 v.length)).length = v.length + pad4 v.length)
  simp only [h1, ↓reduceIte, h8, h3]

theorem verifyLoop_hit (P : Prims) (key pkt : Bytes) (off : Nat) (mac rest : Bytes) (hl : mac.length = 20) :
    verifyLoop P key pkt off (tlv 8 mac ++ rest) = decide (mac = P.hmac key (writeLen (pkt.take off) (off - 20 + 24))) := by
  simp only [tlv, be16, List.cons_append, List.nil_append, List.append_assoc]
  rw [verifyLoop]
  have h8 : rd16 (UInt8.ofNat (8 / 256)) (UInt8.ofNat 8) = 8 := by decide
  have h20 : rd16 (UInt8.ofNat (mac.length / 256)) (UInt8.ofNat mac.length) = 20 := by rw [hl]; decide
  simp only [h8, h20]
  have h1 : ¬ 20 > (mac ++ (zeros (pad4 mac.length) ++ rest)).length := by simp [hl]
  have h2 : (mac ++ (zeros (pad4 mac.length) ++ rest)).take 20 = mac := take_append_len hl
  simp [h2, hl]

theorem verifyLoop_flat (P : Prims) (key pkt : Bytes) (off : Nat) (pre : List (Nat × Bytes)) (mac rest : Bytes)
    (hb : ∀ p ∈ pre, p.1 < 65536 ∧ p.2.length < 65536 ∧ p.1 ≠ 8) (hl : mac.length = 20) :
    verifyLoop P key pkt off (flat pre ++ (tlv 8 mac ++ rest)) =
      decide (mac = P.hmac key (writeLen (pkt.take (off + (flat pre).length)) (off + (flat pre).length - 20 + 24))) := by
  induction pre generalizing off with
  | nil => simp [flat, verifyLoop_hit P key pkt off mac rest hl]
  | cons p ps ih =>
    obtain ⟨t, v⟩ := p
    have hp := hb (t, v) (by simp)
    simp only [flat, List.map_cons, List.flatten_cons, List.append_assoc] at *
    rw [verifyLoop_skip P key pkt off t v _ hp.1 hp.2.1 hp.2.2, ih _ (fun q hq => hb q (by simp [hq]))]
    simp only [List.length_append, tlv_length]
    have e : off + 4 + v.length + pad4 v.length + (List.map (fun p => tlv p.1 p.2) ps).flatten.length =
        off + (4 + v.length + pad4 v.length + (List.map (fun p => tlv p.1 p.2) ps).flatten.length) := by omega
    simp only [flat, e]


/-- a MESSAGE-INTEGRITY attribute whose length field is not 20 — zero-length, a prefix of the right HMAC,
21, 24 … — is rejected whatever its value -/
theorem verifyLoop_hit_badlen (P : Prims) (key pkt : Bytes) (off : Nat) (v rest : Bytes) (hv : v.length < 65536)
    (hl : v.length ≠ 20) : verifyLoop P key pkt off (tlv 8 v ++ rest) = false := by
  simp only [tlv, be16, List.cons_append, List.nil_append, List.append_assoc]
  rw [verifyLoop]
  have h8 : rd16 (UInt8.ofNat (8 / 256)) (UInt8.ofNat 8) = 8 := by decide
  simp only [h8, rd16_be16 hv]
  have h1 : ¬ v.length > (v ++ (zeros (pad4 v.length) ++ rest)).length := by simp
  simp [hl]

/-- the FIRST MESSAGE-INTEGRITY attribute decides, and only a 20-byte value equal to the HMAC of the
message prefix can pass: whatever precedes it (no type-8 attribute) and whatever follows it -/
theorem verifyLoop_first_mi (P : Prims) (key pkt : Bytes) (off : Nat) (pre : List (Nat × Bytes)) (v rest : Bytes)
    (hb : ∀ p ∈ pre, p.1 < 65536 ∧ p.2.length < 65536 ∧ p.1 ≠ 8) (hv : v.length < 65536) :
    verifyLoop P key pkt off (flat pre ++ (tlv 8 v ++ rest)) =
      (decide (v.length = 20) &&
       decide (v = P.hmac key (writeLen (pkt.take (off + (flat pre).length)) (off + (flat pre).length - 20 + 24)))) := by
  by_cases hl : v.length = 20
  · rw [verifyLoop_flat P key pkt off pre v rest hb hl]; simp [hl]
  · simp only [hl, decide_false, Bool.false_and]
    induction pre generalizing off with
    | nil => simpa [flat] using verifyLoop_hit_badlen P key pkt off v rest hv hl
    | cons p ps ih =>
      obtain ⟨t, w⟩ := p
      have hp := hb (t, w) (by simp)
      simp only [flat, List.map_cons, List.flatten_cons, List.append_assoc] at *
      rw [verifyLoop_skip P key pkt off t w _ hp.1 hp.2.1 hp.2.2]
      exact ih _ (fun q hq => hb q (by simp [hq]))

theorem codeAuth_le_verifyMI (P : Prims) (ufrag pwd pkt : Bytes) (h : verifyMI P pwd pkt = false) :
    codeAuth P ufrag pwd pkt = false := by
  unfold codeAuth; split <;> simp [h]

def isUsername : Attr → Bool
  | .username _ => true
  | _ => false

theorem attrType_eq_six (a : Attr) : attrType a = 6 → isUsername a = true := by
  cases a <;> simp [attrType, isUsername]

theorem takeWhile_prefix (ufrag tail : Bytes) (h : (58 : UInt8) ∉ ufrag) :
    (ufrag ++ 58 :: tail).takeWhile (fun x => decide (x ≠ 58)) = ufrag := by
  induction ufrag with
  | nil => simp
  | cons x xs ih =>
    have hx : x ≠ 58 := fun e => h (by simp [e])
    simp only [List.cons_append, List.takeWhile_cons, ne_eq, hx, not_false_eq_true, decide_true, ↓reduceIte]
    rw [ih (fun hm => h (by simp [hm]))]

/-- **completeness of the code's check**: every request a conforming peer builds — any attributes, the
USERNAME `<ufrag>:<anything>` (first USERNAME attribute of the message), MESSAGE-INTEGRITY under the
local password, with or without FINGERPRINT — is accepted. -/
theorem codeAuth_complete (P : Prims) (ufrag pwd tail : Bytes) (m : Msg) (fp : Bool) (pre post : List Attr)
    (hattrs : m.attrs = pre ++ Attr.username (ufrag ++ 58 :: tail) :: post)
    (hpre : ∀ a ∈ pre, isUsername a = false) (hcolon : (58 : UInt8) ∉ ufrag)
    (hutf : validUtf8 (ufrag ++ 58 :: tail) = true) (hm : m.Wf) (hs : Sized m) :
    codeAuth P ufrag pwd (encode P m (some pwd) fp) = true := by
  have htx := hm.tx_len
  let u := ufrag ++ 58 :: tail
  let body := body m.tx m.attrs
  let mac := P.hmac pwd (hdrL m (body.length + stunEncMiAttrLen) ++ body)
  -- the attribute area as a TLV list
  have hall : allTvs P m (some pwd) fp =
      bodyTvs m.tx pre ++ (6, u) :: (bodyTvs m.tx post ++ (8, mac) :: fpTvs P m (some pwd) fp) := by
    simp [allTvs, miTvs, bodyTvs, hattrs, attrType, attrValue, u, mac, body]
  have hall2 : allTvs P m (some pwd) fp = bodyTvs m.tx m.attrs ++ (8, mac) :: fpTvs P m (some pwd) fp := by
    simp [allTvs, miTvs, mac, body]
  have hbounds := allTvs_bounds P m (some pwd) fp hs
  have hlt := allTvs_flat_lt P m (some pwd) fp hs
  have henc := encode_eq_flat P m (some pwd) fp hm
  have hdrop : (encode P m (some pwd) fp).drop 20 = flat (allTvs P m (some pwd) fp) := by
    rw [henc]; exact drop_append_len (hdrL_length m _ htx)
  -- USERNAME
  have hu : usernameOf (encode P m (some pwd) fp) = some (20 + (flat (bodyTvs m.tx pre)).length, u) := by
    have hlen : (encode P m (some pwd) fp).length = 20 + (flat (allTvs P m (some pwd) fp)).length := by
      rw [henc]; simp [hdrL_length m _ htx]
    have hshape : ∃ b0 b1 rest, encode P m (some pwd) fp =
        b0 :: b1 :: UInt8.ofNat ((flat (allTvs P m (some pwd) fp)).length / 256) ::
          UInt8.ofNat (flat (allTvs P m (some pwd) fp)).length :: rest ∧ rest.length = 16 + (flat (allTvs P m (some pwd) fp)).length := by
      rw [henc]
      refine ⟨UInt8.ofNat ((encMethodBits m.method ||| encClassBits m.cls) / 256), UInt8.ofNat (encMethodBits m.method ||| encClassBits m.cls),
        cookieBytes ++ m.tx ++ flat (allTvs P m (some pwd) fp), ?_, ?_⟩
      · simp [hdrL, be16, List.append_assoc]
      · simp [cookieBytes_length, htx]; omega
    obtain ⟨b0, b1, rest, hsh, hrl⟩ := hshape
    unfold usernameOf
    rw [hsh]
    simp only [rd16_be16 hlt]
    have h1 : ¬ rest.length < 16 := by omega
    have h2 : ¬ ((flat (allTvs P m (some pwd) fp)).length + 20 ≠ (b0 :: b1 :: UInt8.ofNat ((flat (allTvs P m (some pwd) fp)).length / 256) ::
          UInt8.ofNat (flat (allTvs P m (some pwd) fp)).length :: rest).length) := by
      simp only [List.length_cons]; omega
    simp only [h1, h2, ↓reduceIte]
    rw [← hsh, hdrop, hall, flat_append]
    have hcons : flat ((6, u) :: (bodyTvs m.tx post ++ (8, mac) :: fpTvs P m (some pwd) fp)) =
        tlv 6 u ++ flat (bodyTvs m.tx post ++ (8, mac) :: fpTvs P m (some pwd) fp) := by simp [flat]
    rw [hcons]
    refine usernameLoop_flat 20 _ u _ ?_ ?_ hutf
    · intro p hp
      have hb := hbounds p (by rw [hall]; simp [hp])
      refine ⟨hb.1, hb.2, ?_⟩
      simp only [bodyTvs, List.mem_map] at hp
      obtain ⟨a, ha, rfl⟩ := hp
      intro h6
      have := attrType_eq_six a h6
      rw [hpre a ha] at this
      exact absurd this (by simp)
    · exact (hbounds (6, u) (by rw [hall]; simp)).2
  -- MESSAGE-INTEGRITY
  have hv : verifyMI P pwd (encode P m (some pwd) fp) = true := by
    unfold verifyMI
    rw [hdrop, hall2, flat_append]
    have hcons : flat ((8, mac) :: fpTvs P m (some pwd) fp) = tlv 8 mac ++ flat (fpTvs P m (some pwd) fp) := by simp [flat]
    rw [hcons, verifyLoop_flat P pwd _ 20 _ mac _ ?_ (P.hmac_len _ _)]
    · rw [decide_eq_true_eq, ← body_eq_flat]
      rw [henc, hall2, flat_append, ← body_eq_flat, ← List.append_assoc]
      rw [take_append_len (by simp [hdrL_length m _ htx] : (hdrL m _ ++ Stun.body m.tx m.attrs).length = 20 + (Stun.body m.tx m.attrs).length)]
      rw [writeLen_hdrL]
      simp [mac, body, stunEncMiAttrLen_val]
    · intro p hp
      have hb := hbounds p (by rw [hall2]; simp [hp])
      refine ⟨hb.1, hb.2, ?_⟩
      simp only [bodyTvs, List.mem_map] at hp
      obtain ⟨a, _, rfl⟩ := hp
      have := attrType_ne_mi a
      simpa using this
  unfold codeAuth
  rw [hu]
  simp only [hv, Bool.and_true]
  simp only [oursIs, u, Bool.and_eq_true, List.contains_iff_mem, decide_eq_true_eq]
  exact ⟨by simp, takeWhile_prefix ufrag tail hcolon⟩

end RtcModel.IceAuth
