/- `observe` computes the history summary of `RtcModel.LatchHistory` (helper lemmas for C18). -/
import RtcModel.LatchHistory
import RtcModel.Lemmas.Latch

namespace RtcModel.LatchHistory
open RtcModel.Latch

theorem lowest_le : ∀ (l : List Nat) (v : Nat), v ∈ l → lowest l ≤ v
  | [], _, h => by simp at h
  | [w], v, h => by simp at h; simp [lowest, h]
  | w :: u :: rest, v, h => by
    have ih := lowest_le (u :: rest)
    unfold lowest
    simp only [List.mem_cons] at h
    split
    · rcases h with h | h
      · omega
      · have := ih v (by simpa using h); omega
    · rcases h with h | h
      · omega
      · exact ih v (by simpa using h)

theorem lowest_mem : ∀ (l : List Nat), l ≠ [] → lowest l ∈ l
  | [], h => absurd rfl h
  | [w], _ => by simp [lowest]
  | w :: u :: rest, _ => by
    have ih := lowest_mem (u :: rest) (by simp)
    unfold lowest
    split
    · simp
    · exact List.mem_cons_of_mem _ ih

theorem mem_srcs (h : List Pkt) (a : Addr) : a ∈ srcs h ↔ ∃ x ∈ h, x.addr = a := by
  induction h with
  | nil => simp [srcs]
  | cons x h ih =>
    unfold srcs
    split
    · rename_i hx
      constructor
      · intro ha; obtain ⟨y, hy, he⟩ := ih.mp ha; exact ⟨y, by simp [hy], he⟩
      · rintro ⟨y, hy, he⟩
        simp at hy
        rcases hy with rfl | hy
        · rw [← he]; exact hx
        · exact ih.mpr ⟨y, hy, he⟩
    · constructor
      · intro ha
        simp at ha
        rcases ha with ha | ha
        · obtain ⟨y, hy, he⟩ := ih.mp ha; exact ⟨y, by simp [hy], he⟩
        · exact ⟨x, by simp, ha.symm⟩
      · rintro ⟨y, hy, he⟩
        simp at hy ⊢
        rcases hy with rfl | hy
        · right; exact he.symm
        · left; exact ih.mpr ⟨y, hy, he⟩

theorem srcs_nodup (h : List Pkt) : (srcs h).Nodup := by
  induction h with
  | nil => simp [srcs]
  | cons x h ih =>
    unfold srcs
    split
    · exact ih
    · rename_i hx
      exact List.nodup_append.mpr ⟨ih, by simp, by
        intro a ha b hb; simp at hb; subst hb; intro he; subst he; exact hx ha⟩

theorem ofSrc_nil (h : List Pkt) (a : Addr) (ha : a ∉ srcs h) : ofSrc h a = [] := by
  simp only [ofSrc, List.filter_eq_nil_iff]
  intro x hx
  simp
  intro he
  exact ha ((mem_srcs h a).mpr ⟨x, hx, he⟩)

theorem ofSrc_ne_nil (h : List Pkt) (a : Addr) (ha : a ∈ srcs h) : ofSrc h a ≠ [] := by
  obtain ⟨x, hx, he⟩ := (mem_srcs h a).mp ha
  intro hn
  have : x ∈ ofSrc h a := by simp [ofSrc, hx, he]
  simp [hn] at this

theorem ofSrc_cons (x : Pkt) (h : List Pkt) (b : Addr) :
    ofSrc (x :: h) b = if x.addr = b then x :: ofSrc h b else ofSrc h b := by
  simp only [ofSrc, List.filter_cons]
  by_cases he : x.addr = b <;> simp [he]

theorem observe_map_not_mem (L : List Addr) (f : Addr → Cand) (hf : ∀ b, (f b).addr = b)
    (a : Addr) (seq ts : Nat) (m : Bool) (ha : a ∉ L) :
    observe (L.map f) a seq ts m = L.map f ++ [newCand a seq ts m] := by
  induction L with
  | nil => simp [observe]
  | cons b L ih =>
    simp at ha
    simp only [List.map_cons, observe, hf]
    rw [if_neg (fun he => ha.1 he.symm), ih ha.2]
    simp

theorem observe_map_mem (L : List Addr) (f : Addr → Cand) (hf : ∀ b, (f b).addr = b)
    (a : Addr) (seq ts : Nat) (m : Bool) (hn : L.Nodup) (ha : a ∈ L) :
    observe (L.map f) a seq ts m = L.map (fun b => if b = a then updCand (f b) seq ts m else f b) := by
  induction L with
  | nil => simp at ha
  | cons b L ih =>
    simp only [List.map_cons, observe, hf]
    have hn' := List.nodup_cons.mp hn
    by_cases he : b = a
    · subst he
      simp only [↓reduceIte, List.cons.injEq, true_and]
      apply List.map_congr_left
      intro c hc
      have : c ≠ b := fun h => hn'.1 (h ▸ hc)
      simp [this]
    · simp only [he, ↓reduceIte, List.cons.injEq, true_and]
      simp at ha
      rcases ha with ha | ha
      · exact absurd ha.symm he
      · exact ih hn'.2 ha

theorem summary_single (a : Addr) (x : Pkt) : summary a [x] = newCand a x.seq x.ts x.marker := by
  simp [summary, newCand, lowest, runLen, capped, countMax_eq]

theorem summary_cons (a : Addr) (x y : Pkt) (rest : List Pkt) :
    summary a (x :: y :: rest) = updCand (summary a (y :: rest)) x.seq x.ts x.marker := by
  have hc : capped countMax (rest.length + 1 + 1) = satInc countMax (capped countMax (rest.length + 1)) := by
    simp only [capped, satInc, countMax_eq]; split <;> split <;> (try split) <;> simp_all <;> omega
  simp only [summary, updCand, List.map_cons, List.head?_cons, Option.map_some, Option.getD_some,
    List.length_cons, List.any_cons, runLen, lowest, hc, Bool.or_comm]

end RtcModel.LatchHistory
