/- C15 — helper lemmas for the RTP header / packet codec (core Lean only). -/
import RtcModel.C15Rtp
import RtcModel.Lemmas.C15Bytes
import RtcModel.Lemmas.C15Consts

namespace RtcModel.C15
open RtcModel.Generated

/-- Field ranges of a logical RTP header that the wire format can carry. -/
structure Header.WF (h : Header) : Prop where
  pt : h.pt.toNat < 128
  csrcs : h.csrcs.length ≤ 15
  extAligned : ∀ e, h.ext = some e → e.data.length % 4 = 0
  extWords : ∀ e, h.ext = some e → e.data.length / 4 < 65536

theorem validate_ok_of_wf {h : Header} (w : h.WF) : h.validate = .ok () := by
  unfold Header.validate
  simp only [c15PtMax_eq, c15MaxCsrc_eq]
  rw [if_neg (by have := w.pt; omega), if_neg (by have := w.csrcs; omega)]
  cases he : h.ext with
  | none => rfl
  | some e =>
    simp only
    rw [if_neg (by have := w.extAligned e he; omega), if_neg (by have := w.extWords e he; omega)]

/-- `validate` accepts exactly the headers the wire format can carry -/
theorem validate_ok_iff (h : Header) : h.validate = .ok () ↔ h.WF := by
  constructor
  · intro hv
    unfold Header.validate at hv
    simp only [c15PtMax_eq, c15MaxCsrc_eq] at hv
    by_cases h1 : h.pt.toNat > 127
    · rw [if_pos h1] at hv; cases hv
    · rw [if_neg h1] at hv
      by_cases h2 : h.csrcs.length > 15
      · rw [if_pos h2] at hv; cases hv
      · rw [if_neg h2] at hv
        cases he : h.ext with
        | none =>
          refine ⟨by omega, by omega, ?_, ?_⟩ <;> intro e h' <;> rw [he] at h' <;> cases h'
        | some e =>
          rw [he] at hv
          simp only at hv
          by_cases h3 : e.data.length % 4 ≠ 0
          · rw [if_pos h3] at hv; cases hv
          · rw [if_neg h3] at hv
            by_cases h4 : e.data.length / 4 > 65535
            · rw [if_pos h4] at hv; cases hv
            · refine ⟨by omega, by omega, ?_, ?_⟩ <;> intro e' h' <;> rw [he] at h' <;> cases h' <;> omega
  · exact validate_ok_of_wf

theorem parseExtBlock_extBytes (ext : Option Ext) (tail : Bytes)
    (hal : ∀ e, ext = some e → e.data.length % 4 = 0) (hw : ∀ e, ext = some e → e.data.length / 4 < 65536) :
    parseExtBlock ext.isSome (extBytes ext ++ tail) = .ok (ext, tail) := by
  cases ext with
  | none => simp [parseExtBlock, extBytes]
  | some e =>
    have h1 := hal e rfl
    have h2 := hw e rfl
    have hn : (rd16 (u8 (e.data.length / 4 / 256 % 256)) (u8 (e.data.length / 4 % 256))).toNat * 4 = e.data.length := by
      rw [rd16_be16n]; omega
    simp only [parseExtBlock, extBytes, be16, be16n, Option.isSome_some, if_true, List.cons_append,
      List.nil_append, List.append_assoc, hn, rd16_be16]
    simp

/-- the header parser inverts the header writer on well-formed headers, leaving the tail untouched -/
theorem parseHeader_writeHeader (h : Header) (hp : Bool) (tail : Bytes) (w : h.WF) :
    parseHeader (writeHeader h hp ++ tail) = .ok (h, hp, tail) := by
  obtain ⟨m, pt, seq, ts, ssrc, csrcs, ext⟩ := h
  have hpt := w.pt
  have hcs := w.csrcs
  simp only at hpt hcs
  have hb0 : (128 + (if hp then 32 else 0) + (if ext.isSome then 16 else 0) + csrcs.length % 16) < 256 := by
    split <;> split <;> omega
  have hb1 : pt.toNat % 128 + (if m then 128 else 0) < 256 := by split <;> omega
  simp only [writeHeader, c15CsrcMask_eq, c15PtMask_eq, be16, be32, List.cons_append, List.nil_append, List.append_assoc, parseHeader,
    u8_toNat, Nat.mod_eq_of_lt hb0, Nat.mod_eq_of_lt hb1, c15RtpVersion_val]
  have hv : (128 + (if hp then 32 else 0) + (if ext.isSome then 16 else 0) + csrcs.length % 16) / 64 = 2 := by
    split <;> split <;> omega
  have hcc : (128 + (if hp then 32 else 0) + (if ext.isSome then 16 else 0) + csrcs.length % 16) % 16 = csrcs.length := by
    split <;> split <;> omega
  have hpad : ((128 + (if hp then 32 else 0) + (if ext.isSome then 16 else 0) + csrcs.length % 16) / 32 % 2 == 1) = hp := by
    cases hp <;> simp <;> split <;> omega
  have hx : ((128 + (if hp then 32 else 0) + (if ext.isSome then 16 else 0) + csrcs.length % 16) / 16 % 2 == 1) = ext.isSome := by
    cases ext.isSome <;> simp <;> split <;> omega
  have hm : ((pt.toNat % 128 + (if m then 128 else 0)) / 128 == 1) = m := by
    cases m <;> simp <;> omega
  have hpt' : u8 ((pt.toNat % 128 + (if m then 128 else 0)) % 128) = pt := by
    have : (pt.toNat % 128 + (if m then 128 else 0)) % 128 = pt.toNat := by split <;> omega
    rw [this]; simp
  rw [hv, hcc, hpad, hx, hm, hpt']
  simp only [ne_eq, not_true_eq_false, if_false, rd16_be16, rd32_be32]
  have hlen : ¬ ((be32s csrcs ++ (extBytes ext ++ tail)).length < csrcs.length * 4) := by
    simp; omega
  rw [if_neg hlen, readU32s_be32s]
  simp only
  rw [parseExtBlock_extBytes ext tail (fun e he => w.extAligned e (by simpa using he))
    (fun e he => w.extWords e (by simpa using he))]

end RtcModel.C15

namespace RtcModel.C15
open RtcModel.Generated

theorem readU32s_length_le (n : Nat) (bs : Bytes) : (readU32s n bs).1.length ≤ n := by
  induction n generalizing bs with
  | zero => simp [readU32s]
  | succ n ih =>
    match bs with
    | a :: b :: c :: d :: rest => simp [readU32s]; exact ih rest
    | [] => simp [readU32s]
    | [_] => simp [readU32s]
    | [_, _] => simp [readU32s]
    | [_, _, _] => simp [readU32s]

theorem parseExtBlock_wf {x : Bool} {bs rest : Bytes} {ext : Option Ext}
    (h : parseExtBlock x bs = .ok (ext, rest)) :
    (∀ e, ext = some e → e.data.length % 4 = 0) ∧ (∀ e, ext = some e → e.data.length / 4 < 65536) := by
  unfold parseExtBlock at h
  cases x with
  | false => simp at h; obtain ⟨rfl, _⟩ := h; simp
  | true =>
    simp only [if_true] at h
    match bs, h with
    | p0 :: p1 :: l0 :: l1 :: r, h =>
      simp only at h
      split at h
      · cases h
      · next hlen =>
        simp only [Except.ok.injEq, Prod.mk.injEq] at h
        obtain ⟨rfl, _⟩ := h
        have h16 := rd16_toNat l0 l1
        have := l0.toNat_lt; have := l1.toNat_lt
        constructor <;> intro e he <;> cases he <;> simp [List.length_take] <;> omega

/-- whatever `parseHeader` accepts is a well-formed logical header -/
theorem parseHeader_wf {bs rest : Bytes} {h : Header} {p : Bool}
    (hp : parseHeader bs = .ok (h, p, rest)) : h.WF := by
  unfold parseHeader at hp
  split at hp
  · next b0 b1 s0 s1 t0 t1 t2 t3 c0 c1 c2 c3 r =>
    simp only at hp
    split at hp
    · cases hp
    · split at hp
      · cases hp
      · split at hp
        · cases hp
        · next ext rest' hext =>
          simp only [Except.ok.injEq, Prod.mk.injEq] at hp
          obtain ⟨rfl, _, _⟩ := hp
          have hw := parseExtBlock_wf hext
          have := b0.toNat_lt
          refine ⟨?_, Nat.le_trans (readU32s_length_le _ _) ?_, hw.1, hw.2⟩
          · show (u8 (b1.toNat % 128)).toNat < 128
            rw [u8_toNat]; omega
          · omega
  · cases hp

end RtcModel.C15

namespace RtcModel.C15
open RtcModel.Generated

/-! ### the other direction: the parsed header re-serialises to the bytes it was parsed from -/

theorem be16_rd16 (a b : UInt8) : be16 (rd16 a b) = [a, b] := by
  have := a.toNat_lt; have := b.toNat_lt
  simp only [be16, rd16_toNat]
  have h1 : (a.toNat * 256 + b.toNat) / 256 = a.toNat := by omega
  have h2 : (a.toNat * 256 + b.toNat) % 256 = b.toNat := by omega
  rw [h1, h2]; simp

theorem rd32_toNat (a b c d : UInt8) : (rd32 a b c d).toNat = a.toNat * 16777216 + b.toNat * 65536 + c.toNat * 256 + d.toNat := by
  have := a.toNat_lt; have := b.toNat_lt; have := c.toNat_lt; have := d.toNat_lt
  simp [rd32]; omega

theorem be32_rd32 (a b c d : UInt8) : be32 (rd32 a b c d) = [a, b, c, d] := by
  have := a.toNat_lt; have := b.toNat_lt; have := c.toNat_lt; have := d.toNat_lt
  simp only [be32, rd32_toNat]
  have h1 : (a.toNat * 16777216 + b.toNat * 65536 + c.toNat * 256 + d.toNat) / 16777216 = a.toNat := by omega
  have h2 : (a.toNat * 16777216 + b.toNat * 65536 + c.toNat * 256 + d.toNat) / 65536 % 256 = b.toNat := by omega
  have h3 : (a.toNat * 16777216 + b.toNat * 65536 + c.toNat * 256 + d.toNat) / 256 % 256 = c.toNat := by omega
  have h4 : (a.toNat * 16777216 + b.toNat * 65536 + c.toNat * 256 + d.toNat) % 256 = d.toNat := by omega
  rw [h1, h2, h3, h4]; simp

theorem readU32s_spec : ∀ (n : Nat) (bs : Bytes), 4 * n ≤ bs.length →
    bs = be32s (readU32s n bs).1 ++ (readU32s n bs).2 ∧ (readU32s n bs).1.length = n := by
  intro n
  induction n with
  | zero => intro bs _; simp [readU32s]
  | succ n ih =>
    intro bs hl
    match bs, hl with
    | a :: b :: c :: d :: rest, hl =>
      have := ih rest (by simp at hl; omega)
      simp only [readU32s, be32s_cons, be32_rd32, List.cons_append, List.nil_append, List.length_cons]
      exact ⟨by rw [← this.1], by rw [this.2]⟩
    | [], hl => simp at hl
    | [_], hl => simp at hl; omega
    | [_, _], hl => simp at hl; omega
    | [_, _, _], hl => simp at hl; omega

theorem parseExtBlock_inv {x : Bool} {bs rest : Bytes} {ext : Option Ext}
    (h : parseExtBlock x bs = .ok (ext, rest)) : bs = extBytes ext ++ rest ∧ ext.isSome = x := by
  unfold parseExtBlock at h
  cases x with
  | false => simp at h; obtain ⟨rfl, rfl⟩ := h; simp [extBytes]
  | true =>
    simp only [if_true] at h
    match bs, h with
    | p0 :: p1 :: l0 :: l1 :: r, h =>
      simp only at h
      split at h
      · cases h
      · next hlen =>
        simp only [Except.ok.injEq, Prod.mk.injEq] at h
        obtain ⟨rfl, rfl⟩ := h
        have h16 := rd16_toNat l0 l1
        have := l0.toNat_lt; have := l1.toNat_lt
        refine ⟨?_, rfl⟩
        have hlt : (List.take ((rd16 l0 l1).toNat * 4) r).length = (rd16 l0 l1).toNat * 4 := by
          simp [List.length_take]; omega
        simp only [extBytes, be16_rd16, be16n, hlt, List.cons_append, List.nil_append, List.append_assoc,
          List.take_append_drop]
        have e1 : (rd16 l0 l1).toNat * 4 / 4 / 256 % 256 = l0.toNat := by omega
        have e2 : (rd16 l0 l1).toNat * 4 / 4 % 256 = l1.toNat := by omega
        rw [e1, e2]; simp

theorem parseHeader_inv {bs rest : Bytes} {h : Header} {p : Bool} (hp : parseHeader bs = .ok (h, p, rest)) :
    bs = writeHeader h p ++ rest := by
  unfold parseHeader at hp
  split at hp
  · next b0 b1 s0 s1 t0 t1 t2 t3 c0 c1 c2 c3 r =>
    simp only at hp
    have hV : c15RtpVersion = 2 := c15RtpVersion_val
    by_cases hv : b0.toNat / 64 ≠ c15RtpVersion
    · rw [if_pos hv] at hp; cases hp
    · rw [if_neg hv] at hp
      by_cases hl : r.length < b0.toNat % 16 * 4
      · rw [if_pos hl] at hp; cases hp
      · rw [if_neg hl] at hp
        split at hp
        · cases hp
        · next ext rest' hext =>
          simp only [Except.ok.injEq, Prod.mk.injEq] at hp
          obtain ⟨rfl, rfl, rfl⟩ := hp
          obtain ⟨hcs, hcl⟩ := readU32s_spec (b0.toNat % 16) r (by omega)
          obtain ⟨hrest, hx⟩ := parseExtBlock_inv hext
          have hb0 := b0.toNat_lt
          have hb1 := b1.toNat_lt
          simp only [writeHeader, c15CsrcMask_eq, c15PtMask_eq, be16_rd16, be32_rd32, hcl, List.cons_append, List.nil_append, List.append_assoc]
          have e0 : u8 (128 + (if (b0.toNat / 32 % 2 == 1) = true then 32 else 0) + (if ext.isSome = true then 16 else 0) +
              b0.toNat % 16 % 16) = b0 := by
            rw [hx]
            have : 128 + (if (b0.toNat / 32 % 2 == 1) = true then 32 else 0) +
                (if (b0.toNat / 16 % 2 == 1) = true then 16 else 0) + b0.toNat % 16 % 16 = b0.toNat := by
              have hv' : b0.toNat / 64 = 2 := by omega
              by_cases h1 : b0.toNat / 32 % 2 = 1 <;> by_cases h2 : b0.toNat / 16 % 2 = 1 <;> simp [h1, h2] <;> omega
            rw [this]; simp
          have e1 : u8 ((u8 (b1.toNat % 128)).toNat % 128 + (if (b1.toNat / 128 == 1) = true then 128 else 0)) = b1 := by
            have : (u8 (b1.toNat % 128)).toNat % 128 + (if (b1.toNat / 128 == 1) = true then 128 else 0) = b1.toNat := by
              rw [u8_toNat]
              by_cases h1 : b1.toNat / 128 = 1 <;> simp [h1] <;> omega
            rw [this]; simp
          rw [e0, e1, ← hrest, ← hcs]
  · cases hp

/-- `marshal` characterised: `marshal` succeeds EXACTLY on the headers the wire can carry — 7-bit payload type,
at most 15 CSRCs, extension 32-bit aligned and at most 65535 words; everything else is an error. (The payload
type and the extension length used to be masked / truncated silently; two `fix:` commits made them errors.) -/
theorem marshalPacket_ok_iff (p : Packet) : (∃ bs, marshalPacket p = .ok bs) ↔ p.hdr.WF := by
  rw [← validate_ok_iff]
  unfold marshalPacket
  cases hv : p.hdr.validate with
  | error e => exact ⟨(fun ⟨_, h⟩ => by cases h), fun h => by cases h⟩
  | ok u => exact ⟨fun _ => rfl, fun _ => ⟨_, rfl⟩⟩

end RtcModel.C15
