/- C15 — helper lemmas for the RTP header / packet codec (core Lean only). -/
import RtcModel.C15Rtp
import RtcModel.Lemmas.C15Bytes

namespace RtcModel.C15
open RtcModel.Generated

/-- Field ranges of a logical RTP header that the wire format can carry. -/
structure Header.WF (h : Header) : Prop where
  pt : h.pt.toNat < 128
  csrcs : h.csrcs.length ≤ 15
  extAligned : ∀ e, h.ext = some e → e.data.length % 4 = 0
  extWords : ∀ e, h.ext = some e → e.data.length / 4 < 65536

theorem validate_ok_of_wf {h : Header} (w : h.WF) : h.validate = .ok () := by
  unfold Header.validate
  have hc : ¬ h.csrcs.length > c15MaxCsrc := by have := w.csrcs; simp only [c15MaxCsrc_val]; omega
  rw [if_neg hc]
  cases he : h.ext with
  | none => rfl
  | some e => simp [w.extAligned e he]

theorem parseExtBlock_extBytes (ext : Option Ext) (tail : Bytes)
    (hal : ∀ e, ext = some e → e.data.length % 4 = 0) (hw : ∀ e, ext = some e → e.data.length / 4 < 65536) :
    parseExtBlock ext.isSome (extBytes ext ++ tail) = .ok (ext, tail) := by
  cases ext with
  | none => simp [parseExtBlock, extBytes]
  | some e =>
    have h1 := hal e rfl
    have h2 := hw e rfl
    have hn : (rd16 (u8 (e.data.length / 4 / 256 % 256)) (u8 (e.data.length / 4 % 256))).toNat * 4 = e.data.length := by
      rw [rd16_be16n]; omega
    simp only [parseExtBlock, extBytes, be16, be16n, Option.isSome_some, if_true, List.cons_append,
      List.nil_append, List.append_assoc, hn, rd16_be16]
    simp

/-- the header parser inverts the header writer on well-formed headers, leaving the tail untouched -/
theorem parseHeader_writeHeader (h : Header) (hp : Bool) (tail : Bytes) (w : h.WF) :
    parseHeader (writeHeader h hp ++ tail) = .ok (h, hp, tail) := by
  obtain ⟨m, pt, seq, ts, ssrc, csrcs, ext⟩ := h
  have hpt := w.pt
  have hcs := w.csrcs
  simp only at hpt hcs
  have hb0 : (128 + (if hp then 32 else 0) + (if ext.isSome then 16 else 0) + csrcs.length % 16) < 256 := by
    split <;> split <;> omega
  have hb1 : pt.toNat % 128 + (if m then 128 else 0) < 256 := by split <;> omega
  simp only [writeHeader, be16, be32, List.cons_append, List.nil_append, List.append_assoc, parseHeader,
    u8_toNat, Nat.mod_eq_of_lt hb0, Nat.mod_eq_of_lt hb1, c15RtpVersion_val]
  have hv : (128 + (if hp then 32 else 0) + (if ext.isSome then 16 else 0) + csrcs.length % 16) / 64 = 2 := by
    split <;> split <;> omega
  have hcc : (128 + (if hp then 32 else 0) + (if ext.isSome then 16 else 0) + csrcs.length % 16) % 16 = csrcs.length := by
    split <;> split <;> omega
  have hpad : ((128 + (if hp then 32 else 0) + (if ext.isSome then 16 else 0) + csrcs.length % 16) / 32 % 2 == 1) = hp := by
    cases hp <;> simp <;> split <;> omega
  have hx : ((128 + (if hp then 32 else 0) + (if ext.isSome then 16 else 0) + csrcs.length % 16) / 16 % 2 == 1) = ext.isSome := by
    cases ext.isSome <;> simp <;> split <;> omega
  have hm : ((pt.toNat % 128 + (if m then 128 else 0)) / 128 == 1) = m := by
    cases m <;> simp <;> omega
  have hpt' : u8 ((pt.toNat % 128 + (if m then 128 else 0)) % 128) = pt := by
    have : (pt.toNat % 128 + (if m then 128 else 0)) % 128 = pt.toNat := by split <;> omega
    rw [this]; simp
  rw [hv, hcc, hpad, hx, hm, hpt']
  simp only [ne_eq, not_true_eq_false, if_false, rd16_be16, rd32_be32]
  have hlen : ¬ ((be32s csrcs ++ (extBytes ext ++ tail)).length < csrcs.length * 4) := by
    simp; omega
  rw [if_neg hlen, readU32s_be32s]
  simp only
  rw [parseExtBlock_extBytes ext tail (fun e he => w.extAligned e (by simpa using he))
    (fun e he => w.extWords e (by simpa using he))]

end RtcModel.C15

namespace RtcModel.C15
open RtcModel.Generated

theorem readU32s_length_le (n : Nat) (bs : Bytes) : (readU32s n bs).1.length ≤ n := by
  induction n generalizing bs with
  | zero => simp [readU32s]
  | succ n ih =>
    match bs with
    | a :: b :: c :: d :: rest => simp [readU32s]; exact ih rest
    | [] => simp [readU32s]
    | [_] => simp [readU32s]
    | [_, _] => simp [readU32s]
    | [_, _, _] => simp [readU32s]

theorem parseExtBlock_wf {x : Bool} {bs rest : Bytes} {ext : Option Ext}
    (h : parseExtBlock x bs = .ok (ext, rest)) :
    (∀ e, ext = some e → e.data.length % 4 = 0) ∧ (∀ e, ext = some e → e.data.length / 4 < 65536) := by
  unfold parseExtBlock at h
  cases x with
  | false => simp at h; obtain ⟨rfl, _⟩ := h; simp
  | true =>
    simp only [if_true] at h
    match bs, h with
    | p0 :: p1 :: l0 :: l1 :: r, h =>
      simp only at h
      split at h
      · cases h
      · next hlen =>
        simp only [Except.ok.injEq, Prod.mk.injEq] at h
        obtain ⟨rfl, _⟩ := h
        have h16 := rd16_toNat l0 l1
        have := l0.toNat_lt; have := l1.toNat_lt
        constructor <;> intro e he <;> cases he <;> simp [List.length_take] <;> omega

/-- whatever `parseHeader` accepts is a well-formed logical header -/
theorem parseHeader_wf {bs rest : Bytes} {h : Header} {p : Bool}
    (hp : parseHeader bs = .ok (h, p, rest)) : h.WF := by
  unfold parseHeader at hp
  split at hp
  · next b0 b1 s0 s1 t0 t1 t2 t3 c0 c1 c2 c3 r =>
    simp only at hp
    split at hp
    · cases hp
    · split at hp
      · cases hp
      · split at hp
        · cases hp
        · next ext rest' hext =>
          simp only [Except.ok.injEq, Prod.mk.injEq] at hp
          obtain ⟨rfl, _, _⟩ := hp
          have hw := parseExtBlock_wf hext
          have := b0.toNat_lt
          refine ⟨?_, Nat.le_trans (readU32s_length_le _ _) ?_, hw.1, hw.2⟩
          · show (u8 (b1.toNat % 128)).toNat < 128
            rw [u8_toNat]; omega
          · omega
  · cases hp

end RtcModel.C15
