/- Helper lemmas for the SRTP gate model (`RtcModel/Gate.lean`). -/
import RtcModel.Gate
namespace RtcModel.Gate

@[simp] theorem St.set_same (s : St) (t : Tid) (x : Tr) : (s.set t x) t = x := by simp [St.set]
theorem St.set_other (s : St) (t c : Tid) (x : Tr) (h : c ≠ t) : (s.set t x) c = s c := by
  simp [St.set, h]

/-- `srtp_required` never changes -/
theorem step_required (s : St) (o : Op) (c : Tid) : ((step s o).1 c).required = (s c).required := by
  cases o with
  | installKeys t k => by_cases h : c = t <;> simp [step, St.set, h]
  | setBridge t b => by_cases h : c = t <;> simp [step, St.set, h]
  | clearBridge t => by_cases h : c = t <;> simp [step, St.set, h]
  | close t => by_cases h : c = t <;> simp [step, St.set, h]
  | _ => rfl

theorem run_required (s : St) (ops : List Op) (c : Tid) : ((run s ops) c).required = (s c).required := by
  induction ops generalizing s with
  | nil => rfl
  | cons o os ih => simp only [run]; rw [ih, step_required]

/-- the session slot holds exactly the last installed key set -/
theorem step_keys (s : St) (o : Op) (c : Tid) :
    ((step s o).1 c).keys = lastInstalled c (s c).keys [o] := by
  cases o with
  | installKeys t k =>
    by_cases h : c = t
    · simp [step, St.set, h, lastInstalled]
    · have h' : ¬ t = c := fun e => h e.symm
      simp [step, St.set, h, h', lastInstalled]
  | setBridge t b => by_cases h : c = t <;> simp [step, St.set, h, lastInstalled]
  | clearBridge t => by_cases h : c = t <;> simp [step, St.set, h, lastInstalled]
  | close t => by_cases h : c = t <;> simp [step, St.set, h, lastInstalled]
  | _ => rfl

theorem lastInstalled_append (c : Tid) (i : Option KeyId) (a b : List Op) :
    lastInstalled c i (a ++ b) = lastInstalled c (lastInstalled c i a) b := by
  induction a generalizing i with
  | nil => rfl
  | cons o os ih => cases o <;> simp [lastInstalled, ih]

theorem run_keys (s : St) (ops : List Op) (c : Tid) :
    ((run s ops) c).keys = lastInstalled c (s c).keys ops := by
  induction ops generalizing s with
  | nil => rfl
  | cons o os ih =>
    simp only [run]
    rw [ih, step_keys]
    have := lastInstalled_append c (s c).keys [o] os
    simpa using this.symm

theorem run_append (s : St) (a b : List Op) : run s (a ++ b) = run (run s a) b := by
  induction a generalizing s with
  | nil => rfl
  | cons o os ih => simp [run, ih]

/-- an event of the trace is an event of one step taken from a reachable state -/
theorem mem_trace_iff (s : St) (ops : List Op) (ev : Ev) :
    ev ∈ trace s ops ↔ ∃ pre o post, ops = pre ++ o :: post ∧ ev ∈ (step (run s pre) o).2 := by
  induction ops generalizing s with
  | nil => simp [trace]
  | cons o os ih =>
    simp only [trace, List.mem_append]
    constructor
    · rintro (h | h)
      · exact ⟨[], o, os, rfl, h⟩
      · obtain ⟨pre, o', post, he, hm⟩ := (ih _).1 h
        exact ⟨o :: pre, o', post, by simp [he], by simpa [run] using hm⟩
    · rintro ⟨pre, o', post, he, hm⟩
      cases pre with
      | nil =>
        simp at he
        left; rw [he.1]; simpa [run] using hm
      | cons p ps =>
        simp at he
        right
        refine (ih _).2 ⟨ps, o', post, he.2, ?_⟩
        rw [he.1]; simpa [run] using hm

theorem lastInstalled_none (c : Tid) (ops : List Op) (h : ∀ k, Op.installKeys c k ∉ ops) :
    lastInstalled c none ops = none := by
  induction ops with
  | nil => rfl
  | cons o os ih =>
    have hos : ∀ k, Op.installKeys c k ∉ os := fun k hk => h k (by simp [hk])
    cases o <;> simp only [lastInstalled] <;> (try exact ih hos)
    rename_i t k
    by_cases ht : t = c
    · exact absurd (by simp [ht]) (h k)
    · simp [ht]; exact ih hos

end RtcModel.Gate
