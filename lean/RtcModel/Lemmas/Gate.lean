/- Helper lemmas for the SRTP gate model (`RtcModel/Gate.lean`). -/
import RtcModel.Gate
namespace RtcModel.Gate
variable {S : Suite}

@[simp] theorem St.set_same (s : St S) (t : Tid) (x : Tr S) : (s.set t x) t = x := by simp [St.set]
theorem St.set_other (s : St S) (t c : Tid) (x : Tr S) (h : c ≠ t) : (s.set t x) c = s c := by
  simp [St.set, h]

/-! ### every gate leaves the key of the slot alone (it only advances the session state) -/

theorem sendRawGate_key (t : Tid) (x : Tr S) (p e : Bool) : (sendRawGate t x p e).1.map S.keyOf = x.key := by
  unfold sendRawGate Tr.key; split <;> (try split) <;> simp_all [S.protectRtp_key]
theorem sendRtpGate_key (t : Tid) (x : Tr S) : (sendRtpGate t x).1.map S.keyOf = x.key := by
  unfold sendRtpGate Tr.key; split <;> simp_all [S.protectRtp_key]
theorem sendRtcpGate_key (t : Tid) (x : Tr S) : (sendRtcpGate t x).1.map S.keyOf = x.key := by
  unfold sendRtcpGate Tr.key; split <;> simp_all [S.protectRtcp_key]
theorem syncByeGate_key (t : Tid) (x : Tr S) : (syncByeGate t x).1.map S.keyOf = x.key := by
  unfold syncByeGate Tr.key; split <;> simp_all [S.protectRtcp_key]
theorem bridgeGate_key (t : Tid) (x : Tr S) (o : Tid) (p : Prov) : (bridgeGate t x o p).1.map S.keyOf = x.key := by
  unfold bridgeGate Tr.key; split <;> simp_all [S.protectRtp_key]
theorem recvRtpGate_key (x : Tr S) (w : S.W) : (recvRtpGate x w).1.map S.keyOf = x.key := by
  unfold recvRtpGate Tr.key; split <;> simp_all [S.unprotectRtp_key]
theorem recvRtcpGate_key (x : Tr S) (w : S.W) : (recvRtcpGate x w).1.map S.keyOf = x.key := by
  unfold recvRtcpGate Tr.key; split <;> simp_all [S.unprotectRtcp_key]

/-- replacing `t`'s session by one with the same key changes neither flags, bridges nor keys anywhere -/
theorem withSess_frame (s : St S) (t : Tid) (g : Option S.Sess) (hg : g.map S.keyOf = (s t).key) (c : Tid) :
    ((withSess s t g) c).required = (s c).required ∧ ((withSess s t g) c).key = (s c).key ∧
    ((withSess s t g) c).bridge = (s c).bridge ∧ ((withSess s t g) c).observer = (s c).observer ∧
    ((withSess s t g) c).listener = (s c).listener := by
  unfold withSess
  by_cases h : c = t
  · subst h; simp [Tr.key] at *; exact hg
  · simp [St.set, h]

theorem relayTo_frame (s : St S) (t : Tid) (p : Prov) (tgt c : Tid) :
    ((relayTo s t p tgt).1 c).required = (s c).required ∧ ((relayTo s t p tgt).1 c).key = (s c).key := by
  have := bridgeGate_key tgt (s tgt) t p
  unfold relayTo
  by_cases h : c = tgt
  · subst h; simp [Tr.key] at *; exact this
  · simp [St.set, h]

theorem afterAccept_frame (s : St S) (t : Tid) (p : Prov) (v : Bool) (c : Tid) :
    ((afterAccept s t p v).1 c).required = (s c).required ∧ ((afterAccept s t p v).1 c).key = (s c).key := by
  unfold afterAccept
  split
  · exact relayTo_frame s t p _ c
  · exact ⟨rfl, rfl⟩

/-- what one step does to the `required` flag and the key of any transport's slot -/
theorem step_frame (s : St S) (o : Op S) (c : Tid) :
    ((step s o).1 c).required = (s c).required ∧
    ((step s o).1 c).key = lastInstalled c (s c).key [o] := by
  have upd : ∀ (t : Tid) (g : Option S.Sess), g.map S.keyOf = (s t).key →
      ((withSess s t g) c).required = (s c).required ∧ ((withSess s t g) c).key = (s c).key :=
    fun t g hg => ⟨(withSess_frame s t g hg c).1, (withSess_frame s t g hg c).2.1⟩
  cases o with
  | installKeys t k =>
    by_cases h : c = t
    · subst h; simp [step, lastInstalled, Tr.key, S.keyOf_fresh]
    · have h' : ¬ t = c := fun e => h e.symm
      simp [step, St.set, h, h', lastInstalled]
  | sendRtp t => simpa [step, own, lastInstalled] using upd t _ (sendRtpGate_key t (s t))
  | sendRaw t p e => simpa [step, own, lastInstalled] using upd t _ (sendRawGate_key t (s t) p e)
  | sendRtcp t => simpa [step, own, lastInstalled] using upd t _ (sendRtcpGate_key t (s t))
  | syncBye t => simpa [step, own, lastInstalled] using upd t _ (syncByeGate_key t (s t))
  | setBridge t b => by_cases h : c = t <;> simp [step, St.set, h, lastInstalled, Tr.key]
  | clearBridge t => by_cases h : c = t <;> simp [step, St.set, h, lastInstalled, Tr.key]
  | setFlags t l r ob => by_cases h : c = t <;> simp [step, St.set, h, lastInstalled, Tr.key]
  | setAbsSendTime t on => by_cases h : c = t <;> simp [step, St.set, h, lastInstalled, Tr.key]
  | close t =>
    have hk := syncByeGate_key t (closed (s t))
    simp only [step, own, lastInstalled]
    have h0 : ∀ c, ((s.set t (closed (s t))) c).required = (s c).required ∧ ((s.set t (closed (s t))) c).key = (s c).key := by
      intro c; by_cases h : c = t
      · subst h; simp [closed, Tr.key]
      · simp [St.set, h]
    have := withSess_frame (s.set t (closed (s t))) t (syncByeGate t (closed (s t))).1 (by simpa [closed, Tr.key] using hk) c
    exact ⟨this.1.trans (h0 c).1, this.2.1.trans (h0 c).2⟩
  | recvRtcp t w =>
    have := upd t _ (recvRtcpGate_key (s t) w)
    simp only [step, recvRtcp, lastInstalled]
    split <;> exact this
  | recvRtp t w v =>
    have h1 := upd t _ (recvRtpGate_key (s t) w)
    simp only [step, recvRtp, lastInstalled]
    split
    · exact h1
    · have h2 := afterAccept_frame (withSess s t (recvRtpGate (s t) w).1) t ‹_› v c
      exact ⟨h2.1.trans h1.1, h2.2.trans h1.2⟩

theorem run_required (s : St S) (ops : List (Op S)) (c : Tid) : ((run s ops) c).required = (s c).required := by
  induction ops generalizing s with
  | nil => rfl
  | cons o os ih => simp only [run]; rw [ih, (step_frame s o c).1]

theorem lastInstalled_append (c : Tid) (i : Option KeyId) (a b : List (Op S)) :
    lastInstalled c i (a ++ b) = lastInstalled c (lastInstalled c i a) b := by
  induction a generalizing i with
  | nil => rfl
  | cons o os ih => cases o <;> simp [lastInstalled, ih]

/-- the session slot is always keyed with the last installed key set -/
theorem run_keys (s : St S) (ops : List (Op S)) (c : Tid) :
    ((run s ops) c).key = lastInstalled c (s c).key ops := by
  induction ops generalizing s with
  | nil => rfl
  | cons o os ih =>
    simp only [run]
    rw [ih, (step_frame s o c).2]
    have := lastInstalled_append c (s c).key [o] os
    simpa using this.symm

theorem run_append (s : St S) (a b : List (Op S)) : run s (a ++ b) = run (run s a) b := by
  induction a generalizing s with
  | nil => rfl
  | cons o os ih => simp [run, ih]

/-- an event of the trace is an event of one step taken from a reachable state -/
theorem mem_trace_iff (s : St S) (ops : List (Op S)) (ev : Ev) :
    ev ∈ trace s ops ↔ ∃ pre o post, ops = pre ++ o :: post ∧ ev ∈ (step (run s pre) o).2 := by
  induction ops generalizing s with
  | nil => simp [trace]
  | cons o os ih =>
    simp only [trace, List.mem_append]
    constructor
    · rintro (h | h)
      · exact ⟨[], o, os, rfl, h⟩
      · obtain ⟨pre, o', post, he, hm⟩ := (ih _).1 h
        exact ⟨o :: pre, o', post, by simp [he], by simpa [run] using hm⟩
    · rintro ⟨pre, o', post, he, hm⟩
      cases pre with
      | nil =>
        simp at he
        left; rw [he.1]; simpa [run] using hm
      | cons p ps =>
        simp at he
        right
        refine (ih _).2 ⟨ps, o', post, he.2, ?_⟩
        rw [he.1]; simpa [run] using hm

theorem lastInstalled_none (c : Tid) (ops : List (Op S)) (h : ∀ k, Op.installKeys c k ∉ ops) :
    lastInstalled c none ops = none := by
  induction ops with
  | nil => rfl
  | cons o os ih =>
    have hos : ∀ k, Op.installKeys c k ∉ os := fun k hk => h k (by simp [hk])
    cases o <;> simp only [lastInstalled] <;> (try exact ih hos)
    rename_i t k
    by_cases ht : t = c
    · exact absurd (by simp [ht]) (h k)
    · simp [ht]; exact ih hos

/-! ### the five outbound gates, one by one -/

/-- shape of every outbound gate's output: whatever it emits goes to connection `t`, and if `t` is
mandatory it is the `Ok` output of `t`'s session (never the clear arm, never the error arm) -/
def GateOk (t : Tid) (x : Tr S) (evs : List Ev) : Prop :=
  ∀ c m f src, Ev.emit c m f src ∈ evs →
    c = t ∧ (x.required = true → ∃ k, x.key = some k ∧ f = .prot t k) ∧
    (∀ k, x.key = some k → f = .prot t k) ∧ (x.key = none → f = .clear ∧ x.required = false)

theorem sendRawGate_ok (t : Tid) (x : Tr S) (p e : Bool) : GateOk t x (sendRawGate t x p e).2 := by
  intro c m f src h
  unfold sendRawGate at h
  cases hx : x.sess with
  | none =>
    rw [hx] at h
    by_cases hr : x.required = true <;> simp [hr] at h
    obtain ⟨rfl, rfl, rfl, rfl⟩ := h
    simp_all [Tr.key]
  | some se =>
    rw [hx] at h
    generalize (p && (!x.absSendTime || e)) = q at h
    cases q
    · simp at h
    · by_cases hp : (S.protectRtp se).2 = true <;> simp [hp] at h
      obtain ⟨rfl, rfl, rfl, rfl⟩ := h
      simp_all [Tr.key]

theorem sendRtpGate_ok (t : Tid) (x : Tr S) : GateOk t x (sendRtpGate t x).2 := by
  intro c m f src h
  unfold sendRtpGate at h
  cases hx : x.sess with
  | none =>
    rw [hx] at h
    by_cases hr : x.required = true <;> simp [hr] at h
    obtain ⟨rfl, rfl, rfl, rfl⟩ := h
    simp_all [Tr.key]
  | some se =>
    rw [hx] at h
    by_cases hp : (S.protectRtp se).2 = true <;> simp [hp] at h
    obtain ⟨rfl, rfl, rfl, rfl⟩ := h
    simp_all [Tr.key]

theorem sendRtcpGate_ok (t : Tid) (x : Tr S) : GateOk t x (sendRtcpGate t x).2 := by
  intro c m f src h
  unfold sendRtcpGate at h
  cases hx : x.sess with
  | none =>
    rw [hx] at h
    by_cases hr : x.required = true <;> simp [hr] at h
    obtain ⟨rfl, rfl, rfl, rfl⟩ := h
    simp_all [Tr.key]
  | some se =>
    rw [hx] at h
    by_cases hp : (S.protectRtcp se).2 = true <;> simp [hp] at h
    obtain ⟨rfl, rfl, rfl, rfl⟩ := h
    simp_all [Tr.key]

theorem syncByeGate_ok (t : Tid) (x : Tr S) : GateOk t x (syncByeGate t x).2 := by
  intro c m f src h
  unfold syncByeGate at h
  cases hx : x.sess with
  | none =>
    rw [hx] at h
    by_cases hr : x.required = true <;> simp [hr] at h
    obtain ⟨rfl, rfl, rfl, rfl⟩ := h
    simp_all [Tr.key]
  | some se =>
    rw [hx] at h
    by_cases hp : (S.protectRtcp se).2 = true <;> simp [hp] at h
    obtain ⟨rfl, rfl, rfl, rfl⟩ := h
    simp_all [Tr.key]

theorem bridgeGate_ok (t : Tid) (x : Tr S) (o : Tid) (p : Prov) : GateOk t x (bridgeGate t x o p).2 := by
  intro c m f src h
  unfold bridgeGate at h
  cases hx : x.sess with
  | none =>
    rw [hx] at h
    by_cases hr : x.required = true <;> simp [hr] at h
    obtain ⟨rfl, rfl, rfl, rfl⟩ := h
    simp_all [Tr.key]
  | some se =>
    rw [hx] at h
    by_cases hp : (S.protectRtp se).2 = true <;> simp [hp] at h
    obtain ⟨rfl, rfl, rfl, rfl⟩ := h
    simp_all [Tr.key]

theorem bridgeGate_shape (tgt : Tid) (y : Tr S) (o : Tid) (p : Prov) (ev : Ev) (h : ev ∈ (bridgeGate tgt y o p).2) :
    ∃ f, ev = .emit tgt .rtp f (.relay o p) := by
  unfold bridgeGate at h
  cases hy : y.sess with
  | none => rw [hy] at h; by_cases hr : y.required = true <;> simp [hr] at h; exact ⟨_, h⟩
  | some se => rw [hy] at h; by_cases hp : (S.protectRtp se).2 = true <;> simp [hp] at h; exact ⟨_, h⟩

/-- the inbound gates: an accepted packet of a mandatory transport came through `unprotect_* = Ok`
of the session in the slot -/
theorem recvRtpGate_ok (x : Tr S) (w : S.W) (p : Prov) (h : (recvRtpGate x w).2 = some p)
    (hreq : x.required = true) :
    ∃ se, x.sess = some se ∧ p = .auth (S.keyOf se) ∧ (S.unprotectRtp se w).2 = true := by
  unfold recvRtpGate at h
  cases hx : x.sess with
  | none => rw [hx] at h; simp [hreq] at h
  | some se =>
    rw [hx] at h
    by_cases hu : (S.unprotectRtp se w).2 = true
    · simp [hu] at h; exact ⟨se, rfl, h.symm, hu⟩
    · simp [hu] at h

theorem recvRtcpGate_ok (x : Tr S) (w : S.W) (p : Prov) (h : (recvRtcpGate x w).2 = some p)
    (hreq : x.required = true) :
    ∃ se, x.sess = some se ∧ p = .auth (S.keyOf se) ∧ (S.unprotectRtcp se w).2 = true := by
  unfold recvRtcpGate at h
  cases hx : x.sess with
  | none => rw [hx] at h; simp [hreq] at h
  | some se =>
    rw [hx] at h
    by_cases hu : (S.unprotectRtcp se w).2 = true
    · simp [hu] at h; exact ⟨se, rfl, h.symm, hu⟩
    · simp [hu] at h



/-- the events of the part of `recvRtp` after acceptance -/
theorem afterAccept_events (s : St S) (t : Tid) (p : Prov) (v : Bool) (ev : Ev)
    (hev : ev ∈ (afterAccept s t p v).2) :
    (ev = .deliver t .ingressObs p) ∨ (ev = .deliver t .listener p ∧ (s t).bridge = none) ∨
    (∃ b, (s t).bridge = some b ∧
      (ev = .deliver t (.relayObs (b.pick v)) p ∨ ev ∈ (bridgeGate (b.pick v) (s (b.pick v)) t p).2)) := by
  unfold afterAccept at hev
  cases hb : (s t).bridge with
  | some b =>
    rw [hb] at hev
    simp only [relayTo, obsEv, List.mem_append] at hev
    rcases hev with (hev | hev) | hev
    · split at hev <;> simp at hev; exact Or.inl hev
    · split at hev <;> simp at hev; exact Or.inr (Or.inr ⟨b, rfl, Or.inl hev⟩)
    · exact Or.inr (Or.inr ⟨b, rfl, Or.inr hev⟩)
  | none =>
    rw [hb] at hev
    simp only [obsEv, List.mem_append] at hev
    rcases hev with hev | hev
    · split at hev <;> simp at hev; exact Or.inl hev
    · split at hev <;> simp at hev; exact Or.inr (Or.inl ⟨hev, rfl⟩)


end RtcModel.Gate
