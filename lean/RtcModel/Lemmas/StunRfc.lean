/-
Lemmas tying the encoder model to the independent RFC reader (`RtcModel/StunRfc.lean`). Core Lean only.
-/
import RtcModel.Lemmas.Stun
import RtcModel.StunRfc
namespace RtcModel.StunRfc
open RtcModel.Stun RtcModel.C16Bytes RtcModel.Generated

/-- offsets the walk assigns to a TLV list starting at `off` -/
def withOffsets (off : Nat) : List (Nat × Bytes) → List (Nat × Nat × Bytes)
  | [] => []
  | (t, v) :: rest => (off, t, v) :: withOffsets (off + 4 + (v.length + pad4 v.length)) rest

def flat (tvs : List (Nat × Bytes)) : Bytes := (tvs.map (fun p => tlv p.1 p.2)).flatten

theorem walk_tlv (off t : Nat) (v rest : Bytes) (ht : t < 65536) (hv : v.length < 65536) :
    walk off (tlv t v ++ rest) =
      match walk (off + 4 + (v.length + pad4 v.length)) rest with
      | none => none
      | some r => some ((off, t, v) :: r) := by
  simp only [tlv, be16, List.cons_append, List.nil_append, List.append_assoc]
  rw [walk]
  simp only [rd16_be16 ht, rd16_be16 hv]
  have h1 : ¬ (v ++ (zeros (pad4 v.length) ++ rest)).length < v.length + pad4 v.length := by simp
  simp only [h1, ↓reduceIte]
  have h2 : (v ++ (zeros (pad4 v.length) ++ rest)).take v.length = v := take_append_len rfl
  have h3 : (v ++ (zeros (pad4 v.length) ++ rest)).drop (v.length + pad4 v.length) = rest := by
    rw [← List.append_assoc]
    exact drop_append_len (by simp : (v ++ zeros (pad4 v.length)).length = v.length + pad4 v.length)
  rw [h2, h3]
  cases walk (off + 4 + (v.length + pad4 v.length)) rest <;> rfl

theorem walk_nil (off : Nat) : walk off [] = some [] := by rw [walk]

theorem walk_flat (off : Nat) (tvs : List (Nat × Bytes))
    (h : ∀ p ∈ tvs, p.1 < 65536 ∧ p.2.length < 65536) :
    walk off (flat tvs) = some (withOffsets off tvs) := by
  induction tvs generalizing off with
  | nil => simp [flat, withOffsets, walk_nil]
  | cons p ps ih =>
    obtain ⟨t, v⟩ := p
    have hp := h (t, v) (by simp)
    simp only [flat, List.map_cons, List.flatten_cons]
    rw [walk_tlv off t v _ hp.1 hp.2]
    have := ih (off + 4 + (v.length + pad4 v.length)) (fun q hq => h q (by simp [hq]))
    simp only [flat] at this
    rw [this]; rfl

theorem flat_append (a b : List (Nat × Bytes)) : flat (a ++ b) = flat a ++ flat b := by simp [flat]

theorem flat_length_mod (a : List (Nat × Bytes)) : (flat a).length % 4 = 0 := by
  induction a with
  | nil => simp [flat]
  | cons p ps ih =>
    simp only [flat, List.map_cons, List.flatten_cons, List.length_append] at *
    have := tlv_length_mod p.1 p.2; omega

theorem withOffsets_find (off : Nat) (pre post : List (Nat × Bytes)) (t : Nat) (v : Bytes)
    (h : ∀ p ∈ pre, p.1 ≠ t) :
    (withOffsets off (pre ++ (t, v) :: post)).find? (fun a => a.2.1 = t) = some (off + (flat pre).length, t, v) := by
  induction pre generalizing off with
  | nil => simp [withOffsets, flat]
  | cons p ps ih =>
    obtain ⟨t', v'⟩ := p
    have hne : t' ≠ t := h (t', v') (by simp)
    simp only [List.cons_append, withOffsets, List.find?_cons, hne, decide_false]
    rw [ih _ (fun q hq => h q (by simp [hq]))]
    simp only [flat, List.map_cons, List.flatten_cons, List.length_append, tlv_length]
    congr 2; omega

theorem withOffsets_getLast (off : Nat) (pre : List (Nat × Bytes)) (t : Nat) (v : Bytes) :
    (withOffsets off (pre ++ [(t, v)])).getLast? = some (off + (flat pre).length, t, v) := by
  induction pre generalizing off with
  | nil => simp [withOffsets, flat]
  | cons p ps ih =>
    obtain ⟨t', v'⟩ := p
    have := ih (off + 4 + (v'.length + pad4 v'.length))
    simp only [List.cons_append, withOffsets]
    rw [List.getLast?_cons_of_ne_nil (by cases ps <;> simp [withOffsets]), this]
    simp only [flat, List.map_cons, List.flatten_cons, List.length_append, tlv_length]
    congr 2; omega

/-- the encoder's attributes as (type, value) pairs -/
def bodyTvs (tx : Bytes) (attrs : List Attr) : List (Nat × Bytes) := attrs.map (fun a => (attrType a, attrValue tx a))

theorem body_eq_flat (tx : Bytes) (attrs : List Attr) : body tx attrs = flat (bodyTvs tx attrs) := by
  simp [body, flat, bodyTvs, List.map_map, Function.comp_def]

/-- sizes: every attribute value and the whole message fit the 16-bit length fields -/
structure Sized (m : Msg) : Prop where
  vals : ∀ a ∈ m.attrs, (attrValue m.tx a).length < 65536
  total : (body m.tx m.attrs).length + 32 < 65536

theorem bodyTvs_bounds (m : Msg) (hs : Sized m) :
    ∀ p ∈ bodyTvs m.tx m.attrs, p.1 < 65536 ∧ p.2.length < 65536 := by
  intro p hp
  simp only [bodyTvs, List.mem_map] at hp
  obtain ⟨a, ha, rfl⟩ := hp
  exact ⟨attrType_lt a, hs.vals a ha⟩

theorem withLength_hdrL (m : Msg) (x : Bytes) (k n : Nat) : withLength (hdrL m k ++ x) n = hdrL m n ++ x := by
  simp [withLength, hdrL, be16]


def miTvs (P : Prims) (m : Msg) (key : Option Bytes) : List (Nat × Bytes) :=
  match key with
  | none => []
  | some k => [(stunEncAttrMessageIntegrity,
      P.hmac k (hdrL m ((body m.tx m.attrs).length + stunEncMiAttrLen) ++ body m.tx m.attrs))]

def fpTvs (P : Prims) (m : Msg) (key : Option Bytes) (fp : Bool) : List (Nat × Bytes) :=
  if fp then
    [(stunEncAttrFingerprint,
      be32 (P.crc (hdrL m ((body m.tx m.attrs).length + (miPart P m key).length + stunEncFpAttrLen)
        ++ body m.tx m.attrs ++ miPart P m key) ^^^ stunFingerprintXor))]
  else []

theorem miPart_eq (P : Prims) (m : Msg) (key : Option Bytes) : miPart P m key = flat (miTvs P m key) := by
  cases key <;> simp [miPart, miTvs, flat]

theorem fpPart_eq (P : Prims) (m : Msg) (key : Option Bytes) (fp : Bool) :
    fpPart P m key fp = flat (fpTvs P m key fp) := by
  cases fp <;> simp [fpPart, fpTvs, flat]

/-- all attributes of the encoded message, in order -/
def allTvs (P : Prims) (m : Msg) (key : Option Bytes) (fp : Bool) : List (Nat × Bytes) :=
  bodyTvs m.tx m.attrs ++ miTvs P m key ++ fpTvs P m key fp

theorem miPart_length (P : Prims) (m : Msg) (key : Option Bytes) :
    (miPart P m key).length = match key with | none => 0 | some _ => 24 := by
  cases key with
  | none => simp [miPart]
  | some k => simp [miPart, tlv_length, P.hmac_len, pad4]

theorem fpPart_length (P : Prims) (m : Msg) (key : Option Bytes) (fp : Bool) :
    (fpPart P m key fp).length = if fp then 8 else 0 := by
  cases fp <;> simp [fpPart, tlv_length, pad4]

theorem encode_eq_flat (P : Prims) (m : Msg) (key : Option Bytes) (fp : Bool) (hm : m.Wf) :
    encode P m key fp = hdrL m (flat (allTvs P m key fp)).length ++ flat (allTvs P m key fp) := by
  rw [encode_normal_form P m key fp hm, allTvs, flat_append, flat_append, ← body_eq_flat, ← miPart_eq, ← fpPart_eq]
  simp [List.append_assoc, Nat.add_assoc]

theorem allTvs_bounds (P : Prims) (m : Msg) (key : Option Bytes) (fp : Bool) (hs : Sized m) :
    ∀ p ∈ allTvs P m key fp, p.1 < 65536 ∧ p.2.length < 65536 := by
  intro p hp
  simp only [allTvs, List.mem_append] at hp
  rcases hp with (hp | hp) | hp
  · exact bodyTvs_bounds m hs p hp
  · cases key with
    | none => simp [miTvs] at hp
    | some k => simp only [miTvs, List.mem_singleton] at hp; subst hp; simp [P.hmac_len]
  · cases fp with
    | false => simp [fpTvs] at hp
    | true => simp only [fpTvs, ↓reduceIte, List.mem_singleton] at hp; subst hp; simp

theorem allTvs_flat_length (P : Prims) (m : Msg) (key : Option Bytes) (fp : Bool) :
    (flat (allTvs P m key fp)).length =
      (body m.tx m.attrs).length + (miPart P m key).length + (fpPart P m key fp).length := by
  rw [allTvs, flat_append, flat_append, ← body_eq_flat, ← miPart_eq, ← fpPart_eq]; simp [Nat.add_assoc]

theorem allTvs_flat_lt (P : Prims) (m : Msg) (key : Option Bytes) (fp : Bool) (hs : Sized m) :
    (flat (allTvs P m key fp)).length < 65536 := by
  rw [allTvs_flat_length, miPart_length, fpPart_length]
  have := hs.total
  cases key <;> cases fp <;> simp <;> omega


theorem attrType_ne_mi (a : Attr) : attrType a ≠ stunEncAttrMessageIntegrity := by
  cases a <;> simp [attrType]

theorem hdrL_headerOk (m : Msg) (area : Bytes) (htx : m.tx.length = 12) (hlen : area.length < 65536)
    (h4 : area.length % 4 = 0) : headerOk (hdrL m area.length ++ area) = true := by
  have hc : cookieBytes = [0x21, 0x12, 0xA4, 0x42] := by decide
  have hb : ∀ (mm : Method) (c : Class), UInt8.ofNat ((encMethodBits mm ||| encClassBits c) / 256) < 64 := by
    intro mm c; cases mm <;> cases c <;> decide
  simp only [hdrL, be16, hc, List.cons_append, List.nil_append, List.append_assoc, headerOk]
  rw [rd16_be16 hlen]
  simp [hb, htx, h4]
  omega

/-- walking the attribute area of an encoded message yields exactly its attributes -/
theorem walk_encode (P : Prims) (m : Msg) (key : Option Bytes) (fp : Bool) (hm : m.Wf) (hs : Sized m) :
    walk 20 ((encode P m key fp).drop 20) = some (withOffsets 20 (allTvs P m key fp)) := by
  rw [encode_eq_flat P m key fp hm, drop_append_len (hdrL_length m _ hm.tx_len)]
  exact walk_flat 20 _ (allTvs_bounds P m key fp hs)

theorem integrityOk_encode (P : Prims) (m : Msg) (k : Bytes) (fp : Bool) (hm : m.Wf) (hs : Sized m) :
    integrityOk P k (encode P m (some k) fp) = true := by
  unfold integrityOk
  rw [walk_encode P m (some k) fp hm hs]
  have hfind := withOffsets_find 20 (bodyTvs m.tx m.attrs) (fpTvs P m (some k) fp) 8
    (P.hmac k (hdrL m ((body m.tx m.attrs).length + stunEncMiAttrLen) ++ body m.tx m.attrs))
    (by intro p hp; simp only [bodyTvs, List.mem_map] at hp; obtain ⟨a, _, rfl⟩ := hp
        have := attrType_ne_mi a; simpa using this)
  have e : allTvs P m (some k) fp = bodyTvs m.tx m.attrs ++
      (8, P.hmac k (hdrL m ((body m.tx m.attrs).length + stunEncMiAttrLen) ++ body m.tx m.attrs))
        :: fpTvs P m (some k) fp := by simp [allTvs, miTvs]
  rw [e]
  simp only [hfind]
  simp only [P.hmac_len, decide_true, Bool.true_and, decide_eq_true_eq]
  rw [encode_eq_flat P m (some k) fp hm, ← body_eq_flat]
  have e2 : allTvs P m (some k) fp = bodyTvs m.tx m.attrs ++ (miTvs P m (some k) ++ fpTvs P m (some k) fp) := by
    simp [allTvs]
  rw [e2, flat_append, ← body_eq_flat, ← List.append_assoc]
  rw [take_append_len (by simp [hdrL_length m _ hm.tx_len] : (hdrL m _ ++ body m.tx m.attrs).length = 20 + (body m.tx m.attrs).length)]
  rw [withLength_hdrL]
  simp [stunEncMiAttrLen_val]


theorem fingerprintOk_encode (P : Prims) (m : Msg) (key : Option Bytes) (hm : m.Wf) (hs : Sized m) :
    fingerprintOk P (encode P m key true) = true := by
  unfold fingerprintOk
  rw [walk_encode P m key true hm hs]
  have e : allTvs P m key true = (bodyTvs m.tx m.attrs ++ miTvs P m key) ++
      [(32808, be32 (P.crc (hdrL m ((body m.tx m.attrs).length + (miPart P m key).length + stunEncFpAttrLen)
        ++ body m.tx m.attrs ++ miPart P m key) ^^^ stunFingerprintXor))] := by
    simp [allTvs, fpTvs]
  have hl := withOffsets_getLast 20 (bodyTvs m.tx m.attrs ++ miTvs P m key) 32808
    (be32 (P.crc (hdrL m ((body m.tx m.attrs).length + (miPart P m key).length + stunEncFpAttrLen)
        ++ body m.tx m.attrs ++ miPart P m key) ^^^ stunFingerprintXor))
  rw [e]
  simp only [hl]
  have hpre : flat (bodyTvs m.tx m.attrs ++ miTvs P m key) = body m.tx m.attrs ++ miPart P m key := by
    rw [flat_append, ← body_eq_flat, ← miPart_eq]
  rw [hpre]
  rw [encode_normal_form P m key true hm]
  have hfl : (fpPart P m key true).length = 8 := by rw [fpPart_length]; rfl
  have h20 := hdrL_length m ((body m.tx m.attrs).length + (miPart P m key).length + (fpPart P m key true).length) hm.tx_len
  simp only [decide_true, Bool.true_and, Bool.and_eq_true, decide_eq_true_eq]
  constructor
  · simp [hdrL_length m _ hm.tx_len, hfl]; omega
  · have e3 : hdrL m ((body m.tx m.attrs).length + (miPart P m key).length + (fpPart P m key true).length)
          ++ body m.tx m.attrs ++ miPart P m key ++ fpPart P m key true =
        (hdrL m ((body m.tx m.attrs).length + (miPart P m key).length + (fpPart P m key true).length)
          ++ (body m.tx m.attrs ++ miPart P m key)) ++ fpPart P m key true := by
      simp [List.append_assoc]
    rw [e3, take_append_len (by rw [List.length_append, h20])]
    simp [hfl, stunEncFpAttrLen_val, stunFingerprintXor_val, List.append_assoc]


theorem attrStep_mi (tx : Bytes) (d : Decoded) (v : Bytes) : attrStep tx d stunEncAttrMessageIntegrity v = d := by
  simp [attrStep]

theorem attrStep_fp (tx : Bytes) (d : Decoded) (v : Bytes) : attrStep tx d stunEncAttrFingerprint v = d := by
  simp [attrStep]

theorem Attr.Ok.addrWf {a : Attr} (h : a.Ok) : a.AddrWf := by
  cases a <;> first | exact h | trivial

theorem decode_encode (P : Prims) (m : Msg) (key : Option Bytes) (fp : Bool) (htx : m.tx.length = 12)
    (hok : ∀ a ∈ m.attrs, a.Ok) (hs : Sized m) :
    decode (encode P m key fp) = .ok (m.attrs.foldl applyAttr (emptyDecoded m.cls m.method m.tx)) := by
  have hm : m.Wf := ⟨htx, fun a ha => Attr.Ok.addrWf (hok a ha)⟩
  rw [encode_eq_flat P m key fp hm, decode_hdrL m _ htx (allTvs_flat_lt P m key fp hs)]
  have := decodeLoop_tlvs m.tx (emptyDecoded m.cls m.method m.tx) (allTvs P m key fp) []
    (allTvs_bounds P m key fp hs)
  simp only [List.append_nil] at this
  simp only [flat]
  rw [this, decodeLoop_nil]
  simp only [allTvs, List.foldl_append, bodyTvs]
  rw [foldl_attrStep_attrs m.tx _ m.attrs hok htx]
  have h1 : ∀ d, (miTvs P m key).foldl (fun d p => attrStep m.tx d p.1 p.2) d = d := by
    intro d; cases key <;> simp [miTvs, attrStep]
  have h2 : ∀ d, (fpTvs P m key fp).foldl (fun d p => attrStep m.tx d p.1 p.2) d = d := by
    intro d; cases fp <;> simp [fpTvs, attrStep]
  rw [h1, h2]

/-! ### messages built by another implementation -/

/-- an attribute as ANY implementation may put it on the wire: arbitrary padding bytes (RFC 5389 §15: "may be
any value") -/
def tlvP (t : Nat) (v pad : Bytes) : Bytes := be16 t ++ be16 v.length ++ v ++ pad

def flatP (tvs : List (Nat × Bytes × Bytes)) : Bytes := (tvs.map (fun p => tlvP p.1 p.2.1 p.2.2)).flatten

theorem decodeLoop_tlvP (tx : Bytes) (d : Decoded) (t : Nat) (v pad rest : Bytes) (ht : t < 65536)
    (hv : v.length < 65536) (hp : pad.length = pad4 v.length) :
    decodeLoop tx d (tlvP t v pad ++ rest) = decodeLoop tx (attrStep tx d t v) rest := by
  simp only [tlvP, be16, List.cons_append, List.nil_append, List.append_assoc]
  rw [decodeLoop]
  simp only [rd16_be16 ht, rd16_be16 hv]
  have h1 : ¬ v.length > (v ++ (pad ++ rest)).length := by simp
  simp only [h1, ↓reduceIte]
  have h2 : (v ++ (pad ++ rest)).take v.length = v := take_append_len rfl
  have h3 : (v ++ (pad ++ rest)).drop (v.length + pad4 v.length) = rest := by
    rw [← List.append_assoc]; exact drop_append_len (by simp [hp])
  rw [h2, h3]

theorem decodeLoop_flatP (tx : Bytes) (d : Decoded) (tvs : List (Nat × Bytes × Bytes)) (rest : Bytes)
    (h : ∀ p ∈ tvs, p.1 < 65536 ∧ p.2.1.length < 65536 ∧ p.2.2.length = pad4 p.2.1.length) :
    decodeLoop tx d (flatP tvs ++ rest) = decodeLoop tx (tvs.foldl (fun d p => attrStep tx d p.1 p.2.1) d) rest := by
  induction tvs generalizing d with
  | nil => simp [flatP]
  | cons p ps ih =>
    have hp := h p (by simp)
    simp only [flatP, List.map_cons, List.flatten_cons, List.append_assoc, List.foldl_cons] at *
    rw [decodeLoop_tlvP _ _ _ _ _ _ hp.1 hp.2.1 hp.2.2]
    exact ih _ (fun q hq => h q (by simp [hq]))

/-- RFC 5389 §6 figure 3: 14-bit message type from a 12-bit method and a 2-bit class -/
def rfcMsgType (method cls : Nat) : Nat :=
  (method % 16) + (cls % 2) * 16 + (method / 16 % 8) * 32 + (cls / 2 % 2) * 256 + (method / 128 % 32) * 512

def rfcMethodNumber : Method → Nat
  | .binding => 0x001 | .allocate => 0x003 | .refresh => 0x004 | .send => 0x006 | .data => 0x007
  | .createPermission => 0x008 | .channelBind => 0x009
def rfcClassNumber : Class → Nat
  | .request => 0 | .indication => 1 | .success => 2 | .error => 3

theorem dec_rfcMsgType (m : Method) (c : Class) :
    decMethod (rfcMsgType (rfcMethodNumber m) (rfcClassNumber c) &&& stunDecMethodMask) = some m ∧
    decClass (rfcMsgType (rfcMethodNumber m) (rfcClassNumber c) &&& stunDecClassMask) = some c ∧
    rfcMsgType (rfcMethodNumber m) (rfcClassNumber c) < 65536 := by
  cases m <;> cases c <;> decide

theorem foreign_decode (mt : Nat) (cookie tx : Bytes) (tvs : List (Nat × Bytes × Bytes)) (m : Method) (c : Class)
    (hmt : mt < 65536) (hcookie : cookie.length = 4) (htx : tx.length = 12)
    (hm : decMethod (mt &&& stunDecMethodMask) = some m) (hc : decClass (mt &&& stunDecClassMask) = some c)
    (hb : ∀ p ∈ tvs, p.1 < 65536 ∧ p.2.1.length < 65536 ∧ p.2.2.length = pad4 p.2.1.length)
    (hlen : (flatP tvs).length < 65536) :
    decode (be16 mt ++ be16 (flatP tvs).length ++ cookie ++ tx ++ flatP tvs) =
      .ok (tvs.foldl (fun d p => attrStep tx d p.1 p.2.1) (emptyDecoded c m tx)) := by
  simp only [be16, List.cons_append, List.nil_append, List.append_assoc, decode]
  rw [rd16_be16 hmt, rd16_be16 hlen]
  simp only [List.length_cons, List.length_append, htx, hcookie]
  have h1 : ¬ (4 + (12 + (flatP tvs).length) < 16) := by omega
  have h2 : ¬ ((flatP tvs).length + 20 ≠ 4 + (12 + (flatP tvs).length) + 1 + 1 + 1 + 1) := by omega
  simp only [h1, h2, ↓reduceIte, hm, hc]
  have e1 : List.take 12 (List.drop 4 (cookie ++ (tx ++ flatP tvs))) = tx := by
    rw [drop_append_len hcookie]; exact take_append_len htx
  have e2 : List.drop 16 (cookie ++ (tx ++ flatP tvs)) = flatP tvs := by
    rw [show 16 = 4 + 12 by rfl, ← List.drop_drop, drop_append_len hcookie, drop_append_len htx]
  rw [e1, e2]
  have := decodeLoop_flatP tx (emptyDecoded c m tx) tvs [] hb
  simp only [List.append_nil] at this
  rw [this, decodeLoop_nil]


/-- how the decoder reads each attribute another implementation may send (RFC type numbers written out) -/
theorem foreign_attr_readings (tx : Bytes) (d : Decoded) (htx : tx.length = 12) :
    (∀ a : Addr, a.Wf → attrStep tx d 0x0020 (xorValue a tx) = { d with mapped := some a }) ∧
    (∀ a : Addr, a.Wf → attrStep tx d 0x0012 (xorValue a tx) = { d with peer := some a }) ∧
    (∀ a : Addr, a.Wf → attrStep tx d 0x0016 (xorValue a tx) = { d with relayed := some a }) ∧
    (∀ (r0 r1 cls num : UInt8) (reason : Bytes), attrStep tx d 0x0009 (r0 :: r1 :: cls :: num :: reason) =
        { d with errorCode := some (cls.toNat % 8 * 100 + num.toNat) }) ∧
    (∀ v, validUtf8 v = true → attrStep tx d 0x0014 v = { d with realm := some v }) ∧
    (∀ v, validUtf8 v = true → attrStep tx d 0x0015 v = { d with nonce := some v }) ∧
    (∀ v, attrStep tx d 0x0013 v = { d with data := some v }) ∧
    (∀ v, v < 4294967296 → attrStep tx d 0x000D (be32 v) = { d with lifetime := some v }) ∧
    (∀ v, attrStep tx d 0x0025 v = { d with useCandidate := true }) ∧
    (∀ v, v < 4294967296 → attrStep tx d 0x0024 (be32 v) = { d with priority := some v }) ∧
    (∀ t v, t ∉ [0x0020, 0x0012, 0x0016, 0x0009, 0x0014, 0x0015, 0x0013, 0x000D, 0x0025, 0x0024] → attrStep tx d t v = d) := by
  refine ⟨?_, ?_, ?_, ?_, ?_, ?_, ?_, ?_, ?_, ?_, ?_⟩
  · intro a ha; simp [attrStep, parseXor_xorValue a tx ha htx]
  · intro a ha; simp [attrStep, parseXor_xorValue a tx ha htx]
  · intro a ha; simp [attrStep, parseXor_xorValue a tx ha htx]
  · intro r0 r1 cls num reason; simp [attrStep]
  · intro v hv; simp [attrStep, hv]
  · intro v hv; simp [attrStep, hv]
  · intro v; simp [attrStep]
  · intro v hv; simp only [attrStep, be32]; simp [rd32_be32 hv]
  · intro v; simp [attrStep]
  · intro v hv; simp only [attrStep, be32]; simp [rd32_be32 hv]
  · intro t v ht
    simp only [List.mem_cons, List.not_mem_nil, or_false, not_or] at ht
    obtain ⟨h1, h2, h3, h4, h5, h6, h7, h8, h9, h10⟩ := ht
    simp [attrStep, h1, h2, h3, h4, h5, h6, h7, h8, h9, h10]

end RtcModel.StunRfc
