/-
Helper lemmas about the ICE priority model (`RtcModel/IcePrio.lean`). Core Lean only.
-/
import RtcModel.IcePrio
namespace RtcModel.IcePrio
open RtcModel.Generated

/-- RFC 8445 §5.1.2.1 -/
def rfcPriority (typePref localPref component : Nat) : Nat :=
  2 ^ 24 * typePref + 2 ^ 8 * localPref + (256 - component)

theorem combine_eq_rfc (tp lp c : Nat) (htp : tp ≤ 126) (hlp : lp ≤ 65535) (hc1 : 1 ≤ c) (hc2 : c ≤ 256) :
    combine tp lp c = rfcPriority tp lp c := by
  unfold combine rfcPriority u32
  simp only [iceComponentClamp_val, Nat.shiftLeft_eq]
  rw [Nat.min_eq_left hc2]
  have h1 : tp * 2 ^ 24 % 4294967296 = tp * 2 ^ 24 := Nat.mod_eq_of_lt (by omega)
  have h2 : lp * 2 ^ 8 % 4294967296 = lp * 2 ^ 8 := Nat.mod_eq_of_lt (by omega)
  rw [h1, h2]
  have e1 : tp * 2 ^ 24 ||| lp * 2 ^ 8 = tp * 2 ^ 24 + lp * 2 ^ 8 := by
    have hb : lp * 2 ^ 8 < 2 ^ 24 := by omega
    have := Nat.shiftLeft_add_eq_or_of_lt (i := 24) (b := lp * 2 ^ 8) hb tp
    simp only [Nat.shiftLeft_eq] at this
    exact this.symm
  rw [e1]
  have e2 : (tp * 2 ^ 24 + lp * 2 ^ 8) ||| (256 - c) = tp * 2 ^ 24 + lp * 2 ^ 8 + (256 - c) := by
    have hb : 256 - c < 2 ^ 8 := by omega
    have := Nat.shiftLeft_add_eq_or_of_lt (i := 8) (b := 256 - c) hb (tp * 2 ^ 16 + lp)
    simp only [Nat.shiftLeft_eq] at this
    have e : (tp * 2 ^ 16 + lp) * 2 ^ 8 = tp * 2 ^ 24 + lp * 2 ^ 8 := by
      rw [Nat.add_mul, Nat.mul_assoc, ← Nat.pow_add]
    rw [e] at this
    exact this.symm
  rw [e2]; omega

theorem pairPriority_swap (l r : Nat) : pairPriority .controlling l r = pairPriority .controlled r l := rfl

end RtcModel.IcePrio
