/- C07 — WP proofs for `RtcModel.C07Dtls`. -/
import RtcModel.C07Dtls
namespace RtcModel.C07.Dtls
open RtcModel.C07

theorem recordDecode_safe {B : Nat} {Q b n} (hn : n ≤ B)
    (h : ∀ r b', (r ≠ [] → b'.rem + 13 ≤ b.rem) → Q r b' n) : safe (· ≤ B) recordDecode Q b n := by
  unfold recordDecode
  cur_auto
  all_goals (apply h; intro hne; first | omega | exact absurd rfl hne)

theorem handshakeDecode_safe {B : Nat} {Q b n} (hn : n ≤ B)
    (h : ∀ r b', (r ≠ [] → b'.rem + 12 ≤ b.rem) → Q r b' n) : safe (· ≤ B) handshakeDecode Q b n := by
  unfold handshakeDecode
  cur_auto
  all_goals (apply h; intro hne; first | omega | exact absurd rfl hne)

attribute [local irreducible] recordDecode handshakeDecode

theorem recordWalk_safe (b : Buf) (n : Nat) : safe (· ≤ n) recordWalk (fun _ _ n' => n' ≤ n) b n := by
  unfold recordWalk
  cur_auto
  apply safe_loop (fun _ _ n' => n' ≤ n) (fun _ b' => b'.rem)
  · intro s b' n' hinv
    unfold recordWalkBody
    cur_auto
    apply safe_attemptD' (B := n')
    · intro k hk; cur_auto
    · apply recordDecode_safe (by omega)
      intro r b'' hr
      cur_auto
      rename_i h1 h2
      have := hr h2
      omega
  · omega
  · omega

theorem handshakeWalk_safe (b : Buf) (n : Nat) : safe (· ≤ n) handshakeWalk (fun _ _ n' => n' ≤ n) b n := by
  unfold handshakeWalk
  cur_auto
  apply safe_loop (fun _ _ n' => n' ≤ n) (fun _ b' => b'.rem)
  · intro s b' n' hinv
    unfold handshakeWalkBody
    cur_auto
    apply safe_attemptD' (B := n')
    · intro k hk; cur_auto
    · apply handshakeDecode_safe (by omega)
      intro r b'' hr
      cur_auto
      rename_i h1 h2
      have := hr h2
      omega
  · omega
  · omega

theorem clientHelloDecode_safe (b : Buf) :
    safe (· ≤ b.rem) clientHelloDecode (fun _ _ n' => n' ≤ b.rem) b 0 := by
  unfold clientHelloDecode
  cur_auto

theorem serverHelloDecode_safe (b : Buf) :
    safe (· ≤ b.rem) serverHelloDecode (fun _ _ n' => n' ≤ b.rem) b 0 := by
  unfold serverHelloDecode
  cur_auto

theorem helloVerifyDecode_safe (b : Buf) :
    safe (· ≤ b.rem) helloVerifyDecode (fun _ _ n' => n' ≤ b.rem) b 0 := by
  unfold helloVerifyDecode
  cur_auto

theorem serverKeyExchangeDecode_safe (b : Buf) :
    safe (· ≤ b.rem) serverKeyExchangeDecode (fun _ _ n' => n' ≤ b.rem) b 0 := by
  unfold serverKeyExchangeDecode
  cur_auto

theorem certificateDecode_safe (b : Buf) :
    safe (· ≤ 8 * b.rem) certificateDecode (fun _ _ n' => n' ≤ 8 * b.rem) b 0 := by
  unfold certificateDecode
  cur_auto
  rename_i sub _ hsub _
  apply safe_loop (fun _ b' n' => b'.rem ≤ sub.rem ∧ n' + 8 * b'.rem ≤ 8 * sub.rem) (fun _ b' => b'.rem)
  · intro s b' n' hinv
    unfold certEntriesBody szVec
    cur_auto
  · omega
  · omega

theorem clientKeyExchangeDecode_safe (b : Buf) :
    safe (· ≤ b.rem) clientKeyExchangeDecode (fun _ _ n' => n' ≤ b.rem) b 0 := by
  unfold clientKeyExchangeDecode
  cur_auto

theorem finishedDecode_safe (b : Buf) :
    safe (· ≤ b.rem) finishedDecode (fun _ _ n' => n' ≤ b.rem) b 0 := by
  unfold finishedDecode
  cur_auto

theorem srtpProfiles_safe {B : Nat} (d : Array UInt8) (len : Nat) (s0 : Nat × Nat × Nat) (fuel : Nat) {Q b n}
    (hf : d.size < fuel) (hn : n + d.size ≤ B + s0.1) (hs : s0.1 ≤ d.size)
    (h : ∀ r n', n' + s0.1 ≤ n + d.size → Q r b n') :
    safe (· ≤ B) (loopM (srtpProfilesBody d len) fuel s0) Q b n := by
  apply safe_loop (fun s b' n' => b' = b ∧ s.1 ≤ d.size ∧ n' + s0.1 ≤ n + s.1) (fun s _ => d.size - s.1)
  · intro s b' n' hinv
    obtain ⟨hb, h1, h2⟩ := hinv
    subst hb
    unfold srtpProfilesBody
    cur_auto
    apply h; omega
  · exact ⟨rfl, hs, by omega⟩
  · domega

theorem clientExtWalk_safe (b : Buf) :
    safe (· ≤ 2 * b.rem) clientExtWalk (fun _ _ n' => n' ≤ 2 * b.rem) b 0 := by
  unfold clientExtWalk
  cur_auto
  apply safe_loop (fun _ b' n' => b'.rem ≤ b.rem ∧ n' + b'.rem ≤ 2 * b.rem) (fun _ b' => b'.rem)
  · intro s b' n' hinv
    unfold clientExtBody
    cur_auto
    simp only [Buf.size_rest] at *
    apply srtpProfiles_safe _ _ _ _ (by simp only [Buf.size_rest]; omega) (by simp only [Buf.size_rest]; omega)
      (by simp only [Buf.size_rest]; omega)
    intro r n'' hr
    simp only [Buf.size_rest] at hr
    cur_auto
  · omega
  · omega

theorem serverExtWalk_safe (b : Buf) :
    safe (· ≤ b.rem) serverExtWalk (fun _ _ n' => n' ≤ b.rem) b 0 := by
  unfold serverExtWalk
  cur_auto
  apply safe_loop (fun _ b' n' => n' = b.rem) (fun _ b' => b'.rem)
  · intro s b' n' hinv
    unfold serverExtBody
    cur_auto
    all_goals (simp only [Buf.size_rest] at *; omega)
  · omega
  · omega

theorem seqRun_safe (k s : Nat) (b : Buf) (n : Nat) (hs : s ≤ 65535) :
    safe (· ≤ n) (seqRun k s) (fun r _ n' => r ≤ 65535 ∧ n' = n) b n := by
  induction k generalizing s with
  | zero => unfold seqRun; exact safe_pure ⟨hs, rfl⟩
  | succ k ih =>
    unfold seqRun seqAdvance
    cur_auto
    exact ih _ (by omega)

/-- invariant of the reassembly bookkeeping: the receive counter stays in u16 and the reassembly buffer below 2^24 -/
def HsCtx.Ok (c : HsCtx) : Prop := c.recvSeq ≤ 65535 ∧ c.incLen < 16777216

theorem acceptSeq_le (isClient : Bool) (recv : Nat) (postHvr : Bool) (seq : Nat) :
    (acceptSeq isClient recv postHvr seq).2 ≤ max recv seq := by
  unfold acceptSeq
  repeat' split
  all_goals (dsimp only; omega)

theorem reassemble_safe {E : Nat → Prop} (c : HsCtx) (m : HsMsg) {Q b n}
    (hc : c.Ok) (htot : m.total < 16777216) (hE : ∀ k, E k)
    (h : ∀ r n', r.2.Ok → Q r b n') : safe E (reassemble c m) Q b n := by
  unfold reassemble seqAdvance
  obtain ⟨h1, h2⟩ := hc
  cur_auto
  all_goals (first | exact hE _ | skip)
  all_goals (apply h; unfold HsCtx.Ok; dsimp only; omega)

attribute [local irreducible] reassemble

theorem onMessage_safe {E : Nat → Prop} (isClient : Bool) (c : HsCtx) (m : HsMsg) {Q b n}
    (hc : c.Ok) (hseq : m.seq ≤ 65535) (htot : m.total < 16777216) (hE : ∀ k, E k)
    (h : ∀ r n', r.2.Ok → Q r b n') : safe E (onMessage isClient c m) Q b n := by
  unfold onMessage
  have ha := acceptSeq_le isClient c.recvSeq c.postHvr m.seq
  obtain ⟨h1, h2⟩ := hc
  dsimp only
  apply safe_ite <;> intro hacc
  · apply safe_pure; apply h; exact ⟨h1, h2⟩
  · apply reassemble_safe _ _ _ htot hE h
    unfold HsCtx.Ok; dsimp only
    exact ⟨by omega, h2⟩

attribute [local irreducible] onMessage

theorem onMessages_safe (isClient : Bool) (ms : List HsMsg) (c : HsCtx) (b : Buf) (n : Nat) (hc : c.Ok)
    (hm : ∀ m ∈ ms, m.seq ≤ 65535 ∧ m.total < 16777216) :
    safe (fun _ => True) (onMessages isClient c ms) (fun c' _ _ => c'.Ok) b n := by
  induction ms generalizing c n with
  | nil => unfold onMessages; exact safe_pure hc
  | cons m rest ih =>
    unfold onMessages
    apply safe_bind
    have hmm := hm m (by simp)
    apply onMessage_safe _ _ _ hc hmm.1 hmm.2 (fun _ => trivial)
    intro r n' hr
    exact ih r.2 n' hr (fun m' hm' => hm m' (by simp [hm']))

end RtcModel.C07.Dtls
