/- C07 — WP proofs for `RtcModel.C07Dtls`. -/
import RtcModel.C07Dtls
namespace RtcModel.C07.Dtls
open RtcModel.C07

theorem recordDecodeP_safe {B : Nat} {Q b n} (hn : n ≤ B)
    (h : ∀ r b', (r.1 ≠ [] → b'.rem + 13 ≤ b.rem) → Q r b' n) : safe (· ≤ B) recordDecodeP Q b n := by
  unfold recordDecodeP
  cur_auto
  all_goals (apply h; intro hne; first | omega | exact absurd rfl hne)

theorem recordDecode_safe {B : Nat} {Q b n} (hn : n ≤ B)
    (h : ∀ r b', (r ≠ [] → b'.rem + 13 ≤ b.rem) → Q r b' n) : safe (· ≤ B) recordDecode Q b n := by
  unfold recordDecode
  apply safe_bind
  apply recordDecodeP_safe hn
  intro r b' hr
  apply safe_pure
  apply h
  intro hne
  apply hr
  intro h0
  simp [h0] at hne

theorem handshakeDecode_safe {B : Nat} {Q b n} (hn : n ≤ B)
    (h : ∀ r b', (r ≠ [] → b'.rem + 12 ≤ b.rem) → Q r b' n) : safe (· ≤ B) handshakeDecode Q b n := by
  unfold handshakeDecode
  cur_auto
  all_goals (apply h; intro hne; first | omega | exact absurd rfl hne)

/-- same, additionally exposing that the 24-bit / 16-bit header fields are in range -/
theorem handshakeDecode_safe' {B : Nat} {Q b n} (hn : n ≤ B)
    (h : ∀ r b', (r ≠ [] → b'.rem + 12 ≤ b.rem) →
      (∀ t total seq fo fl x, r = [t, total, seq, fo, fl, x] → total < 16777216 ∧ seq < 65536) → Q r b' n) :
    safe (· ≤ B) handshakeDecode Q b n := by
  unfold handshakeDecode
  cur_auto
  all_goals (apply h)
  all_goals (first
    | (intro hne; first | omega | exact absurd rfl hne)
    | (intro t total seq fo fl x heq; simp only [List.cons.injEq, and_true] at heq; omega)
    | (intro t total seq fo fl x heq; simp at heq))

attribute [local irreducible] recordDecodeP recordDecode handshakeDecode

theorem clientHelloDecode_safe (b : Buf) :
    safe (· ≤ b.rem) clientHelloDecode (fun _ _ n' => n' ≤ b.rem) b 0 := by
  unfold clientHelloDecode
  cur_auto

theorem serverHelloDecode_safe (b : Buf) :
    safe (· ≤ b.rem) serverHelloDecode (fun _ _ n' => n' ≤ b.rem) b 0 := by
  unfold serverHelloDecode
  cur_auto

theorem helloVerifyDecode_safe (b : Buf) :
    safe (· ≤ b.rem) helloVerifyDecode (fun _ _ n' => n' ≤ b.rem) b 0 := by
  unfold helloVerifyDecode
  cur_auto

theorem serverKeyExchangeDecode_safe (b : Buf) :
    safe (· ≤ b.rem) serverKeyExchangeDecode (fun _ _ n' => n' ≤ b.rem) b 0 := by
  unfold serverKeyExchangeDecode
  cur_auto

theorem certificateDecode_safe (b : Buf) :
    safe (· ≤ 8 * b.rem) certificateDecode (fun _ _ n' => n' ≤ 8 * b.rem) b 0 := by
  unfold certificateDecode
  cur_auto
  rename_i sub _ hsub _
  apply safe_loop (fun _ b' n' => b'.rem ≤ sub.rem ∧ n' + 8 * b'.rem ≤ 8 * sub.rem) (fun _ b' => b'.rem)
  · intro s b' n' hinv
    unfold certEntriesBody szVec
    cur_auto
  · omega
  · omega

theorem clientKeyExchangeDecode_safe (b : Buf) :
    safe (· ≤ b.rem) clientKeyExchangeDecode (fun _ _ n' => n' ≤ b.rem) b 0 := by
  unfold clientKeyExchangeDecode
  cur_auto

theorem finishedDecode_safe (b : Buf) :
    safe (· ≤ b.rem) finishedDecode (fun _ _ n' => n' ≤ b.rem) b 0 := by
  unfold finishedDecode
  cur_auto

theorem srtpProfiles_safe {B : Nat} (d : Array UInt8) (len : Nat) (s0 : Nat × Nat × Nat) (fuel : Nat) {Q b n}
    (hf : d.size < fuel) (hn : n + d.size ≤ B + s0.1) (hs : s0.1 ≤ d.size)
    (h : ∀ r n', n' + s0.1 ≤ n + d.size → Q r b n') :
    safe (· ≤ B) (loopM (srtpProfilesBody d len) fuel s0) Q b n := by
  apply safe_loop (fun s b' n' => b' = b ∧ s.1 ≤ d.size ∧ n' + s0.1 ≤ n + s.1) (fun s _ => d.size - s.1)
  · intro s b' n' hinv
    obtain ⟨hb, h1, h2⟩ := hinv
    subst hb
    unfold srtpProfilesBody
    cur_auto
    apply h; omega
  · exact ⟨rfl, hs, by omega⟩
  · domega

theorem clientExtWalk_safe (b : Buf) :
    safe (· ≤ 2 * b.rem) clientExtWalk (fun _ _ n' => n' ≤ 2 * b.rem) b 0 := by
  unfold clientExtWalk
  cur_auto
  apply safe_loop (fun _ b' n' => b'.rem ≤ b.rem ∧ n' + b'.rem ≤ 2 * b.rem) (fun _ b' => b'.rem)
  · intro s b' n' hinv
    unfold clientExtBody
    cur_auto
    simp only [Buf.size_rest] at *
    apply srtpProfiles_safe _ _ _ _ (by simp only [Buf.size_rest]; omega) (by simp only [Buf.size_rest]; omega)
      (by simp only [Buf.size_rest]; omega)
    intro r n'' hr
    simp only [Buf.size_rest] at hr
    cur_auto
  · omega
  · omega

theorem serverExtWalk_safe (b : Buf) :
    safe (· ≤ b.rem) serverExtWalk (fun _ _ n' => n' ≤ b.rem) b 0 := by
  unfold serverExtWalk
  cur_auto
  apply safe_loop (fun _ b' n' => n' = b.rem) (fun _ b' => b'.rem)
  · intro s b' n' hinv
    unfold serverExtBody
    cur_auto
    all_goals (simp only [Buf.size_rest] at *; omega)
  · omega
  · omega

theorem seqRun_safe (k s : Nat) (b : Buf) (n : Nat) (hs : s ≤ 65535) :
    safe (· ≤ n) (seqRun k s) (fun r _ n' => r ≤ 65535 ∧ n' = n) b n := by
  induction k generalizing s with
  | zero => unfold seqRun; exact safe_pure ⟨hs, rfl⟩
  | succ k ih =>
    unfold seqRun seqAdvance
    cur_auto
    exact ih _ (by omega)

/-- invariant of the bookkeeping: the receive counter stays in u16 and the reassembly buffer below 2^24 bytes -/
def HsCtx.Ok (c : HsCtx) : Prop := c.recvSeq ≤ 65535 ∧ c.incLen < 16777216

abbrev T : Nat → Prop := fun _ => True

theorem acceptSeq_le (isClient : Bool) (recv : Nat) (postHvr : Bool) (typ seq : Nat) :
    (acceptSeq isClient recv postHvr typ seq).2.1 ≤ max recv seq := by
  unfold acceptSeq
  repeat' split
  all_goals (dsimp only; omega)

theorem seqAdvanceAttempt_safe {Q : (Bool × Nat) → Buf → Nat → Prop} (x : Nat) {b n}
    (h : ∀ r n', (r.1 = true → r.2 ≤ 65535) → Q r b n') : safe T (attemptD (seqAdvance x) 0) Q b n := by
  apply safe_attemptD
  unfold seqAdvance
  apply safe_ite <;> intro hx
  · apply safe_bail; apply h; intro hh; cases hh
  · apply safe_pure; apply h; intro _; dsimp only; omega

theorem reassemble_safe (c : HsCtx) (m : HsMsg) {Q b n} (hc : c.Ok) (htot : m.total < 16777216)
    (h : ∀ c' n', c'.Ok → Q c' b n') : safe T (reassemble c m) Q b n := by
  unfold reassemble
  obtain ⟨h1, h2⟩ := hc
  apply safe_ite <;> intro hfrag
  · dsimp only
    apply safe_ite <;> intro hoff
    · apply safe_pure; apply h; unfold HsCtx.Ok; dsimp only; refine ⟨h1, ?_⟩; split <;> omega
    apply safe_bind; apply safe_alloc
    apply safe_ite <;> intro hlt
    · apply safe_pure; apply h; unfold HsCtx.Ok; dsimp only; exact ⟨h1, by omega⟩
    apply safe_bind; apply safe_alloc
    apply safe_bind
    apply seqAdvanceAttempt_safe
    intro r n' hr
    apply safe_ite <;> intro hf
    · apply safe_pure; apply h; unfold HsCtx.Ok; dsimp only; exact ⟨h1, by omega⟩
    · apply safe_pure; apply h; unfold HsCtx.Ok; dsimp only
      exact ⟨hr (by simpa using hf), by omega⟩
  · apply safe_bind
    apply seqAdvanceAttempt_safe
    intro r n' hr
    apply safe_ite <;> intro hf
    · apply safe_pure; apply h; unfold HsCtx.Ok; dsimp only; exact ⟨h1, h2⟩
    · apply safe_bind; apply safe_alloc
      apply safe_pure; apply h; unfold HsCtx.Ok; dsimp only
      exact ⟨hr (by simpa using hf), h2⟩

attribute [local irreducible] reassemble

theorem onMessage_safe (isClient : Bool) (c : HsCtx) (m : HsMsg) {Q b n}
    (hc : c.Ok) (hseq : m.seq ≤ 65535) (htot : m.total < 16777216)
    (h : ∀ c' n', c'.Ok → Q c' b n') : safe T (onMessage isClient c m) Q b n := by
  unfold onMessage
  have ha := acceptSeq_le isClient c.recvSeq c.postHvr m.typ m.seq
  obtain ⟨h1, h2⟩ := hc
  dsimp only
  apply safe_ite <;> intro hacc
  · apply safe_pure; apply h; exact ⟨h1, h2⟩
  · apply reassemble_safe _ _ _ htot h
    unfold HsCtx.Ok; dsimp only
    exact ⟨by omega, h2⟩

attribute [local irreducible] onMessage

theorem payloadWalk_safe (isClient : Bool) (c : HsCtx) {Q b n} (hc : c.Ok)
    (h : ∀ c' b' n', c'.Ok → Q c' b' n') : safe T (payloadWalk isClient c) Q b n := by
  unfold payloadWalk
  apply safe_bind; apply safe_remaining
  apply safe_loop (fun c' _ _ => c'.Ok) (fun _ b' => b'.rem)
  · intro c' b' n' hc'
    unfold payloadBody
    apply safe_bind; apply safe_remaining
    apply safe_ite <;> intro h0
    · apply safe_pure; exact h _ _ _ hc'
    apply safe_bind
    apply safe_attemptD
    apply safe_weaken_err (E := (· ≤ n'))
    · apply handshakeDecode_safe' (Nat.le_refl _)
      intro r b'' hprog hfields
      apply safe_ite <;> intro hr1
      · apply safe_pure; exact h _ _ _ hc'
      split
      · rename_i t total seq fo fl x heq
        have hf := hfields t total seq fo fl x heq
        have hp := hprog (by intro hnil; rw [hnil] at heq; simp at heq)
        apply safe_bind
        apply onMessage_safe _ _ _ hc' (show seq ≤ 65535 by omega) hf.1
        intro c'' n'' hc''
        apply safe_ite <;> intro hfail
        · apply safe_pure; exact h _ _ _ hc''
        · apply safe_pure; exact ⟨hc'', by omega⟩
      · apply safe_pure; exact h _ _ _ hc'
    · intro k _
      apply safe_ite <;> intro hr1
      · apply safe_pure; exact h _ _ _ hc'
      · exact absurd hr1 (by simp)
  · exact hc
  · omega

attribute [local irreducible] payloadWalk

theorem payloadHistory_safe (isClient : Bool) (ps : List (List UInt8)) (c : HsCtx) (b : Buf) (n : Nat) (hc : c.Ok) :
    safe T (payloadHistory isClient c ps) (fun cs _ _ => ∀ c' ∈ cs, c'.Ok) b n := by
  induction ps generalizing c n with
  | nil => unfold payloadHistory; apply safe_pure; intro c' hc'; simp at hc'
  | cons p rest ih =>
    unfold payloadHistory
    apply safe_bind; apply safe_onBuf
    apply payloadWalk_safe _ _ hc
    intro c' b' n' hc'
    dsimp only
    apply safe_bind
    apply safe_mono (ih c' n' hc')
    intro cs _ _ hcs
    apply safe_pure
    intro x hx
    rcases List.mem_cons.mp hx with rfl | hx
    · exact hc'
    · exact hcs x hx

theorem datagramWalk_safe (isClient : Bool) (c : HsCtx) {Q b n} (hc : c.Ok)
    (h : ∀ c' b' n', c'.Ok → Q c' b' n') : safe T (datagramWalk isClient c) Q b n := by
  unfold datagramWalk
  apply safe_bind; apply safe_remaining
  apply safe_loop (fun c' _ _ => c'.Ok) (fun _ b' => b'.rem)
  · intro c' b' n' hc'
    unfold datagramBody
    apply safe_bind; apply safe_remaining
    apply safe_ite <;> intro h0
    · apply safe_pure; exact h _ _ _ hc'
    apply safe_bind
    apply safe_attemptD
    apply safe_weaken_err (E := (· ≤ n'))
    · apply recordDecodeP_safe (Nat.le_refl _)
      intro r b'' hprog
      apply safe_ite <;> intro hr1
      · apply safe_pure; exact h _ _ _ hc'
      split
      · rename_i ct x1 x2 epoch x3 x4 heq
        have hp := hprog (by intro hnil; rw [hnil] at heq; simp at heq)
        apply safe_ite <;> intro h1
        · apply safe_pure; exact ⟨hc', by omega⟩
        apply safe_ite <;> intro h2
        · apply safe_pure; exact h _ _ _ hc'
        apply safe_ite <;> intro h3
        · apply safe_bind; apply safe_onBuf
          apply payloadWalk_safe _ _ hc'
          intro c'' b3 n3 hc''
          apply safe_ite <;> intro hf
          · apply safe_pure; exact h _ _ _ hc''
          · apply safe_pure; exact ⟨hc'', by omega⟩
        apply safe_ite <;> intro h4
        · apply safe_bind; apply safe_onBuf
          apply safe_bind; apply safe_remaining
          apply safe_ite <;> intro h5
          · apply safe_peek (by omega); intro v _
            apply safe_pure; exact ⟨hc', by omega⟩
          · apply safe_pure
            apply safe_pure; exact ⟨hc', by omega⟩
        · apply safe_pure; exact ⟨hc', by omega⟩
      · apply safe_pure; exact h _ _ _ hc'
    · intro k _
      apply safe_ite <;> intro hr1
      · apply safe_pure; exact h _ _ _ hc'
      · exact absurd hr1 (by simp)
  · exact hc
  · omega

attribute [local irreducible] datagramWalk

theorem datagramHistory_safe (isClient : Bool) (ds : List (List UInt8)) (c : HsCtx) (b : Buf) (n : Nat) (hc : c.Ok) :
    safe T (datagramHistory isClient c ds) (fun cs _ _ => ∀ c' ∈ cs, c'.Ok) b n := by
  induction ds generalizing c n with
  | nil => unfold datagramHistory; apply safe_pure; intro c' hc'; simp at hc'
  | cons d rest ih =>
    unfold datagramHistory
    apply safe_bind; apply safe_onBuf
    apply datagramWalk_safe _ _ hc
    intro c' b' n' hc'
    dsimp only
    apply safe_bind
    apply safe_mono (ih c' n' hc')
    intro cs _ _ hcs
    apply safe_pure
    intro x hx
    rcases List.mem_cons.mp hx with rfl | hx
    · exact hc'
    · exact hcs x hx

end RtcModel.C07.Dtls
