/- Helper lemmas: rejection leaves state alone; the SRTCP index of a receive context is dead state (C05). -/
import RtcModel.Lemmas.Srtp
namespace RtcModel.Srtp
open RtcModel.C04 RtcModel.Generated

/-! ### context level: the four outcomes of `unprotect` -/

theorem unprotectRtp_cases (S : Suite) (c : Ctx) (h : Hdr) (p : Bool) (body : Bytes) :
    (body.length < c.profile.tagLen ∧ c.unprotectRtp S h p body = (.error .tooShort, c)) ∨
    (¬ body.length < c.profile.tagLen ∧ ∃ e, c.openRtp S (writeHdr h p) body h.seq (c.estimate h.seq) = .error e ∧
        c.unprotectRtp S h p body = (.error e, c)) ∨
    (¬ body.length < c.profile.tagLen ∧ ∃ pt e, c.openRtp S (writeHdr h p) body h.seq (c.estimate h.seq) = .ok pt ∧
        stripPadding p pt = .error e ∧ c.unprotectRtp S h p body = (.error e, c)) ∨
    (¬ body.length < c.profile.tagLen ∧ ∃ pt payload padLen,
        c.openRtp S (writeHdr h p) body h.seq (c.estimate h.seq) = .ok pt ∧
        stripPadding p pt = .ok (payload, padLen) ∧
        c.unprotectRtp S h p body = (.ok ⟨h, payload, padLen⟩, c.updated h.seq (c.estimate h.seq))) := by
  unfold Ctx.unprotectRtp
  by_cases h0 : body.length < c.profile.tagLen
  · left; exact ⟨h0, by simp [h0]⟩
  · right
    cases ho : c.openRtp S (writeHdr h p) body h.seq (c.estimate h.seq) with
    | error e => left; exact ⟨h0, e, rfl, by simp [h0, ho]⟩
    | ok pt =>
      right
      cases hs : stripPadding p pt with
      | error e => left; exact ⟨h0, pt, e, rfl, hs, by simp [h0, ho, hs]⟩
      | ok r =>
        obtain ⟨pl, pd⟩ := r
        right; exact ⟨h0, pt, pl, pd, rfl, hs, by simp [h0, ho, hs]⟩

theorem unprotectRtp_err_keeps (S : Suite) (c : Ctx) (h : Hdr) (p : Bool) (body : Bytes) (e : Err)
    (he : (c.unprotectRtp S h p body).1 = .error e) : (c.unprotectRtp S h p body).2 = c := by
  rcases unprotectRtp_cases S c h p body with ⟨_, hr⟩ | ⟨_, _, _, hr⟩ | ⟨_, _, _, _, _, hr⟩ | ⟨_, _, _, _, _, _, hr⟩
  all_goals (rw [hr] at he ⊢)
  · simp at he

theorem unprotectRtp_ok_state (S : Suite) (c : Ctx) (h : Hdr) (p : Bool) (body : Bytes) (pkt : Pkt)
    (hok : (c.unprotectRtp S h p body).1 = .ok pkt) :
    (c.unprotectRtp S h p body).2 = c.updated h.seq (c.estimate h.seq) := by
  rcases unprotectRtp_cases S c h p body with ⟨_, hr⟩ | ⟨_, _, _, hr⟩ | ⟨_, _, _, _, _, hr⟩ | ⟨_, _, _, _, _, _, hr⟩
  all_goals (rw [hr] at hok ⊢)
  all_goals (first | (simp at hok; done) | skip)

/-- forget the SRTCP index -/
def Ctx.forget (c : Ctx) : Ctx := { c with rtcpIndex := 0 }
def Ctx.setIdx (c : Ctx) (i : Nat) : Ctx := { c with rtcpIndex := i }

@[simp] theorem setIdx_forget (c : Ctx) (i : Nat) : (c.setIdx i).forget = c.forget := rfl
@[simp] theorem forget_ssrc (c : Ctx) : c.forget.ssrc = c.ssrc := rfl
@[simp] theorem forget_lastUsed (c : Ctx) : c.forget.lastUsed = c.lastUsed := rfl

theorem setIdx_self (c : Ctx) : c.setIdx c.rtcpIndex = c := by cases c; rfl

theorem bumpRtcp_forget (c : Ctx) (i : Nat) : (c.bumpRtcp i).forget = c.forget := by
  unfold Ctx.bumpRtcp; split <;> rfl

theorem eq_setIdx_of_forget (a b : Ctx) (h : a.forget = b.forget) : a = b.setIdx a.rtcpIndex := by
  cases a; cases b
  simp only [Ctx.forget, Ctx.setIdx, Ctx.mk.injEq] at h ⊢
  obtain ⟨h1, h2, h3, h4, h5, h6, _, h8⟩ := h
  exact ⟨h1, h2, h3, h4, h5, h6, trivial, h8⟩


theorem unprotectRtcp_state_forget (S : Suite) (c : Ctx) (pkt : Bytes) :
    (c.unprotectRtcp S pkt).2.forget = c.forget := by
  unfold Ctx.unprotectRtcp
  simp only
  by_cases h0 : pkt.length < c.profile.rtcpTagLen + 4
  · rw [if_pos h0]
  · rw [if_neg h0]
    by_cases hg : c.profile = .gcm
    · rw [if_pos hg]
      split
      · rfl
      · exact bumpRtcp_forget _ _
    · rw [if_neg hg]
      split
      · rfl
      · split <;> exact bumpRtcp_forget _ _

/-- a failed `unprotect_rtcp` changes nothing (all profiles — since the `fix:` commit that moved the
GCM index update behind authentication) -/
theorem unprotectRtcp_err_keeps (S : Suite) (c : Ctx) (pkt : Bytes) (e : Err)
    (he : (c.unprotectRtcp S pkt).1 = .error e) : (c.unprotectRtcp S pkt).2 = c := by
  unfold Ctx.unprotectRtcp at he ⊢
  simp only at he ⊢
  by_cases h0 : pkt.length < c.profile.rtcpTagLen + 4
  · rw [if_pos h0]
  · rw [if_neg h0] at he ⊢
    by_cases hg : c.profile = .gcm
    · rw [if_pos hg] at he ⊢
      split
      · rfl
      · rename_i ho; rw [ho] at he; simp at he
    · rw [if_neg hg] at he ⊢
      split
      · rfl
      · rename_i htag
        rw [if_neg htag] at he
        split at he <;> simp at he


theorem unprotectRtcp_ok_tag (S : Suite) (c : Ctx) (pkt out : Bytes) (hg : c.profile ≠ .gcm)
    (hacc : (c.unprotectRtcp S pkt).1 = .ok out) :
    pkt.drop (pkt.length - c.profile.rtcpTagLen) = rtcpTag S c (pkt.take (pkt.length - c.profile.rtcpTagLen)) := by
  unfold Ctx.unprotectRtcp at hacc
  simp only at hacc
  by_cases h0 : pkt.length < c.profile.rtcpTagLen + 4
  · rw [if_pos h0] at hacc; simp at hacc
  · rw [if_neg h0, if_neg hg] at hacc
    by_cases ht : pkt.drop (pkt.length - c.profile.rtcpTagLen) = rtcpTag S c (pkt.take (pkt.length - c.profile.rtcpTagLen))
    · exact ht
    · rw [if_pos ht] at hacc; simp at hacc

/-- AEAD: an accepted SRTCP packet opens under the nonce and AAD derived from its own bytes -/
theorem unprotectRtcp_ok_open (S : Suite) (c : Ctx) (pkt out : Bytes) (hg : c.profile = .gcm)
    (hacc : (c.unprotectRtcp S pkt).1 = .ok out) :
    (S.aeadOpen c.rtcp.ck (gcmRtcpNonce c.rtcp.salt c.ssrc (last4 pkt % (srtcpIndexMask + 1)))
      (pkt.take 8 ++ be32 (last4 pkt)) ((pkt.take (pkt.length - 4)).drop 8)).isSome = true := by
  unfold Ctx.unprotectRtcp at hacc
  simp only at hacc
  by_cases h0 : pkt.length < c.profile.rtcpTagLen + 4
  · rw [if_pos h0] at hacc; simp at hacc
  · rw [if_neg h0, if_pos hg] at hacc
    cases ho : S.aeadOpen c.rtcp.ck (gcmRtcpNonce c.rtcp.salt c.ssrc (last4 pkt % (srtcpIndexMask + 1)))
      (pkt.take 8 ++ be32 (last4 pkt)) ((pkt.take (pkt.length - 4)).drop 8) with
    | none => rw [ho] at hacc; simp at hacc
    | some _ => rfl


/-- an SRTCP packet of at least 12 bytes is its first 8 bytes, the middle, and its last 4 bytes -/
theorem rtcp_aead_split (pkt : Bytes) (h : 12 ≤ pkt.length) :
    pkt.take 8 ++ (pkt.take (pkt.length - 4)).drop 8 ++ pkt.drop (pkt.length - 4) = pkt := by
  have h1 : pkt.take 8 = (pkt.take (pkt.length - 4)).take 8 := by
    rw [List.take_take]; congr 1; omega
  rw [h1, List.take_append_drop, List.take_append_drop]

/-! ### tables -/


theorem forget_ssrc_eq {x y : Ctx} (h : x.forget = y.forget) : x.ssrc = y.ssrc := by
  have := congrArg Ctx.ssrc h; simpa using this


theorem replace_lookup_self : ∀ (t : List Ctx) (k : Nat) (c : Ctx), lookup t k = some c → replace t c = t
  | [], _, _, h => by simp [lookup] at h
  | x :: xs, k, c, h => by
    simp only [lookup, List.find?_cons] at h
    by_cases hk : x.ssrc = k
    · simp only [hk, decide_true] at h
      simp only [Option.some.injEq] at h
      subst h
      simp [replace]
    · simp only [hk, decide_false] at h
      have hc : c.ssrc = k := by
        have := List.find?_some h; simpa using this
      have hne : ¬ x.ssrc = c.ssrc := by rw [hc]; exact hk
      simp only [replace, hne, if_false]
      rw [replace_lookup_self xs k c h]

theorem lookup_ssrc {t : List Ctx} {k : Nat} {c : Ctx} (h : lookup t k = some c) : c.ssrc = k := by
  have := List.find?_some h; simpa using this

/-! ### `withRx`, case by case -/

section withRx
variable {α : Type} (S : Suite) (s : Sess) (now ssrc : Nat) (f : Ctx → Except Err α × Ctx)

theorem withRx_some_err {c : Ctx} {e : Err} (hl : lookup s.rx ssrc = some c) (he : (f c).1 = .error e) :
    s.withRx S now ssrc f = (.error e, { s with rx := replace s.rx (f c).2 }) := by
  unfold Sess.withRx
  simp only [hl]
  cases hfc : f c with
  | mk r c' => rw [hfc] at he; simp only at he; subst he; rfl

theorem withRx_some_ok {c : Ctx} {a : α} (hl : lookup s.rx ssrc = some c) (ho : (f c).1 = .ok a) :
    s.withRx S now ssrc f =
      (.ok a, { s with rx := evict (replace s.rx { (f c).2 with lastUsed := now }) ssrc now }) := by
  unfold Sess.withRx
  simp only [hl]
  cases hfc : f c with
  | mk r c' => rw [hfc] at ho; simp only at ho; subst ho; rfl

theorem withRx_none_full (hl : lookup s.rx ssrc = none) (hf : rxFull s.rx now = true) :
    s.withRx S now ssrc f = (.error .internal, s) := by
  unfold Sess.withRx; simp only [hl, hf, if_true]

theorem withRx_none_newerr {e : Err} (hl : lookup s.rx ssrc = none) (hf : rxFull s.rx now = false)
    (hn : Ctx.new S ssrc s.profile s.rxMk s.rxMs now = .error e) :
    s.withRx S now ssrc f = (.error e, s) := by
  unfold Sess.withRx; simp only [hl, hf, hn, Bool.false_eq_true, if_false]

theorem withRx_none_err {c : Ctx} {e : Err} (hl : lookup s.rx ssrc = none) (hf : rxFull s.rx now = false)
    (hn : Ctx.new S ssrc s.profile s.rxMk s.rxMs now = .ok c) (he : (f c).1 = .error e) :
    s.withRx S now ssrc f = (.error e, s) := by
  unfold Sess.withRx
  simp only [hl, hf, hn, Bool.false_eq_true, if_false]
  cases hfc : f c with
  | mk r c' => rw [hfc] at he; simp only at he; subst he; rfl

theorem withRx_none_ok {c : Ctx} {a : α} (hl : lookup s.rx ssrc = none) (hf : rxFull s.rx now = false)
    (hn : Ctx.new S ssrc s.profile s.rxMk s.rxMs now = .ok c) (ho : (f c).1 = .ok a) :
    s.withRx S now ssrc f =
      (.ok a, { s with rx := evict s.rx ssrc now ++ [{ (f c).2 with lastUsed := now }] }) := by
  unfold Sess.withRx
  simp only [hl, hf, hn, Bool.false_eq_true, if_false]
  cases hfc : f c with
  | mk r c' => rw [hfc] at ho; simp only at ho; subst ho; rfl

/-- below the cap the table is never full -/
theorem rxFull_of_lt {t : List Ctx} {now : Nat} (h : t.length < maxRxContexts) : rxFull t now = false := by
  unfold rxFull
  have : decide (maxRxContexts ≤ t.length) = false := decide_eq_false (by omega)
  rw [this, Bool.false_and]

end withRx


/-! ### acceptance in the two families of profiles -/

/-- where the tag starts in an SRTP body -/
abbrev splitAt (c : Ctx) (body : Bytes) : Nat := body.length - c.profile.tagLen

theorem openRtp_hmac (S : Suite) (c : Ctx) (hb body : Bytes) (seq roc : Nat) (hg : c.profile ≠ .gcm) :
    c.openRtp S hb body seq roc =
      if body.drop (splitAt c body) ≠ rtpTag S c hb (body.take (splitAt c body)) roc then .error .authFailed
      else .ok (cmBody S c seq roc (body.take (splitAt c body))) := by
  unfold Ctx.openRtp; simp [hg]

theorem openRtp_aead (S : Suite) (c : Ctx) (hb body : Bytes) (seq roc : Nat) (hg : c.profile = .gcm) :
    c.openRtp S hb body seq roc =
      match S.aeadOpen c.rtp.ck (gcmNonce c.rtp.salt c.ssrc seq roc) hb body with
      | none => .error .authFailed
      | some pt => .ok pt := by
  unfold Ctx.openRtp; rw [if_pos hg]; rfl

theorem estimate_lt (c : Ctx) (seq : Nat) (h : c.roc < 4294967296) : c.estimate seq < 4294967296 := by
  unfold Ctx.estimate
  cases hl : c.last with
  | none => simpa using h
  | some l => rw [estimateRoc_some]; split
              · omega
              · split <;> omega

/-! ### whole histories on one session -/

/-- everything a session can be asked to do -/
inductive Op
  | rtpIn (now : Nat) (raw : Bytes)
  | rtcpIn (now : Nat) (pkt : Bytes)
  | rtpOut (now : Nat) (p : Pkt)
  | rtcpOut (now : Nat) (pkt : Bytes)

/-- everything a caller can observe -/
inductive Out
  | rtp (r : Except (ParseErr ⊕ Err) Pkt)
  | rtcp (r : Except Err Bytes)
  | wire (r : Except Err Bytes)

def step (S : Suite) (s : Sess) : Op → Out × Sess
  | .rtpIn now raw => let r := s.receiveRtp S now raw; (.rtp r.1, r.2)
  | .rtcpIn now pkt => let r := s.unprotectRtcp S now pkt; (.rtcp r.1, r.2)
  | .rtpOut now p => let r := s.protectRtp S now p; (.wire r.1, r.2)
  | .rtcpOut now pkt => let r := s.protectRtcp S now pkt; (.wire r.1, r.2)

/-- outputs of a whole history -/
def run (S : Suite) : Sess → List Op → List Out
  | _, [] => []
  | s, o :: os => (step S s o).1 :: run S (step S s o).2 os

def Out.isReject : Out → Bool
  | .rtp (.error _) => true
  | .rtcp (.error _) => true
  | _ => false


end RtcModel.Srtp
