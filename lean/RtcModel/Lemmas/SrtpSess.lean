/- Helper lemmas: rejection leaves state alone; the SRTCP index of a receive context is dead state (C05). -/
import RtcModel.Lemmas.Srtp
namespace RtcModel.Srtp
open RtcModel.C04 RtcModel.Generated

/-! ### context level: the four outcomes of `unprotect` -/

theorem unprotectRtp_cases (S : Suite) (c : Ctx) (h : Hdr) (p : Bool) (body : Bytes) :
    (body.length < c.profile.tagLen ∧ c.unprotectRtp S h p body = (.error .tooShort, c)) ∨
    (¬ body.length < c.profile.tagLen ∧ ∃ e, c.openRtp S (writeHdr h p) body h.seq (c.estimate h.seq) = .error e ∧
        c.unprotectRtp S h p body = (.error e, c)) ∨
    (¬ body.length < c.profile.tagLen ∧ ∃ pt e, c.openRtp S (writeHdr h p) body h.seq (c.estimate h.seq) = .ok pt ∧
        stripPadding p pt = .error e ∧ c.unprotectRtp S h p body = (.error e, c)) ∨
    (¬ body.length < c.profile.tagLen ∧ ∃ pt payload padLen,
        c.openRtp S (writeHdr h p) body h.seq (c.estimate h.seq) = .ok pt ∧
        stripPadding p pt = .ok (payload, padLen) ∧
        c.unprotectRtp S h p body = (.ok ⟨h, payload, padLen⟩, c.updated h.seq (c.estimate h.seq))) := by
  unfold Ctx.unprotectRtp
  by_cases h0 : body.length < c.profile.tagLen
  · left; exact ⟨h0, by simp [h0]⟩
  · right
    cases ho : c.openRtp S (writeHdr h p) body h.seq (c.estimate h.seq) with
    | error e => left; exact ⟨h0, e, rfl, by simp [h0, ho]⟩
    | ok pt =>
      right
      cases hs : stripPadding p pt with
      | error e => left; exact ⟨h0, pt, e, rfl, hs, by simp [h0, ho, hs]⟩
      | ok r =>
        obtain ⟨pl, pd⟩ := r
        right; exact ⟨h0, pt, pl, pd, rfl, hs, by simp [h0, ho, hs]⟩

theorem unprotectRtp_err_keeps (S : Suite) (c : Ctx) (h : Hdr) (p : Bool) (body : Bytes) (e : Err)
    (he : (c.unprotectRtp S h p body).1 = .error e) : (c.unprotectRtp S h p body).2 = c := by
  rcases unprotectRtp_cases S c h p body with ⟨_, hr⟩ | ⟨_, _, _, hr⟩ | ⟨_, _, _, _, _, hr⟩ | ⟨_, _, _, _, _, _, hr⟩
  all_goals (rw [hr] at he ⊢)
  · simp at he

theorem unprotectRtp_ok_state (S : Suite) (c : Ctx) (h : Hdr) (p : Bool) (body : Bytes) (pkt : Pkt)
    (hok : (c.unprotectRtp S h p body).1 = .ok pkt) :
    (c.unprotectRtp S h p body).2 = c.updated h.seq (c.estimate h.seq) := by
  rcases unprotectRtp_cases S c h p body with ⟨_, hr⟩ | ⟨_, _, _, hr⟩ | ⟨_, _, _, _, _, hr⟩ | ⟨_, _, _, _, _, _, hr⟩
  all_goals (rw [hr] at hok ⊢)
  all_goals (first | (simp at hok; done) | skip)

/-- forget the SRTCP index -/
def Ctx.forget (c : Ctx) : Ctx := { c with rtcpIndex := 0 }
def Ctx.setIdx (c : Ctx) (i : Nat) : Ctx := { c with rtcpIndex := i }

@[simp] theorem setIdx_forget (c : Ctx) (i : Nat) : (c.setIdx i).forget = c.forget := rfl
@[simp] theorem forget_ssrc (c : Ctx) : c.forget.ssrc = c.ssrc := rfl
@[simp] theorem forget_lastUsed (c : Ctx) : c.forget.lastUsed = c.lastUsed := rfl

theorem setIdx_self (c : Ctx) : c.setIdx c.rtcpIndex = c := by cases c; rfl

theorem bumpRtcp_forget (c : Ctx) (i : Nat) : (c.bumpRtcp i).forget = c.forget := by
  unfold Ctx.bumpRtcp; split <;> rfl

theorem eq_setIdx_of_forget (a b : Ctx) (h : a.forget = b.forget) : a = b.setIdx a.rtcpIndex := by
  cases a; cases b
  simp only [Ctx.forget, Ctx.setIdx, Ctx.mk.injEq] at h ⊢
  obtain ⟨h1, h2, h3, h4, h5, h6, _, h8⟩ := h
  exact ⟨h1, h2, h3, h4, h5, h6, trivial, h8⟩

theorem unprotectRtcp_state_forget (S : Suite) (c : Ctx) (pkt : Bytes) :
    (c.unprotectRtcp S pkt).2.forget = c.forget := by
  unfold Ctx.unprotectRtcp
  simp only
  by_cases h0 : pkt.length < c.profile.rtcpTagLen + 4
  · rw [if_pos h0]
  · rw [if_neg h0]
    by_cases hg : c.profile = .gcm
    · rw [if_pos hg]
      split <;> exact bumpRtcp_forget _ _
    · rw [if_neg hg]
      split
      · rfl
      · split <;> exact bumpRtcp_forget _ _

/-- a failed `unprotect_rtcp` changes at most the SRTCP index (GCM bumps it before
authenticating); for the HMAC profiles it changes nothing -/
theorem unprotectRtcp_err_state (S : Suite) (c : Ctx) (pkt : Bytes) (e : Err)
    (he : (c.unprotectRtcp S pkt).1 = .error e) :
    (c.unprotectRtcp S pkt).2.forget = c.forget ∧
    (c.profile ≠ .gcm → (c.unprotectRtcp S pkt).2 = c) := by
  refine ⟨unprotectRtcp_state_forget S c pkt, fun hg => ?_⟩
  unfold Ctx.unprotectRtcp at he ⊢
  simp only at he ⊢
  by_cases h0 : pkt.length < c.profile.rtcpTagLen + 4
  · rw [if_pos h0]
  · rw [if_neg h0, if_neg hg] at he ⊢
    split
    · rfl
    · rename_i htag
      rw [if_neg htag] at he
      split at he <;> simp at he

theorem bumpRtcp_mono (c : Ctx) (i : Nat) : c.rtcpIndex ≤ (c.bumpRtcp i).rtcpIndex := by
  unfold Ctx.bumpRtcp; split
  · simp; omega
  · exact Nat.le_refl _

theorem unprotectRtcp_index_mono (S : Suite) (c : Ctx) (pkt : Bytes) :
    c.rtcpIndex ≤ (c.unprotectRtcp S pkt).2.rtcpIndex := by
  unfold Ctx.unprotectRtcp
  simp only
  by_cases h0 : pkt.length < c.profile.rtcpTagLen + 4
  · rw [if_pos h0]; exact Nat.le_refl _
  · rw [if_neg h0]
    by_cases hg : c.profile = .gcm
    · rw [if_pos hg]
      split <;> exact bumpRtcp_mono _ _
    · rw [if_neg hg]
      split
      · exact Nat.le_refl _
      · split <;> exact bumpRtcp_mono _ _

/-- HMAC profiles: an accepted SRTCP packet ends in the truncated MAC of everything before it -/
theorem unprotectRtcp_ok_tag (S : Suite) (c : Ctx) (pkt out : Bytes) (hg : c.profile ≠ .gcm)
    (hacc : (c.unprotectRtcp S pkt).1 = .ok out) :
    pkt.drop (pkt.length - c.profile.rtcpTagLen) = rtcpTag S c (pkt.take (pkt.length - c.profile.rtcpTagLen)) := by
  unfold Ctx.unprotectRtcp at hacc
  simp only at hacc
  by_cases h0 : pkt.length < c.profile.rtcpTagLen + 4
  · rw [if_pos h0] at hacc; simp at hacc
  · rw [if_neg h0, if_neg hg] at hacc
    by_cases ht : pkt.drop (pkt.length - c.profile.rtcpTagLen) = rtcpTag S c (pkt.take (pkt.length - c.profile.rtcpTagLen))
    · exact ht
    · rw [if_pos ht] at hacc; simp at hacc

/-- AEAD: an accepted SRTCP packet opens under the nonce and AAD derived from its own bytes -/
theorem unprotectRtcp_ok_open (S : Suite) (c : Ctx) (pkt out : Bytes) (hg : c.profile = .gcm)
    (hacc : (c.unprotectRtcp S pkt).1 = .ok out) :
    (S.aeadOpen c.rtcp.ck (gcmRtcpNonce c.rtcp.salt c.ssrc (last4 pkt % (srtcpIndexMask + 1)))
      (pkt.take 8 ++ be32 (last4 pkt)) ((pkt.take (pkt.length - 4)).drop 8)).isSome = true := by
  unfold Ctx.unprotectRtcp at hacc
  simp only at hacc
  by_cases h0 : pkt.length < c.profile.rtcpTagLen + 4
  · rw [if_pos h0] at hacc; simp at hacc
  · rw [if_neg h0, if_pos hg] at hacc
    cases ho : S.aeadOpen c.rtcp.ck (gcmRtcpNonce c.rtcp.salt c.ssrc (last4 pkt % (srtcpIndexMask + 1)))
      (pkt.take 8 ++ be32 (last4 pkt)) ((pkt.take (pkt.length - 4)).drop 8) with
    | none => rw [ho] at hacc; simp at hacc
    | some _ => rfl

/-! ### the SRTCP index is never read on the receive side -/

theorem unprotectRtp_setIdx (S : Suite) (c : Ctx) (i : Nat) (h : Hdr) (p : Bool) (body : Bytes) :
    (c.setIdx i).unprotectRtp S h p body =
      ((c.unprotectRtp S h p body).1, (c.unprotectRtp S h p body).2.setIdx i) := by
  have e1 : (c.setIdx i).profile = c.profile := rfl
  have e2 : ∀ hb b s r, (c.setIdx i).openRtp S hb b s r = c.openRtp S hb b s r := fun _ _ _ _ => rfl
  have e3 : ∀ s, (c.setIdx i).estimate s = c.estimate s := fun _ => rfl
  have e4 : ∀ s r, (c.setIdx i).updated s r = (c.updated s r).setIdx i := fun _ _ => rfl
  rcases unprotectRtp_cases S c h p body with ⟨h0, hr⟩ | ⟨h0, e, ho, hr⟩ | ⟨h0, pt, e, ho, hs, hr⟩ |
    ⟨h0, pt, pl, pd, ho, hs, hr⟩
  all_goals rw [hr]
  all_goals unfold Ctx.unprotectRtp
  · simp [e1, h0]
  · simp [e1, e2, e3, h0, ho]
  · simp [e1, e2, e3, h0, ho, hs]
  · simp [e1, e2, e3, e4, h0, ho, hs]

theorem unprotectRtcp_setIdx_fst (S : Suite) (c : Ctx) (i : Nat) (pkt : Bytes) :
    ((c.setIdx i).unprotectRtcp S pkt).1 = (c.unprotectRtcp S pkt).1 := by
  have e1 : (c.setIdx i).profile = c.profile := rfl
  have e2 : (c.setIdx i).rtcp = c.rtcp := rfl
  have e3 : (c.setIdx i).ssrc = c.ssrc := rfl
  have e4 : ∀ m, rtcpTag S (c.setIdx i) m = rtcpTag S c m := fun _ => rfl
  have e5 : ∀ k b, rtcpCipher S (c.setIdx i) k b = rtcpCipher S c k b := fun _ _ => rfl
  unfold Ctx.unprotectRtcp
  simp only [e1, e2, e3, e4, e5]
  split
  · rfl
  · split
    · split <;> rfl
    · split
      · rfl
      · split <;> rfl

/-! ### tables up to the SRTCP index -/

def tblEq (a b : List Ctx) : Prop := a.map Ctx.forget = b.map Ctx.forget

theorem tblEq_refl (a : List Ctx) : tblEq a a := rfl

theorem tblEq_length {a b : List Ctx} (h : tblEq a b) : a.length = b.length := by
  have := congrArg List.length h; simpa using this

theorem forget_ssrc_eq {x y : Ctx} (h : x.forget = y.forget) : x.ssrc = y.ssrc := by
  have := congrArg Ctx.ssrc h; simpa using this

theorem forget_lastUsed_eq {x y : Ctx} (h : x.forget = y.forget) : x.lastUsed = y.lastUsed := by
  have := congrArg Ctx.lastUsed h; simpa using this

theorem lookup_tblEq : ∀ {a b : List Ctx}, tblEq a b → ∀ k,
    (lookup a k).map Ctx.forget = (lookup b k).map Ctx.forget
  | [], [], _, _ => rfl
  | [], _ :: _, h, _ => by simp [tblEq] at h
  | _ :: _, [], h, _ => by simp [tblEq] at h
  | x :: xs, y :: ys, h, k => by
    simp only [tblEq, List.map_cons, List.cons.injEq] at h
    have hs := forget_ssrc_eq h.1
    simp only [lookup, List.find?_cons, hs]
    by_cases hk : y.ssrc = k
    · simp [hk, h.1]
    · simp only [hk, decide_false]
      exact lookup_tblEq (a := xs) (b := ys) h.2 k

theorem replace_tblEq : ∀ {a b : List Ctx}, tblEq a b → ∀ {c d : Ctx}, c.forget = d.forget →
    tblEq (replace a c) (replace b d)
  | [], [], _, _, _, _ => rfl
  | [], _ :: _, h, _, _, _ => by simp [tblEq] at h
  | _ :: _, [], h, _, _, _ => by simp [tblEq] at h
  | x :: xs, y :: ys, h, c, d, hcd => by
    simp only [tblEq, List.map_cons, List.cons.injEq] at h
    have hs := forget_ssrc_eq h.1
    have hs' := forget_ssrc_eq hcd
    simp only [replace, hs, hs']
    by_cases hk : y.ssrc = d.ssrc
    · simp only [hk, if_true, tblEq, List.map_cons, hcd, h.2]
    · simp only [hk, if_false, tblEq, List.map_cons, h.1]
      have := replace_tblEq (a := xs) (b := ys) h.2 hcd
      simp only [tblEq] at this
      rw [this]

theorem filter_tblEq : ∀ {a b : List Ctx}, tblEq a b → ∀ (keep now : Nat),
    tblEq (a.filter (fun c => c.ssrc = keep ∨ now - c.lastUsed < ssrcInactivityEvictSecs))
          (b.filter (fun c => c.ssrc = keep ∨ now - c.lastUsed < ssrcInactivityEvictSecs))
  | [], [], _, _, _ => rfl
  | [], _ :: _, h, _, _ => by simp [tblEq] at h
  | _ :: _, [], h, _, _ => by simp [tblEq] at h
  | x :: xs, y :: ys, h, keep, now => by
    simp only [tblEq, List.map_cons, List.cons.injEq] at h
    have hs := forget_ssrc_eq h.1
    have hl := forget_lastUsed_eq h.1
    have ih := filter_tblEq (a := xs) (b := ys) h.2 keep now
    simp only [List.filter_cons, hs, hl]
    split
    · simp only [tblEq, List.map_cons, h.1] at ih ⊢; rw [ih]
    · exact ih

theorem evict_tblEq {a b : List Ctx} (h : tblEq a b) (keep now : Nat) :
    tblEq (evict a keep now) (evict b keep now) := by
  unfold evict
  rw [tblEq_length h]
  split
  · exact h
  · exact filter_tblEq h keep now

theorem append_tblEq {a b : List Ctx} (h : tblEq a b) {c d : Ctx} (hcd : c.forget = d.forget) :
    tblEq (a ++ [c]) (b ++ [d]) := by
  simp only [tblEq, List.map_append, List.map_cons, List.map_nil] at h ⊢
  rw [h, hcd]

theorem replace_lookup_self : ∀ (t : List Ctx) (k : Nat) (c : Ctx), lookup t k = some c → replace t c = t
  | [], _, _, h => by simp [lookup] at h
  | x :: xs, k, c, h => by
    simp only [lookup, List.find?_cons] at h
    by_cases hk : x.ssrc = k
    · simp only [hk, decide_true] at h
      simp only [Option.some.injEq] at h
      subst h
      simp [replace]
    · simp only [hk, decide_false] at h
      have hc : c.ssrc = k := by
        have := List.find?_some h; simpa using this
      have hne : ¬ x.ssrc = c.ssrc := by rw [hc]; exact hk
      simp only [replace, hne, if_false]
      rw [replace_lookup_self xs k c h]

theorem lookup_ssrc {t : List Ctx} {k : Nat} {c : Ctx} (h : lookup t k = some c) : c.ssrc = k := by
  have := List.find?_some h; simpa using this

/-! ### `withRx`, case by case -/

section withRx
variable {α : Type} (S : Suite) (s : Sess) (now ssrc : Nat) (f : Ctx → Except Err α × Ctx)

theorem withRx_some_err {c : Ctx} {e : Err} (hl : lookup s.rx ssrc = some c) (he : (f c).1 = .error e) :
    s.withRx S now ssrc f = (.error e, { s with rx := replace s.rx (f c).2 }) := by
  unfold Sess.withRx
  simp only [hl]
  cases hfc : f c with
  | mk r c' => rw [hfc] at he; simp only at he; subst he; rfl

theorem withRx_some_ok {c : Ctx} {a : α} (hl : lookup s.rx ssrc = some c) (ho : (f c).1 = .ok a) :
    s.withRx S now ssrc f =
      (.ok a, { s with rx := evict (replace s.rx { (f c).2 with lastUsed := now }) ssrc now }) := by
  unfold Sess.withRx
  simp only [hl]
  cases hfc : f c with
  | mk r c' => rw [hfc] at ho; simp only at ho; subst ho; rfl

theorem withRx_none_newerr {e : Err} (hl : lookup s.rx ssrc = none)
    (hn : Ctx.new S ssrc s.profile s.rxMk s.rxMs now = .error e) :
    s.withRx S now ssrc f = (.error e, s) := by
  unfold Sess.withRx; simp only [hl, hn]

theorem withRx_none_err {c : Ctx} {e : Err} (hl : lookup s.rx ssrc = none)
    (hn : Ctx.new S ssrc s.profile s.rxMk s.rxMs now = .ok c) (he : (f c).1 = .error e) :
    s.withRx S now ssrc f = (.error e, s) := by
  unfold Sess.withRx
  simp only [hl, hn]
  cases hfc : f c with
  | mk r c' => rw [hfc] at he; simp only at he; subst he; rfl

theorem withRx_none_ok {c : Ctx} {a : α} (hl : lookup s.rx ssrc = none)
    (hn : Ctx.new S ssrc s.profile s.rxMk s.rxMs now = .ok c) (ho : (f c).1 = .ok a) :
    s.withRx S now ssrc f =
      (.ok a, { s with rx := evict s.rx ssrc now ++ [{ (f c).2 with lastUsed := now }] }) := by
  unfold Sess.withRx
  simp only [hl, hn]
  cases hfc : f c with
  | mk r c' => rw [hfc] at ho; simp only at ho; subst ho; rfl

end withRx

/-! ### sessions up to the SRTCP indices of the receive contexts -/

structure Sess.obsEq (a b : Sess) : Prop where
  profile : a.profile = b.profile
  txMk : a.txMk = b.txMk
  txMs : a.txMs = b.txMs
  rxMk : a.rxMk = b.rxMk
  rxMs : a.rxMs = b.rxMs
  tx : a.tx = b.tx
  rx : tblEq a.rx b.rx

theorem Sess.obsEq.refl (a : Sess) : Sess.obsEq a a := ⟨rfl, rfl, rfl, rfl, rfl, rfl, rfl⟩

theorem Sess.obsEq.symm {a b : Sess} (h : Sess.obsEq a b) : Sess.obsEq b a :=
  ⟨h.profile.symm, h.txMk.symm, h.txMs.symm, h.rxMk.symm, h.rxMs.symm, h.tx.symm, Eq.symm h.rx⟩

theorem Sess.obsEq.trans {a b c : Sess} (h : Sess.obsEq a b) (g : Sess.obsEq b c) : Sess.obsEq a c :=
  ⟨h.profile.trans g.profile, h.txMk.trans g.txMk, h.txMs.trans g.txMs, h.rxMk.trans g.rxMk,
   h.rxMs.trans g.rxMs, h.tx.trans g.tx, Eq.trans h.rx g.rx⟩

/-- `f` neither reads the SRTCP index nor lets it influence anything but the index -/
def RxRespects {α : Type} (f : Ctx → Except Err α × Ctx) : Prop :=
  ∀ c i, (f (c.setIdx i)).1 = (f c).1 ∧ (f (c.setIdx i)).2.forget = (f c).2.forget

theorem respects_of_forget {α : Type} {f : Ctx → Except Err α × Ctx} (hf : RxRespects f)
    {c d : Ctx} (h : c.forget = d.forget) : (f c).1 = (f d).1 ∧ (f c).2.forget = (f d).2.forget := by
  rw [eq_setIdx_of_forget c d h]; exact hf d _

theorem stamp_forget {c d : Ctx} (h : c.forget = d.forget) (now : Nat) :
    ({ c with lastUsed := now } : Ctx).forget = ({ d with lastUsed := now } : Ctx).forget := by
  cases c; cases d
  simp only [Ctx.forget, Ctx.mk.injEq] at h ⊢
  obtain ⟨h1, h2, h3, h4, h5, h6, _, _⟩ := h
  exact ⟨h1, h2, h3, h4, h5, h6, trivial, trivial⟩

theorem withRx_obsEq {α : Type} (S : Suite) {s1 s2 : Sess} (h : Sess.obsEq s1 s2) (now ssrc : Nat)
    (f : Ctx → Except Err α × Ctx) (hf : RxRespects f) :
    (s1.withRx S now ssrc f).1 = (s2.withRx S now ssrc f).1 ∧
    Sess.obsEq (s1.withRx S now ssrc f).2 (s2.withRx S now ssrc f).2 := by
  have hl := lookup_tblEq h.rx ssrc
  have mk : ∀ {r1 r2 : List Ctx}, tblEq r1 r2 → Sess.obsEq { s1 with rx := r1 } { s2 with rx := r2 } :=
    fun hr => ⟨h.profile, h.txMk, h.txMs, h.rxMk, h.rxMs, h.tx, hr⟩
  cases h1 : lookup s1.rx ssrc with
  | none =>
    have h2 : lookup s2.rx ssrc = none := by
      rw [h1] at hl; cases h2 : lookup s2.rx ssrc with
      | none => rfl
      | some _ => rw [h2] at hl; simp at hl
    have hnew : Ctx.new S ssrc s1.profile s1.rxMk s1.rxMs now = Ctx.new S ssrc s2.profile s2.rxMk s2.rxMs now := by
      rw [h.profile, h.rxMk, h.rxMs]
    cases hn : Ctx.new S ssrc s1.profile s1.rxMk s1.rxMs now with
    | error e =>
      rw [withRx_none_newerr S s1 now ssrc f h1 hn, withRx_none_newerr S s2 now ssrc f h2 (hnew ▸ hn)]
      exact ⟨rfl, h⟩
    | ok c =>
      cases hr : (f c).1 with
      | error e =>
        rw [withRx_none_err S s1 now ssrc f h1 hn hr, withRx_none_err S s2 now ssrc f h2 (hnew ▸ hn) hr]
        exact ⟨rfl, h⟩
      | ok a =>
        rw [withRx_none_ok S s1 now ssrc f h1 hn hr, withRx_none_ok S s2 now ssrc f h2 (hnew ▸ hn) hr]
        exact ⟨rfl, mk (append_tblEq (evict_tblEq h.rx ssrc now) rfl)⟩
  | some c1 =>
    cases h2 : lookup s2.rx ssrc with
    | none => rw [h1, h2] at hl; simp at hl
    | some c2 =>
      rw [h1, h2] at hl
      simp only [Option.map_some, Option.some.injEq] at hl
      obtain ⟨hr, hc⟩ := respects_of_forget hf hl
      cases hr1 : (f c1).1 with
      | error e =>
        rw [withRx_some_err S s1 now ssrc f h1 hr1, withRx_some_err S s2 now ssrc f h2 (hr ▸ hr1)]
        exact ⟨rfl, mk (replace_tblEq h.rx hc)⟩
      | ok a =>
        rw [withRx_some_ok S s1 now ssrc f h1 hr1, withRx_some_ok S s2 now ssrc f h2 (hr ▸ hr1)]
        exact ⟨rfl, mk (evict_tblEq (replace_tblEq h.rx (stamp_forget hc now)) ssrc now)⟩

theorem respects_unprotectRtp (S : Suite) (h : Hdr) (p : Bool) (body : Bytes) :
    RxRespects (fun c => c.unprotectRtp S h p body) := by
  intro c i
  simp only [unprotectRtp_setIdx, setIdx_forget, and_self]

theorem respects_unprotectRtcp (S : Suite) (pkt : Bytes) :
    RxRespects (fun c => c.unprotectRtcp S pkt) := by
  intro c i
  refine ⟨unprotectRtcp_setIdx_fst S c i pkt, ?_⟩
  simp only [unprotectRtcp_state_forget, setIdx_forget]

/-! ### acceptance in the two families of profiles -/

/-- where the tag starts in an SRTP body -/
abbrev splitAt (c : Ctx) (body : Bytes) : Nat := body.length - c.profile.tagLen

theorem openRtp_hmac (S : Suite) (c : Ctx) (hb body : Bytes) (seq roc : Nat) (hg : c.profile ≠ .gcm) :
    c.openRtp S hb body seq roc =
      if body.drop (splitAt c body) ≠ rtpTag S c hb (body.take (splitAt c body)) roc then .error .authFailed
      else .ok (cmBody S c seq roc (body.take (splitAt c body))) := by
  unfold Ctx.openRtp; simp [hg]

theorem openRtp_aead (S : Suite) (c : Ctx) (hb body : Bytes) (seq roc : Nat) (hg : c.profile = .gcm) :
    c.openRtp S hb body seq roc =
      match S.aeadOpen c.rtp.ck (gcmNonce c.rtp.salt c.ssrc seq roc) hb body with
      | none => .error .authFailed
      | some pt => .ok pt := by
  unfold Ctx.openRtp; rw [if_pos hg]; rfl

theorem estimate_lt (c : Ctx) (seq : Nat) (h : c.roc < 4294967296) : c.estimate seq < 4294967296 := by
  unfold Ctx.estimate
  cases hl : c.last with
  | none => simpa using h
  | some l => rw [estimateRoc_some]; split
              · omega
              · split <;> omega

/-! ### whole histories on one session -/

/-- everything a session can be asked to do -/
inductive Op
  | rtpIn (now : Nat) (raw : Bytes)
  | rtcpIn (now : Nat) (pkt : Bytes)
  | rtpOut (now : Nat) (p : Pkt)
  | rtcpOut (now : Nat) (pkt : Bytes)

/-- everything a caller can observe -/
inductive Out
  | rtp (r : Except (ParseErr ⊕ Err) Pkt)
  | rtcp (r : Except Err Bytes)
  | wire (r : Except Err Bytes)

def step (S : Suite) (s : Sess) : Op → Out × Sess
  | .rtpIn now raw => let r := s.receiveRtp S now raw; (.rtp r.1, r.2)
  | .rtcpIn now pkt => let r := s.unprotectRtcp S now pkt; (.rtcp r.1, r.2)
  | .rtpOut now p => let r := s.protectRtp S now p; (.wire r.1, r.2)
  | .rtcpOut now pkt => let r := s.protectRtcp S now pkt; (.wire r.1, r.2)

/-- outputs of a whole history -/
def run (S : Suite) : Sess → List Op → List Out
  | _, [] => []
  | s, o :: os => (step S s o).1 :: run S (step S s o).2 os

def Out.isReject : Out → Bool
  | .rtp (.error _) => true
  | .rtcp (.error _) => true
  | _ => false

theorem step_obsEq (S : Suite) {s1 s2 : Sess} (h : Sess.obsEq s1 s2) (o : Op) :
    (step S s1 o).1 = (step S s2 o).1 ∧ Sess.obsEq (step S s1 o).2 (step S s2 o).2 := by
  cases o with
  | rtpIn now raw =>
    simp only [step, Sess.receiveRtp]
    cases hp : parseHdr raw with
    | error e => exact ⟨rfl, h⟩
    | ok v =>
      obtain ⟨hd, p, body⟩ := v
      simp only
      have := withRx_obsEq S h now hd.ssrc _ (respects_unprotectRtp S hd p body)
      unfold Sess.unprotectRtp
      revert this
      cases (s1.withRx S now hd.ssrc fun c => c.unprotectRtp S hd p body) with
      | mk r1 t1 =>
        cases (s2.withRx S now hd.ssrc fun c => c.unprotectRtp S hd p body) with
        | mk r2 t2 =>
          simp only
          rintro ⟨rfl, ht⟩
          cases r1 <;> exact ⟨rfl, ht⟩
  | rtcpIn now pkt =>
    simp only [step, Sess.unprotectRtcp]
    split
    · exact ⟨rfl, h⟩
    · have := withRx_obsEq S h now (ssrcOfRtcp pkt) _ (respects_unprotectRtcp S pkt)
      exact ⟨by rw [this.1], this.2⟩
  | rtpOut now p =>
    simp only [step, Sess.protectRtp, Sess.withTx, h.tx, h.profile, h.txMk, h.txMs]
    split
    · exact ⟨rfl, ⟨rfl, rfl, rfl, h.rxMk, h.rxMs, rfl, h.rx⟩⟩
    · split
      · exact ⟨rfl, ⟨rfl, rfl, rfl, h.rxMk, h.rxMs, rfl, h.rx⟩⟩
      · exact ⟨rfl, ⟨rfl, rfl, rfl, h.rxMk, h.rxMs, rfl, h.rx⟩⟩
  | rtcpOut now pkt =>
    simp only [step, Sess.protectRtcp]
    split
    · exact ⟨rfl, h⟩
    · simp only [Sess.withTx, h.tx, h.profile, h.txMk, h.txMs]
      split
      · exact ⟨rfl, ⟨rfl, rfl, rfl, h.rxMk, h.rxMs, rfl, h.rx⟩⟩
      · split
        · exact ⟨rfl, ⟨rfl, rfl, rfl, h.rxMk, h.rxMs, rfl, h.rx⟩⟩
        · exact ⟨rfl, ⟨rfl, rfl, rfl, h.rxMk, h.rxMs, rfl, h.rx⟩⟩

end RtcModel.Srtp
