/- Helper lemmas about the rollover estimate / update (C04). -/
import RtcModel.SrtpRoc
namespace RtcModel.Srtp
open RtcModel.Generated

/-- `estimate_roc` with the generated thresholds written out (the form `omega` can work with) -/
theorem estimateRoc_some (roc l seq : Nat) :
    estimateRoc roc (some l) seq =
      if (seq : Int) - (l : Int) < -32768 then (roc + 1) % 4294967296
      else if (seq : Int) - (l : Int) > 32768 then (roc + 4294967295) % 4294967296
      else roc := by
  simp [estimateRoc]

@[simp] theorem estimateRoc_none (roc seq : Nat) : estimateRoc roc none seq = roc := rfl

/-- inside the open window the estimate is the true rollover count -/
theorem estimate_in_window (roc last seq I : Nat) (hroc : roc < 4294967296) (hlast : last < 65536)
    (hseq : I % 65536 = seq) (hI : I < 281474976710656)
    (hlo : (index48 roc last : Int) - I < 32768) (hhi : (I : Int) - index48 roc last < 32768) :
    estimateRoc roc (some last) seq = I / 65536 := by
  subst hseq
  rw [estimateRoc_some]
  simp only [index48] at *
  split
  · omega
  · split <;> omega

theorem updateRoc_some (roc l seq r : Nat) :
    updateRoc roc (some l) seq r =
      if r * 65536 + seq > roc * 65536 + l then (r, some seq) else (roc, some l) := by
  simp [updateRoc, index48]

@[simp] theorem updateRoc_none (roc seq r : Nat) : updateRoc roc none seq r = (r, some seq) := rfl

theorem update_last_isSome (roc : Nat) (last : Option Nat) (seq r : Nat) :
    (updateRoc roc last seq r).2.isSome = true := by
  cases last with
  | none => rfl
  | some l => rw [updateRoc_some]; split <;> rfl

end RtcModel.Srtp
