/- C07 — WP proofs for `RtcModel.C07SctpSt`: totality of the SCTP receive path over packet histories. -/
import RtcModel.C07SctpSt
import RtcModel.Lemmas.C07Sctp
namespace RtcModel.C07.SctpSt
open RtcModel.C07 RtcModel.Generated RtcModel.C07.Sctp

/-- every queued chunk value still has its 12-byte DATA header (it is re-parsed when drained) -/
def QOk (q : List (Nat × Nat × Array UInt8)) : Prop := ∀ e ∈ q, 12 ≤ e.2.2.size
def St.Ok (s : St) : Prop := QOk s.queue

abbrev T : Nat → Prop := fun _ => True

theorem qok_filter {q : List (Nat × Nat × Array UInt8)} (p : (Nat × Nat × Array UInt8) → Bool) (h : QOk q) : QOk (q.filter p) :=
  fun e he => h e (List.mem_filter.mp he).1

theorem dcepAttempt_safe {Q : (Bool × (List Nat × Buf)) → Buf → Nat → Prop} (body : Array UInt8) (d : List Nat × Buf) {b n}
    (h : ∀ r n', Q r b n') : safe T (attemptD (onBuf (Buf.ofArray body) dcepOpenUnmarshal) d) Q b n := by
  apply safe_attemptD
  apply safe_weaken_err (E := (· ≤ n + 2 * body.size))
  · apply safe_onBuf
    apply dcepOpenUnmarshal_safe (by simp)
    intro r b' n' _
    apply h
  · intro k _; apply h

set_option maxRecDepth 4096 in
theorem handleDcepSt_safe (s : St) (sid : Nat) {Q b n} (hs : s.Ok)
    (h : ∀ s' b' n', s'.queue = s.queue → Q s' b' n') : safe T (handleDcepSt s sid) Q b n := by
  unfold handleDcepSt
  apply safe_bind; apply safe_remaining
  apply safe_ite <;> intro h0
  · apply safe_pure; exact h _ _ _ rfl
  apply safe_bind; apply safe_peek (by omega); intro mt _
  apply safe_ite <;> intro h1
  · apply safe_bind; apply safe_restSlice; intro body _
    apply safe_bind
    apply dcepAttempt_safe
    intro r n'
    apply safe_ite <;> intro h2
    · apply safe_pure; exact h _ _ _ rfl
    · split
      · apply safe_ite <;> intro hcap
        · apply safe_pure; exact h _ _ _ rfl
        · apply safe_pure
          apply h
          unfold St.emit
          repeat' split
          all_goals rfl
      · apply safe_pure; exact h _ _ _ rfl
  · apply safe_pure; exact h _ _ _ rfl

/-- channels are created only here, and never beyond `MAX_DATA_CHANNELS` -/
theorem handleDcepSt_chans (s : St) (sid : Nat) {Q b n}
    (h : ∀ s' b' n', s'.chans.length ≤ max s.chans.length c07MaxDataChannels → Q s' b' n') : safe T (handleDcepSt s sid) Q b n := by
  unfold handleDcepSt
  apply safe_bind; apply safe_remaining
  apply safe_ite <;> intro h0
  · apply safe_pure; exact h _ _ _ (by omega)
  apply safe_bind; apply safe_peek (by omega); intro mt _
  apply safe_ite <;> intro h1
  · apply safe_bind; apply safe_restSlice; intro body _
    apply safe_bind
    apply dcepAttempt_safe
    intro r n'
    apply safe_ite <;> intro h2
    · apply safe_pure; exact h _ _ _ (by omega)
    · split
      · apply safe_ite <;> intro hcap
        · apply safe_pure; exact h _ _ _ (by omega)
        · apply safe_pure
          apply h
          unfold St.emit
          split
          · omega
          · rename_i hnc
            have : ¬ (s.chans.length ≥ c07MaxDataChannels) := by
              intro hge; apply hcap; exact ⟨hnc, hge⟩
            show (sid :: s.chans).length ≤ _
            rw [List.length_cons]; omega
      · apply safe_pure; exact h _ _ _ (by omega)
  · apply safe_pure; exact h _ _ _ (by omega)

attribute [local irreducible] handleDcepSt

/-- closes `(…state built from `s` without touching the queue…).Ok` goals -/
macro "ok_frame" hs:ident : tactic => `(tactic| (unfold St.Ok at *; first
  | exact $hs
  | (simp only [apply_ite St.queue, St.emit, ite_self]; exact $hs)
  | (repeat' split; all_goals (first | exact $hs | (simp only [apply_ite St.queue, St.emit, ite_self]; exact $hs)))))

theorem processData_safe (s : St) (flags : Nat) (v : Array UInt8) {Q b n} (hs : s.Ok) (hv : 12 ≤ v.size)
    (h : ∀ s' n', s'.Ok → s'.queue = s.queue → Q s' b n') : safe T (processData s flags v) Q b n := by
  unfold processData
  apply safe_bind; apply safe_onBuf
  apply safe_bind; apply safe_advance (by simp; omega); intro b1 hb1
  simp only [Buf.rem_ofArray] at hb1
  apply safe_bind; apply safe_getU16 (by omega); intro sid b2 _ hb2
  apply safe_bind; apply safe_getU16 (by omega); intro ssn b3 _ hb3
  apply safe_bind; apply safe_getU32 (by omega); intro ppid b4 _ hb4
  apply safe_ite <;> intro hp
  · dsimp only
    apply safe_ite <;> intro hbe
    · apply handleDcepSt_safe _ _ hs
      intro s' b' n' hq
      apply safe_pure; exact h _ _ (by unfold St.Ok; rw [hq]; exact hs) hq
    · apply safe_bind; apply safe_restSlice; intro data _
      apply safe_ite <;> intro hmid
      · apply safe_pure; apply safe_pure; exact h _ _ hs rfl
      apply safe_bind; apply safe_alloc
      apply safe_ite <;> intro he
      · apply safe_pure; apply safe_pure; exact h _ _ hs rfl
      · apply safe_bind; apply safe_onBuf
        apply handleDcepSt_safe _ _ (show St.Ok { s with dcepBuf := s.dcepBuf.filter (fun e => decide (e.1 ≠ sid)) } from hs)
        intro s' b' n' hq
        apply safe_pure
        apply safe_pure; exact h _ _ (by unfold St.Ok; rw [hq]; exact hs) hq
  · cur_auto
    exact h _ _ hs rfl

attribute [local irreducible] processData

theorem filter_tsn_lt (q : List (Nat × Nat × Array UInt8)) (k : Nat) (e : Nat × Nat × Array UInt8) (he : e ∈ q) (hk : e.1 = k) :
    (q.filter (fun x => decide (x.1 ≠ k))).length < q.length := by
  induction q with
  | nil => simp at he
  | cons a t ih =>
    have hle := List.length_filter_le (fun x : Nat × Nat × Array UInt8 => decide (x.1 ≠ k)) t
    rw [List.filter_cons]
    split
    · rename_i hak
      have hak' : a.1 ≠ k := by simpa using hak
      have : e ∈ t := by
        rcases List.mem_cons.mp he with rfl | h
        · exact absurd hk hak'
        · exact h
      have := ih this
      simp only [List.length_cons]; omega
    · simp only [List.length_cons]; omega

theorem drain_safe (cum : Nat) (q : List (Nat × Nat × Array UInt8)) (fuel : Nat) (hf : q.length < fuel) {Q b n} (hq : QOk q)
    (h : ∀ r, QOk r.1 → QOk r.2 → Q r b n) : safe T (loopM (drainBody cum) fuel ([], q)) Q b n := by
  apply safe_loop (fun st b' n' => b' = b ∧ n' = n ∧ QOk st.1 ∧ QOk st.2) (fun st _ => st.2.length)
  · intro st b' n' hinv
    obtain ⟨hb, hn, h1, h2⟩ := hinv
    subst hb hn
    unfold drainBody
    dsimp only
    split
    · rename_i e he
      apply safe_pure
      have hmem := List.mem_of_find?_eq_some he
      have hp : e.1 = u32add cum (1 + st.1.length) := by simpa using List.find?_some he
      refine ⟨⟨rfl, rfl, ?_, qok_filter _ h2⟩, filter_tsn_lt _ _ e hmem hp⟩
      intro x hx
      rcases List.mem_cons.mp hx with rfl | hx
      · exact h2 _ hmem
      · exact h1 _ hx
    · apply safe_pure
      apply h
      · intro x hx; exact h1 x (List.mem_reverse.mp hx)
      · exact h2
  · exact ⟨rfl, rfl, fun _ hx => by simp at hx, hq⟩
  · exact hf

theorem processBatch_safe (l : List (Nat × Nat × Array UInt8)) (s : St) {Q b n} (hs : s.Ok) (hl : QOk l)
    (h : ∀ s' n', s'.Ok → Q s' b n') : safe T (processBatch s l) Q b n := by
  induction l generalizing s n with
  | nil => unfold processBatch; apply safe_pure; exact h _ _ hs
  | cons e rest ih =>
    unfold processBatch
    apply safe_bind
    apply processData_safe _ _ _ hs (hl e (by simp))
    intro s' n' hs' _
    apply ih _ _ (fun x hx => hl x (by simp [hx]))
    exact hs'

attribute [local irreducible] processBatch

theorem handleDataSt_safe (s : St) (flags : Nat) (v : Array UInt8) {Q b n} (hs : s.Ok)
    (h : ∀ s' n', s'.Ok → Q s' b n') : safe T (handleDataSt s flags v) Q b n := by
  unfold handleDataSt
  apply safe_ite <;> intro hv
  · apply safe_pure; exact h _ _ hs
  apply safe_bind; apply safe_be32 (by omega); intro tsn _
  dsimp only
  apply safe_ite <;> intro hd
  · apply safe_pure; exact h _ _ hs
  apply safe_ite <;> intro hfast
  · apply safe_bind
    apply processData_safe _ _ _ hs (by omega)
    intro s' n' hs' _
    apply safe_pure
    apply h
    exact hs'
  · have hq : QOk (if s.queue.any (fun e => decide (e.1 = tsn)) = true then s.queue else (tsn, flags, v) :: s.queue) := by
      split
      · exact hs
      · intro x hx
        rcases List.mem_cons.mp hx with rfl | hx
        · show 12 ≤ v.size; omega
        · exact hs x hx
    apply safe_bind
    apply drain_safe _ _ _ (by omega) hq
    intro r h1 h2
    apply processBatch_safe _ _ (show St.Ok { s with queue := r.2 } from h2) h1
    exact h

attribute [local irreducible] handleDataSt

theorem cookieWalk_safe (fuel : Nat) {Q : Option (Array UInt8) → Buf → Nat → Prop} {b n} (hf : b.rem < fuel)
    (h : ∀ r b' n', Q r b' n') : safe T (loopM cookieWalkBody fuel none) Q b n := by
  apply safe_loop (fun _ _ _ => True) (fun _ b' => b'.rem)
  · intro c b' n' _
    unfold cookieWalkBody
    cur_auto
    all_goals (first | apply h | skip)
  · trivial
  · exact hf

theorem handleInitSt_safe (s : St) {Q b n} (hs : s.Ok)
    (h : ∀ s' b' n', s'.Ok → Q s' b' n') : safe T (handleInitSt s) Q b n := by
  unfold handleInitSt
  cur_auto
  all_goals (apply h; ok_frame hs)

theorem handleInitAckSt_safe (s : St) {Q b n} (hs : s.Ok)
    (h : ∀ s' b' n', s'.Ok → Q s' b' n') : safe T (handleInitAckSt s) Q b n := by
  unfold handleInitAckSt
  apply safe_ite <;> intro h0
  · apply safe_pure; exact h _ _ _ hs
  apply safe_bind; apply safe_remaining
  apply safe_ite <;> intro h1
  · apply safe_pure; apply h; ok_frame hs
  apply safe_bind; apply safe_getU32 (by omega); intro tag b1 _ hb1
  apply safe_bind; apply safe_getU32 (by omega); intro rwnd b2 _ hb2
  apply safe_bind; apply safe_getU16 (by omega); intro os b3 _ hb3
  apply safe_bind; apply safe_getU16 (by omega); intro is_ b4 _ hb4
  apply safe_bind; apply safe_getU32 (by omega); intro tsn b5 _ hb5
  apply safe_bind; apply safe_remaining
  apply safe_bind
  apply cookieWalk_safe _ (by omega)
  intro c b' n'
  split
  · apply safe_pure; apply h; ok_frame hs
  · apply safe_pure; apply h; ok_frame hs

theorem handleSackSt_safe (s : St) {Q b n} (hs : s.Ok)
    (h : ∀ s' b' n', s'.Ok → Q s' b' n') : safe T (handleSackSt s) Q b n := by
  unfold handleSackSt
  apply safe_bind; apply safe_remaining
  apply safe_ite <;> intro h0
  · apply safe_bind; apply safe_getU32 (by omega); intro c b1 _ hb1
    apply safe_bind; apply safe_getU32 (by omega); intro rw b2 _ hb2
    apply safe_bind; apply safe_getU16 (by omega); intro num b3 _ hb3
    apply safe_bind; apply safe_getU16 (by omega); intro d b4 _ hb4
    apply safe_bind
    apply safe_weaken_err (E := (· ≤ n + b4.rem))
    · apply sackGaps_safe _ _ (by omega) (by omega)
      intro r b' n' _
      apply safe_pure; apply h; ok_frame hs
    · intro _ _; trivial
  · apply safe_pure; exact h _ _ _ hs

theorem fwdDrain_safe (s : St) (fuel : Nat) {Q b n} (hf : s.queue.length < fuel) (hs : s.Ok)
    (h : ∀ s' b' n', s'.Ok → Q s' b' n') : safe T (loopM fwdDrainBody fuel s) Q b n := by
  apply safe_loop (fun s' _ _ => s'.Ok) (fun s' _ => s'.queue.length)
  · intro s' b' n' hs'
    unfold fwdDrainBody
    dsimp only
    split
    · apply safe_pure; exact h _ _ _ hs'
    · rename_i e he
      have hmem := List.mem_of_find?_eq_some he
      have hp : e.1 = u32add s'.cum 1 := by simpa using List.find?_some he
      have hlt := filter_tsn_lt s'.queue _ e hmem hp
      apply safe_bind
      apply processData_safe _ _ _ (show St.Ok { s' with queue := s'.queue.filter (fun x => decide (x.1 ≠ u32add s'.cum 1)) } from qok_filter _ hs') (hs' e hmem)
      intro s'' n'' hs'' hq''
      apply safe_pure
      refine ⟨?_, ?_⟩
      · unfold St.Ok at *; exact hs''
      · show s''.queue.length < s'.queue.length
        rw [hq'']; exact hlt
  · exact hs
  · exact hf

theorem handleForwardTsnSt_safe (s : St) {Q b n} (hs : s.Ok)
    (h : ∀ s' b' n', s'.Ok → Q s' b' n') : safe T (handleForwardTsnSt s) Q b n := by
  unfold handleForwardTsnSt
  apply safe_bind; apply safe_remaining
  apply safe_ite <;> intro h0
  · apply safe_pure; exact h _ _ _ hs
  apply safe_bind; apply safe_getU32 (by omega); intro new b1 _ hb1
  apply safe_bind; apply safe_remaining
  apply safe_bind
  apply safe_loop (Q := fun _ b' n' => safe T (if tsnGt new s.cum = true then
        loopM fwdDrainBody (({ s with cum := new, queue := s.queue.filter (fun e => tsnGt e.1 new) } : St).queue.length + 1)
          { s with cum := new, queue := s.queue.filter (fun e => tsnGt e.1 new) } else pure s) Q b' n')
    (fun _ _ _ => True) (fun _ b' => b'.rem)
  · intro i b' n' _
    unfold fwdPairsBody
    apply safe_bind; apply safe_remaining
    apply safe_ite <;> intro hc
    · apply safe_pure
      apply safe_ite <;> intro h1
      · apply fwdDrain_safe _ _ (Nat.lt_succ_self _) (show St.Ok { s with cum := new, queue := s.queue.filter (fun e => tsnGt e.1 new) } from qok_filter _ hs)
        exact h
      · apply safe_pure; exact h _ _ _ hs
    · apply safe_bind; apply safe_getU16 (by omega); intro a b2 _ hb2
      apply safe_bind; apply safe_getU16 (by omega); intro c b3 _ hb3
      apply safe_bind; apply safe_alloc
      apply safe_pure
      exact ⟨trivial, by omega⟩
  · trivial
  · omega

theorem getU16sAll_T (fuel : Nat) {Q : List Nat → Buf → Nat → Prop} {b n} (hf : b.rem < 2 * fuel)
    (h : ∀ l b' n', Q l b' n') : safe T (getU16sAll fuel) Q b n :=
  safe_weaken_err (E := (· ≤ n + b.rem)) (safe_getU16sAll fuel hf (Nat.le_refl _) (fun l b' n' _ _ => h l b' n')) (fun _ _ => trivial)

set_option maxRecDepth 8192 in
theorem reconfigLoop_safe (s : St) (fuel : Nat) {Q b n} (hf : b.rem < fuel) (hs : s.Ok)
    (h : ∀ s' b' n', s'.Ok → Q s' b' n') : safe T (loopM reconfigBodySt fuel s) Q b n := by
  apply safe_loop (fun s' _ _ => s'.Ok) (fun _ b' => b'.rem)
  · intro s' b' n' hs'
    unfold reconfigBodySt
    cur_auto
    all_goals (first | (apply h; exact hs') | exact hs' | (ok_frame hs') | skip)
    all_goals (apply getU16sAll_T _ (by omega); intro l b'' n''; cur_auto)
    all_goals (first | exact hs' | (ok_frame hs') | skip)
  · exact hs
  · exact hf

attribute [local irreducible] handleInitSt handleInitAckSt handleSackSt handleForwardTsnSt

set_option maxRecDepth 8192 in
theorem handleChunkSt_safe (s : St) (ct flags : Nat) (v : Buf) {Q b n} (hs : s.Ok)
    (h : ∀ s' n', s'.Ok → Q s' b n') : safe T (handleChunkSt s ct flags v) Q b n := by
  unfold handleChunkSt
  apply safe_bind; apply safe_onBuf
  have fin : ∀ (s' : St) (sub' : Buf) (n' : Nat), s'.Ok → safe T (pure (s', sub').1 : Cur St) Q b n' :=
    fun s' _ n' hs' => safe_pure (h s' n' hs')
  apply safe_ite <;> intro h1
  · apply handleInitSt_safe _ hs; intro s' b' n' hs'; exact fin _ _ _ hs'
  apply safe_ite <;> intro h2
  · apply handleInitAckSt_safe _ hs; intro s' b' n' hs'; exact fin _ _ _ hs'
  apply safe_ite <;> intro h3
  · apply safe_bind; apply safe_restSlice; intro ck _
    apply safe_ite <;> intro hc
    · apply safe_pure; exact fin _ _ _ hs
    · apply safe_pure; apply fin; ok_frame hs
  apply safe_ite <;> intro h4
  · apply safe_pure; apply fin; ok_frame hs
  apply safe_ite <;> intro h5
  · apply safe_bind; apply safe_restSlice; intro body _
    apply handleDataSt_safe _ _ _ hs
    intro s' n' hs'; exact fin _ _ _ hs'
  apply safe_ite <;> intro h6
  · apply handleSackSt_safe _ hs; intro s' b' n' hs'; exact fin _ _ _ hs'
  apply safe_ite <;> intro h7
  · apply safe_bind; apply safe_restSlice; intro body _
    apply safe_pure; apply fin; ok_frame hs
  apply safe_ite <;> intro h8
  · apply handleForwardTsnSt_safe _ hs; intro s' b' n' hs'; exact fin _ _ _ hs'
  apply safe_ite <;> intro h9
  · apply safe_bind; apply safe_remaining
    apply reconfigLoop_safe _ _ (by omega) hs
    intro s' b' n' hs'; exact fin _ _ _ hs'
  apply safe_ite <;> intro h10
  · apply safe_pure; apply fin; ok_frame hs
  apply safe_ite <;> intro h11
  · apply safe_pure; apply fin; ok_frame hs
  apply safe_ite <;> intro h12
  · apply safe_pure; apply fin; ok_frame hs
  · apply safe_pure; exact fin _ _ _ hs

attribute [local irreducible] handleChunkSt

theorem handlePacketSt_safe (s : St) (crcOk : Bool) {Q b n} (hs : s.Ok)
    (h : ∀ s' b' n', s'.Ok → Q s' b' n') : safe T (handlePacketSt s crcOk) Q b n := by
  unfold handlePacketSt
  simp only [c07SctpCommonHeader_val]
  cur_auto
  any_goals (apply h; exact hs)
  apply safe_loop (fun s' _ _ => s'.Ok) (fun _ b' => b'.rem)
  · intro s' b' n' hs'
    unfold chunkWalkBodySt
    simp only [c07ChunkHeaderSize_val]
    cur_auto
    any_goals (apply h; exact hs')
    all_goals (apply handleChunkSt_safe _ _ _ _ hs'; intro s'' n'' hs''; cur_auto)
    all_goals (first | (apply h; exact hs'') | exact hs'' | skip)
  · exact hs
  · omega

attribute [local irreducible] handlePacketSt

/-- every packet history on one association: no panic, every loop is left, and the queue invariant is kept -/
theorem runHistory_safe (ps : List Pkt) (s : St) (b : Buf) (n : Nat) (hs : s.Ok) :
    safe T (runHistory s ps) (fun _ _ _ => True) b n := by
  induction ps generalizing s n with
  | nil => unfold runHistory; exact safe_pure trivial
  | cons p rest ih =>
    unfold runHistory
    apply safe_bind; apply safe_onBuf
    apply handlePacketSt_safe _ _ (show St.Ok { s with ev := [], txPlan := p.sent } from hs)
    intro s' b' n' hs'
    dsimp only
    apply safe_bind
    apply safe_mono (ih { s' with cookies := p.issued ++ s'.cookies } n' (show St.Ok { s' with cookies := p.issued ++ s'.cookies } from hs'))
    intro _ _ _ _
    exact safe_pure trivial

end RtcModel.C07.SctpSt
