/- C15 — helper lemmas for the NACK send buffer and the receiver gap detector. Core Lean only. -/
import RtcModel.C15NackBuf

namespace RtcModel.C15
open RtcModel.Generated

/-! ### association-list facts -/

theorem mapGet_mapErase_self (m : List (UInt16 × Nat)) (s : UInt16) : mapGet (mapErase m s) s = none := by
  induction m with
  | nil => rfl
  | cons p m ih =>
    obtain ⟨k, v⟩ := p
    by_cases h : k = s <;> simp [mapErase, mapGet, h, ih]

theorem mapGet_mapErase_other (m : List (UInt16 × Nat)) {s s' : UInt16} (h : s' ≠ s) :
    mapGet (mapErase m s) s' = mapGet m s' := by
  induction m with
  | nil => rfl
  | cons p m ih =>
    obtain ⟨k, v⟩ := p
    by_cases hk : k = s
    · subst hk; simp [mapErase, mapGet, Ne.symm h, ih]
    · by_cases hk' : k = s'
      · subst hk'; simp [mapErase, mapGet, h]
      · simp [mapErase, mapGet, hk, hk', ih]

theorem mapGet_mapSet_self (m : List (UInt16 × Nat)) (s : UInt16) (v : Nat) : mapGet (mapSet m s v) s = some v := by
  simp [mapGet, mapSet]

theorem mapGet_mapSet_other (m : List (UInt16 × Nat)) {s s' : UInt16} (v : Nat) (h : s' ≠ s) :
    mapGet (mapSet m s v) s' = mapGet m s' := by
  simp [mapSet, mapGet, Ne.symm h, mapGet_mapErase_other m h]

/-- number of entries with key `s` -/
def keyCount : List (UInt16 × Nat) → UInt16 → Nat
  | [], _ => 0
  | (k, _) :: m, s => (if k = s then 1 else 0) + keyCount m s

theorem mapErase_length (m : List (UInt16 × Nat)) (s : UInt16) : (mapErase m s).length + keyCount m s = m.length := by
  induction m with
  | nil => rfl
  | cons p m ih =>
    obtain ⟨k, v⟩ := p
    by_cases h : k = s <;> simp [mapErase, keyCount, h] <;> omega

theorem keyCount_mapErase_self (m : List (UInt16 × Nat)) (s : UInt16) : keyCount (mapErase m s) s = 0 := by
  induction m with
  | nil => rfl
  | cons p m ih =>
    obtain ⟨k, v⟩ := p
    by_cases h : k = s <;> simp [mapErase, keyCount, h, ih]

theorem keyCount_mapErase_other (m : List (UInt16 × Nat)) {s s' : UInt16} (h : s' ≠ s) :
    keyCount (mapErase m s) s' = keyCount m s' := by
  induction m with
  | nil => rfl
  | cons p m ih =>
    obtain ⟨k, v⟩ := p
    by_cases hk : k = s
    · subst hk; simp [mapErase, keyCount, Ne.symm h, ih]
    · by_cases hk' : k = s'
      · subst hk'; simp [mapErase, keyCount, h, ih]
      · simp [mapErase, keyCount, hk, hk', ih]

theorem keyCount_zero_iff (m : List (UInt16 × Nat)) (s : UInt16) : keyCount m s = 0 ↔ mapGet m s = none := by
  induction m with
  | nil => simp [keyCount, mapGet]
  | cons p m ih =>
    obtain ⟨k, v⟩ := p
    by_cases h : k = s <;> simp [keyCount, mapGet, h, ih]

/-! ### send-buffer invariant -/

/-- the map holds exactly the FIFO's sequence numbers, once each -/
def KeysMatch (order : List UInt16) (m : List (UInt16 × Nat)) : Prop :=
  ∀ s, keyCount m s = if s ∈ order then 1 else 0

structure NackBuf.Inv (b : NackBuf) : Prop where
  maxPos : 1 ≤ b.maxSize
  bounded : b.order.length ≤ b.maxSize
  nodup : b.order.Nodup
  keys : KeysMatch b.order b.packets

theorem keysMatch_length : ∀ (order : List UInt16) (m : List (UInt16 × Nat)), order.Nodup → KeysMatch order m →
    m.length = order.length := by
  intro order
  induction order with
  | nil =>
    intro m _ hk
    cases m with
    | nil => rfl
    | cons p m =>
      obtain ⟨k, v⟩ := p
      have := hk k
      simp [keyCount] at this
  | cons o os ih =>
    intro m hnd hk
    have hno : o ∉ os := (List.nodup_cons.mp hnd).1
    have hk' : KeysMatch os (mapErase m o) := by
      intro s
      by_cases hs : s = o
      · subst hs; rw [keyCount_mapErase_self]; simp [hno]
      · rw [keyCount_mapErase_other m hs, hk s]; simp [hs]
    have := ih (mapErase m o) (List.nodup_cons.mp hnd).2 hk'
    have h1 := mapErase_length m o
    have h2 := hk o
    simp at h2
    simp only [List.length_cons]; omega

theorem mem_order_iff {b : NackBuf} (i : b.Inv) (s : UInt16) : s ∈ b.order ↔ (mapGet b.packets s).isSome = true := by
  have hk := i.keys s
  have hz := keyCount_zero_iff b.packets s
  by_cases hs : s ∈ b.order
  · simp only [hs, if_true] at hk
    have : mapGet b.packets s ≠ none := fun h => by rw [hz.mpr h] at hk; cases hk
    cases hg : mapGet b.packets s with
    | none => exact absurd hg this
    | some v => simp [hs]
  · simp only [hs, if_false] at hk
    simp [hs, hz.mp hk]

theorem evict_spec (maxSize : Nat) : ∀ (order : List UInt16) (m : List (UInt16 × Nat)), order.Nodup → KeysMatch order m →
    (evict maxSize order m).1.Nodup ∧ KeysMatch (evict maxSize order m).1 (evict maxSize order m).2 ∧
    (evict maxSize order m).1.length ≤ maxSize ∧
    (∃ dropped, order = dropped ++ (evict maxSize order m).1 ∧ (order.length ≤ maxSize → dropped = []) ∧
      dropped.length = order.length - min order.length maxSize) := by
  intro order
  induction order with
  | nil => intro m _ hk; exact ⟨List.nodup_nil, by simpa [evict] using hk, by simp [evict], [], by simp [evict], fun _ => rfl, by simp⟩
  | cons o os ih =>
    intro m hnd hk
    simp only [evict]
    by_cases hgt : (o :: os).length > maxSize
    · rw [if_pos hgt]
      have hno : o ∉ os := (List.nodup_cons.mp hnd).1
      have hk' : KeysMatch os (mapErase m o) := by
        intro s
        by_cases hs : s = o
        · subst hs; rw [keyCount_mapErase_self]; simp [hno]
        · rw [keyCount_mapErase_other m hs, hk s]; simp [hs]
      obtain ⟨h1, h2, h3, dropped, h4, h5, h6⟩ := ih (mapErase m o) (List.nodup_cons.mp hnd).2 hk'
      refine ⟨h1, h2, h3, o :: dropped, by rw [List.cons_append, ← h4], fun hle => by simp at hgt hle; omega, ?_⟩
      simp only [List.length_cons] at hgt ⊢
      omega
    · rw [if_neg hgt]
      exact ⟨hnd, hk, by simp only; omega, [], rfl, fun _ => rfl, by simp only [List.length_nil]; omega⟩

theorem inv_new (maxSize : Nat) : (NackBuf.new maxSize).Inv :=
  ⟨by simp [NackBuf.new]; omega, by simp [NackBuf.new], by simp [NackBuf.new], by intro s; simp [NackBuf.new, keyCount]⟩

theorem inv_push {b : NackBuf} (i : b.Inv) (s : UInt16) (t : Nat) : (b.push s t).Inv := by
  unfold NackBuf.push
  by_cases hs : (mapGet b.packets s).isSome = true
  · rw [if_pos hs]
    have hmem := (mem_order_iff i s).mpr hs
    refine ⟨i.maxPos, i.bounded, i.nodup, ?_⟩
    intro x
    simp only [mapSet, keyCount]
    by_cases hx : x = s
    · subst hx; rw [keyCount_mapErase_self]; simp [hmem]
    · rw [keyCount_mapErase_other _ hx, i.keys x]; simp [Ne.symm hx]
  · rw [if_neg hs]
    have hnm : s ∉ b.order := fun h => hs ((mem_order_iff i s).mp h)
    have hnd : (b.order ++ [s]).Nodup := by
      rw [List.nodup_append]
      exact ⟨i.nodup, by simp, by intro a ha c hc; simp at hc; subst hc; exact fun h => hnm (h ▸ ha)⟩
    have hk : KeysMatch (b.order ++ [s]) (mapSet b.packets s t) := by
      intro x
      simp only [mapSet, keyCount]
      by_cases hx : x = s
      · subst hx; rw [keyCount_mapErase_self]; simp
      · rw [keyCount_mapErase_other _ hx, i.keys x]; simp [hx, Ne.symm hx]
    obtain ⟨h1, h2, h3, _⟩ := evict_spec b.maxSize _ _ hnd hk
    exact ⟨i.maxPos, h3, h1, h2⟩

theorem inv_step {b : NackBuf} (i : b.Inv) (o : BufOp) : (b.step o).1.Inv := by
  cases o with
  | push s t => exact inv_push i s t
  | sent ssrc s t =>
    simp only [NackBuf.step]
    split
    · exact i
    · exact inv_push i s t
  | setRtx ssrc => exact ⟨i.maxPos, i.bounded, i.nodup, i.keys⟩
  | query now seqs => exact ⟨i.maxPos, i.bounded, i.nodup, i.keys⟩
  | nack now seqs => exact ⟨i.maxPos, i.bounded, i.nodup, i.keys⟩

theorem inv_final {b : NackBuf} (i : b.Inv) (ops : List BufOp) : (bufFinal b ops).Inv := by
  induction ops generalizing b with
  | nil => exact i
  | cons o os ih => exact ih (inv_step i o)

theorem evict_sublist (maxSize : Nat) : ∀ (order : List UInt16) (m : List (UInt16 × Nat)) (x : UInt16),
    x ∈ (evict maxSize order m).1 → x ∈ order := by
  intro order
  induction order with
  | nil => intro m x hx; simpa [evict] using hx
  | cons o os ih =>
    intro m x hx
    simp only [evict] at hx
    by_cases hgt : (o :: os).length > maxSize
    · rw [if_pos hgt] at hx; exact List.mem_cons_of_mem _ (ih _ x hx)
    · rw [if_neg hgt] at hx; exact hx

/-- eviction never touches the entries that stay -/
theorem evict_get (maxSize : Nat) : ∀ (order : List UInt16) (m : List (UInt16 × Nat)) (x : UInt16), order.Nodup →
    x ∈ (evict maxSize order m).1 → mapGet (evict maxSize order m).2 x = mapGet m x := by
  intro order
  induction order with
  | nil => intro m x _ hx; simp [evict] at hx
  | cons o os ih =>
    intro m x hnd hx
    simp only [evict] at hx ⊢
    by_cases hgt : (o :: os).length > maxSize
    · rw [if_pos hgt] at hx ⊢
      have hxo : x ≠ o := fun h => (List.nodup_cons.mp hnd).1 (h ▸ evict_sublist _ _ _ _ hx)
      rw [ih _ x (List.nodup_cons.mp hnd).2 hx, mapGet_mapErase_other m hxo]
    · rw [if_neg hgt]

/-- what one push does to the FIFO: unchanged for a buffered sequence number, otherwise appended and —
only when the buffer was full — the single oldest entry dropped -/
theorem push_order {b : NackBuf} (i : b.Inv) (s : UInt16) (t : Nat) :
    (b.push s t).order =
      if s ∈ b.order then b.order
      else if b.order.length < b.maxSize then b.order ++ [s]
      else b.order.tail ++ [s] := by
  unfold NackBuf.push
  by_cases hs : (mapGet b.packets s).isSome = true
  · rw [if_pos hs, if_pos ((mem_order_iff i s).mpr hs)]
  · rw [if_neg hs]
    have hnm : s ∉ b.order := fun h => hs ((mem_order_iff i s).mp h)
    rw [if_neg hnm]
    simp only
    have hb := i.bounded
    have hp := i.maxPos
    by_cases hlt : b.order.length < b.maxSize
    · rw [if_pos hlt]
      cases ho : b.order ++ [s] with
      | nil => simp at ho
      | cons o os =>
        have : ¬ (o :: os).length > b.maxSize := by rw [← ho]; simp; omega
        simp only [evict]; rw [if_neg this]
    · rw [if_neg hlt]
      cases hord : b.order with
      | nil => rw [hord] at hlt; simp at hlt; omega
      | cons o os =>
        have hlen : os.length + 1 = b.maxSize := by rw [hord] at hb hlt; simp at hb hlt; omega
        simp only [List.cons_append, evict, List.tail_cons]
        rw [if_pos (by simp; omega)]
        cases ho : os ++ [s] with
        | nil => simp at ho
        | cons o2 os2 =>
          have : ¬ (o2 :: os2).length > b.maxSize := by rw [← ho]; simp; omega
          simp only [evict]; rw [if_neg this]

theorem push_get_self {b : NackBuf} (i : b.Inv) (s : UInt16) (t : Nat) :
    mapGet (b.push s t).packets s = some t := by
  have hord := push_order i s t
  unfold NackBuf.push at hord ⊢
  by_cases hs : (mapGet b.packets s).isSome = true
  · rw [if_pos hs]; exact mapGet_mapSet_self _ _ _
  · rw [if_neg hs] at hord ⊢
    have hnm : s ∉ b.order := fun h => hs ((mem_order_iff i s).mp h)
    have hnd : (b.order ++ [s]).Nodup := by
      rw [List.nodup_append]
      exact ⟨i.nodup, by simp, by intro a ha c hc; simp at hc; subst hc; exact fun h => hnm (h ▸ ha)⟩
    simp only at hord ⊢
    have hmem : s ∈ (evict b.maxSize (b.order ++ [s]) (mapSet b.packets s t)).1 := by
      rw [hord, if_neg hnm]
      split <;> simp
    rw [evict_get _ _ _ s hnd hmem, mapGet_mapSet_self]

/-! ### receiver gap detection -/

theorem seqRun_length (first : UInt16) (n : Nat) : (seqRun first n).length = n := by
  induction n generalizing first with
  | zero => rfl
  | succ n ih => simp [seqRun, ih]

theorem mem_seqRun (first x : UInt16) (n : Nat) : x ∈ seqRun first n ↔ ∃ i, i < n ∧ x = first + UInt16.ofNat i := by
  induction n generalizing first with
  | zero => simp [seqRun]
  | succ n ih =>
    simp only [seqRun, List.mem_cons, ih]
    constructor
    · rintro (rfl | ⟨i, hi, rfl⟩)
      · exact ⟨0, by omega, by simp⟩
      · refine ⟨i + 1, by omega, ?_⟩
        apply UInt16.toNat_inj.mp
        simp [UInt16.toNat_add]; omega
    · rintro ⟨i, hi, rfl⟩
      cases i with
      | zero => left; simp
      | succ j =>
        right
        refine ⟨j, by omega, ?_⟩
        apply UInt16.toNat_inj.mp
        simp [UInt16.toNat_add]; omega

/-- **nack_response_rtx**: answering a NACK with RTX enabled wraps the selected stored packets, in order, with
CONSECUTIVE RTX sequence numbers starting at the handler's counter (wrapping at 2^16), advances the counter by
the number of packets sent, and resends nothing else; without RTX the packets are resent unchanged and the
counter does not move. -/
theorem nack_response_rtx (ctr : UInt16) (xs : List (UInt16 × Nat)) :
    (respondRtx true ctr xs).1.map (fun e => (e.1, e.2.1)) = xs ∧
    (∀ (i : Nat) (hi : i < (respondRtx true ctr xs).1.length), ((respondRtx true ctr xs).1[i]).2.2 = some (ctr + UInt16.ofNat i)) ∧
    (respondRtx true ctr xs).2 = ctr + UInt16.ofNat xs.length ∧
    (respondRtx false ctr xs).1 = xs.map (fun e => (e.1, e.2, none)) ∧ (respondRtx false ctr xs).2 = ctr := by
  induction xs generalizing ctr with
  | nil => simp [respondRtx]
  | cons x xs ih =>
    obtain ⟨s, t⟩ := x
    obtain ⟨h1, h2, h3, h4, h5⟩ := ih (ctr + 1)
    obtain ⟨_, _, _, g4, g5⟩ := ih ctr
    simp only [respondRtx, if_true, Bool.false_eq_true, if_false, List.map_cons, List.length_cons]
    refine ⟨by rw [h1], ?_, ?_, by rw [g4], g5⟩
    · intro i hi
      cases i with
      | zero => simp
      | succ j =>
        have := h2 j (by simpa using hi)
        simp only [List.getElem_cons_succ, this]
        congr 1
        apply UInt16.toNat_inj.mp
        simp [UInt16.toNat_add]; omega
    · rw [h3]
      apply UInt16.toNat_inj.mp
      simp [UInt16.toNat_add]; omega

end RtcModel.C15
