/- C07 — WP proofs for `RtcModel.C07Ice`. -/
import RtcModel.C07Ice
namespace RtcModel.C07.Ice
open RtcModel.C07 RtcModel.Generated

theorem xorAddr_safe {B : Nat} (value tid : Array UInt8) {Q b n} (hn : n ≤ B) (ht : tid.size = 12)
    (h : ∀ r, Q r b n) : safe (· ≤ B) (xorAddr value tid) Q b n := by
  unfold xorAddr
  cur_auto
  all_goals apply h
attribute [local irreducible] xorAddr

theorem stunAttr_safe {B : Nat} (typ : Nat) (value tid : Array UInt8) (acc : StunAcc) {Q b n}
    (hn : n + value.size ≤ B) (ht : tid.size = 12) (h : ∀ r n', n' ≤ n + value.size → Q r b n') :
    safe (· ≤ B) (stunAttr typ value tid acc) Q b n := by
  unfold stunAttr
  cur_auto
  any_goals (apply xorAddr_safe _ _ (by omega) ht; intro r; cur_auto)
  all_goals (apply h; omega)
attribute [local irreducible] stunAttr

theorem stunDecode_safe {B : Nat} (bytes : Array UInt8) {Q b n}
    (hn : n + bytes.size ≤ B) (h : ∀ r n', n' ≤ n + bytes.size → Q r b n') :
    safe (· ≤ B) (stunDecode bytes) Q b n := by
  unfold stunDecode
  cur_auto
  rename_i tid htid
  apply safe_loop (fun s b' n' => b' = b ∧ 20 ≤ s.1 ∧ s.1 ≤ bytes.size + 3 ∧ n' + 20 ≤ n + s.1)
    (fun s _ => bytes.size + 4 - s.1)
  · intro s b' n' hinv
    obtain ⟨hb, h1, h2, h3⟩ := hinv
    subst hb
    unfold stunAttrBody
    cur_auto
    · apply h; omega
    · apply h; omega
    · apply stunAttr_safe _ _ _ _ (by omega) (by omega)
      intro r n'' hr
      cur_auto
  · exact ⟨rfl, by domega, by domega, by domega⟩
  · domega
attribute [local irreducible] stunDecode

theorem usernameFromStun_safe {B : Nat} (bytes : Array UInt8) {Q b n}
    (hn : n + bytes.size ≤ B) (h : ∀ r n', n' ≤ n + bytes.size → r.2.size ≤ bytes.size → Q r b n') :
    safe (· ≤ B) (usernameFromStun bytes) Q b n := by
  unfold usernameFromStun
  cur_auto
  any_goals (apply h <;> simp)
  apply safe_loop (fun s b' n' => b' = b ∧ n' = n) (fun s _ => bytes.size + 4 - s)
  · intro s b' n' hinv
    obtain ⟨hb, hn'⟩ := hinv
    subst hb hn'
    unfold usernameBody
    cur_auto
    all_goals (apply h <;> first | omega | (simp only [Array.size_empty]; omega))
  · exact ⟨rfl, rfl⟩
  · domega
attribute [local irreducible] usernameFromStun

theorem peerUfrag_safe (data : Array UInt8) (b : Buf) :
    safe (· ≤ 2 * data.size) (peerUfrag data) (fun _ _ n' => n' ≤ 2 * data.size) b 0 := by
  unfold peerUfrag
  cur_auto
  apply usernameFromStun_safe _ (by omega)
  intro r n' hr hs
  cur_auto

theorem verifyMi_safe (bytes : Array UInt8) (b : Buf) :
    safe (· ≤ bytes.size + 20) (verifyMi bytes) (fun _ _ n' => n' ≤ bytes.size + 20) b 0 := by
  unfold verifyMi
  apply safe_loop (fun s _ n' => 20 ≤ s ∧ n' = 0) (fun s _ => bytes.size + 4 - s)
  · intro s b' n' hinv
    obtain ⟨h1, h2⟩ := hinv
    subst h2
    unfold verifyMiBody
    cur_auto
  · exact ⟨by omega, rfl⟩
  · omega

theorem handlePacketClass_safe {B : Nat} (packet : Array UInt8) {Q b n} (hn : n ≤ B)
    (h : ∀ r, Q r b n) : safe (· ≤ B) (handlePacketClass packet) Q b n := by
  unfold handlePacketClass
  cur_auto
  all_goals apply h
attribute [local irreducible] handlePacketClass

theorem turnPacket_safe (packet : Array UInt8) (peerKnown : Bool) (b : Buf) :
    safe (· ≤ packet.size) (turnPacket packet peerKnown) (fun _ _ n' => n' ≤ packet.size) b 0 := by
  unfold turnPacket
  cur_auto
  all_goals (try (apply handlePacketClass_safe _ (by omega); intro r; cur_auto))
  all_goals (try apply safe_attemptD' (B := packet.size))
  all_goals (try (intro n' hn'; simp only [Bool.false_eq_true, not_false_eq_true, if_true]; cur_auto))
  all_goals (try (apply stunDecode_safe _ (by omega); intro r n' hr; simp only [not_true_eq_false, if_false]; cur_auto))
  all_goals (try (apply handlePacketClass_safe _ (by omega); intro r; cur_auto))

theorem turnTcpRecv_safe (bufLen : Nat) (b : Buf) (n : Nat) :
    safe (· ≤ n) (turnTcpRecv bufLen) (fun r _ n' => r ≤ bufLen ∧ n' = n) b n := by
  unfold turnTcpRecv turnTcpTail readExact
  cur_auto

theorem tcp4571Recv_safe (bufLen : Nat) (b : Buf) (n : Nat) :
    safe (· ≤ n) (tcp4571Recv bufLen) (fun r _ n' => r ≤ bufLen ∧ n' = n) b n := by
  unfold tcp4571Recv readExact
  cur_auto

theorem sharedTcpFirstFrame_safe (b : Buf) :
    safe (· ≤ 1500) sharedTcpFirstFrame (fun r _ n' => r ≤ 1500 ∧ n' ≤ 1500) b 0 := by
  unfold sharedTcpFirstFrame readExact
  simp only [c07MaxStunMessage_val]
  cur_auto

theorem unwrapRtx_safe (payload : Array UInt8) (b : Buf) (n : Nat) :
    safe (· ≤ n) (unwrapRtx payload) (fun _ _ n' => n' = n) b n := by
  unfold unwrapRtx
  cur_auto

end RtcModel.C07.Ice
