/-
Refinement of the endpoint model to an abstract "what has been authenticated" transition system
(C02, also used by C11).  `view` projects an endpoint onto the fields authentication is about;
`VStep` lists every way a message handler can change that projection, each with the guard the code
checks first; `*_vstep` lemmas show every model step is a (possibly empty) sequence of `VStep`s.
Invariants are then proved once, per `VStep` constructor.
-/
import RtcModel.Lemmas.DtlsHs

namespace RtcModel.DtlsHs
open RtcModel.Generated RtcModel.DtlsRecord

structure View where
  isClient     : Bool
  conn         : Conn
  connKeys     : Option Keys
  evs          : List Ev
  keys         : Option Keys
  peerCert     : Option Bytes
  skeVerified  : Bool
  peerPub      : Option Bytes
  clientRandom : Option Bytes
  expectedFp   : Option Bytes

def view (e : Ep) : View :=
  ⟨e.isClient, e.conn, e.connKeys, e.evs, e.ctx.keys, e.ctx.peerCert, e.ctx.skeVerified, e.ctx.peerPub,
   e.ctx.clientRandom, e.ctx.expectedFp⟩

/-- one abstract step, with the guard the code establishes before making it -/
inductive VStep (C : Crypto) (L : Loc) : View → View → Prop where
  | conn (v : View) (c : Conn) (h : c ≠ .connected) : VStep C L v { v with conn := c }
  | cert (v : View) (leaf : Bytes) (hfp : fpMismatch v.expectedFp (C.digest leaf) = false) (hpk : C.pkOk leaf = true) :
      VStep C L v { v with peerCert := some leaf, evs := .cert leaf :: v.evs }
  | ske (v : View) (leaf cr sr body share : Bytes) (hc : v.isClient = true) (hcert : v.peerCert = some leaf)
      (hcr : v.clientRandom = some cr) (hdec : C.skeDecode body = some share) (hsig : C.sigOk leaf cr sr body = true) :
      VStep C L v { v with peerPub := some share, skeVerified := true, evs := .ske leaf cr sr body :: v.evs }
  | peerPub (v : View) (pk : Bytes) (hs : v.isClient = false) : VStep C L v { v with peerPub := some pk }
  | clientRandom (v : View) (cr : Bytes) (hs : v.isClient = false) : VStep C L v { v with clientRandom := some cr }
  | keys (v : View) (pk cr sr tr : Bytes) (ems : Bool) (k : Keys) (hnone : v.keys = none)
      (hver : v.isClient = true → v.skeVerified = true) (hpk : v.peerPub = some pk)
      (hcr : v.clientRandom = some cr) (hd : C.derive L.pub pk cr sr ems tr = some k) :
      VStep C L v { v with keys := some k, evs := .keys L.pub pk cr sr ems tr k :: v.evs }
  /-- `Connected` is published only with keys and only when the verify_data that arrived equals the value
  computed from those keys' master secret, the *peer's* label and the current transcript -/
  | connect (v : View) (k : Keys) (tr body : Bytes) (hk : v.keys = some k)
      (hvd : body = C.vd k.ms (!v.isClient) tr) :
      VStep C L v { v with conn := .connected, connKeys := some k, evs := .finished k tr body :: v.evs }
  /-- the own Finished carries the verify_data for the own label -/
  | sent (v : View) (k : Keys) (tr body : Bytes) (label : Bool) (hk : v.keys = some k) (hvd : body = C.vd k.ms label tr) :
      VStep C L v { v with evs := .sentFinished k tr body :: v.evs }

/-- reflexive-transitive closure -/
inductive VSteps (C : Crypto) (L : Loc) : View → View → Prop where
  | refl (v : View) : VSteps C L v v
  | step {a b c : View} (h1 : VSteps C L a b) (h2 : VStep C L b c) : VSteps C L a c

theorem VSteps.one {C : Crypto} {L : Loc} {a b : View} (h : VStep C L a b) : VSteps C L a b := VSteps.step (VSteps.refl a) h

theorem VSteps.trans {C : Crypto} {L : Loc} {a b c : View} (h1 : VSteps C L a b) (h2 : VSteps C L b c) : VSteps C L a c := by
  induction h2 with
  | refl => exact h1
  | step _ s ih => exact .step ih s

theorem VSteps.of_eq {C : Crypto} {L : Loc} {a b : View} (h : b = a) : VSteps C L a b := by subst h; exact .refl _

/-! ### every handler refines `VSteps` -/

@[simp] theorem view_withCtx_same (e : Ep) (c : Ctx) (h1 : c.keys = e.ctx.keys) (h2 : c.peerCert = e.ctx.peerCert)
    (h3 : c.skeVerified = e.ctx.skeVerified) (h4 : c.peerPub = e.ctx.peerPub) (h5 : c.clientRandom = e.ctx.clientRandom)
    (h6 : c.expectedFp = e.ctx.expectedFp) : view (withCtx e c) = view e := by
  simp [view, withCtx, h1, h2, h3, h4, h5, h6]

theorem deriveKeys_some {C : Crypto} {L : Loc} {c : Ctx} {k : Keys} (h : deriveKeys C L c = some k) :
    ∃ pk cr sr, c.peerPub = some pk ∧ c.clientRandom = some cr ∧ c.serverRandom = some sr ∧
      C.derive L.pub pk cr sr c.ems c.transcript = some k := by
  unfold deriveKeys at h
  split at h
  · cases h
  · rename_i pk hpk
    split at h
    · cases h
    · split at h
      · rename_i cr sr hcr hsr
        exact ⟨pk, cr, sr, hpk, hcr, hsr, h⟩
      · cases h

theorem handleCertificate_vstep (C : Crypto) (L : Loc) (e : Ep) (b : Bytes) :
    VSteps C L (view e) (view (handleCertificate C e b).ep) := by
  unfold handleCertificate
  split
  · exact .refl _
  · exact .one (.conn _ .failed (by decide))
  · rename_i leaf _ _
    split
    · exact .one (.conn _ .failed (by decide))
    · split
      · exact .one (.conn _ .failed (by decide))
      · rename_i h1 h2
        exact .one (.cert (view e) leaf (by simpa [view] using h1) (by simpa using h2))

theorem handleClientHello_vstep (C : Crypto) (L : Loc) (e : Ep) (b : Bytes) :
    VSteps C L (view e) (view (handleClientHello C L e b).ep) := by
  unfold handleClientHello
  split
  · exact .refl _
  · rename_i hs
    split
    · split <;> exact .refl _
    · split
      · exact .refl _
      · rename_i random ems profiles _
        have := VStep.clientRandom (C := C) (L := L) (view e) random (by simpa [view] using hs)
        exact .one (by simpa [view, ok] using this)

theorem handleClientKeyExchange_vstep (C : Crypto) (L : Loc) (e : Ep) (b : Bytes) :
    VSteps C L (view e) (view (handleClientKeyExchange C L e b).ep) := by
  unfold handleClientKeyExchange
  split
  · exact .refl _
  · rename_i hs
    split
    · exact .refl _
    · rename_i hk
      split
      · exact .refl _
      · rename_i pk _
        have hs' : (view e).isClient = false := by simpa [view] using hs
        dsimp only
        split
        · exact .one (.peerPub (view e) pk hs')
        · rename_i k hd
          obtain ⟨pk', cr, sr, h1, h2, h3, h4⟩ := deriveKeys_some hd
          simp only at h1 h2 h3 h4
          cases h1
          refine (VSteps.one (.peerPub (view e) pk hs')).step ?_
          have := VStep.keys (C := C) (L := L) { view e with peerPub := some pk } pk cr sr e.ctx.transcript e.ctx.ems k
            (by simpa [view] using hk) (by simp [view, hs]) rfl (by simpa [view] using h2) h4
          simpa [view, ok, h2, h3] using this

theorem finishedBad_false {C : Crypto} {c : Ctx} {body : Bytes} {l : Bool} {k : Keys} (hk : c.keys = some k)
    (h : ¬ finishedBad C c body l = true) : body = C.vd k.ms l c.transcript := by
  simpa [finishedBad, hk] using h

theorem handleFinishedServer_vstep (C : Crypto) (L : Loc) (e : Ep) (b raw : Bytes) (hs : e.isClient = false) :
    VSteps C L (view e) (view (handleFinishedServer C e b raw).ep) := by
  unfold handleFinishedServer
  split
  · exact .one (.conn _ .failed (by decide))
  · rename_i hbad
    dsimp only
    split
    · rename_i k hk
      have hvd := finishedBad_false hk hbad
      have h1 := VStep.sent (C := C) (L := L) (view e) k (e.ctx.transcript ++ raw) _ false (by simpa [view] using hk) rfl
      have h2 := VStep.connect (C := C) (L := L)
        { view e with evs := .sentFinished k (e.ctx.transcript ++ raw) (C.vd k.ms false (e.ctx.transcript ++ raw)) :: (view e).evs }
        k e.ctx.transcript b (by simpa [view] using hk) (by simpa [view, hs] using hvd)
      exact (VSteps.one h1).step (by simpa [view, ok, connect] using h2)
    · have := VStep.conn (C := C) (L := L) (view e) .failed (by decide)
      exact .one (by simpa [view] using this)

theorem handleFinishedClient_vstep (C : Crypto) (L : Loc) (e : Ep) (b : Bytes) (hc : e.isClient = true) :
    VSteps C L (view e) (view (handleFinishedClient C e b).ep) := by
  unfold handleFinishedClient
  split
  · exact .refl _
  · rename_i k hk
    split
    · exact .one (.conn _ .failed (by decide))
    · rename_i hne
      have hvd : b = C.vd k.ms false e.ctx.transcript := by simpa using hne
      have := VStep.connect (C := C) (L := L) (view e) k e.ctx.transcript b (by simpa [view] using hk)
        (by simpa [view, hc] using hvd)
      exact .one (by simpa [view, ok, connect] using this)

theorem handleHvr_vstep (C : Crypto) (L : Loc) (e : Ep) (b : Bytes) :
    VSteps C L (view e) (view (handleHvr C L e b).ep) := by
  unfold handleHvr
  split
  · exact .refl _
  · split
    · dsimp only
      split
      · exact VSteps.of_eq (by simp [view, hsRecord])
      · exact VSteps.of_eq (by simp [view, ok, hsRecord])
    · exact .refl _

theorem handleServerHello_vstep (C : Crypto) (L : Loc) (e : Ep) (b : Bytes) :
    VSteps C L (view e) (view (handleServerHello C e b).ep) := by
  unfold handleServerHello
  split
  · exact .refl _
  · split
    · exact .refl _
    · exact VSteps.of_eq (by simp [view, ok])

theorem handleServerKeyExchange_vstep (C : Crypto) (L : Loc) (e : Ep) (b : Bytes) :
    VSteps C L (view e) (view (handleServerKeyExchange C e b).ep) := by
  unfold handleServerKeyExchange
  split
  · exact .refl _
  · rename_i hc
    split
    · exact .refl _
    · rename_i share hdec
      split
      · exact .one (.conn _ .failed (by decide))
      · rename_i leaf hleaf
        split
        · rename_i cr sr hcr hsr
          split
          · rename_i hsig
            have := VStep.ske (C := C) (L := L) (view e) leaf cr sr b share (by simpa [view] using hc)
              (by simpa [view] using hleaf) (by simpa [view] using hcr) hdec hsig
            exact .one (by simpa [view, ok] using this)
          · exact .one (.conn _ .failed (by decide))
        · exact .one (.conn _ .failed (by decide))

theorem handleServerHelloDone_vstep (C : Crypto) (L : Loc) (e : Ep) :
    VSteps C L (view e) (view (handleServerHelloDone C L e).ep) := by
  unfold handleServerHelloDone
  split
  · exact .refl _
  · split
    · exact .refl _
    · rename_i hk
      split
      · exact .one (.conn _ .failed (by decide))
      · rename_i hver
        dsimp only
        split
        · exact VSteps.of_eq (by simp [view, ok])
        · rename_i k hd
          obtain ⟨pk, cr, sr, h1, h2, h3, h4⟩ := deriveKeys_some hd
          simp only [emitMsg_peerPub, emitMsg_clientRandom, emitMsg_serverRandom, emitMsg_ems] at h1 h2 h3 h4
          have s1 := VStep.keys (C := C) (L := L) (view e) pk cr sr _ e.ctx.ems k
            (by simpa [view] using hk) (by intro hc; simp [view] at hc ⊢; simpa [hc] using hver)
            (by simpa [view] using h1) (by simpa [view] using h2) h4
          have s2 := VStep.sent (C := C) (L := L) _ k (emitMsg e.ctx dtlsHtClientKeyExchange L.ckeBody false).2.transcript _ true
            (show ({ view e with keys := some k, evs := .keys L.pub pk cr sr e.ctx.ems (emitMsg e.ctx dtlsHtClientKeyExchange L.ckeBody false).2.transcript k :: (view e).evs } : View).keys = some k from rfl) rfl
          exact (VSteps.one s1).step (by simpa [view, ok, h1, h2, h3] using s2)

theorem handleMsg_vstep (C : Crypto) (L : Loc) (e : Ep) (t : Nat) (b raw : Bytes) :
    VSteps C L (view e) (view (handleMsg C L e t b raw).ep) := by
  unfold handleMsg
  repeat' split
  all_goals first
    | exact handleClientHello_vstep ..
    | exact handleClientKeyExchange_vstep ..
    | (apply handleFinishedClient_vstep; simp_all)
    | (apply handleFinishedServer_vstep; simp_all)
    | exact handleHvr_vstep ..
    | exact handleServerHello_vstep ..
    | exact handleCertificate_vstep ..
    | exact handleServerKeyExchange_vstep ..
    | exact handleServerHelloDone_vstep ..
    | exact .refl _

@[simp] theorem view_clearPostHvr (e : Ep) : view (clearPostHvr e) = view e := by
  unfold clearPostHvr; split <;> rfl
@[simp] theorem view_resync (e : Ep) (m : HsMsg) : view (resync e m) = view e := rfl

theorem resetFrag_fields (c : Ctx) (m : HsMsg) :
    (resetFrag c m).peerCert = c.peerCert ∧ (resetFrag c m).skeVerified = c.skeVerified ∧
    (resetFrag c m).peerPub = c.peerPub ∧ (resetFrag c m).clientRandom = c.clientRandom ∧
    (resetFrag c m).expectedFp = c.expectedFp := by
  unfold resetFrag; split <;> simp

theorem acceptMsg_vstep (C : Crypto) (L : Loc) (e : Ep) (m : HsMsg) :
    VSteps C L (view e) (view (acceptMsg C L e m).ep) := by
  unfold acceptMsg
  dsimp only
  have hb := resetFrag_fields (clearPostHvr e).ctx m
  split
  · split
    · refine VSteps.of_eq ?_
      rw [ok, view_withCtx_same _ _ (by simp) hb.1 hb.2.1 hb.2.2.1 hb.2.2.2.1 hb.2.2.2.2, view_clearPostHvr]
    · split
      · refine VSteps.of_eq ?_
        rw [ok, view_withCtx_same _ _ (by simp [appendFrag]) (by simpa [appendFrag] using hb.1)
          (by simpa [appendFrag] using hb.2.1) (by simpa [appendFrag] using hb.2.2.1)
          (by simpa [appendFrag] using hb.2.2.2.1) (by simpa [appendFrag] using hb.2.2.2.2), view_clearPostHvr]
      · have h := handleMsg_vstep C L (withCtx (clearPostHvr e)
            (noteMsg (takeBuffer (appendFrag (resetFrag (clearPostHvr e).ctx m) m)) m.typ
              (encodeHs m.typ m.msgSeq 0 m.totalLen (appendFrag (resetFrag (clearPostHvr e).ctx m) m).incomplete))) m.typ
            (appendFrag (resetFrag (clearPostHvr e).ctx m) m).incomplete
            (encodeHs m.typ m.msgSeq 0 m.totalLen (appendFrag (resetFrag (clearPostHvr e).ctx m) m).incomplete)
        rw [view_withCtx_same _ _ (by simp [noteMsg, takeBuffer, appendFrag]) (by simpa [noteMsg, takeBuffer, appendFrag] using hb.1)
          (by simpa [noteMsg, takeBuffer, appendFrag] using hb.2.1) (by simpa [noteMsg, takeBuffer, appendFrag] using hb.2.2.1)
          (by simpa [noteMsg, takeBuffer, appendFrag] using hb.2.2.2.1) (by simpa [noteMsg, takeBuffer, appendFrag] using hb.2.2.2.2),
          view_clearPostHvr] at h
        split
        · refine VSteps.of_eq ?_
          rw [view_withCtx_same _ _ (by simp [takeBuffer, appendFrag]) (by simpa [takeBuffer, appendFrag] using hb.1)
            (by simpa [takeBuffer, appendFrag] using hb.2.1) (by simpa [takeBuffer, appendFrag] using hb.2.2.1)
            (by simpa [takeBuffer, appendFrag] using hb.2.2.2.1) (by simpa [takeBuffer, appendFrag] using hb.2.2.2.2), view_clearPostHvr]
        · exact h
  · have h := handleMsg_vstep C L (withCtx (clearPostHvr e) (noteMsg (clearPostHvr e).ctx m.typ (rawOf m))) m.typ m.body (rawOf m)
    rw [view_withCtx_same _ _ (by simp) (by simp [noteMsg]) (by simp [noteMsg]) (by simp [noteMsg])
      (by simp [noteMsg]) (by simp [noteMsg]), view_clearPostHvr] at h
    split
    · exact VSteps.of_eq (view_clearPostHvr e)
    · exact h

theorem gate_vstep (C : Crypto) (L : Loc) (e : Ep) (a : Bool) (m : HsMsg) :
    VSteps C L (view e) (view (gate C L e a m).ep) := by
  unfold gate
  split
  · exact .refl _
  · exact acceptMsg_vstep ..

theorem procMsg_vstep (C : Crypto) (L : Loc) (e : Ep) (a : Bool) (m : HsMsg) :
    VSteps C L (view e) (view (procMsg C L e a m).ep) := by
  have hg : VSteps C L (view e) (view (gate C L (resync e m) a m).ep) := by
    have := gate_vstep C L (resync e m) a m
    rwa [view_resync] at this
  unfold procMsg
  repeat' split
  all_goals first
    | exact .refl _
    | exact hg
    | exact handleMsg_vstep ..
    | exact gate_vstep ..
    | exact VSteps.of_eq rfl

theorem procPayload_vstep (C : Crypto) (L : Loc) (a : Bool) : ∀ (fuel : Nat) (e : Ep) (bs : Bytes),
    VSteps C L (view e) (view (procPayload C L a fuel e bs).ep) := by
  intro fuel
  induction fuel with
  | zero => intro e bs; exact .refl _
  | succ f ih =>
    intro e bs
    unfold procPayload
    split
    · exact .refl _
    · split
      · exact .refl _
      · exact .refl _
      · rename_i m rest _
        dsimp only
        split
        · exact procMsg_vstep ..
        · exact (procMsg_vstep C L e a m).trans (ih _ rest)

theorem onRecord_vstep (C : Crypto) (L : Loc) (e : Ep) (ct : Nat) (a : Bool) (pl : Bytes) :
    VSteps C L (view e) (view (onRecord C L e ct a pl).ep) := by
  unfold onRecord
  split
  · exact VSteps.of_eq (by simp [view, ok])
  · split
    · split <;> exact .refl _
    · split
      · exact procPayload_vstep ..
      · split
        · split
          · split
            · exact .one (.conn _ .closed (by decide))
            · exact .refl _
          · exact .refl _
        · exact .refl _

theorem onDatagram_vstep (A : DecFn) (C : Crypto) (L : Loc) : ∀ (fuel : Nat) (e : Ep) (bs : Bytes),
    VSteps C L (view e) (view (onDatagram A C L fuel e bs).ep) := by
  intro fuel
  induction fuel with
  | zero => intro e bs; exact .refl _
  | succ f ih =>
    intro e bs
    unfold onDatagram
    split
    · exact .refl _
    · split
      · exact .refl _
      · exact .refl _
      · rename_i r rest _
        split
        · exact ih e rest
        · split
          · exact .refl _
          · rename_i payload _
            dsimp only
            split
            · exact onRecord_vstep ..
            · exact (onRecord_vstep C L e r.ctype (r.epoch != 0) payload).trans (ih _ rest)

/-- a delivery during a datagram happens at an intermediate endpoint state that is Connected -/
theorem onDatagram_deliver_mid (A : DecFn) (C : Crypto) (L : Loc) : ∀ (fuel : Nat) (e : Ep) (bs p : Bytes),
    Out.deliver p ∈ (onDatagram A C L fuel e bs).out →
    ∃ e', VSteps C L (view e) (view e') ∧ VSteps C L (view e') (view (onDatagram A C L fuel e bs).ep) ∧
      e'.conn = .connected := by
  intro fuel
  induction fuel with
  | zero => intro e bs p h; simp [onDatagram, ok] at h
  | succ f ih =>
    intro e bs p h
    unfold onDatagram at h ⊢
    split at h
    · simp [ok] at h
    · rename_i hne
      simp only [hne]
      split at h
      · simp [ok] at h
      · simp [ok] at h
      · rename_i r rest hd
        split at h
        · rename_i hdrop
          simp only [hdrop, if_true]
          exact ih e rest p h
        · rename_i hdrop
          simp only [hdrop]
          split at h
          · simp [ok] at h
          · rename_i payload hdec
            dsimp only at h ⊢
            have hv := onRecord_vstep C L e r.ctype (r.epoch != 0) payload
            split at h
            · rename_i herr
              simp only [Bool.false_eq_true, if_false, herr, if_true]
              exact ⟨e, .refl _, hv, onRecord_deliver_connected C L e _ _ _ p h⟩
            · rename_i herr
              simp only [Bool.false_eq_true, if_false, herr]
              simp only [List.mem_append] at h
              rcases h with h | h
              · exact ⟨e, .refl _, hv.trans (onDatagram_vstep A C L f _ rest), onRecord_deliver_connected C L e _ _ _ p h⟩
              · obtain ⟨e', h1, h2, h3⟩ := ih _ rest p h
                exact ⟨e', hv.trans h1, h2, h3⟩

theorem VStep.evs_mono {C : Crypto} {L : Loc} {a b : View} (s : VStep C L a b) : ∀ ev, ev ∈ a.evs → ev ∈ b.evs := by
  intro ev h
  cases s <;> simp [h]

theorem VSteps.evs_mono {C : Crypto} {L : Loc} {a b : View} (s : VSteps C L a b) : ∀ ev, ev ∈ a.evs → ev ∈ b.evs := by
  induction s with
  | refl => intro ev h; exact h
  | step _ s ih => intro ev h; exact s.evs_mono ev (ih ev h)

theorem VStep.isClient_eq {C : Crypto} {L : Loc} {a b : View} (s : VStep C L a b) : b.isClient = a.isClient := by
  cases s <;> rfl

theorem VSteps.isClient_eq {C : Crypto} {L : Loc} {a b : View} (s : VSteps C L a b) : b.isClient = a.isClient := by
  induction s with
  | refl => rfl
  | step _ s ih => exact s.isClient_eq.trans ih

theorem onPacket_vstep (A : DecFn) (C : Crypto) (L : Loc) (e : Ep) (bs : Bytes) :
    VSteps C L (view e) (view (onPacket A C L e bs).1) := by
  unfold onPacket
  split
  · exact .refl _
  · dsimp only
    split
    · exact onDatagram_vstep A C L _ e bs
    · exact onDatagram_vstep A C L _ e bs

theorem stepOp_vstep (C : Crypto) (L : Loc) (e : Ep) (o : Op) :
    VSteps C L (view e) (view (stepOp C L e o).1) := by
  cases o with
  | packet dec bs => exact onPacket_vstep dec C L e bs
  | send d =>
    simp only [stepOp, onSend]
    split
    · exact VSteps.of_eq rfl
    · exact .refl _
  | close =>
    simp only [stepOp, onClose]
    split
    · exact .refl _
    · split
      · exact .one (.conn _ .closed (by decide))
      · split
        · exact .one (.conn _ .closed (by decide))
        · exact .one (.conn _ .closed (by decide))
  | tick => exact .refl _
  | deadline =>
    simp only [stepOp, onDeadline]
    split
    · exact .one (.conn _ .failed (by decide))
    · exact .refl _

theorem runOps_vstep (C : Crypto) (L : Loc) : ∀ (ops : List Op) (e : Ep),
    VSteps C L (view e) (view (runOps C L e ops).1) := by
  intro ops
  induction ops with
  | nil => intro e; exact .refl _
  | cons o os ih =>
    intro e
    simp only [runOps]
    exact (stepOp_vstep C L e o).trans (ih _)

end RtcModel.DtlsHs
