/-
Lemmas about the check-list model (`RtcModel/IcePairs.lean`): the stable insertion sort keeps members and
`Nodup`, sorts; a strictly sorted list is determined by its members. Core Lean only.
-/
import RtcModel.IcePairs
import RtcModel.Lemmas.IcePrio

namespace RtcModel.IcePairs
open RtcModel.IcePrio

theorem mem_insertStable (lt : PPair → PPair → Bool) (x y : PPair) (l : List PPair) :
    y ∈ insertStable lt x l ↔ y = x ∨ y ∈ l := by
  induction l with
  | nil => simp [insertStable]
  | cons z zs ih =>
    simp only [insertStable]
    split
    · simp only [List.mem_cons, ih]
      constructor
      · rintro (h | h | h)
        · exact Or.inr (Or.inl h)
        · exact Or.inl h
        · exact Or.inr (Or.inr h)
      · rintro (h | h | h)
        · exact Or.inr (Or.inl h)
        · exact Or.inl h
        · exact Or.inr (Or.inr h)
    · simp [List.mem_cons]

theorem mem_stableSort (lt : PPair → PPair → Bool) (y : PPair) (l : List PPair) : y ∈ stableSort lt l ↔ y ∈ l := by
  induction l with
  | nil => simp [stableSort]
  | cons x xs ih => simp [stableSort, mem_insertStable, ih]

theorem nodup_insertStable (lt : PPair → PPair → Bool) (x : PPair) (l : List PPair) (hx : x ∉ l) (hl : l.Nodup) :
    (insertStable lt x l).Nodup := by
  induction l with
  | nil => simp [insertStable]
  | cons z zs ih =>
    simp only [insertStable]
    have hz := List.nodup_cons.mp hl
    split
    · refine List.nodup_cons.mpr ⟨?_, ih (fun h => hx (by simp [h])) hz.2⟩
      rw [mem_insertStable]
      rintro (h | h)
      · exact hx (by simp [h])
      · exact hz.1 h
    · exact List.nodup_cons.mpr ⟨hx, hl⟩

theorem nodup_stableSort (lt : PPair → PPair → Bool) (l : List PPair) (hl : l.Nodup) : (stableSort lt l).Nodup := by
  induction l with
  | nil => simp [stableSort]
  | cons x xs ih =>
    have hx := List.nodup_cons.mp hl
    simp only [stableSort]
    exact nodup_insertStable lt x _ (by rw [mem_stableSort]; exact hx.1) (ih hx.2)

/-- sorted by a numeric key, descending -/
def SortedDesc (key : PPair → Nat) (l : List PPair) : Prop := l.Pairwise (fun a b => key a ≥ key b)

theorem sorted_insertStable (key : PPair → Nat) (x : PPair) (l : List PPair) (hl : SortedDesc key l) :
    SortedDesc key (insertStable (fun a b => key a > key b) x l) := by
  induction l with
  | nil => simp [insertStable, SortedDesc]
  | cons z zs ih =>
    have hz := List.pairwise_cons.mp hl
    simp only [insertStable]
    split
    · rename_i hlt
      have hlt' : key z > key x := by simpa using hlt
      refine List.pairwise_cons.mpr ⟨?_, ih hz.2⟩
      intro b hb
      rw [mem_insertStable] at hb
      rcases hb with rfl | hb
      · exact Nat.le_of_lt hlt'
      · exact hz.1 b hb
    · rename_i hlt
      have hle : key z ≤ key x := by simpa using hlt
      refine List.pairwise_cons.mpr ⟨?_, hl⟩
      intro b hb
      rcases List.mem_cons.mp hb with rfl | hb
      · exact hle
      · exact Nat.le_trans (hz.1 b hb) hle

theorem sorted_stableSort (key : PPair → Nat) (l : List PPair) :
    SortedDesc key (stableSort (fun a b => key a > key b) l) := by
  induction l with
  | nil => simp [stableSort, SortedDesc]
  | cons x xs ih => exact sorted_insertStable key x _ ih

/-- a strictly descending list is determined by its set of members -/
theorem strict_sorted_unique (key : PPair → Nat) :
    ∀ (l1 l2 : List PPair), l1.Pairwise (fun a b => key a > key b) → l2.Pairwise (fun a b => key a > key b) →
      (∀ x, x ∈ l1 ↔ x ∈ l2) → l1 = l2 := by
  intro l1
  induction l1 with
  | nil =>
    intro l2 _ _ h
    cases l2 with
    | nil => rfl
    | cons y ys => exact absurd ((h y).mpr (by simp)) (by simp)
  | cons x xs ih =>
    intro l2 h1 h2 h
    cases l2 with
    | nil => exact absurd ((h x).mp (by simp)) (by simp)
    | cons y ys =>
      have hx := List.pairwise_cons.mp h1
      have hy := List.pairwise_cons.mp h2
      have hxy : x = y := by
        have hx2 : x ∈ y :: ys := (h x).mp (by simp)
        have hy1 : y ∈ x :: xs := (h y).mpr (by simp)
        rcases List.mem_cons.mp hx2 with e | hxin
        · exact e
        · rcases List.mem_cons.mp hy1 with e | hyin
          · exact e.symm
          · have := hx.1 y hyin; have := hy.1 x hxin; omega
      subst hxy
      congr 1
      apply ih ys hx.2 hy.2
      intro z
      constructor
      · intro hz
        have : z ∈ x :: ys := (h z).mp (by simp [hz])
        rcases List.mem_cons.mp this with e | hin
        · subst e; have := hx.1 z hz; omega
        · exact hin
      · intro hz
        have : z ∈ x :: xs := (h z).mpr (by simp [hz])
        rcases List.mem_cons.mp this with e | hin
        · subst e; have := hy.1 z hz; omega
        · exact hin

theorem mem_formPairs (role : Role) (locals remotes : List PCand) (p : PPair) :
    p ∈ formPairs role locals remotes ↔ p.1 ∈ locals ∧ p.2 ∈ remotes ∧ pairOk role p.1 p.2 = true := by
  obtain ⟨a, b⟩ := p
  simp only [formPairs, List.mem_flatMap, List.mem_map, List.mem_filter, Prod.mk.injEq]
  constructor
  · rintro ⟨l, hl, r, ⟨hr, hok⟩, rfl, rfl⟩; exact ⟨hl, hr, hok⟩
  · rintro ⟨hl, hr, hok⟩; exact ⟨a, hl, b, ⟨hr, hok⟩, rfl, rfl⟩

theorem strict_of_sorted (key : PPair → Nat) (l : List PPair) (hs : SortedDesc key l) (hn : l.Nodup)
    (hd : ∀ p ∈ l, ∀ q ∈ l, p ≠ q → key p ≠ key q) : l.Pairwise (fun a b => key a > key b) := by
  have h2 : l.Pairwise (fun a b => key a ≥ key b ∧ a ≠ b) := hs.and hn
  refine h2.imp_of_mem ?_
  intro a b ha hb ⟨hge, hne⟩
  have := hd a ha b hb hne
  omega

theorem prio_swap (p : PPair) : prio .controlling (Prod.swap p) = prio .controlled p := by
  obtain ⟨a, b⟩ := p; simp [prio, Prod.swap, pairPriority]

theorem check_lists_agree (LA LB : List PCand)
    (hform : ∀ a ∈ LA, ∀ b ∈ LB, pairOk .controlling a b = pairOk .controlled b a)
    (hnA : (formPairs .controlling LA LB).Nodup) (hnB : (formPairs .controlled LB LA).Nodup)
    (hd : ∀ p ∈ formPairs .controlling LA LB, ∀ q ∈ formPairs .controlling LA LB, p ≠ q →
      prio .controlling p ≠ prio .controlling q) :
    (checkOrder .controlled false LB LA).map Prod.swap = checkOrder .controlling false LA LB := by
  simp only [checkOrder, Bool.false_eq_true, ↓reduceIte, sortByPriority]
  -- membership correspondence of the two formations
  have hmem : ∀ p : PPair, p ∈ formPairs .controlled LB LA ↔ Prod.swap p ∈ formPairs .controlling LA LB := by
    intro p; obtain ⟨b, a⟩ := p
    simp only [mem_formPairs, Prod.swap]
    constructor
    · rintro ⟨hb, ha, hok⟩; exact ⟨ha, hb, by rw [hform a ha b hb]; exact hok⟩
    · rintro ⟨ha, hb, hok⟩; exact ⟨hb, ha, by rw [← hform a ha b hb]; exact hok⟩
  apply strict_sorted_unique (prio .controlling)
  · -- B's list, swapped, is strictly sorted by A's key
    rw [List.pairwise_map]
    have hs := sorted_stableSort (prio .controlled) (formPairs .controlled LB LA)
    have hn := nodup_stableSort (fun a b => prio .controlled a > prio .controlled b) _ hnB
    have := strict_of_sorted (prio .controlled) _ hs hn (by
      intro p hp q hq hne
      rw [mem_stableSort] at hp hq
      have := hd (Prod.swap p) ((hmem p).mp hp) (Prod.swap q) ((hmem q).mp hq) (by
        intro h; apply hne; have := congrArg Prod.swap h; simpa using this)
      simpa [prio_swap] using this)
    exact this.imp (by intro a b h; simpa [prio_swap] using h)
  · have hs := sorted_stableSort (prio .controlling) (formPairs .controlling LA LB)
    have hn := nodup_stableSort (fun a b => prio .controlling a > prio .controlling b) _ hnA
    exact strict_of_sorted (prio .controlling) _ hs hn (by
      intro p hp q hq hne; rw [mem_stableSort] at hp hq; exact hd p hp q hq hne)
  · intro x
    simp only [List.mem_map, mem_stableSort]
    constructor
    · rintro ⟨p, hp, rfl⟩; exact (hmem p).mp hp
    · intro hx; exact ⟨Prod.swap x, (hmem (Prod.swap x)).mpr (by simpa using hx), by simp⟩

/-! ### the pair that is used -/

theorem best_some (role : Role) (ps : List PPair) (p : PPair) (h : best role ps = some p) :
    p ∈ ps ∧ ∀ q ∈ ps, prio role q ≤ prio role p := by
  unfold best at h
  have hs := sorted_stableSort (prio role) ps
  have hs' : SortedDesc (prio role) (sortByPriority role ps) := hs
  cases hl : sortByPriority role ps with
  | nil => rw [hl] at h; simp at h
  | cons x xs =>
    rw [hl] at h hs'
    simp only [List.head?_cons, Option.some.injEq] at h
    subst h
    constructor
    · have : x ∈ sortByPriority role ps := by rw [hl]; exact List.mem_cons_self
      exact (mem_stableSort _ _ _).mp this
    · intro q hq
      have hq' : q ∈ sortByPriority role ps := (mem_stableSort _ _ _).mpr hq
      rw [hl] at hq'
      rcases List.mem_cons.mp hq' with rfl | hq''
      · exact Nat.le_refl _
      · exact (List.pairwise_cons.mp hs').1 q hq''

theorem best_none (role : Role) (ps : List PPair) : best role ps = none ↔ ps = [] := by
  unfold best
  constructor
  · intro h
    cases ps with
    | nil => rfl
    | cons x xs =>
      have hx : x ∈ sortByPriority role (x :: xs) := (mem_stableSort _ _ _).mpr List.mem_cons_self
      cases hl : sortByPriority role (x :: xs) with
      | nil => rw [hl] at hx; simp at hx
      | cons y ys => rw [hl] at h; simp at h
  · intro h; subst h; rfl

/-- a maximum that is unique is THE result, whatever the arrival order -/
theorem best_unique (role : Role) (ps : List PPair) (p : PPair) (hp : p ∈ ps)
    (hmax : ∀ q ∈ ps, q ≠ p → prio role q < prio role p) : best role ps = some p := by
  cases hb : best role ps with
  | none => rw [(best_none role ps).mp hb] at hp; simp at hp
  | some b =>
    obtain ⟨hbm, hbmax⟩ := best_some role ps b hb
    by_cases hbp : b = p
    · rw [hbp]
    · have h1 := hmax b hbm hbp
      have h2 := hbmax p hp
      omega

end RtcModel.IcePairs
