/-
Helper lemmas: `build_gap_ack_blocks_from_map` only reports TSNs the receiver holds.
-/
import RtcModel.SctpRecv

namespace RtcModel.Sctp
open RtcModel.Generated

theorem mem_insSorted (t x : UInt32) (l : List UInt32) : x ∈ insSorted t l ↔ x = t ∨ x ∈ l := by
  induction l with
  | nil => simp [insSorted]
  | cons y ys ih =>
    unfold insSorted
    split
    · simp
    · simp only [List.mem_cons, ih]
      constructor
      · rintro (h | h | h)
        · right; left; exact h
        · left; exact h
        · right; right; exact h
      · rintro (h | h | h)
        · right; left; exact h
        · left; exact h
        · right; right; exact h

theorem mem_sortKeys (x : UInt32) (l : List UInt32) : x ∈ sortKeys l ↔ x ∈ l := by
  induction l with
  | nil => simp [sortKeys]
  | cons y ys ih =>
    simp only [sortKeys, List.foldr_cons, List.mem_cons] at ih ⊢
    rw [mem_insSorted]
    constructor
    · rintro (h | h)
      · left; exact h
      · right; exact ih.mp h
    · rintro (h | h)
      · left; exact h
      · right; exact ih.mpr h

/-- every offset inside the block names a held TSN -/
def GoodBlock (keys : List UInt32) (cum : UInt32) (b : UInt16 × UInt16) : Prop :=
  ∀ o : Nat, b.1.toNat ≤ o → o ≤ b.2.toNat → cum + UInt32.ofNat o ∈ keys

/-- the current run `[st, en]` consists of held TSNs -/
def RunIn (keys : List UInt32) (st en : UInt32) : Prop :=
  ∀ d : Nat, d ≤ (en - st).toNat → st + UInt32.ofNat d ∈ keys

theorem u16_of_small (x : UInt32) (h : x.toNat ≤ 65535) : (x.toUInt16).toNat = x.toNat := by
  rw [UInt32.toNat_toUInt16]; exact Nat.mod_eq_of_lt (by omega)

theorem u32_le_ffff (x : UInt32) (h : x ≤ 0xFFFF) : x.toNat ≤ 65535 :=
  UInt32.le_iff_toNat_le.mp h

theorem pushBlock_good (keys : List UInt32) (cum : UInt32) (blocks : List (UInt16 × UInt16)) (st en : UInt32)
    (hb : ∀ b ∈ blocks, GoodBlock keys cum b) (hr : RunIn keys st en) :
    ∀ b ∈ pushBlock cum blocks (st, en), GoodBlock keys cum b := by
  unfold pushBlock
  simp only []
  split
  · next hc =>
    intro b hbm
    simp only [List.mem_append, List.mem_singleton] at hbm
    cases hbm with
    | inl h => exact hb b h
    | inr h =>
      subst h
      intro o ho1 ho2
      rw [Bool.and_eq_true] at hc
      have hso := u32_le_ffff _ (of_decide_eq_true hc.1)
      have heo := u32_le_ffff _ (of_decide_eq_true hc.2)
      simp only [] at ho1 ho2
      rw [u16_of_small _ hso] at ho1
      rw [u16_of_small _ heo] at ho2
      have hcs := cum.toNat_lt
      have hss := st.toNat_lt
      have hes := en.toNat_lt
      have hd := hr (o - (st - cum).toNat) (by
        simp only [UInt32.toNat_sub] at ho1 ho2 hso heo ⊢
        omega)
      have : st + UInt32.ofNat (o - (st - cum).toNat) = cum + UInt32.ofNat o := by
        apply UInt32.toNat_inj.mp
        have e1 : (UInt32.ofNat (o - (st - cum).toNat)).toNat = (o - (st - cum).toNat) % 4294967296 := by simp
        have e2 : (UInt32.ofNat o).toNat = o % 4294967296 := by simp
        simp only [UInt32.toNat_add, UInt32.toNat_sub, e1, e2] at ho1 hso ⊢
        simp only [UInt32.toNat_sub] at e1
        omega
      rw [← this]; exact hd
  · exact hb

theorem gapLoop_good (keys : List UInt32) (cum : UInt32) :
    ∀ (rest : List UInt32) (cur : Option (UInt32 × UInt32)) (blocks : List (UInt16 × UInt16)),
      (∀ t ∈ rest, t ∈ keys) → (∀ b ∈ blocks, GoodBlock keys cum b) →
      (∀ st en, cur = some (st, en) → RunIn keys st en) →
      (∀ b ∈ (gapLoop cum rest cur blocks).1, GoodBlock keys cum b) ∧
      (∀ st en, (gapLoop cum rest cur blocks).2 = some (st, en) → RunIn keys st en) := by
  intro rest
  induction rest with
  | nil => intro cur blocks _ hb hc; exact ⟨hb, hc⟩
  | cons t rest ih =>
    intro cur blocks hk hb hc
    have hkr : ∀ t' ∈ rest, t' ∈ keys := fun t' h => hk t' (by simp [h])
    have ht : t ∈ keys := hk t (by simp)
    unfold gapLoop
    split
    · exact ih cur blocks hkr hb hc
    · -- the new (blocks, current) pair
      have hself : RunIn keys t t := by
        intro d hd
        have : d = 0 := by simpa using hd
        subst this
        have : t + UInt32.ofNat 0 = t := by apply UInt32.toNat_inj.mp; simp
        rw [this]; exact ht
      have key : ∀ r : List (UInt16 × UInt16) × Option (UInt32 × UInt32),
          (∀ b ∈ r.1, GoodBlock keys cum b) → (∀ st en, r.2 = some (st, en) → RunIn keys st en) →
          (∀ b ∈ (if r.1.length ≥ sctpGapBlocksMax then r else gapLoop cum rest r.2 r.1).1, GoodBlock keys cum b) ∧
          (∀ st en, (if r.1.length ≥ sctpGapBlocksMax then r else gapLoop cum rest r.2 r.1).2 = some (st, en) → RunIn keys st en) := by
        intro r h1 h2
        split
        · exact ⟨h1, h2⟩
        · exact ih r.2 r.1 hkr h1 h2
      cases cur with
      | none =>
        exact key (blocks, some (t, t)) hb (by intro st en h; cases h; exact hself)
      | some se =>
        obtain ⟨st, en⟩ := se
        simp only []
        split
        · next heq =>
          refine key (blocks, some (st, t)) hb ?_
          intro st' en' h
          cases h
          have hrun := hc st en rfl
          have hte : t = en + 1 := by simpa using heq
          intro d hd
          by_cases hd' : d ≤ (en - st).toNat
          · exact hrun d hd'
          · have hss := st.toNat_lt
            have hes := en.toNat_lt
            have : st + UInt32.ofNat d = t := by
              rw [hte]
              apply UInt32.toNat_inj.mp
              rw [hte] at hd
              have e1 : (UInt32.ofNat d).toNat = d % 4294967296 := by simp
              simp only [UInt32.toNat_add, UInt32.toNat_sub, UInt32.toNat_one, e1] at hd hd' ⊢
              omega
            rw [this]; exact ht
        · refine key (pushBlock cum blocks (st, en), some (t, t)) (pushBlock_good keys cum blocks st en hb (hc st en rfl)) ?_
          intro st' en' h; cases h; exact hself

theorem gapBlocksSorted_good (keys : List UInt32) (cum : UInt32) :
    ∀ b ∈ gapBlocksSorted keys cum, GoodBlock keys cum b := by
  obtain ⟨h1, h2⟩ := gapLoop_good keys cum keys none [] (fun t h => h) (by intro b hb; simp at hb)
    (by intro st en h; cases h)
  unfold gapBlocksSorted
  simp only []
  split
  · split
    · next cur hcur =>
      obtain ⟨st, en⟩ := cur
      exact pushBlock_good keys cum _ st en h1 (h2 st en hcur)
    · exact h1
  · exact h1

end RtcModel.Sctp
