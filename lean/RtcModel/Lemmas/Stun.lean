/-
Helper lemmas about the STUN model (`RtcModel/Stun.lean`). Core Lean only.
-/
import RtcModel.Stun
import RtcModel.StunRfc

namespace RtcModel.Stun
open RtcModel.Generated RtcModel.C16Bytes

theorem cookieBytes_length : cookieBytes.length = 4 := rfl
theorem cookieHi_lt : cookieHi < 65536 := by decide

theorem xor_cookieHi_lt {p : Nat} (h : p < 65536) : p ^^^ cookieHi < 65536 :=
  Nat.xor_lt_two_pow (n := 16) h cookieHi_lt

theorem xor_cookieHi_cancel (p : Nat) : (p ^^^ cookieHi) ^^^ cookieHi = p := by
  rw [Nat.xor_assoc, Nat.xor_self, Nat.xor_zero]

/-! ### padding / alignment of the encoder -/

theorem padBuf_length_mod (buf : Bytes) : (padBuf buf).length % 4 = 0 := by
  simp only [padBuf, List.length_append, zeros_length]; exact add_pad4_mod _

theorem padBuf_of_aligned {buf : Bytes} (h : buf.length % 4 = 0) : padBuf buf = buf := by
  simp [padBuf, pad4_of_aligned h, zeros]

theorem appendRaw_length_mod (buf : Bytes) (t : Nat) (v : Bytes) : (appendRaw buf t v).length % 4 = 0 :=
  padBuf_length_mod _

theorem appendXor_length_mod (buf : Bytes) (t : Nat) (a : Addr) (tx : Bytes) :
    (appendXor buf t a tx).length % 4 = 0 := by
  cases a <;> exact padBuf_length_mod _

theorem appendAttr_length_mod (buf : Bytes) (a : Attr) (tx : Bytes) :
    (appendAttr buf a tx).length % 4 = 0 := by
  cases a <;> first | exact padBuf_length_mod _ | exact appendXor_length_mod _ _ _ _

theorem appendAttrs_length_mod (buf : Bytes) (attrs : List Attr) (tx : Bytes) (h : buf.length % 4 = 0) :
    (appendAttrs buf attrs tx).length % 4 = 0 := by
  induction attrs generalizing buf with
  | nil => simpa [appendAttrs] using h
  | cons a as ih =>
    simp only [appendAttrs, List.foldl_cons]
    exact ih _ (appendAttr_length_mod buf a tx)

theorem writeLen_length (buf : Bytes) (n : Nat) : (writeLen buf n).length = buf.length := by
  unfold writeLen; split <;> simp

theorem updLen_length (buf : Bytes) : (updLen buf).length = buf.length := writeLen_length _ _

theorem header_length (m : Msg) (h : m.tx.length = 12) : (header m).length = 20 := by
  simp [header, cookieBytes_length, h]

/-! ### XOR addresses -/

/-- the value bytes exactly as `append_xor_address` lays them out (two separate xors for IPv6) — an
auxiliary form; the specification is `xorValue` in `StunRfc.lean` -/
def encXorValue (a : Addr) (tx : Bytes) : Bytes :=
  match a with
  | .v4 ip port => [0, 1] ++ be16 (port ^^^ cookieHi) ++ xorBytes ip cookieBytes
  | .v6 ip port => [0, 2] ++ be16 (port ^^^ cookieHi) ++ xorBytes (ip.take 4) cookieBytes ++ xorBytes (ip.drop 4) tx

theorem xorBytes_append_key (a k1 k2 : Bytes) (h : k1.length ≤ a.length) :
    xorBytes a (k1 ++ k2) = xorBytes (a.take k1.length) k1 ++ xorBytes (a.drop k1.length) k2 := by
  induction k1 generalizing a with
  | nil => simp [xorBytes]
  | cons k ks ih =>
    cases a with
    | nil => simp at h
    | cons x xs =>
      simp only [xorBytes, List.cons_append, List.zipWith_cons_cons, List.length_cons, List.take_succ_cons,
        List.drop_succ_cons] at *
      rw [ih xs (by omega)]

/-- the encoder's layout IS the RFC 5389 §15.2 value (one xor with magic-cookie ‖ transaction-id) -/
theorem xorValue_eq_enc (a : Addr) (tx : Bytes) (ha : a.Wf) : xorValue a tx = encXorValue a tx := by
  have hc : cookieBytes = [0x21, 0x12, 0xA4, 0x42] := by decide
  have hh : cookieHi = 0x2112 := by decide
  cases a with
  | v4 ip port =>
    simp only [xorValue, encXorValue, hc, hh]
    rw [xorBytes_append_key ip [0x21, 0x12, 0xA4, 0x42] tx (by simp [ha.1])]
    have : ip.drop 4 = [] := List.drop_eq_nil_of_le (by simp [ha.1])
    simp [this, xorBytes, List.take_of_length_le, ha.1]
  | v6 ip port =>
    simp only [xorValue, encXorValue, hc, hh]
    rw [xorBytes_append_key ip [0x21, 0x12, 0xA4, 0x42] tx (by simp [ha.1])]
    simp [List.append_assoc]

theorem xorValue_length (a : Addr) (tx : Bytes) (ha : a.Wf) (htx : tx.length = 12) :
    (xorValue a tx).length = match a with | .v4 .. => 8 | .v6 .. => 20 := by
  cases a with
  | v4 ip port => rw [xorValue_eq_enc _ _ ha]; simp [encXorValue, xorBytes_length, ha.1, cookieBytes_length]
  | v6 ip port =>
    rw [xorValue_eq_enc _ _ ha]; simp [encXorValue, xorBytes_length, ha.1, cookieBytes_length, htx]

theorem appendXor_eq_raw (buf : Bytes) (t : Nat) (a : Addr) (tx : Bytes) (ha : a.Wf) (htx : tx.length = 12) :
    appendXor buf t a tx = appendRaw buf t (xorValue a tx) := by
  have hl := xorValue_length a tx ha htx
  cases a with
  | v4 ip port => simp only [appendXor, appendRaw, hl]; rw [xorValue_eq_enc _ _ ha]; simp [encXorValue, List.append_assoc]
  | v6 ip port => simp only [appendXor, appendRaw, hl]; rw [xorValue_eq_enc _ _ ha]; simp [encXorValue, List.append_assoc]

theorem parseXor_xorValue (a : Addr) (tx : Bytes) (ha : a.Wf) (htx : tx.length = 12) :
    parseXor (xorValue a tx) tx = some a := by
  rw [xorValue_eq_enc a tx ha]
  cases a with
  | v4 ip port =>
    obtain ⟨hip, hp⟩ := ha
    have hx : (xorBytes ip cookieBytes).length = 4 := by simp [xorBytes_length, hip, cookieBytes_length]
    simp only [encXorValue, be16, List.cons_append, List.nil_append, parseXor]
    rw [rd16_be16 (xor_cookieHi_lt hp), xor_cookieHi_cancel]
    simp only [List.length_cons, hx]
    simp [List.take_of_length_le, hx, xorBytes_xorBytes ip cookieBytes (by simp [hip, cookieBytes_length])]
  | v6 ip port =>
    obtain ⟨hip, hp⟩ := ha
    have h1 : (xorBytes (ip.take 4) cookieBytes).length = 4 := by
      simp [xorBytes_length, hip, cookieBytes_length]
    have h2 : (xorBytes (ip.drop 4) tx).length = 12 := by simp [xorBytes_length, hip, htx]
    simp only [encXorValue, be16, List.cons_append, List.nil_append, parseXor]
    rw [rd16_be16 (xor_cookieHi_lt hp), xor_cookieHi_cancel]
    simp only [List.length_cons, List.length_append, h1, h2]
    have e1 : (xorBytes (ip.take 4) cookieBytes ++ xorBytes (ip.drop 4) tx).take 4 = xorBytes (ip.take 4) cookieBytes :=
      take_append_len h1
    have e2 : (xorBytes (ip.take 4) cookieBytes ++ xorBytes (ip.drop 4) tx).drop 4 = xorBytes (ip.drop 4) tx :=
      drop_append_len h1
    have e3 : (xorBytes (ip.drop 4) tx).take 12 = xorBytes (ip.drop 4) tx :=
      List.take_of_length_le (by omega)
    rw [e1, e2, e3]
    rw [xorBytes_xorBytes _ _ (by simp [hip, cookieBytes_length]), xorBytes_xorBytes _ _ (by simp [hip, htx])]
    simp

/-! ### encoder normal form, decoder over encoder output -/

theorem tlv_length (t : Nat) (v : Bytes) : (tlv t v).length = 4 + v.length + pad4 v.length := by
  simp [tlv]; omega

theorem tlv_length_mod (t : Nat) (v : Bytes) : (tlv t v).length % 4 = 0 := by
  rw [tlv_length]; have := add_pad4_mod v.length; omega

theorem appendRaw_aligned (buf : Bytes) (t : Nat) (v : Bytes) (h : buf.length % 4 = 0) :
    appendRaw buf t v = buf ++ tlv t v := by
  simp only [appendRaw, padBuf, tlv, List.length_append, be16_length, List.append_assoc]
  have : pad4 (buf.length + (2 + (2 + v.length))) = pad4 v.length := by
    rw [show buf.length + (2 + (2 + v.length)) = (buf.length + 4) + v.length by omega]
    exact pad4_add_aligned (by omega)
  rw [this]

/-- side conditions the Rust types guarantee (address shapes) -/
def Attr.AddrWf : Attr → Prop
  | .xorPeer a | .xorMapped a => a.Wf
  | _ => True

instance (a : Attr) : Decidable a.AddrWf := by
  cases a <;> simp only [Attr.AddrWf] <;> exact inferInstance

theorem appendAttr_aligned (buf : Bytes) (a : Attr) (tx : Bytes) (h : buf.length % 4 = 0)
    (ha : a.AddrWf) (htx : tx.length = 12) :
    appendAttr buf a tx = buf ++ tlv (attrType a) (attrValue tx a) := by
  cases a with
  | username v | realm v | nonce v | software v | data v =>
    simp only [appendAttr, attrType, attrValue]
    rw [padBuf_of_aligned (appendRaw_length_mod _ _ _), appendRaw_aligned _ _ _ h]
    all_goals simp
  | xorPeer a | xorMapped a =>
    simp only [appendAttr, attrType, attrValue]
    rw [appendXor_eq_raw _ _ _ _ ha htx, appendRaw_aligned _ _ _ h]
    all_goals simp
  | requestedTransport v | lifetime v | priority v | iceControlling v | iceControlled v | channelNumber v =>
    simp only [appendAttr, attrType, attrValue, tlv]
    rw [padBuf_of_aligned (by simp; omega)]
    simp [pad4, zeros]
  | useCandidate =>
    simp only [appendAttr, attrType, attrValue, tlv]
    rw [padBuf_of_aligned (by simp; omega)]
    simp [pad4, zeros]

/-- the attribute area the encoder produces -/
def body (tx : Bytes) (attrs : List Attr) : Bytes := (attrs.map (fun a => tlv (attrType a) (attrValue tx a))).flatten

theorem body_length_mod (tx : Bytes) (attrs : List Attr) : (body tx attrs).length % 4 = 0 := by
  induction attrs with
  | nil => simp [body]
  | cons a as ih =>
    simp only [body, List.map_cons, List.flatten_cons, List.length_append] at *
    have := tlv_length_mod (attrType a) (attrValue tx a); omega

theorem appendAttrs_eq (buf : Bytes) (attrs : List Attr) (tx : Bytes) (h : buf.length % 4 = 0)
    (ha : ∀ a ∈ attrs, a.AddrWf) (htx : tx.length = 12) :
    appendAttrs buf attrs tx = buf ++ body tx attrs := by
  induction attrs generalizing buf with
  | nil => simp [appendAttrs, body]
  | cons a as ih =>
    simp only [appendAttrs, List.foldl_cons]
    have h1 := appendAttr_aligned buf a tx h (ha a (by simp)) htx
    have := ih (appendAttr buf a tx) (appendAttr_length_mod _ _ _) (fun x hx => ha x (by simp [hx]))
    simp only [appendAttrs] at this
    rw [this, h1]; simp [body]


/-- header with message-length field `n` -/
def hdrL (m : Msg) (n : Nat) : Bytes :=
  be16 (encMethodBits m.method ||| encClassBits m.cls) ++ be16 n ++ cookieBytes ++ m.tx

theorem hdrL_length (m : Msg) (n : Nat) (h : m.tx.length = 12) : (hdrL m n).length = 20 := by
  simp [hdrL, cookieBytes_length, h]

theorem writeLen_header (m : Msg) (x : Bytes) (n : Nat) : writeLen (header m ++ x) n = hdrL m n ++ x := by
  simp [header, hdrL, writeLen, be16]

theorem writeLen_hdrL (m : Msg) (x : Bytes) (k n : Nat) : writeLen (hdrL m k ++ x) n = hdrL m n ++ x := by
  simp [hdrL, writeLen, be16]

/-- MESSAGE-INTEGRITY attribute the encoder appends (RFC 5389 §15.4): HMAC over the message up to the
attribute, with the header length already counting the 24 bytes of the attribute itself -/
def miPart (P : Prims) (m : Msg) (key : Option Bytes) : Bytes :=
  match key with
  | none => []
  | some k => tlv stunEncAttrMessageIntegrity
      (P.hmac k (hdrL m ((body m.tx m.attrs).length + stunEncMiAttrLen) ++ body m.tx m.attrs))

/-- FINGERPRINT attribute (RFC 5389 §15.5): CRC-32 of everything before it, length counting its 8 bytes -/
def fpPart (P : Prims) (m : Msg) (key : Option Bytes) (fp : Bool) : Bytes :=
  if fp then
    tlv stunEncAttrFingerprint
      (be32 (P.crc (hdrL m ((body m.tx m.attrs).length + (miPart P m key).length + stunEncFpAttrLen)
        ++ body m.tx m.attrs ++ miPart P m key) ^^^ stunFingerprintXor))
  else []

structure Msg.Wf (m : Msg) : Prop where
  tx_len : m.tx.length = 12
  addrs : ∀ a ∈ m.attrs, a.AddrWf

/-- **normal form of the encoder output**: header (with the final length), the attributes as padded
TLVs in order, then MESSAGE-INTEGRITY, then FINGERPRINT. -/
theorem encode_normal_form (P : Prims) (m : Msg) (key : Option Bytes) (fp : Bool) (hm : m.Wf) :
    encode P m key fp =
      hdrL m ((body m.tx m.attrs).length + (miPart P m key).length + (fpPart P m key fp).length)
        ++ body m.tx m.attrs ++ miPart P m key ++ fpPart P m key fp := by
  have htx := hm.tx_len
  have hb4 := body_length_mod m.tx m.attrs
  have hh : (header m).length = 20 := header_length m htx
  have e1 : appendAttrs (header m) m.attrs m.tx = header m ++ body m.tx m.attrs :=
    appendAttrs_eq _ _ _ (by omega) hm.addrs htx
  have hL : ∀ n x, (hdrL m n ++ x).length - 20 = x.length := by
    intro n x; simp [hdrL_length m n htx]
  -- step 1
  have s1 : updLen (appendAttrs (header m) m.attrs m.tx) = hdrL m (body m.tx m.attrs).length ++ body m.tx m.attrs := by
    rw [e1, updLen, writeLen_header]; simp [hh]
  -- step 2
  have s2 : addIntegrity P (hdrL m (body m.tx m.attrs).length ++ body m.tx m.attrs) key =
      hdrL m ((body m.tx m.attrs).length + (miPart P m key).length) ++ body m.tx m.attrs ++ miPart P m key := by
    cases key with
    | none => simp [addIntegrity, miPart]
    | some k =>
      simp only [addIntegrity, miPart, hL, writeLen_hdrL]
      rw [appendRaw_aligned _ _ _ (by simp [hdrL_length m _ htx]; omega)]
      rw [updLen, List.append_assoc, writeLen_hdrL]
      simp [hdrL_length m _ htx, List.append_assoc]
  -- step 3
  simp only [encode, s1, s2]
  unfold addFingerprint fpPart
  cases fp with
  | false => simp only [Bool.false_eq_true, ↓reduceIte, updLen, List.append_assoc, writeLen_hdrL, hL]; simp
  | true =>
    simp only [↓reduceIte, List.append_assoc, writeLen_hdrL, hL]
    have hmi4 : (miPart P m key).length % 4 = 0 := by
      cases key <;> simp [miPart, tlv_length_mod]
    rw [appendRaw_aligned _ _ _ (by simp [hdrL_length m _ htx]; omega)]
    rw [updLen, List.append_assoc, writeLen_hdrL]
    simp [hdrL_length m _ htx, List.append_assoc, Nat.add_assoc]


/-! ### decoder over encoder output -/

theorem decodeLoop_tlv (tx : Bytes) (d : Decoded) (t : Nat) (v rest : Bytes) (ht : t < 65536)
    (hv : v.length < 65536) :
    decodeLoop tx d (tlv t v ++ rest) = decodeLoop tx (attrStep tx d t v) rest := by
  simp only [tlv, be16, List.cons_append, List.nil_append, List.append_assoc]
  rw [decodeLoop]
  simp only [rd16_be16 ht, rd16_be16 hv]
  have h1 : ¬ v.length > (v ++ (zeros (pad4 v.length) ++ rest)).length := by simp
  simp only [h1, ↓reduceIte]
  have h2 : (v ++ (zeros (pad4 v.length) ++ rest)).take v.length = v := take_append_len rfl
  have h3 : (v ++ (zeros (pad4 v.length) ++ rest)).drop (v.length + pad4 v.length) = rest := by
    rw [← List.append_assoc]
    exact drop_append_len (by simp : (v ++ zeros (pad4 v.length)).length = v.length + pad4 v.length)
  rw [h2, h3]

theorem decodeLoop_nil (tx : Bytes) (d : Decoded) : decodeLoop tx d [] = d := by
  rw [decodeLoop]; simp

theorem decodeLoop_tlvs (tx : Bytes) (d : Decoded) (tvs : List (Nat × Bytes)) (rest : Bytes)
    (h : ∀ p ∈ tvs, p.1 < 65536 ∧ p.2.length < 65536) :
    decodeLoop tx d ((tvs.map (fun p => tlv p.1 p.2)).flatten ++ rest) =
      decodeLoop tx (tvs.foldl (fun d p => attrStep tx d p.1 p.2) d) rest := by
  induction tvs generalizing d with
  | nil => simp
  | cons p ps ih =>
    simp only [List.map_cons, List.flatten_cons, List.append_assoc, List.foldl_cons]
    rw [decodeLoop_tlv _ _ _ _ _ (h p (by simp)).1 (h p (by simp)).2]
    exact ih _ (fun q hq => h q (by simp [hq]))

/-- what each attribute means for the decoder's result (attributes the decoder does not expose are
skipped; a repeated attribute overrides the earlier one) -/
def applyAttr (d : Decoded) : Attr → Decoded
  | .realm v => { d with realm := some v }
  | .nonce v => { d with nonce := some v }
  | .data v => { d with data := some v }
  | .lifetime v => { d with lifetime := some v }
  | .useCandidate => { d with useCandidate := true }
  | .priority v => { d with priority := some v }
  | .xorPeer a => { d with peer := some a }
  | .xorMapped a => { d with mapped := some a }
  | _ => d

/-- value constraints under which the decoder reads back what the encoder was given: Rust `String`s
are valid UTF-8, `u32` range, address shapes. -/
def Attr.Ok : Attr → Prop
  | .realm v | .nonce v => validUtf8 v = true
  | .lifetime v | .priority v => v < 4294967296
  | .xorPeer a | .xorMapped a => a.Wf
  | _ => True

instance (a : Attr) : Decidable a.Ok := by
  cases a <;> simp only [Attr.Ok] <;> exact inferInstance

theorem attrType_lt (a : Attr) : attrType a < 65536 := by cases a <;> simp [attrType]

theorem attrStep_attr (tx : Bytes) (d : Decoded) (a : Attr) (ha : a.Ok) (htx : tx.length = 12) :
    attrStep tx d (attrType a) (attrValue tx a) = applyAttr d a := by
  cases a with
  | realm v | nonce v =>
    have : validUtf8 v = true := ha
    simp [attrStep, attrType, attrValue, applyAttr, this]
  | lifetime v | priority v =>
    have hv : v < 4294967296 := ha
    simp only [attrStep, attrType, attrValue, applyAttr, be32]
    simp [rd32_be32 hv]
  | xorPeer a | xorMapped a =>
    have hw : a.Wf := ha
    simp [attrStep, attrType, attrValue, applyAttr, parseXor_xorValue a tx hw htx]
  | useCandidate => simp [attrStep, attrType, attrValue, applyAttr]
  | data v => simp [attrStep, attrType, attrValue, applyAttr]
  | username v | software v | requestedTransport v | iceControlling v | iceControlled v
    | channelNumber v =>
    simp [attrStep, attrType, attrValue, applyAttr]


theorem foldl_attrStep_attrs (tx : Bytes) (d : Decoded) (attrs : List Attr) (h : ∀ a ∈ attrs, a.Ok)
    (htx : tx.length = 12) :
    (attrs.map (fun a => (attrType a, attrValue tx a))).foldl (fun d p => attrStep tx d p.1 p.2) d =
      attrs.foldl applyAttr d := by
  induction attrs generalizing d with
  | nil => rfl
  | cons a as ih =>
    simp only [List.map_cons, List.foldl_cons]
    rw [attrStep_attr tx d a (h a (by simp)) htx]
    exact ih _ (fun x hx => h x (by simp [hx]))

theorem decMethod_enc (m : Method) (c : Class) :
    decMethod ((encMethodBits m ||| encClassBits c) &&& stunDecMethodMask) = some m := by
  cases m <;> cases c <;> decide

theorem decClass_enc (m : Method) (c : Class) :
    decClass ((encMethodBits m ||| encClassBits c) &&& stunDecClassMask) = some c := by
  cases m <;> cases c <;> decide

theorem typeBits_lt (m : Method) (c : Class) : encMethodBits m ||| encClassBits c < 65536 := by
  cases m <;> cases c <;> decide

/-- decoding `header(len) ++ area` when the length field is right -/
theorem decode_hdrL (m : Msg) (area : Bytes) (htx : m.tx.length = 12) (hlen : area.length < 65536) :
    decode (hdrL m area.length ++ area) =
      .ok (decodeLoop m.tx (emptyDecoded m.cls m.method m.tx) area) := by
  have hc : cookieBytes = be32 stunMagicCookie := rfl
  simp only [hdrL, be16, hc, be32, List.cons_append, List.nil_append, List.append_assoc, decode]
  rw [rd16_be16 (typeBits_lt _ _), rd16_be16 hlen]
  simp only [List.length_cons, List.length_append, htx]
  have h1 : ¬ (12 + area.length + 1 + 1 + 1 + 1 < 16) := by omega
  have h2 : ¬ (area.length + 20 ≠ 12 + area.length + 1 + 1 + 1 + 1 + 1 + 1 + 1 + 1) := by omega
  simp only [h1, h2, ↓reduceIte, decMethod_enc, decClass_enc]
  have e1 : List.take 12 (m.tx ++ area) = m.tx := take_append_len htx
  have e2 : List.drop 12 (m.tx ++ area) = area := drop_append_len htx
  simp [e1, e2]

end RtcModel.Stun
