/-
Helper lemmas about the STUN model (`RtcModel/Stun.lean`). Core Lean only.
-/
import RtcModel.Stun

namespace RtcModel.Stun
open RtcModel.Generated RtcModel.C16Bytes

theorem cookieBytes_length : cookieBytes.length = 4 := rfl
theorem cookieHi_lt : cookieHi < 65536 := by decide

theorem xor_cookieHi_lt {p : Nat} (h : p < 65536) : p ^^^ cookieHi < 65536 :=
  Nat.xor_lt_two_pow (n := 16) h cookieHi_lt

theorem xor_cookieHi_cancel (p : Nat) : (p ^^^ cookieHi) ^^^ cookieHi = p := by
  rw [Nat.xor_assoc, Nat.xor_self, Nat.xor_zero]

/-! ### padding / alignment of the encoder -/

theorem padBuf_length_mod (buf : Bytes) : (padBuf buf).length % 4 = 0 := by
  simp only [padBuf, List.length_append, zeros_length]; exact add_pad4_mod _

theorem padBuf_of_aligned {buf : Bytes} (h : buf.length % 4 = 0) : padBuf buf = buf := by
  simp [padBuf, pad4_of_aligned h, zeros]

theorem appendRaw_length_mod (buf : Bytes) (t : Nat) (v : Bytes) : (appendRaw buf t v).length % 4 = 0 :=
  padBuf_length_mod _

theorem appendXor_length_mod (buf : Bytes) (t : Nat) (a : Addr) (tx : Bytes) :
    (appendXor buf t a tx).length % 4 = 0 := by
  cases a <;> exact padBuf_length_mod _

theorem appendAttr_length_mod (buf : Bytes) (a : Attr) (tx : Bytes) :
    (appendAttr buf a tx).length % 4 = 0 := by
  cases a <;> first | exact padBuf_length_mod _ | exact appendXor_length_mod _ _ _ _

theorem appendAttrs_length_mod (buf : Bytes) (attrs : List Attr) (tx : Bytes) (h : buf.length % 4 = 0) :
    (appendAttrs buf attrs tx).length % 4 = 0 := by
  induction attrs generalizing buf with
  | nil => simpa [appendAttrs] using h
  | cons a as ih =>
    simp only [appendAttrs, List.foldl_cons]
    exact ih _ (appendAttr_length_mod buf a tx)

theorem writeLen_length (buf : Bytes) (n : Nat) : (writeLen buf n).length = buf.length := by
  unfold writeLen; split <;> simp

theorem updLen_length (buf : Bytes) : (updLen buf).length = buf.length := writeLen_length _ _

theorem header_length (m : Msg) (h : m.tx.length = 12) : (header m).length = 20 := by
  simp [header, cookieBytes_length, h]

/-! ### XOR addresses -/

/-- value bytes of an XOR-*-ADDRESS attribute (RFC 5389 §15.2) as the encoder emits them -/
def xorValue (a : Addr) (tx : Bytes) : Bytes :=
  match a with
  | .v4 ip port => [0, 1] ++ be16 (port ^^^ cookieHi) ++ xorBytes ip cookieBytes
  | .v6 ip port => [0, 2] ++ be16 (port ^^^ cookieHi) ++ xorBytes (ip.take 4) cookieBytes ++ xorBytes (ip.drop 4) tx

theorem xorValue_length (a : Addr) (tx : Bytes) (ha : a.Wf) (htx : tx.length = 12) :
    (xorValue a tx).length = match a with | .v4 .. => 8 | .v6 .. => 20 := by
  cases a with
  | v4 ip port => simp [xorValue, xorBytes_length, ha.1, cookieBytes_length]
  | v6 ip port =>
    simp [xorValue, xorBytes_length, ha.1, cookieBytes_length, htx]

theorem appendXor_eq_raw (buf : Bytes) (t : Nat) (a : Addr) (tx : Bytes) (ha : a.Wf) (htx : tx.length = 12) :
    appendXor buf t a tx = appendRaw buf t (xorValue a tx) := by
  have hl := xorValue_length a tx ha htx
  cases a with
  | v4 ip port => simp only [appendXor, appendRaw, hl]; simp [xorValue, List.append_assoc]
  | v6 ip port => simp only [appendXor, appendRaw, hl]; simp [xorValue, List.append_assoc]

theorem parseXor_xorValue (a : Addr) (tx : Bytes) (ha : a.Wf) (htx : tx.length = 12) :
    parseXor (xorValue a tx) tx = some a := by
  cases a with
  | v4 ip port =>
    obtain ⟨hip, hp⟩ := ha
    have hx : (xorBytes ip cookieBytes).length = 4 := by simp [xorBytes_length, hip, cookieBytes_length]
    simp only [xorValue, be16, List.cons_append, List.nil_append, parseXor]
    rw [rd16_be16 (xor_cookieHi_lt hp), xor_cookieHi_cancel]
    simp only [List.length_cons, hx]
    simp [List.take_of_length_le, hx, xorBytes_xorBytes ip cookieBytes (by simp [hip, cookieBytes_length])]
  | v6 ip port =>
    obtain ⟨hip, hp⟩ := ha
    have h1 : (xorBytes (ip.take 4) cookieBytes).length = 4 := by
      simp [xorBytes_length, hip, cookieBytes_length]
    have h2 : (xorBytes (ip.drop 4) tx).length = 12 := by simp [xorBytes_length, hip, htx]
    simp only [xorValue, be16, List.cons_append, List.nil_append, parseXor]
    rw [rd16_be16 (xor_cookieHi_lt hp), xor_cookieHi_cancel]
    simp only [List.length_cons, List.length_append, h1, h2]
    have e1 : (xorBytes (ip.take 4) cookieBytes ++ xorBytes (ip.drop 4) tx).take 4 = xorBytes (ip.take 4) cookieBytes :=
      take_append_len h1
    have e2 : (xorBytes (ip.take 4) cookieBytes ++ xorBytes (ip.drop 4) tx).drop 4 = xorBytes (ip.drop 4) tx :=
      drop_append_len h1
    have e3 : (xorBytes (ip.drop 4) tx).take 12 = xorBytes (ip.drop 4) tx :=
      List.take_of_length_le (by omega)
    rw [e1, e2, e3]
    rw [xorBytes_xorBytes _ _ (by simp [hip, cookieBytes_length]), xorBytes_xorBytes _ _ (by simp [hip, htx])]
    simp

end RtcModel.Stun
