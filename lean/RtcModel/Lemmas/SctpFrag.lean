/-
Helper lemmas: the fragments `send_data_raw` produces for one message, processed in order by
`process_data_payload`, deliver exactly that message; a whole workload delivers exactly the
workload; processing only ever appends to a channel's event list.
-/
import RtcModel.SctpDcep
import RtcModel.Lemmas.SctpRecv

namespace RtcModel.Sctp
open RtcModel.Generated

/-! ### channel table -/

theorem findChan_id (cs : List Chan) (id : UInt16) (dc : Chan) (h : findChan cs id = some dc) : dc.id = id := by
  have := List.find?_some h
  simpa using this

theorem findChan_setChan_same (cs : List Chan) (id : UInt16) (dc n : Chan)
    (h : findChan cs id = some dc) (hn : n.id = id) : findChan (setChan cs n) id = some n := by
  induction cs with
  | nil => simp [findChan] at h
  | cons c rest ih =>
    unfold findChan at h ih ⊢
    unfold setChan
    by_cases hc : (c.id == id) = true
    · have hcn : (c.id == n.id) = true := by rw [hn]; exact hc
      have hnn : (n.id == id) = true := by simp [hn]
      rw [if_pos hcn]
      simp only [List.find?_cons, hnn]
    · have hc' := Bool.eq_false_iff.mpr hc
      have hcn : (c.id == n.id) = false := by rw [hn]; exact hc'
      simp only [List.find?_cons, hc'] at h
      rw [if_neg (by simp [hcn])]
      simp only [List.find?_cons, hc']
      exact ih h

theorem findChan_setChan_other (cs : List Chan) (id : UInt16) (n : Chan) (hn : n.id ≠ id) :
    findChan (setChan cs n) id = findChan cs id := by
  induction cs with
  | nil => rfl
  | cons c rest ih =>
    unfold findChan at ih ⊢
    unfold setChan
    by_cases h1 : (c.id == n.id) = true
    · have hcid : c.id = n.id := by simpa using h1
      have h2 : (c.id == id) = false := by simp [hcid, hn]
      have h3 : (n.id == id) = false := by simp [hn]
      rw [if_pos h1]
      simp only [List.find?_cons, h2, h3]
    · rw [if_neg h1]
      by_cases h2 : (c.id == id) = true
      · simp only [List.find?_cons, h2]
      · have h2' : (c.id == id) = false := Bool.eq_false_iff.mpr h2
        simp only [List.find?_cons, h2']
        exact ih

/-! ### stream table -/

@[simp] theorem getStream_setStream (ss : List (UInt16 × InStream)) (sid : UInt16) (s : InStream) :
    getStream (setStream ss sid s) sid = s := by
  simp [getStream, setStream]

/-! ### flag bits of the fragments of an ordered message -/

theorem bBit_frag0 (c : DChunk) (first last : Bool) (h : c.flags = fragFlags 0 first last) : c.bBit = first := by
  cases first <;> cases last <;> simp [DChunk.bBit, h, fragFlags] <;> decide
theorem eBit_frag0 (c : DChunk) (first last : Bool) (h : c.flags = fragFlags 0 first last) : c.eBit = last := by
  cases first <;> cases last <;> simp [DChunk.eBit, h, fragFlags] <;> decide
theorem uBit_frag0 (c : DChunk) (first last : Bool) (h : c.flags = fragFlags 0 first last) : c.uBit = false := by
  cases first <;> cases last <;> simp [DChunk.uBit, h, fragFlags] <;> decide

theorem deliverTo_open (s : Pl) (dc : Chan) (c : DChunk) (h : dc.state = 1) : deliverTo s dc c = deliverTo' s dc c := by
  unfold deliverTo openOnce
  simp [h]

/-- in-order arrival at a stream with nothing pending: delivered at once -/
theorem enqueue_inorder (n : UInt16) (m : Bytes) : (InStream.mk n []).enqueue n m = (⟨n + 1, []⟩, [m]) := by
  simp [InStream.enqueue, InStream.drainReady, InStream.drainGo, InStream.insert, InStream.remove, InStream.get?]

/-- the payload processor restricted to data (non-DCEP) chunks -/
def procDataP : Proc := fun pl c => (procData pl c, true)

theorem procPayload_data (pl : Pl) (c : DChunk) (h : c.ppid.toNat ≠ dcPpidDcep) :
    procPayload pl c = procDataP pl c := by
  have hb : (c.ppid.toNat == dcPpidDcep) = false := beq_eq_false_iff_ne.mpr h
  simp only [procPayload, procDataP, hb, Bool.false_eq_true, if_false]

/-! ### assignTsn -/

theorem assignTsn_append (t : UInt32) (a b : List OChunk) :
    assignTsn t (a ++ b) = assignTsn t a ++ assignTsn (t + UInt32.ofNat a.length) b := by
  induction a generalizing t with
  | nil => simp [assignTsn, u32_add_zero]
  | cons o rest ih =>
    simp only [List.cons_append, assignTsn, ih, List.length_cons]
    have : t + 1 + UInt32.ofNat rest.length = t + UInt32.ofNat (rest.length + 1) := by
      apply UInt32.toNat_inj.mp; simp [UInt32.toNat_add]; omega
    rw [this]

theorem assignTsn_length (t : UInt32) (os : List OChunk) : (assignTsn t os).length = os.length := by
  induction os generalizing t with
  | nil => rfl
  | cons o rest ih => simp [assignTsn, ih]

theorem assignTsn_tsn (t : UInt32) (os : List OChunk) (i : Nat) (h : i < (assignTsn t os).length) :
    (assignTsn t os)[i].tsn = t + UInt32.ofNat i := by
  induction os generalizing t i with
  | nil => simp [assignTsn] at h
  | cons o rest ih =>
    cases i with
    | zero => simp [assignTsn, u32_add_zero]
    | succ j =>
      simp only [assignTsn, List.getElem_cons_succ]
      rw [ih (t + 1) j (by simpa [assignTsn] using h), u32_add_succ]
      apply UInt32.toNat_inj.mp
      simp [UInt32.toNat_add]
      omega

theorem assignTsn_ppid (t : UInt32) (os : List OChunk) (p : UInt32) (h : ∀ o ∈ os, o.ppid = p) :
    ∀ c ∈ assignTsn t os, c.ppid = p := by
  induction os generalizing t with
  | nil => intro c hc; simp [assignTsn] at hc
  | cons o rest ih =>
    intro c hc
    simp only [assignTsn, List.mem_cons] at hc
    cases hc with
    | inl h1 => subst h1; exact h o (by simp)
    | inr h1 => exact ih (t + 1) (fun o' ho' => h o' (by simp [ho'])) c h1

/-! ### one message -/

theorem fragGo_nil (mps : Nat) (base : UInt8) (fuel : Nat) (first : Bool) : fragGo mps base fuel first [] = [] := by
  cases fuel <;> simp [fragGo]

/-- the channel after message `m` was completed and handed to the application -/
def Chan.delivered (dc : Chan) (m : Bytes) : Chan :=
  { dc with reasm := [], events := dc.events ++ [.msg m] }

/-- the chunk a fragment becomes -/
def fragChunk (sid : UInt16) (ppid : UInt32) (ssn : UInt16) (f : UInt8 × Bytes) : OChunk :=
  { sid, ppid, payload := f.2, flags := f.1, ssn }

theorem fragRun (mps : Nat) (hmps : 0 < mps) (sid : UInt16) (ppid : UInt32) (ssn : UInt16) :
    ∀ (fuel : Nat) (first : Bool) (rest : Bytes) (pl : Pl) (dc : Chan) (t : UInt32),
      rest ≠ [] → rest.length ≤ fuel →
      findChan pl.chans sid = some dc → dc.ordered = true → dc.state = 1 → getStream pl.streams sid = ⟨ssn, []⟩ →
      (first = false → dc.reasm ≠ []) →
      ∃ pl', pl' = plRun procDataP pl (assignTsn t ((fragGo mps 0 fuel first rest).map (fragChunk sid ppid ssn))) ∧
        findChan pl'.chans sid = some (dc.delivered ((if first then [] else dc.reasm) ++ rest)) ∧
        getStream pl'.streams sid = ⟨ssn + 1, []⟩ := by
  intro fuel
  induction fuel with
  | zero =>
    intro first rest pl dc t hne hl
    exact absurd (List.eq_nil_of_length_eq_zero (by omega)) hne
  | succ f ih =>
    intro first rest pl dc t hne hl hfind hord hst hstr hre
    have hemp : rest.isEmpty = false := by
      cases rest with
      | nil => exact absurd rfl hne
      | cons _ _ => rfl
    have hid := findChan_id _ _ _ hfind
    have hdrop0 : ∀ b : Bool, b = first → (!b && dc.reasm.isEmpty) = false := by
      intro b hb
      cases first with
      | true => simp [hb]
      | false =>
        have := hre rfl
        cases hr : dc.reasm with
        | nil => exact absurd hr this
        | cons _ _ => simp [hb]
    by_cases hlast : min rest.length mps ≥ rest.length
    · -- last fragment
      have hn : min rest.length mps = rest.length := by omega
      simp only [fragGo, hemp, hn, List.take_length, List.drop_length, fragGo_nil, ge_iff_le, Nat.le_refl,
        decide_true, List.map_cons, List.map_nil, assignTsn, plRun_cons, plRun_nil, Bool.false_eq_true, if_false]
      refine ⟨_, rfl, ?_⟩
      have hb := bBit_frag0 { tsn := t, flags := fragFlags 0 first true, sid := sid, ssn := ssn, ppid := ppid, data := rest } first true rfl
      have he := eBit_frag0 { tsn := t, flags := fragFlags 0 first true, sid := sid, ssn := ssn, ppid := ppid, data := rest } first true rfl
      have hu := uBit_frag0 { tsn := t, flags := fragFlags 0 first true, sid := sid, ssn := ssn, ppid := ppid, data := rest } first true rfl
      simp only [procDataP, procData, fragChunk, hfind, deliverTo_open _ dc _ hst, deliverTo', hb, hdrop0 first rfl, he, hu, hord, hstr, enqueue_inorder,
        Bool.not_true, Bool.or_self, Bool.false_eq_true, if_false, if_true]
      constructor
      · rw [findChan_setChan_same _ _ _ _ hfind (by simp [Chan.emitAll, hid])]
        cases first <;> simp [Chan.emitAll, Chan.delivered, hord]
      · simp
    · -- not the last fragment
      have hn : min rest.length mps = mps := by omega
      have hlt : mps < rest.length := by omega
      have hdec : decide (rest.length ≤ mps) = false := by simp; omega
      simp only [fragGo, hemp, hn, ge_iff_le, hdec, List.map_cons, assignTsn, plRun_cons, Bool.false_eq_true, if_false]
      have hb := bBit_frag0 { tsn := t, flags := fragFlags 0 first false, sid := sid, ssn := ssn, ppid := ppid, data := rest.take mps } first false rfl
      have he := eBit_frag0 { tsn := t, flags := fragFlags 0 first false, sid := sid, ssn := ssn, ppid := ppid, data := rest.take mps } first false rfl
      let dc1 : Chan := { dc with reasm := (if first then [] else dc.reasm) ++ rest.take mps }
      have hstep : (procDataP pl { tsn := t, flags := fragFlags 0 first false, sid := sid, ssn := ssn, ppid := ppid, data := rest.take mps }).1 = { pl with chans := setChan pl.chans dc1 } := by
        simp only [procDataP, procData, hfind, deliverTo_open _ dc _ hst, deliverTo', hb, hdrop0 first rfl, he, Bool.false_eq_true, if_false, dc1]
      have hfind1 : findChan (setChan pl.chans dc1) sid = some dc1 :=
        findChan_setChan_same _ _ _ _ hfind (by simp [dc1, hid])
      have hdrop : rest.drop mps ≠ [] := by
        intro h
        have := congrArg List.length h
        simp at this; omega
      obtain ⟨pl', hpl', h1, h2⟩ := ih false (rest.drop mps) { pl with chans := setChan pl.chans dc1 } dc1 (t + 1)
        hdrop (by simp; omega) hfind1 hord hst hstr (by
          intro _
          have htk : rest.take mps ≠ [] := by
            cases rest with
            | nil => exact absurd rfl hne
            | cons r rs => cases mps with
              | zero => omega
              | succ m => simp
          simp only [dc1]
          exact List.append_ne_nil_of_right_ne_nil _ htk)
      refine ⟨pl', ?_, ?_, h2⟩
      · rw [hpl']
        simp only [fragChunk] at hstep ⊢
        rw [hstep]
      · rw [h1]
        simp [dc1, Chan.delivered, List.append_assoc]


theorem flags3 (c : DChunk) (h : c.flags = (0 : UInt8) ||| 0x03) : c.bBit = true ∧ c.eBit = true ∧ c.uBit = false := by
  simp [DChunk.bBit, DChunk.eBit, DChunk.uBit, h]; decide

/-- one whole message sent on an ordered channel, processed in order, is delivered as is -/
theorem msgRun (mps : Nat) (hmps : 0 < mps) (sid : UInt16) (ppid : UInt32) (ssn : UInt16) (m : Bytes)
    (pl : Pl) (dc : Chan) (t : UInt32)
    (hfind : findChan pl.chans sid = some dc) (hord : dc.ordered = true) (hst : dc.state = 1)
    (hstr : getStream pl.streams sid = ⟨ssn, []⟩) :
    ∃ pl', pl' = plRun procDataP pl (assignTsn t ((fragMsg mps 0 m).map (fragChunk sid ppid ssn))) ∧
      findChan pl'.chans sid = some (dc.delivered m) ∧ getStream pl'.streams sid = ⟨ssn + 1, []⟩ := by
  by_cases hm : m = []
  · subst hm
    have hid := findChan_id _ _ _ hfind
    obtain ⟨hb, he, hu⟩ := flags3 { tsn := t, flags := (0 : UInt8) ||| 0x03, sid := sid, ssn := ssn, ppid := ppid, data := [] } rfl
    refine ⟨_, rfl, ?_⟩
    simp only [fragMsg, List.isEmpty_nil, if_true, List.map_cons, List.map_nil, assignTsn, plRun_cons, plRun_nil,
      procDataP, procData, fragChunk, hfind, deliverTo_open _ dc _ hst, deliverTo', hb, he, hu, hord, hstr, enqueue_inorder,
      Bool.not_true, Bool.or_self, Bool.false_eq_true, Bool.false_and, if_false]
    constructor
    · rw [findChan_setChan_same _ _ _ _ hfind (by simp [Chan.emitAll, hid])]
      simp [Chan.emitAll, Chan.delivered, hord]
    · simp
  · have hemp : m.isEmpty = false := by
      cases m with
      | nil => exact absurd rfl hm
      | cons _ _ => rfl
    obtain ⟨pl', h1, h2, h3⟩ := fragRun mps hmps sid ppid ssn m.length true m pl dc t hm (Nat.le_refl _) hfind hord hst hstr (by simp)
    refine ⟨pl', ?_, ?_, h3⟩
    · simp only [fragMsg, hemp, Bool.false_eq_true, if_false]; exact h1
    · simpa using h2

/-! ### monotonicity: processing only appends events -/

theorem deliverTo'_chans (pl : Pl) (d : Chan) (c : DChunk) :
    (deliverTo' pl d c).chans = pl.chans ∨
    ∃ d', (deliverTo' pl d c).chans = setChan pl.chans d' ∧ d'.id = d.id ∧ d.events <+: d'.events := by
  unfold deliverTo'
  simp only []
  split
  · left; rfl
  · right
    split
    · split
      · exact ⟨_, rfl, rfl, by simp [Chan.emit]⟩
      · exact ⟨_, rfl, rfl, by simp [Chan.emitAll]⟩
    · exact ⟨_, rfl, rfl, List.prefix_refl _⟩

theorem openOnce_mono (d : Chan) : (openOnce d).id = d.id ∧ d.events <+: (openOnce d).events := by
  unfold openOnce
  split
  · exact ⟨rfl, by simp [Chan.emit]⟩
  · exact ⟨rfl, List.prefix_refl _⟩

theorem deliverTo_chans (pl : Pl) (d : Chan) (c : DChunk) :
    (deliverTo pl d c).chans = pl.chans ∨
    ∃ d', (deliverTo pl d c).chans = setChan pl.chans d' ∧ d'.id = d.id ∧ d.events <+: d'.events := by
  unfold deliverTo
  split
  · cases deliverTo'_chans pl (openOnce d) c with
    | inl h => left; exact h
    | inr h =>
      obtain ⟨d', h1, h2, h3⟩ := h
      right
      exact ⟨d', h1, h2.trans (openOnce_mono d).1, List.IsPrefix.trans (openOnce_mono d).2 h3⟩
  · exact deliverTo'_chans pl d c

theorem procData_mono (pl : Pl) (c : DChunk) (sid : UInt16) (dc : Chan) (h : findChan pl.chans sid = some dc) :
    ∃ dc', findChan (procData pl c).chans sid = some dc' ∧ dc.events <+: dc'.events := by
  unfold procData
  cases hf : findChan pl.chans c.sid with
  | none => exact ⟨dc, h, List.prefix_refl _⟩
  | some d =>
    simp only []
    cases deliverTo_chans pl d c with
    | inl h0 => rw [h0]; exact ⟨dc, h, List.prefix_refl _⟩
    | inr h1' =>
      obtain ⟨d', h1, h2, h3⟩ := h1'
      have hdid := findChan_id _ _ _ hf
      rw [h1]
      by_cases hs : c.sid = sid
      · rw [hs] at hf
        have : d = dc := Option.some.inj (hf.symm.trans h)
        subst this
        exact ⟨d', findChan_setChan_same _ _ _ _ h (by rw [h2, hdid, hs]), h3⟩
      · rw [findChan_setChan_other _ _ _ (by rw [h2, hdid]; exact hs)]
        exact ⟨dc, h, List.prefix_refl _⟩

theorem plRun_mono (cs : List DChunk) : ∀ (pl : Pl) (sid : UInt16) (dc : Chan), findChan pl.chans sid = some dc →
    ∃ dc', findChan (plRun procDataP pl cs).chans sid = some dc' ∧ dc.events <+: dc'.events := by
  induction cs with
  | nil => intro pl sid dc h; exact ⟨dc, h, List.prefix_refl _⟩
  | cons c rest ih =>
    intro pl sid dc h
    obtain ⟨dc1, h1, p1⟩ := procData_mono pl c sid dc h
    obtain ⟨dc2, h2, p2⟩ := ih (procData pl c) sid dc1 h1
    exact ⟨dc2, h2, List.IsPrefix.trans p1 p2⟩

/-! ### the sending side -/

theorem findTx_setTx_same (cs : List TxChan) (id : UInt16) (tc n : TxChan)
    (h : findTx cs id = some tc) (hn : n.id = id) : findTx (setTx cs n) id = some n := by
  induction cs with
  | nil => simp [findTx] at h
  | cons c rest ih =>
    unfold findTx at h ih ⊢
    unfold setTx
    by_cases hc : (c.id == id) = true
    · have hcn : (c.id == n.id) = true := by rw [hn]; exact hc
      have hnn : (n.id == id) = true := by simp [hn]
      rw [if_pos hcn]
      simp only [List.find?_cons, hnn]
    · have hc' := Bool.eq_false_iff.mpr hc
      have hcn : (c.id == n.id) = false := by rw [hn]; exact hc'
      simp only [List.find?_cons, hc'] at h
      rw [if_neg (by simp [hcn])]
      simp only [List.find?_cons, hc']
      exact ih h

theorem findTx_id (cs : List TxChan) (id : UInt16) (tc : TxChan) (h : findTx cs id = some tc) : tc.id = id := by
  have := List.find?_some h
  simpa using this

theorem assignTsn_map_congr {α : Type} (f g : α → OChunk) (l : List α)
    (h : ∀ x, (f x).sid = (g x).sid ∧ (f x).ppid = (g x).ppid ∧ (f x).payload = (g x).payload ∧
      (f x).flags = (g x).flags ∧ (f x).ssn = (g x).ssn) :
    ∀ t, assignTsn t (l.map f) = assignTsn t (l.map g) := by
  induction l with
  | nil => intro t; rfl
  | cons x rest ih =>
    intro t
    obtain ⟨a, b, c, d, e⟩ := h x
    simp only [List.map_cons, assignTsn, a, b, c, d, e, ih]

/-- `send_data_raw` on an ordered channel with a non-DCEP ppid -/
theorem sendDataRaw_ordered (cs : List TxChan) (sid : UInt16) (ppid : UInt32) (data : Bytes) (tc : TxChan)
    (hf : findTx cs sid = some tc) (ho : tc.ordered = true) (hp : ppid.toNat ≠ dcPpidDcep) :
    (sendDataRaw cs sid ppid data).1 = setTx cs { tc with nextSsn := tc.nextSsn + 1 } ∧
    ∀ t, assignTsn t (sendDataRaw cs sid ppid data).2 =
      assignTsn t ((fragMsg (min tc.maxPayload sctpMaxPayload) 0 data).map (fragChunk sid ppid tc.nextSsn)) := by
  have hb : (ppid.toNat == dcPpidDcep) = false := beq_eq_false_iff_ne.mpr hp
  simp only [sendDataRaw, hf, hb, ho, Bool.false_eq_true, if_false, if_true, Bool.not_true]
  refine ⟨trivial, ?_⟩
  intro t
  apply assignTsn_map_congr
  intro x
  simp [fragChunk]

/-- a whole workload sent on an ordered channel and processed in order is delivered exactly -/
theorem sendAll_run (sid : UInt16) (ppid : UInt32) (hp : ppid.toNat ≠ dcPpidDcep) :
    ∀ (msgs : List Bytes) (cs : List TxChan) (tc : TxChan) (pl : Pl) (dc : Chan) (t : UInt32),
      findTx cs sid = some tc → tc.ordered = true → 0 < tc.maxPayload →
      findChan pl.chans sid = some dc → dc.ordered = true → dc.state = 1 →
      getStream pl.streams sid = ⟨tc.nextSsn, []⟩ →
      ∃ dc', findChan (plRun procDataP pl (assignTsn t (sendAll cs sid ppid msgs).2)).chans sid = some dc' ∧
        dc'.events = dc.events ++ msgs.map ChanEv.msg := by
  intro msgs
  induction msgs with
  | nil => intro cs tc pl dc t _ _ _ h _ _ _; exact ⟨dc, by simpa [sendAll, assignTsn] using h, by simp⟩
  | cons m rest ih =>
    intro cs tc pl dc t hf ho hmp hfind hord hst hstr
    obtain ⟨hs1, hs2⟩ := sendDataRaw_ordered cs sid ppid m tc hf ho hp
    have hmps : 0 < min tc.maxPayload sctpMaxPayload := by simp; omega
    obtain ⟨pl1, hpl1, hc1, hst1⟩ := msgRun _ hmps sid ppid tc.nextSsn m pl dc t hfind hord hst hstr
    have hid := findTx_id _ _ _ hf
    have hf1 : findTx (sendDataRaw cs sid ppid m).1 sid = some { tc with nextSsn := tc.nextSsn + 1 } := by
      rw [hs1]; exact findTx_setTx_same _ _ _ _ hf (by simp [hid])
    obtain ⟨dc', h1, h2⟩ := ih (sendDataRaw cs sid ppid m).1 { tc with nextSsn := tc.nextSsn + 1 } pl1 (dc.delivered m)
      (t + UInt32.ofNat (sendDataRaw cs sid ppid m).2.length) hf1 ho hmp hc1 (by simpa [Chan.delivered] using hord) (by simpa [Chan.delivered] using hst) hst1
    refine ⟨dc', ?_, ?_⟩
    · simp only [sendAll]
      rw [assignTsn_append, plRun_append, hs2 t, ← hpl1]
      exact h1
    · rw [h2]; simp [Chan.delivered]

theorem sendDataRaw_ppid (cs : List TxChan) (sid : UInt16) (ppid : UInt32) (m : Bytes) :
    ∀ o ∈ (sendDataRaw cs sid ppid m).2, o.ppid = ppid := by
  intro o ho
  unfold sendDataRaw at ho
  split at ho <;> simp at ho <;> obtain ⟨_, _, _, rfl⟩ := ho <;> rfl

theorem sendAll_ppid (sid : UInt16) (ppid : UInt32) (msgs : List Bytes) :
    ∀ cs, ∀ o ∈ (sendAll cs sid ppid msgs).2, o.ppid = ppid := by
  induction msgs with
  | nil => intro cs o ho; simp [sendAll] at ho
  | cons m rest ih =>
    intro cs o ho
    simp only [sendAll, List.mem_append] at ho
    cases ho with
    | inl h => exact sendDataRaw_ppid cs sid ppid m o h
    | inr h => exact ih _ o h

theorem plRun_data (cs : List DChunk) (hp : ∀ c ∈ cs, c.ppid.toNat ≠ dcPpidDcep) :
    ∀ pl, plRun procPayload pl cs = plRun procDataP pl cs := by
  induction cs with
  | nil => intro pl; rfl
  | cons c rest ih =>
    intro pl
    simp only [plRun_cons, procPayload_data pl c (hp c (by simp))]
    exact ih (fun c' hc' => hp c' (by simp [hc'])) _

theorem prefix_sandwich {α : Type} (a e m : List α) (h1 : a <+: e) (h2 : e <+: a ++ m) :
    ∃ j, j ≤ m.length ∧ e = a ++ m.take j := by
  obtain ⟨t, ht⟩ := h1
  subst ht
  have : t <+: m := (List.prefix_append_right_inj a).mp h2
  have hlen := this.length_le
  exact ⟨t.length, hlen, by rw [List.prefix_iff_eq_take.mp this]; simp⟩


/-- processing any prefix of the workload's chunk stream delivers a prefix of the workload -/
theorem take_prefix_events (cs : List TxChan) (sid : UInt16) (ppid : UInt32) (hp : ppid.toNat ≠ dcPpidDcep)
    (tc : TxChan) (hf : findTx cs sid = some tc) (ho : tc.ordered = true) (hmp : 0 < tc.maxPayload)
    (msgs : List Bytes) (tsn0 : UInt32) (pl0 : Pl) (dc : Chan) (hfind : findChan pl0.chans sid = some dc)
    (hord : dc.ordered = true) (hst : dc.state = 1) (hstr : getStream pl0.streams sid = ⟨tc.nextSsn, []⟩) (k : Nat) :
    ∃ dc' j, findChan (plRun procDataP pl0 ((assignTsn tsn0 (sendAll cs sid ppid msgs).2).take k)).chans sid = some dc' ∧
      j ≤ msgs.length ∧ dc'.events = dc.events ++ (msgs.take j).map ChanEv.msg := by
  obtain ⟨dcF, hF, hFe⟩ := sendAll_run sid ppid hp msgs cs tc pl0 dc tsn0 hf ho hmp hfind hord hst hstr
  obtain ⟨dck, hk1, hk2⟩ := plRun_mono ((assignTsn tsn0 (sendAll cs sid ppid msgs).2).take k) pl0 sid dc hfind
  have hsplit : plRun procDataP pl0 (assignTsn tsn0 (sendAll cs sid ppid msgs).2) =
      plRun procDataP (plRun procDataP pl0 ((assignTsn tsn0 (sendAll cs sid ppid msgs).2).take k))
        ((assignTsn tsn0 (sendAll cs sid ppid msgs).2).drop k) := by
    rw [← plRun_append, List.take_append_drop]
  obtain ⟨dcF', hF1, hF2⟩ := plRun_mono ((assignTsn tsn0 (sendAll cs sid ppid msgs).2).drop k) _ sid dck hk1
  have : dcF' = dcF := by
    have := hF1
    rw [← hsplit] at this
    exact Option.some.inj (this.symm.trans hF)
  subst this
  rw [hFe] at hF2
  obtain ⟨j, hj, hje⟩ := prefix_sandwich dc.events dck.events (msgs.map ChanEv.msg) hk2 hF2
  exact ⟨dck, j, hk1, by simpa using hj, by rw [hje, List.map_take]⟩

end RtcModel.Sctp
