/-
Helper lemmas about the TURN model (`RtcModel/Turn.lean`). Core Lean only.
-/
import RtcModel.Turn
import RtcModel.Lemmas.StunRfc
namespace RtcModel.Turn
open RtcModel.Stun RtcModel.StunRfc RtcModel.C16Bytes RtcModel.Generated

theorem classifyRx_channelData (ch : Nat) (data : Bytes) (h1 : turnRxChannelLo ≤ ch) (h2 : ch ≤ turnRxChannelHi)
    (hd : data.length < 65536) : classifyRx (channelData ch data) = .chan ch data := by
  simp only [turnRxChannelLo_val, turnRxChannelHi_val] at h1 h2
  have hch : ch < 65536 := by omega
  have : chanCase (channelData ch data) = some (.chan ch data) := by
    simp only [channelData, be16, List.cons_append, List.nil_append, chanCase]
    rw [rd16_be16 hch, rd16_be16 hd]
    simp [h1, h2]
  simp [classifyRx, this]

theorem nextChannel_range (n : Nat) (h1 : turnRxChannelLo ≤ n) (h2 : n ≤ turnRxChannelHi) :
    (nextChannel n).1 = n ∧ turnRxChannelLo ≤ (nextChannel n).2 ∧ (nextChannel n).2 ≤ turnRxChannelHi := by
  simp only [nextChannel, turnChannelLast_val, turnChannelWrapTo_val, turnRxChannelLo_val, turnRxChannelHi_val] at *
  by_cases h : n ≥ 32767 <;> simp [h] <;> omega

/-- a STUN message (first byte < 0x40) is never taken for ChannelData -/
theorem classifyRx_stun (m : Msg) (area : Bytes) :
    classifyRx (hdrL m area.length ++ area) = stunCase (hdrL m area.length ++ area) := by
  have hb : ¬ (turnRxChannelLo ≤ (encMethodBits m.method ||| encClassBits m.cls)) := by
    cases m.method <;> cases m.cls <;> decide
  simp only [turnRxChannelLo_val] at hb
  have hlt := typeBits_lt m.method m.cls
  have : chanCase (hdrL m area.length ++ area) = none := by
    simp only [hdrL, be16, List.cons_append, List.nil_append, chanCase]
    rw [rd16_be16 hlt]
    simp [hb]
  simp [classifyRx, this]


theorem classifyRx_encode (P : Prims) (m : Msg) (key : Option Bytes) (fp : Bool) (hm : m.Wf) :
    classifyRx (encode P m key fp) = stunCase (encode P m key fp) := by
  rw [encode_eq_flat P m key fp hm]; exact classifyRx_stun m _

/-! ### TURN over TCP: self-delimiting byte stream -/

theorem isChannelByte_chan (ch : Nat) (h1 : 16384 ≤ ch) (h2 : ch ≤ 32767) : isChannelByte (UInt8.ofNat (ch / 256)) = true := by
  have : ∀ n : Fin 128, 64 ≤ n.val → isChannelByte (UInt8.ofNat n.val) = true := by decide
  exact this ⟨ch / 256, by omega⟩ (by show 64 ≤ ch / 256; omega)

theorem isChannelByte_stun (m : Method) (c : Class) :
    isChannelByte (UInt8.ofNat ((encMethodBits m ||| encClassBits c) / 256)) = false := by
  cases m <;> cases c <;> decide

/-- a ChannelData message written by `send` over TCP is read back by `recv`, whatever follows it -/
theorem tcpNext_channelData (ch : Nat) (data rest : Bytes) (h1 : turnRxChannelLo ≤ ch) (h2 : ch ≤ turnRxChannelHi)
    (hd : data.length < 65536) :
    tcpNext (tcpWire (channelData ch data) ++ rest) = some (channelData ch data, rest) ∧
    (tcpWire (channelData ch data)).length % 4 = 0 := by
  simp only [turnRxChannelLo_val, turnRxChannelHi_val] at h1 h2
  have hb := isChannelByte_chan ch h1 h2
  have hch : ch < 65536 := by omega
  have hw : tcpWire (channelData ch data) = channelData ch data ++ zeros (pad4 data.length) := by
    simp only [channelData, be16, List.cons_append, List.nil_append, tcpWire, hb, ↓reduceIte, List.length_cons]
    have : pad4 (data.length + 1 + 1 + 1 + 1) = pad4 data.length := by
      rw [show data.length + 1 + 1 + 1 + 1 = 4 + data.length by omega]; exact pad4_add_aligned (by rfl)
    rw [this]
  constructor
  · rw [hw]
    simp only [channelData, be16, List.cons_append, List.nil_append, List.append_assoc, tcpNext, hb, ↓reduceIte]
    rw [rd16_be16 hd]
    have hlen : ¬ (data ++ (zeros (pad4 data.length) ++ rest)).length < data.length + pad4 data.length := by simp
    have ht : (data ++ (zeros (pad4 data.length) ++ rest)).take data.length = data := take_append_len rfl
    have hdrop : (data ++ (zeros (pad4 data.length) ++ rest)).drop (data.length + pad4 data.length) = rest := by
      rw [← List.append_assoc]; exact drop_append_len (by simp)
    simp only [hlen, ↓reduceIte, ht, hdrop]
  · rw [hw]; simp [channelData]; have := add_pad4_mod data.length; omega

/-- a STUN message (header with the right length ++ attribute area) goes out unframed and is read back by
`recv`, whatever follows it -/
theorem tcpNext_stun (m : Msg) (area rest : Bytes) (htx : m.tx.length = 12) (hlen : area.length < 65536) :
    tcpWire (hdrL m area.length ++ area) = hdrL m area.length ++ area ∧
    tcpNext (hdrL m area.length ++ area ++ rest) = some (hdrL m area.length ++ area, rest) := by
  have hb := isChannelByte_stun m.method m.cls
  have hc : cookieBytes = be32 stunMagicCookie := rfl
  constructor
  · simp only [hdrL, be16, List.cons_append, List.nil_append, tcpWire, hb]; simp
  · simp only [hdrL, be16, hc, be32, List.cons_append, List.nil_append, List.append_assoc, tcpNext, hb]
    rw [rd16_be16 hlen]
    have h16 : (UInt8.ofNat (stunMagicCookie / 16777216) :: UInt8.ofNat (stunMagicCookie / 65536) ::
        UInt8.ofNat (stunMagicCookie / 256) :: UInt8.ofNat stunMagicCookie :: (m.tx ++ area)).length = 16 + area.length := by
      simp [htx]; omega
    have e : (UInt8.ofNat (stunMagicCookie / 16777216) :: UInt8.ofNat (stunMagicCookie / 65536) ::
        UInt8.ofNat (stunMagicCookie / 256) :: UInt8.ofNat stunMagicCookie :: (m.tx ++ (area ++ rest))) =
        (UInt8.ofNat (stunMagicCookie / 16777216) :: UInt8.ofNat (stunMagicCookie / 65536) ::
        UInt8.ofNat (stunMagicCookie / 256) :: UInt8.ofNat stunMagicCookie :: (m.tx ++ area)) ++ rest := by simp
    rw [e, take_append_len h16, drop_append_len h16]
    simp [htx]
    omega
end RtcModel.Turn
