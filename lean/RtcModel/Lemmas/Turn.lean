/-
Helper lemmas about the TURN model (`RtcModel/Turn.lean`). Core Lean only.
-/
import RtcModel.Turn
import RtcModel.Lemmas.StunRfc
namespace RtcModel.Turn
open RtcModel.Stun RtcModel.StunRfc RtcModel.C16Bytes RtcModel.Generated

theorem classifyRx_channelData (ch : Nat) (data : Bytes) (h1 : turnRxChannelLo ≤ ch) (h2 : ch ≤ turnRxChannelHi)
    (hd : data.length < 65536) : classifyRx (channelData ch data) = .chan ch data := by
  simp only [turnRxChannelLo_val, turnRxChannelHi_val] at h1 h2
  have hch : ch < 65536 := by omega
  have : chanCase (channelData ch data) = some (.chan ch data) := by
    simp only [channelData, be16, List.cons_append, List.nil_append, chanCase]
    rw [rd16_be16 hch, rd16_be16 hd]
    simp [h1, h2]
  simp [classifyRx, this]

theorem nextChannel_range (n : Nat) (h1 : turnRxChannelLo ≤ n) (h2 : n ≤ turnRxChannelHi) :
    (nextChannel n).1 = n ∧ turnRxChannelLo ≤ (nextChannel n).2 ∧ (nextChannel n).2 ≤ turnRxChannelHi := by
  simp only [nextChannel, turnChannelLast_val, turnChannelWrapTo_val, turnRxChannelLo_val, turnRxChannelHi_val] at *
  by_cases h : n ≥ 32767 <;> simp [h] <;> omega

/-- a STUN message (first byte < 0x40) is never taken for ChannelData -/
theorem classifyRx_stun (m : Msg) (area : Bytes) :
    classifyRx (hdrL m area.length ++ area) = stunCase (hdrL m area.length ++ area) := by
  have hb : ¬ (turnRxChannelLo ≤ (encMethodBits m.method ||| encClassBits m.cls)) := by
    cases m.method <;> cases m.cls <;> decide
  simp only [turnRxChannelLo_val] at hb
  have hlt := typeBits_lt m.method m.cls
  have : chanCase (hdrL m area.length ++ area) = none := by
    simp only [hdrL, be16, List.cons_append, List.nil_append, chanCase]
    rw [rd16_be16 hlt]
    simp [hb]
  simp [classifyRx, this]


theorem classifyRx_encode (P : Prims) (m : Msg) (key : Option Bytes) (fp : Bool) (hm : m.Wf) :
    classifyRx (encode P m key fp) = stunCase (encode P m key fp) := by
  rw [encode_eq_flat P m key fp hm]; exact classifyRx_stun m _

end RtcModel.Turn
