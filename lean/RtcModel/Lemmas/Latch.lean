/- Frame (field) lemmas for the pieces of `Latch.receive`. -/
import RtcModel.Latch
namespace RtcModel.Latch

section adopt
variable (s : St) (a : Addr)
@[simp] theorem adopt_rtcpRemote : (adopt s a).rtcpRemote = s.rtcpRemote := by unfold adopt; split <;> rfl
@[simp] theorem adopt_latchOn : (adopt s a).latchOn = s.latchOn := by unfold adopt; split <;> rfl
@[simp] theorem adopt_rtpLatched : (adopt s a).rtpLatched = s.rtpLatched := by unfold adopt; split <;> rfl
@[simp] theorem adopt_rtcpLatched : (adopt s a).rtcpLatched = s.rtcpLatched := by unfold adopt; split <;> rfl
@[simp] theorem adopt_expected : (adopt s a).expected = s.expected := by unfold adopt; split <;> rfl
@[simp] theorem adopt_maxPackets : (adopt s a).maxPackets = s.maxPackets := by unfold adopt; split <;> rfl
@[simp] theorem adopt_prob : (adopt s a).prob = s.prob := by unfold adopt; split <;> rfl
@[simp] theorem adopt_tcp : (adopt s a).tcp = s.tcp := by unfold adopt; split <;> rfl
theorem adopt_remote : (adopt s a).remote = s.remote ∨ (adopt s a).remote = a := by
  unfold adopt; split <;> simp
theorem adopt_udp (hu : s.tcp = false) (hp : s.remote.port ≠ 0) : adopt s a = s := by
  unfold adopt; simp [hu, hp]
end adopt

section rtcpLearn
variable (s : St) (a : Addr)
@[simp] theorem rtcpLearn_remote : (rtcpLearn s a).remote = s.remote := by
  unfold rtcpLearn; split <;> (try split) <;> (try split) <;> rfl
@[simp] theorem rtcpLearn_latchOn : (rtcpLearn s a).latchOn = s.latchOn := by
  unfold rtcpLearn; split <;> (try split) <;> (try split) <;> rfl
@[simp] theorem rtcpLearn_rtpLatched : (rtcpLearn s a).rtpLatched = s.rtpLatched := by
  unfold rtcpLearn; split <;> (try split) <;> (try split) <;> rfl
@[simp] theorem rtcpLearn_expected : (rtcpLearn s a).expected = s.expected := by
  unfold rtcpLearn; split <;> (try split) <;> (try split) <;> rfl
@[simp] theorem rtcpLearn_maxPackets : (rtcpLearn s a).maxPackets = s.maxPackets := by
  unfold rtcpLearn; split <;> (try split) <;> (try split) <;> rfl
@[simp] theorem rtcpLearn_prob : (rtcpLearn s a).prob = s.prob := by
  unfold rtcpLearn; split <;> (try split) <;> (try split) <;> rfl
@[simp] theorem rtcpLearn_tcp : (rtcpLearn s a).tcp = s.tcp := by
  unfold rtcpLearn; split <;> (try split) <;> (try split) <;> rfl
/-- the RTCP destination changes only from unlatched to latched, and then to the packet source -/
theorem rtcpLearn_change (h : (rtcpLearn s a).rtcpRemote ≠ s.rtcpRemote) :
    s.rtcpLatched = false ∧ (rtcpLearn s a).rtcpLatched = true ∧ (rtcpLearn s a).rtcpRemote = some a := by
  unfold rtcpLearn at h ⊢
  split at h <;> (try split at h) <;> (try split at h) <;> simp_all
theorem rtcpLearn_latched (h : s.rtcpLatched = true) : rtcpLearn s a = s := by
  unfold rtcpLearn; split <;> (try split) <;> simp_all
end rtcpLearn

section moveTo
variable (s : St) (cur a : Addr)
@[simp] theorem moveTo_rtcpRemote : (moveTo s cur a).rtcpRemote = s.rtcpRemote := by unfold moveTo; split <;> rfl
@[simp] theorem moveTo_latchOn : (moveTo s cur a).latchOn = s.latchOn := by unfold moveTo; split <;> rfl
@[simp] theorem moveTo_rtpLatched : (moveTo s cur a).rtpLatched = s.rtpLatched := by unfold moveTo; split <;> rfl
@[simp] theorem moveTo_rtcpLatched : (moveTo s cur a).rtcpLatched = s.rtcpLatched := by unfold moveTo; split <;> rfl
@[simp] theorem moveTo_expected : (moveTo s cur a).expected = s.expected := by unfold moveTo; split <;> rfl
@[simp] theorem moveTo_maxPackets : (moveTo s cur a).maxPackets = s.maxPackets := by unfold moveTo; split <;> rfl
@[simp] theorem moveTo_prob : (moveTo s cur a).prob = s.prob := by unfold moveTo; split <;> rfl
@[simp] theorem moveTo_tcp : (moveTo s cur a).tcp = s.tcp := by unfold moveTo; split <;> rfl
/-- after the probation move the destination is the packet source whenever the state's
destination was either the stale copy or already the source -/
theorem moveTo_remote (h : s.remote = cur ∨ s.remote = a) : (moveTo s cur a).remote = a := by
  unfold moveTo; split <;> simp_all
end moveTo

section commitTo
variable (s : St) (a w : Addr)
@[simp] theorem commitTo_rtcpRemote : (commitTo s a w).rtcpRemote = s.rtcpRemote := by unfold commitTo; split <;> rfl
@[simp] theorem commitTo_latchOn : (commitTo s a w).latchOn = s.latchOn := by unfold commitTo; split <;> rfl
@[simp] theorem commitTo_rtpLatched : (commitTo s a w).rtpLatched = s.rtpLatched := by unfold commitTo; split <;> rfl
@[simp] theorem commitTo_rtcpLatched : (commitTo s a w).rtcpLatched = s.rtcpLatched := by unfold commitTo; split <;> rfl
@[simp] theorem commitTo_expected : (commitTo s a w).expected = s.expected := by unfold commitTo; split <;> rfl
@[simp] theorem commitTo_maxPackets : (commitTo s a w).maxPackets = s.maxPackets := by unfold commitTo; split <;> rfl
@[simp] theorem commitTo_prob : (commitTo s a w).prob = s.prob := by unfold commitTo; split <;> rfl
@[simp] theorem commitTo_tcp : (commitTo s a w).tcp = s.tcp := by unfold commitTo; split <;> rfl
theorem commitTo_remote (h : s.remote = a) : (commitTo s a w).remote = w := by
  unfold commitTo; split <;> simp_all
end commitTo

section rtpLatch
variable (s : St) (cur a : Addr) (ssrc seq ts : Nat) (m : Bool)
@[simp] theorem rtpLatch_rtcpRemote : (rtpLatch s cur a ssrc seq ts m).rtcpRemote = s.rtcpRemote := by
  unfold rtpLatch; split <;> (try split) <;> (try dsimp only) <;> (try split) <;> simp
@[simp] theorem rtpLatch_rtcpLatched : (rtpLatch s cur a ssrc seq ts m).rtcpLatched = s.rtcpLatched := by
  unfold rtpLatch; split <;> (try split) <;> (try dsimp only) <;> (try split) <;> simp
@[simp] theorem rtpLatch_latchOn : (rtpLatch s cur a ssrc seq ts m).latchOn = s.latchOn := by
  unfold rtpLatch; split <;> (try split) <;> (try dsimp only) <;> (try split) <;> simp
@[simp] theorem rtpLatch_expected : (rtpLatch s cur a ssrc seq ts m).expected = s.expected := by
  unfold rtpLatch; split <;> (try split) <;> (try dsimp only) <;> (try split) <;> simp
@[simp] theorem rtpLatch_maxPackets : (rtpLatch s cur a ssrc seq ts m).maxPackets = s.maxPackets := by
  unfold rtpLatch; split <;> (try split) <;> (try dsimp only) <;> (try split) <;> simp
@[simp] theorem rtpLatch_tcp : (rtpLatch s cur a ssrc seq ts m).tcp = s.tcp := by
  unfold rtpLatch; split <;> (try split) <;> (try dsimp only) <;> (try split) <;> simp
theorem rtpLatch_latched (h : s.rtpLatched = true) : rtpLatch s cur a ssrc seq ts m = s := by
  unfold rtpLatch; simp [h]
theorem rtpLatch_off (h : s.latchOn = false) : rtpLatch s cur a ssrc seq ts m = s := by
  unfold rtpLatch; simp [h]
end rtpLatch

end RtcModel.Latch

namespace RtcModel.Latch

/-! ### candidate table and winner -/

theorem observe_ne_nil (cs : List Cand) (a : Addr) (seq ts : Nat) (m : Bool) : observe cs a seq ts m ≠ [] := by
  induction cs with
  | nil => simp [observe]
  | cons c rest ih => unfold observe; split <;> simp

theorem observe_addr_mem (cs : List Cand) (a : Addr) (seq ts : Nat) (m : Bool) (c : Cand)
    (h : c ∈ observe cs a seq ts m) : c.addr = a ∨ ∃ c' ∈ cs, c'.addr = c.addr := by
  induction cs with
  | nil => simp [observe, newCand] at h; left; simp [h]
  | cons d rest ih =>
    unfold observe at h
    split at h
    · rename_i hd
      simp at h
      rcases h with h | h
      · left; simp [h, updCand, hd]
      · right; exact ⟨c, by simp [h], rfl⟩
    · simp at h
      rcases h with h | h
      · right; exact ⟨d, by simp, by simp [h]⟩
      · rcases ih h with h' | ⟨c', hc', he⟩
        · left; exact h'
        · right; exact ⟨c', by simp [hc'], he⟩

theorem minByFirstSeq_mem (cs : List Cand) (c : Cand) (h : minByFirstSeq cs = some c) : c ∈ cs := by
  induction cs generalizing c with
  | nil => simp [minByFirstSeq] at h
  | cons d rest ih =>
    unfold minByFirstSeq at h
    split at h
    · simp at h; simp [h]
    · rename_i m hm
      split at h <;> simp at h
      · subst h; simp [ih _ hm]
      · simp [h]

theorem minByFirstSeq_le (cs : List Cand) (c : Cand) (h : minByFirstSeq cs = some c) :
    ∀ d ∈ cs, c.firstSeq ≤ d.firstSeq := by
  induction cs generalizing c with
  | nil => simp
  | cons d rest ih =>
    unfold minByFirstSeq at h
    split at h
    · rename_i hn
      simp at h; subst h
      cases rest with
      | nil => simp
      | cons e r => unfold minByFirstSeq at hn; split at hn <;> (try split at hn) <;> simp at hn
    · rename_i m hm
      have ihm := ih m hm
      split at h <;> simp at h <;> subst h
      · rename_i hlt; intro x hx; simp at hx; rcases hx with hx | hx
        · subst hx; omega
        · exact ihm x hx
      · rename_i hlt; intro x hx; simp at hx; rcases hx with hx | hx
        · subst hx; omega
        · have := ihm x hx; omega

theorem minByFirstSeq_none (cs : List Cand) (h : minByFirstSeq cs = none) : cs = [] := by
  cases cs with
  | nil => rfl
  | cons d rest => unfold minByFirstSeq at h; split at h <;> (try split at h) <;> simp at h

theorem maxByRule3_mem (cs : List Cand) (c : Cand) (h : maxByRule3 cs = some c) : c ∈ cs := by
  induction cs generalizing c with
  | nil => simp [maxByRule3] at h
  | cons d rest ih =>
    unfold maxByRule3 at h
    split at h
    · simp at h; simp [h]
    · rename_i m hm
      split at h <;> simp at h
      · simp [h]
      · subst h; simp [ih _ hm]

theorem maxByRule3_isSome (cs : List Cand) (h : cs ≠ []) : (maxByRule3 cs).isSome := by
  cases cs with
  | nil => exact absurd rfl h
  | cons d rest => unfold maxByRule3; split <;> (try split) <;> simp

/-- rule 3 winner has the (weakly) largest packet count -/
theorem maxByRule3_ge (cs : List Cand) (c : Cand) (h : maxByRule3 cs = some c) :
    ∀ d ∈ cs, d.packetCount ≤ c.packetCount := by
  induction cs generalizing c with
  | nil => simp
  | cons d rest ih =>
    unfold maxByRule3 at h
    split at h
    · rename_i hn
      simp at h; subst h
      cases rest with
      | nil => simp
      | cons e r => exact absurd (maxByRule3_isSome (e :: r) (by simp)) (by simp [hn])
    · rename_i m hm
      have ihm := ih m hm
      split at h <;> simp at h <;> subst h
      · rename_i hgt
        simp [rule3Gt] at hgt
        intro x hx; simp at hx; rcases hx with hx | hx
        · subst hx; omega
        · have := ihm x hx; omega
      · rename_i hgt
        simp [rule3Gt] at hgt
        intro x hx; simp at hx; rcases hx with hx | hx
        · subst hx; omega
        · exact ihm x hx

theorem winner_mem (p : Prob) (w : Addr) (h : winner p = some w) : ∃ c ∈ p.cands, c.addr = w := by
  unfold winner at h
  split at h
  · rename_i mw hmw
    simp at h
    have := minByFirstSeq_mem _ _ hmw
    simp at this
    exact ⟨mw, this.1, h⟩
  · split at h
    · simp at h
      obtain ⟨c, hc, he⟩ := h
      exact ⟨c, maxByRule3_mem _ _ hc, he⟩
    · split at h
      · simp at h
        obtain ⟨c, hc, he⟩ := h
        exact ⟨c, List.mem_of_find?_eq_some hc, he⟩
      · simp at h

/-- at or past the probation limit a non-empty table always yields a winner -/
theorem winner_isSome_of_limit (p : Prob) (hne : p.cands ≠ []) (hlim : p.total ≥ p.max) :
    (winner p).isSome := by
  unfold winner
  split
  · simp
  · simp [hlim]
    have := maxByRule3_isSome p.cands hne
    cases h : maxByRule3 p.cands <;> simp_all

theorem receive_latched_mono (s : St) (a : Addr) (k : Kind) (h : s.rtpLatched = true) :
    (receive s a k).rtpLatched = true := by
  cases k <;> simp [receive, h, rtpLatch_latched]

end RtcModel.Latch
