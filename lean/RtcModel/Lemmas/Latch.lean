/- Frame (field) lemmas for the pieces of `Latch.receive`. -/
import RtcModel.Latch
namespace RtcModel.Latch

section adopt
variable (s : St) (a : Addr)
@[simp] theorem adopt_rtcpRemote : (adopt s a).rtcpRemote = s.rtcpRemote := by unfold adopt; split <;> rfl
@[simp] theorem adopt_latchOn : (adopt s a).latchOn = s.latchOn := by unfold adopt; split <;> rfl
@[simp] theorem adopt_rtpLatched : (adopt s a).rtpLatched = s.rtpLatched := by unfold adopt; split <;> rfl
@[simp] theorem adopt_rtcpLatched : (adopt s a).rtcpLatched = s.rtcpLatched := by unfold adopt; split <;> rfl
@[simp] theorem adopt_expected : (adopt s a).expected = s.expected := by unfold adopt; split <;> rfl
@[simp] theorem adopt_maxPackets : (adopt s a).maxPackets = s.maxPackets := by unfold adopt; split <;> rfl
@[simp] theorem adopt_prob : (adopt s a).prob = s.prob := by unfold adopt; split <;> rfl
@[simp] theorem adopt_tcp : (adopt s a).tcp = s.tcp := by unfold adopt; split <;> rfl
theorem adopt_remote : (adopt s a).remote = s.remote ∨ (adopt s a).remote = a := by
  unfold adopt; split <;> simp
theorem adopt_udp (hu : s.tcp = false) (hp : s.remote.port ≠ 0) : adopt s a = s := by
  unfold adopt; simp [hu, hp]
/-- with latching enabled the top-of-`receive` adoption is skipped altogether -/
theorem adopt_on (h : s.latchOn = true) : adopt s a = s := by
  unfold adopt; simp [h]
end adopt

section rtcpLearn
variable (s : St) (a : Addr)
@[simp] theorem rtcpLearn_remote : (rtcpLearn s a).remote = s.remote := by
  unfold rtcpLearn; split <;> (try split) <;> (try split) <;> rfl
@[simp] theorem rtcpLearn_latchOn : (rtcpLearn s a).latchOn = s.latchOn := by
  unfold rtcpLearn; split <;> (try split) <;> (try split) <;> rfl
@[simp] theorem rtcpLearn_rtpLatched : (rtcpLearn s a).rtpLatched = s.rtpLatched := by
  unfold rtcpLearn; split <;> (try split) <;> (try split) <;> rfl
@[simp] theorem rtcpLearn_expected : (rtcpLearn s a).expected = s.expected := by
  unfold rtcpLearn; split <;> (try split) <;> (try split) <;> rfl
@[simp] theorem rtcpLearn_maxPackets : (rtcpLearn s a).maxPackets = s.maxPackets := by
  unfold rtcpLearn; split <;> (try split) <;> (try split) <;> rfl
@[simp] theorem rtcpLearn_prob : (rtcpLearn s a).prob = s.prob := by
  unfold rtcpLearn; split <;> (try split) <;> (try split) <;> rfl
@[simp] theorem rtcpLearn_tcp : (rtcpLearn s a).tcp = s.tcp := by
  unfold rtcpLearn; split <;> (try split) <;> (try split) <;> rfl
/-- the RTCP destination changes only from unlatched to latched, and then to the packet source -/
theorem rtcpLearn_change (h : (rtcpLearn s a).rtcpRemote ≠ s.rtcpRemote) :
    s.rtcpLatched = false ∧ (rtcpLearn s a).rtcpLatched = true ∧ (rtcpLearn s a).rtcpRemote = some a := by
  unfold rtcpLearn at h ⊢
  split at h <;> (try split at h) <;> (try split at h) <;> simp_all
theorem rtcpLearn_latched (h : s.rtcpLatched = true) : rtcpLearn s a = s := by
  unfold rtcpLearn; split <;> (try split) <;> simp_all
end rtcpLearn

section moveTo
variable (s : St) (cur a : Addr)
@[simp] theorem moveTo_rtcpRemote : (moveTo s cur a).rtcpRemote = s.rtcpRemote := by unfold moveTo; split <;> rfl
@[simp] theorem moveTo_latchOn : (moveTo s cur a).latchOn = s.latchOn := by unfold moveTo; split <;> rfl
@[simp] theorem moveTo_rtpLatched : (moveTo s cur a).rtpLatched = s.rtpLatched := by unfold moveTo; split <;> rfl
@[simp] theorem moveTo_rtcpLatched : (moveTo s cur a).rtcpLatched = s.rtcpLatched := by unfold moveTo; split <;> rfl
@[simp] theorem moveTo_expected : (moveTo s cur a).expected = s.expected := by unfold moveTo; split <;> rfl
@[simp] theorem moveTo_maxPackets : (moveTo s cur a).maxPackets = s.maxPackets := by unfold moveTo; split <;> rfl
@[simp] theorem moveTo_prob : (moveTo s cur a).prob = s.prob := by unfold moveTo; split <;> rfl
@[simp] theorem moveTo_tcp : (moveTo s cur a).tcp = s.tcp := by unfold moveTo; split <;> rfl
/-- after the probation move the destination is the packet source whenever the state's
destination was either the stale copy or already the source -/
theorem moveTo_remote (h : s.remote = cur ∨ s.remote = a) : (moveTo s cur a).remote = a := by
  unfold moveTo; split <;> simp_all
end moveTo

section commitTo
variable (s : St) (a w : Addr)
@[simp] theorem commitTo_rtcpRemote : (commitTo s a w).rtcpRemote = s.rtcpRemote := by unfold commitTo; split <;> rfl
@[simp] theorem commitTo_latchOn : (commitTo s a w).latchOn = s.latchOn := by unfold commitTo; split <;> rfl
@[simp] theorem commitTo_rtpLatched : (commitTo s a w).rtpLatched = s.rtpLatched := by unfold commitTo; split <;> rfl
@[simp] theorem commitTo_rtcpLatched : (commitTo s a w).rtcpLatched = s.rtcpLatched := by unfold commitTo; split <;> rfl
@[simp] theorem commitTo_expected : (commitTo s a w).expected = s.expected := by unfold commitTo; split <;> rfl
@[simp] theorem commitTo_maxPackets : (commitTo s a w).maxPackets = s.maxPackets := by unfold commitTo; split <;> rfl
@[simp] theorem commitTo_prob : (commitTo s a w).prob = s.prob := by unfold commitTo; split <;> rfl
@[simp] theorem commitTo_tcp : (commitTo s a w).tcp = s.tcp := by unfold commitTo; split <;> rfl
theorem commitTo_remote (h : s.remote = a) : (commitTo s a w).remote = w := by
  unfold commitTo; split <;> simp_all
end commitTo

section rtpLatch
variable (s : St) (cur a : Addr) (ssrc seq ts : Nat) (m : Bool)
@[simp] theorem rtpLatch_rtcpRemote : (rtpLatch s cur a ssrc seq ts m).rtcpRemote = s.rtcpRemote := by
  unfold rtpLatch; split <;> (try split) <;> (try dsimp only) <;> (try split) <;> simp
@[simp] theorem rtpLatch_rtcpLatched : (rtpLatch s cur a ssrc seq ts m).rtcpLatched = s.rtcpLatched := by
  unfold rtpLatch; split <;> (try split) <;> (try dsimp only) <;> (try split) <;> simp
@[simp] theorem rtpLatch_latchOn : (rtpLatch s cur a ssrc seq ts m).latchOn = s.latchOn := by
  unfold rtpLatch; split <;> (try split) <;> (try dsimp only) <;> (try split) <;> simp
@[simp] theorem rtpLatch_expected : (rtpLatch s cur a ssrc seq ts m).expected = s.expected := by
  unfold rtpLatch; split <;> (try split) <;> (try dsimp only) <;> (try split) <;> simp
@[simp] theorem rtpLatch_maxPackets : (rtpLatch s cur a ssrc seq ts m).maxPackets = s.maxPackets := by
  unfold rtpLatch; split <;> (try split) <;> (try dsimp only) <;> (try split) <;> simp
@[simp] theorem rtpLatch_tcp : (rtpLatch s cur a ssrc seq ts m).tcp = s.tcp := by
  unfold rtpLatch; split <;> (try split) <;> (try dsimp only) <;> (try split) <;> simp
theorem rtpLatch_latched (h : s.rtpLatched = true) : rtpLatch s cur a ssrc seq ts m = s := by
  unfold rtpLatch; simp [h]
theorem rtpLatch_off (h : s.latchOn = false) : rtpLatch s cur a ssrc seq ts m = s := by
  unfold rtpLatch; simp [h]
end rtpLatch

section setExpectedSsrc
variable (s : St) (v : Nat)
@[simp] theorem setExpectedSsrc_remote : (setExpectedSsrc s v).remote = s.remote := by unfold setExpectedSsrc; split <;> rfl
@[simp] theorem setExpectedSsrc_rtcpRemote : (setExpectedSsrc s v).rtcpRemote = s.rtcpRemote := by unfold setExpectedSsrc; split <;> rfl
@[simp] theorem setExpectedSsrc_latchOn : (setExpectedSsrc s v).latchOn = s.latchOn := by unfold setExpectedSsrc; split <;> rfl
@[simp] theorem setExpectedSsrc_rtpLatched : (setExpectedSsrc s v).rtpLatched = s.rtpLatched := by unfold setExpectedSsrc; split <;> rfl
@[simp] theorem setExpectedSsrc_rtcpLatched : (setExpectedSsrc s v).rtcpLatched = s.rtcpLatched := by unfold setExpectedSsrc; split <;> rfl
@[simp] theorem setExpectedSsrc_maxPackets : (setExpectedSsrc s v).maxPackets = s.maxPackets := by unfold setExpectedSsrc; split <;> rfl
@[simp] theorem setExpectedSsrc_tcp : (setExpectedSsrc s v).tcp = s.tcp := by unfold setExpectedSsrc; split <;> rfl
@[simp] theorem setExpectedSsrc_expected : (setExpectedSsrc s v).expected = v := by
  unfold setExpectedSsrc; split <;> simp_all
theorem setExpectedSsrc_same (h : s.expected = v) : setExpectedSsrc s v = s := by
  unfold setExpectedSsrc; simp [h]
end setExpectedSsrc

section enableLatch
variable (s : St)
@[simp] theorem enableLatch_remote : (enableLatch s).remote = s.remote := by
  unfold enableLatch; split <;> (try split) <;> rfl
@[simp] theorem enableLatch_rtpLatched : (enableLatch s).rtpLatched = s.rtpLatched := by
  unfold enableLatch; split <;> (try split) <;> rfl
@[simp] theorem enableLatch_latchOn : (enableLatch s).latchOn = true := by
  unfold enableLatch; split <;> (try split) <;> rfl
@[simp] theorem enableLatch_expected : (enableLatch s).expected = s.expected := by
  unfold enableLatch; split <;> (try split) <;> rfl
@[simp] theorem enableLatch_rtcpRemote : (enableLatch s).rtcpRemote = s.rtcpRemote := by
  unfold enableLatch; split <;> (try split) <;> rfl
@[simp] theorem enableLatch_rtcpLatched : (enableLatch s).rtcpLatched = s.rtcpLatched := by
  unfold enableLatch; split <;> (try split) <;> rfl
end enableLatch

theorem totalMax_eq : totalMax = 255 := by decide
theorem countMax_eq : countMax = 255 := by decide
theorem consecMax_eq : consecMax = 255 := by decide
theorem seqMod_eq : seqMod = 65536 := by decide

end RtcModel.Latch

namespace RtcModel.Latch

/-! ### candidate table and winner -/

theorem observe_ne_nil (cs : List Cand) (a : Addr) (seq ts : Nat) (m : Bool) : observe cs a seq ts m ≠ [] := by
  induction cs with
  | nil => simp [observe]
  | cons c rest ih => unfold observe; split <;> simp

theorem observe_addr_mem (cs : List Cand) (a : Addr) (seq ts : Nat) (m : Bool) (c : Cand)
    (h : c ∈ observe cs a seq ts m) : c.addr = a ∨ ∃ c' ∈ cs, c'.addr = c.addr := by
  induction cs with
  | nil => simp [observe, newCand] at h; left; simp [h]
  | cons d rest ih =>
    unfold observe at h
    split at h
    · rename_i hd
      simp at h
      rcases h with h | h
      · left; simp [h, updCand, hd]
      · right; exact ⟨c, by simp [h], rfl⟩
    · simp at h
      rcases h with h | h
      · right; exact ⟨d, by simp, by simp [h]⟩
      · rcases ih h with h' | ⟨c', hc', he⟩
        · left; exact h'
        · right; exact ⟨c', by simp [hc'], he⟩

theorem minByFirstSeq_mem (cs : List Cand) (c : Cand) (h : minByFirstSeq cs = some c) : c ∈ cs := by
  induction cs generalizing c with
  | nil => simp [minByFirstSeq] at h
  | cons d rest ih =>
    unfold minByFirstSeq at h
    split at h
    · simp at h; simp [h]
    · rename_i m hm
      split at h <;> simp at h
      · subst h; simp [ih _ hm]
      · simp [h]

theorem minByFirstSeq_le (cs : List Cand) (c : Cand) (h : minByFirstSeq cs = some c) :
    ∀ d ∈ cs, c.firstSeq ≤ d.firstSeq := by
  induction cs generalizing c with
  | nil => simp
  | cons d rest ih =>
    unfold minByFirstSeq at h
    split at h
    · rename_i hn
      simp at h; subst h
      cases rest with
      | nil => simp
      | cons e r => unfold minByFirstSeq at hn; split at hn <;> (try split at hn) <;> simp at hn
    · rename_i m hm
      have ihm := ih m hm
      split at h <;> simp at h <;> subst h
      · rename_i hlt; intro x hx; simp at hx; rcases hx with hx | hx
        · subst hx; omega
        · exact ihm x hx
      · rename_i hlt; intro x hx; simp at hx; rcases hx with hx | hx
        · subst hx; omega
        · have := ihm x hx; omega

theorem minByFirstSeq_none (cs : List Cand) (h : minByFirstSeq cs = none) : cs = [] := by
  cases cs with
  | nil => rfl
  | cons d rest => unfold minByFirstSeq at h; split at h <;> (try split at h) <;> simp at h

theorem maxByRule3_mem (cs : List Cand) (c : Cand) (h : maxByRule3 cs = some c) : c ∈ cs := by
  induction cs generalizing c with
  | nil => simp [maxByRule3] at h
  | cons d rest ih =>
    unfold maxByRule3 at h
    split at h
    · simp at h; simp [h]
    · rename_i m hm
      split at h <;> simp at h
      · simp [h]
      · subst h; simp [ih _ hm]

theorem maxByRule3_isSome (cs : List Cand) (h : cs ≠ []) : (maxByRule3 cs).isSome := by
  cases cs with
  | nil => exact absurd rfl h
  | cons d rest => unfold maxByRule3; split <;> (try split) <;> simp

/-- rule 3 winner has the (weakly) largest packet count -/
theorem maxByRule3_ge (cs : List Cand) (c : Cand) (h : maxByRule3 cs = some c) :
    ∀ d ∈ cs, d.packetCount ≤ c.packetCount := by
  induction cs generalizing c with
  | nil => simp
  | cons d rest ih =>
    unfold maxByRule3 at h
    split at h
    · rename_i hn
      simp at h; subst h
      cases rest with
      | nil => simp
      | cons e r => exact absurd (maxByRule3_isSome (e :: r) (by simp)) (by simp [hn])
    · rename_i m hm
      have ihm := ih m hm
      split at h <;> simp at h <;> subst h
      · rename_i hgt
        simp [rule3Gt] at hgt
        intro x hx; simp at hx; rcases hx with hx | hx
        · subst hx; omega
        · have := ihm x hx; omega
      · rename_i hgt
        simp [rule3Gt] at hgt
        intro x hx; simp at hx; rcases hx with hx | hx
        · subst hx; omega
        · exact ihm x hx

/-- rule 3 winner: among the candidates with the same (largest) count it has the lowest `first_seq` -/
theorem maxByRule3_tie (cs : List Cand) (c : Cand) (h : maxByRule3 cs = some c) :
    ∀ d ∈ cs, d.packetCount = c.packetCount → c.firstSeq ≤ d.firstSeq := by
  induction cs generalizing c with
  | nil => simp
  | cons d rest ih =>
    unfold maxByRule3 at h
    split at h
    · rename_i hn
      simp at h; subst h
      cases rest with
      | nil => simp
      | cons e r => exact absurd (maxByRule3_isSome (e :: r) (by simp)) (by simp [hn])
    · rename_i m hm
      have ihm := ih m hm
      have hge := maxByRule3_ge rest m hm
      split at h <;> simp at h <;> subst h
      · rename_i hgt
        simp [rule3Gt] at hgt
        intro x hx hxe; simp at hx; rcases hx with hx | hx
        · subst hx; omega
        · have h1 := hge x hx
          rcases hgt with hgt | ⟨hgt1, hgt2⟩
          · omega
          · have := ihm x hx (by omega); omega
      · rename_i hgt
        simp [rule3Gt] at hgt
        intro x hx hxe; simp at hx; rcases hx with hx | hx
        · subst hx
          have := hgt.2 hxe
          omega
        · exact ihm x hx hxe

theorem runWinner_some (p : Prob) (c : Cand) (h : runWinner p = some c) :
    p.total ≥ Generated.probationRule2MinTotal ∧ c ∈ p.cands ∧ c.consecutive ≥ Generated.probationRule2MinConsecutive := by
  unfold runWinner at h
  split at h
  · rename_i ht
    exact ⟨ht, List.mem_of_find?_eq_some h, by simpa using List.find?_some h⟩
  · simp at h

theorem runWinner_none (p : Prob) (h : runWinner p = none) :
    p.total < Generated.probationRule2MinTotal ∨ ∀ c ∈ p.cands, c.consecutive < Generated.probationRule2MinConsecutive := by
  unfold runWinner at h
  split at h
  · right
    intro c hc
    have := List.find?_eq_none.mp h c hc
    simpa using this
  · left; omega

theorem winner_mem (p : Prob) (w : Addr) (h : winner p = some w) : ∃ c ∈ p.cands, c.addr = w := by
  unfold winner at h
  split at h
  · rename_i mw hmw
    simp at h
    have := minByFirstSeq_mem _ _ hmw
    simp at this
    exact ⟨mw, this.1, h⟩
  · split at h
    · rename_i rw hrw
      simp at h
      exact ⟨rw, (runWinner_some p rw hrw).2.1, h⟩
    · split at h
      · simp at h
        obtain ⟨c, hc, he⟩ := h
        exact ⟨c, maxByRule3_mem _ _ hc, he⟩
      · simp at h

/-- at or past the probation limit a non-empty table always yields a winner -/
theorem winner_isSome_of_limit (p : Prob) (hne : p.cands ≠ []) (hlim : p.total ≥ p.max) :
    (winner p).isSome := by
  unfold winner
  split
  · simp
  · split
    · simp
    · simp [hlim]
      have := maxByRule3_isSome p.cands hne
      cases h : maxByRule3 p.cands <;> simp_all

theorem receive_latched_mono (s : St) (a : Addr) (k : Kind) (h : s.rtpLatched = true) :
    (receive s a k).rtpLatched = true := by
  cases k <;> simp [receive, h, rtpLatch_latched]

end RtcModel.Latch

namespace RtcModel.Latch

/-! ### single-packet steps of the latching arm -/

/-- A packet that the latch logic treats as legitimate RTP for the current expectation:
RTP (not RTCP) of at least the minimum length carrying the expected SSRC, any SSRC when none is known. -/
def Legit (s : St) : Kind → Prop
  | .rtp ssrc _ _ _ => s.expected = 0 ∨ ssrc = s.expected
  | _ => False

instance (s : St) (k : Kind) : Decidable (Legit s k) := by
  cases k <;> simp [Legit] <;> infer_instance

theorem commit_step (s : St) (a : Addr) (ssrc seq ts : Nat) (m : Bool) (p : Prob) (w : Addr)
    (hon : s.latchOn = true) (hl : s.rtpLatched = false) (hp : s.prob = some p)
    (hleg : s.expected = 0 ∨ ssrc = s.expected)
    (hw : winner { p with total := satInc totalMax p.total, cands := observe p.cands a seq ts m } = some w) :
    (receive s a (.rtp ssrc seq ts m)).remote = w ∧
    (receive s a (.rtp ssrc seq ts m)).rtpLatched = true ∧
    (receive s a (.rtp ssrc seq ts m)).prob = none := by
  have hm : (moveTo (adopt s a) (adopt s a).remote a).remote = a := moveTo_remote _ _ _ (Or.inl rfl)
  simp only [receive, rtpLatch, adopt_latchOn, adopt_rtpLatched, adopt_expected, adopt_prob, hon, hl, hp]
  simp [hleg, hw, commitTo_remote _ _ _ hm]

theorem no_winner_step (s : St) (a : Addr) (ssrc seq ts : Nat) (m : Bool) (p : Prob)
    (hon : s.latchOn = true) (hl : s.rtpLatched = false) (hp : s.prob = some p)
    (hleg : s.expected = 0 ∨ ssrc = s.expected)
    (hw : winner { p with total := satInc totalMax p.total, cands := observe p.cands a seq ts m } = none) :
    (receive s a (.rtp ssrc seq ts m)).rtpLatched = false ∧
    (receive s a (.rtp ssrc seq ts m)).remote = a ∧
    (receive s a (.rtp ssrc seq ts m)).prob =
      some { p with total := satInc totalMax p.total, cands := observe p.cands a seq ts m } := by
  have hm : (moveTo (adopt s a) (adopt s a).remote a).remote = a := moveTo_remote _ _ _ (Or.inl rfl)
  simp only [receive, rtpLatch, adopt_latchOn, adopt_rtpLatched, adopt_expected, adopt_prob, hon, hl, hp]
  simp [hleg, hw, hl, hm]

theorem immediate_step (s : St) (a : Addr) (ssrc seq ts : Nat) (m : Bool)
    (hon : s.latchOn = true) (hl : s.rtpLatched = false) (hp : s.prob = none)
    (hleg : s.expected = 0 ∨ ssrc = s.expected) :
    (receive s a (.rtp ssrc seq ts m)).rtpLatched = true ∧ (receive s a (.rtp ssrc seq ts m)).remote = a := by
  have hm : (moveTo (adopt s a) (adopt s a).remote a).remote = a := moveTo_remote _ _ _ (Or.inl rfl)
  simp [receive, rtpLatch, hon, hl, hp, hleg, hm]

/-- One legitimate packet during probation either commits or advances the counter by one
(the saturating add does not saturate below the `u8` window limit). -/
theorem legit_packet_progress (s : St) (a : Addr) (ssrc seq ts : Nat) (m : Bool) (p : Prob)
    (hon : s.latchOn = true) (hl : s.rtpLatched = false) (hp : s.prob = some p)
    (hlt : p.total < p.max) (hmax : p.max ≤ 255)
    (hleg : s.expected = 0 ∨ ssrc = s.expected) :
    (receive s a (.rtp ssrc seq ts m)).rtpLatched = true ∨
    ((receive s a (.rtp ssrc seq ts m)).rtpLatched = false ∧ (receive s a (.rtp ssrc seq ts m)).latchOn = true ∧
      ∃ p', (receive s a (.rtp ssrc seq ts m)).prob = some p' ∧ p'.total = p.total + 1 ∧ p'.max = p.max ∧
        p'.total < p'.max) := by
  cases hw : winner { p with total := satInc totalMax p.total, cands := observe p.cands a seq ts m } with
  | some w => left; exact (commit_step s a ssrc seq ts m p w hon hl hp hleg hw).2.1
  | none =>
    right
    have h := no_winner_step s a ssrc seq ts m p hon hl hp hleg hw
    have hsat : satInc totalMax p.total = p.total + 1 := by
      simp [satInc, totalMax_eq]; omega
    refine ⟨h.1, by simp [receive, hon], _, h.2.2, hsat, rfl, ?_⟩
    -- no winner although the table is non-empty ⇒ still below the limit
    have hne := observe_ne_nil p.cands a seq ts m
    have : ¬ (satInc totalMax p.total ≥ p.max) := by
      intro hge
      have := winner_isSome_of_limit
        { p with total := satInc totalMax p.total, cands := observe p.cands a seq ts m } hne hge
      simp [hw] at this
    simp only [hsat] at this ⊢; omega

/-- A packet that is not legitimate RTP leaves the probation state and latch flags alone. -/
theorem nonlegit_frame (s : St) (a : Addr) (k : Kind) (h : ¬ Legit s k) :
    (receive s a k).prob = s.prob ∧ (receive s a k).rtpLatched = s.rtpLatched ∧
    (receive s a k).latchOn = s.latchOn := by
  cases k <;> simp [receive]
  rename_i ssrc seq ts m
  simp [Legit] at h
  simp [rtpLatch, h]

/-! ### a signaling reset clears the table -/

/-- `reset_latch` leaves either no window or a FRESH one: no candidates, no packets counted, the
configured size -/
theorem resetLatch_fresh (s : St) (p : Prob) (h : (resetLatch s).prob = some p) :
    p.cands = [] ∧ p.total = 0 ∧ p.max = s.maxPackets := by
  simp only [resetLatch, freshProb] at h
  split at h <;> simp at h
  subst h; simp

theorem setFromSignaling_fresh (s : St) (a : Addr) (p : Prob) (h : (setFromSignaling s a).prob = some p) :
    p.cands = [] ∧ p.total = 0 ∧ p.max = s.maxPackets :=
  resetLatch_fresh s p (by simpa [setFromSignaling] using h)

/-- a changed SSRC expectation empties the table and the packet count (window size kept) -/
theorem setExpectedSsrc_fresh (s : St) (v : Nat) (hv : s.expected ≠ v) (p : Prob)
    (h : (setExpectedSsrc s v).prob = some p) : p.cands = [] ∧ p.total = 0 := by
  simp only [setExpectedSsrc, hv, ne_eq, not_false_eq_true, ↓reduceIte] at h
  simp at h
  obtain ⟨q, _, rfl⟩ := h
  simp

end RtcModel.Latch
