/- Invariant of the interleaving machine `RtcModel.LatchRace` (helper lemmas for C18). -/
import RtcModel.LatchRace
import RtcModel.Lemmas.Latch

namespace RtcModel.LatchRace
open RtcModel.Latch

/-- the two facts about the critical sections that serializability rests on:
* every value of `rtp_latched` that is visible while the API section runs is its value before or
  after the whole section (the flag is written at most once per section);
* the receive section does nothing when it finds the latch set. -/
structure Facts (R A : Crit) : Prop where
  flag : ∀ t j, (A.mid t j).rtpLatched = t.rtpLatched ∨ (A.mid t j).rtpLatched = (A.full t).rtpLatched
  idle : ∀ t, t.rtpLatched = true → R.full t = t

/-- the unlocked fast-path test saw the latch set at a moment consistent with one of the two orders -/
def EarlyOK (A : Crit) (s0 : St) : Prop := s0.rtpLatched = true ∨ (A.full s0).rtpLatched = true

/-- every reachable configuration, in terms of the initial state `s0` -/
def Reach (R A : Crit) (s0 : St) (y : Sys) : Prop :=
  match y.r, y.a with
  | .start, .start | .start, .waiting | .waiting, .start | .waiting, .waiting => y.st = s0
  | .start, .inCrit j t | .waiting, .inCrit j t => t = s0 ∧ y.st = A.mid s0 j
  | .start, .finished | .waiting, .finished => y.st = A.full s0
  | .inCrit j t, .start | .inCrit j t, .waiting => t = s0 ∧ y.st = R.mid s0 j
  | .inCrit j t, .finished => t = A.full s0 ∧ y.st = R.mid t j
  | .inCrit .., .inCrit .. => False
  | .finished, .start | .finished, .waiting => y.st = R.full s0
  | .finished, .inCrit j t => t = R.full s0 ∧ y.st = A.mid t j
  | .finished, .finished => y.st = A.full (R.full s0) ∨ y.st = R.full (A.full s0)
  | .early, .start | .early, .waiting => y.st = s0 ∧ EarlyOK A s0
  | .early, .inCrit j t => t = s0 ∧ y.st = A.mid s0 j ∧ EarlyOK A s0
  | .early, .finished => y.st = A.full s0 ∧ EarlyOK A s0

theorem reach_init (R A : Crit) (s0 : St) : Reach R A s0 (Sys.init s0) := by
  simp [Reach, Sys.init]

theorem reach_stepR (R A : Crit) (f : Facts R A) (s0 : St) (y : Sys) (h : Reach R A s0 y) :
    Reach R A s0 (stepR R y) := by
  obtain ⟨st, r, a, rb, ab⟩ := y
  cases r <;> cases a <;> simp only [Reach] at h <;> simp only [stepR, aHolds]
  -- r = start: the unlocked read of the flag
  case start.start => subst h; split <;> simp_all [Reach, EarlyOK]
  case start.waiting => subst h; split <;> simp_all [Reach, EarlyOK]
  case start.inCrit j t =>
    obtain ⟨rfl, rfl⟩ := h
    split
    · rename_i hl
      have := f.flag t j
      simp only [Reach, EarlyOK]
      refine ⟨trivial, trivial, ?_⟩
      rcases this with h' | h'
      · left; rw [← h']; exact hl
      · right; rw [← h']; exact hl
    · simp [Reach]
  case start.finished => subst h; split <;> simp_all [Reach, EarlyOK]
  -- r = waiting: acquire the mutex unless the API thread holds it
  case waiting.start => subst h; simp only [Bool.false_eq_true, ↓reduceIte]; split <;> simp [Reach]
  case waiting.waiting => subst h; simp only [Bool.false_eq_true, ↓reduceIte]; split <;> simp [Reach]
  case waiting.inCrit j t => simpa [Reach] using h
  case waiting.finished =>
    subst h; simp only [Bool.false_eq_true, ↓reduceIte]; split <;> simp [Reach]
  -- r in its critical section
  case inCrit.start j t => obtain ⟨rfl, rfl⟩ := h; split <;> simp [Reach]
  case inCrit.waiting j t => obtain ⟨rfl, rfl⟩ := h; split <;> simp [Reach]
  case inCrit.finished j t => obtain ⟨rfl, rfl⟩ := h; split <;> simp [Reach]
  all_goals simpa [Reach] using h

theorem reach_stepA (R A : Crit) (s0 : St) (y : Sys) (h : Reach R A s0 y) :
    Reach R A s0 (stepA A y) := by
  obtain ⟨st, r, a, rb, ab⟩ := y
  cases r <;> cases a <;> simp only [Reach] at h <;> simp only [stepA, rHolds]
  case start.start => simpa [Reach] using h
  case start.waiting => subst h; simp only [Bool.false_eq_true, ↓reduceIte]; split <;> simp [Reach]
  case start.inCrit j t => obtain ⟨rfl, rfl⟩ := h; split <;> simp [Reach]
  case waiting.start => simpa [Reach] using h
  case waiting.waiting => subst h; simp only [Bool.false_eq_true, ↓reduceIte]; split <;> simp [Reach]
  case waiting.inCrit j t => obtain ⟨rfl, rfl⟩ := h; split <;> simp [Reach]
  case inCrit.start j t => simpa [Reach] using h
  case inCrit.waiting j t => simpa [Reach] using h
  case early.start => simpa [Reach] using h
  case early.waiting =>
    obtain ⟨rfl, he⟩ := h; simp only [Bool.false_eq_true, ↓reduceIte]; split <;> simp [Reach, he]
  case early.inCrit j t => obtain ⟨rfl, rfl, he⟩ := h; split <;> simp [Reach, he]
  case finished.start => simpa [Reach] using h
  case finished.waiting => subst h; simp only [Bool.false_eq_true, ↓reduceIte]; split <;> simp [Reach]
  case finished.inCrit j t => obtain ⟨rfl, rfl⟩ := h; split <;> simp [Reach]
  all_goals simpa [Reach] using h

/-- `Reach` does not look at the blocked flags -/
theorem reach_flags (R A : Crit) (s0 : St) (y y' : Sys) (h : Reach R A s0 y)
    (h1 : y'.st = y.st) (h2 : y'.r = y.r) (h3 : y'.a = y.a) : Reach R A s0 y' := by
  obtain ⟨st, r, a, rb, ab⟩ := y
  obtain ⟨st', r', a', rb', ab'⟩ := y'
  simp only at h1 h2 h3
  subst h1 h2 h3
  exact h

theorem reach_pickR (R A : Crit) (f : Facts R A) (s0 : St) (y : Sys) (h : Reach R A s0 y) :
    Reach R A s0 (pickR R A y) := by
  unfold pickR
  split
  · exact h
  · split
    · exact reach_flags R A s0 y _ h rfl rfl rfl
    · have h1 := reach_stepR R A f s0 y h
      simp only
      split
      · exact reach_flags R A s0 _ _ (reach_stepA R A s0 _ h1) rfl rfl rfl
      · exact h1

theorem reach_pickA (R A : Crit) (f : Facts R A) (s0 : St) (y : Sys) (h : Reach R A s0 y) :
    Reach R A s0 (pickA R A y) := by
  unfold pickA
  split
  · exact h
  · split
    · exact reach_flags R A s0 y _ h rfl rfl rfl
    · have h1 := reach_stepA R A s0 y h
      simp only
      split
      · exact reach_flags R A s0 _ _ (reach_stepR R A f s0 _ h1) rfl rfl rfl
      · exact h1

theorem reach_run (R A : Crit) (f : Facts R A) (s0 : St) (sched : List Bool) (y : Sys)
    (h : Reach R A s0 y) : Reach R A s0 (runSched R A y sched) := by
  induction sched generalizing y with
  | nil => exact h
  | cons b bs ih =>
    simp only [runSched]
    cases b
    · exact ih _ (by simpa using reach_pickA R A f s0 y h)
    · exact ih _ (by simpa using reach_pickR R A f s0 y h)

/-- both threads done ⇒ the shared state is one of the two serial results -/
theorem reach_done (R A : Crit) (f : Facts R A) (s0 : St) (y : Sys) (h : Reach R A s0 y)
    (hr : rDone y.r = true) (ha : aDone y.a = true) :
    y.st = A.full (R.full s0) ∨ y.st = R.full (A.full s0) := by
  obtain ⟨st, r, a, rb, ab⟩ := y
  cases r <;> cases a <;> simp [rDone, aDone] at hr ha <;> simp only [Reach] at h
  · obtain ⟨rfl, he⟩ := h
    rcases he with he | he
    · left; rw [f.idle s0 he]
    · right; rw [f.idle _ he]
  · exact h

/-! facts for the concrete sections -/

theorem facts_sig (a : Addr) (ssrc seq ts : Nat) (m : Bool) (x : Addr) :
    Facts (recvCrit a ssrc seq ts m) (sigCrit x) where
  flag t j := by right; simp only [sigCrit]; split <;> simp [flagsCleared, setFromSignaling, resetLatch]
  idle t h := by simp [recvCrit, rtpLatch_latched _ _ _ _ _ _ _ h]

theorem facts_reset (a : Addr) (ssrc seq ts : Nat) (m : Bool) :
    Facts (recvCrit a ssrc seq ts m) resetCrit where
  flag t j := by right; simp [resetCrit, flagsCleared, resetLatch]
  idle t h := by simp [recvCrit, rtpLatch_latched _ _ _ _ _ _ _ h]

theorem facts_pair (a : Addr) (ssrc seq ts : Nat) (m : Bool) (x : Addr) :
    Facts (recvCrit a ssrc seq ts m) (pairCrit x) where
  flag t j := by left; simp [pairCrit]
  idle t h := by simp [recvCrit, rtpLatch_latched _ _ _ _ _ _ _ h]

end RtcModel.LatchRace
