/- Helper lemmas: RTP header parse / write are mutually inverse (C04, C05). -/
import RtcModel.SrtpHeader
namespace RtcModel.Srtp
open RtcModel.C04 RtcModel.Generated

/-! ### CSRC list -/

theorem readU32s_spec : ∀ (n : Nat) (bs : Bytes), n * 4 ≤ bs.length →
    writeU32s (readU32s n bs).1 ++ (readU32s n bs).2 = bs ∧ (readU32s n bs).1.length = n ∧
    (∀ c ∈ (readU32s n bs).1, c < 4294967296)
  | 0, bs, _ => by
    cases bs with
    | nil => simp [readU32s, writeU32s]
    | cons a t =>
      cases t with
      | nil => simp [readU32s, writeU32s]
      | cons b t =>
        cases t with
        | nil => simp [readU32s, writeU32s]
        | cons c t =>
          cases t with
          | nil => simp [readU32s, writeU32s]
          | cons d t => simp [readU32s, writeU32s]
  | n + 1, bs, h => by
    rcases bs with _ | ⟨a, _ | ⟨b, _ | ⟨c, _ | ⟨d, rest⟩⟩⟩⟩
    · simp at h
    · simp at h; omega
    · simp at h; omega
    · simp at h; omega
    · have hr : n * 4 ≤ rest.length := by simp at h; omega
      obtain ⟨h1, h2, h3⟩ := readU32s_spec n rest hr
      simp only [readU32s]
      refine ⟨?_, by simp [h2], ?_⟩
      · simp only [writeU32s, List.flatMap_cons] at h1 ⊢
        rw [be32_dec32, List.append_assoc, h1]; rfl
      · intro x hx
        simp at hx
        rcases hx with hx | hx
        · subst hx; exact dec32_lt a b c d
        · exact h3 x hx

theorem writeU32s_length (vs : List Nat) : (writeU32s vs).length = vs.length * 4 := by
  induction vs with
  | nil => rfl
  | cons v vs ih => simp [writeU32s, List.flatMap_cons] at ih ⊢; omega

theorem readU32s_write (vs : List Nat) (rest : Bytes) (h : ∀ c ∈ vs, c < 4294967296) :
    readU32s vs.length (writeU32s vs ++ rest) = (vs, rest) := by
  induction vs with
  | nil =>
    simp only [List.length_nil, writeU32s, List.flatMap_nil, List.nil_append]
    cases rest with
    | nil => rfl
    | cons a t => cases t with
      | nil => rfl
      | cons b t => cases t with
        | nil => rfl
        | cons c t => cases t with
          | nil => rfl
          | cons d t => rfl
  | cons v vs ih =>
    have hv := h v (by simp)
    have ih' := ih (fun c hc => h c (by simp [hc]))
    simp only [writeU32s, List.flatMap_cons, List.length_cons] at ih' ⊢
    simp only [be32, List.cons_append, List.nil_append, readU32s, ih', dec32_be32 v hv]

/-! ### The two flag bytes (all 256 values) -/

set_option maxRecDepth 100000 in
theorem secondByte_all : ∀ n, n < 256 →
    ((UInt8.ofNat n &&& 0x7F) &&& 0x7F) ||| (if (UInt8.ofNat n &&& 0x80 != 0) = true then 0x80 else 0) =
      UInt8.ofNat n := by decide

theorem secondByte_id (b : UInt8) :
    ((b &&& 0x7F) &&& 0x7F) ||| (if (b &&& 0x80 != 0) = true then 0x80 else 0) = b := by
  simpa using secondByte_all b.toNat b.toNat_lt

set_option maxRecDepth 100000 in
theorem firstByte_all : ∀ n, n < 256 → (UInt8.ofNat n >>> 6).toNat = 2 →
    ((2 : UInt8) <<< 6) ||| (if (UInt8.ofNat n &&& 0x20 != 0) = true then 0x20 else 0) |||
      (if (UInt8.ofNat n &&& 0x10 != 0) = true then 0x10 else 0) |||
      UInt8.ofNat ((UInt8.ofNat n &&& 0x0F).toNat % 16) = UInt8.ofNat n := by decide

theorem firstByte_id (b : UInt8) (hv : (b >>> 6).toNat = 2) :
    ((2 : UInt8) <<< 6) ||| (if (b &&& 0x20 != 0) = true then 0x20 else 0) |||
      (if (b &&& 0x10 != 0) = true then 0x10 else 0) ||| UInt8.ofNat ((b &&& 0x0F).toNat % 16) = b := by
  have := firstByte_all b.toNat b.toNat_lt (by simpa using hv)
  simpa using this

set_option maxRecDepth 100000 in
theorem firstByte_fields_all : ∀ cc, cc < 16 → ∀ (p x : Bool),
    let b := ((2 : UInt8) <<< 6) ||| (if p then 0x20 else 0) ||| (if x then 0x10 else 0) ||| UInt8.ofNat (cc % 16)
    (b >>> 6).toNat = 2 ∧ (b &&& 0x0F).toNat = cc ∧ (b &&& 0x10 != 0) = x ∧ (b &&& 0x20 != 0) = p := by
  decide

set_option maxRecDepth 100000 in
theorem secondByte_fields_all : ∀ pt, pt < 128 → ∀ (m : Bool),
    let b := (UInt8.ofNat pt &&& 0x7F) ||| (if m then 0x80 else 0)
    (b &&& 0x80 != 0) = m ∧ b &&& 0x7F = UInt8.ofNat pt := by
  decide

/-! ### Extension block -/

theorem parseExt_write (x : Bool) (rest : Bytes) (e : Option Ext) (body : Bytes)
    (h : parseExt x rest = .ok (e, body)) :
    extBytes e ++ body = rest ∧ e.isSome = x := by
  unfold parseExt at h
  cases x with
  | false => simp at h; obtain ⟨rfl, rfl⟩ := h; simp [extBytes]
  | true =>
    simp only [if_true] at h
    match rest, h with
    | p0 :: p1 :: l0 :: l1 :: rest', h =>
      simp only at h
      split at h
      · simp at h
      · rename_i hlen
        simp only [Except.ok.injEq, Prod.mk.injEq] at h
        obtain ⟨rfl, rfl⟩ := h
        have hl : (List.take (dec16 l0 l1 * 4) rest').length = dec16 l0 l1 * 4 := by
          simp [List.length_take]; omega
        simp only [extBytes, hl, Nat.mul_div_cancel _ (by decide : 0 < 4), be16_dec16,
          List.append_assoc, List.take_append_drop, Option.isSome_some, and_true]
        rfl

/-! ### Whole header -/

/-- `write_to (parse raw)` reproduces exactly the bytes that were consumed. -/
theorem parseHdr_write (raw : Bytes) (h : Hdr) (p : Bool) (body : Bytes)
    (hp : parseHdr raw = .ok (h, p, body)) : writeHdr h p ++ body = raw := by
  rcases raw with _ | ⟨b0, _ | ⟨b1, _ | ⟨s0, _ | ⟨s1, _ | ⟨t0, _ | ⟨t1, _ | ⟨t2, _ | ⟨t3, _ | ⟨x0, _ | ⟨x1, _ | ⟨x2, _ | ⟨x3, rest⟩⟩⟩⟩⟩⟩⟩⟩⟩⟩⟩⟩
  case cons.cons.cons.cons.cons.cons.cons.cons.cons.cons.cons.cons =>
    unfold parseHdr at hp
    simp only at hp
    split at hp
    · simp at hp
    · rename_i hv
      split at hp
      · simp at hp
      · rename_i hlen
        have hcs := readU32s_spec (b0 &&& 0x0F).toNat rest (by omega)
        revert hp
        cases hr : readU32s (b0 &&& 0x0F).toNat rest with
        | mk csrcs rest1 =>
          rw [hr] at hcs
          simp only
          cases he : parseExt (b0 &&& 0x10 != 0) rest1 with
          | error e => simp
          | ok v =>
            obtain ⟨ext, body'⟩ := v
            simp only [Except.ok.injEq, Prod.mk.injEq]
            rintro ⟨rfl, rfl, rfl⟩
            have hx := parseExt_write _ _ _ _ he
            have hv' : (b0 >>> 6).toNat = 2 := by
              simp only [rtpVersion_val] at hv; omega
            simp only [writeHdr, firstByte, secondByte, rtpVersion_val, hx.2, hcs.2.1, byteOf]
            have h0 := firstByte_id b0 hv'
            have h1 := secondByte_id b1
            simp only [be16_dec16, be32_dec32] at *
            rw [show (UInt8.ofNat 2 : UInt8) = 2 from rfl, h0, h1]
            simp only [List.cons_append, List.nil_append, List.append_assoc, hx.1, hcs.1]
  all_goals (simp [parseHdr] at hp)

theorem writeHdr_length (h : Hdr) (p : Bool) : (writeHdr h p).length = encodedLen h := by
  cases he : h.ext <;>
    simp [writeHdr, encodedLen, he, extBytes, writeU32s_length] <;> omega

end RtcModel.Srtp

namespace RtcModel.Srtp
open RtcModel.C04 RtcModel.Generated

theorem parseExt_extBytes (e : Option Ext) (body : Bytes)
    (hp : ∀ x, e = some x → x.profile < 65536)
    (ha : ∀ x, e = some x → x.data.length % 4 = 0)
    (hl : ∀ x, e = some x → x.data.length / 4 < 65536) :
    parseExt e.isSome (extBytes e ++ body) = .ok (e, body) := by
  cases e with
  | none => simp [parseExt, extBytes]
  | some x =>
    have h1 := hp x rfl; have h2 := ha x rfl; have h3 := hl x rfl
    simp only [Option.isSome_some, parseExt, if_true, extBytes, be16, List.cons_append, List.nil_append,
      List.append_assoc]
    rw [dec16_be16 _ h1, dec16_be16 _ h3]
    have hlen : x.data.length / 4 * 4 = x.data.length := by omega
    rw [hlen]
    simp

theorem firstByte_fields (h : Hdr) (p : Bool) (hn : h.csrcs.length ≤ 15) :
    (firstByte h p >>> 6).toNat = 2 ∧ (firstByte h p &&& 0x0F).toNat = h.csrcs.length ∧
    (firstByte h p &&& 0x10 != 0) = h.ext.isSome ∧ (firstByte h p &&& 0x20 != 0) = p := by
  have := firstByte_fields_all h.csrcs.length (by omega) p h.ext.isSome
  simpa [firstByte, byteOf, rtpVersion_val] using this

theorem secondByte_fields (h : Hdr) (hpt : h.pt < 128) :
    (secondByte h &&& 0x80 != 0) = h.marker ∧ secondByte h &&& 0x7F = h.pt := by
  have hlt : h.pt.toNat < 128 := by simpa [UInt8.lt_iff_toNat_lt] using hpt
  have := secondByte_fields_all h.pt.toNat hlt h.marker
  simpa [secondByte] using this

/-- parsing what `write_to` produced returns the header, the padding bit and the body. -/
theorem parseHdr_writeHdr (h : Hdr) (p : Bool) (body : Bytes) (wf : h.WF) :
    parseHdr (writeHdr h p ++ body) = .ok (h, p, body) := by
  obtain ⟨f1, f2, f3, f4⟩ := firstByte_fields h p wf.ncsrc
  obtain ⟨g1, g2⟩ := secondByte_fields h wf.pt
  simp only [writeHdr, be16, be32, List.cons_append, List.nil_append, List.append_assoc, parseHdr]
  have hv : ¬ (firstByte h p >>> 6).toNat ≠ rtpVersion := by simp [f1]
  rw [if_neg hv]
  simp only [f2]
  have hlen : ¬ (writeU32s h.csrcs ++ (extBytes h.ext ++ body)).length < h.csrcs.length * 4 := by
    simp [writeU32s_length]
  rw [if_neg hlen, readU32s_write _ _ wf.csrcs]
  simp only [f3, parseExt_extBytes h.ext body wf.extProfile wf.extAligned wf.extLen, f4, g1, g2,
    dec16_be16 _ wf.seq, dec32_be32 _ wf.ts, dec32_be32 _ wf.ssrc]

end RtcModel.Srtp
