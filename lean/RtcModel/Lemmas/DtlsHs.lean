/- Helper lemmas for the DTLS endpoint model (C03 / C02 / C11). -/
import RtcModel.DtlsHs
import RtcModel.Lemmas.DtlsRecord
namespace RtcModel.DtlsHs
open RtcModel.Generated RtcModel.DtlsRecord

/-- frame facts every handler satisfies: role fixed, keys write-once, nothing is handed up -/
def Good (e : Ep) (r : R) : Prop :=
  r.ep.isClient = e.isClient ∧ (∀ k, e.ctx.keys = some k → r.ep.ctx.keys = some k) ∧ (∀ p, Out.deliver p ∉ r.out)

theorem sends_no_deliver (fl : List WRec) (p : Bytes) : Out.deliver p ∉ sends fl := by
  simp [sends]

/-! frame lemmas of the record/flight builders (generated pattern) -/
@[simp] theorem hsRecord_keys (c : Ctx) (raw : Bytes) (w : Bool) : (hsRecord c raw w).2.keys = c.keys := rfl
@[simp] theorem emitMsg_keys (c : Ctx) (t : Nat) (b : Bytes) (w : Bool) : (emitMsg c t b w).2.keys = c.keys := rfl
@[simp] theorem ccsRecord_keys (c : Ctx) : (ccsRecord c).2.keys = c.keys := rfl
@[simp] theorem serverFinalFlight_keys (C : Crypto) (c : Ctx) (raw : Bytes) : (serverFinalFlight C c raw).2.keys = c.keys := rfl
@[simp] theorem serverFlight_keys (L : Loc) (c : Ctx) : (serverFlight L c).2.keys = c.keys := rfl
@[simp] theorem hsRecord_peerCert (c : Ctx) (raw : Bytes) (w : Bool) : (hsRecord c raw w).2.peerCert = c.peerCert := rfl
@[simp] theorem emitMsg_peerCert (c : Ctx) (t : Nat) (b : Bytes) (w : Bool) : (emitMsg c t b w).2.peerCert = c.peerCert := rfl
@[simp] theorem ccsRecord_peerCert (c : Ctx) : (ccsRecord c).2.peerCert = c.peerCert := rfl
@[simp] theorem serverFinalFlight_peerCert (C : Crypto) (c : Ctx) (raw : Bytes) : (serverFinalFlight C c raw).2.peerCert = c.peerCert := rfl
@[simp] theorem clientFinalFlight_peerCert (C : Crypto) (c : Ctx) (k : Keys) : (clientFinalFlight C c k).2.peerCert = c.peerCert := rfl
@[simp] theorem serverFlight_peerCert (L : Loc) (c : Ctx) : (serverFlight L c).2.peerCert = c.peerCert := rfl
@[simp] theorem hsRecord_skeVerified (c : Ctx) (raw : Bytes) (w : Bool) : (hsRecord c raw w).2.skeVerified = c.skeVerified := rfl
@[simp] theorem emitMsg_skeVerified (c : Ctx) (t : Nat) (b : Bytes) (w : Bool) : (emitMsg c t b w).2.skeVerified = c.skeVerified := rfl
@[simp] theorem ccsRecord_skeVerified (c : Ctx) : (ccsRecord c).2.skeVerified = c.skeVerified := rfl
@[simp] theorem serverFinalFlight_skeVerified (C : Crypto) (c : Ctx) (raw : Bytes) : (serverFinalFlight C c raw).2.skeVerified = c.skeVerified := rfl
@[simp] theorem clientFinalFlight_skeVerified (C : Crypto) (c : Ctx) (k : Keys) : (clientFinalFlight C c k).2.skeVerified = c.skeVerified := rfl
@[simp] theorem serverFlight_skeVerified (L : Loc) (c : Ctx) : (serverFlight L c).2.skeVerified = c.skeVerified := rfl
@[simp] theorem hsRecord_peerPub (c : Ctx) (raw : Bytes) (w : Bool) : (hsRecord c raw w).2.peerPub = c.peerPub := rfl
@[simp] theorem emitMsg_peerPub (c : Ctx) (t : Nat) (b : Bytes) (w : Bool) : (emitMsg c t b w).2.peerPub = c.peerPub := rfl
@[simp] theorem ccsRecord_peerPub (c : Ctx) : (ccsRecord c).2.peerPub = c.peerPub := rfl
@[simp] theorem serverFinalFlight_peerPub (C : Crypto) (c : Ctx) (raw : Bytes) : (serverFinalFlight C c raw).2.peerPub = c.peerPub := rfl
@[simp] theorem clientFinalFlight_peerPub (C : Crypto) (c : Ctx) (k : Keys) : (clientFinalFlight C c k).2.peerPub = c.peerPub := rfl
@[simp] theorem serverFlight_peerPub (L : Loc) (c : Ctx) : (serverFlight L c).2.peerPub = c.peerPub := rfl
@[simp] theorem hsRecord_clientRandom (c : Ctx) (raw : Bytes) (w : Bool) : (hsRecord c raw w).2.clientRandom = c.clientRandom := rfl
@[simp] theorem emitMsg_clientRandom (c : Ctx) (t : Nat) (b : Bytes) (w : Bool) : (emitMsg c t b w).2.clientRandom = c.clientRandom := rfl
@[simp] theorem ccsRecord_clientRandom (c : Ctx) : (ccsRecord c).2.clientRandom = c.clientRandom := rfl
@[simp] theorem serverFinalFlight_clientRandom (C : Crypto) (c : Ctx) (raw : Bytes) : (serverFinalFlight C c raw).2.clientRandom = c.clientRandom := rfl
@[simp] theorem clientFinalFlight_clientRandom (C : Crypto) (c : Ctx) (k : Keys) : (clientFinalFlight C c k).2.clientRandom = c.clientRandom := rfl
@[simp] theorem serverFlight_clientRandom (L : Loc) (c : Ctx) : (serverFlight L c).2.clientRandom = c.clientRandom := rfl
@[simp] theorem hsRecord_serverRandom (c : Ctx) (raw : Bytes) (w : Bool) : (hsRecord c raw w).2.serverRandom = c.serverRandom := rfl
@[simp] theorem emitMsg_serverRandom (c : Ctx) (t : Nat) (b : Bytes) (w : Bool) : (emitMsg c t b w).2.serverRandom = c.serverRandom := rfl
@[simp] theorem ccsRecord_serverRandom (c : Ctx) : (ccsRecord c).2.serverRandom = c.serverRandom := rfl
@[simp] theorem serverFinalFlight_serverRandom (C : Crypto) (c : Ctx) (raw : Bytes) : (serverFinalFlight C c raw).2.serverRandom = c.serverRandom := rfl
@[simp] theorem clientFinalFlight_serverRandom (C : Crypto) (c : Ctx) (k : Keys) : (clientFinalFlight C c k).2.serverRandom = c.serverRandom := rfl
@[simp] theorem serverFlight_serverRandom (L : Loc) (c : Ctx) : (serverFlight L c).2.serverRandom = c.serverRandom := rfl
@[simp] theorem hsRecord_expectedFp (c : Ctx) (raw : Bytes) (w : Bool) : (hsRecord c raw w).2.expectedFp = c.expectedFp := rfl
@[simp] theorem emitMsg_expectedFp (c : Ctx) (t : Nat) (b : Bytes) (w : Bool) : (emitMsg c t b w).2.expectedFp = c.expectedFp := rfl
@[simp] theorem ccsRecord_expectedFp (c : Ctx) : (ccsRecord c).2.expectedFp = c.expectedFp := rfl
@[simp] theorem serverFinalFlight_expectedFp (C : Crypto) (c : Ctx) (raw : Bytes) : (serverFinalFlight C c raw).2.expectedFp = c.expectedFp := rfl
@[simp] theorem clientFinalFlight_expectedFp (C : Crypto) (c : Ctx) (k : Keys) : (clientFinalFlight C c k).2.expectedFp = c.expectedFp := rfl
@[simp] theorem serverFlight_expectedFp (L : Loc) (c : Ctx) : (serverFlight L c).2.expectedFp = c.expectedFp := rfl
@[simp] theorem hsRecord_ems (c : Ctx) (raw : Bytes) (w : Bool) : (hsRecord c raw w).2.ems = c.ems := rfl
@[simp] theorem emitMsg_ems (c : Ctx) (t : Nat) (b : Bytes) (w : Bool) : (emitMsg c t b w).2.ems = c.ems := rfl
@[simp] theorem ccsRecord_ems (c : Ctx) : (ccsRecord c).2.ems = c.ems := rfl
@[simp] theorem serverFinalFlight_ems (C : Crypto) (c : Ctx) (raw : Bytes) : (serverFinalFlight C c raw).2.ems = c.ems := rfl
@[simp] theorem clientFinalFlight_ems (C : Crypto) (c : Ctx) (k : Keys) : (clientFinalFlight C c k).2.ems = c.ems := rfl
@[simp] theorem serverFlight_ems (L : Loc) (c : Ctx) : (serverFlight L c).2.ems = c.ems := rfl
@[simp] theorem hsRecord_srtp (c : Ctx) (raw : Bytes) (w : Bool) : (hsRecord c raw w).2.srtp = c.srtp := rfl
@[simp] theorem emitMsg_srtp (c : Ctx) (t : Nat) (b : Bytes) (w : Bool) : (emitMsg c t b w).2.srtp = c.srtp := rfl
@[simp] theorem ccsRecord_srtp (c : Ctx) : (ccsRecord c).2.srtp = c.srtp := rfl
@[simp] theorem serverFinalFlight_srtp (C : Crypto) (c : Ctx) (raw : Bytes) : (serverFinalFlight C c raw).2.srtp = c.srtp := rfl
@[simp] theorem clientFinalFlight_srtp (C : Crypto) (c : Ctx) (k : Keys) : (clientFinalFlight C c k).2.srtp = c.srtp := rfl
@[simp] theorem serverFlight_srtp (L : Loc) (c : Ctx) : (serverFlight L c).2.srtp = c.srtp := rfl
@[simp] theorem hsRecord_localSecret (c : Ctx) (raw : Bytes) (w : Bool) : (hsRecord c raw w).2.localSecret = c.localSecret := rfl
@[simp] theorem emitMsg_localSecret (c : Ctx) (t : Nat) (b : Bytes) (w : Bool) : (emitMsg c t b w).2.localSecret = c.localSecret := rfl
@[simp] theorem ccsRecord_localSecret (c : Ctx) : (ccsRecord c).2.localSecret = c.localSecret := rfl
@[simp] theorem serverFinalFlight_localSecret (C : Crypto) (c : Ctx) (raw : Bytes) : (serverFinalFlight C c raw).2.localSecret = c.localSecret := rfl
@[simp] theorem clientFinalFlight_localSecret (C : Crypto) (c : Ctx) (k : Keys) : (clientFinalFlight C c k).2.localSecret = c.localSecret := rfl
@[simp] theorem serverFlight_localSecret (L : Loc) (c : Ctx) : (serverFlight L c).2.localSecret = c.localSecret := rfl
@[simp] theorem clientFinalFlight_keys (C : Crypto) (c : Ctx) (k : Keys) : (clientFinalFlight C c k).2.keys = some k := rfl
@[simp] theorem helloCtx_keys (L : Loc) (c : Ctx) (r : Bytes) (e : Bool) (p : List Nat) : (helloCtx L c r e p).keys = c.keys := rfl
@[simp] theorem helloCtx_peerCert (L : Loc) (c : Ctx) (r : Bytes) (e : Bool) (p : List Nat) : (helloCtx L c r e p).peerCert = c.peerCert := rfl
@[simp] theorem helloCtx_skeVerified (L : Loc) (c : Ctx) (r : Bytes) (e : Bool) (p : List Nat) : (helloCtx L c r e p).skeVerified = c.skeVerified := rfl
@[simp] theorem helloCtx_peerPub (L : Loc) (c : Ctx) (r : Bytes) (e : Bool) (p : List Nat) : (helloCtx L c r e p).peerPub = c.peerPub := rfl
@[simp] theorem helloCtx_expectedFp (L : Loc) (c : Ctx) (r : Bytes) (e : Bool) (p : List Nat) : (helloCtx L c r e p).expectedFp = c.expectedFp := rfl
@[simp] theorem helloCtx_localSecret (L : Loc) (c : Ctx) (r : Bytes) (e : Bool) (p : List Nat) : (helloCtx L c r e p).localSecret = c.localSecret := rfl
@[simp] theorem helloCtx_seqNum (L : Loc) (c : Ctx) (r : Bytes) (e : Bool) (p : List Nat) : (helloCtx L c r e p).seqNum = c.seqNum := rfl
@[simp] theorem helloCtx_epoch (L : Loc) (c : Ctx) (r : Bytes) (e : Bool) (p : List Nat) : (helloCtx L c r e p).epoch = c.epoch := rfl
@[simp] theorem helloCtx_lastFlight (L : Loc) (c : Ctx) (r : Bytes) (e : Bool) (p : List Nat) : (helloCtx L c r e p).lastFlight = c.lastFlight := rfl
@[simp] theorem helloCtx_msgSeq (L : Loc) (c : Ctx) (r : Bytes) (e : Bool) (p : List Nat) : (helloCtx L c r e p).msgSeq = c.msgSeq := rfl
@[simp] theorem helloCtx_recvSeq (L : Loc) (c : Ctx) (r : Bytes) (e : Bool) (p : List Nat) : (helloCtx L c r e p).recvSeq = c.recvSeq := rfl
@[simp] theorem helloCtx_clientRandom (L : Loc) (c : Ctx) (r : Bytes) (e : Bool) (p : List Nat) : (helloCtx L c r e p).clientRandom = some r := rfl
@[simp] theorem withCtx_connKeys (e : Ep) (c : Ctx) : (withCtx e c).connKeys = e.connKeys := rfl
@[simp] theorem withCtx_evs (e : Ep) (c : Ctx) : (withCtx e c).evs = e.evs := rfl
@[simp] theorem withCtx_writeEpoch (e : Ep) (c : Ctx) : (withCtx e c).writeEpoch = e.writeEpoch := rfl
@[simp] theorem withCtx_alive (e : Ep) (c : Ctx) : (withCtx e c).alive = e.alive := rfl

@[simp] theorem withCtx_isClient (e : Ep) (c : Ctx) : (withCtx e c).isClient = e.isClient := rfl
@[simp] theorem withCtx_conn (e : Ep) (c : Ctx) : (withCtx e c).conn = e.conn := rfl
@[simp] theorem withCtx_ctx (e : Ep) (c : Ctx) : (withCtx e c).ctx = c := rfl

syntax "hs_good" : tactic
macro_rules
  | `(tactic| hs_good) => `(tactic|
    ((repeat' split) <;>
     (try simp_all [Good, ok, failed, sends, connect, serverFlight, emitMsg, hsRecord, ccsRecord]) <;>
     (try ((repeat' split) <;> simp_all [Good, ok, failed, sends, connect, serverFlight, emitMsg, hsRecord, ccsRecord]))))

theorem good_ok (e : Ep) : Good e (ok e) := by simp [Good, ok]
theorem good_failed (e : Ep) : Good e (failed e) := by simp [Good, failed]

theorem handleCertificate_good (C : Crypto) (e : Ep) (b : Bytes) : Good e (handleCertificate C e b) := by
  unfold handleCertificate
  hs_good

theorem handleClientHello_good (C : Crypto) (L : Loc) (e : Ep) (b : Bytes) : Good e (handleClientHello C L e b) := by
  unfold handleClientHello
  hs_good

theorem handleClientKeyExchange_good (C : Crypto) (L : Loc) (e : Ep) (b : Bytes) : Good e (handleClientKeyExchange C L e b) := by
  unfold handleClientKeyExchange
  hs_good

theorem handleFinishedServer_good (C : Crypto) (e : Ep) (b raw : Bytes) : Good e (handleFinishedServer C e b raw) := by
  unfold handleFinishedServer
  hs_good

theorem handleFinishedClient_good (C : Crypto) (e : Ep) (b : Bytes) : Good e (handleFinishedClient C e b) := by
  unfold handleFinishedClient
  hs_good

theorem handleHvr_good (C : Crypto) (L : Loc) (e : Ep) (b : Bytes) : Good e (handleHvr C L e b) := by
  unfold handleHvr
  hs_good

theorem handleServerHello_good (C : Crypto) (e : Ep) (b : Bytes) : Good e (handleServerHello C e b) := by
  unfold handleServerHello
  hs_good

theorem handleServerKeyExchange_good (C : Crypto) (e : Ep) (b : Bytes) : Good e (handleServerKeyExchange C e b) := by
  unfold handleServerKeyExchange
  hs_good

theorem handleServerHelloDone_good (C : Crypto) (L : Loc) (e : Ep) : Good e (handleServerHelloDone C L e) := by
  unfold handleServerHelloDone
  hs_good



theorem Good.of_pre {e e' : Ep} {r : R} (h1 : e'.isClient = e.isClient)
    (h2 : ∀ k, e.ctx.keys = some k → e'.ctx.keys = some k) (h : Good e' r) : Good e r :=
  ⟨h.1.trans h1, fun k hk => h.2.1 k (h2 k hk), h.2.2⟩

theorem Good.seq {e : Ep} {r1 r2 : R} {b : Bool} (h1 : Good e r1) (h2 : Good r1.ep r2) :
    Good e ⟨r2.ep, r1.out ++ r2.out, b⟩ := by
  refine ⟨h2.1.trans h1.1, fun k hk => h2.2.1 k (h1.2.1 k hk), ?_⟩
  intro p hp
  simp only [List.mem_append] at hp
  rcases hp with hp | hp
  · exact h1.2.2 p hp
  · exact h2.2.2 p hp

/-! frame lemmas of the small steps -/
@[simp] theorem clearPostHvr_isClient (e : Ep) : (clearPostHvr e).isClient = e.isClient := by
  unfold clearPostHvr; split <;> rfl
@[simp] theorem clearPostHvr_conn (e : Ep) : (clearPostHvr e).conn = e.conn := by
  unfold clearPostHvr; split <;> rfl
@[simp] theorem clearPostHvr_keys (e : Ep) : (clearPostHvr e).ctx.keys = e.ctx.keys := by
  unfold clearPostHvr; split <;> rfl
@[simp] theorem resetFrag_keys (c : Ctx) (m : HsMsg) : (resetFrag c m).keys = c.keys := by
  unfold resetFrag; split <;> rfl
@[simp] theorem appendFrag_keys (c : Ctx) (m : HsMsg) : (appendFrag c m).keys = c.keys := rfl
@[simp] theorem noteMsg_keys (c : Ctx) (t : Nat) (raw : Bytes) : (noteMsg c t raw).keys = c.keys := rfl
@[simp] theorem takeBuffer_keys (c : Ctx) : (takeBuffer c).keys = c.keys := rfl
@[simp] theorem resync_isClient (e : Ep) (m : HsMsg) : (resync e m).isClient = e.isClient := rfl
@[simp] theorem resync_conn (e : Ep) (m : HsMsg) : (resync e m).conn = e.conn := rfl
@[simp] theorem resync_keys (e : Ep) (m : HsMsg) : (resync e m).ctx.keys = e.ctx.keys := rfl

theorem handleMsg_good (C : Crypto) (L : Loc) (e : Ep) (t : Nat) (b raw : Bytes) : Good e (handleMsg C L e t b raw) := by
  unfold handleMsg
  repeat' split
  all_goals first
    | exact handleClientHello_good ..
    | exact handleClientKeyExchange_good ..
    | exact handleFinishedClient_good ..
    | exact handleFinishedServer_good ..
    | exact handleHvr_good ..
    | exact handleServerHello_good ..
    | exact handleCertificate_good ..
    | exact handleServerKeyExchange_good ..
    | exact handleServerHelloDone_good ..
    | exact good_ok _

theorem acceptMsg_good (C : Crypto) (L : Loc) (e : Ep) (m : HsMsg) : Good e (acceptMsg C L e m) := by
  unfold acceptMsg
  dsimp only
  repeat' split
  all_goals first
    | exact Good.of_pre (by simp) (by simp) (handleMsg_good ..)
    | simp [Good, ok]

theorem gate_good (C : Crypto) (L : Loc) (e : Ep) (a : Bool) (m : HsMsg) : Good e (gate C L e a m) := by
  unfold gate
  split
  · exact good_ok e
  · exact acceptMsg_good ..

theorem procMsg_good (C : Crypto) (L : Loc) (e : Ep) (a : Bool) (m : HsMsg) : Good e (procMsg C L e a m) := by
  unfold procMsg
  repeat' split
  all_goals first
    | exact good_ok _
    | exact handleMsg_good ..
    | exact gate_good ..
    | exact Good.of_pre (by simp) (by simp) (gate_good ..)
    | simp [Good, ok, sends]

theorem procPayload_good (C : Crypto) (L : Loc) (a : Bool) : ∀ (fuel : Nat) (e : Ep) (bs : Bytes),
    Good e (procPayload C L a fuel e bs) := by
  intro fuel
  induction fuel with
  | zero => intro e bs; exact good_ok e
  | succ f ih =>
    intro e bs
    unfold procPayload
    split
    · exact good_ok e
    · split
      · exact good_ok e
      · exact good_ok e
      · rename_i m rest _
        have h1 := procMsg_good C L e a m
        dsimp only
        split
        · exact h1
        · exact h1.seq (ih _ rest)

/-! ### unauthenticated handshake payloads once keys exist: nothing but a flight resend -/

/-- what an unauthenticated handshake record may do once keys exist: the connection state, the
published keys and the negotiated keys stay, nothing is delivered -/
def Quiet (e : Ep) (r : R) : Prop :=
  r.ep.conn = e.conn ∧ r.ep.connKeys = e.connKeys ∧ r.ep.isClient = e.isClient ∧
  r.ep.ctx.keys = e.ctx.keys ∧ r.err = false ∧ (∀ p, Out.deliver p ∉ r.out)

theorem quiet_ok (e : Ep) : Quiet e (ok e) := by simp [Quiet, ok]

theorem Quiet.seq {e : Ep} {r1 r2 : R} (h1 : Quiet e r1) (h2 : Quiet r1.ep r2) :
    Quiet e ⟨r2.ep, r1.out ++ r2.out, r2.err⟩ := by
  obtain ⟨a1, a2, a3, a4, a5, a6⟩ := h1
  obtain ⟨b1, b2, b3, b4, b5, b6⟩ := h2
  refine ⟨b1.trans a1, b2.trans a2, b3.trans a3, b4.trans a4, b5, ?_⟩
  intro p hp
  simp only [List.mem_append] at hp
  rcases hp with hp | hp
  · exact a6 p hp
  · exact b6 p hp

/-- a ClientHello never touches the connection state or the keys (a duplicate one at a server
only re-sends the last flight) -/
theorem handleClientHello_quiet (C : Crypto) (L : Loc) (e : Ep) (b : Bytes) :
    Quiet e (handleClientHello C L e b) := by
  unfold handleClientHello
  repeat' split
  all_goals simp_all [Quiet, ok, sends, serverFlight, emitMsg, hsRecord]

theorem gate_quiet (C : Crypto) (L : Loc) (e : Ep) (m : HsMsg) (hk : e.ctx.keys.isSome) :
    Quiet e (gate C L e false m) := by
  unfold gate
  simp [hk, quiet_ok]

theorem Quiet.of_pre {e e' : Ep} {r : R} (h1 : e'.conn = e.conn) (h2 : e'.connKeys = e.connKeys)
    (h3 : e'.isClient = e.isClient) (h4 : e'.ctx.keys = e.ctx.keys) (h : Quiet e' r) : Quiet e r := by
  obtain ⟨a1, a2, a3, a4, a5, a6⟩ := h
  exact ⟨a1.trans h1, a2.trans h2, a3.trans h3, a4.trans h4, a5, a6⟩

theorem procMsg_quiet (C : Crypto) (L : Loc) (e : Ep) (m : HsMsg) (hk : e.ctx.keys.isSome)
    : Quiet e (procMsg C L e false m) := by
  have hg : Quiet e (gate C L (resync e m) false m) :=
    Quiet.of_pre rfl rfl rfl rfl (gate_quiet C L (resync e m) m (by simpa using hk))
  unfold procMsg
  split
  · split
    · exact hg
    · split
      · rename_i h
        have h' := handleClientHello_quiet C L e m.body
        unfold handleMsg
        simp only [Bool.and_eq_true, decide_eq_true_eq] at h
        simp [h.1, h']
      · split
        · rename_i h; simp at h
        · exact quiet_ok _
  · split
    · split
      · exact hg
      · exact quiet_ok _
    · exact gate_quiet C L e m hk

theorem procPayload_quiet (C : Crypto) (L : Loc) : ∀ (fuel : Nat) (e : Ep) (bs : Bytes),
    e.ctx.keys.isSome → Quiet e (procPayload C L false fuel e bs) := by
  intro fuel
  induction fuel with
  | zero => intro e bs _; exact quiet_ok e
  | succ f ih =>
    intro e bs hk
    unfold procPayload
    split
    · exact quiet_ok e
    · split
      · exact quiet_ok e
      · exact quiet_ok e
      · rename_i m rest _
        have h1 := procMsg_quiet C L e m hk
        dsimp only
        rw [if_neg (by simp [h1.2.2.2.2.1])]
        have hk' : (procMsg C L e false m).ep.ctx.keys.isSome := by rw [h1.2.2.2.1]; exact hk
        exact h1.seq (ih _ rest hk')


/-! ### `handle_decrypted_record` -/

theorem onRecord_frame (C : Crypto) (L : Loc) (e : Ep) (ct : Nat) (a : Bool) (pl : Bytes) :
    (onRecord C L e ct a pl).ep.isClient = e.isClient ∧
    (∀ k, e.ctx.keys = some k → (onRecord C L e ct a pl).ep.ctx.keys = some k) := by
  unfold onRecord
  split
  · simp [ok]
  · split
    · split <;> simp [ok]
    · split
      · have h := procPayload_good C L a (pl.length + 1) e pl
        exact ⟨h.1, h.2.1⟩
      · split
        · split
          · split <;> simp [ok]
          · simp [ok]
        · simp [ok]

theorem onRecord_deliver (C : Crypto) (L : Loc) (e : Ep) (ct : Nat) (a : Bool) (pl p : Bytes)
    (h : Out.deliver p ∈ (onRecord C L e ct a pl).out) : ct = dtlsCtApplicationData ∧ p = pl := by
  unfold onRecord at h
  split at h
  · simp [ok] at h
  · split at h
    · rename_i h2
      split at h
      · simp [ok] at h
        exact ⟨h2, h⟩
      · simp [ok] at h
    · split at h
      · exact absurd h ((procPayload_good C L a (pl.length + 1) e pl).2.2 p)
      · split at h
        · split at h
          · split at h <;> simp [ok] at h
          · simp [ok] at h
        · simp [ok] at h

theorem onRecord_conn (C : Crypto) (L : Loc) (e : Ep) (ct : Nat) (a : Bool) (pl : Bytes)
    (h : (onRecord C L e ct a pl).ep.conn ≠ e.conn) : ct = dtlsCtAlert ∨ ct = dtlsCtHandshake := by
  unfold onRecord at h
  split at h
  · simp [ok] at h
  · split at h
    · split at h <;> simp [ok] at h
    · split at h
      · rename_i h3; exact Or.inr h3
      · split at h
        · rename_i h4; exact Or.inl h4
        · simp [ok] at h

theorem onRecord_unauth_hs (C : Crypto) (L : Loc) (e : Ep) (pl : Bytes) (hk : e.ctx.keys.isSome) :
    Quiet e (onRecord C L e dtlsCtHandshake false pl) := by
  unfold onRecord
  simp only [dtlsCtHandshake_val, dtlsCtChangeCipherSpec_val, dtlsCtApplicationData_val]
  simp only [show ¬ (22 = 20) by decide, show ¬ (22 = 23) by decide, if_false, if_true]
  exact procPayload_quiet C L _ e pl hk

/-- application data is handed up only in state Connected -/
theorem onRecord_deliver_connected (C : Crypto) (L : Loc) (e : Ep) (ct : Nat) (a : Bool) (pl p : Bytes)
    (h : Out.deliver p ∈ (onRecord C L e ct a pl).out) : e.conn = .connected := by
  unfold onRecord at h
  split at h
  · simp [ok] at h
  · split at h
    · split at h
      · assumption
      · simp [ok] at h
    · split at h
      · exact absurd h ((procPayload_good C L a (pl.length + 1) e pl).2.2 p)
      · split at h
        · split at h
          · split at h <;> simp [ok] at h
          · simp [ok] at h
        · simp [ok] at h

end RtcModel.DtlsHs
