/-
Helper lemmas: the RE-CONFIG parameter walk of `handle_reconfig` reads back exactly the stream ids an
Outgoing SSN Reset Request (`send_reconfig_ssn_reset`) lists — the padding is not part of the value.
-/
import RtcModel.SctpAssoc
import RtcModel.Lemmas.SctpSend

namespace RtcModel.Sctp
open RtcModel.Generated

theorem parseU16s_enc : ∀ (ids : List UInt16), parseU16s ((ids.map be16).flatten) = ids := by
  intro ids
  induction ids with
  | nil => rfl
  | cons x rest ih =>
    simp only [List.map_cons, List.flatten_cons, be16, List.cons_append, List.nil_append, parseU16s, ih]
    rw [rd16_be16]

theorem ids_length (ids : List UInt16) : ((ids.map be16).flatten).length = 2 * ids.length := by
  induction ids with
  | nil => rfl
  | cons x rest ih => simp only [List.map_cons, List.flatten_cons, List.length_append, be16, List.length_cons, List.length_nil, ih]; omega

theorem rcParams_nil (fuel : Nat) : rcParams fuel [] = [] := by
  cases fuel <;> rfl

/-- the walk over one encoded Outgoing SSN Reset Request yields one parameter of type 13 whose value
is the three serial numbers followed by the listed ids — without the pad bytes -/
theorem rcParams_encSsnReset (fuel : Nat) (a b c : UInt32) (ids : List UInt16) (hn : 16 + 2 * ids.length < 65536) :
    rcParams (fuel + 1) (encSsnReset a b c ids) = [(13, be32 a ++ be32 b ++ be32 c ++ (ids.map be16).flatten)] := by
  have hl : (be32 a ++ be32 b ++ be32 c ++ (ids.map be16).flatten).length = 16 + 2 * ids.length - 4 := by
    simp only [List.length_append, be32, List.length_cons, List.length_nil, ids_length]; omega
  have hlen : (rd16 (UInt8.ofNat ((UInt16.ofNat (16 + 2 * ids.length)).toNat / 256)) (UInt8.ofNat ((UInt16.ofNat (16 + 2 * ids.length)).toNat % 256))).toNat
      = 16 + 2 * ids.length := by
    rw [rd16_be16]; simp; omega
  have hty : (rd16 (UInt8.ofNat ((13 : UInt16).toNat / 256)) (UInt8.ofNat ((13 : UInt16).toNat % 256))).toNat = 13 := by
    rw [rd16_be16]; rfl
  unfold encSsnReset
  simp only [be16, List.cons_append, List.nil_append, rcParams, hlen, hty]
  generalize hbody : be32 a ++ be32 b ++ be32 c ++ (ids.map be16).flatten = body at hl
  have h1 : ¬ ((16 + 2 * ids.length < 4 || (body ++ List.replicate (pad4 (16 + 2 * ids.length)) 0).length < 16 + 2 * ids.length - 4) = true) := by
    simp only [List.length_append, List.length_replicate, hl, Bool.or_eq_true, decide_eq_true_eq]; omega
  simp only [h1, if_false, Bool.false_eq_true]
  have ht : (body ++ List.replicate (pad4 (16 + 2 * ids.length)) 0).take (16 + 2 * ids.length - 4) = body := by
    rw [← hl]; exact List.take_left'  rfl
  have hd : (body ++ List.replicate (pad4 (16 + 2 * ids.length)) 0).drop (16 + 2 * ids.length - 4) = List.replicate (pad4 (16 + 2 * ids.length)) 0 := by
    rw [← hl]; exact List.drop_left' rfl
  rw [ht, hd]
  simp [rcParams_nil]

end RtcModel.Sctp
