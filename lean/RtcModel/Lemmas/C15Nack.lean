/- C15 — helper lemmas for NACK (PID, BLP) packing: membership is preserved by `packNack` followed by
`unpackNack`, for every input list, wrap-around included.  Core Lean only. -/
import RtcModel.C15Nack
import RtcModel.Lemmas.C15Bytes
import RtcModel.Lemmas.C15Consts

namespace RtcModel.C15
open RtcModel.Generated

/-- sequence numbers named by a bitmask: `pid + (bit+1)` for the set bits 0..15 -/
def InBlp (pid : UInt16) (blp : Nat) (x : UInt16) : Prop :=
  ∃ bit, bit < 16 ∧ blp.testBit bit = true ∧ x = pid + UInt16.ofNat (bit + 1)

theorem add_sub_cancel16 (s pid : UInt16) : pid + UInt16.ofNat (s - pid).toNat = s := by
  apply UInt16.toNat_inj.mp
  have := s.toNat_lt; have := pid.toNat_lt
  simp [UInt16.toNat_add, UInt16.toNat_sub]
  omega

theorem mem_blpSeqs (pid : UInt16) (blp : Nat) (x : UInt16) (fuel b : Nat) :
    x ∈ blpSeqs pid blp b fuel ↔ ∃ bit, b ≤ bit ∧ bit < b + fuel ∧ blp.testBit bit = true ∧ x = pid + UInt16.ofNat (bit + 1) := by
  induction fuel generalizing b with
  | zero => simp [blpSeqs]; intro bit h1 h2; omega
  | succ fuel ih =>
    simp only [blpSeqs]
    by_cases ht : blp.testBit b = true
    · rw [if_pos ht, List.mem_cons, ih]
      constructor
      · rintro (rfl | ⟨bit, h1, h2, h3, h4⟩)
        · exact ⟨b, Nat.le_refl _, by omega, ht, rfl⟩
        · exact ⟨bit, by omega, by omega, h3, h4⟩
      · rintro ⟨bit, h1, h2, h3, h4⟩
        by_cases hb : bit = b
        · subst hb; exact Or.inl h4
        · exact Or.inr ⟨bit, by omega, by omega, h3, h4⟩
    · rw [if_neg ht, ih]
      constructor
      · rintro ⟨bit, h1, h2, h3, h4⟩; exact ⟨bit, by omega, by omega, h3, h4⟩
      · rintro ⟨bit, h1, h2, h3, h4⟩
        by_cases hb : bit = b
        · subst hb; exact absurd h3 ht
        · exact ⟨bit, by omega, by omega, h3, h4⟩

theorem mem_blpSeqs16 (pid : UInt16) (blp : Nat) (x : UInt16) : x ∈ blpSeqs pid blp 0 c15BlpBits ↔ InBlp pid blp x := by
  rw [c15BlpBits_eq, mem_blpSeqs]
  constructor
  · rintro ⟨bit, _, h2, h3, h4⟩; exact ⟨bit, by omega, h3, h4⟩
  · rintro ⟨bit, h2, h3, h4⟩; exact ⟨bit, Nat.zero_le _, by omega, h3, h4⟩

theorem inBlp_zero (pid x : UInt16) : ¬ InBlp pid 0 x := by
  rintro ⟨bit, _, h, _⟩; simp at h

/-- setting bit `d-1` adds exactly `pid + d` -/
theorem inBlp_or (pid : UInt16) (blp d : Nat) (hd1 : 1 ≤ d) (hd : d ≤ 16) (x : UInt16) :
    InBlp pid (blp ||| (1 <<< (d - 1))) x ↔ InBlp pid blp x ∨ x = pid + UInt16.ofNat d := by
  unfold InBlp
  simp only [Nat.testBit_or, Nat.one_shiftLeft, Nat.testBit_two_pow, Bool.or_eq_true, decide_eq_true_eq]
  constructor
  · rintro ⟨bit, h1, h2 | h2, h3⟩
    · exact Or.inl ⟨bit, h1, h2, h3⟩
    · right; rw [h3, ← h2]; congr 2; omega
  · rintro (⟨bit, h1, h2, h3⟩ | h)
    · exact ⟨bit, h1, Or.inl h2, h3⟩
    · exact ⟨d - 1, by omega, Or.inr rfl, by rw [h]; congr 2; omega⟩

/-- the inner loop loses and invents nothing: (PID ∪ mask ∪ unconsumed rest) is invariant -/
theorem absorb_mem (pid : UInt16) (xs : List UInt16) (blp : Nat) (x : UInt16) :
    (x = pid ∨ InBlp pid (absorb pid blp xs).1 x ∨ x ∈ (absorb pid blp xs).2) ↔
    (x = pid ∨ InBlp pid blp x ∨ x ∈ xs) := by
  induction xs generalizing blp with
  | nil => simp [absorb]
  | cons s rest ih =>
    simp only [absorb]
    have hspan : c15NackBlpSpan = 16 := c15NackBlpSpan_val
    by_cases h0 : (s - pid).toNat = 0
    · rw [if_pos h0, ih]
      have hs : s = pid := by
        have := add_sub_cancel16 s pid
        rw [h0] at this; simpa using this.symm
      subst hs
      simp only [List.mem_cons]
      constructor
      · rintro (h | h | h)
        · exact Or.inl h
        · exact Or.inr (Or.inl h)
        · exact Or.inr (Or.inr (Or.inr h))
      · rintro (h | h | h | h)
        · exact Or.inl h
        · exact Or.inr (Or.inl h)
        · exact Or.inl h
        · exact Or.inr (Or.inr h)
    · rw [if_neg h0]
      by_cases hbig : (s - pid).toNat > c15NackBlpSpan
      · rw [if_pos hbig]
      · rw [if_neg hbig, ih, inBlp_or pid blp _ (by omega) (by omega), add_sub_cancel16]
        simp only [List.mem_cons]
        constructor
        · rintro (h | (h | h) | h)
          · exact Or.inl h
          · exact Or.inr (Or.inl h)
          · exact Or.inr (Or.inr (Or.inl h))
          · exact Or.inr (Or.inr (Or.inr h))
        · rintro (h | h | h | h)
          · exact Or.inl h
          · exact Or.inr (Or.inl (Or.inl h))
          · exact Or.inr (Or.inl (Or.inr h))
          · exact Or.inr (Or.inr h)

theorem packSorted_nil : packSorted [] = [] := by rw [packSorted]

theorem packSorted_cons (pid : UInt16) (rest : List UInt16) :
    packSorted (pid :: rest) = (pid, (absorb pid 0 rest).1) :: packSorted (absorb pid 0 rest).2 := by
  rw [packSorted]

/-- unpacking the packed pairs yields exactly the members of the list — for EVERY list -/
theorem mem_unpack_packSorted (x : UInt16) : ∀ (n : Nat) (l : List UInt16), l.length = n →
    (x ∈ unpackNack (packSorted l) ↔ x ∈ l) := by
  intro n
  induction n using Nat.strongRecOn with
  | ind n ih =>
    intro l hl
    match l, hl with
    | [], _ => simp [packSorted_nil, unpackNack]
    | pid :: rest, hl =>
      rw [packSorted_cons]
      simp only [unpackNack, List.mem_cons, List.mem_append, mem_blpSeqs16]
      have hlt : (absorb pid 0 rest).2.length < n := by
        have := absorb_length pid 0 rest
        simp at hl; omega
      rw [ih _ hlt _ rfl, absorb_mem pid rest 0 x]
      constructor
      · rintro (h | h | h)
        · exact Or.inl h
        · exact absurd h (inBlp_zero _ _)
        · exact Or.inr h
      · rintro (h | h)
        · exact Or.inl h
        · exact Or.inr (Or.inr h)

theorem mem_insertAsc (x y : UInt16) (l : List UInt16) : y ∈ insertAsc x l ↔ y = x ∨ y ∈ l := by
  induction l with
  | nil => simp [insertAsc]
  | cons z zs ih =>
    simp only [insertAsc]
    split
    · simp
    · split
      · next h => subst h; simp
      · simp only [List.mem_cons, ih]
        constructor
        · rintro (h | h | h)
          · exact Or.inr (Or.inl h)
          · exact Or.inl h
          · exact Or.inr (Or.inr h)
        · rintro (h | h | h)
          · exact Or.inr (Or.inl h)
          · exact Or.inl h
          · exact Or.inr (Or.inr h)

theorem mem_sortDedup (y : UInt16) (l : List UInt16) : y ∈ sortDedup l ↔ y ∈ l := by
  induction l with
  | nil => simp [sortDedup]
  | cons x xs ih => simp [sortDedup, mem_insertAsc, ih]

/-! ### strictly ascending lists are the wire order -/

/-- strictly ascending as natural numbers (what `sort_unstable` + `dedup` produce) -/
def Asc (l : List UInt16) : Prop := l.Pairwise (fun a b => a.toNat < b.toNat)

theorem blpSeqs_none (pid : UInt16) (n : Nat) : ∀ (fuel b : Nat), (∀ i, b ≤ i → n.testBit i = false) →
    blpSeqs pid n b fuel = [] := by
  intro fuel
  induction fuel with
  | zero => intro b _; rfl
  | succ f ih =>
    intro b h
    simp only [blpSeqs, h b (Nat.le_refl _), Bool.false_eq_true, if_false]
    exact ih (b + 1) (fun i hi => h i (by omega))

theorem testBit_or_pow (blp j i : Nat) : (blp ||| 2 ^ j).testBit i = (blp.testBit i || decide (j = i)) := by
  simp [Nat.testBit_or, Nat.testBit_two_pow]

/-- setting a bit above every set bit appends exactly one sequence number at the end -/
theorem blpSeqs_or_top (pid : UInt16) (blp j : Nat) (hb : blp < 2 ^ j) :
    ∀ (fuel b : Nat), b ≤ j → j < b + fuel →
      blpSeqs pid (blp ||| 2 ^ j) b fuel = blpSeqs pid blp b fuel ++ [pid + UInt16.ofNat (j + 1)] := by
  have hhi : ∀ i, j ≤ i → blp.testBit i = false := fun i hi =>
    Nat.testBit_lt_two_pow (Nat.lt_of_lt_of_le hb (Nat.pow_le_pow_right (by omega) hi))
  intro fuel
  induction fuel with
  | zero => intro b h1 h2; omega
  | succ f ih =>
    intro b h1 h2
    simp only [blpSeqs, testBit_or_pow]
    by_cases hbj : b = j
    · subst hbj
      have h0 : blp.testBit b = false := hhi b (Nat.le_refl _)
      simp only [h0, Bool.false_or, decide_true, if_true, Bool.false_eq_true, if_false]
      rw [blpSeqs_none pid blp f (b + 1) (fun i hi => hhi i (by omega)),
        blpSeqs_none pid (blp ||| 2 ^ b) f (b + 1) (fun i hi => by
          rw [testBit_or_pow, hhi i (by omega)]; simp; omega)]
      rfl
    · have hd : decide (j = b) = false := by simp; omega
      simp only [hd, Bool.or_false]
      by_cases ht : blp.testBit b = true
      · rw [if_pos ht, if_pos ht, ih (b + 1) (by omega) (by omega)]; rfl
      · rw [if_neg ht, if_neg ht, ih (b + 1) (by omega) (by omega)]

theorem sub_toNat_of_lt {s pid : UInt16} (h : pid.toNat < s.toNat) : (s - pid).toNat = s.toNat - pid.toNat := by
  have := s.toNat_lt; have := pid.toNat_lt
  simp [UInt16.toNat_sub]; omega

/-- the inner loop on an ascending tail beyond `pid + k`: it consumes a prefix and appends it to the
enumeration of the mask -/
theorem absorb_asc (pid : UInt16) : ∀ (rest : List UInt16) (blp k : Nat), Asc rest →
    (∀ x ∈ rest, pid.toNat + k < x.toNat) → blp < 2 ^ k → k ≤ 16 →
    ∃ taken, rest = taken ++ (absorb pid blp rest).2 ∧
      blpSeqs pid (absorb pid blp rest).1 0 16 = blpSeqs pid blp 0 16 ++ taken ∧
      (∀ x ∈ (absorb pid blp rest).2, pid.toNat + 16 < x.toNat) := by
  intro rest
  induction rest with
  | nil => intro blp k _ _ _ _; exact ⟨[], by simp [absorb], by simp [absorb], by simp [absorb]⟩
  | cons s rest ih =>
    intro blp k hasc hgt hb hk
    have hs : pid.toNat + k < s.toNat := hgt s (List.mem_cons_self ..)
    have hd : (s - pid).toNat = s.toNat - pid.toNat := sub_toNat_of_lt (by omega)
    have hspan := c15NackBlpSpan_eq
    simp only [absorb]
    rw [if_neg (by omega)]
    by_cases hbig : (s - pid).toNat > c15NackBlpSpan
    · rw [if_pos hbig]
      refine ⟨[], by simp, by simp, ?_⟩
      intro x hx
      rcases List.mem_cons.mp hx with rfl | hx
      · omega
      · have := (List.pairwise_cons.mp hasc).1 x hx; omega
    · rw [if_neg hbig]
      have hasc' : Asc rest := (List.pairwise_cons.mp hasc).2
      have hgt' : ∀ x ∈ rest, pid.toNat + (s - pid).toNat < x.toNat := fun x hx => by
        have := (List.pairwise_cons.mp hasc).1 x hx; omega
      have hlt : blp < 2 ^ ((s - pid).toNat - 1) :=
        Nat.lt_of_lt_of_le hb (Nat.pow_le_pow_right (by omega) (by omega))
      have hb' : blp ||| 1 <<< ((s - pid).toNat - 1) < 2 ^ (s - pid).toNat := by
        rw [Nat.one_shiftLeft]
        have h1 : blp < 2 ^ (s - pid).toNat := Nat.lt_of_lt_of_le hlt (Nat.pow_le_pow_right (by omega) (by omega))
        have h2 : 2 ^ ((s - pid).toNat - 1) < 2 ^ (s - pid).toNat := Nat.pow_lt_pow_right (by omega) (by omega)
        exact Nat.or_lt_two_pow h1 h2
      obtain ⟨taken, h1, h2, h3⟩ := ih (blp ||| 1 <<< ((s - pid).toNat - 1)) (s - pid).toNat hasc' hgt' hb' (by omega)
      refine ⟨s :: taken, by rw [List.cons_append, ← h1], ?_, h3⟩
      rw [h2, Nat.one_shiftLeft, blpSeqs_or_top pid blp _ hlt 16 0 (by omega) (by omega)]
      have : (s - pid).toNat - 1 + 1 = (s - pid).toNat := by omega
      rw [this, add_sub_cancel16]
      simp

theorem asc_of_suffix {a b : List UInt16} (h : Asc (a ++ b)) : Asc b := (List.pairwise_append.mp h).2.1

/-- on a strictly ascending list, packing then expanding is the identity (list equality, not only sets) -/
theorem unpack_packSorted_asc : ∀ (n : Nat) (l : List UInt16), l.length = n → Asc l →
    unpackNack (packSorted l) = l := by
  intro n
  induction n using Nat.strongRecOn with
  | ind n ih =>
    intro l hl hasc
    match l, hl with
    | [], _ => simp [packSorted_nil, unpackNack]
    | pid :: rest, hl =>
      rw [packSorted_cons]
      simp only [unpackNack, c15BlpBits_eq]
      obtain ⟨taken, h1, h2, _⟩ := absorb_asc pid rest 0 0 (List.pairwise_cons.mp hasc).2
        (fun x hx => by have := (List.pairwise_cons.mp hasc).1 x hx; omega) (by omega) (by omega)
      have hlt : (absorb pid 0 rest).2.length < n := by
        have := absorb_length pid 0 rest
        simp at hl; omega
      have hasc' : Asc (absorb pid 0 rest).2 := by
        have : Asc rest := (List.pairwise_cons.mp hasc).2
        rw [h1] at this; exact asc_of_suffix this
      rw [ih _ hlt _ rfl hasc', h2]
      have h0 : blpSeqs pid 0 0 16 = [] := blpSeqs_none pid 0 16 0 (fun i _ => Nat.zero_testBit i)
      rw [h0, List.nil_append, ← h1]

theorem insertAsc_of_lt (x : UInt16) (l : List UInt16) (h : ∀ y ∈ l, x.toNat < y.toNat) : insertAsc x l = x :: l := by
  cases l with
  | nil => rfl
  | cons y ys =>
    have : x < y := UInt16.lt_iff_toNat_lt.mpr (h y (List.mem_cons_self ..))
    simp [insertAsc, this]

theorem sortDedup_asc (l : List UInt16) (h : Asc l) : sortDedup l = l := by
  induction l with
  | nil => rfl
  | cons x xs ih =>
    simp only [sortDedup, ih (List.pairwise_cons.mp h).2]
    exact insertAsc_of_lt x xs (List.pairwise_cons.mp h).1

/-- **the wire order of a NACK is the ascending order** -/
theorem unpack_pack_asc (l : List UInt16) (h : Asc l) : unpackNack (packNack l) = l := by
  unfold packNack
  rw [sortDedup_asc l h]
  exact unpack_packSorted_asc _ l rfl h

/-- successive PIDs are more than 16 apart, so there are at most 3856 pairs (3856 · 17 > 65536) -/
theorem packSorted_count : ∀ (n : Nat) (l : List UInt16) (lo : Nat), l.length = n → Asc l →
    (∀ x ∈ l, lo ≤ x.toNat) → (packSorted l).length = 0 ∨ (packSorted l).length * 17 + lo ≤ 65536 + 16 := by
  intro n
  induction n using Nat.strongRecOn with
  | ind n ih =>
    intro l lo hl hasc hlo
    match l, hl with
    | [], _ => left; simp [packSorted_nil]
    | pid :: rest, hl =>
      right
      rw [packSorted_cons]
      obtain ⟨taken, h1, _, h3⟩ := absorb_asc pid rest 0 0 (List.pairwise_cons.mp hasc).2
        (fun x hx => by have := (List.pairwise_cons.mp hasc).1 x hx; omega) (by omega) (by omega)
      have hlt : (absorb pid 0 rest).2.length < n := by
        have := absorb_length pid 0 rest
        simp at hl; omega
      have hasc' : Asc (absorb pid 0 rest).2 := by
        have : Asc rest := (List.pairwise_cons.mp hasc).2
        rw [h1] at this; exact asc_of_suffix this
      have := ih _ hlt _ (pid.toNat + 17) rfl hasc' (fun x hx => by have := h3 x hx; omega)
      have hp : lo ≤ pid.toNat := hlo pid (List.mem_cons_self ..)
      have hpl := pid.toNat_lt
      simp only [List.length_cons]
      rcases this with h0 | h0 <;> omega

theorem sortDedup_sorted (l : List UInt16) : Asc (sortDedup l) := by
  have hins : ∀ (x : UInt16) (l : List UInt16), Asc l → Asc (insertAsc x l) := by
    intro x l
    induction l with
    | nil => intro _; simp [insertAsc, Asc]
    | cons y ys ih =>
      intro h
      simp only [insertAsc]
      by_cases hxy : x < y
      · rw [if_pos hxy]
        refine List.pairwise_cons.mpr ⟨?_, h⟩
        intro z hz
        have hxy' := UInt16.lt_iff_toNat_lt.mp hxy
        rcases List.mem_cons.mp hz with rfl | hz
        · exact hxy'
        · have := (List.pairwise_cons.mp h).1 z hz; omega
      · rw [if_neg hxy]
        by_cases he : x = y
        · rw [if_pos he]; exact h
        · rw [if_neg he]
          refine List.pairwise_cons.mpr ⟨?_, ih (List.pairwise_cons.mp h).2⟩
          intro z hz
          rcases (mem_insertAsc x z ys).mp hz with rfl | hz
          · have h1 : ¬ z.toNat < y.toNat := fun hh => hxy (UInt16.lt_iff_toNat_lt.mpr hh)
            have h2 : z.toNat ≠ y.toNat := fun hh => he (UInt16.toNat_inj.mp hh)
            omega
          · exact (List.pairwise_cons.mp h).1 z hz
  induction l with
  | nil => simp [sortDedup, Asc]
  | cons x xs ih => exact hins x _ ih

/-- at most 3856 (PID, BLP) pairs for ANY input list -/
theorem packNack_count (l : List UInt16) : (packNack l).length ≤ 3856 := by
  have := packSorted_count _ (sortDedup l) 0 rfl (sortDedup_sorted l) (fun _ _ => Nat.zero_le _)
  unfold packNack
  omega

end RtcModel.C15
