/- C15 — helper lemmas for NACK (PID, BLP) packing: membership is preserved by `packNack` followed by
`unpackNack`, for every input list, wrap-around included.  Core Lean only. -/
import RtcModel.C15Nack
import RtcModel.Lemmas.C15Bytes

namespace RtcModel.C15
open RtcModel.Generated

/-- sequence numbers named by a bitmask: `pid + (bit+1)` for the set bits 0..15 -/
def InBlp (pid : UInt16) (blp : Nat) (x : UInt16) : Prop :=
  ∃ bit, bit < 16 ∧ blp.testBit bit = true ∧ x = pid + UInt16.ofNat (bit + 1)

theorem add_sub_cancel16 (s pid : UInt16) : pid + UInt16.ofNat (s - pid).toNat = s := by
  apply UInt16.toNat_inj.mp
  have := s.toNat_lt; have := pid.toNat_lt
  simp [UInt16.toNat_add, UInt16.toNat_sub]
  omega

theorem mem_blpSeqs (pid : UInt16) (blp : Nat) (x : UInt16) (fuel b : Nat) :
    x ∈ blpSeqs pid blp b fuel ↔ ∃ bit, b ≤ bit ∧ bit < b + fuel ∧ blp.testBit bit = true ∧ x = pid + UInt16.ofNat (bit + 1) := by
  induction fuel generalizing b with
  | zero => simp [blpSeqs]; intro bit h1 h2; omega
  | succ fuel ih =>
    simp only [blpSeqs]
    by_cases ht : blp.testBit b = true
    · rw [if_pos ht, List.mem_cons, ih]
      constructor
      · rintro (rfl | ⟨bit, h1, h2, h3, h4⟩)
        · exact ⟨b, Nat.le_refl _, by omega, ht, rfl⟩
        · exact ⟨bit, by omega, by omega, h3, h4⟩
      · rintro ⟨bit, h1, h2, h3, h4⟩
        by_cases hb : bit = b
        · subst hb; exact Or.inl h4
        · exact Or.inr ⟨bit, by omega, by omega, h3, h4⟩
    · rw [if_neg ht, ih]
      constructor
      · rintro ⟨bit, h1, h2, h3, h4⟩; exact ⟨bit, by omega, by omega, h3, h4⟩
      · rintro ⟨bit, h1, h2, h3, h4⟩
        by_cases hb : bit = b
        · subst hb; exact absurd h3 ht
        · exact ⟨bit, by omega, by omega, h3, h4⟩

theorem mem_blpSeqs16 (pid : UInt16) (blp : Nat) (x : UInt16) : x ∈ blpSeqs pid blp 0 16 ↔ InBlp pid blp x := by
  rw [mem_blpSeqs]
  constructor
  · rintro ⟨bit, _, h2, h3, h4⟩; exact ⟨bit, by omega, h3, h4⟩
  · rintro ⟨bit, h2, h3, h4⟩; exact ⟨bit, Nat.zero_le _, by omega, h3, h4⟩

theorem inBlp_zero (pid x : UInt16) : ¬ InBlp pid 0 x := by
  rintro ⟨bit, _, h, _⟩; simp at h

/-- setting bit `d-1` adds exactly `pid + d` -/
theorem inBlp_or (pid : UInt16) (blp d : Nat) (hd1 : 1 ≤ d) (hd : d ≤ 16) (x : UInt16) :
    InBlp pid (blp ||| (1 <<< (d - 1))) x ↔ InBlp pid blp x ∨ x = pid + UInt16.ofNat d := by
  unfold InBlp
  simp only [Nat.testBit_or, Nat.one_shiftLeft, Nat.testBit_two_pow, Bool.or_eq_true, decide_eq_true_eq]
  constructor
  · rintro ⟨bit, h1, h2 | h2, h3⟩
    · exact Or.inl ⟨bit, h1, h2, h3⟩
    · right; rw [h3, ← h2]; congr 2; omega
  · rintro (⟨bit, h1, h2, h3⟩ | h)
    · exact ⟨bit, h1, Or.inl h2, h3⟩
    · exact ⟨d - 1, by omega, Or.inr rfl, by rw [h]; congr 2; omega⟩

/-- the inner loop loses and invents nothing: (PID ∪ mask ∪ unconsumed rest) is invariant -/
theorem absorb_mem (pid : UInt16) (xs : List UInt16) (blp : Nat) (x : UInt16) :
    (x = pid ∨ InBlp pid (absorb pid blp xs).1 x ∨ x ∈ (absorb pid blp xs).2) ↔
    (x = pid ∨ InBlp pid blp x ∨ x ∈ xs) := by
  induction xs generalizing blp with
  | nil => simp [absorb]
  | cons s rest ih =>
    simp only [absorb]
    have hspan : c15NackBlpSpan = 16 := c15NackBlpSpan_val
    by_cases h0 : (s - pid).toNat = 0
    · rw [if_pos h0, ih]
      have hs : s = pid := by
        have := add_sub_cancel16 s pid
        rw [h0] at this; simpa using this.symm
      subst hs
      simp only [List.mem_cons]
      constructor
      · rintro (h | h | h)
        · exact Or.inl h
        · exact Or.inr (Or.inl h)
        · exact Or.inr (Or.inr (Or.inr h))
      · rintro (h | h | h | h)
        · exact Or.inl h
        · exact Or.inr (Or.inl h)
        · exact Or.inl h
        · exact Or.inr (Or.inr h)
    · rw [if_neg h0]
      by_cases hbig : (s - pid).toNat > c15NackBlpSpan
      · rw [if_pos hbig]
      · rw [if_neg hbig, ih, inBlp_or pid blp _ (by omega) (by omega), add_sub_cancel16]
        simp only [List.mem_cons]
        constructor
        · rintro (h | (h | h) | h)
          · exact Or.inl h
          · exact Or.inr (Or.inl h)
          · exact Or.inr (Or.inr (Or.inl h))
          · exact Or.inr (Or.inr (Or.inr h))
        · rintro (h | h | h | h)
          · exact Or.inl h
          · exact Or.inr (Or.inl (Or.inl h))
          · exact Or.inr (Or.inl (Or.inr h))
          · exact Or.inr (Or.inr h)

theorem packSorted_nil : packSorted [] = [] := by rw [packSorted]

theorem packSorted_cons (pid : UInt16) (rest : List UInt16) :
    packSorted (pid :: rest) = (pid, (absorb pid 0 rest).1) :: packSorted (absorb pid 0 rest).2 := by
  rw [packSorted]

/-- unpacking the packed pairs yields exactly the members of the list — for EVERY list -/
theorem mem_unpack_packSorted (x : UInt16) : ∀ (n : Nat) (l : List UInt16), l.length = n →
    (x ∈ unpackNack (packSorted l) ↔ x ∈ l) := by
  intro n
  induction n using Nat.strongRecOn with
  | ind n ih =>
    intro l hl
    match l, hl with
    | [], _ => simp [packSorted_nil, unpackNack]
    | pid :: rest, hl =>
      rw [packSorted_cons]
      simp only [unpackNack, List.mem_cons, List.mem_append, mem_blpSeqs16]
      have hlt : (absorb pid 0 rest).2.length < n := by
        have := absorb_length pid 0 rest
        simp at hl; omega
      rw [ih _ hlt _ rfl, absorb_mem pid rest 0 x]
      constructor
      · rintro (h | h | h)
        · exact Or.inl h
        · exact absurd h (inBlp_zero _ _)
        · exact Or.inr h
      · rintro (h | h)
        · exact Or.inl h
        · exact Or.inr (Or.inr h)

theorem mem_insertAsc (x y : UInt16) (l : List UInt16) : y ∈ insertAsc x l ↔ y = x ∨ y ∈ l := by
  induction l with
  | nil => simp [insertAsc]
  | cons z zs ih =>
    simp only [insertAsc]
    split
    · simp
    · split
      · next h => subst h; simp
      · simp only [List.mem_cons, ih]
        constructor
        · rintro (h | h | h)
          · exact Or.inr (Or.inl h)
          · exact Or.inl h
          · exact Or.inr (Or.inr h)
        · rintro (h | h | h)
          · exact Or.inr (Or.inl h)
          · exact Or.inl h
          · exact Or.inr (Or.inr h)

theorem mem_sortDedup (y : UInt16) (l : List UInt16) : y ∈ sortDedup l ↔ y ∈ l := by
  induction l with
  | nil => simp [sortDedup]
  | cons x xs ih => simp [sortDedup, mem_insertAsc, ih]

end RtcModel.C15
