/- Helper lemmas for the fingerprint text model (C02). -/
import RtcModel.Fingerprint
namespace RtcModel.Fingerprint
set_option maxRecDepth 100000

/-- uppercase hex digit -/
def isUpHex (b : UInt8) : Bool := (0x30 ≤ b && b ≤ 0x39) || (0x41 ≤ b && b ≤ 0x46)

/-- a property of all 256 byte values, checked exhaustively -/
theorem forall_u8 {P : UInt8 → Prop} (h : ∀ n : Fin 256, P (UInt8.ofNat n.val)) : ∀ x, P x := by
  intro x
  have := h ⟨x.toNat, x.toNat_lt⟩
  simpa using this

theorem upHex_of_isHex_upper : ∀ y : UInt8, isHex (upper y) = true → isUpHex (upper y) = true := forall_u8 (by decide)
theorem upper_idem_upHex : ∀ x : UInt8, isUpHex x = true → upper x = x := forall_u8 (by decide)
theorem upHex_not_sep : ∀ x : UInt8, isUpHex x = true → (!isWs x && x != colon) = true := forall_u8 (by decide)
theorem upHex_isHex : ∀ x : UInt8, isUpHex x = true → isHex x = true := forall_u8 (by decide)
theorem hexVal_lt : ∀ x : UInt8, isUpHex x = true → hexVal x < 16 := forall_u8 (by decide)
theorem hexUpper_hexVal : ∀ x : UInt8, isUpHex x = true → hexUpper (hexVal x) = x := forall_u8 (by decide)
theorem hexUpper_upHex : ∀ n : Fin 16, isUpHex (hexUpper n.val) = true := by decide
theorem hexVal_hexUpper : ∀ n : Fin 16, hexVal (hexUpper n.val) = n.val := by decide

theorem strip_upHex (xs : Bytes) (h : xs.all isUpHex = true) : strip xs = xs := by
  induction xs with
  | nil => rfl
  | cons x xs ih =>
    simp only [List.all_cons, Bool.and_eq_true] at h
    simp only [strip, List.filter_cons, upHex_not_sep x h.1, if_true, List.map_cons, upper_idem_upHex x h.1]
    congr 1
    exact ih h.2

theorem strip_joinPairs (xs : Bytes) (h : xs.all isUpHex = true) : strip (joinPairs xs) = xs := by
  fun_induction joinPairs xs with
  | case1 a b c rest ih =>
    simp only [List.all_cons, Bool.and_eq_true] at h
    have hc : strip (joinPairs (c :: rest)) = c :: rest := ih (by simp [h.2.2.1, h.2.2.2])
    simp only [strip, List.filter_cons, upHex_not_sep a h.1, upHex_not_sep b h.2.1, if_true, List.map_cons,
      upper_idem_upHex a h.1, upper_idem_upHex b h.2.1]
    have : (!isWs colon && colon != colon) = false := by decide
    simp only [this, Bool.false_eq_true, if_false]
    exact congrArg (fun t => a :: b :: t) hc
  | case2 r hr => exact strip_upHex r h


theorem strip_all_upHex (s : Bytes) (h : (strip s).all isHex = true) : (strip s).all isUpHex = true := by
  simp only [strip, List.all_map, List.all_eq_true, Function.comp] at h ⊢
  intro y hy
  exact upHex_of_isHex_upper y (h y hy)

theorem byte_split (b : UInt8) : b.toNat / 16 < 16 ∧ b.toNat % 16 < 16 ∧ b.toNat / 16 * 16 + b.toNat % 16 = b.toNat := by
  have := b.toNat_lt
  omega

theorem hexPairs_all_upHex (d : Bytes) : (hexPairs d).all isUpHex = true := by
  induction d with
  | nil => rfl
  | cons b rest ih =>
    have hb := byte_split b
    simp only [hexPairs, List.all_cons, ih, Bool.and_true, Bool.and_eq_true]
    exact ⟨hexUpper_upHex ⟨_, hb.1⟩, hexUpper_upHex ⟨_, hb.2.1⟩⟩

theorem decodePairs_hexPairs (d : Bytes) : decodePairs (hexPairs d) = d := by
  induction d with
  | nil => rfl
  | cons b rest ih =>
    have hb := byte_split b
    simp only [hexPairs, decodePairs, ih]
    congr 1
    rw [hexVal_hexUpper ⟨_, hb.1⟩, hexVal_hexUpper ⟨_, hb.2.1⟩]
    simp only [hb.2.2]
    simp

theorem hexPairs_decodePairs : ∀ (n : Bytes), n.length % 2 = 0 → n.all isUpHex = true → hexPairs (decodePairs n) = n
  | [], _, _ => rfl
  | [_], h, _ => by simp at h
  | a :: b :: rest, h, hall => by
    simp only [List.all_cons, Bool.and_eq_true] at hall
    have ha := hexVal_lt a hall.1
    have hb := hexVal_lt b hall.2.1
    have ih := hexPairs_decodePairs rest (by simp at h; omega) hall.2.2
    simp only [decodePairs, hexPairs, ih]
    have hv : (UInt8.ofNat (hexVal a * 16 + hexVal b)).toNat = hexVal a * 16 + hexVal b := by
      simp [UInt8.toNat_ofNat']; omega
    rw [hv]
    have h1 : (hexVal a * 16 + hexVal b) / 16 = hexVal a := by omega
    have h2 : (hexVal a * 16 + hexVal b) % 16 = hexVal b := by omega
    rw [h1, h2, hexUpper_hexVal a hall.1, hexUpper_hexVal b hall.2.1]

end RtcModel.Fingerprint
