/- Frame lemmas for `RtcModel.Lifecycle` (C17): which building block touches which field. -/
import RtcModel.Lifecycle
namespace RtcModel.Lifecycle

/-! ### reason -/

theorem setReasonIfNone_keeps (s : St) (x r : Reason) (h : s.reason = some r) :
    (setReasonIfNone s x).reason = some r := by
  simp [setReasonIfNone, h]

theorem setReasonIfNone_isSome (s : St) (x : Reason) : (setReasonIfNone s x).reason.isSome = true := by
  unfold setReasonIfNone; split <;> simp_all

@[simp] theorem sctpEnd_reason (s : St) : (sctpEnd s).reason = s.reason := rfl
@[simp] theorem abortLoops_reason (s : St) : (abortLoops s).reason = s.reason := by
  unfold abortLoops; split <;> rfl
@[simp] theorem beginStart_reason (s : St) : (beginStart s).reason = s.reason := rfl
@[simp] theorem topConnected_reason (s : St) : (topConnected s).reason = s.reason := by
  unfold topConnected; split <;> (try split) <;> rfl
@[simp] theorem closeB_reason (s : St) : (closeB s).reason = s.reason := rfl
@[simp] theorem closeC_reason (s : St) : (closeC s).reason = s.reason := rfl

@[simp] theorem markGone_reason (s : St) : (markGone s).reason = s.reason := by
  unfold markGone; split <;> rfl
@[simp] theorem markGone_chans (s : St) : (markGone s).chans = s.chans := by
  unfold markGone; split <;> rfl

theorem propagate_keeps (s : St) (r : Reason) (h : s.reason = some r) : (propagate s).reason = some r := by
  unfold propagate
  split
  · split
    · split
      · simp [setReasonIfNone_keeps s _ r h]
      · exact h
    · exact h
  · exact h

theorem teardown_keeps (s : St) (a r : Reason) (h : s.reason = some r) : (teardown s a).reason = some r := by
  unfold teardown
  split
  · exact h
  · simp [setReasonIfNone, h]

theorem topDown_keeps (s : St) (r : Reason) (h : s.reason = some r) : (topDown s).reason = some r := by
  unfold topDown
  split
  · simp [setReasonIfNone, h]
  · split
    · simp only []
      exact teardown_keeps _ _ r (setReasonIfNone_keeps s _ r h)
    · exact h

theorem closeA_keeps (s : St) (a r : Reason) (h : s.reason = some r) : (closeA s a).reason = some r := by
  unfold closeA
  split
  · exact h
  · simp [setReasonIfNone, h]

theorem dropAll_keeps (s : St) (r : Reason) (h : s.reason = some r) : (dropAll s).reason = some r := by
  unfold dropAll
  simp only [abortLoops_reason]
  exact teardown_keeps s _ r h

/-! ### channels: every block either leaves the list alone or maps `closeChan` over it -/

/-- the only two things that ever happen to the channel list -/
def ChansStep (old new : List Chan) : Prop := new = old ∨ new = old.map closeChan

theorem closeChan_idem (c : Chan) : closeChan (closeChan c) = closeChan c := by
  unfold closeChan; split <;> simp_all

theorem map_closeChan_idem (l : List Chan) : (l.map closeChan).map closeChan = l.map closeChan := by
  simp [List.map_map, Function.comp_def, closeChan_idem]

theorem ChansStep.trans {a b c : List Chan} (h1 : ChansStep a b) (h2 : ChansStep b c) : ChansStep a c := by
  rcases h1 with h1 | h1 <;> rcases h2 with h2 | h2 <;> subst h1 <;> subst h2
  · left; rfl
  · right; rfl
  · right; rfl
  · right; exact map_closeChan_idem a

theorem ChansStep.refl (a : List Chan) : ChansStep a a := Or.inl rfl

theorem sctpEnd_chans (s : St) : ChansStep s.chans (sctpEnd s).chans := Or.inr rfl
theorem abortLoops_chans (s : St) : ChansStep s.chans (abortLoops s).chans := by
  unfold abortLoops; split
  · exact sctpEnd_chans s
  · exact .refl _
@[simp] theorem setReasonIfNone_chans (s : St) (r : Reason) : (setReasonIfNone s r).chans = s.chans := by
  unfold setReasonIfNone; split <;> rfl
@[simp] theorem propagate_chans (s : St) : (propagate s).chans = s.chans := by
  unfold propagate
  split
  · split
    · split
      · simp
      · rfl
    · rfl
  · rfl
theorem teardown_chans (s : St) (a : Reason) : ChansStep s.chans (teardown s a).chans := by
  unfold teardown; split
  · exact .refl _
  · right; rfl
theorem topDown_chans (s : St) : ChansStep s.chans (topDown s).chans := by
  unfold topDown
  split
  · left; simp
  · split
    · have := teardown_chans (setReasonIfNone s .iceDisconnected) .iceDisconnected
      simpa using this
    · exact .refl _
@[simp] theorem beginStart_chans (s : St) : (beginStart s).chans = s.chans := rfl
@[simp] theorem topConnected_chans (s : St) : (topConnected s).chans = s.chans := by
  unfold topConnected; split <;> (try split) <;> rfl
@[simp] theorem closeA_chans (s : St) (a : Reason) : (closeA s a).chans = s.chans := by
  unfold closeA; split <;> simp
theorem closeB_chans (s : St) : (closeB s).chans = s.chans.map closeChan := rfl
@[simp] theorem closeC_chans (s : St) : (closeC s).chans = s.chans := rfl
theorem dropAll_chans (s : St) : ChansStep s.chans (dropAll s).chans := by
  unfold dropAll
  have h1 := teardown_chans s .dropped
  have h2 := abortLoops_chans { teardown s .dropped with drv := .done }
  exact h1.trans h2

end RtcModel.Lifecycle

namespace RtcModel.Lifecycle

/-! ### flexible forms (the argument is any state with the same channels / reason) -/

theorem sctpEnd_chans' (s t : St) (h : t.chans = s.chans) : ChansStep s.chans (sctpEnd t).chans := by
  right; simp [sctpEnd, h]
theorem abortLoops_chans' (s t : St) (h : t.chans = s.chans) : ChansStep s.chans (abortLoops t).chans := by
  have := abortLoops_chans t; rwa [h] at this
theorem topDown_chans' (s t : St) (h : ChansStep s.chans t.chans) : ChansStep s.chans (topDown t).chans :=
  h.trans (topDown_chans t)

/-- per action: the channel list is left alone or closed-once over -/
theorem apply_chans (s : St) (a : Act) : ChansStep s.chans (apply s a).chans := by
  cases a with
  | callClose arg => simp only [apply]; left; simp
  | closeStep => simp only [apply]; split; exact Or.inr rfl; exact Or.inl rfl
  | appDrop => simp only [apply]; split; exact .refl _; exact dropAll_chans s
  | peerAbort => exact sctpEnd_chans' s _ rfl
  | peerShutdownAck => exact sctpEnd_chans' s _ rfl
  | peerShutdown => exact sctpEnd_chans' s _ rfl
  | hbTimeout => exact sctpEnd_chans' s _ rfl
  | drvTop =>
    simp only [apply]; split
    · left; simp
    · split
      · exact topDown_chans s
      · exact Or.inl rfl
  | drvRole => exact Or.inl rfl
  | drvStart =>
    simp only [apply]; split
    · split
      · exact Or.inl rfl
      · left; simp
    · split
      · exact Or.inl rfl
      · exact abortLoops_chans' s _ (by simp)
  | drvLoops =>
    simp only [apply]
    have h1 : ChansStep s.chans (abortLoops (propagate s)).chans := abortLoops_chans' s _ (by simp)
    split
    · exact topDown_chans' s _ h1
    · exact h1
  | drvIce =>
    simp only [apply]; split
    · exact topDown_chans' s _ (abortLoops_chans s)
    · split
      · split
        · exact Or.inl rfl
        · split <;> exact Or.inl rfl
      · exact Or.inl rfl
  | drvDtls =>
    simp only [apply]; split
    · exact abortLoops_chans' s _ (by simp)
    · exact Or.inl rfl
  | drvGrace =>
    simp only [apply]
    have := abortLoops_chans' s ({ setReasonIfNone s .iceDisconnected with peer := .disconnected, grace := false, sctpCloseReq := if s.held then true else s.sctpCloseReq }) (by simp)
    exact this
  | sctpDtls =>
    simp only [apply]; split
    · split
      · exact Or.inl rfl
      · exact sctpEnd_chans s
    · exact sctpEnd_chans' s _ rfl
  | sctpClose => exact sctpEnd_chans' s _ rfl
  | _ => exact Or.inl rfl

/-- per action: a reason that is set stays -/
theorem apply_reason_keeps (s : St) (a : Act) (r : Reason) (h : s.reason = some r) : (apply s a).reason = some r := by
  cases a with
  | callClose arg => exact closeA_keeps s arg r h
  | closeStep => simp only [apply]; split <;> simp [h]
  | appDrop => simp only [apply]; split; exact h; exact dropAll_keeps s r h
  | drvTop =>
    simp only [apply]; split
    · simp [h]
    · split
      · exact topDown_keeps s r h
      · exact h
  | drvRole => simp [apply, h]
  | drvStart =>
    simp only [apply]; split
    · split
      · exact h
      · simp [setReasonIfNone, h]
    · split
      · exact h
      · simp [setReasonIfNone, h]
  | drvLoops =>
    simp only [apply]
    have h1 : (abortLoops (propagate s)).reason = some r := by simp [propagate_keeps s r h]
    split
    · exact topDown_keeps _ r h1
    · exact h1
  | drvIce =>
    simp only [apply]; split
    · exact topDown_keeps _ r (by simp [h])
    · split
      · split
        · exact h
        · split <;> exact h
      · exact h
  | drvDtls =>
    simp only [apply]; split
    · simp [setReasonIfNone, h]
    · exact h
  | drvGrace => simp [apply, setReasonIfNone, h]
  | sctpDtls =>
    simp only [apply]; split
    · split <;> simp [h]
    · simp [h]
  | peerAbort => simp [apply, h]
  | peerShutdownAck => simp [apply, h]
  | peerShutdown => simp [apply, h]
  | hbTimeout => simp [apply, h]
  | sctpClose => simp [apply, h]
  | _ => exact h

end RtcModel.Lifecycle

namespace RtcModel.Lifecycle

theorem terminal_iff (s : St) : terminal s = true ↔
    (s.peer = .disconnected ∨ s.peer = .failed ∨ s.peer = .closed) ∧ ∃ r, s.reason = some r := by
  unfold terminal
  cases s.reason <;> simp [or_assoc]

/-- a state that differs only in fields other than `peer` / `reason` is terminal iff the original is -/
theorem terminal_congr (s t : St) (hp : t.peer = s.peer) (hr : t.reason = s.reason) : terminal t = terminal s := by
  simp [terminal, hp, hr]

@[simp] theorem setReasonIfNone_drv (s : St) (r : Reason) : (setReasonIfNone s r).drv = s.drv := by
  unfold setReasonIfNone; split <;> rfl
@[simp] theorem setReasonIfNone_peer (s : St) (r : Reason) : (setReasonIfNone s r).peer = s.peer := by
  unfold setReasonIfNone; split <;> rfl

theorem teardown_peer (s : St) (a : Reason) : (teardown s a).peer = .closed := by
  unfold teardown; split <;> simp_all

@[simp] theorem abortLoops_peer (s : St) : (abortLoops s).peer = s.peer := by unfold abortLoops; split <;> rfl
@[simp] theorem abortLoops_drv (s : St) : (abortLoops s).drv = s.drv := by unfold abortLoops; split <;> rfl
@[simp] theorem teardown_drv (s : St) (a : Reason) : (teardown s a).drv = s.drv := by
  unfold teardown; split <;> simp
@[simp] theorem closeA_drv (s : St) (a : Reason) : (closeA s a).drv = s.drv := by
  unfold closeA; split <;> simp

/-- with the driving loop gone and a terminal state, one step of any actor keeps both -/
theorem step_done_terminal (s : St) (a : Act) (ht : terminal s = true) (hd : s.drv = .done) :
    terminal (step s a) = true ∧ (step s a).drv = .done := by
  obtain ⟨hp, r, hr⟩ := (terminal_iff s).mp ht
  unfold step
  by_cases hen : enabled s a = true
  · simp only [hen, if_true]
    cases a with
    | callClose arg =>
      refine ⟨?_, by simp [apply, hd]⟩
      rw [terminal_iff]
      refine ⟨?_, r, closeA_keeps s arg r hr⟩
      simp only [apply]; unfold closeA; split
      · simpa using hp
      · simp
    | closeStep =>
      simp only [apply]; split
      · exact ⟨(terminal_congr s _ rfl rfl).trans ht, hd⟩
      · exact ⟨(terminal_congr s _ rfl rfl).trans ht, hd⟩
    | appDrop =>
      simp only [apply]; split
      · exact ⟨ht, hd⟩
      · refine ⟨?_, by simp [dropAll]⟩
        rw [terminal_iff]
        exact ⟨Or.inr (Or.inr (by simp [dropAll, teardown_peer])), r, dropAll_keeps s r hr⟩
    | peerAbort => exact ⟨(terminal_congr s _ rfl rfl).trans ht, hd⟩
    | peerShutdownAck => exact ⟨(terminal_congr s _ rfl rfl).trans ht, hd⟩
    | peerShutdown => exact ⟨(terminal_congr s _ rfl rfl).trans ht, hd⟩
    | hbTimeout => exact ⟨(terminal_congr s _ rfl rfl).trans ht, hd⟩
    | peerCloseNotify => exact ⟨(terminal_congr s _ rfl rfl).trans ht, hd⟩
    | dtlsFail => exact ⟨(terminal_congr s _ rfl rfl).trans ht, hd⟩
    | iceFail => exact ⟨(terminal_congr s _ rfl rfl).trans ht, hd⟩
    | iceStop => exact ⟨(terminal_congr s _ rfl rfl).trans ht, hd⟩
    | iceDisconnect => exact ⟨(terminal_congr s _ rfl rfl).trans ht, hd⟩
    | iceRecover => exact ⟨(terminal_congr s _ rfl rfl).trans ht, hd⟩
    | iceConnect => exact ⟨(terminal_congr s _ rfl rfl).trans ht, hd⟩
    | dtlsConnect => exact ⟨(terminal_congr s _ rfl rfl).trans ht, hd⟩
    | roleSet => exact ⟨(terminal_congr s _ rfl rfl).trans ht, hd⟩
    | dtlsExit => exact ⟨(terminal_congr s _ rfl rfl).trans ht, hd⟩
    | dtlsSock => exact ⟨(terminal_congr s _ rfl rfl).trans ht, hd⟩
    | drvTop => simp [enabled, hd] at hen
    | drvRole => simp [enabled, hd] at hen
    | drvStart => simp [enabled, hd] at hen
    | drvLoops => simp [enabled, hd] at hen
    | drvIce => simp [enabled, hd] at hen
    | drvDtls => simp [enabled, hd] at hen
    | drvGrace => simp [enabled, hd] at hen
    | sctpDtls => simp [enabled, hd] at hen
    | sctpClose => simp [enabled, hd] at hen
  · simp only [hen]; exact ⟨ht, hd⟩

end RtcModel.Lifecycle
